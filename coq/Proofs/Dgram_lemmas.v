(* Proofs/Dgram_lemmas.v — proofs about Model/Dgram.v (C10, C11). *)
From Coq Require Import List NArith Ascii Bool Lia Arith.
From SV Require Import Lib.Bytes Lib.DgramLib Model.Chan Proofs.Chan_lemmas Model.Dgram Gen.Consts.
Import ListNotations.
Local Open Scope N_scope.

(* ------------------------------------------------------------------ *)
(* header codec                                                        *)

Lemma hdr_roundtrip ip port data : no_comma ip ->
  split3 (dgram_hdr (ip, port) data) = Some (ip, dec port, data) /\ undec (dec port) = Some port.
Proof.
  intros H. unfold dgram_hdr. cbn [fst snd]. split.
  - apply split3_app; [exact H|apply dec_no_comma].
  - apply undec_dec.
Qed.

(* frame size: a 4096-byte payload behind a header with an address text of up to
   61000 bytes passes Mux.send's `assert len(data) <= 65535` *)
Lemma lenN_dec_le n : n < 2 ^ 64 -> lenN (dec n) <= 64 + 1.
Proof.
  intros H. unfold dec.
  assert (Hs : N.size n <= 64).
  { destruct (N.eq_dec n 0) as [->|Hn]; [cbn; lia|].
    rewrite N.size_log2 by exact Hn.
    assert (N.log2 n < 64) by (apply N.log2_lt_pow2; lia). lia. }
  assert (G : forall f m, lenN (dec_fuel f m) <= N.of_nat f).
  { induction f as [|f IH]; intros m; cbn [dec_fuel].
    - cbn. lia.
    - destruct (m <? 10).
      + rewrite lenN_cons, lenN_nil. lia.
      + rewrite lenN_app, lenN_cons, lenN_nil. specialize (IH (m / 10)). lia. }
  specialize (G (S (N.to_nat (N.size n))) n). lia.
Qed.

Lemma lenN_takeN_le n l : lenN (takeN n l) <= n.
Proof. unfold takeN, lenN. rewrite firstn_length. lia. Qed.

Lemma hdr_fits ip port data : lenN ip <= 61000 -> port < 2 ^ 64 ->
  lenN (dgram_hdr (ip, port) (takeN BUFSIZE data)) <= 65535.
Proof.
  intros Hi Hp. unfold dgram_hdr. cbn [fst snd].
  rewrite lenN_app, lenN_cons, lenN_app, lenN_cons.
  pose proof (lenN_dec_le port Hp). pose proof (lenN_takeN_le BUFSIZE data). unfold BUFSIZE in *. lia.
Qed.

(* ------------------------------------------------------------------ *)
(* DnsProxy.try_send                                                   *)

(* the socket calls of one try_send, as a list of attempts *)
Definition is_connect (o : sout) : bool := match o with SConnect _ _ _ => true | _ => false end.
Definition is_send (o : sout) : bool := match o with SSend _ _ _ => true | _ => false end.

Definition attempts (outs : list sout) : nat := length (filter is_connect outs).

(* every connect goes to `target`-style addresses, every send carries `req` *)
Definition out_target_ok (cfg : scfg) (o : sout) : Prop :=
  match o with
  | SConnect _ a _ =>
    match sc_to_ns cfg with
    | Some (p, port) => a = (p, if port =? 0 then 53 else port)
    | None => snd a = 53 /\ (In (fst a) (sc_sysns cfg) \/ (sc_sysns cfg = [] /\ fst a = localhost))
    end
  | _ => True
  end.

Definition out_payload_ok (req : bytes) (o : sout) : Prop :=
  match o with
  | SSend _ d _ => d = req
  | SConnect _ _ _ => True
  | _ => False
  end.

Lemma pick_ns_in sysns k : In (pick_ns sysns k) sysns \/ (sysns = [] /\ pick_ns sysns k = localhost).
Proof.
  destruct sysns as [|a l]; [right; split; reflexivity|]. left.
  unfold pick_ns. apply nth_In.
  assert (0 < N.of_nat (length (a :: l))) by (cbn [length]; lia).
  pose proof (N.mod_lt k (N.of_nat (length (a :: l))) ltac:(lia)). lia.
Qed.

Lemma dns_target_ok cfg io s b : out_target_ok cfg (SConnect s (fst (dns_target cfg io)) b).
Proof.
  unfold out_target_ok, dns_target. destruct (sc_to_ns cfg) as [[p port]|]; cbn [fst snd]; [reflexivity|].
  split; [reflexivity|]. apply pick_ns_in.
Qed.

Ltac ts_simpl :=
  cbn [attempts app filter is_connect length d_tries d_request d_chan d_tag d_timeout d_ok d_socks
       set_tries set_socks] in *.

Lemma try_send_spec fx cfg : forall left d nsock io d' nsock' io' outs,
  try_send fx cfg left d nsock io = Ok (d', nsock', io', outs) ->
  (attempts outs <= left)%nat /\
  d_tries d' = d_tries d + N.of_nat (attempts outs) /\
  nsock' = nsock + N.of_nat (attempts outs) /\
  Forall (out_target_ok cfg) outs /\ Forall (out_payload_ok (d_request d)) outs /\
  d_request d' = d_request d /\ d_chan d' = d_chan d /\ d_tag d' = d_tag d /\
  d_timeout d' = d_timeout d /\ d_ok d' = d_ok d /\
  (d_socks d' = d_socks d \/ exists s, d_socks d' = d_socks d ++ [s] /\ nsock <= s < nsock') /\
  (length (d_socks d') <= S (length (d_socks d)))%nat.
Proof.
  induction left as [|left IH]; intros d nsock io d' nsock' io' outs H; cbn [try_send] in H.
  - inversion H; subst. cbn. repeat split; auto; try lia.
  - set (t := dns_target cfg io) in *.
    assert (LEAF_OK : forall io3,
      Ok (set_socks (set_tries d (d_tries d + 1)) (d_socks (set_tries d (d_tries d + 1)) ++ [nsock]),
          nsock + 1, io3, [SConnect nsock (fst t) true; SSend nsock (d_request d) true]) = Ok (d', nsock', io', outs) ->
      (attempts outs <= S left)%nat /\
      d_tries d' = d_tries d + N.of_nat (attempts outs) /\
      nsock' = nsock + N.of_nat (attempts outs) /\
      Forall (out_target_ok cfg) outs /\ Forall (out_payload_ok (d_request d)) outs /\
      d_request d' = d_request d /\ d_chan d' = d_chan d /\ d_tag d' = d_tag d /\
      d_timeout d' = d_timeout d /\ d_ok d' = d_ok d /\
      (d_socks d' = d_socks d \/ exists s, d_socks d' = d_socks d ++ [s] /\ nsock <= s < nsock') /\
      (length (d_socks d') <= S (length (d_socks d)))%nat).
    { intros io3 E. inversion E; subst; clear E. ts_simpl.
      split; [lia|]. split; [lia|]. split; [lia|].
      split; [repeat constructor; apply dns_target_ok|]. split; [repeat constructor|].
      do 5 (split; [reflexivity|]). split.
      - right. exists nsock. split; [reflexivity|lia].
      - rewrite app_length. cbn [length]. lia. }
    assert (REC : forall pre io2,
      Forall (out_target_ok cfg) pre -> Forall (out_payload_ok (d_request d)) pre -> attempts pre = 1%nat ->
      (do r <- try_send fx cfg left (set_tries d (d_tries d + 1)) (nsock + 1) io2;
       (let '(d2, n2, io2, o2) := r in Ok (d2, n2, io2, pre ++ o2))) = Ok (d', nsock', io', outs) ->
      (attempts outs <= S left)%nat /\
      d_tries d' = d_tries d + N.of_nat (attempts outs) /\
      nsock' = nsock + N.of_nat (attempts outs) /\
      Forall (out_target_ok cfg) outs /\ Forall (out_payload_ok (d_request d)) outs /\
      d_request d' = d_request d /\ d_chan d' = d_chan d /\ d_tag d' = d_tag d /\
      d_timeout d' = d_timeout d /\ d_ok d' = d_ok d /\
      (d_socks d' = d_socks d \/ exists s, d_socks d' = d_socks d ++ [s] /\ nsock <= s < nsock') /\
      (length (d_socks d') <= S (length (d_socks d)))%nat).
    { intros pre io2 P1 P2 P3 E.
      destruct (try_send fx cfg left (set_tries d (d_tries d + 1)) (nsock + 1) io2) as [[[[d2 n2] io2'] o2]| |] eqn:Er;
        cbn [bind] in E; try discriminate.
      inversion E; subst; clear E.
      destruct (IH _ _ _ _ _ _ _ Er) as (A1 & A2 & A3 & A4 & A5 & A6 & A7 & A8 & A9 & A10 & A11 & A12).
      assert (Hat : attempts (pre ++ o2) = S (attempts o2)).
      { unfold attempts in *. rewrite filter_app, app_length, P3. reflexivity. }
      ts_simpl. rewrite Hat.
      split; [lia|]. split; [lia|]. split; [lia|].
      split; [apply Forall_app; split; assumption|]. split; [apply Forall_app; split; assumption|].
      do 5 (split; [assumption|]). split; [|exact A12].
      destruct A11 as [A11|[s [A11 A11']]]; [left; exact A11|right; exists s; split; [exact A11|lia]]. }
    assert (STOP : forall pre io2,
      Forall (out_target_ok cfg) pre -> Forall (out_payload_ok (d_request d)) pre -> attempts pre = 1%nat ->
      Ok (set_tries d (d_tries d + 1), nsock + 1, io2, pre) = Ok (d', nsock', io', outs) ->
      (attempts outs <= S left)%nat /\
      d_tries d' = d_tries d + N.of_nat (attempts outs) /\
      nsock' = nsock + N.of_nat (attempts outs) /\
      Forall (out_target_ok cfg) outs /\ Forall (out_payload_ok (d_request d)) outs /\
      d_request d' = d_request d /\ d_chan d' = d_chan d /\ d_tag d' = d_tag d /\
      d_timeout d' = d_timeout d /\ d_ok d' = d_ok d /\
      (d_socks d' = d_socks d \/ exists s, d_socks d' = d_socks d ++ [s] /\ nsock <= s < nsock') /\
      (length (d_socks d') <= S (length (d_socks d)))%nat).
    { intros pre io2 P1 P2 P3 E. inversion E; subst; clear E. ts_simpl. rewrite P3.
      split; [lia|]. split; [lia|]. split; [lia|]. split; [assumption|]. split; [assumption|].
      do 5 (split; [reflexivity|]). split; [left; reflexivity|lia]. }
    assert (T1 : Forall (out_target_ok cfg) [SConnect nsock (fst t) false]) by (repeat constructor; apply dns_target_ok).
    assert (T2 : Forall (out_payload_ok (d_request d)) [SConnect nsock (fst t) false]) by (repeat constructor).
    assert (T3 : Forall (out_target_ok cfg) [SConnect nsock (fst t) true; SSend nsock (d_request d) false]) by (repeat constructor; apply dns_target_ok).
    assert (T4 : Forall (out_payload_ok (d_request d)) [SConnect nsock (fst t) true; SSend nsock (d_request d) false]) by (repeat constructor).
    destruct (fst (pop (snd t))) as [|e|dd|dd pp|k] eqn:Ec.
    2:{ destruct (fx10 fx); [|discriminate]. destruct (is_net_err e).
        - apply (REC [SConnect nsock (fst t) false] (snd (pop (snd t))) T1 T2 eq_refl).
          destruct (try_send fx cfg left (set_tries d (d_tries d + 1)) (nsock + 1) (snd (pop (snd t)))) as [[[[d2 n2] io2'] o2]| |];
            cbn [bind] in *; try discriminate; exact H.
        - apply (STOP _ _ T1 T2 eq_refl H). }
    all: destruct (fst (pop (snd (pop (snd t))))) as [|e2|dd2|dd2 pp2|k2] eqn:Es; try (apply (LEAF_OK _ H)).
    all: destruct (is_net_err e2);
      [ apply (REC _ (snd (pop (snd (pop (snd t))))) T3 T4 eq_refl); exact H
      | apply (STOP _ _ T3 T4 eq_refl H) ].
Qed.

(* what makes a further attempt happen: only a NET_ERRS error *)
Lemma try_send_clean fx cfg left d nsock io :
  (forall e, fst (pop (snd (dns_target cfg io))) <> IoErr e) ->
  (forall e, fst (pop (snd (pop (snd (dns_target cfg io))))) <> IoErr e) ->
  exists d' io', try_send fx cfg (S left) d nsock io =
    Ok (d', nsock + 1, io', [SConnect nsock (fst (dns_target cfg io)) true; SSend nsock (d_request d) true]) /\
    d_socks d' = d_socks d ++ [nsock].
Proof.
  intros H1 H2. cbn [try_send].
  destruct (fst (pop (snd (dns_target cfg io)))) eqn:E1; try (exfalso; eapply H1; reflexivity).
  all: destruct (fst (pop (snd (pop (snd (dns_target cfg io)))))) eqn:E2; try (exfalso; eapply H2; reflexivity).
  all: eexists; eexists; split; reflexivity.
Qed.

Lemma try_send_hard_error cfg left d nsock io e :
  is_net_err e = false ->
  (fst (pop (snd (dns_target cfg io))) = IoErr e \/
   ((forall e', fst (pop (snd (dns_target cfg io))) <> IoErr e') /\
    fst (pop (snd (pop (snd (dns_target cfg io))))) = IoErr e)) ->
  exists d' io' outs, try_send all_fixed cfg (S left) d nsock io = Ok (d', nsock + 1, io', outs) /\
    attempts outs = 1%nat /\ d_socks d' = d_socks d.
Proof.
  intros Hn [H|[H1 H2]]; cbn [try_send].
  - rewrite H. cbn [fx10 all_fixed]. rewrite Hn. do 3 eexists. split; [reflexivity|]. split; reflexivity.
  - destruct (fst (pop (snd (dns_target cfg io)))) eqn:E1; try (exfalso; eapply H1; reflexivity).
    all: rewrite H2, Hn; do 3 eexists; (split; [reflexivity|]); split; reflexivity.
Qed.

(* ------------------------------------------------------------------ *)
(* membership helpers                                                  *)

Lemma mem_In x l : mem x l = true <-> In x l.
Proof.
  unfold mem. rewrite existsb_exists. split.
  - intros [y [Hy E]]. apply N.eqb_eq in E. subst. exact Hy.
  - intros H. exists x. split; [exact H|apply N.eqb_refl].
Qed.

Lemma mem_false_notin x l : mem x l = false <-> ~ In x l.
Proof.
  rewrite <- mem_In. destruct (mem x l); split; intros H; try congruence; try discriminate.
Qed.

Definition Neqb_eq := N.eqb_eq.

Lemma amem_true_iff {V} k (l : list (N * V)) : amem N.eqb k l = true <-> exists v, alookup N.eqb k l = Some v.
Proof. unfold amem. destruct (alookup N.eqb k l); split; intros; eauto; try discriminate. destruct H; discriminate. Qed.

Lemma amem_false_iff {V} k (l : list (N * V)) : amem N.eqb k l = false <-> alookup N.eqb k l = None.
Proof. unfold amem. destruct (alookup N.eqb k l); split; intros; congruence. Qed.

(* ------------------------------------------------------------------ *)
(* the two loops of expire_connections                                 *)

Lemma expire_dns_loop_spec : forall (exp : list (N * N)) chan,
  NoDup (map fst chan) -> NoDup (map fst exp) ->
  (forall p, In p exp -> amem N.eqb (fst p) chan = true) ->
  exists chan', expire_dns_loop exp chan = Ok chan' /\ NoDup (map fst chan') /\
    forall ch, alookup N.eqb ch chan' = if mem ch (map fst exp) then None else alookup N.eqb ch chan.
Proof.
  induction exp as [|[c dl] tl IH]; intros chan Hnd Hne Hin; cbn [expire_dns_loop].
  - exists chan. split; [reflexivity|]. split; [exact Hnd|]. intros ch. reflexivity.
  - pose proof (Hin (c, dl) (or_introl eq_refl)) as Hm. cbn [fst] in Hm. rewrite Hm.
    cbn [map fst] in Hne. inversion Hne as [|? ? Hnot Hne']; subst.
    destruct (IH (adel N.eqb c chan)) as (chan' & E & Hnd' & Hl).
    + apply adel_nodup. exact Hnd.
    + exact Hne'.
    + intros p Hp. apply amem_true_iff.
      assert (fst p <> c). { intros E'. apply Hnot. rewrite <- E'. apply in_map. exact Hp. }
      rewrite (alookup_adel_other N.eqb Neqb_eq) by assumption.
      apply amem_true_iff. apply Hin. right. exact Hp.
    + exists chan'. split; [exact E|]. split; [exact Hnd'|]. intros ch. rewrite Hl.
      cbn [map fst mem existsb]. fold (mem ch (map fst tl)).
      destruct (N.eqb ch c) eqn:Ec; cbn [orb].
      * apply N.eqb_eq in Ec. subst. destruct (mem c (map fst tl)); [reflexivity|].
        apply (alookup_adel_same N.eqb Neqb_eq). exact Hnd.
      * apply N.eqb_neq in Ec. rewrite (alookup_adel_other N.eqb Neqb_eq) by assumption. reflexivity.
Qed.

Definition chan_of (p : addr * (N * N)) : N := fst (snd p).

Lemma mux_check_close ch : ch <= 65535 -> mux_check ch CMD_UDP_CLOSE [] = Ok tt.
Proof.
  intros H. unfold mux_check. cbn [lenN length]. 
  replace (65535 <? N.of_nat 0) with false by reflexivity.
  replace (65535 <? ch) with false by (symmetry; apply N.ltb_ge; exact H).
  reflexivity.
Qed.

Lemma expire_udp_loop_spec : forall (exp : list (addr * (N * N))) chan,
  NoDup (map fst chan) -> NoDup (map chan_of exp) ->
  (forall p, In p exp -> amem N.eqb (chan_of p) chan = true /\ chan_of p <= 65535) ->
  exists chan', expire_udp_loop exp chan =
      Ok (chan', map (fun p => OFrame (chan_of p) CMD_UDP_CLOSE []) exp) /\ NoDup (map fst chan') /\
    forall ch, alookup N.eqb ch chan' = if mem ch (map chan_of exp) then None else alookup N.eqb ch chan.
Proof.
  induction exp as [|[src [c dl]] tl IH]; intros chan Hnd Hne Hin; cbn [expire_udp_loop].
  - exists chan. split; [reflexivity|]. split; [exact Hnd|]. intros ch. reflexivity.
  - destruct (Hin (src, (c, dl)) (or_introl eq_refl)) as [Hm Hr]. unfold chan_of in Hm, Hr. cbn [fst snd] in Hm, Hr.
    rewrite (mux_check_close c Hr). cbn [bind]. rewrite Hm.
    cbn [map] in Hne. unfold chan_of at 1 in Hne. cbn [fst snd] in Hne.
    inversion Hne as [|? ? Hnot Hne']; subst.
    destruct (IH (adel N.eqb c chan)) as (chan' & E & Hnd' & Hl).
    + apply adel_nodup. exact Hnd.
    + exact Hne'.
    + intros p Hp. destruct (Hin p (or_intror Hp)) as [Hm' Hr']. split; [|exact Hr'].
      apply amem_true_iff.
      assert (chan_of p <> c). { intros E. apply Hnot. rewrite <- E. apply in_map. exact Hp. }
      rewrite (alookup_adel_other N.eqb Neqb_eq) by assumption.
      apply amem_true_iff. exact Hm'.
    + exists chan'. rewrite E. cbn [bind fst snd map]. split; [reflexivity|]. split; [exact Hnd'|].
      intros ch. rewrite Hl. unfold chan_of at 2. cbn [fst snd mem existsb]. fold (mem ch (map chan_of tl)).
      destruct (N.eqb ch c) eqn:Ec; cbn [orb].
      * apply N.eqb_eq in Ec. subst. destruct (mem c (map chan_of tl)); [reflexivity|].
        apply (alookup_adel_same N.eqb Neqb_eq). exact Hnd.
      * apply N.eqb_neq in Ec. rewrite (alookup_adel_other N.eqb Neqb_eq) by assumption. reflexivity.
Qed.

(* ------------------------------------------------------------------ *)
(* client invariant                                                    *)

Definition Aeqb_eq := addr_eqb_eq.

Record cinv (cfg : ccfg) (c : cstate) : Prop := {
  ci_nd_chan : NoDup (map fst (c_chan c));
  ci_nd_dns : NoDup (map fst (c_dns c));
  ci_nd_udp : NoDup (map fst (c_udp c));
  ci_chan : forall ch k, alookup N.eqb ch (c_chan c) = Some k ->
     1 <= ch <= 65535 /\
     match k with
     | KDns q f t => amem N.eqb ch (c_dns c) = true /\ q < c_nq c /\
                     (cc_method cfg = MBase -> f = None) /\ (cc_method cfg = MTproxy -> f <> None)
     | KUdp src => cc_method cfg = MTproxy
     | KTcp => True
     end;
  ci_dns : forall ch dl, alookup N.eqb ch (c_dns c) = Some dl ->
     exists q f t, alookup N.eqb ch (c_chan c) = Some (KDns q f t);
  ci_udp : forall src ch dl, alookup addr_eqb src (c_udp c) = Some (ch, dl) ->
     alookup N.eqb ch (c_chan c) = Some (KUdp src);
  ci_qinj : forall ch1 ch2 q f1 t1 f2 t2,
     alookup N.eqb ch1 (c_chan c) = Some (KDns q f1 t1) ->
     alookup N.eqb ch2 (c_chan c) = Some (KDns q f2 t2) -> ch1 = ch2
}.

Lemma cinv_init cfg : cinv cfg c_init.
Proof.
  constructor; cbn; try constructor; intros; discriminate.
Qed.

Definition E1 (now : N) (c : cstate) : list N := map fst (filter (dns_expired now) (c_dns c)).
Definition E2 (now : N) (c : cstate) : list N := map chan_of (filter (udp_expired now) (c_udp c)).

Lemma mem_E1 now c ch : NoDup (map fst (c_dns c)) ->
  (mem ch (E1 now c) = true <-> exists dl, alookup N.eqb ch (c_dns c) = Some dl /\ dl <? now = true).
Proof.
  intros Hnd. rewrite mem_In. unfold E1. rewrite in_map_iff. split.
  - intros [[c0 dl] [Hc Hin]]. cbn [fst] in Hc. subst c0. apply filter_In in Hin. destruct Hin as [Hin Hx].
    exists dl. split; [apply (In_alookup_nodup N.eqb Neqb_eq); assumption|exact Hx].
  - intros [dl [Hl Hx]]. exists (ch, dl). split; [reflexivity|]. apply filter_In. split; [|exact Hx].
    apply (alookup_In N.eqb Neqb_eq). exact Hl.
Qed.

Lemma mem_E2 now c ch : NoDup (map fst (c_udp c)) ->
  (mem ch (E2 now c) = true <->
   exists src dl, alookup addr_eqb src (c_udp c) = Some (ch, dl) /\ dl <? now = true).
Proof.
  intros Hnd. rewrite mem_In. unfold E2. rewrite in_map_iff. split.
  - intros [[src [c0 dl]] [Hc Hin]]. unfold chan_of in Hc. cbn [fst snd] in Hc. subst c0.
    apply filter_In in Hin. destruct Hin as [Hin Hx].
    exists src, dl. split; [apply (In_alookup_nodup addr_eqb Aeqb_eq); assumption|exact Hx].
  - intros [src [dl [Hl Hx]]]. exists (src, (ch, dl)). split; [reflexivity|]. apply filter_In. split; [|exact Hx].
    apply (alookup_In addr_eqb Aeqb_eq). exact Hl.
Qed.

Lemma nodup_chan_of (chan : list (N * ckind)) : forall (l : list (addr * (N * N))),
  NoDup (map fst l) ->
  (forall p, In p l -> alookup N.eqb (chan_of p) chan = Some (KUdp (fst p))) ->
  NoDup (map chan_of l).
Proof.
  induction l as [|a tl IH]; intros Hnd H; cbn [map]; [constructor|].
  cbn [map] in Hnd. inversion Hnd as [|? ? Hnot Hnd']; subst.
  constructor.
  - intros Hin. apply in_map_iff in Hin. destruct Hin as [p [Hp Hin]].
    pose proof (H a (or_introl eq_refl)) as Ha. pose proof (H p (or_intror Hin)) as Hp'.
    rewrite Hp in Hp'. rewrite Ha in Hp'. inversion Hp' as [Heq].
    apply Hnot. rewrite Heq. apply in_map. exact Hin.
  - apply IH; [exact Hnd'|]. intros p Hp. apply H. right. exact Hp.
Qed.

Lemma expire_spec cfg now c : cinv cfg c ->
  exists c', expire now c =
      Ok (c', map (fun p => OFrame (chan_of p) CMD_UDP_CLOSE []) (filter (udp_expired now) (c_udp c))) /\
    cinv cfg c' /\
    c_dns c' = filter (fun p => negb (dns_expired now p)) (c_dns c) /\
    c_udp c' = filter (fun p => negb (udp_expired now p)) (c_udp c) /\
    c_chani c' = c_chani c /\ c_nq c' = c_nq c /\
    forall ch, alookup N.eqb ch (c_chan c') =
               if mem ch (E1 now c) || mem ch (E2 now c) then None else alookup N.eqb ch (c_chan c).
Proof.
  intros I. destruct I as [Ndc Ndd Ndu Ich Idns Iudp Iq].
  unfold expire.
  destruct (expire_dns_loop_spec (filter (dns_expired now) (c_dns c)) (c_chan c)) as (chan1 & E1' & Nd1 & L1).
  { exact Ndc. }
  { apply (filter_nodup). exact Ndd. }
  { intros [ch dl] Hp. apply filter_In in Hp. destruct Hp as [Hp _]. cbn [fst].
    apply (In_alookup_nodup N.eqb Neqb_eq) in Hp; [|exact Ndd].
    destruct (Idns _ _ Hp) as (q & f & t & Hl). apply amem_true_iff. eauto. }
  rewrite E1'. cbn [bind]. fold (E1 now c) in L1.
  assert (Hexp : forall p, In p (filter (udp_expired now) (c_udp c)) ->
                 alookup N.eqb (chan_of p) (c_chan c) = Some (KUdp (fst p))).
  { intros [src [ch dl]] Hp. apply filter_In in Hp. destruct Hp as [Hp _].
    apply (In_alookup_nodup addr_eqb Aeqb_eq) in Hp; [|exact Ndu]. exact (Iudp _ _ _ Hp). }
  assert (HnotE1 : forall ch src, alookup N.eqb ch (c_chan c) = Some (KUdp src) -> mem ch (E1 now c) = false).
  { intros ch src Hl. destruct (mem ch (E1 now c)) eqn:Em; [|reflexivity].
    apply mem_E1 in Em; [|exact Ndd]. destruct Em as [dl [Hd _]].
    destruct (Idns _ _ Hd) as (q & f & t & Hl'). congruence. }
  destruct (expire_udp_loop_spec (filter (udp_expired now) (c_udp c)) chan1) as (chan2 & E2' & Nd2 & L2).
  { exact Nd1. }
  { apply (nodup_chan_of (c_chan c)); [apply filter_nodup; exact Ndu|exact Hexp]. }
  { intros p Hp. pose proof (Hexp p Hp) as Hl. split.
    - apply amem_true_iff. rewrite L1, (HnotE1 _ _ Hl). eauto.
    - apply (Ich _ _ Hl). }
  rewrite E2'. cbn [bind fst snd]. fold (E2 now c) in L2.
  eexists. split; [reflexivity|].
  assert (LK : forall ch, alookup N.eqb ch chan2 =
               if mem ch (E1 now c) || mem ch (E2 now c) then None else alookup N.eqb ch (c_chan c)).
  { intros ch. rewrite L2, L1. destruct (mem ch (E1 now c)), (mem ch (E2 now c)); reflexivity. }
  assert (LKS : forall ch k, alookup N.eqb ch chan2 = Some k ->
               alookup N.eqb ch (c_chan c) = Some k /\ mem ch (E1 now c) = false /\ mem ch (E2 now c) = false).
  { intros ch k H. rewrite LK in H. destruct (mem ch (E1 now c)), (mem ch (E2 now c)); cbn [orb] in H; try discriminate. auto. }
  split; [|cbn [c_dns c_udp c_chani c_nq c_chan]; repeat split; auto].
  constructor; cbn [c_dns c_udp c_chani c_nq c_chan].
  - exact Nd2.
  - apply filter_nodup. exact Ndd.
  - apply filter_nodup. exact Ndu.
  - intros ch k H. destruct (LKS _ _ H) as (Hold & HE1 & HE2).
    destruct (Ich _ _ Hold) as [Hr Hk]. split; [exact Hr|].
    destruct k as [q f t|src|]; auto.
    destruct Hk as (Hm & Hq & Hmeth). split; [|auto].
    apply amem_true_iff in Hm. destruct Hm as [dl Hd]. apply amem_true_iff.
    rewrite (alookup_filter N.eqb Neqb_eq) by exact Ndd. rewrite Hd.
    destruct (dns_expired now (ch, dl)) eqn:Ex; cbn [negb]; [|eauto].
    exfalso. assert (mem ch (E1 now c) = true) by (apply mem_E1; [exact Ndd|]; exists dl; auto). congruence.
  - intros ch dl H. rewrite (alookup_filter N.eqb Neqb_eq) in H by exact Ndd.
    destruct (alookup N.eqb ch (c_dns c)) as [dl'|] eqn:Hd; [|discriminate].
    destruct (dns_expired now (ch, dl')) eqn:Ex; cbn [negb] in H; [discriminate|]. inversion H; subst dl'.
    destruct (Idns _ _ Hd) as (q & f & t & Hl). exists q, f, t. rewrite LK.
    assert (A : mem ch (E1 now c) = false).
    { destruct (mem ch (E1 now c)) eqn:Em; [|reflexivity]. apply mem_E1 in Em; [|exact Ndd].
      destruct Em as [dl2 [Hd2 Hx]]. rewrite Hd in Hd2. inversion Hd2; subst.
      unfold dns_expired in Ex. cbn [snd] in Ex. congruence. }
    assert (B : mem ch (E2 now c) = false).
    { destruct (mem ch (E2 now c)) eqn:Em; [|reflexivity]. apply mem_E2 in Em; [|exact Ndu].
      destruct Em as [src [dl2 [Hu _]]]. pose proof (Iudp _ _ _ Hu). congruence. }
    rewrite A, B. exact Hl.
  - intros src ch dl H. rewrite (alookup_filter addr_eqb Aeqb_eq) in H by exact Ndu.
    destruct (alookup addr_eqb src (c_udp c)) as [[ch' dl']|] eqn:Hu; [|discriminate].
    destruct (udp_expired now (src, (ch', dl'))) eqn:Ex; cbn [negb] in H; [discriminate|]. inversion H; subst ch' dl'.
    pose proof (Iudp _ _ _ Hu) as Hl. rewrite LK. rewrite (HnotE1 _ _ Hl).
    assert (B : mem ch (E2 now c) = false).
    { destruct (mem ch (E2 now c)) eqn:Em; [|reflexivity]. apply mem_E2 in Em; [|exact Ndu].
      destruct Em as [src2 [dl2 [Hu2 Hx]]]. pose proof (Iudp _ _ _ Hu2) as Hl2.
      rewrite Hl in Hl2. inversion Hl2; subst src2. rewrite Hu in Hu2. inversion Hu2; subst dl2.
      unfold udp_expired in Ex. cbn [snd] in Ex. congruence. }
    rewrite B. exact Hl.
  - intros ch1 ch2 q f1 t1 f2 t2 H1 H2.
    destruct (LKS _ _ H1) as (O1 & _). destruct (LKS _ _ H2) as (O2 & _). eapply Iq; eassumption.
Qed.

(* ------------------------------------------------------------------ *)
(* invariant preservation by the table updates                         *)

Definition cfg_ok (cfg : ccfg) : Prop := 1 <= cc_maxc cfg <= 65535.

Definition meth_ok (cfg : ccfg) (f : option addr) : Prop :=
  (cc_method cfg = MBase -> f = None) /\ (cc_method cfg = MTproxy -> f <> None).

Lemma cinv_chani cfg c i : cinv cfg c -> cinv cfg (set_chani c i).
Proof. intros [A B C D E F G]. constructor; cbn [set_chani c_chan c_dns c_udp c_nq]; assumption. Qed.

Ltac lk_same := rewrite (alookup_aset_same N.eqb Neqb_eq).
Ltac lk_other H := rewrite (alookup_aset_other N.eqb Neqb_eq) by exact H.

Lemma cinv_add_dns cfg c ch i dl f t :
  cinv cfg c -> alookup N.eqb ch (c_chan c) = None -> 1 <= ch <= 65535 -> meth_ok cfg f ->
  cinv cfg {| c_chan := aset N.eqb ch (KDns (c_nq c) f t) (c_chan c); c_chani := i;
              c_dns := aset N.eqb ch dl (c_dns c); c_udp := c_udp c; c_nq := c_nq c + 1 |}.
Proof.
  intros [Ndc Ndd Ndu Ich Idns Iudp Iq] Hfree Hr Hm.
  constructor; cbn [c_chan c_dns c_udp c_nq].
  - apply aset_nodup; [exact Neqb_eq|exact Ndc].
  - apply aset_nodup; [exact Neqb_eq|exact Ndd].
  - exact Ndu.
  - intros ch0 k H. destruct (N.eq_dec ch0 ch) as [->|Hne].
    + rewrite (alookup_aset_same N.eqb Neqb_eq) in H. inversion H; subst k. split; [exact Hr|].
      split; [apply amem_true_iff; rewrite (alookup_aset_same N.eqb Neqb_eq); eauto|]. split; [lia|exact Hm].
    + rewrite (alookup_aset_other N.eqb Neqb_eq) in H by exact Hne.
      destruct (Ich _ _ H) as [R K]. split; [exact R|]. destruct k as [q f' t'|src|]; auto.
      destruct K as (K1 & K2 & K3). split; [|split; [lia|exact K3]].
      apply amem_true_iff in K1. destruct K1 as [v Hv]. apply amem_true_iff.
      rewrite (alookup_aset_other N.eqb Neqb_eq) by exact Hne. eauto.
  - intros ch0 dl0 H. destruct (N.eq_dec ch0 ch) as [->|Hne].
    + rewrite (alookup_aset_same N.eqb Neqb_eq). eauto.
    + rewrite (alookup_aset_other N.eqb Neqb_eq) in H by exact Hne.
      rewrite (alookup_aset_other N.eqb Neqb_eq) by exact Hne. eauto.
  - intros src ch0 dl0 H. pose proof (Iudp _ _ _ H) as Hl.
    assert (ch0 <> ch) by (intros ->; congruence).
    rewrite (alookup_aset_other N.eqb Neqb_eq) by assumption. exact Hl.
  - intros ch1 ch2 q f1 t1 f2 t2 H1 H2.
    destruct (N.eq_dec ch1 ch) as [->|N1]; destruct (N.eq_dec ch2 ch) as [->|N2]; auto.
    + rewrite (alookup_aset_same N.eqb Neqb_eq) in H1. inversion H1; subst.
      rewrite (alookup_aset_other N.eqb Neqb_eq) in H2 by exact N2.
      destruct (Ich _ _ H2) as [_ (_ & K & _)]. lia.
    + rewrite (alookup_aset_same N.eqb Neqb_eq) in H2. inversion H2; subst.
      rewrite (alookup_aset_other N.eqb Neqb_eq) in H1 by exact N1.
      destruct (Ich _ _ H1) as [_ (_ & K & _)]. lia.
    + rewrite (alookup_aset_other N.eqb Neqb_eq) in H1 by exact N1.
      rewrite (alookup_aset_other N.eqb Neqb_eq) in H2 by exact N2. eapply Iq; eassumption.
Qed.

(* a channel entry whose kind carries no table obligations of its own *)
Lemma cinv_add_plain cfg c ch i k :
  cinv cfg c -> alookup N.eqb ch (c_chan c) = None -> 1 <= ch <= 65535 ->
  match k with KDns _ _ _ => False | KUdp _ => cc_method cfg = MTproxy | KTcp => True end ->
  cinv cfg {| c_chan := aset N.eqb ch k (c_chan c); c_chani := i;
              c_dns := c_dns c; c_udp := c_udp c; c_nq := c_nq c |}.
Proof.
  intros [Ndc Ndd Ndu Ich Idns Iudp Iq] Hfree Hr Hk.
  constructor; cbn [c_chan c_dns c_udp c_nq]; auto.
  - apply aset_nodup; [exact Neqb_eq|exact Ndc].
  - intros ch0 k0 H. destruct (N.eq_dec ch0 ch) as [->|Hne].
    + rewrite (alookup_aset_same N.eqb Neqb_eq) in H. inversion H; subst k0. split; [exact Hr|].
      destruct k; auto; contradiction.
    + rewrite (alookup_aset_other N.eqb Neqb_eq) in H by exact Hne. exact (Ich _ _ H).
  - intros ch0 dl0 H. destruct (Idns _ _ H) as (q & f & t & Hl).
    assert (ch0 <> ch) by (intros ->; congruence).
    rewrite (alookup_aset_other N.eqb Neqb_eq) by assumption. eauto.
  - intros src ch0 dl0 H. pose proof (Iudp _ _ _ H) as Hl.
    assert (ch0 <> ch) by (intros ->; congruence).
    rewrite (alookup_aset_other N.eqb Neqb_eq) by assumption. exact Hl.
  - intros ch1 ch2 q f1 t1 f2 t2 H1 H2.
    assert (N1 : ch1 <> ch).
    { intros ->. rewrite (alookup_aset_same N.eqb Neqb_eq) in H1. inversion H1; subst. contradiction. }
    assert (N2 : ch2 <> ch).
    { intros ->. rewrite (alookup_aset_same N.eqb Neqb_eq) in H2. inversion H2; subst. contradiction. }
    rewrite (alookup_aset_other N.eqb Neqb_eq) in H1 by exact N1.
    rewrite (alookup_aset_other N.eqb Neqb_eq) in H2 by exact N2. eapply Iq; eassumption.
Qed.

Lemma cinv_set_udp cfg c src ch dl :
  cinv cfg c -> alookup N.eqb ch (c_chan c) = Some (KUdp src) ->
  cinv cfg {| c_chan := c_chan c; c_chani := c_chani c; c_dns := c_dns c;
              c_udp := aset addr_eqb src (ch, dl) (c_udp c); c_nq := c_nq c |}.
Proof.
  intros [Ndc Ndd Ndu Ich Idns Iudp Iq] Hl.
  constructor; cbn [c_chan c_dns c_udp c_nq]; auto.
  - apply aset_nodup; [exact Aeqb_eq|exact Ndu].
  - intros src0 ch0 dl0 H. destruct (list_eq_dec ascii_dec (fst src0) (fst src)) as [E1|N1];
      [destruct (N.eq_dec (snd src0) (snd src)) as [E2|N2]|].
    + assert (src0 = src) by (destruct src0, src; cbn in *; congruence). subst src0.
      rewrite (alookup_aset_same addr_eqb Aeqb_eq) in H. inversion H; subst. exact Hl.
    + assert (src0 <> src) by congruence.
      rewrite (alookup_aset_other addr_eqb Aeqb_eq) in H by assumption. eauto.
    + assert (src0 <> src) by congruence.
      rewrite (alookup_aset_other addr_eqb Aeqb_eq) in H by assumption. eauto.
Qed.

Lemma cinv_del_dns cfg c ch q f t :
  cinv cfg c -> alookup N.eqb ch (c_chan c) = Some (KDns q f t) ->
  cinv cfg {| c_chan := adel N.eqb ch (c_chan c); c_chani := c_chani c;
              c_dns := adel N.eqb ch (c_dns c); c_udp := c_udp c; c_nq := c_nq c |}.
Proof.
  intros [Ndc Ndd Ndu Ich Idns Iudp Iq] Hl.
  assert (LK : forall ch0 k, alookup N.eqb ch0 (adel N.eqb ch (c_chan c)) = Some k ->
                             ch0 <> ch /\ alookup N.eqb ch0 (c_chan c) = Some k).
  { intros ch0 k H. destruct (N.eq_dec ch0 ch) as [->|Hne].
    - rewrite (alookup_adel_same N.eqb Neqb_eq) in H by exact Ndc. discriminate.
    - rewrite (alookup_adel_other N.eqb Neqb_eq) in H by exact Hne. auto. }
  constructor; cbn [c_chan c_dns c_udp c_nq]; auto.
  - apply adel_nodup. exact Ndc.
  - apply adel_nodup. exact Ndd.
  - intros ch0 k H. destruct (LK _ _ H) as [Hne Hold]. destruct (Ich _ _ Hold) as [R K]. split; [exact R|].
    destruct k as [q' f' t'|src|]; auto. destruct K as (K1 & K23). split; [|exact K23].
    apply amem_true_iff in K1. destruct K1 as [v Hv]. apply amem_true_iff.
    rewrite (alookup_adel_other N.eqb Neqb_eq) by exact Hne. eauto.
  - intros ch0 dl0 H. destruct (N.eq_dec ch0 ch) as [->|Hne].
    + rewrite (alookup_adel_same N.eqb Neqb_eq) in H by exact Ndd. discriminate.
    + rewrite (alookup_adel_other N.eqb Neqb_eq) in H by exact Hne.
      rewrite (alookup_adel_other N.eqb Neqb_eq) by exact Hne. eauto.
  - intros src ch0 dl0 H. pose proof (Iudp _ _ _ H) as Hl0.
    assert (ch0 <> ch) by (intros ->; congruence).
    rewrite (alookup_adel_other N.eqb Neqb_eq) by assumption. exact Hl0.
  - intros ch1 ch2 q0 f1 t1 f2 t2 H1 H2. destruct (LK _ _ H1) as [_ O1]. destruct (LK _ _ H2) as [_ O2].
    eapply Iq; eassumption.
Qed.

Lemma mux_check_ok ch cmd data : ch <= 65535 -> cmd <= 65535 -> lenN data <= 65535 ->
  mux_check ch cmd data = Ok tt.
Proof.
  intros A B C. unfold mux_check.
  replace (65535 <? lenN data) with false by (symmetry; apply N.ltb_ge; exact C).
  replace (65535 <? ch) with false by (symmetry; apply N.ltb_ge; exact A).
  replace (65535 <? cmd) with false by (symmetry; apply N.ltb_ge; exact B).
  reflexivity.
Qed.

Lemma cmd_small : CMD_DNS_REQ <= 65535 /\ CMD_DNS_RESPONSE <= 65535 /\ CMD_UDP_OPEN <= 65535 /\
  CMD_UDP_DATA <= 65535 /\ CMD_UDP_CLOSE <= 65535 /\ CMD_TCP_CONNECT <= 65535.
Proof. repeat split; apply N.leb_le; reflexivity. Qed.

Lemma next_channel_fresh cfg c ch i : cfg_ok cfg ->
  next_channel (cc_maxc cfg) (c_occ c) (c_chani c) = (Some ch, i) ->
  alookup N.eqb ch (c_chan c) = None /\ 1 <= ch <= 65535 /\ i = ch.
Proof.
  intros [A B] H. destruct (next_channel_some _ _ _ _ _ H) as (E1 & E2 & E3 & E4 & E5).
  split; [apply amem_false_iff; exact E2|]. split; [|exact E1]. specialize (E5 A). lia.
Qed.

Definition closes (now : N) (c : cstate) : list cout :=
  map (fun p => OFrame (chan_of p) CMD_UDP_CLOSE []) (filter (udp_expired now) (c_udp c)).

(* ------------------------------------------------------------------ *)
(* step specifications (repaired code)                                 *)

Lemma not_expired_fresh now : (now + TIMEOUT <? now) = false.
Proof. apply N.ltb_ge. unfold TIMEOUT. lia. Qed.

(* state after ondns's table updates, before expire_connections *)
Definition c_after_dns (c : cstate) (ch now : N) (f : option addr) (t : addr) : cstate :=
  {| c_chan := aset N.eqb ch (KDns (c_nq c) f t) (c_chan c); c_chani := ch;
     c_dns := aset N.eqb ch (now + TIMEOUT) (c_dns c); c_udp := c_udp c; c_nq := c_nq c + 1 |}.

Lemma meth_guard {A} (m : method) (dst : option addr) (a b : A) : (m = MTproxy -> dst <> None) ->
  match m with MBase => b | MTproxy => match dst with Some _ => b | None => a end end = b.
Proof. intros H. destruct m; [reflexivity|]. destruct dst; [reflexivity|]. exfalso. apply (H eq_refl). reflexivity. Qed.

Lemma ondns_spec cfg now src dst payload c :
  cfg_ok cfg -> cinv cfg c -> (cc_method cfg = MTproxy -> dst <> None) ->
  let dst' := match cc_method cfg with MBase => None | MTproxy => dst end in
  match fst (next_channel (cc_maxc cfg) (c_occ c) (c_chani c)) with
  | None =>
    exists c', ondns all_fixed cfg now src dst payload c = Ok (c', closes now c) /\ cinv cfg c' /\
      c_dns c' = filter (fun p => negb (dns_expired now p)) (c_dns c) /\
      c_udp c' = filter (fun p => negb (udp_expired now p)) (c_udp c) /\ c_nq c' = c_nq c /\
      forall ch0 k, alookup N.eqb ch0 (c_chan c') = Some k -> alookup N.eqb ch0 (c_chan c) = Some k
  | Some ch =>
    alookup N.eqb ch (c_chan c) = None /\ 1 <= ch <= 65535 /\
    let c1 := c_after_dns c ch now dst' src in
    exists c', ondns all_fixed cfg now src dst payload c =
                 Ok (c', OFrame ch CMD_DNS_REQ (takeN BUFSIZE payload) :: closes now c) /\
      cinv cfg c1 /\ cinv cfg c' /\
      alookup N.eqb ch (c_chan c') = Some (KDns (c_nq c) dst' src) /\
      alookup N.eqb ch (c_dns c') = Some (now + TIMEOUT) /\
      c_dns c' = filter (fun p => negb (dns_expired now p)) (c_dns c1) /\
      c_udp c' = filter (fun p => negb (udp_expired now p)) (c_udp c) /\
      c_nq c' = c_nq c + 1 /\
      forall ch0, alookup N.eqb ch0 (c_chan c') =
                  if mem ch0 (E1 now c1) || mem ch0 (E2 now c1) then None else alookup N.eqb ch0 (c_chan c1)
  end.
Proof.
  intros Hcfg I Hdst dst'. unfold ondns.
  assert (Hm : meth_ok cfg dst').
  { unfold meth_ok, dst'. destruct (cc_method cfg); split; intros; try discriminate; auto. }
  destruct (next_channel (cc_maxc cfg) (c_occ c) (c_chani c)) as [[ch|] i] eqn:En; cbn [fst snd].
  - destruct (next_channel_fresh _ _ _ _ Hcfg En) as (Hfree & Hr & ->).
    split; [exact Hfree|]. split; [exact Hr|]. set (c1 := c_after_dns c ch now dst' src).
    assert (I1 : cinv cfg c1) by (apply cinv_add_dns; assumption).
    destruct (expire_spec cfg now c1 I1) as (c' & Ee & I' & Ed & Eu & Ei & Enq & LK).
    exists c'.
    assert (Hmc : mux_check ch CMD_DNS_REQ (takeN BUFSIZE payload) = Ok tt).
    { apply mux_check_ok; [lia|apply cmd_small|]. pose proof (lenN_takeN_le BUFSIZE payload). unfold BUFSIZE in *. lia. }
    split.
    { rewrite (meth_guard _ _ _ _ Hdst).
      rewrite Hmc; cbn [bind]; unfold c1, c_after_dns in Ee; fold dst'; rewrite Ee; cbn [bind]; reflexivity. }
    split; [exact I1|]. split; [exact I'|].
    assert (A : mem ch (E1 now c1) = false).
    { destruct (mem ch (E1 now c1)) eqn:Em; [|reflexivity].
      apply mem_E1 in Em; [|apply I1]. destruct Em as [dl [Hd Hx]].
      unfold c1, c_after_dns in Hd. cbn [c_dns] in Hd. rewrite (alookup_aset_same N.eqb Neqb_eq) in Hd.
      inversion Hd; subst. rewrite not_expired_fresh in Hx. discriminate. }
    assert (B : mem ch (E2 now c1) = false).
    { destruct (mem ch (E2 now c1)) eqn:Em; [|reflexivity].
      apply mem_E2 in Em; [|apply I1]. destruct Em as [s [dl [Hu _]]].
      pose proof (ci_udp _ _ I1 _ _ _ Hu) as Hl. unfold c1, c_after_dns in Hl. cbn [c_chan] in Hl.
      rewrite (alookup_aset_same N.eqb Neqb_eq) in Hl. discriminate. }
    split. { rewrite LK, A, B. cbn [orb]. unfold c1, c_after_dns. cbn [c_chan]. apply (alookup_aset_same N.eqb Neqb_eq). }
    split. { rewrite Ed. rewrite (alookup_filter N.eqb Neqb_eq) by apply I1.
             unfold c1, c_after_dns. cbn [c_dns]. rewrite (alookup_aset_same N.eqb Neqb_eq).
             unfold dns_expired. cbn [snd]. rewrite not_expired_fresh. reflexivity. }
    split; [exact Ed|]. split; [exact Eu|]. split; [exact Enq|]. exact LK.
  - destruct (expire_spec cfg now (set_chani c i) (cinv_chani _ _ _ I)) as (c' & Ee & I' & Ed & Eu & Ei & Enq & LK).
    exists c'. split.
    { rewrite (meth_guard _ _ _ _ Hdst). cbn [fx3 all_fixed]; exact Ee. }
    split; [exact I'|]. split; [exact Ed|]. split; [exact Eu|]. split; [exact Enq|].
    intros ch0 k H. rewrite LK in H.
    destruct (mem ch0 (E1 now (set_chani c i)) || mem ch0 (E2 now (set_chani c i))); [discriminate|exact H].
Qed.

(* dns_done: the reply leaves for the asker and the identifier is released *)
Lemma dns_done_spec cfg c ch q f t data sr :
  cinv cfg c -> alookup N.eqb ch (c_chan c) = Some (KDns q f t) ->
  let c' := {| c_chan := adel N.eqb ch (c_chan c); c_chani := c_chani c;
               c_dns := adel N.eqb ch (c_dns c); c_udp := c_udp c; c_nq := c_nq c |} in
  got_packet all_fixed cfg ch data sr c =
    Ok (c', match sr with SendOk => [ODgram (Some q) f t data] | SendErr _ => [] end) /\
  cinv cfg c' /\ alookup N.eqb ch (c_chan c') = None /\ alookup N.eqb ch (c_dns c') = None.
Proof.
  intros I Hl c'. pose proof (ci_chan _ _ I _ _ Hl) as [Hr (Hm & Hq & Hb & Ht)].
  split.
  - unfold got_packet. rewrite Hl, Hm. unfold send_udp.
    destruct (cc_method cfg) eqn:Em.
    + rewrite (Hb eq_refl). destruct sr; reflexivity.
    + destruct f as [f|]; [|exfalso; apply (Ht eq_refl); reflexivity]. destruct sr; reflexivity.
  - split; [eapply cinv_del_dns; eassumption|]. unfold c'. cbn [c_chan c_dns]. split.
    + apply (alookup_adel_same N.eqb Neqb_eq). apply I.
    + apply (alookup_adel_same N.eqb Neqb_eq). apply I.
Qed.

Lemma closed_channel_spec fx cfg c ch data sr :
  alookup N.eqb ch (c_chan c) = None -> got_packet fx cfg ch data sr c = Ok (c, []).
Proof. intros H. unfold got_packet. rewrite H. reflexivity. Qed.

(* udp_done *)
Lemma udp_done_spec cfg c ch src ip port payload sr :
  cinv cfg c -> alookup N.eqb ch (c_chan c) = Some (KUdp src) -> no_comma ip ->
  got_packet all_fixed cfg ch (dgram_hdr (ip, port) payload) sr c =
    Ok (c, match sr with SendOk => [ODgram None (Some (ip, port)) src payload] | SendErr _ => [] end).
Proof.
  intros I Hl Hn. pose proof (ci_chan _ _ I _ _ Hl) as [_ Hm].
  unfold got_packet. rewrite Hl. destruct (hdr_roundtrip ip port payload Hn) as [-> Hu]. rewrite Hu.
  unfold send_udp. rewrite Hm. destruct sr; reflexivity.
Qed.

(* state after onaccept_udp's table updates, before expire_connections *)
Definition c_after_udp (c : cstate) (chan1 : list (N * ckind)) (i : N) (src : addr) (ch now : N) : cstate :=
  {| c_chan := chan1; c_chani := i; c_dns := c_dns c;
     c_udp := aset addr_eqb src (ch, now + TIMEOUT) (c_udp c); c_nq := c_nq c |}.

Lemma udp_forward_spec cfg now src d data ch c pre :
  cinv cfg c -> alookup N.eqb ch (c_chan c) = Some (KUdp src) -> lenN (fst d) <= 61000 -> snd d < 2 ^ 64 ->
  let c1 := c_after_udp c (c_chan c) (c_chani c) src ch now in
  exists c', udp_forward now src d (takeN BUFSIZE data) ch c pre =
      Ok (c', pre ++ OFrame ch CMD_UDP_DATA (dgram_hdr d (takeN BUFSIZE data)) :: closes now c1) /\
    cinv cfg c1 /\ cinv cfg c' /\
    alookup addr_eqb src (c_udp c') = Some (ch, now + TIMEOUT) /\
    alookup N.eqb ch (c_chan c') = Some (KUdp src) /\
    c_dns c' = filter (fun p => negb (dns_expired now p)) (c_dns c) /\
    c_udp c' = filter (fun p => negb (udp_expired now p)) (c_udp c1) /\
    c_nq c' = c_nq c /\
    forall ch0, alookup N.eqb ch0 (c_chan c') =
                if mem ch0 (E1 now c1) || mem ch0 (E2 now c1) then None else alookup N.eqb ch0 (c_chan c).
Proof.
  intros I Hl Hlen Hport c1.
  assert (I1 : cinv cfg c1) by (apply cinv_set_udp; assumption).
  destruct (expire_spec cfg now c1 I1) as (c' & Ee & I' & Ed & Eu & Ei & Enq & LK).
  exists c'. pose proof (ci_chan _ _ I _ _ Hl) as [Hr _].
  split.
  { unfold udp_forward. rewrite mux_check_ok; [|lia|apply cmd_small|].
    - cbn [bind]. unfold c1, c_after_udp in Ee. rewrite Ee. cbn [bind]. unfold prepend. cbn [fst snd].
      rewrite <- app_assoc. reflexivity.
    - destruct d as [ip port]. apply hdr_fits; assumption. }
  split; [exact I1|]. split; [exact I'|].
  assert (Hsrc : alookup addr_eqb src (c_udp c') = Some (ch, now + TIMEOUT)).
  { rewrite Eu. rewrite (alookup_filter addr_eqb Aeqb_eq) by apply I1.
    unfold c1, c_after_udp. cbn [c_udp]. rewrite (alookup_aset_same addr_eqb Aeqb_eq).
    unfold udp_expired. cbn [snd]. rewrite not_expired_fresh. reflexivity. }
  split; [exact Hsrc|]. split; [exact (ci_udp _ _ I' _ _ _ Hsrc)|].
  split; [exact Ed|]. split; [exact Eu|]. split; [exact Enq|exact LK].
Qed.

Definition cfg_ok' (cfg : ccfg) : Prop := cfg_ok cfg /\ cc_family cfg < 2 ^ 64.

Lemma onaccept_udp_known cfg now src d payload c ch dl0 :
  cinv cfg c -> cc_method cfg = MTproxy -> alookup addr_eqb src (c_udp c) = Some (ch, dl0) ->
  lenN (fst d) <= 61000 -> snd d < 2 ^ 64 ->
  let c1 := c_after_udp c (c_chan c) (c_chani c) src ch now in
  exists c', onaccept_udp all_fixed cfg now src (Some d) payload c =
      Ok (c', OFrame ch CMD_UDP_DATA (dgram_hdr d (takeN BUFSIZE payload)) :: closes now c1) /\
    cinv cfg c' /\ alookup addr_eqb src (c_udp c') = Some (ch, now + TIMEOUT) /\
    alookup N.eqb ch (c_chan c') = Some (KUdp src) /\
    c_udp c' = filter (fun p => negb (udp_expired now p)) (c_udp c1) /\ c_nq c' = c_nq c /\
    forall ch0 k, alookup N.eqb ch0 (c_chan c') = Some k -> alookup N.eqb ch0 (c_chan c) = Some k.
Proof.
  intros I Hm Hs Hlen Hport c1. pose proof (ci_udp _ _ I _ _ _ Hs) as Hl.
  destruct (udp_forward_spec cfg now src d payload ch c [] I Hl Hlen Hport) as (c' & E & I1 & I' & A & B & C & D & F & LK).
  exists c'. split; [unfold onaccept_udp; rewrite Hm, Hs; exact E|].
  split; [exact I'|]. split; [exact A|]. split; [exact B|]. split; [exact D|]. split; [exact F|].
  intros ch0 k H. rewrite LK in H.
  destruct (mem ch0 (E1 now (c_after_udp c (c_chan c) (c_chani c) src ch now)) ||
            mem ch0 (E2 now (c_after_udp c (c_chan c) (c_chani c) src ch now))); [discriminate|exact H].
Qed.

Lemma onaccept_udp_new cfg now src d payload c :
  cfg_ok' cfg -> cinv cfg c -> cc_method cfg = MTproxy -> alookup addr_eqb src (c_udp c) = None ->
  lenN (fst d) <= 61000 -> snd d < 2 ^ 64 ->
  match fst (next_channel (cc_maxc cfg) (c_occ c) (c_chani c)) with
  | None =>
    exists c', onaccept_udp all_fixed cfg now src (Some d) payload c = Ok (c', closes now c) /\ cinv cfg c' /\
      c_udp c' = filter (fun p => negb (udp_expired now p)) (c_udp c) /\ c_nq c' = c_nq c /\
      forall ch0 k, alookup N.eqb ch0 (c_chan c') = Some k -> alookup N.eqb ch0 (c_chan c) = Some k
  | Some ch =>
    alookup N.eqb ch (c_chan c) = None /\
    let c1 := c_after_udp c (aset N.eqb ch (KUdp src) (c_chan c)) ch src ch now in
    exists c', onaccept_udp all_fixed cfg now src (Some d) payload c =
        Ok (c', OFrame ch CMD_UDP_OPEN (dec (cc_family cfg)) ::
                OFrame ch CMD_UDP_DATA (dgram_hdr d (takeN BUFSIZE payload)) :: closes now c1) /\
      cinv cfg c' /\ alookup addr_eqb src (c_udp c') = Some (ch, now + TIMEOUT) /\
      alookup N.eqb ch (c_chan c') = Some (KUdp src) /\
      c_udp c' = filter (fun p => negb (udp_expired now p)) (c_udp c1) /\ c_nq c' = c_nq c /\
      forall ch0 k, alookup N.eqb ch0 (c_chan c') = Some k -> ch0 = ch \/ alookup N.eqb ch0 (c_chan c) = Some k
  end.
Proof.
  intros [Hcfg Hfam] I Hm Hs Hlen Hport. unfold onaccept_udp. rewrite Hm, Hs.
  destruct (next_channel (cc_maxc cfg) (c_occ c) (c_chani c)) as [[ch|] i] eqn:En; cbn [fst snd].
  - destruct (next_channel_fresh _ _ _ _ Hcfg En) as (Hfree & Hr & ->).
    split; [exact Hfree|]. 
    set (c0 := {| c_chan := aset N.eqb ch (KUdp src) (c_chan c); c_chani := ch; c_dns := c_dns c;
                  c_udp := c_udp c; c_nq := c_nq c |}).
    assert (I0 : cinv cfg c0) by (apply cinv_add_plain; assumption).
    assert (Hl0 : alookup N.eqb ch (c_chan c0) = Some (KUdp src)) by (apply (alookup_aset_same N.eqb Neqb_eq)).
    destruct (udp_forward_spec cfg now src d payload ch c0 [OFrame ch CMD_UDP_OPEN (dec (cc_family cfg))] I0 Hl0 Hlen Hport)
      as (c' & E & I1 & I' & A & B & C & D & F & LK).
    exists c'. split.
    { rewrite mux_check_ok; [cbn [bind]; exact E|lia|apply cmd_small|].
      pose proof (lenN_dec_le _ Hfam). lia. }
    split; [exact I'|]. split; [exact A|]. split; [exact B|]. split; [exact D|]. split; [exact F|].
    intros ch0 k H. rewrite LK in H.
    destruct (mem ch0 (E1 now (c_after_udp c0 (c_chan c0) (c_chani c0) src ch now)) ||
              mem ch0 (E2 now (c_after_udp c0 (c_chan c0) (c_chani c0) src ch now))); [discriminate|].
    destruct (N.eq_dec ch0 ch) as [->|Hne]; [left; reflexivity|right].
    unfold c0 in H. cbn [c_chan] in H. rewrite (alookup_aset_other N.eqb Neqb_eq) in H by exact Hne. exact H.
  - destruct (expire_spec cfg now (set_chani c i) (cinv_chani _ _ _ I)) as (c' & Ee & I' & Ed & Eu & Ei & Enq & LK).
    exists c'. cbn [fx3 all_fixed]. split; [exact Ee|]. split; [exact I'|]. split; [exact Eu|]. split; [exact Enq|].
    intros ch0 k H. rewrite LK in H.
    destruct (mem ch0 (E1 now (set_chani c i)) || mem ch0 (E2 now (set_chani c i))); [discriminate|exact H].
Qed.

Lemma onaccept_tcp_spec cfg now fam dst c :
  cfg_ok cfg -> cinv cfg c -> lenN (fst dst) <= 61000 -> fam < 2 ^ 64 -> snd dst < 2 ^ 64 ->
  exists c' o, onaccept_tcp cfg now fam dst c = Ok (c', o) /\ cinv cfg c' /\ c_nq c' = c_nq c /\
    Forall (fun x => match x with OFrame _ _ _ => True | _ => False end) o /\
    forall ch0 q f t, alookup N.eqb ch0 (c_chan c') = Some (KDns q f t) -> alookup N.eqb ch0 (c_chan c) = Some (KDns q f t).
Proof.
  intros Hcfg I Hlen Hfam Hport. unfold onaccept_tcp.
  destruct (next_channel (cc_maxc cfg) (c_occ c) (c_chani c)) as [[ch|] i] eqn:En; cbn [fst snd].
  - destruct (next_channel_fresh _ _ _ _ Hcfg En) as (Hfree & Hr & ->).
    set (c1 := {| c_chan := aset N.eqb ch KTcp (c_chan c); c_chani := ch; c_dns := c_dns c; c_udp := c_udp c; c_nq := c_nq c |}).
    assert (I1 : cinv cfg c1) by (apply cinv_add_plain; auto).
    destruct (expire_spec cfg now c1 I1) as (c' & Ee & I' & Ed & Eu & Ei & Enq & LK).
    rewrite mux_check_ok; [|lia|apply cmd_small|].
    + cbn [bind]. rewrite Ee. cbn [bind]. do 2 eexists. split; [reflexivity|]. split; [exact I'|]. split; [exact Enq|].
      split.
      * unfold prepend. cbn [fst snd app]. constructor; [exact Logic.I|]. apply Forall_forall. intros x Hx.
        apply in_map_iff in Hx. destruct Hx as [p [<- _]]. exact Logic.I.
      * intros ch0 q f t H. rewrite LK in H. destruct (mem ch0 (E1 now c1) || mem ch0 (E2 now c1)); [discriminate|].
        unfold c1 in H. cbn [c_chan] in H. destruct (N.eq_dec ch0 ch) as [->|Hne].
        -- rewrite (alookup_aset_same N.eqb Neqb_eq) in H. discriminate.
        -- rewrite (alookup_aset_other N.eqb Neqb_eq) in H by exact Hne. exact H.
    + rewrite lenN_app, lenN_cons, lenN_app, lenN_cons.
      pose proof (lenN_dec_le _ Hfam). pose proof (lenN_dec_le _ Hport). lia.
  - do 2 eexists. split; [reflexivity|]. split; [apply cinv_chani; exact I|]. split; [reflexivity|].
    split; [constructor|]. intros ch0 q f t H. exact H.
Qed.

(* ------------------------------------------------------------------ *)
(* whole runs of the client                                            *)

Definition in_table (q : N) (c : cstate) : Prop :=
  exists ch f t, alookup N.eqb ch (c_chan c) = Some (KDns q f t).

Definition is_q (q : N) (o : cout) : bool :=
  match o with ODgram (Some q') _ _ _ => N.eqb q q' | _ => false end.
Definition count_q (q : N) (o : list cout) : nat := length (filter (is_q q) o).

Definition frame_wf (data : bytes) : Prop :=
  exists ip port payload, no_comma ip /\ data = dgram_hdr (ip, port) payload.

(* events the environment can produce when the peer speaks the protocol *)
Definition ev_sane (cfg : ccfg) (c : cstate) (e : cevent) : Prop :=
  match e with
  | EDns _ _ _ _ => True
  | EUdp _ _ dst _ => cc_method cfg = MTproxy /\
                      match dst with Some d => lenN (fst d) <= 61000 /\ snd d < 2 ^ 64 | None => True end
  | ETcp _ fam dst => lenN (fst dst) <= 61000 /\ fam < 2 ^ 64 /\ snd dst < 2 ^ 64
  | EFrame ch data _ =>
    match alookup N.eqb ch (c_chan c) with
    | Some (KUdp _) => frame_wf data
    | Some KTcp => False
    | _ => True
    end
  | ETcpEnd _ => True
  end.

(* ------------------------------------------------------------------ *)
(* the end of a TCP flow releases its identifier                       *)

Lemma cmd_small_tcp : CMD_TCP_STOP_SENDING <= 65535 /\ CMD_TCP_EOF <= 65535.
Proof. split; apply N.leb_le; reflexivity. Qed.

Lemma alookup_adel_Some {V} ch ch0 (l : list (N * V)) v : NoDup (map fst l) ->
  alookup N.eqb ch0 (adel N.eqb ch l) = Some v -> ch0 <> ch /\ alookup N.eqb ch0 l = Some v.
Proof.
  intros Hnd H. destruct (N.eq_dec ch0 ch) as [->|Hne].
  - rewrite (alookup_adel_same N.eqb Neqb_eq) in H by exact Hnd. discriminate.
  - rewrite (alookup_adel_other N.eqb Neqb_eq) in H by exact Hne. auto.
Qed.

Definition c_after_tcp_end (c : cstate) (ch : N) : cstate :=
  {| c_chan := adel N.eqb ch (c_chan c); c_chani := c_chani c; c_dns := c_dns c; c_udp := c_udp c; c_nq := c_nq c |}.

Lemma cinv_tcp_end cfg c ch : cinv cfg c -> alookup N.eqb ch (c_chan c) = Some KTcp -> cinv cfg (c_after_tcp_end c ch).
Proof.
  intros [Ndc Ndd Ndu Ich Idns Iudp Iq] Hl. unfold c_after_tcp_end.
  constructor; cbn [c_chan c_dns c_udp c_nq c_chani].
  - apply (adel_nodup N.eqb). exact Ndc.
  - exact Ndd.
  - exact Ndu.
  - intros ch0 k H. destruct (alookup_adel_Some _ _ _ _ Ndc H) as [_ H']. exact (Ich _ _ H').
  - intros ch0 dl H. destruct (Idns _ _ H) as (q & f & t & H'). exists q, f, t.
    rewrite (alookup_adel_other N.eqb Neqb_eq); [exact H'|]. intros ->. congruence.
  - intros src ch0 dl H. pose proof (Iudp _ _ _ H) as H'.
    rewrite (alookup_adel_other N.eqb Neqb_eq); [exact H'|]. intros ->. congruence.
  - intros ch1 ch2 q f1 t1 f2 t2 H1 H2.
    destruct (alookup_adel_Some _ _ _ _ Ndc H1) as [_ H1']. destruct (alookup_adel_Some _ _ _ _ Ndc H2) as [_ H2'].
    exact (Iq _ _ _ _ _ _ _ H1' H2').
Qed.

(* a finished TCP flow: TCP_STOP_SENDING + TCP_EOF on its identifier, which is free from then on (c_occ = what
   next_channel tests); nothing else changes.  Any other identifier: no effect *)
Lemma tcp_end_spec cfg c ch : cinv cfg c ->
  match alookup N.eqb ch (c_chan c) with
  | Some KTcp =>
    tcp_end ch c = Ok (c_after_tcp_end c ch, [OFrame ch CMD_TCP_STOP_SENDING []; OFrame ch CMD_TCP_EOF []]) /\
    cinv cfg (c_after_tcp_end c ch) /\ c_occ (c_after_tcp_end c ch) ch = false /\
    (forall ch0, ch0 <> ch -> alookup N.eqb ch0 (c_chan (c_after_tcp_end c ch)) = alookup N.eqb ch0 (c_chan c)) /\
    (forall ch0, c_occ (c_after_tcp_end c ch) ch0 = true -> c_occ c ch0 = true)
  | _ => tcp_end ch c = Ok (c, [])
  end.
Proof.
  intros I. unfold tcp_end. destruct (alookup N.eqb ch (c_chan c)) as [[q f t|src|]|] eqn:Hl; try reflexivity.
  pose proof (ci_chan _ _ I _ _ Hl) as [Hr _].
  destruct cmd_small_tcp as [S1 S2].
  rewrite !mux_check_ok by (try assumption; try lia; cbn; lia). cbn [bind].
  split; [reflexivity|]. split; [apply cinv_tcp_end; assumption|].
  split; [apply amem_false_iff; apply (alookup_adel_same N.eqb Neqb_eq); apply I|].
  split; [intros ch0 Hne; apply (alookup_adel_other N.eqb Neqb_eq); exact Hne|].
  intros ch0 H. unfold c_occ in *. apply amem_true_iff in H. destruct H as [k H].
  destruct (alookup_adel_Some _ _ _ _ (ci_nd_chan _ _ I) H) as [_ H']. apply amem_true_iff. exists k. exact H'.
Qed.

(* allocation succeeds whenever an identifier within reach of the cursor is free *)
Lemma next_channel_finds maxc occ chani k : (k < TRIES)%nat -> occ (chan_iter (S k) maxc chani) = false ->
  exists c, fst (next_channel maxc occ chani) = Some c.
Proof. intros Hk Hf. exact (next_channel_loop_finds TRIES maxc occ chani k Hk Hf). Qed.

Lemma count_q_frames q l : Forall (fun x => match x with OFrame _ _ _ => True | _ => False end) l -> count_q q l = 0%nat.
Proof.
  induction 1 as [|x l Hx _ IH]; [reflexivity|]. unfold count_q in *. cbn [filter].
  destruct x; [exact IH|contradiction].
Qed.

Lemma closes_frames now c : Forall (fun x => match x with OFrame _ _ _ => True | _ => False end) (closes now c).
Proof. apply Forall_forall. intros x Hx. apply in_map_iff in Hx. destruct Hx as [p [<- _]]. exact Logic.I. Qed.

Lemma cstep_ok cfg c e : cfg_ok' cfg -> cinv cfg c -> ev_sane cfg c e ->
  exists c' o, cstep all_fixed cfg c e = Ok (c', o) /\ cinv cfg c' /\ c_nq c <= c_nq c' /\
    (forall q, in_table q c' -> in_table q c \/ c_nq c <= q) /\
    (forall q, (count_q q o <= 1)%nat /\ (count_q q o = 1%nat -> in_table q c /\ ~ in_table q c')).
Proof.
  intros [Hcfg Hfam] I Hs.
  assert (ZERO : forall q o, Forall (fun x => match x with OFrame _ _ _ => True | _ => False end) o ->
            forall c', (count_q q o <= 1)%nat /\ (count_q q o = 1%nat -> in_table q c /\ ~ in_table q c')).
  { intros q o Ho c'. rewrite (count_q_frames q o Ho). split; [lia|discriminate]. }
  destruct e as [now src dst payload|now src dst payload|now fam dst|ch data sr|tch]; cbn [cstep ev_sane] in *.
  5:{ (* the end of a TCP flow *)
      pose proof (tcp_end_spec cfg c tch I) as SP.
      destruct (alookup N.eqb tch (c_chan c)) as [[q0 f0 t0|src0|]|] eqn:Hl.
      3:{ destruct SP as (E & I' & _ & LK & _). eexists. eexists. split; [exact E|]. split; [exact I'|].
          split; [cbn [c_after_tcp_end c_nq]; lia|]. split.
          - intros q (ch0 & f & t & H). left. exists ch0, f, t. cbn [c_after_tcp_end c_chan] in H.
            destruct (alookup_adel_Some _ _ _ _ (ci_nd_chan _ _ I) H) as [_ H']. exact H'.
          - intros q. apply ZERO. repeat constructor. }
      all: exists c, []; split; [exact SP|]; split; [exact I|]; split; [lia|]; split; [auto|];
           intros q; apply ZERO; constructor. }
  - (* ondns *)
    destruct (cc_method cfg) eqn:Em.
    2: destruct dst as [d|].
    3:{ exists c, []. unfold ondns. rewrite Em. split; [reflexivity|]. split; [exact I|]. split; [lia|].
        split; [auto|]. intros q. apply ZERO. constructor. }
    all: (match goal with |- context [ondns _ _ _ _ ?D _ _] =>
            assert (Hd : cc_method cfg = MTproxy -> D <> None) by (intros; congruence) end;
          pose proof (ondns_spec cfg now src _ payload c Hcfg I Hd) as SP; cbv zeta in SP;
          destruct (fst (next_channel (cc_maxc cfg) (c_occ c) (c_chani c))) as [ch|];
          [ destruct SP as (Hfree & Hr & c' & E & I1 & I' & A & B & C & D & F & LK);
            exists c'; eexists; split; [exact E|]; split; [exact I'|]; split; [lia|]; split;
            [ intros q (ch0 & f & t & H); rewrite LK in H;
              destruct (mem ch0 (E1 now _) || mem ch0 (E2 now _)); [discriminate|];
              unfold c_after_dns in H; cbn [c_chan] in H;
              destruct (N.eq_dec ch0 ch) as [->|Hne];
              [ rewrite (alookup_aset_same N.eqb Neqb_eq) in H; inversion H; subst; right; lia
              | rewrite (alookup_aset_other N.eqb Neqb_eq) in H by exact Hne; left; exists ch0, f, t; exact H ]
            | intros q; apply ZERO; constructor; [exact Logic.I|apply closes_frames] ]
          | destruct SP as (c' & E & I' & A & B & C & SUB);
            exists c'; eexists; split; [exact E|]; split; [exact I'|]; split; [lia|]; split;
            [ intros q (ch0 & f & t & H); left; exists ch0, f, t; apply SUB; exact H
            | intros q; apply ZERO; apply closes_frames ] ]).
  - (* onaccept_udp *)
    destruct Hs as [Hm Hd]. destruct dst as [d|].
    2:{ exists c, []. unfold onaccept_udp. rewrite Hm. split; [reflexivity|]. split; [exact I|]. split; [lia|].
        split; [auto|]. intros q. apply ZERO. constructor. }
    destruct Hd as [Hlen Hport].
    destruct (alookup addr_eqb src (c_udp c)) as [[ch dl0]|] eqn:Hsrc.
    + destruct (onaccept_udp_known cfg now src d payload c ch dl0 I Hm Hsrc Hlen Hport) as (c' & E & I' & A & B & C & D & SUB).
      exists c'. eexists. split; [exact E|]. split; [exact I'|]. split; [lia|]. split.
      * intros q (ch0 & f & t & H). left. exists ch0, f, t. apply SUB. exact H.
      * intros q. apply ZERO. constructor; [exact Logic.I|apply closes_frames].
    + pose proof (onaccept_udp_new cfg now src d payload c (conj Hcfg Hfam) I Hm Hsrc Hlen Hport) as SP. cbv zeta in SP.
      destruct (fst (next_channel (cc_maxc cfg) (c_occ c) (c_chani c))) as [ch|].
      * destruct SP as (Hfree & c' & E & I' & A & B & C & D & SUB).
        exists c'. eexists. split; [exact E|]. split; [exact I'|]. split; [lia|]. split.
        -- intros q (ch0 & f & t & H). destruct (SUB _ _ H) as [->|H']; [congruence|]. left. exists ch0, f, t. exact H'.
        -- intros q. apply ZERO. constructor; [exact Logic.I|]. constructor; [exact Logic.I|apply closes_frames].
      * destruct SP as (c' & E & I' & A & B & SUB).
        exists c'. eexists. split; [exact E|]. split; [exact I'|]. split; [lia|]. split.
        -- intros q (ch0 & f & t & H). left. exists ch0, f, t. apply SUB. exact H.
        -- intros q. apply ZERO. apply closes_frames.
  - (* onaccept_tcp *)
    destruct Hs as (Hlen & Hf & Hport).
    destruct (onaccept_tcp_spec cfg now fam dst c Hcfg I Hlen Hf Hport) as (c' & o & E & I' & Enq & Ho & SUB).
    exists c', o. split; [exact E|]. split; [exact I'|]. split; [lia|]. split.
    + intros q (ch0 & f & t & H). left. exists ch0, f, t. apply SUB. exact H.
    + intros q. apply ZERO. exact Ho.
  - (* frame from the server *)
    destruct (alookup N.eqb ch (c_chan c)) as [[q0 f t|src|]|] eqn:Hl.
    + destruct (dns_done_spec cfg c ch q0 f t data sr I Hl) as (E & I' & A & B).
      eexists. eexists. split; [exact E|]. split; [exact I'|]. split; [cbn [c_nq]; lia|].
      assert (SUB : forall q, in_table q {| c_chan := adel N.eqb ch (c_chan c); c_chani := c_chani c;
                        c_dns := adel N.eqb ch (c_dns c); c_udp := c_udp c; c_nq := c_nq c |} ->
                      in_table q c /\ q <> q0).
      { intros q (ch0 & f0 & t0 & H). cbn [c_chan] in H. destruct (N.eq_dec ch0 ch) as [->|Hne].
        - rewrite (alookup_adel_same N.eqb Neqb_eq) in H by apply I. discriminate.
        - rewrite (alookup_adel_other N.eqb Neqb_eq) in H by exact Hne. split; [exists ch0, f0, t0; exact H|].
          intros ->. apply Hne. exact (ci_qinj _ _ I _ _ _ _ _ _ _ H Hl). }
      split; [intros q Hq; left; apply SUB; exact Hq|].
      intros q. destruct sr as [|e]; [|split; [cbn; lia|cbn; discriminate]].
      unfold count_q. cbn [filter is_q]. destruct (N.eqb q q0) eqn:Eq; cbn [length]; split; try lia; try discriminate.
      intros _. apply N.eqb_eq in Eq. subst q. split; [exists ch, f, t; exact Hl|].
      intros Hq. destruct (SUB _ Hq) as [_ Hne]. congruence.
    + destruct Hs as (ip & port & payload & Hn & ->).
      rewrite (udp_done_spec cfg c ch src ip port payload sr I Hl Hn).
      eexists. eexists. split; [reflexivity|]. split; [exact I|]. split; [lia|]. split; [auto|].
      intros q. destruct sr; unfold count_q; cbn; split; try lia; discriminate.
    + contradiction.
    + rewrite (closed_channel_spec _ cfg c ch data sr Hl).
      exists c, []. split; [reflexivity|]. split; [exact I|]. split; [lia|]. split; [auto|].
      intros q. unfold count_q. cbn. split; [lia|discriminate].
Qed.

Fixpoint sane_run (cfg : ccfg) (c : cstate) (evs : list cevent) : Prop :=
  match evs with
  | [] => True
  | e :: tl => ev_sane cfg c e /\ forall c' o, cstep all_fixed cfg c e = Ok (c', o) -> sane_run cfg c' tl
  end.

Lemma client_run_ok cfg : cfg_ok' cfg -> forall evs c, cinv cfg c -> sane_run cfg c evs ->
  snd (crun all_fixed cfg c evs) = Ok tt /\ cinv cfg (fst (fst (crun all_fixed cfg c evs))) /\
  length (snd (fst (crun all_fixed cfg c evs))) = length evs.
Proof.
  intros Hcfg. induction evs as [|e tl IH]; intros c I Hs; cbn [crun].
  - cbn. auto.
  - destruct Hs as [He Hn]. destruct (cstep_ok cfg c e Hcfg I He) as (c' & o & E & I' & _).
    rewrite E. specialize (IH c' I' (Hn _ _ E)).
    destruct (crun all_fixed cfg c' tl) as [[c'' os] r]. cbn [fst snd length] in *.
    destruct IH as (A & B & C). auto.
Qed.

Lemma count_q_app q a b : count_q q (a ++ b) = (count_q q a + count_q q b)%nat.
Proof. unfold count_q. rewrite filter_app, app_length. reflexivity. Qed.

Lemma client_at_most_once cfg : cfg_ok' cfg -> forall evs c q, cinv cfg c -> sane_run cfg c evs ->
  let outs := concat (snd (fst (crun all_fixed cfg c evs))) in
  (count_q q outs <= 1)%nat /\ (q < c_nq c -> ~ in_table q c -> count_q q outs = 0%nat).
Proof.
  intros Hcfg. induction evs as [|e tl IH]; intros c q I Hs; cbn [crun].
  - cbn. split; [lia|auto].
  - destruct Hs as [He Hn]. destruct (cstep_ok cfg c e Hcfg I He) as (c' & o & E & I' & Hnq & Htab & Hcnt).
    rewrite E. specialize (IH c' q I' (Hn _ _ E)).
    destruct (crun all_fixed cfg c' tl) as [[c'' os] r]. cbn [fst snd concat] in *.
    rewrite count_q_app. destruct IH as [R1 R2]. destruct (Hcnt q) as [C1 C2].
    destruct (Nat.eq_dec (count_q q o) 1) as [E1|N1].
    + destruct (C2 E1) as [Hin Hnot]. destruct Hin as (ch & f & t & Hl).
      pose proof (ci_chan _ _ I _ _ Hl) as [_ (_ & Hq & _)].
      assert (count_q q (concat os) = 0%nat) by (apply R2; [lia|exact Hnot]).
      split; [lia|]. intros _ Hn'. exfalso. apply Hn'. exists ch, f, t. exact Hl.
    + assert (count_q q o = 0%nat) by lia. split; [lia|].
      intros Hq Hnot. rewrite R2; [lia|lia|]. intros Hin. destruct (Htab _ Hin); [contradiction|lia].
Qed.

(* ------------------------------------------------------------------ *)
(* server: function-level facts                                        *)

Lemma try_send_no_crash cfg : forall left d nsock io, exists r, try_send all_fixed cfg left d nsock io = Ok r.
Proof.
  induction left as [|left IH]; intros d nsock io; cbn [try_send]; [eexists; reflexivity|].
  destruct (fst (pop (snd (dns_target cfg io)))) eqn:Ec.
  2:{ cbn [fx10 all_fixed]. destruct (is_net_err e); [|eexists; reflexivity].
      destruct (IH (set_tries d (d_tries d + 1)) (nsock + 1) (snd (pop (snd (dns_target cfg io))))) as [[[[d2 n2] io2] o2] ->].
      cbn [bind]. eexists; reflexivity. }
  all: destruct (fst (pop (snd (pop (snd (dns_target cfg io)))))) eqn:Es; try (eexists; reflexivity).
  all: destruct (is_net_err e); [|eexists; reflexivity].
  all: destruct (IH (set_tries d (d_tries d + 1)) (nsock + 1) (snd (pop (snd (pop (snd (dns_target cfg io))))))) as [[[[d2 n2] io2] o2] ->];
       cbn [bind]; eexists; reflexivity.
Qed.

Lemma try_send_at_least_one fx cfg left d nsock io d' n' io' outs :
  try_send fx cfg (S left) d nsock io = Ok (d', n', io', outs) -> (1 <= attempts outs)%nat.
Proof.
  intros E. cbn [try_send] in E.
  destruct (fst (pop (snd (dns_target cfg io)))).
  2:{ destruct (fx10 fx); [|discriminate]. destruct (is_net_err e).
      - destruct (try_send fx cfg left _ _ _) as [[[[d2 n2] io2] o2]| |]; cbn [bind] in E; try discriminate.
        inversion E; subst. cbn. lia.
      - inversion E; subst. cbn. lia. }
  all: destruct (fst (pop (snd (pop (snd (dns_target cfg io)))))); try (inversion E; subst; cbn; lia).
  all: destruct (is_net_err e); [|inversion E; subst; cbn; lia].
  all: destruct (try_send fx cfg left _ _ _) as [[[[d2 n2] io2] o2]| |]; cbn [bind] in E; try discriminate;
       inversion E; subst; cbn; lia.
Qed.

Lemma dns_req_spec cfg now ch data tag s io :
  exists d nsock io' outs,
    dns_req all_fixed cfg now ch data tag s io =
      Ok ({| s_h := s_h s ++ [(s_nhid s, HDns d)]; s_dnsh := aset N.eqb ch (s_nhid s) (s_dnsh s);
             s_udph := s_udph s; s_chan := s_chan s; s_nsock := nsock; s_nhid := s_nhid s + 1 |}, io', outs) /\
    d_request d = data /\ d_chan d = ch /\ d_tag d = tag /\ d_timeout d = now + TIMEOUT /\ d_ok d = true /\
    (length (d_socks d) <= 1)%nat /\ d_tries d <= 3 /\
    (1 <= attempts outs <= 3)%nat /\ Forall (out_target_ok cfg) outs /\ Forall (out_payload_ok data) outs.
Proof.
  unfold dns_req.
  set (d0 := {| d_chan := ch; d_tag := tag; d_timeout := now + TIMEOUT; d_tries := 0; d_request := data;
                d_socks := []; d_ok := true |}).
  destruct (try_send_no_crash cfg (tries_left d0) d0 (s_nsock s) io) as [[[[d n] io'] outs] E].
  rewrite E. cbn [bind]. exists d, n, io', outs. split; [reflexivity|].
  destruct (try_send_spec _ _ _ _ _ _ _ _ _ _ E) as (A1 & A2 & A3 & A4 & A5 & A6 & A7 & A8 & A9 & A10 & A11 & A12).
  cbn [d0 d_request d_chan d_tag d_timeout d_ok d_socks d_tries] in *.
  assert (tries_left d0 = 3%nat) by reflexivity.
  repeat split; auto; try lia.
  unfold tries_left in E. cbn [d0 d_tries] in E. change (N.to_nat (3 - 0)) with 3%nat in E.
  exact (try_send_at_least_one _ _ _ _ _ _ _ _ _ _ E).
Qed.

Definition not_err (it : io_item) : Prop := forall e, it <> IoErr e.

Definition io_bytes (it : io_item) : bytes := match it with IoData x => x | IoFrom x _ => x | _ => [] end.

(* DnsProxy.callback relays the reply verbatim (cut at 4096 like recv(4096)) and retires *)
Lemma dns_callback_reply fx cfg hid d sock s io :
  not_err (fst (pop io)) -> d_chan d <= 65535 ->
  dns_callback fx cfg hid d sock s io =
    Ok (set_handler s hid (HDns (set_dok d false)) (s_nsock s), snd (pop io),
        [SFrame (d_chan d) CMD_DNS_RESPONSE (takeN BUFSIZE (io_bytes (fst (pop io)))) (d_tag d)]).
Proof.
  intros Hn Hc. unfold dns_callback.
  assert (M : forall x, mux_check (d_chan d) CMD_DNS_RESPONSE (takeN BUFSIZE x) = Ok tt).
  { intros x. apply mux_check_ok; [exact Hc|apply cmd_small|]. pose proof (lenN_takeN_le BUFSIZE x). unfold BUFSIZE in *. lia. }
  destruct (fst (pop io)) eqn:E; try (exfalso; eapply Hn; reflexivity); cbn [io_bytes]; rewrite M; reflexivity.
Qed.

(* an error on the resolver socket: the socket is dropped, a NET_ERRS error retries, nothing crashes,
   and the handler still holds at most one socket *)
Lemma dns_callback_error cfg hid d sock s io e :
  fst (pop io) = IoErr e -> d_socks d = [sock] ->
  exists d' nsock io' outs,
    dns_callback all_fixed cfg hid d sock s io = Ok (set_handler s hid (HDns d') nsock, io', outs) /\
    (length (d_socks d') <= 1)%nat /\ d_request d' = d_request d /\ d_chan d' = d_chan d /\ d_ok d' = d_ok d /\
    Forall (out_payload_ok (d_request d)) outs /\ Forall (out_target_ok cfg) outs /\
    (attempts outs <= tries_left d)%nat /\ (is_net_err e = false -> outs = []).
Proof.
  intros E Hs. unfold dns_callback. rewrite E.
  assert (Hr : remove_sock sock (d_socks d) = []).
  { rewrite Hs. unfold remove_sock. cbn [filter]. rewrite N.eqb_refl. reflexivity. }
  rewrite Hr. destruct (is_net_err e).
  - destruct (try_send_no_crash cfg (tries_left (set_socks d [])) (set_socks d []) (s_nsock s) (snd (pop io)))
      as [[[[d2 n2] io2] o2] Et].
    rewrite Et. cbn [bind]. exists d2, n2, io2, o2. split; [reflexivity|].
    destruct (try_send_spec _ _ _ _ _ _ _ _ _ _ Et) as (A1 & A2 & A3 & A4 & A5 & A6 & A7 & A8 & A9 & A10 & A11 & A12).
    cbn [set_socks d_socks d_request d_chan d_ok length] in *. repeat split; auto; try lia.
  - exists (set_socks d []), (s_nsock s), (snd (pop io)), []. split; [reflexivity|].
    cbn [set_socks d_socks d_request d_chan d_ok length attempts filter]. repeat split; auto; try lia; try constructor.
Qed.

(* UdpProxy.callback: recvfrom errors are logged (F4 repaired); a reply becomes one UDP_DATA frame *)
Lemma udp_callback_error u s io e : fst (pop io) = IoErr e ->
  udp_callback all_fixed u s io = Ok (s, snd (pop io), []).
Proof. intros E. unfold udp_callback. rewrite E. reflexivity. Qed.

Lemma udp_callback_reply fx u s io data peer :
  fst (pop io) = IoFrom data peer -> u_chan u <= 65535 -> lenN (fst peer) <= 61000 -> snd peer < 2 ^ 64 ->
  udp_callback fx u s io =
    Ok (s, snd (pop io), [SFrame (u_chan u) CMD_UDP_DATA (dgram_hdr peer (takeN BUFSIZE data)) 0]).
Proof.
  intros E Hc Hl Hp. unfold udp_callback. rewrite E.
  rewrite mux_check_ok; [reflexivity|exact Hc|apply cmd_small|]. destruct peer. apply hdr_fits; assumption.
Qed.

(* udp_req: one UDP_DATA frame = exactly one sendto on the association's socket *)
Lemma udp_req_data_spec fx ch s io hid u ip port payload :
  alookup N.eqb ch (s_udph s) = Some hid -> alookup N.eqb hid (s_h s) = Some (HUdp u) ->
  no_comma ip -> port <= 65535 ->
  udp_req fx ch FUdpData (dgram_hdr (ip, port) payload) s io =
    Ok (s, snd (pop io),
        [SSendto (u_sock u) (ip, port) payload (match fst (pop io) with IoErr _ => false | _ => true end)]).
Proof.
  intros H1 H2 Hn Hp. unfold udp_req. destruct (hdr_roundtrip ip port payload Hn) as [-> Hu]. rewrite Hu, H1, H2.
  replace (65535 <? port) with false by (symmetry; apply N.ltb_ge; exact Hp). reflexivity.
Qed.

(* the server's sweeps and the retirement of handlers *)
Lemma sweep_dns_spec now s ch hid d :
  NoDup (map fst (s_dnsh s)) -> alookup N.eqb ch (s_dnsh s) = Some hid -> alookup N.eqb hid (s_h s) = Some (HDns d) ->
  alookup N.eqb ch (s_dnsh (sweep now s)) =
    if (d_timeout d <? now) || negb (d_ok d) then None else Some hid.
Proof.
  intros Hnd H1 H2. unfold sweep. cbn [s_dnsh]. rewrite (alookup_filter N.eqb Neqb_eq) by exact Hnd.
  rewrite H1. unfold dns_dead. cbn [snd]. rewrite H2. destruct ((d_timeout d <? now) || negb (d_ok d)); reflexivity.
Qed.

Lemma sweep_dns_untouched now s ch :
  NoDup (map fst (s_dnsh s)) -> alookup N.eqb ch (s_dnsh s) = None -> alookup N.eqb ch (s_dnsh (sweep now s)) = None.
Proof.
  intros Hnd H. unfold sweep. cbn [s_dnsh]. rewrite (alookup_filter N.eqb Neqb_eq) by exact Hnd. rewrite H. reflexivity.
Qed.

Lemma remove_dead_all_ok s : Forall (fun p => h_ok (snd p) = true) (s_h (remove_dead s)).
Proof. unfold remove_dead. cbn [s_h]. apply Forall_forall. intros p Hp. apply filter_In in Hp. apply Hp. Qed.

Lemma sstep_handlers_ok fx cfg s e s' o : sstep fx cfg s e = Ok (s', o) ->
  Forall (fun p => h_ok (snd p) = true) (s_h s').
Proof.
  unfold sstep. intros H.
  destruct (fold_steps (s_frame fx cfg (se_now e)) (se_frames e) s (se_io e)) as [[[s1 io1] o1]| |]; cbn [bind] in H; try discriminate.
  destruct (fold_steps (visit fx cfg _) (map fst (s_h s1)) s1 io1) as [[[s2 io2] o2]| |]; cbn [bind] in H; try discriminate.
  inversion H; subst. apply remove_dead_all_ok.
Qed.

(* ------------------------------------------------------------------ *)
(* the code as found: refutation witnesses                             *)

Definition w_cfg1 : ccfg := {| cc_method := MBase; cc_maxc := 1; cc_family := 2 |}.
Definition w_cfgT : ccfg := {| cc_method := MTproxy; cc_maxc := 1; cc_family := 2 |}.
Definition w_cfgN : ccfg := {| cc_method := MBase; cc_maxc := 65535; cc_family := 2 |}.
Definition w_a1 : addr := (["a"%char], 1000).
Definition w_a2 : addr := (["a"%char], 1001).
Definition w_scfg : scfg := {| sc_to_ns := Some (["n"%char], 53); sc_sysns := [] |}.
Definition w_f3 : list cevent := [EDns 5 w_a1 None ["x"%char]; EDns 5 w_a2 None ["y"%char]].
Definition w_f3u : list cevent := [EUdp 5 w_a1 (Some w_a2) ["x"%char]; EUdp 5 w_a2 (Some w_a1) ["y"%char]].
Definition w_f16 : list cevent := [EDns 5 w_a1 None ["x"%char]; EFrame 1 ["r"%char] (SendErr 101)].
Definition w_f4 : list sevent :=
  [{| se_now := 5; se_frames := [(7, FUdpOpen, ["2"%char], 0)]; se_ready := []; se_io := [] |};
   {| se_now := 6; se_frames := []; se_ready := [0]; se_io := [IoErr 111] |}].
Definition w_f10 : list sevent :=
  [{| se_now := 5; se_frames := [(7, FDnsReq, ["q"%char], 0)]; se_ready := []; se_io := [IoErr 101] |}].

(* ------------------------------------------------------------------ *)
(* idle expiry of a UDP association                                    *)

Lemma expire_idle cfg now c src ch dl :
  cinv cfg c -> alookup addr_eqb src (c_udp c) = Some (ch, dl) -> dl < now ->
  exists c', expire now c = Ok (c', closes now c) /\ cinv cfg c' /\
    In (OFrame ch CMD_UDP_CLOSE []) (closes now c) /\
    alookup addr_eqb src (c_udp c') = None /\ alookup N.eqb ch (c_chan c') = None.
Proof.
  intros I Hs Hdl. destruct (expire_spec cfg now c I) as (c' & Ee & I' & Ed & Eu & Ei & Enq & LK).
  exists c'. split; [exact Ee|]. split; [exact I'|].
  assert (Hx : udp_expired now (src, (ch, dl)) = true) by (unfold udp_expired; cbn [snd]; apply N.ltb_lt; exact Hdl).
  split; [|split].
  - unfold closes. apply in_map_iff. exists (src, (ch, dl)). split; [reflexivity|].
    apply filter_In. split; [|exact Hx]. apply (alookup_In addr_eqb Aeqb_eq). exact Hs.
  - rewrite Eu. rewrite (alookup_filter addr_eqb Aeqb_eq) by apply I. rewrite Hs, Hx. reflexivity.
  - rewrite LK. assert (mem ch (E2 now c) = true).
    { apply mem_E2; [apply I|]. exists src, dl. split; [exact Hs|apply N.ltb_lt; exact Hdl]. }
    rewrite H. rewrite orb_true_r. reflexivity.
Qed.

Lemma expire_keeps cfg now c src ch dl :
  cinv cfg c -> alookup addr_eqb src (c_udp c) = Some (ch, dl) -> now <= dl ->
  exists c', expire now c = Ok (c', closes now c) /\
    alookup addr_eqb src (c_udp c') = Some (ch, dl) /\ alookup N.eqb ch (c_chan c') = Some (KUdp src).
Proof.
  intros I Hs Hdl. destruct (expire_spec cfg now c I) as (c' & Ee & I' & Ed & Eu & Ei & Enq & LK).
  exists c'. split; [exact Ee|].
  assert (Hx : udp_expired now (src, (ch, dl)) = false) by (unfold udp_expired; cbn [snd]; apply N.ltb_ge; exact Hdl).
  assert (A : alookup addr_eqb src (c_udp c') = Some (ch, dl)).
  { rewrite Eu. rewrite (alookup_filter addr_eqb Aeqb_eq) by apply I. rewrite Hs, Hx. reflexivity. }
  split; [exact A|]. exact (ci_udp _ _ I' _ _ _ A).
Qed.

Lemma mem_remove_chan ch l : mem ch (remove_chan ch l) = false.
Proof.
  apply mem_false_notin. unfold remove_chan. intros H. apply filter_In in H. destruct H as [_ H].
  rewrite N.eqb_refl in H. discriminate.
Qed.

Lemma udp_close_spec fx ch data s io hid u :
  alookup N.eqb ch (s_udph s) = Some hid -> alookup N.eqb hid (s_h s) = Some (HUdp u) ->
  exists s', udp_req fx ch FUdpClose data s io = Ok (s', io, []) /\
    alookup N.eqb hid (s_h s') = Some (HUdp (set_uok u false)) /\ mem ch (s_chan s') = false /\
    s_udph s' = if fx80 fx then adel N.eqb ch (s_udph s) else s_udph s.
Proof.
  intros H1 H2. unfold udp_req. rewrite H1, H2. eexists. split; [reflexivity|].
  cbn [s_h s_chan s_udph set_handler]. split; [apply (alookup_aset_same N.eqb Neqb_eq)|].
  split; [apply mem_remove_chan|reflexivity].
Qed.

Lemma sweep_udp_spec now s ch hid u :
  NoDup (map fst (s_udph s)) -> alookup N.eqb ch (s_udph s) = Some hid -> alookup N.eqb hid (s_h s) = Some (HUdp u) ->
  alookup N.eqb ch (s_udph (sweep now s)) = if u_ok u then Some hid else None.
Proof.
  intros Hnd H1 H2. unfold sweep. cbn [s_udph]. rewrite (alookup_filter N.eqb Neqb_eq) by exact Hnd.
  rewrite H1. unfold udp_dead. cbn [snd]. rewrite H2. cbn [h_ok]. destruct (u_ok u); reflexivity.
Qed.

(* ------------------------------------------------------------------ *)
(* no cross-delivery, under NoStaleReuse                               *)

(* Each frame from the server carries a ghost tag: the number of the query whose
   server-side handler produced it (None for frames that answer no query).
   NoStaleReuse: whenever such a frame arrives on an identifier that the client
   currently has allocated to a DNS query, it is that query's own frame — i.e. the
   identifier was not re-allocated while frames of its previous incarnation were
   still in flight.                                                            *)
Fixpoint no_stale_reuse (cfg : ccfg) (c : cstate) (evs : list (cevent * option N)) : Prop :=
  match evs with
  | [] => True
  | (e, tag) :: tl =>
    match e, tag with
    | EFrame ch _ _, Some q' => forall q f t, alookup N.eqb ch (c_chan c) = Some (KDns q f t) -> q = q'
    | _, _ => True
    end /\
    forall c' o, cstep all_fixed cfg c e = Ok (c', o) -> no_stale_reuse cfg c' tl
  end.

Fixpoint no_cross_run (cfg : ccfg) (c : cstate) (evs : list (cevent * option N)) : Prop :=
  match evs with
  | [] => True
  | (e, tag) :: tl =>
    forall c' o, cstep all_fixed cfg c e = Ok (c', o) ->
      (forall q', tag = Some q' -> forall q f t d, In (ODgram (Some q) f t d) o -> q = q') /\
      no_cross_run cfg c' tl
  end.

Lemma client_no_cross cfg : cfg_ok' cfg -> forall evs c, cinv cfg c -> sane_run cfg c (map fst evs) ->
  no_stale_reuse cfg c evs -> no_cross_run cfg c evs.
Proof.
  intros Hcfg. induction evs as [|[e tag] tl IH]; intros c I Hs Hn; cbn [no_cross_run]; [exact Logic.I|].
  cbn [map fst sane_run] in Hs. destruct Hs as [He Hs]. cbn [no_stale_reuse] in Hn. destruct Hn as [Ht Hn].
  intros c' o E. destruct (cstep_ok cfg c e Hcfg I He) as (c2 & o2 & E2 & I2 & _ & _ & Hcnt).
  pose proof (eq_trans (eq_sym E) E2) as X0; inversion X0; subst c2 o2; clear X0. split; [|apply IH; [exact I2|exact (Hs _ _ E)|exact (Hn _ _ E)]].
  intros q' -> q f t d Hin.
  assert (Hc : count_q q o = 1%nat).
  { destruct (Hcnt q) as [Hle _]. assert (1 <= count_q q o)%nat; [|lia].
    unfold count_q. apply in_split in Hin. destruct Hin as (l1 & l2 & ->).
    rewrite filter_app, app_length. cbn [filter is_q]. rewrite N.eqb_refl. cbn [length]. lia. }
  destruct e as [now src dst payload|now src dst payload|now fam dst|ch data sr|tch].
  5:{ (* the end of a TCP flow emits frames only *)
      exfalso. cbn [cstep] in E. pose proof (tcp_end_spec cfg c tch I) as SP.
      destruct (alookup N.eqb tch (c_chan c)) as [[q0 f0 t0|src0|]|];
        [| |destruct SP as (SP & _)|]; rewrite SP in E; inversion E; subst;
        repeat (destruct Hin as [Hin|Hin]; [discriminate|]); exact Hin. }
  1,2,3: exfalso; cbn [cstep] in E;
    destruct (Hcnt q) as [_ Hin']; destruct (Hin' Hc) as [Hi Hni];
    clear - Hin E I Hcfg He.
  - (* accept events emit frames only *)
    destruct Hcfg as [Hc1 Hc2].
    destruct (cc_method cfg) eqn:Em.
    2: destruct dst as [d0|].
    3:{ unfold ondns in E. rewrite Em in E. inversion E; subst. destruct Hin. }
    all: (match type of E with ondns _ _ _ _ ?D _ _ = _ =>
            assert (Hd : cc_method cfg = MTproxy -> D <> None) by (intros; congruence);
            pose proof (ondns_spec cfg now src D payload c Hc1 I Hd) as SP end; cbv zeta in SP;
          destruct (fst (next_channel (cc_maxc cfg) (c_occ c) (c_chani c)));
          [destruct SP as (_ & _ & c2 & E2 & _)|destruct SP as (c2 & E2 & _)];
          pose proof (eq_trans (eq_sym E) E2) as X; inversion X; subst;
          repeat (destruct Hin as [Hin|Hin]; [discriminate|]);
          pose proof (closes_frames now c) as F; rewrite Forall_forall in F; apply F in Hin; exact Hin).
  - destruct He as [Hm Hd]. destruct dst as [d0|].
    2:{ unfold onaccept_udp in E. rewrite Hm in E. inversion E; subst. destruct Hin. }
    destruct Hd as [Hl Hp]. destruct (alookup addr_eqb src (c_udp c)) as [[ch dl0]|] eqn:Hsrc.
    + destruct (onaccept_udp_known cfg now src d0 payload c ch dl0 I Hm Hsrc Hl Hp) as (c2 & E2 & _).
      pose proof (eq_trans (eq_sym E) E2) as X; inversion X; subst. destruct Hin as [Hin|Hin]; [discriminate|].
      pose proof (closes_frames now (c_after_udp c (c_chan c) (c_chani c) src ch now)) as F.
      rewrite Forall_forall in F. apply F in Hin. exact Hin.
    + pose proof (onaccept_udp_new cfg now src d0 payload c Hcfg I Hm Hsrc Hl Hp) as SP. cbv zeta in SP.
      destruct (fst (next_channel (cc_maxc cfg) (c_occ c) (c_chani c))) as [ch|].
      * destruct SP as (_ & c2 & E2 & _). pose proof (eq_trans (eq_sym E) E2) as X; inversion X; subst.
        destruct Hin as [Hin|[Hin|Hin]]; try discriminate.
        pose proof (closes_frames now (c_after_udp c (aset N.eqb ch (KUdp src) (c_chan c)) ch src ch now)) as F.
        rewrite Forall_forall in F. apply F in Hin. exact Hin.
      * destruct SP as (c2 & E2 & _). pose proof (eq_trans (eq_sym E) E2) as X; inversion X; subst.
        pose proof (closes_frames now c) as F. rewrite Forall_forall in F. apply F in Hin. exact Hin.
  - destruct He as (Hl & Hf & Hp). destruct Hcfg as [Hc1 _].
    destruct (onaccept_tcp_spec cfg now fam dst c Hc1 I Hl Hf Hp) as (c2 & o2 & E2 & _ & _ & F & _).
    pose proof (eq_trans (eq_sym E) E2) as X; inversion X; subst. rewrite Forall_forall in F. apply F in Hin. exact Hin.
  - (* a frame: the datagram is for the query owning the identifier, which is the frame's own *)
    cbn [cstep] in E. cbn [ev_sane] in He.
    destruct (alookup N.eqb ch (c_chan c)) as [[q0 f0 t0|src|]|] eqn:Hl.
    + destruct (dns_done_spec cfg c ch q0 f0 t0 data sr I Hl) as (E3 & _). pose proof (eq_trans (eq_sym E) E3) as X; inversion X; subst.
      destruct sr; [|destruct Hin]. destruct Hin as [Hin|[]]. inversion Hin; subst. exact (Ht _ _ _ eq_refl).
    + destruct He as (ip & port & pl & Hnc & ->).
      rewrite (udp_done_spec cfg c ch src ip port pl sr I Hl Hnc) in E. inversion E; subst.
      destruct sr; [destruct Hin as [Hin|[]]; discriminate|destruct Hin].
    + contradiction.
    + rewrite (closed_channel_spec _ cfg c ch data sr Hl) in E. inversion E; subst. destruct Hin.
Qed.

(* ------------------------------------------------------------------ *)
(* "each captured datagram is forwarded" whenever an identifier within reach of the cursor is free -
   in particular the identifier of a TCP flow that has finished                                      *)

Lemma ondns_forwards_if_free cfg now src dst payload c k :
  cfg_ok cfg -> cinv cfg c -> (cc_method cfg = MTproxy -> dst <> None) ->
  (k < TRIES)%nat -> c_occ c (chan_iter (S k) (cc_maxc cfg) (c_chani c)) = false ->
  exists ch c', ondns all_fixed cfg now src dst payload c =
                Ok (c', OFrame ch CMD_DNS_REQ (takeN BUFSIZE payload) :: closes now c).
Proof.
  intros Hcfg I Hd Hk Hf. pose proof (ondns_spec cfg now src dst payload c Hcfg I Hd) as SP. cbv zeta in SP.
  destruct (next_channel_finds _ _ _ k Hk Hf) as [ch Hch]. rewrite Hch in SP.
  destruct SP as (_ & _ & c' & E & _). exists ch, c'. exact E.
Qed.

Lemma udp_forwards_if_free cfg now src d payload c k :
  cfg_ok' cfg -> cinv cfg c -> cc_method cfg = MTproxy -> alookup addr_eqb src (c_udp c) = None ->
  lenN (fst d) <= 61000 -> snd d < 2 ^ 64 ->
  (k < TRIES)%nat -> c_occ c (chan_iter (S k) (cc_maxc cfg) (c_chani c)) = false ->
  exists ch c' rest, onaccept_udp all_fixed cfg now src (Some d) payload c =
     Ok (c', OFrame ch CMD_UDP_OPEN (dec (cc_family cfg)) ::
             OFrame ch CMD_UDP_DATA (dgram_hdr d (takeN BUFSIZE payload)) :: rest).
Proof.
  intros Hcfg I Hm Hs Hl Hp Hk Hf. pose proof (onaccept_udp_new cfg now src d payload c Hcfg I Hm Hs Hl Hp) as SP.
  cbv zeta in SP. destruct (next_channel_finds _ _ _ k Hk Hf) as [ch Hch]. rewrite Hch in SP.
  destruct SP as (_ & c' & E & _). exists ch, c'. eexists. exact E.
Qed.

Lemma tcp_end_then_free cfg c tch c1 o1 :
  cinv cfg c -> alookup N.eqb tch (c_chan c) = Some KTcp ->
  cstep all_fixed cfg c (ETcpEnd tch) = Ok (c1, o1) ->
  o1 = [OFrame tch CMD_TCP_STOP_SENDING []; OFrame tch CMD_TCP_EOF []] /\ cinv cfg c1 /\ c_occ c1 tch = false /\
  c_chani c1 = c_chani c /\ c_dns c1 = c_dns c /\ c_udp c1 = c_udp c /\
  (forall ch0, ch0 <> tch -> alookup N.eqb ch0 (c_chan c1) = alookup N.eqb ch0 (c_chan c)).
Proof.
  intros I Hl E. cbn [cstep] in E. pose proof (tcp_end_spec cfg c tch I) as SP. rewrite Hl in SP.
  destruct SP as (E2 & I' & Hocc & LK & _). pose proof (eq_trans (eq_sym E) E2) as X. inversion X; subst c1 o1.
  split; [reflexivity|]. split; [exact I'|]. split; [exact Hocc|]. split; [reflexivity|]. split; [reflexivity|].
  split; [reflexivity|exact LK].
Qed.

Lemma query_after_tcp_end cfg c tch c1 o1 now src dst payload k :
  cfg_ok cfg -> cinv cfg c -> alookup N.eqb tch (c_chan c) = Some KTcp ->
  cstep all_fixed cfg c (ETcpEnd tch) = Ok (c1, o1) ->
  (cc_method cfg = MTproxy -> dst <> None) ->
  (k < TRIES)%nat -> chan_iter (S k) (cc_maxc cfg) (c_chani c1) = tch ->
  exists ch c', ondns all_fixed cfg now src dst payload c1 =
                Ok (c', OFrame ch CMD_DNS_REQ (takeN BUFSIZE payload) :: closes now c1).
Proof.
  intros Hcfg I Hl E Hd Hk Hit. destruct (tcp_end_then_free cfg c tch c1 o1 I Hl E) as (_ & I1 & Hocc & _).
  apply (ondns_forwards_if_free cfg now src dst payload c1 k Hcfg I1 Hd Hk). rewrite Hit. exact Hocc.
Qed.

Lemma datagram_after_tcp_end cfg c tch c1 o1 now src d payload k :
  cfg_ok' cfg -> cinv cfg c -> alookup N.eqb tch (c_chan c) = Some KTcp ->
  cstep all_fixed cfg c (ETcpEnd tch) = Ok (c1, o1) ->
  cc_method cfg = MTproxy -> alookup addr_eqb src (c_udp c1) = None -> lenN (fst d) <= 61000 -> snd d < 2 ^ 64 ->
  (k < TRIES)%nat -> chan_iter (S k) (cc_maxc cfg) (c_chani c1) = tch ->
  exists ch c' rest, onaccept_udp all_fixed cfg now src (Some d) payload c1 =
     Ok (c', OFrame ch CMD_UDP_OPEN (dec (cc_family cfg)) ::
             OFrame ch CMD_UDP_DATA (dgram_hdr d (takeN BUFSIZE payload)) :: rest).
Proof.
  intros Hcfg I Hl E Hm Hs Hlen Hp Hk Hit. destruct (tcp_end_then_free cfg c tch c1 o1 I Hl E) as (_ & I1 & Hocc & _).
  apply (udp_forwards_if_free cfg now src d payload c1 k Hcfg I1 Hm Hs Hlen Hp Hk). rewrite Hit. exact Hocc.
Qed.
