(* Proofs/Stream_loop.v — the main loop as a layer over the micro-step model (Model/StreamLoop.v):
   "no lost wake-up".

   1. cb_settles          whatever the state before, after Proxy.callback the flow owes nothing (settled):
                          a peer's EOF whose data is drained has been passed on (shutdown issued), an
                          end-of-stream read with the buffer drained has been queued as EOF, nothing is kept
                          for a direction that is closed
   2. step_settled        every micro-step but the dispatch of a frame keeps the live handlers settled
   3. pass_spec           the part of runonce before select(): never crashes, changes only this end's
                          handlers (flags set by the coupling rules) and appends the late STOP_SENDING
                          messages to the queue; the wait sets are those of the state the pass started in
   4. iteration_is_run_v    an iteration is a micro-step run; lreach_v (states reached by complete iterations of
                          either end in any interleaving, any answers of select() and the sockets, new
                          connections in between) => reachable, so every invariant of Stream_*.v applies
   5. lreach_settled_v      THE LOOP INVARIANT: between iterations every live handler of both ends is settled
                          (Mux.callback is the only place frames are dispatched, and whenever it runs every
                          proxy — also one created by it — is called afterwards in the same iteration,
                          because every proxy holds both tunnel descriptors)
   6. no_lost_wakeup_v      the theorem; sleep_okb_holds_v (boolean form), no_lost_wakeup_fixed,
                          both_sleep_quiescent_v, paused_sleeper_probe_out_v (C09)
   7. witnesses           f160_state / no_lost_wakeup_unconditional_refuted (finding F160), calm_state
   8. the statements for the code as repaired (lreach, no_lost_wakeup, both_sleep_quiescent: unconditional)
      and as found (lreach_asfound, no_lost_wakeup_asfound: the exception characterised exactly,
      no_lost_wakeup_asfound_refuted)
   9. generator_sweep      the Gallina generator of iteration sequences the boolean statement was tested with
   Names ending in _v are parametrised by fx (false: runonce as found, true: repaired). *)
From Coq Require Import List NArith Ascii Bool Lia.
From SV Require Import Lib.Bytes Model.Wire Model.Chan Model.Stream Model.StreamQuiet Model.StreamDrain Model.StreamLoop
  Proofs.Wire_lemmas Proofs.Chan_lemmas Proofs.Stream_basic Proofs.Stream_wrap Proofs.Stream_cb
  Proofs.Stream_reg Proofs.Stream_fw Proofs.Stream_view Proofs.Stream_flow Proofs.Stream_lat
  Proofs.Stream_props Proofs.Stream_quiet Proofs.Stream_drain.
Import ListNotations.
Local Open Scope N_scope.

(* ================================================================== *)
(* 1. A callback settles its flow                                       *)
(* ================================================================== *)
Definition ne (l : list bytes) : bool := nonempty_buf l.

Record settled (p : proxy) : Prop := {
  st_shut : m_sr (p_m p) = true -> m_buf (p_m p) = [] -> s_sw (p_s p) = true;
  st_eof : s_sr (p_s p) = true -> s_buf (p_s p) = [] -> m_sw (p_m p) = true;
  st_nokeep_m : s_sw (p_s p) = true -> m_buf (p_m p) = [];
  st_nokeep_s : m_sw (p_m p) = true -> s_buf (p_s p) = []
}.

Lemma ne_nil l : ne l = false <-> l = [].
Proof. destruct l; cbn; split; congruence. Qed.

Lemma settledb_spec p : settledb p = true <-> settled p.
Proof.
  unfold settledb. rewrite !andb_true_iff. split.
  - intros [[[A B] C] D]. constructor.
    + intros H1 H2. rewrite H1, H2 in A. exact A.
    + intros H1 H2. rewrite H1, H2 in B. exact B.
    + intros H1. rewrite H1 in C. cbn in C. apply negb_true_iff in C. apply ne_nil. exact C.
    + intros H1. rewrite H1 in D. cbn in D. apply negb_true_iff in D. apply ne_nil. exact D.
  - intros [A B C D]. splits.
    + destruct (m_sr (p_m p)); [|reflexivity]. destruct (m_buf (p_m p)) eqn:E; [|reflexivity]. cbn. auto.
    + destruct (s_sr (p_s p)); [|reflexivity]. destruct (s_buf (p_s p)) eqn:E; [|reflexivity]. cbn. auto.
    + destruct (s_sw (p_s p)); [|reflexivity]. rewrite C; auto.
    + destruct (m_sw (p_m p)); [|reflexivity]. rewrite D; auto.
Qed.

(* MuxWrapper.copy_to(SockWrapper): buffer drained and the peer's EOF seen => shutdown issued *)
Lemma copy_m_to_s_shut m s o ok :
  let '(m', s') := copy_m_to_s m s o ok in
  m_buf m' = [] -> m_sr m = true -> s_sw s' = true.
Proof.
  unfold copy_m_to_s.
  destruct (match m_buf m with
            | (a :: b0) :: rest => let '(s1, w) := s_uwrite s (a :: b0) o ok in (advance (m_buf m) w, s1)
            | _ => (drop_empty (m_buf m), s)
            end) as [buf' s1].
  destruct buf' as [|b bs].
  - destruct (m_sr m) eqn:E.
    + cbn. intros _ _. destruct (nowrite_spec s1 ok) as (_ & _ & N & _). exact N.
    + intros _ H. discriminate.
  - cbn. intros H. discriminate.
Qed.

(* shut_read newly set by a write: nothing was written *)
Lemma s_uwrite_newsr s b o ok :
  s_sr s = false -> s_sr (fst (s_uwrite s b o ok)) = true -> snd (s_uwrite s b o ok) = 0.
Proof.
  unfold s_uwrite. destruct (s_conn s); [reflexivity|].
  destruct (if s_sw s then match o with SendAccept _ => SendErr EPipe | _ => o end else o) as [k| |e].
  - cbn. congruence.
  - reflexivity.
  - destruct e; reflexivity.
Qed.

Definition m2s_phase1 (m : muxw) (s : sockw) (o : send_out) (ok : bool) : list bytes * sockw :=
  match m_buf m with
  | (a :: b0) :: rest => let '(s1, w) := s_uwrite s (a :: b0) o ok in (advance (m_buf m) w, s1)
  | _ => (drop_empty (m_buf m), s)
  end.

Lemma m2s_phase1_newsr m s o ok :
  s_sr s = false -> s_sr (snd (m2s_phase1 m s o ok)) = true -> fst (m2s_phase1 m s o ok) <> [].
Proof.
  unfold m2s_phase1. destruct (m_buf m) as [|[|a b0] rest] eqn:Eb.
  - cbn. congruence.
  - cbn [snd]. congruence.
  - pose proof (s_uwrite_newsr s (a :: b0) o ok) as H.
    destruct (s_uwrite s (a :: b0) o ok) as [s1 k]. cbn [fst snd] in *.
    intros A B. rewrite (H A B). cbn [advance]. rewrite dropN_0. cbn. discriminate.
Qed.

Lemma copy_m_to_s_phase m s o ok :
  copy_m_to_s m s o ok =
  let '(buf', s1) := m2s_phase1 m s o ok in
  let m' := mkMuxw (m_chan m) (m_sr m) (m_sw m) buf' in
  match buf' with
  | [] => if m_sr m then (m', s_nowrite s1 ok) else (m', s1)
  | _ => (m', s1)
  end.
Proof. reflexivity. Qed.

(* shut_read newly set by MuxWrapper.copy_to(SockWrapper): bytes are left in the buffer (a send error),
   or the peer's EOF had been seen (shutdown failed) *)
Lemma copy_m_to_s_newsr m s o ok :
  s_sr s = false -> s_sr (snd (copy_m_to_s m s o ok)) = true ->
  m_buf (fst (copy_m_to_s m s o ok)) <> [] \/ m_sr m = true.
Proof.
  rewrite copy_m_to_s_phase. pose proof (m2s_phase1_newsr m s o ok) as H.
  destruct (m2s_phase1 m s o ok) as [buf' s1]. cbn [fst snd] in H.
  destruct buf' as [|b bs].
  - destruct (m_sr m); [auto|]. cbn [fst snd]. intros A B. exfalso. apply (H A B). reflexivity.
  - cbn. intros _ _. left. discriminate.
Qed.

Lemma copy_m_to_s_shut' m s o ok :
  m_buf (fst (copy_m_to_s m s o ok)) = [] -> m_sr m = true -> s_sw (snd (copy_m_to_s m s o ok)) = true.
Proof.
  pose proof (copy_m_to_s_shut m s o ok) as H. destruct (copy_m_to_s m s o ok) as [m' s']. exact H.
Qed.

(* the two copies, in either order: what they leave behind *)
Lemma copies_settle sd s1 m0 x fid o :
  let '(s2, m2, x2) := copies sd s1 m0 x fid o in
  (m_sr m2 = true -> m_buf m2 = [] -> s_sw s2 = true) /\
  (s_sr s2 = true -> s_buf s2 = [] ->
     m_sw m2 = true \/ (s_sw s2 = true /\ (m_buf m2 <> [] \/ m_sr m2 = true))).
Proof.
  destruct sd; unfold copies.
  - pose proof (copy_s_to_m_eof s1 m0 x fid) as H1. pose proof (copy_s_to_m_spec s1 m0 x fid) as S1.
    destruct (copy_s_to_m s1 m0 x fid) as [[sa ma] xa].
    destruct S1 as (new & _ & _ & _ & _ & Hsr & _).
    pose proof (copy_m_to_s_shut' ma sa (io_send o) (io_shut_ok o)) as H2.
    pose proof (copy_m_to_s_newsr ma sa (io_send o) (io_shut_ok o)) as H3.
    pose proof (copy_m_to_s_sr ma sa (io_send o) (io_shut_ok o)) as H4.
    pose proof (copy_m_to_s_spec ma sa (io_send o) (io_shut_ok o)) as S2.
    destruct (copy_m_to_s ma sa (io_send o) (io_shut_ok o)) as [mb sb]. cbn [fst snd] in *.
    destruct S2 as (d & _ & _ & _ & Gsr & Gsw & Gbuf & _). split.
    + intros A B. apply H2; congruence.
    + intros A B. destruct (s_sr sa) eqn:Esa.
      * left. rewrite Gsw. apply H1; congruence.
      * right. split.
        -- destruct (s_sw sb) eqn:E; [reflexivity|]. unfold sr_only_with_sw in H4. rewrite (H4 A E) in Esa. discriminate.
        -- rewrite Gsr. apply H3; auto.
  - pose proof (copy_m_to_s_shut' m0 s1 (io_send o) (io_shut_ok o)) as H2.
    pose proof (copy_m_to_s_spec m0 s1 (io_send o) (io_shut_ok o)) as S2.
    destruct (copy_m_to_s m0 s1 (io_send o) (io_shut_ok o)) as [ma sa]. cbn [fst snd] in *.
    destruct S2 as (d & _ & _ & _ & Gsr & Gsw & Gbuf & _).
    pose proof (copy_s_to_m_eof sa ma x fid) as H1. pose proof (copy_s_to_m_spec sa ma x fid) as S1.
    destruct (copy_s_to_m sa ma x fid) as [[sb mb] xb].
    destruct S1 as (new & _ & _ & _ & _ & Hsr & Hsw & _ & _ & _ & _ & Hmb & Hmsr & _). split.
    + intros A B. rewrite Hsw. apply H2; congruence.
    + intros A B. left. apply H1; congruence.
Qed.

(* whatever the state before: after Proxy.callback the flow owes nothing *)
Lemma cb_settles sd fid p x o p' x' : proxy_callback sd fid p x o = Ok (p', x') -> settled p'.
Proof.
  rewrite proxy_callback_unfold.
  destruct (s_try_connect (p_s p) (io_conn o) (io_shut_ok o)) as [s0|c]; [|discriminate].
  cbv zeta. set (s1 := s_fill s0 (io_recv o) (io_shut_ok o)).
  pose proof (copies_settle sd s1 (p_m p) x fid o) as Hc.
  destruct (copies sd s1 (p_m p) x fid o) as [[s2 m2] x2]. destruct Hc as [HA HB].
  destruct s2 as [c2 sr2 sw2 sb2 ex2 rd2 wr2 fl2]. destruct m2 as [ch2 msr2 msw2 mb2].
  cbn [s_sr s_sw s_buf m_sr m_sw m_buf s_conn s_exc s_rd s_wr s_fault m_chan] in *.
  unfold m_noread, m_setnoread, m_nowrite, m_setnowrite, m_maybe_close, s_noread, s_nowrite.
  destruct sb2 as [|sb sbs]; destruct mb2 as [|mb mbs]; destruct sr2, sw2, msr2, msw2;
    cbn [nonempty_buf andb negb s_sr s_sw s_buf m_sr m_sw m_buf s_conn s_exc s_rd s_wr s_fault m_chan fst snd];
    try destruct (io_shut_ok o);
    cbn [nonempty_buf andb negb s_sr s_sw s_buf m_sr m_sw m_buf s_conn s_exc s_rd s_wr s_fault m_chan fst snd];
    intros H; apply ok_pair_inj in H; destruct H as [<- _]; constructor;
    cbn [p_s p_m s_sr s_sw s_buf m_sr m_sw m_buf]; intros; try reflexivity; try congruence; try discriminate;
    try (destruct HB as [HB|[HB1 [HB2|HB2]]]; auto; congruence);
    try (apply HA; auto; fail).
Qed.

(* ================================================================== *)
(* 2. What each micro-step does to "every live handler is settled"     *)
(* ================================================================== *)
Definition settled_end (e : endpt) : Prop :=
  forall g p, e_prox e g = Some p -> live p = true -> settled p.

Lemma pre_settled sd fid p x : settled p -> settled (pre_p sd fid p x).
Proof.
  intros [A B C D]. pose proof (pre_select_fields sd fid p x) as F. unfold pre_p.
  destruct (proxy_pre_select sd fid p x) as [[p' x'] ws]. cbn [fst].
  destruct F as (_ & _ & _ & F4 & F5 & F6 & F7 & F8 & F9 & _).
  constructor; rewrite ?F4, ?F5, ?F6, ?F7, ?F8, ?F9.
  - intros H1 H2. destruct (s_sw (p_s p)) eqn:E; [reflexivity|]. rewrite orb_false_r in H1. auto.
  - intros H1 H2. destruct (m_sw (p_m p)) eqn:E; [reflexivity|]. rewrite orb_false_r in H1. auto.
  - exact C.
  - exact D.
Qed.

Lemma pre_live sd fid p x : live (pre_p sd fid p x) = live p.
Proof.
  pose proof (pre_select_fields sd fid p x) as F. unfold pre_p, live.
  destruct (proxy_pre_select sd fid p x) as [[p' x'] ws]. cbn [fst].
  destruct F as (_ & F2 & _). rewrite F2. reflexivity.
Qed.

Lemma cb_live sd fid p x o p' x' : proxy_callback sd fid p x o = Ok (p', x') -> live p' = live p.
Proof.
  intros H. pose proof (callback_spec _ _ _ _ _ _ _ H) as F. destr_cb F. unfold live. rewrite Fremoved. reflexivity.
Qed.

Lemma fresh_accept_settled c : settled (mkProxy true false (new_sock false) (new_muxw c)).
Proof. constructor; cbn; intros; congruence. Qed.

Definition is_deliver (ev : event) : bool := match ev with EvDeliver _ _ => true | _ => false end.

Definition ev_side (ev : event) : side :=
  match ev with
  | EvAccept _ => Client
  | EvCallback sd _ _ | EvPreSelect sd _ | EvFlush sd | EvDeliver sd _ | EvCheckFull sd | EvRemove sd _ => sd
  end.

(* a micro-step of one end leaves the handlers of the other end alone *)
Lemma step_other_prox w ev w' : step w ev = Ok w' ->
  forall g, e_prox (get_end w' (other (ev_side ev))) g = e_prox (get_end w (other (ev_side ev))) g.
Proof.
  destruct ev as [payload|sd fid o|sd fid|sd|sd o|sd|sd fid]; cbn [step ev_side].
  - intros [= <-] g. reflexivity.
  - destruct (e_prox (get_end w sd) fid) as [p|]; [|discriminate].
    destruct (live p); [|discriminate].
    destruct (proxy_callback sd fid p (e_mux (get_end w sd)) o) as [[p1 x1]|cr]; [|discriminate].
    intros [= <-] g. rewrite get_set_end_other. reflexivity.
  - destruct (e_prox (get_end w sd) fid) as [p|]; [|discriminate].
    destruct (live p); [|discriminate].
    destruct (proxy_pre_select sd fid p (e_mux (get_end w sd))) as [[p1 x1] ws].
    intros [= <-] g. rewrite get_set_end_other. reflexivity.
  - intros Hs g. destruct (flush_views w sd w' Hs) as [_ Hf]. apply Hf.
  - intros Hs g. destruct (inlink w (other sd)) as [|fr rest] eqn:Hl.
    + rewrite (deliver_empty w sd o w' Hs Hl). reflexivity.
    + destruct (deliver_shape w sd o w' fr rest Hs Hl) as (e' & st & _ & _ & Ho & _). rewrite Ho. reflexivity.
  - intros [= <-] g. rewrite get_set_end_other. reflexivity.
  - destruct (e_prox (get_end w sd) fid) as [p|]; [|discriminate].
    destruct (negb (p_ok p) && live p); [|discriminate].
    intros [= <-] g. rewrite get_set_end_other. reflexivity.
Qed.

(* every micro-step except the dispatch of a frame keeps the live handlers of its end settled *)
Lemma step_settled w ev w' : is_deliver ev = false -> step w ev = Ok w' ->
  forall s2, settled_end (get_end w s2) -> settled_end (get_end w' s2).
Proof.
  intros Hd Hs s2 Hq. unfold settled_end in *.
  destruct (side_cases s2 (ev_side ev)) as [->| ->].
  2:{ intros g p Hp. rewrite (step_other_prox w ev w' Hs g) in Hp. exact (Hq g p Hp). }
  revert Hd Hs Hq. destruct ev as [payload|sd fid o|sd fid|sd|sd o|sd|sd fid]; cbn [step ev_side is_deliver]; intros Hd Hs Hq;
    try discriminate.
  - (* accept *)
    inversion Hs; subst w'; clear Hs. cbn [get_end set_end w_cl]. unfold client_accept.
    destruct (next_channel (w_maxc w) (occ (e_mux (w_cl w))) (x_chani (e_mux (w_cl w)))) as [[c|] ch];
      cbn [e_prox]; [|exact Hq].
    intros g p. unfold upd. destruct (N.eqb_spec g (e_next (w_cl w))) as [->|Hne]; [|exact (Hq g p)].
    intros [= <-] _. apply fresh_accept_settled.
  - (* callback *)
    destruct (e_prox (get_end w sd) fid) as [p|] eqn:Ep; [|discriminate].
    destruct (live p) eqn:El; [|discriminate].
    destruct (proxy_callback sd fid p (e_mux (get_end w sd)) o) as [[p1 x1]|cr] eqn:Ecb; [|discriminate].
    inversion Hs; subst w'; clear Hs. rewrite get_set_end. cbn [set_prox e_prox].
    intros g q. unfold upd. destruct (N.eqb_spec g fid) as [->|Hne]; [|exact (Hq g q)].
    intros [= <-] _. exact (cb_settles _ _ _ _ _ _ _ Ecb).
  - (* pre_select *)
    destruct (e_prox (get_end w sd) fid) as [p|] eqn:Ep; [|discriminate].
    destruct (live p) eqn:El; [|discriminate].
    pose proof (pre_settled sd fid p (e_mux (get_end w sd)) (Hq fid p Ep El)) as Hps. unfold pre_p in Hps.
    destruct (proxy_pre_select sd fid p (e_mux (get_end w sd))) as [[p1 x1] ws]. cbn [fst] in Hps.
    inversion Hs; subst w'; clear Hs. rewrite get_set_end. cbn [set_prox e_prox].
    intros g q. unfold upd. destruct (N.eqb_spec g fid) as [->|Hne]; [|exact (Hq g q)].
    intros [= <-] _. exact Hps.
  - (* flush *)
    intros g p Hp. destruct (flush_views w sd w' Hs) as [_ Hf]. rewrite Hf in Hp. exact (Hq g p Hp).
  - (* check_fullness *)
    inversion Hs; subst w'; clear Hs. rewrite get_set_end. cbn [set_mux e_prox]. exact Hq.
  - (* remove *)
    destruct (e_prox (get_end w sd) fid) as [p|] eqn:Ep; [|discriminate].
    destruct (negb (p_ok p) && live p); [|discriminate].
    inversion Hs; subst w'; clear Hs. rewrite get_set_end. cbn [set_prox e_prox].
    intros g q. unfold upd. destruct (N.eqb_spec g fid) as [->|Hne]; [|exact (Hq g q)].
    intros [= <-]. unfold live. cbn. discriminate.
Qed.

(* ================================================================== *)
(* 3. The part of runonce before select(): what it leaves behind        *)
(* ================================================================== *)
Definition mux_of (sd : side) (w : world) : mux := e_mux (get_end w sd).
Definition prox_of (sd : side) (w : world) (f : N) : option proxy := e_prox (get_end w sd) f.

(* nothing but the handlers and the queue of end sd changed *)
Record pass_rel (sd : side) (w w' : world) : Prop := {
  pr_other : get_end w' (other sd) = get_end w (other sd);
  pr_cs : w_cs w' = w_cs w;
  pr_sc : w_sc w' = w_sc w;
  pr_next : e_next (get_end w' sd) = e_next (get_end w sd);
  pr_tf : x_too_full (mux_of sd w') = x_too_full (mux_of sd w)
}.

Lemma pass_rel_refl sd w : pass_rel sd w w.
Proof. constructor; reflexivity. Qed.

Lemma pass_rel_trans sd a b c : pass_rel sd a b -> pass_rel sd b c -> pass_rel sd a c.
Proof. intros [A1 A2 A3 A4 A5] [B1 B2 B3 B4 B5]. constructor; congruence. Qed.

Lemma set_end_links w sd e : w_cs (set_end w sd e) = w_cs w /\ w_sc (set_end w sd e) = w_sc w.
Proof. destruct sd; split; reflexivity. Qed.

Definition rm_proxy (p : proxy) : proxy := mkProxy (p_ok p) true (p_s p) (p_m p).

Lemma step_remove_spec w sd f p : prox_of sd w f = Some p -> dead p = true ->
  exists w', step w (EvRemove sd f) = Ok w' /\ pass_rel sd w w' /\ mux_of sd w' = mux_of sd w /\
    prox_of sd w' f = Some (rm_proxy p) /\ (forall g, g <> f -> prox_of sd w' g = prox_of sd w g).
Proof.
  unfold prox_of, mux_of, dead. intros Ep Hd. apply andb_true_iff in Hd. destruct Hd as [Hl Hk].
  cbn [step]. rewrite Ep, Hk, Hl. cbn [andb]. eexists. split; [reflexivity|].
  destruct (set_end_links w sd (set_prox (get_end w sd) f (mkProxy (p_ok p) true (p_s p) (p_m p)) (e_mux (get_end w sd)))) as [L1 L2].
  splits.
  - constructor; unfold mux_of; rewrite ?get_set_end, ?get_set_end_other; auto.
  - rewrite get_set_end. reflexivity.
  - rewrite get_set_end. cbn [set_prox e_prox]. rewrite upd_same. reflexivity.
  - intros g Hg. rewrite get_set_end. cbn [set_prox e_prox]. apply upd_other. exact Hg.
Qed.

Definition late_of (f : N) (p : proxy) : list sframe :=
  if s_sw (p_s p) && negb (m_sr (p_m p)) then [stop_frame (m_chan (p_m p)) f] else [].

Lemma step_presel_spec w sd f p : prox_of sd w f = Some p -> live p = true ->
  exists w', step w (EvPreSelect sd f) = Ok w' /\ pass_rel sd w w' /\
    x_out (mux_of sd w') = x_out (mux_of sd w) ++ late_of f p /\
    prox_of sd w' f = Some (pre_p sd f p (mux_of sd w)) /\ (forall g, g <> f -> prox_of sd w' g = prox_of sd w g).
Proof.
  unfold prox_of, mux_of, late_of. intros Ep Hl. cbn [step]. rewrite Ep, Hl.
  pose proof (pre_select_fields sd f p (e_mux (get_end w sd))) as F. unfold pre_p.
  destruct (proxy_pre_select sd f p (e_mux (get_end w sd))) as [[p1 x1] ws]. cbn [fst].
  destruct F as (_ & _ & _ & _ & _ & _ & _ & _ & _ & F10 & F11).
  eexists. split; [reflexivity|].
  destruct (set_end_links w sd (set_prox (get_end w sd) f p1 x1)) as [L1 L2].
  splits.
  - constructor; rewrite ?get_set_end, ?get_set_end_other; auto.
    unfold mux_of. rewrite get_set_end. exact F10.
  - rewrite get_set_end. exact F11.
  - rewrite get_set_end. cbn [set_prox e_prox]. rewrite upd_same. reflexivity.
  - intros g Hg. rewrite get_set_end. cbn [set_prox e_prox]. apply upd_other. exact Hg.
Qed.

(* the state Proxy.pre_select leaves, and its wait set, do not depend on what is queued *)
Lemma pre_p_indep sd f p x y : pre_p sd f p x = pre_p sd f p y.
Proof.
  unfold pre_p, proxy_pre_select, m_noread, m_setnoread.
  destruct (s_sw (p_s p)); destruct (m_sr (p_m p)); reflexivity.
Qed.

Lemma pre_ws_tf sd f p x y : x_too_full x = x_too_full y -> pre_ws sd f p x = pre_ws sd f p y.
Proof.
  intros H. unfold pre_ws. rewrite !pre_select_ws. unfold wait_s. rewrite H. reflexivity.
Qed.

Lemma flat_map_ext_in' {A B} (f g : A -> list B) l :
  (forall a, In a l -> f a = g a) -> flat_map f l = flat_map g l.
Proof.
  induction l as [|a l IH]; intros H; [reflexivity|]. cbn [flat_map].
  rewrite (H a (or_introl eq_refl)), IH; [reflexivity|]. intros b Hb. apply H. right. exact Hb.
Qed.

Lemma run_removes sd : forall l w, NoDup l ->
  (forall f, In f l -> exists p, prox_of sd w f = Some p /\ dead p = true) ->
  exists w', run w (map (EvRemove sd) l) = Ok w' /\ pass_rel sd w w' /\ mux_of sd w' = mux_of sd w /\
    (forall f p, In f l -> prox_of sd w f = Some p -> prox_of sd w' f = Some (rm_proxy p)) /\
    (forall g, ~ In g l -> prox_of sd w' g = prox_of sd w g).
Proof.
  induction l as [|f l IH]; intros w Hnd Hall.
  - exists w. cbn. splits; auto using pass_rel_refl. intros f p [].
  - inversion Hnd as [|? ? Hnot Hnd']; subst.
    destruct (Hall f (or_introl eq_refl)) as (p & Ep & Hd).
    destruct (step_remove_spec w sd f p Ep Hd) as (w1 & Hs & R1 & M1 & P1 & O1).
    destruct (IH w1 Hnd') as (w2 & Hr & R2 & M2 & P2 & O2).
    { intros g Hg. destruct (Hall g (or_intror Hg)) as (q & Eq & Hq). exists q. split; [|exact Hq].
      rewrite O1; [exact Eq|]. intros ->. contradiction. }
    exists w2. cbn [map run]. rewrite Hs. splits.
    + exact Hr.
    + exact (pass_rel_trans _ _ _ _ R1 R2).
    + congruence.
    + intros g q [<-|Hg] Eq.
      * rewrite O2; [|exact Hnot]. rewrite Ep in Eq. inversion Eq; subst q. exact P1.
      * apply P2; [exact Hg|]. rewrite O1; [exact Eq|]. intros ->. contradiction.
    + intros g Hg. rewrite O2; [rewrite O1; [reflexivity|]|].
      * intros ->. apply Hg. left. reflexivity.
      * intros Hin. apply Hg. right. exact Hin.
Qed.

Lemma presel_from_spec sd : forall l w, NoDup l ->
  (forall f, In f l -> exists p, prox_of sd w f = Some p /\ live p = true) ->
  exists w' wss, presel_from sd l w = Ok (w', wss) /\ run w (map (EvPreSelect sd) l) = Ok w' /\ pass_rel sd w w' /\
    x_out (mux_of sd w') = x_out (mux_of sd w) ++
       flat_map (fun f => match prox_of sd w f with Some p => late_of f p | None => [] end) l /\
    wss = map (fun f => (f, match prox_of sd w f with Some p => pre_ws sd f p (mux_of sd w) | None => [] end)) l /\
    (forall f p, In f l -> prox_of sd w f = Some p -> prox_of sd w' f = Some (pre_p sd f p (mux_of sd w))) /\
    (forall g, ~ In g l -> prox_of sd w' g = prox_of sd w g).
Proof.
  induction l as [|f l IH]; intros w Hnd Hall.
  - exists w, []. cbn. rewrite app_nil_r. splits; auto using pass_rel_refl. intros f p [].
  - inversion Hnd as [|? ? Hnot Hnd']; subst.
    destruct (Hall f (or_introl eq_refl)) as (p & Ep & Hl).
    destruct (step_presel_spec w sd f p Ep Hl) as (w1 & Hs & R1 & X1 & P1 & O1).
    destruct (IH w1 Hnd') as (w2 & wss & Hpf & Hr & R2 & X2 & W2 & P2 & O2).
    { intros g Hg. destruct (Hall g (or_intror Hg)) as (q & Eq & Hq). exists q. split; [|exact Hq].
      rewrite O1; [exact Eq|]. intros ->. contradiction. }
    assert (Hsame : forall g, In g l -> prox_of sd w1 g = prox_of sd w g).
    { intros g Hg. apply O1. intros ->. contradiction. }
    exists w2, ((f, pre_ws sd f p (mux_of sd w)) :: wss). cbn [presel_from map run]. rewrite Hs.
    fold (prox_of sd w f). fold (mux_of sd w). rewrite Ep. unfold pre_ws at 1. rewrite Hpf. splits.
    + reflexivity.
    + exact Hr.
    + exact (pass_rel_trans _ _ _ _ R1 R2).
    + rewrite X2, X1. cbn [flat_map]. rewrite Ep, <- app_assoc. f_equal. f_equal.
      apply flat_map_ext_in'. intros g Hg. rewrite (Hsame g Hg). reflexivity.
    + rewrite W2. f_equal. apply map_ext_in. intros g Hg. rewrite (Hsame g Hg).
      destruct (prox_of sd w g) as [q|]; [|reflexivity]. f_equal. apply pre_ws_tf. exact (pr_tf _ _ _ R1).
    + intros g q [<-|Hg] Eq.
      * rewrite O2; [|exact Hnot]. rewrite Ep in Eq. inversion Eq; subst q. exact P1.
      * rewrite (P2 g q Hg); [|rewrite (Hsame g Hg); exact Eq]. f_equal. apply pre_p_indep.
    + intros g Hg. rewrite O2; [rewrite O1; [reflexivity|]|].
      * intros ->. apply Hg. left. reflexivity.
      * intros Hin. apply Hg. right. exact Hin.
Qed.

Lemma sel_fids_NoDup pr e : NoDup (sel_fids pr e).
Proof. unfold sel_fids. apply NoDup_filter. apply fids_NoDup. Qed.

Lemma in_sel_fids pr e f : In f (sel_fids pr e) <-> f < e_next e /\ exists p, e_prox e f = Some p /\ pr p = true.
Proof.
  unfold sel_fids. rewrite filter_In, in_fids. split.
  - intros [A B]. split; [exact A|]. destruct (e_prox e f) as [p|]; [|discriminate]. exists p. auto.
  - intros [A (p & Ep & Hp)]. split; [exact A|]. rewrite Ep. exact Hp.
Qed.

Lemma sel_fids_ext pr e e' : e_next e' = e_next e ->
  (forall f, f < e_next e -> match e_prox e' f with Some p => pr p | None => false end =
                              match e_prox e f with Some p => pr p | None => false end) ->
  sel_fids pr e' = sel_fids pr e.
Proof.
  intros Hn H. unfold sel_fids, fids. rewrite Hn. apply filter_ext_in. intros f Hf.
  apply H. apply in_fids. exact Hf.
Qed.

(* a handler as the pass leaves it *)
Definition after_pass (sd : side) (f : N) (p : proxy) (x : mux) : proxy :=
  if dead p then rm_proxy p else if active p then pre_p sd f p x else p.

Definition late_frames (sd : side) (w : world) : list sframe :=
  flat_map (fun f => match prox_of sd w f with Some p => late_of f p | None => [] end)
           (sel_fids active (get_end w sd)).

Lemma dead_not_active p : dead p = true -> active p = false.
Proof. unfold dead, active. destruct (live p), (p_ok p); cbn; congruence. Qed.

Lemma rm_not_active p : active (rm_proxy p) = false.
Proof. reflexivity. Qed.

Theorem pass_spec fx sd w :
  exists po, presel_pass_v fx sd w = Ok po /\
    run w (pass_events sd w) = Ok (po_w po) /\
    pass_rel sd w (po_w po) /\
    x_out (mux_of sd (po_w po)) = x_out (mux_of sd w) ++ late_frames sd w /\
    po_muxw po = (if fx then negb (out_empty (mux_of sd w)) || negb (out_empty (mux_of sd (po_w po)))
                  else negb (out_empty (mux_of sd w))) /\
    po_waits po = map (fun f => (f, match prox_of sd w f with
                                    | Some p => pre_ws sd f p (mux_of sd w) | None => [] end))
                      (sel_fids active (get_end w sd)) /\
    (forall f p, prox_of sd w f = Some p -> f < e_next (get_end w sd) ->
                 prox_of sd (po_w po) f = Some (after_pass sd f p (mux_of sd w))) /\
    (forall f, prox_of sd w f = None -> prox_of sd (po_w po) f = None).
Proof.
  destruct (run_removes sd (sel_fids dead (get_end w sd)) w (sel_fids_NoDup dead (get_end w sd))) as (w0 & Hr0 & R0 & M0 & P0 & O0).
  { intros f Hf. apply in_sel_fids in Hf. destruct Hf as [_ (p & Ep & Hd)]. exists p. auto. }
  assert (Hact : sel_fids active (get_end w0 sd) = sel_fids active (get_end w sd)).
  { apply sel_fids_ext; [exact (pr_next _ _ _ R0)|]. intros f Hf. fold (prox_of sd w0 f). fold (prox_of sd w f).
    destruct (prox_of sd w f) as [p|] eqn:Ep.
    - destruct (dead p) eqn:Hd.
      + rewrite (P0 f p); [|apply in_sel_fids; split; [exact Hf|exists p; auto]|exact Ep].
        rewrite rm_not_active, (dead_not_active p Hd). reflexivity.
      + rewrite O0, Ep; [reflexivity|]. intros Hin. apply in_sel_fids in Hin. destruct Hin as [_ (q & Eq & Hq)].
        unfold prox_of in Ep. rewrite Ep in Eq. inversion Eq; subst q. congruence.
    - rewrite O0, Ep; [reflexivity|]. intros Hin. apply in_sel_fids in Hin. destruct Hin as [_ (q & Eq & Hq)].
      unfold prox_of in Ep. rewrite Ep in Eq. discriminate. }
  assert (Hkeep : forall f p, In f (sel_fids active (get_end w sd)) -> prox_of sd w f = Some p -> prox_of sd w0 f = Some p).
  { intros f p Hf Ep. rewrite O0; [exact Ep|]. intros Hin. apply in_sel_fids in Hin. apply in_sel_fids in Hf.
    destruct Hin as [_ (q & Eq & Hq)]. destruct Hf as [_ (q' & Eq' & Hq')]. rewrite Eq in Eq'. inversion Eq'; subst q'.
    rewrite (dead_not_active q Hq) in Hq'. discriminate. }
  destruct (presel_from_spec sd (sel_fids active (get_end w sd)) w0 (sel_fids_NoDup active (get_end w sd))) as (w1 & wss & Hpf & Hr1 & R1 & X1 & W1 & P1 & O1).
  { intros f Hf. pose proof Hf as Hf'. apply in_sel_fids in Hf'. destruct Hf' as [_ (p & Ep & Ha)]. exists p. split.
    - apply Hkeep; [exact Hf|exact Ep].
    - unfold active in Ha. apply andb_true_iff in Ha. apply Ha. }
  eexists. unfold presel_pass_v. unfold remove_events. rewrite Hr0, Hact, Hpf. split; [reflexivity|]. cbn [po_w po_muxw po_waits].
  assert (Hfm : forall A (f g : N -> A), (forall a, In a (sel_fids active (get_end w sd)) -> f a = g a) ->
                 map f (sel_fids active (get_end w sd)) = map g (sel_fids active (get_end w sd))).
  { intros A f g H. apply map_ext_in. exact H. }
  splits.
  - unfold pass_events, remove_events. rewrite run_app, Hr0, Hact. exact Hr1.
  - exact (pass_rel_trans _ _ _ _ R0 R1).
  - rewrite X1, M0. f_equal. unfold late_frames. apply flat_map_ext_in'. intros f Hf.
    pose proof Hf as Hf'. apply in_sel_fids in Hf'. destruct Hf' as [_ (p & Ep & Ha)].
    fold (prox_of sd w f) in Ep. rewrite (Hkeep f p Hf Ep), Ep. reflexivity.
  - fold (mux_of sd w0). fold (mux_of sd w1). rewrite M0. reflexivity.
  - rewrite W1. apply Hfm. intros f Hf.
    pose proof Hf as Hf'. apply in_sel_fids in Hf'. destruct Hf' as [_ (p & Ep & Ha)].
    fold (prox_of sd w f) in Ep. rewrite (Hkeep f p Hf Ep), Ep, M0. reflexivity.
  - intros f p Ep Hlt. unfold after_pass. destruct (dead p) eqn:Hd.
    + assert (Hin : In f (sel_fids dead (get_end w sd))) by (apply in_sel_fids; split; [exact Hlt|exists p; auto]).
      rewrite O1.
      * exact (P0 f p Hin Ep).
      * intros Hin2. apply in_sel_fids in Hin2. destruct Hin2 as [_ (q & Eq & Hq)].
        unfold prox_of in Ep. rewrite Ep in Eq. inversion Eq; subst q.
        rewrite (dead_not_active p Hd) in Hq. discriminate.
    + destruct (active p) eqn:Ha.
      * assert (Hin : In f (sel_fids active (get_end w sd))) by (apply in_sel_fids; split; [exact Hlt|exists p; auto]).
        rewrite (P1 f p Hin (Hkeep f p Hin Ep)), M0. reflexivity.
      * rewrite O1, O0; [exact Ep| |].
        -- intros Hin2. apply in_sel_fids in Hin2. destruct Hin2 as [_ (q & Eq & Hq)].
           unfold prox_of in Ep. rewrite Ep in Eq. inversion Eq; subst q. congruence.
        -- intros Hin2. apply in_sel_fids in Hin2. destruct Hin2 as [_ (q & Eq & Hq)].
           unfold prox_of in Ep. rewrite Ep in Eq. inversion Eq; subst q. congruence.
  - intros f Ep. rewrite O1, O0; [exact Ep| |].
    + intros Hin2. apply in_sel_fids in Hin2. destruct Hin2 as [_ (q & Eq & Hq)].
      unfold prox_of in Ep. rewrite Ep in Eq. discriminate.
    + intros Hin2. apply in_sel_fids in Hin2. destruct Hin2 as [_ (q & Eq & Hq)].
      unfold prox_of in Ep. rewrite Ep in Eq. discriminate.
Qed.

(* ================================================================== *)
(* 4. An iteration is a micro-step run; loop-reachable states           *)
(* ================================================================== *)
Theorem iteration_is_run_v fx lat sd a w : iteration_v fx lat sd a w = run w (iter_events_v fx lat sd a w).
Proof.
  unfold iteration_v, iter_events_v, iter_rest. destruct (pass_spec fx sd w) as (po & Hp & Hr & _).
  rewrite Hp, (run_app (pass_events sd w)), Hr.
  destruct (sleeps_of (fun _ => fd_cand) sd po && negb (a_lis a)); [reflexivity|].
  rewrite (run_app (mux_events sd a ++ acc_events sd a)).
  destruct (run (po_w po) (mux_events sd a ++ acc_events sd a)); reflexivity.
Qed.

Theorem pass_is_run_v fx sd w po : presel_pass_v fx sd w = Ok po -> run w (pass_events sd w) = Ok (po_w po).
Proof.
  intros H. destruct (pass_spec fx sd w) as (po' & Hp & Hr & _). rewrite H in Hp. inversion Hp; subst po'. exact Hr.
Qed.

Theorem pass_never_crashes_v fx sd w : exists po, presel_pass_v fx sd w = Ok po.
Proof. destruct (pass_spec fx sd w) as (po & Hp & _). exists po. exact Hp. Qed.

(* states reached by complete iterations of either end (any interleaving, any answers of select() and of
   the sockets), and by new connections arriving in between *)
Inductive lreach_v (fx lat : bool) (maxc lbs : N) : world -> Prop :=
| lr_init : lreach_v fx lat maxc lbs (world0 maxc lbs)
| lr_iter w sd a w' : lreach_v fx lat maxc lbs w -> iteration_v fx lat sd a w = Ok w' -> lreach_v fx lat maxc lbs w'
| lr_accept w payload w' : lreach_v fx lat maxc lbs w -> step w (EvAccept payload) = Ok w' -> lreach_v fx lat maxc lbs w'.

Theorem lreach_reachable_v fx lat maxc lbs w : lreach_v fx lat maxc lbs w -> reachable maxc lbs w.
Proof.
  induction 1 as [|w sd a w' _ (evs & IH) Hi|w payload w' _ (evs & IH) Hs].
  - exists []. reflexivity.
  - exists (evs ++ iter_events_v fx lat sd a w). rewrite run_app, IH, <- iteration_is_run_v. exact Hi.
  - exists (evs ++ [EvAccept payload]). rewrite run_app, IH. cbn [run]. rewrite Hs. reflexivity.
Qed.

Lemma lreach_Winv_v fx lat maxc lbs w : lreach_v fx lat maxc lbs w -> Winv w.
Proof.
  intros H. destruct (lreach_reachable_v _ _ _ _ _ H) as (evs & Hr).
  exact (run_Winv evs _ _ (Winv_world0 maxc lbs) Hr).
Qed.

(* ================================================================== *)
(* 5. The loop invariant: between iterations every live handler is settled *)
(* ================================================================== *)
Lemma run_settled evs : forall w w', forallb (fun ev => negb (is_deliver ev)) evs = true -> run w evs = Ok w' ->
  forall s2, settled_end (get_end w s2) -> settled_end (get_end w' s2).
Proof.
  induction evs as [|ev evs IH]; intros w w' Hn; cbn [run].
  - intros [= <-] s2 H. exact H.
  - cbn [forallb] in Hn. apply andb_true_iff in Hn. destruct Hn as [Hd Hn]. apply negb_true_iff in Hd.
    destruct (step w ev) as [w1|] eqn:Es; [|discriminate]. intros Hr s2 H.
    exact (IH w1 w' Hn Hr s2 (step_settled w ev w1 Hd Es s2 H)).
Qed.

Lemma run_other_prox sd evs : forall w w', Forall (fun ev => ev_side ev = sd) evs -> run w evs = Ok w' ->
  forall g, prox_of (other sd) w' g = prox_of (other sd) w g.
Proof.
  induction evs as [|ev evs IH]; intros w w' Hall; cbn [run].
  - intros [= <-] g. reflexivity.
  - inversion Hall as [|? ? Hev Hrest]; subst. destruct (step w ev) as [w1|] eqn:Es; [|discriminate].
    intros Hr g. rewrite (IH w1 w' Hrest Hr g). unfold prox_of. exact (step_other_prox w ev w1 Es g).
Qed.

Lemma step_cb_spec w sd f o w' : step w (EvCallback sd f o) = Ok w' ->
  exists p p' x', prox_of sd w f = Some p /\ live p = true /\
    proxy_callback sd f p (mux_of sd w) o = Ok (p', x') /\ prox_of sd w' f = Some p' /\
    forall g, g <> f -> prox_of sd w' g = prox_of sd w g.
Proof.
  unfold prox_of, mux_of. cbn [step].
  destruct (e_prox (get_end w sd) f) as [p|] eqn:Ep; [|discriminate].
  destruct (live p) eqn:El; [|discriminate].
  destruct (proxy_callback sd f p (e_mux (get_end w sd)) o) as [[p1 x1]|cr] eqn:Ecb; [|discriminate].
  intros [= <-]. exists p, p1, x1. rewrite get_set_end. cbn [set_prox e_prox]. splits; auto.
  - apply upd_same.
  - intros g Hg. apply upd_other. exact Hg.
Qed.

Definition is_cb_of (sd : side) (ev : event) : Prop := exists f o, ev = EvCallback sd f o.

Lemma run_cbs sd evs : forall w w', Forall (is_cb_of sd) evs -> run w evs = Ok w' ->
  (forall g p', prox_of sd w' g = Some p' -> exists p, prox_of sd w g = Some p /\ live p = live p') /\
  (forall S : N -> Prop,
     (forall g p, prox_of sd w g = Some p -> live p = true -> S g -> settled p) ->
     forall g p', prox_of sd w' g = Some p' -> live p' = true ->
       S g \/ (exists o, In (EvCallback sd g o) evs) -> settled p').
Proof.
  induction evs as [|ev evs IH]; intros w w' Hall; cbn [run].
  - intros [= <-]. split.
    + intros g p' H. exists p'. auto.
    + intros S HS g p' Hp Hl [Hs|(o & [])]. exact (HS g p' Hp Hl Hs).
  - inversion Hall as [|? ? (f & o & ->) Hrest]; subst.
    destruct (step w (EvCallback sd f o)) as [w1|] eqn:Es; [|discriminate]. intros Hr.
    destruct (step_cb_spec w sd f o w1 Es) as (p & p1 & x1 & Ep & El & Ecb & Ep1 & Hoth).
    destruct (IH w1 w' Hrest Hr) as [IH1 IH2]. split.
    + intros g p' Hp'. destruct (IH1 g p' Hp') as (q & Eq & Hq).
      destruct (N.eq_dec g f) as [->|Hne].
      * rewrite Ep1 in Eq. inversion Eq; subst q. exists p. split; [exact Ep|].
        rewrite <- Hq. symmetry. exact (cb_live _ _ _ _ _ _ _ Ecb).
      * exists q. rewrite <- (Hoth g Hne). auto.
    + intros S HS g p' Hp' Hl Hor.
      apply (IH2 (fun h => S h \/ h = f)) with (g := g); [|exact Hp'|exact Hl|].
      * intros h q Eq Hlq [Hs| ->].
        -- destruct (N.eq_dec h f) as [->|Hne].
           ++ rewrite Ep1 in Eq. inversion Eq; subst q. exact (cb_settles _ _ _ _ _ _ _ Ecb).
           ++ rewrite (Hoth h Hne) in Eq. exact (HS h q Eq Hlq Hs).
        -- rewrite Ep1 in Eq. inversion Eq; subst q. exact (cb_settles _ _ _ _ _ _ _ Ecb).
      * destruct Hor as [Hs|(o' & [Hin|Hin])].
        -- left. left. exact Hs.
        -- inversion Hin; subst. left. right. reflexivity.
        -- right. exists o'. exact Hin.
Qed.

Lemma cb_events_shape sd a e : Forall (is_cb_of sd) (cb_events sd a e).
Proof.
  apply Forall_forall. intros ev Hin. unfold cb_events in Hin. apply in_flat_map in Hin.
  destruct Hin as (f & _ & Hin). destruct (e_prox e f) as [p|]; [|destruct Hin].
  destruct (live p); [|destruct Hin]. apply in_map_iff in Hin. destruct Hin as (k & <- & _).
  exists f, (a_io a f k). reflexivity.
Qed.

Lemma cb_events_in sd a e g p : e_prox e g = Some p -> live p = true -> g < e_next e -> (1 <= ncalls a g)%nat ->
  In (EvCallback sd g (a_io a g 0%nat)) (cb_events sd a e).
Proof.
  intros Ep Hl Hlt Hn. unfold cb_events. apply in_flat_map. exists g. split; [apply in_fids; exact Hlt|].
  rewrite Ep, Hl. apply in_map_iff. exists 0%nat. split; [reflexivity|]. apply in_seq. lia.
Qed.

Lemma nodeliver_map {A} (f : A -> event) l : (forall a, is_deliver (f a) = false) ->
  forallb (fun ev => negb (is_deliver ev)) (map f l) = true.
Proof. intros H. apply forallb_forall. intros ev Hin. apply in_map_iff in Hin. destruct Hin as (a & <- & _). rewrite H. reflexivity. Qed.

Lemma nodeliver_app a b : forallb (fun ev => negb (is_deliver ev)) a = true ->
  forallb (fun ev => negb (is_deliver ev)) b = true -> forallb (fun ev => negb (is_deliver ev)) (a ++ b) = true.
Proof. intros A B. rewrite forallb_app, A, B. reflexivity. Qed.

Lemma pass_events_nodeliver sd w : forallb (fun ev => negb (is_deliver ev)) (pass_events sd w) = true.
Proof.
  unfold pass_events, remove_events. apply nodeliver_app; [apply nodeliver_map; reflexivity|].
  destruct (run w _); [apply nodeliver_map|]; reflexivity.
Qed.

Lemma k_events_nodeliver sd lat : forallb (fun ev => negb (is_deliver ev)) (k_events sd lat) = true.
Proof. destruct lat; reflexivity. Qed.

Lemma acc_events_nodeliver sd a : forallb (fun ev => negb (is_deliver ev)) (acc_events sd a) = true.
Proof. unfold acc_events. destruct sd; [|reflexivity]. destruct (a_lis a); [apply nodeliver_map|]; reflexivity. Qed.

Lemma cb_events_nodeliver sd a e : forallb (fun ev => negb (is_deliver ev)) (cb_events sd a e) = true.
Proof.
  apply forallb_forall. intros ev Hin. pose proof (cb_events_shape sd a e) as H.
  rewrite Forall_forall in H. destruct (H ev Hin) as (f & o & ->). reflexivity.
Qed.

Lemma mux_events_side sd a : Forall (fun ev => ev_side ev = sd) (mux_events sd a).
Proof.
  apply Forall_forall. intros ev Hin. unfold mux_events in Hin. apply in_flat_map in Hin.
  destruct Hin as (k & _ & Hin). apply in_app_iff in Hin. destruct Hin as [Hin|Hin].
  - apply in_map_iff in Hin. destruct Hin as (o & <- & _). reflexivity.
  - destruct (snd (a_mux a k)); [|destruct Hin]. destruct Hin as [<-|[]]. reflexivity.
Qed.

Lemma acc_events_side sd a : Forall (fun ev => ev_side ev = sd) (acc_events sd a).
Proof.
  apply Forall_forall. intros ev Hin. unfold acc_events in Hin. destruct sd; [|destruct Hin].
  destruct (a_lis a); [|destruct Hin]. apply in_map_iff in Hin. destruct Hin as (o & <- & _). reflexivity.
Qed.

Lemma cb_events_side sd a e : Forall (fun ev => ev_side ev = sd) (cb_events sd a e).
Proof.
  apply Forall_forall. intros ev Hin. pose proof (cb_events_shape sd a e) as H.
  rewrite Forall_forall in H. destruct (H ev Hin) as (f & o & ->). reflexivity.
Qed.

Lemma settled_end_ext e e' : (forall g, e_prox e' g = e_prox e g) -> settled_end e -> settled_end e'.
Proof. intros H S g p Hp. rewrite H in Hp. exact (S g p Hp). Qed.

Lemma mux_events_none sd a : mux_calls a = 0%nat -> mux_events sd a = [].
Proof. intros H. unfold mux_events. rewrite H. reflexivity. Qed.

Theorem iteration_settled_v fx lat sd a w w' : Winv w ->
  (forall s2, settled_end (get_end w s2)) -> iteration_v fx lat sd a w = Ok w' ->
  forall s2, settled_end (get_end w' s2).
Proof.
  intros W H Hi. unfold iteration_v in Hi. destruct (pass_spec fx sd w) as (po & Hp & Hr & _). rewrite Hp in Hi.
  assert (H1 : forall s2, settled_end (get_end (po_w po) s2)).
  { intros s2. exact (run_settled _ _ _ (pass_events_nodeliver sd w) Hr s2 (H s2)). }
  assert (W1 : Winv (po_w po)) by exact (run_Winv _ _ _ W Hr).
  destruct (sleeps_of (fun _ => fd_cand) sd po && negb (a_lis a)).
  { intros s2. exact (run_settled _ _ _ (k_events_nodeliver sd lat) Hi s2 (H1 s2)). }
  destruct (run (po_w po) (mux_events sd a ++ acc_events sd a)) as [w2|] eqn:E2; [|discriminate].
  assert (W2 : Winv w2) by exact (run_Winv _ _ _ W1 E2).
  rewrite run_app in Hi.
  destruct (run w2 (cb_events sd a (get_end w2 sd))) as [w3|] eqn:E3; [|discriminate].
  intros s2. apply (run_settled _ _ _ (k_events_nodeliver sd lat) Hi s2).
  destruct (side_cases s2 sd) as [->| ->].
  - destruct (mux_calls a) as [|n] eqn:Hn.
    + rewrite (mux_events_none sd a Hn) in E2. cbn [app] in E2.
      apply (run_settled _ _ _ (cb_events_nodeliver sd a _) E3 sd).
      exact (run_settled _ _ _ (acc_events_nodeliver sd a) E2 sd (H1 sd)).
    + destruct (run_cbs sd _ _ _ (cb_events_shape sd a _) E3) as [C1 C2].
      intros g p3 Hp3 Hl3. apply (C2 (fun _ => False)) with (g := g); [intros ? ? ? ? []|exact Hp3|exact Hl3|].
      right. destruct (C1 g p3 Hp3) as (p2 & Ep2 & Hl2). exists (a_io a g 0%nat).
      apply (cb_events_in sd a (get_end w2 sd) g p2 Ep2); [congruence| |unfold ncalls; lia].
      exact (r_fresh _ (Winv_get w2 sd W2) g p2 Ep2).
  - apply (settled_end_ext (get_end (po_w po) (other sd))); [|exact (H1 (other sd))].
    intros g. fold (prox_of (other sd) w3 g). fold (prox_of (other sd) (po_w po) g).
    rewrite (run_other_prox sd _ _ _ (cb_events_side sd a _) E3 g).
    apply (run_other_prox sd _ _ _ (proj2 (Forall_app _ _ _) (conj (mux_events_side sd a) (acc_events_side sd a))) E2 g).
Qed.

Theorem lreach_settled_v fx lat maxc lbs w : lreach_v fx lat maxc lbs w ->
  forall s2, settled_end (get_end w s2).
Proof.
  induction 1 as [|w sd a w' Hl IH Hi|w payload w' Hl IH Hs].
  - intros [|] g p; discriminate.
  - exact (iteration_settled_v fx lat sd a w w' (lreach_Winv_v _ _ _ _ _ Hl) IH Hi).
  - intros s2. exact (step_settled w (EvAccept payload) w' eq_refl Hs s2 (IH s2)).
Qed.

(* ================================================================== *)
(* 6. No lost wake-up                                                   *)
(* ================================================================== *)
Lemma rx_link_inlink sd w : rx_link sd w = inlink w (other sd).
Proof. destruct sd; reflexivity. Qed.

Lemma pass_rel_rx sd w w' : pass_rel sd w w' -> rx_link sd w' = rx_link sd w.
Proof. intros [_ A B _ _]. destruct sd; cbn; assumption. Qed.

(* what the handlers of an end look like after the pass *)
Lemma pass_active fx sd w po f p1 : Rinv (get_end w sd) -> presel_pass_v fx sd w = Ok po ->
  prox_of sd (po_w po) f = Some p1 -> active p1 = true ->
  exists p, prox_of sd w f = Some p /\ active p = true /\ p1 = pre_p sd f p (mux_of sd w) /\
            In (f, pre_ws sd f p (mux_of sd w)) (po_waits po).
Proof.
  intros R Hp Hp1 Ha. destruct (pass_spec fx sd w) as (po' & Hp' & _ & _ & _ & _ & WS & PF & PN).
  rewrite Hp in Hp'. inversion Hp'; subst po'; clear Hp'.
  destruct (prox_of sd w f) as [p|] eqn:Ep.
  2:{ rewrite (PN f Ep) in Hp1. discriminate. }
  pose proof (r_fresh _ R f p Ep) as Hlt.
  rewrite (PF f p Ep Hlt) in Hp1. inversion Hp1; subst p1; clear Hp1. unfold after_pass in *.
  destruct (dead p) eqn:Hd; [rewrite rm_not_active in Ha; discriminate|].
  destruct (active p) eqn:Hac; [|congruence].
  exists p. splits; auto. rewrite WS. apply in_map_iff. exists f. rewrite Ep. split; [reflexivity|].
  apply in_sel_fids. split; [exact Hlt|]. exists p. auto.
Qed.

Lemma sleeps_of_facts rdy sd po : sleeps_of rdy sd po = true ->
  rx_link sd (po_w po) = [] /\ po_muxw po = false /\
  forall f ws p1, In (f, ws) (po_waits po) -> prox_of sd (po_w po) f = Some p1 ->
    forall fd, In fd ws -> rdy p1 fd = false.
Proof.
  unfold sleeps_of. rewrite !andb_true_iff, link_empty_spec, negb_true_iff, forallb_forall.
  intros [[A B] C]. splits; auto. intros f ws p1 Hin Hp1 fd Hfd. specialize (C (f, ws) Hin). cbn [fst snd] in C.
  unfold prox_of in Hp1. rewrite Hp1 in C. rewrite forallb_forall in C. specialize (C fd Hfd).
  apply negb_true_iff in C. exact C.
Qed.

(* the boolean core: flags and buffer states of a settled handler whose wait set holds nothing ready *)
Lemma shape_core (strict c sb mb sr sw msr msw tf : bool) :
  (* settled, after pre_select *)
  implb ((msr || sw) && negb mb) sw = true -> implb ((sr || msw) && negb sb) msw = true ->
  implb sw (negb mb) = true -> implb msw (negb sb) = true ->
  (* nothing ready: WSockW only while connecting; no WMuxW; strict: no socket descriptor at all *)
  implb (c || mb) (if strict then false else c) = true ->
  implb (negb c && sb) tf = true ->
  implb strict (negb (negb c && negb sb && negb sr && negb msw)) = true ->
  (implb ((msr || sw) && negb mb) sw && implb ((sr || msw) && negb sb) msw && implb sw (negb mb) && implb msw (negb sb)) &&
  implb sw (msr || sw) && implb msw (sr || msw) &&
  (tf && sb && negb mb && negb msw ||
   negb sb && negb mb && (sr || msw) && msw && negb (msr || sw) && negb sw ||
   negb sb && negb mb && ((sr || msw) && sw && (msr || sw) && msw) ||
   negb strict && (c || negb c && (negb sb && negb mb) && negb (sr || msw) && negb msw)) = true.
Proof. destruct strict, c, sb, mb, sr, sw, msr, msw, tf; cbn; intros; congruence. Qed.

Lemma sleeping_handler_shape (strict : bool) sd f p x x1 :
  settled p -> x_too_full x1 = x_too_full x ->
  (forall fd, In fd (pre_ws sd f p x) ->
     (if strict then fd_cand fd else fd_ready (pre_p sd f p x) fd) = false) ->
  sleep_shapeb strict (pre_p sd f p x) x1 = true.
Proof.
  intros St Htf Hw.
  pose proof (pre_settled sd f p x St) as [A B C D].
  pose proof (pre_p_fields sd f p x) as (F1 & F2 & F3 & F4 & F5 & F6 & F7 & F8).
  assert (W : forall fd, In fd (pre_ws sd f p x) <->
     match fd with
     | WSockW => s_conn (p_s p) = true \/ nonempty_buf (m_buf (p_m p)) = true
     | WMuxW => s_conn (p_s p) = false /\ nonempty_buf (s_buf (p_s p)) = true /\ x_too_full x = false
     | WSockR => s_conn (p_s p) = false /\ nonempty_buf (s_buf (p_s p)) = false /\
                 s_sr (p_s p) = false /\ m_sw (p_m p) = false
     | WMuxR => nonempty_buf (m_buf (p_m p)) = false /\ m_sr (p_m p) = false /\ s_sw (p_s p) = false
     end) by (intros fd; apply wait_set_spec).
  set (q := pre_p sd f p x) in *.
  pose proof (shape_core strict (s_conn (p_s p)) (nonempty_buf (s_buf (p_s p))) (nonempty_buf (m_buf (p_m p)))
                (s_sr (p_s p)) (s_sw (p_s p)) (m_sr (p_m p)) (m_sw (p_m p)) (x_too_full x)) as K.
  unfold sleep_shapeb, settledb, shape_paused, shape_waits_peer, shape_f20, shape_connecting, shape_idle_read,
    bufs_empty, all_flags. rewrite Htf, F1, F2, F3, F4, F5, F6, F8.
  apply K; clear K.
  - destruct ((m_sr (p_m p) || s_sw (p_s p))) eqn:E1; [|reflexivity].
    destruct (nonempty_buf (m_buf (p_m p))) eqn:E2; [reflexivity|]. cbn. rewrite <- F5. apply A; [congruence|].
    rewrite F4. apply ne_nil. exact E2.
  - destruct ((s_sr (p_s p) || m_sw (p_m p))) eqn:E1; [|reflexivity].
    destruct (nonempty_buf (s_buf (p_s p))) eqn:E2; [reflexivity|]. cbn. rewrite <- F6. apply B; [congruence|].
    rewrite F3. apply ne_nil. exact E2.
  - destruct (s_sw (p_s p)) eqn:E1; [|reflexivity]. cbn. apply negb_true_iff. apply ne_nil.
    rewrite <- F4. apply C. congruence.
  - destruct (m_sw (p_m p)) eqn:E1; [|reflexivity]. cbn. apply negb_true_iff. apply ne_nil.
    rewrite <- F3. apply D. congruence.
  - destruct (s_conn (p_s p) || nonempty_buf (m_buf (p_m p))) eqn:E1; [|reflexivity]. cbn.
    assert (Hin : In WSockW (pre_ws sd f p x)).
    { apply W. apply orb_true_iff in E1. exact E1. }
    specialize (Hw WSockW Hin). destruct strict; [discriminate|]. cbn in Hw. apply negb_false_iff in Hw. congruence.
  - destruct (negb (s_conn (p_s p)) && nonempty_buf (s_buf (p_s p))) eqn:E1; [|reflexivity]. cbn.
    apply andb_true_iff in E1. destruct E1 as [E1 E2]. apply negb_true_iff in E1.
    destruct (x_too_full x) eqn:E3; [reflexivity|].
    assert (Hin : In WMuxW (pre_ws sd f p x)) by (apply W; auto).
    specialize (Hw WMuxW Hin). destruct strict; discriminate.
  - destruct strict; [|reflexivity]. cbn. apply negb_true_iff.
    destruct (negb (s_conn (p_s p)) && negb (nonempty_buf (s_buf (p_s p))) && negb (s_sr (p_s p)) && negb (m_sw (p_m p))) eqn:E1;
      [|reflexivity].
    rewrite !andb_true_iff, !negb_true_iff in E1. destruct E1 as [[[E1 E2] E3] E4].
    assert (Hin : In WSockR (pre_ws sd f p x)) by (apply W; auto).
    specialize (Hw WSockR Hin). discriminate.
Qed.

Lemma late_frames_stops sd w : Forall (fun fr => sf_cmd fr = CStop) (late_frames sd w).
Proof.
  apply Forall_forall. intros fr Hin. unfold late_frames in Hin. apply in_flat_map in Hin.
  destruct Hin as (f & _ & Hin). destruct (prox_of sd w f) as [p|]; [|destruct Hin].
  unfold late_of in Hin. destruct (s_sw (p_s p) && negb (m_sr (p_m p))); [|destruct Hin].
  destruct Hin as [<-|[]]. reflexivity.
Qed.

Lemma no_late_stop_frames sd w : no_late_stopb sd w = true -> late_frames sd w = [].
Proof.
  unfold no_late_stopb, late_frames. rewrite forallb_forall. intros H.
  assert (G : forall l, (forall f, In f l -> In f (sel_fids active (get_end w sd))) ->
     flat_map (fun f => match prox_of sd w f with Some p => late_of f p | None => [] end) l = []).
  { induction l as [|f l IH]; intros Hl; [reflexivity|]. cbn [flat_map].
    rewrite IH; [|intros g Hg; apply Hl; right; exact Hg]. rewrite app_nil_r.
    pose proof (Hl f (or_introl eq_refl)) as Hf. apply in_sel_fids in Hf. destruct Hf as [Hlt (p & Ep & Ha)].
    specialize (H f (proj2 (in_fids _ f) Hlt)). unfold prox_of. rewrite Ep in *. unfold late_stop in H. rewrite Ha in H.
    unfold late_of. cbn [andb] in H. apply negb_true_iff in H. rewrite H. reflexivity. }
  apply G. auto.
Qed.

(* THE THEOREM.  In every state reached by complete iterations, if select() of end sd has nothing ready
   (strict = true: nothing it could ever report by itself — the process sleeps until the other end or a new
   connection wakes it; strict = false: nothing ready in the eager environment), then
   - its queue holds exactly the STOP_SENDING messages Proxy.pre_select queued in this very pass, AFTER the
     multiplexer had declined to wait for writability (none with the repaired runonce, none if no handler
     has shut_write set on its socket without shut_read on its tunnel wrapper), and
   - every handler the loop still runs owes nothing (settledb: no pending shutdown, no EOF or STOP not yet
     queued, nothing buffered for a closed direction) and is paused by latency control holding data, or waits
     for the peer's end-of-stream with its own already sent, or has the F20 shape (all four flags set, ok
     still True), or (strict = false only) is connecting / waits for its socket to become readable. *)
Theorem no_lost_wakeup_v (strict fx lat : bool) maxc lbs w sd po :
  lreach_v fx lat maxc lbs w -> presel_pass_v fx sd w = Ok po ->
  sleeps_of (fun p fd => if strict then fd_cand fd else fd_ready p fd) sd po = true ->
  let e1 := get_end (po_w po) sd in
  x_out (e_mux e1) = late_frames sd w /\
  (fx = true \/ no_late_stopb sd w = true -> x_out (e_mux e1) = []) /\
  forall f p1, e_prox e1 f = Some p1 -> active p1 = true -> sleep_shapeb strict p1 (e_mux e1) = true.
Proof.
  intros Hl Hp Hs e1. pose proof (lreach_Winv_v _ _ _ _ _ Hl) as W.
  destruct (pass_spec fx sd w) as (po' & Hp' & _ & R & X & MW & _).
  rewrite Hp in Hp'. inversion Hp'; subst po'; clear Hp'.
  destruct (sleeps_of_facts _ sd po Hs) as (L & M & Hw).
  assert (X0 : x_out (mux_of sd w) = [] /\ (fx = true -> x_out (mux_of sd (po_w po)) = [])).
  { rewrite M in MW. destruct fx.
    - symmetry in MW. apply orb_false_iff in MW. destruct MW as [A B].
      apply negb_false_iff in A, B. rewrite out_empty_spec in A, B. auto.
    - symmetry in MW. apply negb_false_iff in MW. rewrite out_empty_spec in MW. split; [exact MW|discriminate]. }
  destruct X0 as [X0 X1]. rewrite X0 in X. cbn [app] in X. splits.
  - exact X.
  - intros [Hfx|Hn]; [exact (X1 Hfx)|]. unfold e1. fold (mux_of sd (po_w po)). rewrite X. exact (no_late_stop_frames sd w Hn).
  - intros f p1 Hp1 Ha.
    destruct (pass_active fx sd w po f p1 (Winv_get w sd W) Hp Hp1 Ha) as (p & Ep & Hac & -> & Hin).
    apply sleeping_handler_shape.
    + apply (lreach_settled_v _ _ _ _ _ Hl sd f p Ep). unfold active in Hac. apply andb_true_iff in Hac. apply Hac.
    + exact (pr_tf _ _ _ R).
    + intros fd Hfd. exact (Hw f _ _ Hin Hp1 fd Hfd).
Qed.

Lemma sleeper_basic fx rdy sd w po : presel_pass_v fx sd w = Ok po -> sleeps_of rdy sd po = true ->
  rx_link sd w = [] /\ x_out (mux_of sd w) = [] /\ x_out (mux_of sd (po_w po)) = late_frames sd w /\
  (fx = true -> late_frames sd w = []).
Proof.
  intros Hp Hs. destruct (pass_spec fx sd w) as (po' & Hp' & _ & R & X & MW & _).
  rewrite Hp in Hp'. inversion Hp'; subst po'; clear Hp'.
  destruct (sleeps_of_facts _ sd po Hs) as (L & M & _). rewrite (pass_rel_rx _ _ _ R) in L.
  rewrite M in MW. destruct fx.
  - symmetry in MW. apply orb_false_iff in MW. destruct MW as [A B].
    apply negb_false_iff in A, B. rewrite out_empty_spec in A, B. rewrite A in X. cbn [app] in X. splits; auto.
    intros _. congruence.
  - symmetry in MW. apply negb_false_iff in MW. rewrite out_empty_spec in MW. rewrite MW in X. splits; auto. discriminate.
Qed.

(* the boolean form (the one the driver prints and the generator tests) *)
Theorem sleep_okb_holds_v (strict fx lat : bool) maxc lbs w sd :
  lreach_v fx lat maxc lbs w ->
  (if strict then sleepsb_v fx sd w else sleeps_eagerb_v fx sd w) = true -> sleep_okb_v fx strict sd w = true.
Proof.
  intros Hl Hs. destruct (pass_never_crashes_v fx sd w) as (po & Hp).
  assert (Hs' : sleeps_of (fun p fd => if strict then fd_cand fd else fd_ready p fd) sd po = true).
  { destruct strict; [unfold sleepsb_v in Hs|unfold sleeps_eagerb_v in Hs]; rewrite Hp in Hs; exact Hs. }
  destruct (no_lost_wakeup_v strict fx lat maxc lbs w sd po Hl Hp Hs') as (A & B & C).
  unfold sleep_okb_v. rewrite Hp. rewrite !andb_true_iff. splits.
  - rewrite A. apply forallb_forall. intros fr Hin. pose proof (late_frames_stops sd w) as F.
    rewrite Forall_forall in F. unfold is_late_stop_frame. rewrite (F fr Hin). reflexivity.
  - destruct (fx || no_late_stopb sd w) eqn:E; [|reflexivity]. apply out_empty_spec. apply B.
    apply orb_true_iff in E. exact E.
  - apply forallb_forall. intros f _. destruct (e_prox (get_end (po_w po) sd) f) as [p1|] eqn:Ep; [|reflexivity].
    destruct (active p1) eqn:Ha; [|reflexivity]. exact (C f p1 Ep Ha).
Qed.

(* with the repaired runonce a sleeping end has an empty queue, unconditionally *)
Theorem no_lost_wakeup_fixed (strict lat : bool) maxc lbs w sd po :
  lreach_v true lat maxc lbs w -> presel_pass_v true sd w = Ok po ->
  sleeps_of (fun p fd => if strict then fd_cand fd else fd_ready p fd) sd po = true ->
  x_out (e_mux (get_end (po_w po) sd)) = [].
Proof.
  intros Hl Hp Hs. destruct (no_lost_wakeup_v strict true lat maxc lbs w sd po Hl Hp Hs) as (_ & B & _). apply B. left. reflexivity.
Qed.

Lemma flat_map_nil {A B} (f : A -> list B) l : flat_map f l = [] -> forall a, In a l -> f a = [].
Proof.
  induction l as [|b l IH]; intros H a []; cbn [flat_map] in H; apply app_eq_nil in H; destruct H as [H1 H2].
  - subst. exact H1.
  - apply IH; assumption.
Qed.

(* an end that sleeps with an empty queue is quiet in the sense of StreamQuiet *)
Lemma sleeping_end_quiet (strict fx : bool) sd w po : Rinv (get_end w sd) ->
  presel_pass_v fx sd w = Ok po ->
  sleeps_of (fun p fd => if strict then fd_cand fd else fd_ready p fd) sd po = true ->
  x_out (mux_of sd (po_w po)) = [] ->
  rx_link sd w = [] /\ end_quietb sd (get_end w sd) = true /\
  (strict = true -> no_connectingb (get_end w sd) = true).
Proof.
  intros R Hp Hs Hq. destruct (sleeper_basic fx _ sd w po Hp Hs) as (L & X0 & X & _).
  rewrite Hq in X. symmetry in X.
  destruct (pass_spec fx sd w) as (po' & Hp' & _ & _ & _ & _ & WS & PF & _).
  rewrite Hp in Hp'. inversion Hp'; subst po'; clear Hp'.
  destruct (sleeps_of_facts _ sd po Hs) as (_ & _ & Hw).
  assert (Hflow : forall f p, prox_of sd w f = Some p -> active p = true ->
            late_of f p = [] /\ forall fd, In fd (pre_ws sd f p (mux_of sd w)) ->
              (if strict then fd_cand fd else fd_ready (pre_p sd f p (mux_of sd w)) fd) = false).
  { intros f p Ep Ha. pose proof (r_fresh _ R f p Ep) as Hlt.
    assert (Hin : In f (sel_fids active (get_end w sd))) by (apply in_sel_fids; split; [exact Hlt|exists p; auto]).
    split.
    - pose proof (flat_map_nil _ _ X f Hin) as H. cbn beta in H. rewrite Ep in H. exact H.
    - intros fd Hfd. apply (Hw f (pre_ws sd f p (mux_of sd w)) (pre_p sd f p (mux_of sd w))); [| |exact Hfd].
      + rewrite WS. apply in_map_iff. exists f. rewrite Ep. auto.
      + rewrite (PF f p Ep Hlt). unfold after_pass.
        destruct (dead p) eqn:Hd; [rewrite (dead_not_active p Hd) in Ha; discriminate|]. rewrite Ha. reflexivity. }
  splits.
  - exact L.
  - unfold end_quietb. apply andb_true_iff. split; [apply out_empty_spec; exact X0|].
    apply forallb_forall. intros f _. fold (prox_of sd w f). destruct (prox_of sd w f) as [p|] eqn:Ep; [|reflexivity].
    destruct (active p) eqn:Ha; [|reflexivity]. destruct (Hflow f p Ep Ha) as [H1 H2].
    unfold proxy_quiet. fold (mux_of sd w). pose proof (pre_select_fields sd f p (mux_of sd w)) as F.
    unfold pre_ws, pre_p in H2.
    destruct (proxy_pre_select sd f p (mux_of sd w)) as [[p' x'] ws]. cbn [fst snd] in *.
    destruct F as (_ & _ & F3 & _ & _ & _ & _ & _ & _ & _ & F11).
    apply andb_true_iff. split.
    + apply out_empty_spec. rewrite F11, X0. exact H1.
    + apply forallb_forall. intros fd Hfd. apply negb_true_iff. specialize (H2 fd Hfd).
      destruct strict; [|exact H2]. destruct fd; cbn in *; try discriminate. reflexivity.
  - intros ->. unfold no_connectingb. apply forallb_forall. intros f _. fold (prox_of sd w f).
    destruct (prox_of sd w f) as [p|] eqn:Ep; [|reflexivity].
    destruct (active p) eqn:Ha; [|reflexivity]. destruct (Hflow f p Ep Ha) as [_ H2].
    destruct (s_conn (p_s p)) eqn:Ec; [|reflexivity].
    assert (Hin : In WSockW (pre_ws sd f p (mux_of sd w))) by (apply wait_set_spec; left; exact Ec).
    specialize (H2 WSockW Hin). discriminate.
Qed.

(* BOTH ends sleeping = quiescent, unless a STOP_SENDING was queued behind the multiplexer's back *)
Theorem both_sleep_quiescent_v (strict fx lat : bool) maxc lbs w :
  lreach_v fx lat maxc lbs w ->
  (forall sd, (if strict then sleepsb_v fx sd w else sleeps_eagerb_v fx sd w) = true) ->
  (fx = true \/ (no_late_stopb Client w = true /\ no_late_stopb Server w = true)) ->
  (if strict then quiescent_eagerb w else quiescentb w) = true.
Proof.
  intros Hl Hs Hn. pose proof (lreach_Winv_v _ _ _ _ _ Hl) as W.
  assert (H : forall sd, rx_link sd w = [] /\ end_quietb sd (get_end w sd) = true /\
                         (strict = true -> no_connectingb (get_end w sd) = true)).
  { intros sd. destruct (pass_never_crashes_v fx sd w) as (po & Hp). specialize (Hs sd).
    assert (Hs' : sleeps_of (fun p fd => if strict then fd_cand fd else fd_ready p fd) sd po = true).
    { destruct strict; [unfold sleepsb_v in Hs|unfold sleeps_eagerb_v in Hs]; rewrite Hp in Hs; exact Hs. }
    apply (sleeping_end_quiet strict fx sd w po (Winv_get w sd W) Hp Hs').
    destruct (no_lost_wakeup_v strict fx lat maxc lbs w sd po Hl Hp Hs') as (_ & B & _). apply B.
    destruct Hn as [Hn|[Hc Hv]]; [left; exact Hn|right]. destruct sd; assumption. }
  destruct (H Client) as (L1 & Q1 & C1). destruct (H Server) as (L2 & Q2 & C2). cbn [rx_link get_end] in *.
  assert (Q : quiescentb w = true).
  { unfold quiescentb. rewrite L1, L2, Q1, Q2. reflexivity. }
  destruct strict; [|exact Q]. unfold quiescent_eagerb. rewrite Q, (C1 eq_refl), (C2 eq_refl). reflexivity.
Qed.

(* C09: a paused end that sleeps has its round-trip request on the wire (or the answer is in the peer's
   queue): it is never stuck in the sleeper's own queue *)
Theorem paused_sleeper_probe_out_v (fx lat : bool) maxc lbs w sd :
  lreach_v fx lat maxc lbs w -> sleeps_eagerb_v fx sd w = true -> x_too_full (mux_of sd w) = true ->
  has_ping (inlink w sd) = true \/ has_pong (x_out (mux_of (other sd) w)) = true.
Proof.
  intros Hl Hs Ht. destruct (pass_never_crashes_v fx sd w) as (po & Hp).
  unfold sleeps_eagerb_v in Hs. rewrite Hp in Hs.
  destruct (sleeper_basic fx _ sd w po Hp Hs) as (L & X0 & _).
  pose proof (outstanding_inv maxc lbs w sd (lreach_reachable_v _ _ _ _ _ Hl) Ht) as O.
  unfold outstanding, path in O. fold (mux_of sd w) in O. fold (mux_of (other sd) w) in O.
  rewrite X0, app_nil_r, <- rx_link_inlink, L in O. cbn [app] in O.
  apply orb_true_iff in O. exact O.
Qed.

Lemma sleepsb_eager fx sd w : sleepsb_v fx sd w = true -> sleeps_eagerb_v fx sd w = true.
Proof.
  unfold sleepsb_v, sleeps_eagerb_v. destruct (presel_pass_v fx sd w) as [po|]; [|discriminate].
  unfold sleeps_of. rewrite !andb_true_iff, !forallb_forall. intros [[A B] C]. splits; auto.
  intros fw Hin. specialize (C fw Hin). destruct (e_prox (get_end (po_w po) sd) (fst fw)) as [p|]; [|reflexivity].
  rewrite forallb_forall in *. intros fd Hfd. specialize (C fd Hfd). destruct fd; cbn in *; try discriminate; reflexivity.
Qed.

(* ================================================================== *)
(* 7. Witnesses                                                         *)
(* ================================================================== *)
(* a script: connections arriving and iterations of either end *)
Inductive move := MAccept (payload : bytes) | MIter (sd : side) (a : answers).

Fixpoint play_v (fx lat : bool) (l : list move) (w : world) : result world :=
  match l with
  | [] => Ok w
  | MAccept pl :: tl => match step w (EvAccept pl) with Ok w' => play_v fx lat tl w' | Crash c => Crash c end
  | MIter sd a :: tl => match iteration_v fx lat sd a w with Ok w' => play_v fx lat tl w' | Crash c => Crash c end
  end.

Lemma play_lreach_v fx lat maxc lbs l : forall w w', lreach_v fx lat maxc lbs w -> play_v fx lat l w = Ok w' -> lreach_v fx lat maxc lbs w'.
Proof.
  induction l as [|[pl|sd a] l IH]; intros w w' Hl; cbn [play_v].
  - intros [= <-]. exact Hl.
  - destruct (step w (EvAccept pl)) as [w1|] eqn:E; [|discriminate]. apply IH. exact (lr_accept _ _ _ _ w pl w1 Hl E).
  - destruct (iteration_v fx lat sd a w) as [w1|] eqn:E; [|discriminate]. apply IH. exact (lr_iter _ _ _ _ w sd a w1 Hl E).
Qed.

Definition lw_x : bytes := [ascii_of_N 120].
Definition lw_io0 : io := mkIO ConnDone RecvAgain (SendAccept 65536) true.
(* select() reports the tunnel readable (r) / writable (wr); the first Mux.callback dispatches nd frames;
   flush() writes a frame (fl); no socket is reported; every callback gets the answers o *)
Definition lw_ans (r wr : bool) (nd : nat) (fl : bool) (o : io) : answers :=
  mkAns false [] r wr (fun k => (repeat lw_io0 (match k with O => nd | _ => O end), fl)) (fun _ => false) (fun _ _ => o).

(* F160: the application stops reading (EPIPE) while the destination's data is on its way; the client tells
   the server to stop sending; in the iteration in which the server dispatches that message its destination
   socket fails.  Nothing is queued by that callback; the NEXT pre_select queues STOP_SENDING — after
   Mux.pre_select found the queue empty. *)
Definition f160_prefix : list move :=
  [ MAccept [];
    MIter Client (lw_ans false true 0 true lw_io0);     (* flush PING *)
    MIter Client (lw_ans false true 0 true lw_io0);     (* flush CONNECT *)
    MIter Server (lw_ans true true 2 true lw_io0);      (* dispatch PING, CONNECT; flush own PING *)
    MIter Server (lw_ans false true 0 true (mkIO ConnDone (RecvData lw_x) SendAgain true)); (* flush PONG; read "x" *)
    MIter Server (lw_ans false true 0 true lw_io0);     (* flush DATA *)
    MIter Client (lw_ans true false 3 false (mkIO ConnDone RecvAgain (SendErr EPipe) true)); (* PING PONG DATA; EPIPE: STOP queued *)
    MIter Client (lw_ans false true 0 true lw_io0);     (* flush PONG *)
    MIter Client (lw_ans false true 0 true lw_io0) ].   (* flush STOP *)
Definition f160_script : list move :=
  f160_prefix ++ [ MIter Server (lw_ans true false 2 false (mkIO ConnDone RecvErr SendAgain true)) ].  (* PONG, STOP; recv fails *)
(* the same without the failure: both ends sleep, nothing is lost *)
Definition calm_script : list move :=
  f160_prefix ++ [ MIter Server (lw_ans true false 2 false lw_io0) ].

Definition world_of_v (fx : bool) (l : list move) : world :=
  match play_v fx true l (world0 5 32768) with Ok w => w | Crash _ => world0 5 32768 end.
Definition f160_world : world := world_of_v false f160_script.
Definition calm_world : world := world_of_v false calm_script.

Lemma f160_reached : lreach_v false true 5 32768 f160_world.
Proof.
  apply (play_lreach_v false true 5 32768 f160_script (world0 5 32768)); [apply lr_init|].
  vm_compute. reflexivity.
Qed.

Lemma calm_reached : lreach_v false true 5 32768 calm_world.
Proof.
  apply (play_lreach_v false true 5 32768 calm_script (world0 5 32768)); [apply lr_init|].
  vm_compute. reflexivity.
Qed.

Definition queue_after (fx : bool) (sd : side) (w : world) : list sframe :=
  match presel_pass_v fx sd w with Ok po => x_out (mux_of sd (po_w po)) | Crash _ => [] end.

(* the state of F160: the server sleeps (nothing select() could report) with STOP_SENDING in its queue; the client has
   nothing ready either (it waits for its application), keeps its handler, and its identifier stays registered *)
Example f160_state :
  sleepsb_v false Server f160_world = true /\
  queue_after false Server f160_world = [mkSF 1 CStop [] (Some 0)] /\
  sleeps_eagerb_v false Client f160_world = true /\
  no_late_stopb Server f160_world = false /\
  quiescentb f160_world = false /\
  x_chan (mux_of Client f160_world) 1 = Some 0 /\
  (match prox_of Client f160_world 0 with Some p => active p && negb (m_sw (p_m p)) | None => false end) = true /\
  (* with the repaired runonce the same script does not leave the server asleep *)
  sleepsb_v true Server (world_of_v true f160_script) = false.
Proof. vm_compute. splits; reflexivity. Qed.

Theorem no_lost_wakeup_unconditional_refuted :
  ~ (forall lat maxc lbs w sd po, lreach_v false lat maxc lbs w -> presel_pass_v false sd w = Ok po ->
       sleeps_of (fun _ => fd_cand) sd po = true -> x_out (e_mux (get_end (po_w po) sd)) = []).
Proof.
  intros H. destruct (pass_never_crashes_v false Server f160_world) as (po & Hp).
  destruct f160_state as (A & B & _). unfold sleepsb_v in A. unfold queue_after, mux_of in B. rewrite Hp in A, B.
  rewrite (H true 5 32768 f160_world Server po f160_reached Hp A) in B. discriminate.
Qed.

(* non-vacuity: a reachable state with live handlers at both ends in which both ends sleep (the server: nothing to
   report at all), no late STOP is due, and the conclusion — quiescent — holds *)
Example calm_state :
  sleepsb_v false Server calm_world = true /\ sleeps_eagerb_v false Client calm_world = true /\
  no_late_stopb Client calm_world = true /\ no_late_stopb Server calm_world = true /\
  (match prox_of Client calm_world 0, prox_of Server calm_world 0 with
   | Some p, Some q => active p && active q && shape_waits_peer (pre_p Server 0 q (mux_of Server calm_world))
   | _, _ => false end) = true /\
  quiescentb calm_world = true.
Proof. vm_compute. splits; reflexivity. Qed.

(* ================================================================== *)
(* 8. The code as repaired (F160) and as found                          *)
(* ================================================================== *)
Definition lreach : bool -> N -> N -> world -> Prop := lreach_v true.
Definition lreach_asfound : bool -> N -> N -> world -> Prop := lreach_v false.

Theorem iteration_is_run lat sd a w : iteration lat sd a w = run w (iter_events lat sd a w).
Proof. exact (iteration_is_run_v true lat sd a w). Qed.

Theorem iteration_asfound_is_run lat sd a w : iteration_asfound lat sd a w = run w (iter_events_asfound lat sd a w).
Proof. exact (iteration_is_run_v false lat sd a w). Qed.

Theorem lreach_reachable lat maxc lbs w : lreach lat maxc lbs w -> reachable maxc lbs w.
Proof. exact (lreach_reachable_v true lat maxc lbs w). Qed.

Theorem lreach_asfound_reachable lat maxc lbs w : lreach_asfound lat maxc lbs w -> reachable maxc lbs w.
Proof. exact (lreach_reachable_v false lat maxc lbs w). Qed.

(* repaired: a sleeping end has an empty queue and every handler has one of the shapes *)
Theorem no_lost_wakeup (strict lat : bool) maxc lbs w sd po :
  lreach lat maxc lbs w -> presel_pass sd w = Ok po ->
  sleeps_of (fun p fd => if strict then fd_cand fd else fd_ready p fd) sd po = true ->
  let e1 := get_end (po_w po) sd in
  x_out (e_mux e1) = [] /\
  forall f p1, e_prox e1 f = Some p1 -> active p1 = true -> sleep_shapeb strict p1 (e_mux e1) = true.
Proof.
  intros Hl Hp Hs e1. destruct (no_lost_wakeup_v strict true lat maxc lbs w sd po Hl Hp Hs) as (_ & B & C).
  split; [apply B; left; reflexivity|exact C].
Qed.

(* as found: the queue of a sleeping end holds exactly the late STOP_SENDING messages *)
Theorem no_lost_wakeup_asfound (strict lat : bool) maxc lbs w sd po :
  lreach_asfound lat maxc lbs w -> presel_pass_asfound sd w = Ok po ->
  sleeps_of (fun p fd => if strict then fd_cand fd else fd_ready p fd) sd po = true ->
  let e1 := get_end (po_w po) sd in
  x_out (e_mux e1) = late_frames sd w /\
  (no_late_stopb sd w = true -> x_out (e_mux e1) = []) /\
  forall f p1, e_prox e1 f = Some p1 -> active p1 = true -> sleep_shapeb strict p1 (e_mux e1) = true.
Proof.
  intros Hl Hp Hs e1. destruct (no_lost_wakeup_v strict false lat maxc lbs w sd po Hl Hp Hs) as (A & B & C).
  splits; [exact A|intros H; apply B; right; exact H|exact C].
Qed.

Theorem no_lost_wakeup_asfound_refuted :
  ~ (forall lat maxc lbs w sd po, lreach_asfound lat maxc lbs w -> presel_pass_asfound sd w = Ok po ->
       sleeps_of (fun _ => fd_cand) sd po = true -> x_out (e_mux (get_end (po_w po) sd)) = []).
Proof. exact no_lost_wakeup_unconditional_refuted. Qed.

Theorem both_sleep_quiescent (strict lat : bool) maxc lbs w :
  lreach lat maxc lbs w ->
  (forall sd, (if strict then sleepsb sd w else sleeps_eagerb sd w) = true) ->
  (if strict then quiescent_eagerb w else quiescentb w) = true.
Proof. intros Hl Hs. apply (both_sleep_quiescent_v strict true lat maxc lbs w Hl Hs). left. reflexivity. Qed.

Theorem both_sleep_quiescent_asfound (strict lat : bool) maxc lbs w :
  lreach_asfound lat maxc lbs w ->
  (forall sd, (if strict then sleepsb_asfound sd w else sleeps_eagerb_asfound sd w) = true) ->
  no_late_stopb Client w = true -> no_late_stopb Server w = true ->
  (if strict then quiescent_eagerb w else quiescentb w) = true.
Proof. intros Hl Hs H1 H2. apply (both_sleep_quiescent_v strict false lat maxc lbs w Hl Hs). right. auto. Qed.

(* ================================================================== *)
(* 9. The generator the statement was tested with before it was proved  *)
(* ================================================================== *)
(* pseudo-random walks: connections arriving, iterations of either end with generated answers of select()
   (tunnel readable / writable, sockets ready) and of the socket calls (data, EOF, EAGAIN, errors on recv / send /
   connect / shutdown); the boolean statement is evaluated in EVERY state of every walk *)
Definition g_lcg (s : N) : N := (s * 1103515245 + 12345) mod 2147483648.
Definition g_pick (s k : N) : N := (s / 65536) mod k.
Definition g_ios : list io :=
  [ lw_io0; lw_io0;
    mkIO ConnDone RecvEof (SendAccept 65536) true;
    mkIO ConnDone (RecvData lw_x) (SendAccept 65536) true;
    mkIO ConnDone RecvErr (SendAccept 65536) true;
    mkIO ConnDone RecvAgain (SendErr EOtherErr) true;
    mkIO ConnDone RecvAgain (SendErr EPipe) true;
    mkIO (ConnErr EInProgress) RecvAgain SendAgain true;
    mkIO (ConnErr ENet) RecvAgain SendAgain true;
    mkIO ConnDone RecvEof (SendAccept 65536) false;
    mkIO ConnDone (RecvData lw_x) SendAgain true ].
Definition g_io (n : N) : io := nth (N.to_nat (n mod 11)) g_ios lw_io0.

Definition g_ans (s : N) (w : world) (sd : side) : answers :=
  let s1 := g_lcg s in let s2 := g_lcg s1 in let s3 := g_lcg s2 in
  let nin := length (rx_link sd w) in
  mkAns false [] (negb (g_pick s1 4 =? 0)) (negb (g_pick s2 3 =? 0))
        (fun k => (map (fun j => g_io (g_pick s3 11 + N.of_nat j)) (seq 0 (if g_pick s3 5 =? 0 then 1%nat else nin)),
                   negb (g_pick s3 7 =? 0)))
        (fun f => negb (g_pick (g_lcg (s3 + f)) 3 =? 0))
        (fun f k => g_io (g_pick (g_lcg (s2 + 7 * f + N.of_nat k)) 23)).

Definition g_move (fx : bool) (s : N) (w : world) : result world :=
  let s0 := g_lcg s in
  if (g_pick s0 9 =? 0) && (e_next (w_cl w) <? 3) then step w (EvAccept [])
  else let sd := if g_pick s0 2 =? 0 then Client else Server in iteration_v fx true sd (g_ans s0 w sd) w.

Definition g_prop (fx : bool) (w : world) : bool :=
  forallb (fun sd => implb (sleeps_eagerb_v fx sd w) (sleep_okb_v fx false sd w) &&
                     implb (sleepsb_v fx sd w) (sleep_okb_v fx true sd w)) [Client; Server].

Fixpoint g_walk (fx : bool) (n : nat) (s : N) (w : world) : bool :=
  g_prop fx w &&
  match n with
  | O => true
  | S n' => match g_move fx s w with
            | Ok w' => g_walk fx n' (g_lcg (g_lcg (g_lcg (g_lcg s)))) w'
            | Crash _ => true
            end
  end.

Example generator_sweep :
  forallb (fun i => g_walk false 30 (N.of_nat i * 7919 + 1) (world0 5 32768) &&
                    g_walk true 30 (N.of_nat i * 7919 + 1) (world0 5 32768)) (seq 0 60) = true.
Proof. vm_compute. reflexivity. Qed.
