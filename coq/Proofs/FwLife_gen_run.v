(* Proofs/FwLife_gen_run.v — C04, general theorems, part 1:
   generic facts about the abstract program runner of Model/FwLifeSpec.v
   (monotone command index, trace length, dependence on the fault set only
   inside the window of issued commands) and the generic simulation of the
   concrete runner `run` by the abstract one. *)
From Coq Require Import String List NArith ZArith Ascii Bool Lia Arith.
From SV Require Import Lib.Bytes Model.FwLife Model.FwLifeSpec Proofs.FwLife_lemmas.
Import ListNotations.

Lemma nth_cmd_cmds_of ev : forall k, nth_cmd k ev = nth_error (cmds_of ev) k.
Proof.
  induction ev as [|e ev IH]; intro k; [destruct k; reflexivity|].
  destruct e as [c ok st|m]; [|exact (IH k)].
  destruct c as [f t o|o|o]; try (destruct k; [reflexivity | exact (IH k)]).
  destruct o; try (destruct k; [reflexivity | exact (IH k)]). exact (IH k).
Qed.

Lemma cmds_of_app a b : cmds_of (a ++ b) = cmds_of a ++ cmds_of b.
Proof.
  induction a as [|e a IH]; [reflexivity|].
  destruct e as [c ok st|m]; [|exact IH].
  destruct c as [f t o|o|o]; try (cbn [app cmds_of]; rewrite IH; reflexivity).
  destruct o; cbn [app cmds_of]; rewrite IH; reflexivity.
Qed.

Definition no_marks (ev : list event) : Prop := forall m, has_mark m ev = false.

Lemma no_marks_app a b : no_marks a -> no_marks b -> no_marks (a ++ b).
Proof.
  intros Ha Hb m. pose proof (Ha m) as A. pose proof (Hb m) as B. unfold has_mark in *.
  rewrite existsb_app, A, B. reflexivity.
Qed.
Lemma no_marks_nil : no_marks [].
Proof. intro m. reflexivity. Qed.
Lemma no_marks_cmd c ok st ev : no_marks ev -> no_marks (ECmd c ok st :: ev).
Proof. intros H m. specialize (H m). unfold has_mark in *. cbn [existsb]. rewrite H. reflexivity. Qed.

Lemma run_sstep_no_marks F x n s ok n' s' ev :
  run_sstep F x n s = (ok, n', s', ev) -> no_marks ev.
Proof.
  destruct x as [c|c]; cbn [run_sstep]; destruct (issue F c n s) as [[[o1 o2] o3] s1];
    intros [= <- <- <- <-]; apply no_marks_cmd, no_marks_nil.
Qed.

Lemma run_ss_no_marks F xs : forall n s ok n' s' ev,
  run_ss F xs n s = (ok, n', s', ev) -> no_marks ev.
Proof.
  induction xs as [|x xs IH]; intros n s ok n' s' ev H; cbn [run_ss] in H.
  - injection H as <- <- <- <-. apply no_marks_nil.
  - destruct (run_sstep F x n s) as [[[ok1 n1] s1] ev1] eqn:R1.
    pose proof (run_sstep_no_marks _ _ _ _ _ _ _ _ R1) as M1. destruct ok1.
    + destruct (run_ss F xs n1 s1) as [[[ok2 n2] s2] ev2] eqn:R2.
      injection H as <- <- <- <-. apply no_marks_app; [exact M1 | eapply IH; exact R2].
    + injection H as <- <- <- <-. exact M1.
Qed.

Lemma run_step_no_marks F x n s ok n' s' ev :
  run_step F x n s = (ok, n', s', ev) -> no_marks ev.
Proof.
  destruct x as [y|f t name body]; cbn [run_step]; [apply run_sstep_no_marks|].
  destruct (issue F (Ipt f t IList) n s) as [[[o1 o2] o3] s1]. destruct o1.
  - destruct (chain_in_listing name o2).
    + destruct (run_ss F body (S n) s1) as [[[ok2 n2] s2] ev2] eqn:R2.
      intros [= <- <- <- <-]. apply no_marks_cmd. eapply run_ss_no_marks; exact R2.
    + intros [= <- <- <- <-]. apply no_marks_cmd, no_marks_nil.
  - intros [= <- <- <- <-]. apply no_marks_cmd, no_marks_nil.
Qed.

Lemma run_no_marks F xs : forall n s ok n' s' ev,
  run F xs n s = (ok, n', s', ev) -> no_marks ev.
Proof.
  induction xs as [|x xs IH]; intros n s ok n' s' ev H; cbn [run] in H.
  - injection H as <- <- <- <-. apply no_marks_nil.
  - destruct (run_step F x n s) as [[[ok1 n1] s1] ev1] eqn:R1.
    pose proof (run_step_no_marks _ _ _ _ _ _ _ _ R1) as M1. destruct ok1.
    + destruct (run F xs n1 s1) as [[[ok2 n2] s2] ev2] eqn:R2.
      injection H as <- <- <- <-. apply no_marks_app; [exact M1 | eapply IH; exact R2].
    + injection H as <- <- <- <-. exact M1.
Qed.

(* a property of kernel states that every command of a program preserves is preserved by the run *)
Section RunPres.
Variable Q : kstate -> Prop.
Definition cmd_pres (c : cmd) : Prop := forall s s' o e, exec c s = (Some s', o, e) -> Q s -> Q s'.

Lemma issue_pres F c n s ok o e s' : cmd_pres c -> issue F c n s = (ok, o, e, s') -> Q s -> Q s'.
Proof.
  intros Hc Hi Hq. unfold issue in Hi. destruct (F n); [injection Hi as <- <- <- <-; exact Hq|].
  destruct (exec c s) as [[[s1|] o1] e1] eqn:E; injection Hi as <- <- <- <-; [|exact Hq].
  eapply Hc; eassumption.
Qed.

Definition sstep_pres (x : sstep) : Prop := cmd_pres (sstep_cmd x).
Definition step_pres (x : step) : Prop :=
  match x with Simple y => sstep_pres y | IfChain f t _ body => Forall sstep_pres body end.

Lemma run_sstep_pres F x n s ok n' s' ev :
  sstep_pres x -> run_sstep F x n s = (ok, n', s', ev) -> Q s -> Q s'.
Proof.
  intros Hx H Hq. destruct x as [c|c]; cbn [run_sstep] in H;
    destruct (issue F c n s) as [[[o1 o2] o3] s1] eqn:I; injection H as <- <- <- <-;
    eapply issue_pres; eassumption.
Qed.

Lemma run_ss_pres F xs : forall n s ok n' s' ev,
  Forall sstep_pres xs -> run_ss F xs n s = (ok, n', s', ev) -> Q s -> Q s'.
Proof.
  induction xs as [|x xs IH]; intros n s ok n' s' ev Hx H Hq; cbn [run_ss] in H.
  - injection H as <- <- <- <-. exact Hq.
  - inversion Hx as [|? ? Hx1 Hx2]; subst.
    destruct (run_sstep F x n s) as [[[ok1 n1] s1] ev1] eqn:R1.
    pose proof (run_sstep_pres _ _ _ _ _ _ _ _ Hx1 R1 Hq) as Q1. destruct ok1.
    + destruct (run_ss F xs n1 s1) as [[[ok2 n2] s2] ev2] eqn:R2.
      injection H as <- <- <- <-. eapply IH; eassumption.
    + injection H as <- <- <- <-. exact Q1.
Qed.

Lemma listing_pres f t : cmd_pres (Ipt f t IList).
Proof. intros s s' o e H Hq. cbn [exec] in H. injection H as <- <- <-. exact Hq. Qed.

Lemma run_step_pres F x n s ok n' s' ev :
  step_pres x -> run_step F x n s = (ok, n', s', ev) -> Q s -> Q s'.
Proof.
  intros Hx H Hq. destruct x as [y|f t name body]; cbn [run_step] in H; [eapply run_sstep_pres; eassumption|].
  destruct (issue F (Ipt f t IList) n s) as [[[o1 o2] o3] s1] eqn:I.
  pose proof (issue_pres _ _ _ _ _ _ _ _ (listing_pres f t) I Hq) as Q1. destruct o1.
  - destruct (chain_in_listing name o2).
    + destruct (run_ss F body (S n) s1) as [[[ok2 n2] s2] ev2] eqn:R2.
      injection H as <- <- <- <-. eapply run_ss_pres; eassumption.
    + injection H as <- <- <- <-. exact Q1.
  - injection H as <- <- <- <-. exact Q1.
Qed.

Lemma run_pres F xs : forall n s ok n' s' ev,
  Forall step_pres xs -> run F xs n s = (ok, n', s', ev) -> Q s -> Q s'.
Proof.
  induction xs as [|x xs IH]; intros n s ok n' s' ev Hx H Hq; cbn [run] in H.
  - injection H as <- <- <- <-. exact Hq.
  - inversion Hx as [|? ? Hx1 Hx2]; subst.
    destruct (run_step F x n s) as [[[ok1 n1] s1] ev1] eqn:R1.
    pose proof (run_step_pres _ _ _ _ _ _ _ _ Hx1 R1 Hq) as Q1. destruct ok1.
    + destruct (run F xs n1 s1) as [[[ok2 n2] s2] ev2] eqn:R2.
      injection H as <- <- <- <-. eapply IH; eassumption.
    + injection H as <- <- <- <-. exact Q1.
Qed.
End RunPres.

(* ------------------------------------------------------------------ *)
(* the abstract runner                                                  *)

Section MachineFacts.
Variables (ST AC TS : Type).
Variable aexec : AC -> ST -> option ST.
Variable atest : TS -> ST -> bool.
Variable conc : AC -> cmd.
Variable tfam : TS -> fam.
Variable ttbl : TS -> tbl.
Variable tname : TS -> tok.

Notation Arun_sstep := (arun_sstep ST AC aexec conc).
Notation Arun_ss := (arun_ss ST AC aexec conc).
Notation Arun_step := (arun_step ST AC TS aexec atest conc tfam ttbl).
Notation Arun := (arun ST AC TS aexec atest conc tfam ttbl).
Notation Comp_ss := (comp_ss AC conc).
Notation Comp := (comp AC TS conc tfam ttbl tname).

(* what a run guarantees about indices and trace, and its independence of the fault set
   outside the window [n, n') *)
Definition win_ok (F : faultfn) (n : nat) (r : ares ST) : Prop :=
  let '(ok, n', a', tr) := r in
  n <= n' /\ length tr = n' - n.

Ltac wk := unfold win_ok in *; cbn beta iota zeta in *; cbn [length] in *.

Lemma arun_sstep_win F x n a : win_ok F n (Arun_sstep F x n a).
Proof.
  destruct x as [c|c]; cbn [arun_sstep]; destruct (aissue ST AC aexec F c n a) as [ok a'];
    wk; split; lia.
Qed.

Lemma arun_ss_win F xs : forall n a, win_ok F n (Arun_ss F xs n a).
Proof.
  induction xs as [|x xs IH]; intros n a; cbn [arun_ss]; [wk; split; lia|].
  pose proof (arun_sstep_win F x n a) as W1.
  destruct (Arun_sstep F x n a) as [[[ok1 n1] a1] t1]. destruct ok1; [|exact W1].
  pose proof (IH n1 a1) as W2. destruct (Arun_ss F xs n1 a1) as [[[ok2 n2] a2] t2].
  wk. rewrite app_length. lia.
Qed.

Lemma arun_step_win F x n a : win_ok F n (Arun_step F x n a).
Proof.
  destruct x as [y|t body]; cbn [arun_step]; [apply arun_sstep_win|].
  destruct (F n); [wk; split; lia|]. destruct (atest t a); [|wk; split; lia].
  pose proof (arun_ss_win F body (S n) a) as W2.
  destruct (Arun_ss F body (S n) a) as [[[ok2 n2] a2] t2]. wk. lia.
Qed.

Lemma arun_win F xs : forall n a, win_ok F n (Arun F xs n a).
Proof.
  induction xs as [|x xs IH]; intros n a; cbn [arun]; [wk; split; lia|].
  pose proof (arun_step_win F x n a) as W1.
  destruct (Arun_step F x n a) as [[[ok1 n1] a1] t1]. destruct ok1; [|exact W1].
  pose proof (IH n1 a1) as W2. destruct (Arun F xs n1 a1) as [[[ok2 n2] a2] t2].
  wk. rewrite app_length. lia.
Qed.

Lemma arun_mono F xs n a ok n' a' tr : Arun F xs n a = (ok, n', a', tr) -> n <= n' /\ length tr = n' - n.
Proof. intro H. pose proof (arun_win F xs n a) as W. rewrite H in W. exact W. Qed.

Lemma arun_ss_mono F xs n a ok n' a' tr : Arun_ss F xs n a = (ok, n', a', tr) -> n <= n' /\ length tr = n' - n.
Proof. intro H. pose proof (arun_ss_win F xs n a) as W. rewrite H in W. exact W. Qed.

(* window extensionality *)
Lemma arun_sstep_ext F G x n a ok n' a' tr :
  Arun_sstep F x n a = (ok, n', a', tr) -> (forall i, n <= i < n' -> G i = F i) ->
  Arun_sstep G x n a = (ok, n', a', tr).
Proof.
  intros H Hw. assert (E : G n = F n).
  { apply Hw. pose proof (arun_sstep_win F x n a) as W. rewrite H in W. wk.
    destruct x; cbn [arun_sstep] in H; destruct (aissue ST AC aexec F c n a); injection H as <- <- <- <-; lia. }
  destruct x as [c|c]; cbn [arun_sstep] in *; unfold aissue in *; rewrite E; exact H.
Qed.

Lemma arun_ss_ext F G xs : forall n a ok n' a' tr,
  Arun_ss F xs n a = (ok, n', a', tr) -> (forall i, n <= i < n' -> G i = F i) ->
  Arun_ss G xs n a = (ok, n', a', tr).
Proof.
  induction xs as [|x xs IH]; intros n a ok n' a' tr H Hw; cbn [arun_ss] in *; [exact H|].
  destruct (Arun_sstep F x n a) as [[[ok1 n1] a1] t1] eqn:R1.
  pose proof (arun_sstep_win F x n a) as W1. rewrite R1 in W1. wk.
  destruct ok1.
  - destruct (Arun_ss F xs n1 a1) as [[[ok2 n2] a2] t2] eqn:R2.
    pose proof (arun_ss_mono _ _ _ _ _ _ _ _ R2) as W2.
    injection H as <- <- <- <-.
    rewrite (arun_sstep_ext F G x n a _ _ _ _ R1) by (intros i Hi; apply Hw; lia).
    rewrite (IH _ _ _ _ _ _ R2) by (intros i Hi; apply Hw; lia). reflexivity.
  - injection H as <- <- <- <-.
    rewrite (arun_sstep_ext F G x n a _ _ _ _ R1) by (intros i Hi; apply Hw; lia). reflexivity.
Qed.

Lemma arun_step_ext F G x n a ok n' a' tr :
  Arun_step F x n a = (ok, n', a', tr) -> (forall i, n <= i < n' -> G i = F i) ->
  Arun_step G x n a = (ok, n', a', tr).
Proof.
  intros H Hw. destruct x as [y|t body]; cbn [arun_step] in *; [eapply arun_sstep_ext; eassumption|].
  assert (E : G n = F n).
  { apply Hw. pose proof (arun_step_win F (AIf t body) n a) as W. cbn [arun_step] in W.
    rewrite H in W. wk.
    destruct (F n); [injection H as <- <- <- <-; lia|].
    destruct (atest t a); [|injection H as <- <- <- <-; lia].
    destruct (Arun_ss F body (S n) a) as [[[ok2 n2] a2] t2] eqn:R2.
    pose proof (arun_ss_mono _ _ _ _ _ _ _ _ R2). injection H as <- <- <- <-. lia. }
  rewrite E. destruct (F n); [exact H|]. destruct (atest t a); [|exact H].
  destruct (Arun_ss F body (S n) a) as [[[ok2 n2] a2] t2] eqn:R2.
  injection H as <- <- <- <-.
  rewrite (arun_ss_ext F G body _ _ _ _ _ _ R2) by (intros i Hi; apply Hw; lia). reflexivity.
Qed.

Lemma arun_ext F G xs : forall n a ok n' a' tr,
  Arun F xs n a = (ok, n', a', tr) -> (forall i, n <= i < n' -> G i = F i) ->
  Arun G xs n a = (ok, n', a', tr).
Proof.
  induction xs as [|x xs IH]; intros n a ok n' a' tr H Hw; cbn [arun] in *; [exact H|].
  destruct (Arun_step F x n a) as [[[ok1 n1] a1] t1] eqn:R1.
  pose proof (arun_step_win F x n a) as W1. rewrite R1 in W1. wk.
  destruct ok1.
  - destruct (Arun F xs n1 a1) as [[[ok2 n2] a2] t2] eqn:R2.
    pose proof (arun_mono _ _ _ _ _ _ _ _ R2) as W2.
    injection H as <- <- <- <-.
    rewrite (arun_step_ext F G x n a _ _ _ _ R1) by (intros i Hi; apply Hw; lia).
    rewrite (IH _ _ _ _ _ _ R2) by (intros i Hi; apply Hw; lia). reflexivity.
  - injection H as <- <- <- <-.
    rewrite (arun_step_ext F G x n a _ _ _ _ R1) by (intros i Hi; apply Hw; lia). reflexivity.
Qed.

(* program append *)
Lemma arun_app F xs ys n a :
  Arun F (xs ++ ys) n a =
  let '(ok1, n1, a1, t1) := Arun F xs n a in
  if ok1 then let '(ok2, n2, a2, t2) := Arun F ys n1 a1 in (ok2, n2, a2, t1 ++ t2)
  else (false, n1, a1, t1).
Proof.
  revert n a. induction xs as [|x xs IH]; intros n a; cbn [app arun].
  - destruct (Arun F ys n a) as [[[ok2 n2] a2] t2]. reflexivity.
  - destruct (Arun_step F x n a) as [[[ok1 n1] a1] t1]. destruct ok1; [|reflexivity].
    rewrite IH. destruct (Arun F xs n1 a1) as [[[ok2 n2] a2] t2]. destruct ok2.
    + destruct (Arun F ys n2 a2) as [[[ok3 n3] a3] t3]. rewrite app_assoc. reflexivity.
    + reflexivity.
Qed.

(* index shift: only the faults at n, n+1, ... matter *)
Lemma arun_sstep_shift F x n a :
  Arun_sstep F x n a =
  let '(ok, m, a', tr) := Arun_sstep (fun i => F (n + i)) x 0 a in (ok, n + m, a', tr).
Proof.
  destruct x as [c|c]; cbn [arun_sstep]; unfold aissue; rewrite Nat.add_0_r;
    destruct (F n); [|destruct (aexec c a)| |destruct (aexec c a)]; cbn; rewrite Nat.add_1_r; reflexivity.
Qed.

Lemma arun_ss_shift xs : forall F n a,
  Arun_ss F xs n a =
  let '(ok, m, a', tr) := Arun_ss (fun i => F (n + i)) xs 0 a in (ok, n + m, a', tr).
Proof.
  induction xs as [|x xs IH]; intros F n a; cbn [arun_ss]; [rewrite Nat.add_0_r; reflexivity|].
  rewrite (arun_sstep_shift F x n a).
  destruct (Arun_sstep (fun i => F (n + i)) x 0 a) as [[[ok1 m1] a1] t1] eqn:R1.
  destruct ok1; [|reflexivity].
  rewrite (IH F (n + m1) a1).
  rewrite (IH (fun i => F (n + i)) m1 a1).
  assert (E : forall (G G' : faultfn), (forall i, G i = G' i) -> Arun_ss G xs 0 a1 = Arun_ss G' xs 0 a1).
  { intros G G' HG. destruct (Arun_ss G' xs 0 a1) as [[[ok2 m2] a2] t2] eqn:R2.
    eapply arun_ss_ext; [exact R2|]. intros i _. apply HG. }
  rewrite (E (fun i => F (n + m1 + i)) (fun i => F (n + (m1 + i)))) by (intro i; rewrite Nat.add_assoc; reflexivity).
  destruct (Arun_ss (fun i => F (n + (m1 + i))) xs 0 a1) as [[[ok2 m2] a2] t2].
  rewrite Nat.add_assoc. reflexivity.
Qed.

Lemma arun_step_shift F x n a :
  Arun_step F x n a =
  let '(ok, m, a', tr) := Arun_step (fun i => F (n + i)) x 0 a in (ok, n + m, a', tr).
Proof.
  destruct x as [y|t body]; cbn [arun_step]; [apply arun_sstep_shift|].
  rewrite Nat.add_0_r. destruct (F n); [rewrite Nat.add_1_r; reflexivity|].
  destruct (atest t a); [|rewrite Nat.add_1_r; reflexivity].
  rewrite (arun_ss_shift body F (S n) a). rewrite (arun_ss_shift body (fun i => F (n + i)) 1 a).
  assert (E : forall (G G' : faultfn), (forall i, G i = G' i) -> Arun_ss G body 0 a = Arun_ss G' body 0 a).
  { intros G G' HG. destruct (Arun_ss G' body 0 a) as [[[ok2 m2] a2] t2] eqn:R2.
    eapply arun_ss_ext; [exact R2|]. intros i _. apply HG. }
  rewrite (E (fun i => F (S n + i)) (fun i => F (n + (1 + i)))) by (intro i; f_equal; lia).
  destruct (Arun_ss (fun i => F (n + (1 + i))) body 0 a) as [[[ok2 m2] a2] t2].
  replace (S n + m2) with (n + (1 + m2)) by lia. reflexivity.
Qed.

Lemma arun_shift xs : forall F n a,
  Arun F xs n a =
  let '(ok, m, a', tr) := Arun (fun i => F (n + i)) xs 0 a in (ok, n + m, a', tr).
Proof.
  induction xs as [|x xs IH]; intros F n a; cbn [arun]; [rewrite Nat.add_0_r; reflexivity|].
  rewrite (arun_step_shift F x n a).
  destruct (Arun_step (fun i => F (n + i)) x 0 a) as [[[ok1 m1] a1] t1] eqn:R1.
  destruct ok1; [|reflexivity].
  rewrite (IH F (n + m1) a1).
  rewrite (IH (fun i => F (n + i)) m1 a1).
  assert (E : forall (G G' : faultfn), (forall i, G i = G' i) -> Arun G xs 0 a1 = Arun G' xs 0 a1).
  { intros G G' HG. destruct (Arun G' xs 0 a1) as [[[ok2 m2] a2] t2] eqn:R2.
    eapply arun_ext; [exact R2|]. intros i _. apply HG. }
  rewrite (E (fun i => F (n + m1 + i)) (fun i => F (n + (m1 + i)))) by (intro i; rewrite Nat.add_assoc; reflexivity).
  destruct (Arun (fun i => F (n + (m1 + i))) xs 0 a1) as [[[ok2 m2] a2] t2].
  rewrite Nat.add_assoc. reflexivity.
Qed.

(* ---------------- simulation of the concrete runner ---------------- *)
Variable R : kstate -> ST -> Prop.
Variable okc : AC -> Prop.      (* the commands / tests the simulation is claimed for *)
Variable okt : TS -> Prop.
Hypothesis Hex : forall c s a, okc c -> R s a ->
  match aexec c a with
  | Some a' => exists s', exec (conc c) s = (Some s', [], []) /\ R s' a'
  | None => exec (conc c) s = (None, [], [])
  end.
Hypothesis Hnp : forall c ok st, cmds_of [ECmd (conc c) ok st] = [conc c].
Hypothesis Htest : forall t s a, okt t -> R s a ->
  chain_in_listing (tname t) (listing (get_tbl (tfam t) (ttbl t) s)) = atest t a.

Definition ok_ss (x : asstep AC) : Prop := match x with ADo c | ATry c => okc c end.
Definition ok_step (x : astep AC TS) : Prop :=
  match x with ASimple y => ok_ss y | AIf t body => okt t /\ Forall ok_ss body end.

Lemma issue_sim F c n s a ok o e s' :
  okc c -> R s a -> issue F (conc c) n s = (ok, o, e, s') ->
  exists a', aissue ST AC aexec F c n a = (ok, a') /\ R s' a'.
Proof.
  intros Hc Hr Hi. unfold issue in Hi. unfold aissue. destruct (F n).
  - injection Hi as <- <- <- <-. exists a. split; [reflexivity | exact Hr].
  - pose proof (Hex c s a Hc Hr) as Hx. destruct (aexec c a) as [a1|].
    + destruct Hx as (s1 & E & R1). rewrite E in Hi. injection Hi as <- <- <- <-.
      exists a1. split; [reflexivity | exact R1].
    + rewrite Hx in Hi. injection Hi as <- <- <- <-. exists a. split; [reflexivity | exact Hr].
Qed.

Lemma sstep_sim F x n s a ok n' s' ev :
  ok_ss x -> R s a -> run_sstep F (Comp_ss x) n s = (ok, n', s', ev) ->
  exists a', Arun_sstep F x n a = (ok, n', a', cmds_of ev) /\ R s' a'.
Proof.
  intros Hc Hr H. destruct x as [c|c]; cbn [comp_ss run_sstep arun_sstep ok_ss] in *;
    destruct (issue F (conc c) n s) as [[[ok1 o1] e1] s1] eqn:I;
    destruct (issue_sim _ _ _ _ _ _ _ _ _ Hc Hr I) as (a1 & A1 & R1); rewrite A1;
    injection H as <- <- <- <-; exists a1; rewrite Hnp; (split; [reflexivity | exact R1]).
Qed.

Lemma ss_sim F xs : forall n s a ok n' s' ev,
  Forall ok_ss xs -> R s a -> run_ss F (map Comp_ss xs) n s = (ok, n', s', ev) ->
  exists a', Arun_ss F xs n a = (ok, n', a', cmds_of ev) /\ R s' a'.
Proof.
  induction xs as [|x xs IH]; intros n s a ok n' s' ev Hk Hr H; cbn [map run_ss arun_ss] in *.
  - injection H as <- <- <- <-. exists a. split; [reflexivity | exact Hr].
  - inversion Hk as [|? ? Hk1 Hk2]; subst.
    destruct (run_sstep F (Comp_ss x) n s) as [[[ok1 n1] s1] ev1] eqn:R1.
    destruct (sstep_sim _ _ _ _ _ _ _ _ _ Hk1 Hr R1) as (a1 & A1 & Hr1). rewrite A1. destruct ok1.
    + destruct (run_ss F (map Comp_ss xs) n1 s1) as [[[ok2 n2] s2] ev2] eqn:R2.
      destruct (IH _ _ _ _ _ _ _ Hk2 Hr1 R2) as (a2 & A2 & Hr2). rewrite A2.
      injection H as <- <- <- <-. exists a2. rewrite cmds_of_app. split; [reflexivity | exact Hr2].
    + injection H as <- <- <- <-. exists a1. split; [reflexivity | exact Hr1].
Qed.

Lemma step_sim F x n s a ok n' s' ev :
  ok_step x -> R s a -> run_step F (Comp x) n s = (ok, n', s', ev) ->
  exists a', Arun_step F x n a = (ok, n', a', cmds_of ev) /\ R s' a'.
Proof.
  intros Hk Hr H. destruct x as [y|t body]; cbn [comp run_step arun_step ok_step] in *;
    [eapply sstep_sim; eassumption|].
  destruct Hk as [Hkt Hkb].
  unfold issue in H. destruct (F n).
  - injection H as <- <- <- <-. exists a. split; [reflexivity | exact Hr].
  - cbn [exec] in H. rewrite (Htest t s a Hkt Hr) in H. destruct (atest t a).
    + destruct (run_ss F (map Comp_ss body) (S n) s) as [[[ok2 n2] s2] ev2] eqn:R2.
      destruct (ss_sim _ _ _ _ _ _ _ _ _ Hkb Hr R2) as (a2 & A2 & Hr2). rewrite A2.
      injection H as <- <- <- <-. exists a2. split; [reflexivity | exact Hr2].
    + injection H as <- <- <- <-. exists a. split; [reflexivity | exact Hr].
Qed.

Theorem gsim F xs : forall n s a ok n' s' ev,
  Forall ok_step xs -> R s a -> run F (map Comp xs) n s = (ok, n', s', ev) ->
  exists a', Arun F xs n a = (ok, n', a', cmds_of ev) /\ R s' a'.
Proof.
  induction xs as [|x xs IH]; intros n s a ok n' s' ev Hk Hr H; cbn [map run arun] in *.
  - injection H as <- <- <- <-. exists a. split; [reflexivity | exact Hr].
  - inversion Hk as [|? ? Hk1 Hk2]; subst.
    destruct (run_step F (Comp x) n s) as [[[ok1 n1] s1] ev1] eqn:R1.
    destruct (step_sim _ _ _ _ _ _ _ _ _ Hk1 Hr R1) as (a1 & A1 & Hr1). rewrite A1. destruct ok1.
    + destruct (run F (map Comp xs) n1 s1) as [[[ok2 n2] s2] ev2] eqn:R2.
      destruct (IH _ _ _ _ _ _ _ Hk2 Hr1 R2) as (a2 & A2 & Hr2). rewrite A2.
      injection H as <- <- <- <-. exists a2. rewrite cmds_of_app. split; [reflexivity | exact Hr2].
    + injection H as <- <- <- <-. exists a1. split; [reflexivity | exact Hr1].
Qed.
End MachineFacts.
