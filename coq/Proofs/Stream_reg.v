(* Proofs/Stream_reg.v — the registration invariant of one tunnel end: the
   channel table and the open wrappers determine each other.  It gives C06
   (distinct, non-zero identifiers; late frames dropped) for every reachable
   state and is the base of the flow invariants. *)
From Coq Require Import List NArith Ascii Bool Lia.
From SV Require Import Lib.Bytes Model.Wire Model.Chan Model.Stream
  Proofs.Wire_lemmas Proofs.Chan_lemmas Proofs.Stream_basic Proofs.Stream_wrap Proofs.Stream_cb.
Import ListNotations.
Local Open Scope N_scope.

Record Rinv (e : endpt) : Prop := {
  (* a registered identifier belongs to an existing, open wrapper with that channel *)
  r_reg : forall c g, x_chan (e_mux e) c = Some g ->
          exists p, e_prox e g = Some p /\ m_chan (p_m p) = c /\ closed (p_m p) = false;
  (* every open wrapper is the one registered for its channel *)
  r_open : forall g p, e_prox e g = Some p -> closed (p_m p) = false ->
           x_chan (e_mux e) (m_chan (p_m p)) = Some g;
  r_fresh : forall g p, e_prox e g = Some p -> g < e_next e
}.

Lemma Rinv_end0 : Rinv end0.
Proof. constructor; cbn; intros; discriminate. Qed.

(* two open flows never share an identifier *)
Lemma Rinv_distinct e g h p q : Rinv e ->
  e_prox e g = Some p -> e_prox e h = Some q ->
  closed (p_m p) = false -> closed (p_m q) = false ->
  m_chan (p_m p) = m_chan (p_m q) -> g = h.
Proof.
  intros R Hp Hq Cp Cq Ec.
  pose proof (r_open e R g p Hp Cp) as A. pose proof (r_open e R h q Hq Cq) as B.
  rewrite Ec in A. congruence.
Qed.

(* updating one proxy by wrapper operations keeps the invariant *)
Lemma Rinv_update e g p p' x' : Rinv e -> e_prox e g = Some p ->
  muxw_mono (p_m p) (p_m p') ->
  chan_change_ok (p_m p) (p_m p') (e_mux e) x' ->
  (forall k, k <> m_chan (p_m p) -> x_chan x' k = x_chan (e_mux e) k) ->
  Rinv (set_prox e g p' x').
Proof.
  intros R Hp Mm Cc Hother. unfold chan_change_ok in Cc.
  set (c := m_chan (p_m p)) in *.
  assert (Ec : m_chan (p_m p') = c) by apply Mm.
  constructor; cbn [set_prox e_mux e_prox e_next].
  - intros k h Hk. destruct (N.eq_dec k c) as [->|Hkc].
    + destruct Cc as [(C1 & C2)|(C1 & C2 & C3)]; [|congruence].
      rewrite C2 in Hk. destruct (r_reg e R c h Hk) as (q & Hq & Hqc & Hqo).
      destruct (N.eq_dec h g) as [->|Hhg].
      * exists p'. rewrite upd_same. splits; auto. rewrite Hp in Hq. inversion Hq; subst q. congruence.
      * exists q. rewrite upd_other by exact Hhg. splits; auto.
    + rewrite Hother in Hk by exact Hkc.
      destruct (r_reg e R k h Hk) as (q & Hq & Hqc & Hqo).
      destruct (N.eq_dec h g) as [->|Hhg].
      * rewrite Hp in Hq. inversion Hq; subst q. fold c in Hqc. congruence.
      * exists q. rewrite upd_other by exact Hhg. splits; auto.
  - intros h q Hq Hqo. destruct (N.eq_dec h g) as [->|Hhg].
    + rewrite upd_same in Hq. inversion Hq; subst q. rewrite Ec.
      destruct Cc as [(C1 & C2)|(C1 & C2 & C3)]; [|congruence].
      rewrite C2. apply (r_open e R g p Hp). congruence.
    + rewrite upd_other in Hq by exact Hhg.
      pose proof (r_open e R h q Hq Hqo) as A.
      destruct (N.eq_dec (m_chan (p_m q)) c) as [Eqc|Nqc].
      * (* q open on channel c, so q is registered there; then p (also on c) is q or closed *)
        rewrite Eqc in *.
        destruct Cc as [(C1 & C2)|(C1 & C2 & C3)]; [rewrite C2; exact A|].
        exfalso. pose proof (r_open e R g p Hp C1) as B. fold c in B. congruence.
      * rewrite Hother by exact Nqc. exact A.
  - intros h q Hq. destruct (N.eq_dec h g) as [->|Hhg].
    + apply (r_fresh e R g p Hp).
    + rewrite upd_other in Hq by exact Hhg. apply (r_fresh e R h q Hq).
Qed.

(* registering a brand-new open wrapper on a free channel *)
Lemma Rinv_register e c x1 :
  Rinv e -> x_chan (e_mux e) c = None ->
  (forall k, x_chan x1 k = x_chan (e_mux e) k) ->
  forall s, Rinv (mkEnd (mux_set_chan x1 c (Some (e_next e)))
                     (upd (e_prox e) (e_next e) (Some (mkProxy true false s (new_muxw c))))
                     (e_next e + 1)).
Proof.
  intros R Hfree Hx s. set (g := e_next e).
  assert (Hnone : e_prox e g = None).
  { destruct (e_prox e g) as [q|] eqn:E; [|reflexivity].
    pose proof (r_fresh e R g q E). unfold g in *. lia. }
  constructor; cbn [e_mux e_prox e_next mux_set_chan x_chan].
  - intros k h Hk. unfold upd in Hk. destruct (N.eqb_spec k c) as [->|Hkc].
    + inversion Hk; subst h. exists (mkProxy true false s (new_muxw c)). rewrite upd_same. splits; auto.
    + rewrite Hx in Hk. destruct (r_reg e R k h Hk) as (q & Hq & Hqc & Hqo).
      exists q. rewrite upd_other; [splits; auto|]. intros ->. congruence.
  - intros h q Hq Hqo. destruct (N.eq_dec h g) as [->|Hhg].
    + rewrite upd_same in Hq. inversion Hq; subst q. cbn. apply upd_same.
    + rewrite upd_other in Hq by exact Hhg. pose proof (r_open e R h q Hq Hqo) as A.
      unfold upd. destruct (N.eqb_spec (m_chan (p_m q)) c) as [E|E]; [congruence|].
      rewrite Hx. exact A.
  - intros h q Hq. destruct (N.eq_dec h g) as [->|Hhg]; [unfold g; lia|].
    rewrite upd_other in Hq by exact Hhg. pose proof (r_fresh e R h q Hq). lia.
Qed.

(* ---------------- the invariant over whole runs ---------------- *)
Definition Winv (w : world) : Prop := Rinv (w_cl w) /\ Rinv (w_sv w).

Lemma Rinv_same_chan e x' : Rinv e -> (forall k, x_chan x' k = x_chan (e_mux e) k) ->
  Rinv (mkEnd x' (e_prox e) (e_next e)).
Proof.
  intros R H. constructor; cbn [e_mux e_prox e_next].
  - intros c g Hc. rewrite H in Hc. apply (r_reg e R c g Hc).
  - intros g p Hp Ho. rewrite H. apply (r_open e R g p Hp Ho).
  - apply (r_fresh e R).
Qed.

Lemma get_set_end w sd e : get_end (set_end w sd e) sd = e.
Proof. destruct sd; reflexivity. Qed.

Definition other (sd : side) : side := match sd with Client => Server | Server => Client end.

Lemma get_set_end_other w sd e : get_end (set_end w sd e) (other sd) = get_end w (other sd).
Proof. destruct sd; reflexivity. Qed.

Lemma Winv_set_end w sd e : Winv w -> Rinv e -> Winv (set_end w sd e).
Proof. intros [A B] R. destruct sd; split; assumption. Qed.

Lemma Winv_get w sd : Winv w -> Rinv (get_end w sd).
Proof. intros [A B]. destruct sd; assumption. Qed.

Lemma client_accept_Rinv e maxc payload : Rinv e -> Rinv (client_accept e maxc payload).
Proof.
  intros R. unfold client_accept.
  destruct (next_channel maxc (occ (e_mux e)) (x_chani (e_mux e))) as [r chani'] eqn:En.
  destruct r as [c|].
  - destruct (next_channel_some _ _ _ _ _ En) as (_ & Hocc & _).
    assert (Hfree : x_chan (e_mux e) c = None).
    { unfold occ in Hocc. destruct (x_chan (e_mux e) c); [discriminate|reflexivity]. }
    apply (Rinv_register e c
             (mux_send (set_chani (e_mux e) chani') c CConnect payload (Some (e_next e))) R Hfree).
    intros k. reflexivity.
  - apply (Rinv_same_chan e (set_chani (e_mux e) chani') R). intros k. reflexivity.
Qed.

Lemma server_new_channel_Rinv e c o e' : Rinv e -> occ (e_mux e) c = false ->
  server_new_channel e c o = Ok e' -> Rinv e'.
Proof.
  intros R Hocc. unfold server_new_channel.
  destruct (s_try_connect (new_sock true) (io_conn o) (io_shut_ok o)) as [s|cr]; [|discriminate].
  intros [= <-].
  assert (Hfree : x_chan (e_mux e) c = None).
  { unfold occ in Hocc. destruct (x_chan (e_mux e) c); [discriminate|reflexivity]. }
  apply (Rinv_register e c (e_mux e) R Hfree). intros k. reflexivity.
Qed.

Lemma ok_pair_inj {A B} (a c : A) (b d : B) : @Ok (A * B) (a, b) = Ok (c, d) -> a = c /\ b = d.
Proof. intros H. inversion H. split; reflexivity. Qed.

Lemma got_packet_Rinv sd e f o e' st : Rinv e -> mux_got_packet sd e f o = Ok (e', st) -> Rinv e'.
Proof.
  intros R. unfold mux_got_packet.
  destruct (sf_cmd f) eqn:Ecmd.
  - (* ping *) intros Hinj; apply ok_pair_inj in Hinj; destruct Hinj as [<- _]. apply (Rinv_same_chan e _ R). intros k. reflexivity.
  - (* pong *) intros Hinj; apply ok_pair_inj in Hinj; destruct Hinj as [<- _]. apply (Rinv_same_chan e _ R). intros k. reflexivity.
  - (* connect *)
    destruct (occ (e_mux e) (sf_ch f)) eqn:Eocc; [discriminate|].
    destruct sd; [intros Hinj; apply ok_pair_inj in Hinj; destruct Hinj as [<- _]; exact R|].
    destruct (server_new_channel e (sf_ch f) o) as [e1|cr] eqn:En; [|discriminate].
    intros Hinj; apply ok_pair_inj in Hinj; destruct Hinj as [<- _]. eapply server_new_channel_Rinv; eassumption.
  - (* stop *) 
    destruct (x_chan (e_mux e) (sf_ch f)) as [g|] eqn:Ech; [|intros Hinj; apply ok_pair_inj in Hinj; destruct Hinj as [<- _]; exact R].
    destruct (e_prox e g) as [p|] eqn:Ep; [|discriminate].
    cbn [m_got_packet].
    destruct (setnowrite_ext (p_m p) (e_mux e) g) as (A1 & A2 & _).
    pose proof (setnowrite_cc (p_m p) (e_mux e)) as A3.
    destruct (m_setnowrite (p_m p) (e_mux e)) as [m' x'] eqn:Em. cbn [fst snd] in *.
    intros Hinj; apply ok_pair_inj in Hinj; destruct Hinj as [<- _].
    apply (Rinv_update e g p (mkProxy (p_ok p) (p_removed p) (p_s p) m') x' R Ep A2 A3).
    intros k Hk. apply (me_chan_other _ _ _ _ _ A1 k Hk).
  - (* eof *)
    destruct (x_chan (e_mux e) (sf_ch f)) as [g|] eqn:Ech; [|intros Hinj; apply ok_pair_inj in Hinj; destruct Hinj as [<- _]; exact R].
    destruct (e_prox e g) as [p|] eqn:Ep; [|discriminate].
    cbn [m_got_packet].
    destruct (setnoread_ext (p_m p) (e_mux e) g) as (A1 & A2 & _).
    pose proof (setnoread_cc (p_m p) (e_mux e)) as A3.
    destruct (m_setnoread (p_m p) (e_mux e)) as [m' x'] eqn:Em. cbn [fst snd] in *.
    intros Hinj; apply ok_pair_inj in Hinj; destruct Hinj as [<- _].
    apply (Rinv_update e g p (mkProxy (p_ok p) (p_removed p) (p_s p) m') x' R Ep A2 A3).
    intros k Hk. apply (me_chan_other _ _ _ _ _ A1 k Hk).
  - (* data *)
    destruct (x_chan (e_mux e) (sf_ch f)) as [g|] eqn:Ech; [|intros Hinj; apply ok_pair_inj in Hinj; destruct Hinj as [<- _]; exact R].
    destruct (e_prox e g) as [p|] eqn:Ep; [|discriminate].
    cbn [m_got_packet].
    intros Hinj; apply ok_pair_inj in Hinj; destruct Hinj as [<- _].
    apply (Rinv_update e g p _ (e_mux e) R Ep).
    + unfold muxw_mono. cbn. auto.
    + left. split; reflexivity.
    + reflexivity.
  - (* other *)
    destruct (x_chan (e_mux e) (sf_ch f)) as [g|] eqn:Ech; [|intros Hinj; apply ok_pair_inj in Hinj; destruct Hinj as [<- _]; exact R].
    destruct (e_prox e g) as [p|] eqn:Ep; [|discriminate].
    cbn [m_got_packet]. discriminate.
Qed.

Lemma step_Winv w ev w' : Winv w -> step w ev = Ok w' -> Winv w'.
Proof.
  intros W. destruct ev as [payload|sd fid o|sd fid|sd|sd o|sd|sd fid]; cbn [step].
  - intros [= <-]. apply (Winv_set_end w Client (client_accept (w_cl w) (w_maxc w) payload) W).
    apply client_accept_Rinv. apply (Winv_get w Client W).
  - pose proof (Winv_get w sd W) as R. set (e := get_end w sd) in *.
    destruct (e_prox e fid) as [p|] eqn:Ep; [|discriminate].
    destruct (live p); [|discriminate].
    destruct (proxy_callback sd fid p (e_mux e) o) as [[p' x']|cr] eqn:Ecb; [|discriminate].
    intros [= <-]. apply (Winv_set_end w sd (set_prox e fid p' x') W).
    pose proof (callback_spec _ _ _ _ _ _ _ Ecb) as F. destr_cb F.
    apply (Rinv_update e fid p p' x' R Ep Fmmono Fcc).
    intros k Hk. apply (me_chan_other _ _ _ _ _ Fext k Hk).
  - pose proof (Winv_get w sd W) as R. set (e := get_end w sd) in *.
    destruct (e_prox e fid) as [p|] eqn:Ep; [|discriminate].
    destruct (live p); [|discriminate].
    pose proof (pre_select_spec sd fid p (e_mux e)) as F.
    destruct (proxy_pre_select sd fid p (e_mux e)) as [[p' x'] ws].
    destruct F as (sn & A1 & A2 & A3 & _).
    intros [= <-]. apply (Winv_set_end w sd (set_prox e fid p' x') W).
    apply (Rinv_update e fid p p' x' R Ep A3 A2).
    intros k Hk. apply (me_chan_other _ _ _ _ _ A1 k Hk).
  - pose proof (Winv_get w sd W) as R. set (e := get_end w sd) in *.
    destruct (x_out (e_mux e)) as [|f rest]; [intros [= <-]; exact W|].
    intros [= <-].
    assert (R' : Rinv (set_mux e (mkMux rest (x_chan (e_mux e)) (x_chani (e_mux e)) (x_full (e_mux e)) (x_too_full (e_mux e))))).
    { apply (Rinv_same_chan e _ R). intros k. reflexivity. }
    pose proof (Winv_set_end w sd _ W R') as [A B]. destruct sd; split; assumption.
  - pose proof (Winv_get w sd W) as R.
    destruct (match sd with Client => w_sc w | Server => w_cs w end) as [|f rest]; [intros [= <-]; exact W|].
    destruct (mux_got_packet sd (get_end w sd) f o) as [[e' st]|cr] eqn:Eg; [|discriminate].
    intros [= <-]. pose proof (got_packet_Rinv _ _ _ _ _ _ R Eg) as R'.
    pose proof (Winv_set_end w sd _ W R') as [A B]. destruct sd; split; assumption.
  - pose proof (Winv_get w sd W) as R. intros [= <-].
    apply (Winv_set_end w sd (set_mux (get_end w sd) (check_fullness (e_mux (get_end w sd)) (w_lbs w))) W).
    apply (Rinv_same_chan (get_end w sd) _ R). intros k.
    unfold check_fullness. destruct (w_lbs w <? x_full (e_mux (get_end w sd))); [|reflexivity].
    destruct (x_too_full (e_mux (get_end w sd))); reflexivity.
  - pose proof (Winv_get w sd W) as R. set (e := get_end w sd) in *.
    destruct (e_prox e fid) as [p|] eqn:Ep; [|discriminate].
    destruct (negb (p_ok p) && live p); [|discriminate].
    intros [= <-].
    apply (Winv_set_end w sd (set_prox e fid (mkProxy (p_ok p) true (p_s p) (p_m p)) (e_mux e)) W).
    apply (Rinv_update e fid p _ (e_mux e) R Ep).
    + apply muxw_mono_refl.
    + apply cc_refl.
    + reflexivity.
Qed.

Lemma run_Winv evs : forall w w', Winv w -> run w evs = Ok w' -> Winv w'.
Proof.
  induction evs as [|ev evs IH]; intros w w' W; cbn [run].
  - intros [= <-]. exact W.
  - destruct (step w ev) as [w1|cr] eqn:Es; [|discriminate].
    intros H. eapply IH; [|exact H]. eapply step_Winv; eassumption.
Qed.

Lemma Winv_world0 maxc lbs : Winv (world0 maxc lbs).
Proof. split; apply Rinv_end0. Qed.
