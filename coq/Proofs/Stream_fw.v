(* Proofs/Stream_fw.v — well-formedness of the frames in flight and of the
   channel numbers held by wrappers: no unknown command ever reaches a wrapper,
   CONNECT only travels client -> server and never on channel 0. *)
From Coq Require Import List NArith Ascii Bool Lia.
From SV Require Import Lib.Bytes Model.Wire Model.Chan Model.Stream
  Proofs.Wire_lemmas Proofs.Chan_lemmas Proofs.Stream_basic Proofs.Stream_wrap Proofs.Stream_cb Proofs.Stream_reg.
Import ListNotations.
Local Open Scope N_scope.

Definition ok_cs (f : sframe) : Prop :=
  match sf_cmd f with COther _ => False | CConnect => sf_ch f <> 0 | _ => True end.
Definition ok_sc (f : sframe) : Prop :=
  match sf_cmd f with COther _ => False | CConnect => False | _ => True end.

Definition path_cs (w : world) : list sframe := w_cs w ++ x_out (e_mux (w_cl w)).
Definition path_sc (w : world) : list sframe := w_sc w ++ x_out (e_mux (w_sv w)).

Definition chans_nonzero (e : endpt) : Prop :=
  forall g p, e_prox e g = Some p -> m_chan (p_m p) <> 0.

Record FWinv (w : world) : Prop := {
  fw_cs : Forall ok_cs (path_cs w);
  fw_sc : Forall ok_sc (path_sc w);
  fw_cl : chans_nonzero (w_cl w);
  fw_sv : chans_nonzero (w_sv w)
}.

Lemma flow_frame_ok_cs c fid f : flow_frame c fid f -> ok_cs f.
Proof. intros (_ & _ & [H|[[H _]|[H _]]]); unfold ok_cs; rewrite H; exact I. Qed.
Lemma flow_frame_ok_sc c fid f : flow_frame c fid f -> ok_sc f.
Proof. intros (_ & _ & [H|[[H _]|[H _]]]); unfold ok_sc; rewrite H; exact I. Qed.

Lemma Forall_flow_cs c fid l : Forall (flow_frame c fid) l -> Forall ok_cs l.
Proof. intros H. eapply Forall_impl; [|exact H]. intros f. apply flow_frame_ok_cs. Qed.
Lemma Forall_flow_sc c fid l : Forall (flow_frame c fid) l -> Forall ok_sc l.
Proof. intros H. eapply Forall_impl; [|exact H]. intros f. apply flow_frame_ok_sc. Qed.

Lemma chans_nonzero_upd e g p x' n : chans_nonzero e -> m_chan (p_m p) <> 0 ->
  chans_nonzero (mkEnd x' (upd (e_prox e) g (Some p)) n).
Proof.
  intros H Hp h q. cbn [e_prox]. unfold upd. destruct (N.eqb_spec h g).
  - intros [= <-]. exact Hp.
  - apply H.
Qed.

(* what a step of one side appends to that side's queue *)
Definition out_of (w : world) (sd : side) : list sframe := x_out (e_mux (get_end w sd)).

Lemma FWinv_world0 maxc lbs : FWinv (world0 maxc lbs).
Proof.
  constructor; cbn.
  - constructor; [exact I|constructor].
  - constructor; [exact I|constructor].
  - intros g p H; discriminate.
  - intros g p H; discriminate.
Qed.

Lemma step_FWinv w ev w' : FWinv w -> step w ev = Ok w' -> FWinv w'.
Proof.
  intros [Hcs Hsc Hcl Hsv].
  destruct ev as [payload|sd fid o|sd fid|sd|sd o|sd|sd fid]; cbn [step].
  - (* accept *)
    intros [= <-]. unfold client_accept.
    destruct (next_channel (w_maxc w) (occ (e_mux (w_cl w))) (x_chani (e_mux (w_cl w)))) as [r chani'] eqn:En.
    destruct r as [c|].
    + destruct (next_channel_some _ _ _ _ _ En) as (_ & _ & Hc0 & _).
      constructor; unfold path_cs, path_sc in *; cbn; auto.
      * rewrite app_assoc. apply Forall_app. split; [exact Hcs|].
        constructor; [|constructor]. unfold ok_cs. cbn. exact Hc0.
      * apply chans_nonzero_upd; [exact Hcl|]. cbn. exact Hc0.
    + constructor; unfold path_cs, path_sc in *; cbn; auto.
  - (* callback *)
    set (e := get_end w sd).
    destruct (e_prox e fid) as [p|] eqn:Ep; [|discriminate].
    destruct (live p); [|discriminate].
    destruct (proxy_callback sd fid p (e_mux e) o) as [[p' x']|cr] eqn:Ecb; [|discriminate].
    intros [= <-].
    pose proof (callback_spec _ _ _ _ _ _ _ Ecb) as F. destr_cb F.
    destruct Fext as [Eo _ _ _ _ _ Ef]. destruct Fmmono as (Emc & _).
    destruct sd; constructor; unfold path_cs, path_sc, e in *; cbn in *; auto.
    + rewrite Eo, app_assoc. apply Forall_app. split; [exact Hcs|]. eapply Forall_flow_cs; exact Ef.
    + apply chans_nonzero_upd; [exact Hcl|]. rewrite Emc. apply (Hcl fid p Ep).
    + rewrite Eo, app_assoc. apply Forall_app. split; [exact Hsc|]. eapply Forall_flow_sc; exact Ef.
    + apply chans_nonzero_upd; [exact Hsv|]. rewrite Emc. apply (Hsv fid p Ep).
  - (* pre_select *)
    set (e := get_end w sd).
    destruct (e_prox e fid) as [p|] eqn:Ep; [|discriminate].
    destruct (live p); [|discriminate].
    pose proof (pre_select_spec sd fid p (e_mux e)) as F.
    destruct (proxy_pre_select sd fid p (e_mux e)) as [[p' x'] ws].
    destruct F as (sn & [Eo _ _ _ _ _ Ef] & _ & (Emc & _) & _).
    intros [= <-].
    destruct sd; constructor; unfold path_cs, path_sc, e in *; cbn in *; auto.
    + rewrite Eo, app_assoc. apply Forall_app. split; [exact Hcs|]. eapply Forall_flow_cs; exact Ef.
    + apply chans_nonzero_upd; [exact Hcl|]. rewrite Emc. apply (Hcl fid p Ep).
    + rewrite Eo, app_assoc. apply Forall_app. split; [exact Hsc|]. eapply Forall_flow_sc; exact Ef.
    + apply chans_nonzero_upd; [exact Hsv|]. rewrite Emc. apply (Hsv fid p Ep).
  - (* flush *)
    destruct (x_out (e_mux (get_end w sd))) as [|f rest] eqn:Eo; [intros [= <-]; constructor; assumption|].
    intros [= <-].
    destruct sd; constructor; unfold path_cs, path_sc in *; cbn in *; auto.
    + rewrite Eo in Hcs. rewrite <- app_assoc. exact Hcs.
    + rewrite Eo in Hsc. rewrite <- app_assoc. exact Hsc.
  - (* deliver *)
    destruct sd.
    + (* at the client: a frame from the server *)
      destruct (w_sc w) as [|f rest] eqn:Eq; [intros [= <-]; constructor; assumption|].
      assert (Hf : ok_sc f /\ Forall ok_sc (rest ++ x_out (e_mux (w_sv w)))).
      { unfold path_sc in Hsc. rewrite Eq in Hsc. cbn in Hsc. inversion Hsc; auto. }
      destruct Hf as [Hf Hrest].
      unfold mux_got_packet. cbn [get_end].
      destruct (sf_cmd f) eqn:Ecmd.
      * intros [= <-]. constructor; unfold path_cs, path_sc; cbn; auto.
        rewrite app_assoc. apply Forall_app. split; [exact Hcs|]. constructor; [exact I|constructor].
      * intros [= <-]. constructor; unfold path_cs, path_sc; cbn; auto.
      * unfold ok_sc in Hf. rewrite Ecmd in Hf. contradiction.
      * destruct (x_chan (e_mux (w_cl w)) (sf_ch f)) as [g|]; [|intros [= <-]; constructor; unfold path_cs, path_sc; cbn; auto].
        destruct (e_prox (w_cl w) g) as [p|] eqn:Ep; [|discriminate].
        cbn [m_got_packet].
        destruct (setnowrite_ext (p_m p) (e_mux (w_cl w)) g) as ([Eo _ _ _ _ _ _] & (Emc & _) & _).
        destruct (m_setnowrite (p_m p) (e_mux (w_cl w))) as [m' x']. cbn [fst snd] in *.
        intros [= <-]. constructor; unfold path_cs, path_sc; cbn; auto.
        -- rewrite Eo, app_nil_r. exact Hcs.
        -- apply chans_nonzero_upd; [exact Hcl|]. cbn. rewrite Emc. apply (Hcl g p Ep).
      * destruct (x_chan (e_mux (w_cl w)) (sf_ch f)) as [g|]; [|intros [= <-]; constructor; unfold path_cs, path_sc; cbn; auto].
        destruct (e_prox (w_cl w) g) as [p|] eqn:Ep; [|discriminate].
        cbn [m_got_packet].
        destruct (setnoread_ext (p_m p) (e_mux (w_cl w)) g) as ([Eo _ _ _ _ _ _] & (Emc & _) & _).
        destruct (m_setnoread (p_m p) (e_mux (w_cl w))) as [m' x']. cbn [fst snd] in *.
        intros [= <-]. constructor; unfold path_cs, path_sc; cbn; auto.
        -- rewrite Eo, app_nil_r. exact Hcs.
        -- apply chans_nonzero_upd; [exact Hcl|]. cbn. rewrite Emc. apply (Hcl g p Ep).
      * destruct (x_chan (e_mux (w_cl w)) (sf_ch f)) as [g|]; [|intros [= <-]; constructor; unfold path_cs, path_sc; cbn; auto].
        destruct (e_prox (w_cl w) g) as [p|] eqn:Ep; [|discriminate].
        cbn [m_got_packet].
        intros [= <-]. constructor; unfold path_cs, path_sc; cbn; auto.
        apply chans_nonzero_upd; [exact Hcl|]. cbn. apply (Hcl g p Ep).
      * unfold ok_sc in Hf. rewrite Ecmd in Hf. contradiction.
    + (* at the server: a frame from the client *)
      destruct (w_cs w) as [|f rest] eqn:Eq; [intros [= <-]; constructor; assumption|].
      assert (Hf : ok_cs f /\ Forall ok_cs (rest ++ x_out (e_mux (w_cl w)))).
      { unfold path_cs in Hcs. rewrite Eq in Hcs. cbn in Hcs. inversion Hcs; auto. }
      destruct Hf as [Hf Hrest].
      unfold mux_got_packet. cbn [get_end].
      destruct (sf_cmd f) eqn:Ecmd.
      * intros [= <-]. constructor; unfold path_cs, path_sc; cbn; auto.
        rewrite app_assoc. apply Forall_app. split; [exact Hsc|]. constructor; [exact I|constructor].
      * intros [= <-]. constructor; unfold path_cs, path_sc; cbn; auto.
      * destruct (occ (e_mux (w_sv w)) (sf_ch f)); [discriminate|].
        unfold server_new_channel.
        destruct (s_try_connect (new_sock true) (io_conn o) (io_shut_ok o)) as [s|cr]; [|discriminate].
        intros [= <-]. constructor; unfold path_cs, path_sc; cbn; auto.
        apply chans_nonzero_upd; [exact Hsv|]. cbn. unfold ok_cs in Hf. rewrite Ecmd in Hf. exact Hf.
      * destruct (x_chan (e_mux (w_sv w)) (sf_ch f)) as [g|]; [|intros [= <-]; constructor; unfold path_cs, path_sc; cbn; auto].
        destruct (e_prox (w_sv w) g) as [p|] eqn:Ep; [|discriminate].
        cbn [m_got_packet].
        destruct (setnowrite_ext (p_m p) (e_mux (w_sv w)) g) as ([Eo _ _ _ _ _ _] & (Emc & _) & _).
        destruct (m_setnowrite (p_m p) (e_mux (w_sv w))) as [m' x']. cbn [fst snd] in *.
        intros [= <-]. constructor; unfold path_cs, path_sc; cbn; auto.
        -- rewrite Eo, app_nil_r. exact Hsc.
        -- apply chans_nonzero_upd; [exact Hsv|]. cbn. rewrite Emc. apply (Hsv g p Ep).
      * destruct (x_chan (e_mux (w_sv w)) (sf_ch f)) as [g|]; [|intros [= <-]; constructor; unfold path_cs, path_sc; cbn; auto].
        destruct (e_prox (w_sv w) g) as [p|] eqn:Ep; [|discriminate].
        cbn [m_got_packet].
        destruct (setnoread_ext (p_m p) (e_mux (w_sv w)) g) as ([Eo _ _ _ _ _ _] & (Emc & _) & _).
        destruct (m_setnoread (p_m p) (e_mux (w_sv w))) as [m' x']. cbn [fst snd] in *.
        intros [= <-]. constructor; unfold path_cs, path_sc; cbn; auto.
        -- rewrite Eo, app_nil_r. exact Hsc.
        -- apply chans_nonzero_upd; [exact Hsv|]. cbn. rewrite Emc. apply (Hsv g p Ep).
      * destruct (x_chan (e_mux (w_sv w)) (sf_ch f)) as [g|]; [|intros [= <-]; constructor; unfold path_cs, path_sc; cbn; auto].
        destruct (e_prox (w_sv w) g) as [p|] eqn:Ep; [|discriminate].
        cbn [m_got_packet].
        intros [= <-]. constructor; unfold path_cs, path_sc; cbn; auto.
        apply chans_nonzero_upd; [exact Hsv|]. cbn. apply (Hsv g p Ep).
      * unfold ok_cs in Hf. rewrite Ecmd in Hf. contradiction.
  - (* check_fullness *)
    intros [= <-]. unfold check_fullness.
    destruct sd; constructor; unfold path_cs, path_sc in *; cbn in *; auto.
    + destruct (w_lbs w <? x_full (e_mux (w_cl w))); [|exact Hcs].
      destruct (x_too_full (e_mux (w_cl w))); cbn; [exact Hcs|].
      rewrite app_assoc. apply Forall_app. split; [exact Hcs|]. constructor; [exact I|constructor].
    + destruct (w_lbs w <? x_full (e_mux (w_sv w))); [|exact Hsc].
      destruct (x_too_full (e_mux (w_sv w))); cbn; [exact Hsc|].
      rewrite app_assoc. apply Forall_app. split; [exact Hsc|]. constructor; [exact I|constructor].
  - (* remove *)
    set (e := get_end w sd).
    destruct (e_prox e fid) as [p|] eqn:Ep; [|discriminate].
    destruct (negb (p_ok p) && live p); [|discriminate].
    intros [= <-].
    destruct sd; constructor; unfold path_cs, path_sc, e in *; cbn in *; auto.
    + apply chans_nonzero_upd; [exact Hcl|]. cbn. apply (Hcl fid p Ep).
    + apply chans_nonzero_upd; [exact Hsv|]. cbn. apply (Hsv fid p Ep).
Qed.

Lemma run_FWinv evs : forall w w', FWinv w -> run w evs = Ok w' -> FWinv w'.
Proof.
  induction evs as [|ev evs IH]; intros w w' W; cbn [run].
  - intros [= <-]. exact W.
  - destruct (step w ev) as [w1|cr] eqn:Es; [|discriminate].
    intros H. eapply IH; [|exact H]. eapply step_FWinv; eassumption.
Qed.
