(* Proofs/HostsFile_hist_lemmas.v — update histories of one helper's host map (property C14):
   the map kept by firewall.main's HOST loop (hostmap[name] = ip) answers every name with the address of
   its LAST update and holds each name once; composed with the serial-history theorem. *)
From Coq Require Import List NArith Ascii Bool Lia Arith Permutation Sorted.
From SV Require Import Lib.Bytes Gen.Consts Model.HostsFile Proofs.HostsFile_lemmas.
Import ListNotations.
Local Open Scope N_scope.

Lemma hm_get_set_same name ip hm : hm_get name (hm_set name ip hm) = Some ip.
Proof.
  induction hm as [|[n i] r IH]; cbn [hm_set hm_get].
  - rewrite bytes_eqb_refl. reflexivity.
  - destruct (bytes_eqb n name) eqn:E; cbn [hm_get].
    + rewrite bytes_eqb_refl. reflexivity.
    + rewrite E. exact IH.
Qed.

Lemma hm_get_set_other name ip hm x : x <> name -> hm_get x (hm_set name ip hm) = hm_get x hm.
Proof.
  intros Hx. induction hm as [|[n i] r IH]; cbn [hm_set hm_get].
  - destruct (bytes_eqb name x) eqn:E; [apply bytes_eqb_eq in E; congruence|reflexivity].
  - destruct (bytes_eqb n name) eqn:E; cbn [hm_get].
    + apply bytes_eqb_eq in E. subst n.
      destruct (bytes_eqb name x) eqn:E2; [apply bytes_eqb_eq in E2; congruence|reflexivity].
    + destruct (bytes_eqb n x); [reflexivity|exact IH].
Qed.

Lemma hm_set_names name ip hm x :
  In x (map fst (hm_set name ip hm)) <-> x = name \/ In x (map fst hm).
Proof.
  induction hm as [|[n i] r IH]; cbn [hm_set map fst In].
  - split; [intros [H|[]]; left; congruence|intros [H|[]]; left; congruence].
  - destruct (bytes_eqb n name) eqn:E; cbn [map fst In].
    + apply bytes_eqb_eq in E. subst n. split; [intros [H|H]; [left; congruence|right; right; exact H]|].
      intros [H|[H|H]]; [left; congruence|left; exact H|right; exact H].
    + rewrite IH. split; [intros [H|[H|H]]; auto|intros [H|[H|H]]; auto].
Qed.

Lemma hm_set_nodup name ip hm : NoDup (map fst hm) -> NoDup (map fst (hm_set name ip hm)).
Proof.
  induction hm as [|[n i] r IH]; cbn [hm_set map fst]; intros H.
  - constructor; [intros []|constructor].
  - inversion H as [|? ? Hn Hr]; subst.
    destruct (bytes_eqb n name) eqn:E; cbn [map fst].
    + apply bytes_eqb_eq in E. subst n. constructor; assumption.
    + constructor; [|apply IH; exact Hr].
      rewrite hm_set_names. intros [Hx|Hx]; [|contradiction].
      subst n. rewrite bytes_eqb_refl in E. discriminate.
Qed.

Lemma last_addr_app name a b :
  last_addr name (a ++ b) = match last_addr name b with Some j => Some j | None => last_addr name a end.
Proof.
  induction a as [|[n i] r IH]; cbn [app last_addr].
  - destruct (last_addr name b); reflexivity.
  - rewrite IH. destruct (last_addr name b); [reflexivity|reflexivity].
Qed.

Lemma hm_from_get upd : forall hm name,
  hm_get name (hm_from hm upd) = match last_addr name upd with Some j => Some j | None => hm_get name hm end.
Proof.
  induction upd as [|[n i] r IH]; intros hm name; [reflexivity|].
  unfold hm_from in *. cbn [fold_left fst snd last_addr]. rewrite IH.
  destruct (last_addr name r); [reflexivity|].
  destruct (bytes_eqb n name) eqn:E.
  - apply bytes_eqb_eq in E. subst n. apply hm_get_set_same.
  - apply hm_get_set_other. intros ->. rewrite bytes_eqb_refl in E. discriminate.
Qed.

Lemma hm_from_nodup upd : forall hm, NoDup (map fst hm) -> NoDup (map fst (hm_from hm upd)).
Proof.
  induction upd as [|[n i] r IH]; intros hm H; [exact H|].
  unfold hm_from in *. cbn [fold_left fst snd]. apply IH. apply hm_set_nodup. exact H.
Qed.

Lemma hm_from_names upd : forall hm x,
  In x (map fst (hm_from hm upd)) <-> In x (map fst upd) \/ In x (map fst hm).
Proof.
  induction upd as [|[n i] r IH]; intros hm x.
  - cbn. tauto.
  - unfold hm_from in *. cbn [fold_left fst snd map In]. rewrite IH, hm_set_names. intuition congruence.
Qed.

Lemma hm_from_ok upd : forall hm, Forall entry_ok upd -> Forall entry_ok hm -> Forall entry_ok (hm_from hm upd).
Proof.
  induction upd as [|[n i] r IH]; intros hm Hu Hh; [exact Hh|].
  inversion Hu as [|? ? He Hr]; subst. unfold hm_from in *. cbn [fold_left fst snd].
  apply IH; [exact Hr|]. apply hm_set_ok; assumption.
Qed.

(* the map of `hm_after` answers every name with the address of its LAST update, holds each
   updated name exactly once and no other name *)
Lemma hm_after_last upd :
  (forall name, hm_get name (hm_after upd) = last_addr name upd) /\
  NoDup (map fst (hm_after upd)) /\
  (forall name, In name (map fst (hm_after upd)) <-> In name (map fst upd)).
Proof.
  split; [|split].
  - intros name. unfold hm_after. fold (hm_from [] upd). rewrite hm_from_get.
    destruct (last_addr name upd); reflexivity.
  - unfold hm_after. fold (hm_from [] upd). apply hm_from_nodup. constructor.
  - intros name. unfold hm_after. fold (hm_from [] upd). rewrite hm_from_names. cbn. tauto.
Qed.

(* hm_get on a map with unique names is membership *)
Lemma hm_get_in hm name ip : NoDup (map fst hm) -> (hm_get name hm = Some ip <-> In (name, ip) hm).
Proof.
  induction hm as [|[n i] r IH]; cbn [hm_get map fst In]; intros H.
  - split; [discriminate|intros []].
  - inversion H as [|? ? Hn Hr]; subst. destruct (bytes_eqb n name) eqn:E.
    + apply bytes_eqb_eq in E. subst n. split.
      * intros [= ->]. left. reflexivity.
      * intros [[= ->]|Hin]; [reflexivity|]. exfalso. apply Hn. apply (in_map fst) in Hin. exact Hin.
    + rewrite (IH Hr). split; [intros Hin; right; exact Hin|].
      intros [[= -> ->]|Hin]; [rewrite bytes_eqb_refl in E; discriminate|exact Hin].
Qed.

(* ... so its entries are exactly the pairs (name, address of the last update of name) *)
Lemma hm_after_entries upd name ip : In (name, ip) (hm_after upd) <-> last_addr name upd = Some ip.
Proof.
  destruct (hm_after_last upd) as [Hg [Hn _]]. rewrite <- Hg. symmetry. apply hm_get_in. exact Hn.
Qed.

(* the per-port map kept by the bookkeeping of histories is the helper's own view *)
Lemma map_of_fold_sess p hs : forall m,
  map_of p (fold_left maps_step hs m) = fold_left (sess_step p) hs (map_of p m).
Proof.
  induction hs as [|h hs IH]; intros m; [reflexivity|]. cbn [fold_left]. rewrite IH. f_equal.
  destruct h as [q n i|q]; cbn [sess_step].
  - destruct (q =? p) eqn:E.
    + apply N.eqb_eq in E. subst q. apply maps_step_host.
    + apply N.eqb_neq in E. apply (maps_step_other m (HHost q n i) p). exact E.
  - destruct (q =? p) eqn:E.
    + apply N.eqb_eq in E. subst q. apply maps_step_end.
    + apply N.eqb_neq in E. apply (maps_step_other m (HEnd q) p). exact E.
Qed.

Lemma fold_sess_host_hops p upd : forall hm, fold_left (sess_step p) (host_hops p upd) hm = hm_from hm upd.
Proof.
  induction upd as [|[n i] r IH]; intros hm; [reflexivity|].
  unfold hm_from in *. cbn [host_hops map fold_left sess_step fst snd]. rewrite N.eqb_refl. apply IH.
Qed.

Lemma fold_sess_other p hs : forall hm,
  Forall (fun h => match h with HHost q _ _ => q | HEnd q => q end <> p) hs ->
  fold_left (sess_step p) hs hm = hm.
Proof.
  induction hs as [|h hs IH]; intros hm H; [reflexivity|]. inversion H as [|? ? Hh Hr]; subst.
  cbn [fold_left]. rewrite IH; [|exact Hr].
  destruct h as [q n i|q]; cbn [sess_step]; (destruct (q =? p) eqn:E; [apply N.eqb_eq in E; contradiction|reflexivity]).
Qed.

Lemma started_mono hs : forall m q, In q (map fst m) -> In q (map fst (fold_left maps_step hs m)).
Proof.
  induction hs as [|h hs IH]; intros m q H; [exact H|]. cbn [fold_left]. apply IH. apply maps_step_mono. exact H.
Qed.

Lemma started_host_hops p upd m : upd <> [] -> In p (map fst (fold_left maps_step (host_hops p upd) m)).
Proof.
  destruct upd as [|[n i] r]; [congruence|]. intros _. cbn [host_hops map fold_left fst snd].
  apply started_mono. apply maps_step_started.
Qed.

(* The session theorem: after ANY earlier history `pre` (other instances, earlier sessions of this port
   that have ended: HEnd p is the last hop of p in `pre`, or p never appeared), a session of port p that
   receives the HOST updates `upd` (non-empty, any repeats), interleaved or not with hops of other ports
   -- here: followed by any hops `post` of OTHER ports -- has as its marked lines exactly one line per
   distinct name, carrying the address of the LAST update of that name, sorted. *)
Lemma session_last_address s0 Ps p pre upd post :
  Forall (hop_ok Ps) pre -> In p Ps -> Forall entry_ok upd -> Forall (hop_ok Ps) post ->
  map_of p (fold_left maps_step pre []) = [] ->
  Forall (fun h => match h with HHost q _ _ => q | HEnd q => q end <> p) post ->
  upd <> [] ->
  let c := hosts_data (fst (run_history s0 (pre ++ host_hops p upd ++ post))) in
  own_lines p c = marks p (hm_after upd) /\
  rstrip_lines (base_of Ps (file_lines c)) = rstrip_lines (base_of Ps (file_lines (hosts_data s0))).
Proof.
  intros Hpre Hp Hupd Hpost Hempty Hother Hne. cbn zeta.
  assert (Hok : Forall (hop_ok Ps) (pre ++ host_hops p upd ++ post)).
  { apply Forall_app. split; [exact Hpre|]. apply Forall_app. split; [|exact Hpost].
    unfold host_hops. apply Forall_forall. intros h Hin. apply in_map_iff in Hin as [[n i] [<- Hin]].
    cbn [hop_ok fst snd]. split; [exact Hp|]. rewrite Forall_forall in Hupd. apply (Hupd _ Hin). }
  destruct (serial_histories s0 Ps _ Hok) as [Hbase Hown]. split; [|exact Hbase].
  rewrite Hown.
  - f_equal. rewrite !fold_left_app, map_of_fold_sess, map_of_fold_sess.
    rewrite (fold_sess_other p post _ Hother), fold_sess_host_hops, Hempty. reflexivity.
  - rewrite !fold_left_app. apply started_mono. apply started_host_hops. exact Hne.
Qed.

(* ================================================================== *)
(* Hosts files of arbitrary bytes: the text-mode read decodes first     *)

Lemma rewrite_dec_undecodable port hm s : utf8_ok (hosts_data s) = false ->
  let '(i, s', tr) := rewrite_dec port hm s in
  i_pc i = AtCrash /\ s' = s /\ tr = [OpRead true].
Proof. intros H. unfold rewrite_dec. rewrite H. repeat split. Qed.

Lemma rewrite_dec_decodable port hm s : utf8_ok (hosts_data s) = true ->
  rewrite_dec port hm s = rewrite_fs port hm s.
Proof. intros H. unfold rewrite_dec. rewrite H. reflexivity. Qed.

(* one call on ANY bytes: nothing at all is touched, or the call completes and installs
   (old lines minus own marked lines) + own marked lines *)
Lemma rewrite_dec_spec port hm s :
  let '(i, s', _) := rewrite_dec port hm s in
  (utf8_ok (hosts_data s) = false /\ i_pc i = AtCrash /\ s' = s) \/
  (utf8_ok (hosts_data s) = true /\ i_pc i = AtDone /\ fs_get (PTmp port) s' = None /\
   exists f, fs_get PHosts s' = Some f /\
     f_data f = unlines (filter (fun l => negb (has_marker port l)) (norm_lines (univ_nl (hosts_data s)))
                         ++ map (marked_line port) (sort_entries hm)) /\
     (f_uid f, f_gid f, f_mode f) = meta_of (fs_get PHosts s)).
Proof.
  unfold rewrite_dec. destruct (utf8_ok (hosts_data s)) eqn:E.
  - pose proof (rewrite_fs_spec port hm s) as H. destruct (rewrite_fs port hm s) as [[i s'] tr].
    right. destruct H as [H1 [H2 H3]]. repeat split; assumption.
  - left. repeat split.
Qed.

(* restore likewise: the file system is untouched or holds the version without own marked lines *)
Lemma restore_dec_spec port hm s :
  let '(s', _, raised) := restore_dec port hm s in
  (s' = s /\ (raised = true <-> hm <> [] /\ utf8_ok (hosts_data s) = false)) \/
  (raised = false /\ hm <> [] /\ utf8_ok (hosts_data s) = true /\
   hosts_data s' = unlines (filter (fun l => negb (has_marker port l)) (norm_lines (univ_nl (hosts_data s))))).
Proof.
  unfold restore_dec. destruct hm as [|e hm].
  - left. split; [reflexivity|]. split; [discriminate|intros [H _]; congruence].
  - pose proof (rewrite_dec_spec port [] s) as H. destruct (rewrite_dec port [] s) as [[i s'] tr].
    destruct H as [[Hu [Hc Hs]]|[Hu [Hd [_ [f [Hf [Hdata _]]]]]]].
    + left. rewrite Hc. split; [exact Hs|]. split; [intros _; split; [discriminate|exact Hu]|reflexivity].
    + right. rewrite Hd. split; [reflexivity|]. split; [discriminate|]. split; [exact Hu|].
      unfold hosts_data at 1. rewrite Hf. cbn [data_of]. rewrite Hdata. cbn [map sort_entries fold_right].
      rewrite app_nil_r. reflexivity.
Qed.

(* every pure-ASCII file decodes *)
Lemma utf8_ok_ascii l : Forall (fun a => N_of_ascii a <= 127) l -> utf8_ok l = true.
Proof.
  induction 1 as [|a l Ha Hl IH]; [reflexivity|].
  cbn [utf8_ok]. apply N.leb_le in Ha. cbv zeta. rewrite Ha. exact IH.
Qed.
