(* Proofs/Dialogue_lemmas.v — proofs about Model/Dialogue.v (C13). *)
From Coq Require Import List NArith ZArith Ascii Bool Lia Arith ZifyBool.
From SV Require Import Lib.Bytes Lib.DialogueLib Model.Dialogue.
Import ListNotations.
Import String.StringSyntax.
Local Open Scope N_scope.

(* witness plan / host update for finding F5 *)
Definition f5_plan : plan :=
  mkPlan [mkSubnet 2 (B "0.0.0.0") 0 0 0] [] [] [] 0 12300 0 0 false None None (B "0x01") 4242.
Definition f5_hosts : list (bytes * bytes) :=
  [(repeat "a"%char 108, B "192.168.100.200")].

(* ------------------------------------------------------------------ *)
(* characters                                                          *)

Lemma eqb_code_iff a b : Ascii.eqb a b = (code a =? code b).
Proof.
  destruct (Ascii.eqb_spec a b) as [->|H]; [symmetry; apply N.eqb_refl|].
  symmetry. apply N.eqb_neq. intros E. apply H.
  rewrite <- (ascii_N_embedding a), <- (ascii_N_embedding b). unfold code in E. now rewrite E.
Qed.

Lemma printable_comma : printable comma = true. Proof. reflexivity. Qed.
Lemma printable_ch0 : printable ch0 = true. Proof. reflexivity. Qed.
Lemma printable_ch1 : printable ch1 = true. Proof. reflexivity. Qed.
Lemma printable_dash : printable dash = true. Proof. reflexivity. Qed.

Lemma ip_char_props c : ip_char c = true -> printable c = true /\ negb (Ascii.eqb c comma) = true.
Proof. unfold ip_char. intros H. apply andb_true_iff in H. exact H. Qed.

Lemma valid_ip_printable ip : valid_ip ip = true -> forallb printable ip = true.
Proof.
  unfold valid_ip. intros H. apply andb_true_iff in H. destruct H as [_ H].
  apply (forallb_impl ip_char); [|exact H]. intros x Hx. apply ip_char_props in Hx. tauto.
Qed.

Lemma valid_ip_nocomma ip : valid_ip ip = true -> nosep comma ip = true.
Proof.
  unfold valid_ip. intros H. apply andb_true_iff in H. destruct H as [_ H].
  apply (forallb_impl ip_char); [|exact H]. intros x Hx. apply ip_char_props in Hx. tauto.
Qed.

Lemma valid_ip_len ip : valid_ip ip = true -> (length ip <= 45)%nat.
Proof.
  unfold valid_ip, MAX_IP_TEXT, lenN. intros H. apply andb_true_iff in H. destruct H as [H _]. lia.
Qed.

Lemma name_char_props c : name_char c = true -> printable c = true /\ negb (Ascii.eqb c comma) = true.
Proof.
  unfold name_char, printable, is_digit. rewrite !eqb_code_iff.
  change (code "_"%char) with 95. change (code dash) with 45. change (code "."%char) with 46.
  change (code comma) with 44. lia.
Qed.

Lemma ipv4_char_props c : ipv4_char c = true -> printable c = true.
Proof.
  unfold ipv4_char, printable, is_digit. rewrite !eqb_code_iff.
  change (code "."%char) with 46. lia.
Qed.

Ltac split_and H :=
  repeat match type of H with
         | (_ && _) = true => let H1 := fresh H in apply andb_true_iff in H; destruct H as [H H1]
         end.

(* ------------------------------------------------------------------ *)
(* route lines                                                         *)

Definition excl_ch (e : bool) : ascii := if e then ch1 else ch0.

Lemma route_line_eq e s : route_line e s =
  dec (sn_family s) ++ comma :: dec (sn_width s) ++ comma :: [excl_ch e] ++ comma :: sn_ip s ++ comma ::
  dec (sn_fport s) ++ comma :: dec (sn_lport s).
Proof. reflexivity. Qed.

Lemma route_line_printable e s : valid_subnet s = true -> forallb printable (route_line e s) = true.
Proof.
  intros V. unfold valid_subnet in V. split_and V.
  unfold route_line. repeat (rewrite forallb_app || cbn [forallb]).
  rewrite !dec_printable, (valid_ip_printable _ V2), printable_comma.
  destruct e; reflexivity.
Qed.

Lemma route_line_len e s : valid_subnet s = true -> lenN (route_line e s) + 1 <= LINE_BOUND.
Proof.
  intros V. unfold valid_subnet in V. split_and V.
  pose proof (dec_len5 (sn_family s) ltac:(lia)). pose proof (dec_len3 (sn_width s) ltac:(lia)).
  pose proof (dec_len5 (sn_fport s) ltac:(lia)). pose proof (dec_len5 (sn_lport s) ltac:(lia)).
  pose proof (valid_ip_len _ V2).
  unfold route_line, lenN, LINE_BOUND. repeat (rewrite app_length || cbn [length]). lia.
Qed.

Lemma route_line_hd e s : exists c t, route_line e s = c :: t /\ is_digit c = true.
Proof.
  destruct (dec_hd (sn_family s)) as (c & t & E & H). unfold route_line. rewrite E.
  eexists _, _. split; [reflexivity|exact H].
Qed.

Lemma comma_not_digit : is_digit comma = false. Proof. reflexivity. Qed.
Lemma sp_not_digit : is_digit sp = false. Proof. reflexivity. Qed.
Lemma sp_not_printable : printable sp = false. Proof. reflexivity. Qed.

Lemma route_line_split e s : valid_subnet s = true ->
  split_on comma 5 (route_line e s) =
  [dec (sn_family s); dec (sn_width s); [excl_ch e]; sn_ip s; dec (sn_fport s); dec (sn_lport s)].
Proof.
  intros V. unfold valid_subnet in V. split_and V.
  rewrite route_line_eq.
  rewrite split_on_sep by (apply nosep_dec, comma_not_digit).
  rewrite split_on_sep by (apply nosep_dec, comma_not_digit).
  rewrite split_on_sep by (destruct e; reflexivity).
  rewrite split_on_sep by (apply valid_ip_nocomma, V2).
  rewrite split_on_sep by (apply nosep_dec, comma_not_digit).
  rewrite split_on_0. reflexivity.
Qed.

Lemma route_fields_ok e s :
  route_fields (dec (sn_family s)) (dec (sn_width s)) [excl_ch e] (sn_ip s) (dec (sn_fport s)) (dec (sn_lport s))
  = Some (hsub_of e s).
Proof.
  unfold route_fields. rewrite !py_int_dec.
  destruct e; reflexivity.
Qed.

Lemma prefixb_digit_false p0 p c t :
  is_digit p0 = false -> is_digit c = true -> prefixb (p0 :: p) (c :: t) = false.
Proof.
  intros H0 Hc. cbn [prefixb].
  destruct (Ascii.eqb p0 c) eqn:E; [|reflexivity].
  apply Ascii.eqb_eq in E. subst. congruence.
Qed.

Lemma digit_hd_facts l : (exists c t, l = c :: t /\ is_digit c = true) ->
  is_nil l = false /\ forall p0 p, is_digit p0 = false -> prefixb (p0 :: p) l = false.
Proof.
  intros (c & t & -> & Hc). split; [reflexivity|].
  intros p0 p H0. apply prefixb_digit_false; assumption.
Qed.

Lemma nslist_step rest : parse_routes (with_nl (B "NSLIST") :: rest) = POk [] rest.
Proof. reflexivity. Qed.

Lemma parse_routes_render l rest :
  forallb (fun x => valid_subnet (snd x)) l = true ->
  parse_routes (map (fun x => with_nl (route_line (fst x) (snd x))) l ++ with_nl (B "NSLIST") :: rest)
  = POk (map (fun x => hsub_of (fst x) (snd x)) l) rest.
Proof.
  induction l as [|[e s] l IH]; intros V.
  - apply nslist_step.
  - cbn [forallb snd fst] in V. apply andb_true_iff in V. destruct V as [Vs Vl].
    cbn [map app fst snd parse_routes].
    pose proof (printable_clean _ (route_line_printable e s Vs)) as C.
    unfold with_nl in *. rewrite (clean_ascii _ C), (clean_strip _ C). cbn [negb].
    destruct (digit_hd_facts _ (route_line_hd e s)) as [Hn Hp].
    rewrite Hn, Hp by reflexivity.
    rewrite (route_line_split e s Vs), route_fields_ok, (IH Vl). reflexivity.
Qed.

(* ------------------------------------------------------------------ *)
(* name-server lines                                                   *)

Lemma ns_line_printable e : valid_ns e = true -> forallb printable (ns_line e) = true.
Proof.
  intros V. unfold valid_ns in V. split_and V.
  unfold ns_line. repeat (rewrite forallb_app || cbn [forallb]).
  rewrite dec_printable, (valid_ip_printable _ V0), printable_comma. reflexivity.
Qed.

Lemma ns_line_len e : valid_ns e = true -> lenN (ns_line e) + 1 <= LINE_BOUND.
Proof.
  intros V. unfold valid_ns in V. split_and V.
  pose proof (dec_len5 (fst e) ltac:(lia)). pose proof (valid_ip_len _ V0).
  unfold ns_line, lenN, LINE_BOUND. repeat (rewrite app_length || cbn [length]). lia.
Qed.

Lemma ns_line_hd e : exists c t, ns_line e = c :: t /\ is_digit c = true.
Proof.
  destruct (dec_hd (fst e)) as (c & t & E & H). unfold ns_line. rewrite E.
  eexists _, _. split; [reflexivity|exact H].
Qed.

(* ---- PORTS ---- *)

Definition ports_ok (p : plan) : bool :=
  (p_port_v6 p <=? 65535) && (p_port_v4 p <=? 65535) && (p_dns_v6 p <=? 65535) && (p_dns_v4 p <=? 65535).

Lemma hd_ok_rev_app_cons_dec x c n : hd_ok is_ws (rev (x ++ c :: dec n)) = true.
Proof.
  replace (x ++ c :: dec n) with ((x ++ [c]) ++ dec n) by (rewrite <- app_assoc; reflexivity).
  apply hd_ok_rev_app_dec.
Qed.

Lemma ports_line_clean p : clean (ports_line p) = true.
Proof.
  unfold clean. apply andb_true_iff. split; [apply andb_true_iff; split|].
  - unfold ports_line. repeat (rewrite forallb_app || cbn [forallb]).
    rewrite !(forallb_impl printable print_sp _ printable_print_sp (dec_printable _)). reflexivity.
  - reflexivity.
  - unfold ports_line.
    repeat (rewrite app_comm_cons || rewrite app_assoc). apply hd_ok_rev_app_cons_dec.
Qed.

Lemma ports_line_len p : ports_ok p = true -> lenN (ports_line p) + 1 <= LINE_BOUND.
Proof.
  intros V. unfold ports_ok in V. split_and V.
  pose proof (dec_len5 (p_port_v6 p) ltac:(lia)). pose proof (dec_len5 (p_port_v4 p) ltac:(lia)).
  pose proof (dec_len5 (p_dns_v6 p) ltac:(lia)). pose proof (dec_len5 (p_dns_v4 p) ltac:(lia)).
  unfold ports_line, lenN, LINE_BOUND. repeat (rewrite app_length || cbn [length]). lia.
Qed.

Lemma port_in_range_ok n : n <=? 65535 = true -> port_in_range (Z.of_N n) = true.
Proof. unfold port_in_range. lia. Qed.

Lemma parse_ports_render p : ports_ok p = true ->
  parse_ports (ports_line p) =
  inl (Z.of_N (p_port_v6 p), Z.of_N (p_port_v4 p), Z.of_N (p_dns_v6 p), Z.of_N (p_dns_v4 p)).
Proof.
  intros V. unfold ports_ok in V. split_and V.
  unfold parse_ports, ports_line. cbn [app after_first Ascii.eqb Bool.eqb sp andb].
  rewrite !split_all_sep by (apply nosep_dec, comma_not_digit).
  rewrite split_all_nosep by (apply nosep_dec, comma_not_digit).
  rewrite !py_int_dec, !port_in_range_ok by assumption. reflexivity.
Qed.

Lemma ports_step p rest :
  parse_ns (with_nl (ports_line p) :: rest) = POk ([], ports_line p) rest.
Proof.
  cbn [parse_ns]. unfold with_nl.
  rewrite (clean_ascii _ (ports_line_clean p)), (clean_strip _ (ports_line_clean p)).
  reflexivity.
Qed.

Lemma parse_ns_render p l rest :
  forallb valid_ns l = true ->
  parse_ns (map (fun e => with_nl (ns_line e)) l ++ with_nl (ports_line p) :: rest)
  = POk (map (fun e => (Z.of_N (fst e), snd e)) l, ports_line p) rest.
Proof.
  induction l as [|e l IH]; intros V.
  - apply ports_step.
  - cbn [forallb] in V. apply andb_true_iff in V. destruct V as [Ve Vl].
    cbn [map app parse_ns].
    pose proof (printable_clean _ (ns_line_printable e Ve)) as C.
    unfold with_nl in *. rewrite (clean_ascii _ C), (clean_strip _ C). cbn [negb].
    destruct (digit_hd_facts _ (ns_line_hd e)) as [Hn Hp].
    rewrite Hn, Hp by reflexivity.
    unfold ns_line at 1. rewrite split_on_sep by (apply nosep_dec, comma_not_digit).
    rewrite split_on_0, py_int_dec, (IH Vl). reflexivity.
Qed.

(* ---- GO ---- *)

Lemma go_line_eq p : go_line p =
  B "GO " ++ [excl_ch (p_udp p)] ++ sp :: id_text (p_user p) ++ sp :: id_text (p_group p) ++ sp ::
  p_tmark p ++ sp :: dec (p_pid p).
Proof.
  unfold go_line, go_head. cbn [app].
  repeat (rewrite <- app_assoc; cbn [app]). reflexivity.
Qed.

Lemma id_text_printable u : forallb printable (id_text u) = true.
Proof. destruct u; [apply dec_printable|reflexivity]. Qed.

Lemma id_text_len u : valid_id u = true -> (length (id_text u) <= 10)%nat.
Proof.
  destruct u as [n|]; cbn [valid_id id_text length]; [|lia].
  unfold MAX_ID. intros H. apply dec_len10. lia.
Qed.

Lemma valid_tmark_printable t : valid_tmark t = true -> forallb printable t = true.
Proof. unfold valid_tmark. intros H. split_and H. exact H0. Qed.

Lemma go_line_clean p : valid_tmark (p_tmark p) = true -> clean (go_line p) = true.
Proof.
  intros V. apply valid_tmark_printable in V.
  unfold clean. apply andb_true_iff. split; [apply andb_true_iff; split|].
  - rewrite go_line_eq. repeat (rewrite forallb_app || cbn [forallb]).
    rewrite !(forallb_impl printable print_sp _ printable_print_sp (id_text_printable _)).
    rewrite (forallb_impl printable print_sp _ printable_print_sp (dec_printable _)).
    rewrite (forallb_impl printable print_sp _ printable_print_sp V).
    destruct (p_udp p); reflexivity.
  - reflexivity.
  - unfold go_line. apply hd_ok_rev_app_dec.
Qed.

Lemma go_line_len p :
  valid_id (p_user p) = true -> valid_id (p_group p) = true -> valid_tmark (p_tmark p) = true ->
  p_pid p <=? MAX_ID = true -> lenN (go_line p) + 1 <= LINE_BOUND.
Proof.
  intros Vu Vg Vt Vp. apply id_text_len in Vu. apply id_text_len in Vg.
  unfold valid_tmark in Vt. split_and Vt. unfold lenN in Vt.
  pose proof (dec_len10 (p_pid p) ltac:(unfold MAX_ID in Vp; lia)).
  rewrite go_line_eq. unfold lenN, LINE_BOUND. repeat (rewrite app_length || cbn [length]). lia.
Qed.

Lemma none_if_dash_id u : none_if_dash (id_text u) = option_map dec u.
Proof.
  destruct u as [n|]; [|reflexivity]. cbn [id_text option_map]. unfold none_if_dash.
  destruct (bytes_eqb (dec n) [dash]) eqn:E; [|reflexivity].
  apply bytes_eqb_eq in E. destruct (dec_hd n) as (c & t & E' & Hc). rewrite E in E'.
  injection E' as <- _. discriminate.
Qed.

Lemma parse_go_render p rest : valid_tmark (p_tmark p) = true ->
  parse_go (with_nl (go_line p) :: rest) =
  POk (p_udp p, option_map dec (p_user p), option_map dec (p_group p), p_tmark p, Z.of_N (p_pid p)) rest.
Proof.
  intros V. pose proof (go_line_clean p V) as C.
  cbn [parse_go]. unfold with_nl. rewrite (clean_ascii _ C), (clean_strip _ C). cbn [negb].
  rewrite go_line_eq. cbn [app is_nil prefixb after_first Ascii.eqb Bool.eqb sp andb orb negb].
  match goal with |- context [split_on sp 4 (?x :: sp :: ?r)] =>
    change (x :: sp :: r) with ([x] ++ sp :: r) end.
  rewrite split_on_sep by (destruct (p_udp p); reflexivity).
  rewrite split_on_sep by (apply nosep_printable_other; [apply id_text_printable|reflexivity]).
  rewrite split_on_sep by (apply nosep_printable_other; [apply id_text_printable|reflexivity]).
  rewrite split_on_sep by (apply nosep_printable_other; [apply valid_tmark_printable, V|reflexivity]).
  rewrite split_on_0, py_int_dec, !none_if_dash_id.
  destruct (p_udp p); reflexivity.
Qed.

(* ------------------------------------------------------------------ *)
(* the whole plan                                                      *)

Definition tagged (p : plan) : list (bool * subnet) :=
  map (pair false) (p_include p ++ p_auto p) ++ map (pair true) (p_exclude p).

Lemma plan_lines_shape p rest :
  map with_nl (plan_lines p) ++ rest =
  with_nl (B "ROUTES") ::
  (map (fun x => with_nl (route_line (fst x) (snd x))) (tagged p) ++
   with_nl (B "NSLIST") ::
   (map (fun e => with_nl (ns_line e)) (p_nslist p) ++
    with_nl (ports_line p) :: with_nl (go_line p) :: rest)).
Proof.
  unfold plan_lines, tagged.
  cbn [map app]. f_equal.
  repeat (rewrite map_app; cbn [map]). rewrite !map_map. cbn [map fst snd].
  repeat (rewrite <- app_assoc; cbn [app]). reflexivity.
Qed.

Lemma hplan_subnets p :
  map (fun x => hsub_of (fst x) (snd x)) (tagged p) =
  map (hsub_of false) (p_include p ++ p_auto p) ++ map (hsub_of true) (p_exclude p).
Proof. unfold tagged. rewrite map_app, !map_map. reflexivity. Qed.

Lemma valid_plan_parts p : valid_plan p = true ->
  forallb (fun x => valid_subnet (snd x)) (tagged p) = true /\
  forallb valid_ns (p_nslist p) = true /\ ports_ok p = true /\
  valid_id (p_user p) = true /\ valid_id (p_group p) = true /\
  valid_tmark (p_tmark p) = true /\ p_pid p <=? MAX_ID = true.
Proof.
  intros V. unfold valid_plan in V.
  apply andb_true_iff in V; destruct V as [V Vpid].
  apply andb_true_iff in V; destruct V as [V Vt].
  apply andb_true_iff in V; destruct V as [V Vg].
  apply andb_true_iff in V; destruct V as [V Vu].
  apply andb_true_iff in V; destruct V as [V Vd4].
  apply andb_true_iff in V; destruct V as [V Vd6].
  apply andb_true_iff in V; destruct V as [V Vp4].
  apply andb_true_iff in V; destruct V as [V Vp6].
  apply andb_true_iff in V; destruct V as [V Vn].
  apply andb_true_iff in V; destruct V as [V Ve].
  apply andb_true_iff in V; destruct V as [Vi Va].
  repeat split; try assumption.
  - rewrite forallb_forall in Vi, Va, Ve.
    unfold tagged. rewrite forallb_app. apply andb_true_iff. split.
    + apply forallb_forall. intros x Hx. apply in_map_iff in Hx. destruct Hx as (s & <- & Hs).
      cbn [snd]. apply in_app_or in Hs. destruct Hs; auto.
    + apply forallb_forall. intros x Hx. apply in_map_iff in Hx. destruct Hx as (s & <- & Hs).
      cbn [snd]. auto.
  - unfold ports_ok. rewrite Vp6, Vp4, Vd6, Vd4. reflexivity.
Qed.

Lemma routes_step rest :
  parse_plan (with_nl (B "ROUTES") :: rest) =
  match parse_routes rest with
  | PExit x => PExit x
  | POk subnets rest1 =>
      match parse_ns rest1 with
      | PExit x => PExit x
      | POk (ns, pl) rest2 =>
          match parse_ports pl with
          | inr x => PExit x
          | inl (a, b, c, d) =>
              match parse_go rest2 with
              | PExit x => PExit x
              | POk (udp, user, group, tmark, pid) rest3 =>
                  POk (mkHplan subnets ns a b c d udp user group tmark pid) rest3
              end
          end
      end
  end.
Proof. reflexivity. Qed.

Theorem parse_plan_render p rest : valid_plan p = true ->
  parse_plan (map with_nl (plan_lines p) ++ rest) = POk (hplan_of p) rest.
Proof.
  intros V. destruct (valid_plan_parts p V) as (Vs & Vn & Vp & Vu & Vg & Vt & Vpid).
  rewrite plan_lines_shape, routes_step.
  rewrite (parse_routes_render _ _ Vs), (parse_ns_render p _ _ Vn), (parse_ports_render p Vp).
  rewrite (parse_go_render p _ Vt), hplan_subnets. reflexivity.
Qed.

(* ------------------------------------------------------------------ *)
(* HOST lines                                                          *)

Lemma host_line_clean h : host_ok h = true -> clean (host_line h) = true.
Proof.
  unfold host_ok. intros V. split_and V.
  assert (Pn : forallb printable (fst h) = true).
  { apply (forallb_impl name_char); [|exact V]. intros x Hx. apply name_char_props in Hx. tauto. }
  assert (Pi : forallb printable (snd h) = true).
  { apply (forallb_impl ipv4_char); [|exact V0]. apply ipv4_char_props. }
  unfold clean. apply andb_true_iff. split; [apply andb_true_iff; split|].
  - unfold host_line. repeat (rewrite forallb_app || cbn [forallb]).
    rewrite (forallb_impl printable print_sp _ printable_print_sp Pn).
    rewrite (forallb_impl printable print_sp _ printable_print_sp Pi). reflexivity.
  - reflexivity.
  - unfold host_line. rewrite app_assoc. apply hd_ok_rev_app_printable; [|discriminate].
    cbn [forallb]. rewrite Pi. reflexivity.
Qed.

Lemma host_step h rest hm port : host_ok h = true ->
  host_loop (with_nl (host_line h) :: rest) hm port =
  let hm' := hm_set (fst h) (snd h) hm in
  let '(ev, hmf, ex) := host_loop rest hm' port in (EvHosts hm' port :: ev, hmf, ex).
Proof.
  intros V. pose proof (host_line_clean h V) as C.
  cbn [host_loop]. unfold with_nl. rewrite (clean_ascii _ C), (clean_strip _ C). cbn [negb].
  unfold host_line. cbn [app is_nil prefixb Ascii.eqb Bool.eqb andb skipn].
  rewrite split_on_sep, split_on_0; [reflexivity|].
  unfold host_ok in V. split_and V.
  apply (forallb_impl name_char); [|exact V]. intros x Hx. apply name_char_props in Hx. tauto.
Qed.

Definition hm_step (hm : hostmap) (h : bytes * bytes) : hostmap := hm_set (fst h) (snd h) hm.

Lemma host_loop_render hs : forall hm port, forallb host_ok hs = true ->
  host_loop (map (fun h => with_nl (host_line h)) hs) hm port =
  (host_events hs hm port, fold_left hm_step hs hm, ExReturn).
Proof.
  induction hs as [|h hs IH]; intros hm port V; [reflexivity|].
  cbn [forallb] in V. apply andb_true_iff in V. destruct V as [Vh Vs].
  cbn [map]. rewrite (host_step h _ hm port Vh). cbv zeta. rewrite (IH _ port Vs).
  destruct h as [n i]. reflexivity.
Qed.

(* ------------------------------------------------------------------ *)
(* line bound and the round trip                                       *)

Theorem plan_lines_bound p : valid_plan p = true ->
  Forall (fun b => lenN (with_nl b) <= LINE_BOUND) (plan_lines p).
Proof.
  intros V. destruct (valid_plan_parts p V) as (Vs & Vn & Vp & Vu & Vg & Vt & Vpid).
  assert (W : forall b, lenN (with_nl b) = lenN b + 1).
  { intros b. unfold with_nl. rewrite lenN_app. reflexivity. }
  unfold plan_lines. constructor; [vm_compute; discriminate|].
  apply Forall_app. split; [|apply Forall_app; split].
  - apply Forall_forall. intros b Hb. apply in_map_iff in Hb. destruct Hb as (s & <- & Hs).
    rewrite W. apply route_line_len.
    rewrite forallb_forall in Vs. apply (Vs (false, s)). unfold tagged. apply in_or_app. left.
    apply in_map, Hs.
  - apply Forall_forall. intros b Hb. apply in_map_iff in Hb. destruct Hb as (s & <- & Hs).
    rewrite W. apply route_line_len.
    rewrite forallb_forall in Vs. apply (Vs (true, s)). unfold tagged. apply in_or_app. right.
    apply in_map, Hs.
  - constructor; [vm_compute; discriminate|]. apply Forall_app. split.
    + apply Forall_forall. intros b Hb. apply in_map_iff in Hb. destruct Hb as (s & <- & Hs).
      rewrite W. apply ns_line_len. rewrite forallb_forall in Vn. auto.
    + constructor; [rewrite W; apply ports_line_len, Vp|].
      constructor; [rewrite W; apply go_line_len; assumption|constructor].
Qed.

Lemma plan_lines_clean p : valid_plan p = true -> forallb clean (plan_lines p) = true.
Proof.
  intros V. destruct (valid_plan_parts p V) as (Vs & Vn & Vp & Vu & Vg & Vt & Vpid).
  unfold plan_lines. repeat (rewrite forallb_app || cbn [forallb]).
  rewrite (ports_line_clean p), (go_line_clean p Vt).
  assert (R : forall e l, (forall s, In s l -> valid_subnet s = true) ->
                          forallb clean (map (route_line e) l) = true).
  { intros e l H. apply forallb_forall. intros b Hb. apply in_map_iff in Hb.
    destruct Hb as (s & <- & Hs). apply printable_clean, route_line_printable, H, Hs. }
  rewrite forallb_forall in Vs. unfold tagged in Vs.
  rewrite (R false), (R true).
  - replace (forallb clean (map ns_line (p_nslist p))) with true; [reflexivity|].
    symmetry. apply forallb_forall. intros b Hb. apply in_map_iff in Hb.
    destruct Hb as (s & <- & Hs). apply printable_clean, ns_line_printable.
    rewrite forallb_forall in Vn. auto.
  - intros s Hs. apply (Vs (true, s)). apply in_or_app. right. apply in_map, Hs.
  - intros s Hs. apply (Vs (false, s)). apply in_or_app. left. apply in_map, Hs.
Qed.

Lemma fits_bound lim b : limit_ok lim = true -> lenN (with_nl b) <= LINE_BOUND -> fits lim b = true.
Proof.
  destruct lim as [n|]; [|reflexivity]. cbn [limit_ok fits]. unfold with_nl. rewrite lenN_app.
  change (lenN [nl]) with 1. lia.
Qed.

Lemma render_dialogue_lines p hs :
  render_dialogue p hs =
  concat (map (fun b => b ++ [nl]) (plan_lines p ++ map host_line hs)) ++ [].
Proof.
  unfold render_dialogue, render_plan, render_hosts.
  rewrite app_nil_r, map_app, concat_app, map_map. reflexivity.
Qed.

Theorem chunks_dialogue lim p hs :
  valid_plan p = true -> forallb host_ok hs = true ->
  limit_ok lim = true -> hosts_fit lim hs = true ->
  chunks lim (render_dialogue p hs) =
  map with_nl (plan_lines p) ++ map (fun h => with_nl (host_line h)) hs.
Proof.
  intros V Vh L F. rewrite render_dialogue_lines, chunks_lines.
  - rewrite chunks_nil, app_nil_r, map_app, map_map. reflexivity.
  - rewrite forallb_app. apply andb_true_iff. split.
    + apply forallb_forall. intros b Hb.
      pose proof (plan_lines_clean p V) as C. rewrite forallb_forall in C.
      pose proof (plan_lines_bound p V) as Bd. rewrite Forall_forall in Bd.
      rewrite (clean_nosep_nl _ (C b Hb)), (fits_bound lim b L (Bd b Hb)). reflexivity.
    + apply forallb_forall. intros b Hb. apply in_map_iff in Hb. destruct Hb as (h & <- & Hh).
      unfold hosts_fit in F. rewrite forallb_forall in F, Vh.
      rewrite (clean_nosep_nl _ (host_line_clean h (Vh h Hh))), (F h Hh). reflexivity.
Qed.

Lemma final_map_eq hs : final_map hs = fold_left hm_step hs [].
Proof. reflexivity. Qed.

Theorem dialogue_roundtrip lim p hs :
  valid_plan p = true -> forallb host_ok hs = true ->
  limit_ok lim = true -> hosts_fit lim hs = true ->
  helper_main lim (render_dialogue p hs) = (expected_events p hs, ExReturn).
Proof.
  intros V Vh L F. unfold helper_main. rewrite (chunks_dialogue lim p hs V Vh L F).
  unfold helper_lines. rewrite (parse_plan_render p _ V).
  unfold run_plan. rewrite (host_loop_render hs _ _ Vh). reflexivity.
Qed.

(* ------------------------------------------------------------------ *)
(* every exit after GO goes through the finally block                  *)

Lemma host_loop_events cs : forall hm port,
  Forall host_phase_event (fst (fst (host_loop cs hm port))).
Proof.
  induction cs as [|raw rest IH]; intros hm port; [constructor|].
  cbn [host_loop]. destruct (negb (all_ascii raw)); [constructor|].
  destruct (is_nil (strip raw)); [constructor|].
  destruct (prefixb _ (strip raw)).
  - destruct (split_on comma 1 (skipn 5 (strip raw))) as [|n [|i [|? ?]]]; try constructor.
    specialize (IH (hm_set n i hm) port).
    destruct (host_loop rest (hm_set n i hm) port) as [[ev hmf] ex]. cbn [fst] in *.
    constructor; [exact I|exact IH].
  - repeat constructor.
Qed.

Theorem cleanup_always lim input :
  fst (helper_main lim input) = [] \/
  exists hp mid hm,
    fst (helper_main lim input) =
      setup_events hp ++ EvWait (h_pid hp) :: EvStarted :: mid ++ finally_events hp hm /\
    Forall host_phase_event mid.
Proof.
  unfold helper_main, helper_lines.
  destruct (parse_plan (chunks lim input)) as [hp rest|x]; [|left; reflexivity].
  right. unfold run_plan.
  pose proof (host_loop_events rest [] (hosts_port hp)) as H.
  destruct (host_loop rest [] (hosts_port hp)) as [[ev hm] ex]. cbn [fst] in *.
  exists hp, ev, hm. split; [reflexivity|exact H].
Qed.

(* a silent return or an exit before the try block happens with nothing set up *)
Theorem exit_before_try lim input :
  snd (helper_main lim input) = ExSilent -> fst (helper_main lim input) = [].
Proof.
  unfold helper_main, helper_lines.
  destruct (parse_plan (chunks lim input)) as [hp rest|x]; [|reflexivity].
  unfold run_plan.
  assert (H : forall cs hm port, snd (host_loop cs hm port) <> ExSilent).
  { induction cs as [|raw r IH]; intros hm port; cbn [host_loop]; [discriminate|].
    destruct (negb (all_ascii raw)); [discriminate|].
    destruct (is_nil (strip raw)); [discriminate|].
    destruct (prefixb _ (strip raw)); [|discriminate].
    destruct (split_on comma 1 (skipn 5 (strip raw))) as [|n [|i [|? ?]]]; try discriminate.
    specialize (IH (hm_set n i hm) port).
    destruct (host_loop r (hm_set n i hm) port) as [[ev hmf] ex]. exact IH. }
  specialize (H rest [] (hosts_port hp)).
  destruct (host_loop rest [] (hosts_port hp)) as [[ev hm] ex]. cbn [snd] in *. contradiction.
Qed.

(* ------------------------------------------------------------------ *)
(* counting blanks                                                     *)

Fixpoint cnt (s : bytes) : nat :=
  match s with [] => 0 | x :: t => (if Ascii.eqb x sp then 1 else 0) + cnt t end%nat.

Lemma cnt_app a b : cnt (a ++ b) = (cnt a + cnt b)%nat.
Proof. induction a as [|x a IH]; [reflexivity|]. cbn [app cnt]. rewrite IH. lia. Qed.

Lemma cnt_rev l : cnt (rev l) = cnt l.
Proof. induction l as [|x l IH]; [reflexivity|]. cbn [rev]. rewrite cnt_app, IH. cbn [cnt]. lia. Qed.

Lemma cnt_dropwhile f l : (cnt (dropwhile f l) <= cnt l)%nat.
Proof.
  induction l as [|x l IH]; [reflexivity|]. cbn [dropwhile]. destruct (f x); [cbn [cnt]; lia|reflexivity].
Qed.

Lemma cnt_strip x : (cnt (strip x) <= cnt x)%nat.
Proof.
  unfold strip, strip_with.
  eapply Nat.le_trans; [apply cnt_dropwhile|]. rewrite cnt_rev.
  eapply Nat.le_trans; [apply cnt_dropwhile|]. rewrite cnt_rev. reflexivity.
Qed.

Lemma cnt_prefix x w : prefix x w -> (cnt x <= cnt w)%nat.
Proof. intros [r ->]. rewrite cnt_app. lia. Qed.

Lemma cnt_printable l : forallb printable l = true -> cnt l = 0%nat.
Proof.
  induction l as [|x l IH]; [reflexivity|]. cbn [forallb cnt]. intros H.
  apply andb_true_iff in H. destruct H as [Hx Hl]. rewrite (IH Hl).
  destruct (Ascii.eqb x sp) eqn:E; [|reflexivity].
  apply Ascii.eqb_eq in E. subst. discriminate.
Qed.

Lemma split_len k s : (length (split_on sp k s) <= S (cnt s))%nat.
Proof.
  revert k. induction s as [|x t IH]; intros k; [cbn; lia|].
  cbn [split_on cnt]. destruct k as [|k]; [cbn; lia|].
  destruct (Ascii.eqb x sp).
  - cbn [length]. specialize (IH k). lia.
  - specialize (IH (S k)). destruct (split_on sp (S k) t); cbn [length] in *; lia.
Qed.

Lemma cnt_after_first s : cnt (after_first sp s) = pred (cnt s).
Proof.
  induction s as [|x t IH]; [reflexivity|]. cbn [after_first cnt].
  destruct (Ascii.eqb x sp); [reflexivity|]. exact IH.
Qed.

(* ------------------------------------------------------------------ *)
(* a plan can only be accepted when some line has a complete GO shape  *)

Lemma parse_routes_incl cs : forall l r, parse_routes cs = POk l r -> incl r cs.
Proof.
  induction cs as [|raw rest IH]; intros l r; cbn [parse_routes]; [discriminate|].
  destruct (negb (all_ascii raw)); [discriminate|].
  destruct (is_nil (strip raw)); [discriminate|].
  destruct (prefixb _ (strip raw)).
  - destruct (bytes_eqb _ _); [|discriminate]. intros [= <- <-]. apply incl_tl, incl_refl.
  - destruct (split_on comma 5 (strip raw)) as [|f [|w [|e [|ip [|fp [|lp [|? ?]]]]]]]; try discriminate.
    destruct (route_fields f w e ip fp lp); [|discriminate].
    destruct (parse_routes rest) as [l' r'|x] eqn:E; [|discriminate].
    intros [= <- <-]. apply incl_tl, (IH l' r' eq_refl).
Qed.

Lemma parse_ns_incl cs : forall l r, parse_ns cs = POk l r -> incl r cs.
Proof.
  induction cs as [|raw rest IH]; intros l r; cbn [parse_ns]; [discriminate|].
  destruct (negb (all_ascii raw)); [discriminate|].
  destruct (is_nil (strip raw)); [discriminate|].
  destruct (prefixb _ (strip raw)).
  - intros [= <- <-]. apply incl_tl, incl_refl.
  - destruct (split_on comma 1 (strip raw)) as [|f [|ip [|? ?]]]; try discriminate.
    destruct (py_int f); [|discriminate].
    destruct (parse_ns rest) as [[l' pl'] r'|x] eqn:E; [|discriminate].
    intros [= <- <-]. apply incl_tl, (IH _ r' eq_refl).
Qed.

Lemma parse_go_cnt cs v rest : parse_go cs = POk v rest ->
  exists x, cs = x :: rest /\ (5 <= cnt (strip x))%nat.
Proof.
  destruct cs as [|raw r]; cbn [parse_go]; [discriminate|].
  destruct (negb (all_ascii raw)); [discriminate|].
  destruct (is_nil (strip raw) || negb (prefixb _ (strip raw))); [discriminate|].
  pose proof (split_len 4 (after_first sp (strip raw))) as L.
  rewrite cnt_after_first in L.
  destruct (split_on sp 4 (after_first sp (strip raw))) as [|a [|b [|c [|d [|e [|? ?]]]]]]; try discriminate.
  destruct (py_int a); [|discriminate]. destruct (py_int e); [|discriminate].
  intros [= <- <-]. exists raw. split; [reflexivity|]. cbn [length] in L. lia.
Qed.

Lemma parse_plan_go cs hp rest : parse_plan cs = POk hp rest ->
  exists x, In x cs /\ (5 <= cnt (strip x))%nat.
Proof.
  destruct cs as [|raw r]; cbn [parse_plan]; [discriminate|].
  destruct (negb (all_ascii raw)); [discriminate|].
  destruct (is_nil (strip raw)); [discriminate|].
  destruct (negb (bytes_eqb _ _)); [discriminate|].
  destruct (parse_routes r) as [sn r1|x] eqn:E1; [|discriminate].
  destruct (parse_ns r1) as [[ns pl] r2|x] eqn:E2; [|discriminate].
  destruct (parse_ports pl) as [[[[a b] c] d]|x]; [|discriminate].
  destruct (parse_go r2) as [[[[[u us] g] t] pd] r3|x] eqn:E3; [|discriminate].
  intros _. destruct (parse_go_cnt _ _ _ E3) as (x & -> & Hx).
  exists x. split; [|exact Hx].
  right. apply (parse_routes_incl _ _ _ E1), (parse_ns_incl _ _ _ E2). left. reflexivity.
Qed.

(* ------------------------------------------------------------------ *)
(* readline pieces of a truncated dialogue                             *)

Lemma prefix_app_cases {A} (a c : list A) : forall pre, prefix pre (a ++ c) ->
  prefix pre a \/ exists pre', pre = a ++ pre' /\ prefix pre' c.
Proof.
  induction a as [|x a IH]; intros pre H.
  - right. exists pre. split; [reflexivity|exact H].
  - destruct pre as [|y pre]; [left; apply prefix_nil|].
    destruct H as [r H]. cbn [app] in H. injection H as -> H.
    destruct (IH pre (ex_intro _ r H)) as [[r' ->]|(pre' & -> & Hp)].
    + left. exists r'. reflexivity.
    + right. exists pre'. split; [reflexivity|exact Hp].
Qed.

Lemma prefix_cons_cases {A} (x : A) l pre : prefix pre (x :: l) ->
  pre = [] \/ exists pre', pre = x :: pre' /\ prefix pre' l.
Proof.
  destruct pre as [|y pre]; [left; reflexivity|]. intros [r H]. injection H as -> H.
  right. exists pre. split; [reflexivity|exists r; exact H].
Qed.

Lemma prefix_nosep c x b : prefix x b -> nosep c b = true -> nosep c x = true.
Proof. intros [r ->]. unfold nosep. rewrite forallb_app. intros H. apply andb_true_iff in H. tauto. Qed.

Lemma prefix_fits lim x b : prefix x b -> fits lim b = true -> fits lim x = true.
Proof.
  intros [r ->]. destruct lim as [n|]; [|reflexivity]. cbn [fits]. rewrite lenN_app. lia.
Qed.

Lemma chunks_unl_short l : nosep nl l = true -> chunks_unl l = if is_nil l then [] else [l].
Proof.
  induction l as [|x l IH]; intros H; [reflexivity|].
  cbn [nosep forallb] in H. apply andb_true_iff in H. destruct H as [Hx Hl].
  apply negb_true_iff in Hx. cbn [chunks_unl is_nil]. rewrite Hx, (IH Hl).
  destruct l; reflexivity.
Qed.

Lemma chunks_lim_short n l : forall k, nosep nl l = true -> (length l < k)%nat ->
  chunks_lim n k l = if is_nil l then [] else [l].
Proof.
  induction l as [|x l IH]; intros k H Hk; [reflexivity|].
  cbn [nosep forallb] in H. apply andb_true_iff in H. destruct H as [Hx Hl].
  apply negb_true_iff in Hx. cbn [length] in Hk. cbn [chunks_lim is_nil]. rewrite Hx.
  replace (Nat.eqb k 1) with false by (symmetry; apply Nat.eqb_neq; lia).
  cbn [orb]. rewrite (IH (k - 1)%nat Hl) by lia. destruct l; reflexivity.
Qed.

Lemma chunks_short lim l : nosep nl l = true -> fits lim l = true ->
  chunks lim l = if is_nil l then [] else [l].
Proof.
  intros H F. destruct lim as [n|]; cbn [chunks fits] in *.
  - apply N.leb_le in F. unfold lenN in F.
    replace (n =? 0) with false by (symmetry; apply N.eqb_neq; lia).
    apply chunks_lim_short; [exact H|lia].
  - apply chunks_unl_short, H.
Qed.

Lemma chunks_short_in lim l x : nosep nl l = true -> fits lim l = true ->
  In x (chunks lim l) -> x = l.
Proof.
  intros H F. rewrite (chunks_short lim l H F). destruct (is_nil l); [contradiction|].
  intros [<-|[]]. reflexivity.
Qed.

Lemma chunks_prefix lim T bodies : forall pre,
  forallb (fun b => nosep nl b && fits lim b) bodies = true ->
  nosep nl T = true -> fits lim T = true ->
  prefix pre (concat (map with_nl bodies) ++ T) ->
  forall x, In x (chunks lim pre) ->
  (exists b, In b bodies /\ (x = with_nl b \/ prefix x b)) \/ prefix x T.
Proof.
  induction bodies as [|b bs IH]; intros pre HB HT FT HP x Hx.
  - cbn [map concat app] in HP. right.
    rewrite (chunks_short_in lim pre x (prefix_nosep _ _ _ HP HT) (prefix_fits _ _ _ HP FT) Hx).
    exact HP.
  - cbn [forallb] in HB. apply andb_true_iff in HB. destruct HB as [Hb Hbs].
    apply andb_true_iff in Hb. destruct Hb as [Hn Hf].
    cbn [map concat] in HP. unfold with_nl at 1 in HP. rewrite <- !app_assoc in HP. cbn [app] in HP.
    destruct (prefix_app_cases _ _ _ HP) as [Hp|(pre' & -> & Hp)].
    + left. exists b. split; [left; reflexivity|]. right.
      rewrite (chunks_short_in lim pre x (prefix_nosep _ _ _ Hp Hn) (prefix_fits _ _ _ Hp Hf) Hx).
      exact Hp.
    + destruct (prefix_cons_cases _ _ _ Hp) as [->|(pre'' & -> & Hp')].
      * rewrite app_nil_r in Hx. left. exists b. split; [left; reflexivity|]. right.
        rewrite (chunks_short_in lim b x Hn Hf Hx). apply prefix_refl.
      * rewrite (chunks_line lim b pre'' Hn Hf) in Hx. destruct Hx as [<-|Hx].
        -- left. exists b. split; [left; reflexivity|]. left. reflexivity.
        -- destruct (IH pre'' Hbs HT FT Hp' x Hx) as [(b' & Hb' & Hc)|Hc].
           ++ left. exists b'. split; [right; exact Hb'|exact Hc].
           ++ right. exact Hc.
Qed.

(* ------------------------------------------------------------------ *)
(* the dialogue up to the blank before the pid                         *)

Lemma plan_lines_head p : plan_lines p = head_lines p ++ [go_line p].
Proof.
  unfold plan_lines, head_lines. cbn [app]. f_equal.
  repeat (rewrite <- app_assoc; cbn [app]). reflexivity.
Qed.

Lemma render_plan_split p : render_plan p = plan_head_bytes p ++ dec (p_pid p) ++ [nl].
Proof.
  unfold render_plan, plan_head_bytes. rewrite plan_lines_head, map_app, concat_app.
  cbn [map concat]. unfold with_nl at 2, go_line. rewrite app_nil_r, <- !app_assoc. reflexivity.
Qed.

Lemma ports_line_cnt p : cnt (ports_line p) = 1%nat.
Proof.
  unfold ports_line. repeat (rewrite cnt_app || cbn [cnt]).
  rewrite !(cnt_printable _ (dec_printable _)). reflexivity.
Qed.

Lemma head_lines_cnt p b : valid_plan p = true -> In b (head_lines p) -> (cnt b <= 1)%nat.
Proof.
  intros V. destruct (valid_plan_parts p V) as (Vs & Vn & _).
  rewrite forallb_forall in Vs, Vn. unfold tagged in Vs.
  unfold head_lines. intros [<-|H]; [cbn; lia|].
  apply in_app_or in H. destruct H as [H|H].
  { apply in_map_iff in H. destruct H as (s & <- & Hs).
    rewrite (cnt_printable _ (route_line_printable false s (Vs (false, s)
      ltac:(apply in_or_app; left; apply in_map, Hs)))). lia. }
  apply in_app_or in H. destruct H as [H|H].
  { apply in_map_iff in H. destruct H as (s & <- & Hs).
    rewrite (cnt_printable _ (route_line_printable true s (Vs (true, s)
      ltac:(apply in_or_app; right; apply in_map, Hs)))). lia. }
  destruct H as [<-|H]; [cbn; lia|].
  apply in_app_or in H. destruct H as [H|[<-|[]]].
  - apply in_map_iff in H. destruct H as (s & <- & Hs).
    rewrite (cnt_printable _ (ns_line_printable s (Vn s Hs))). lia.
  - rewrite ports_line_cnt. lia.
Qed.

Lemma go_head_eq p : valid_tmark (p_tmark p) = true ->
  exists w, go_head p = w ++ [sp] /\ cnt w = 4%nat.
Proof.
  intros V. apply valid_tmark_printable in V.
  exists (B "GO " ++ excl_ch (p_udp p) :: sp :: id_text (p_user p) ++ sp ::
          id_text (p_group p) ++ sp :: p_tmark p).
  split.
  - unfold go_head. cbn [app]. repeat (rewrite <- app_assoc; cbn [app]). reflexivity.
  - repeat (rewrite cnt_app || cbn [cnt]).
    rewrite !(cnt_printable _ (id_text_printable _)), (cnt_printable _ V).
    destruct (p_udp p); reflexivity.
Qed.

Lemma strip_sp l : strip (l ++ [sp]) = strip l.
Proof. unfold strip, strip_with. rewrite rev_app_distr. reflexivity. Qed.

Lemma go_head_prefix_cnt p x : valid_tmark (p_tmark p) = true ->
  prefix x (go_head p) -> (cnt (strip x) <= 4)%nat.
Proof.
  intros V H. destruct (go_head_eq p V) as (w & E & Hw). rewrite E in H.
  destruct (prefix_app_cases _ _ _ H) as [Hp|(pre' & -> & Hp)].
  - pose proof (cnt_strip x). pose proof (cnt_prefix _ _ Hp). lia.
  - destruct (prefix_cons_cases _ _ _ Hp) as [->|(pre'' & -> & [r Hr])].
    + rewrite app_nil_r. pose proof (cnt_strip w). lia.
    + destruct pre''; [|discriminate]. rewrite strip_sp. pose proof (cnt_strip w). lia.
Qed.

Lemma go_head_prefix_line p : prefix (go_head p) (go_line p).
Proof. exists (dec (p_pid p)). reflexivity. Qed.

Lemma head_lines_ok lim p : valid_plan p = true -> limit_ok lim = true ->
  forallb (fun b => nosep nl b && fits lim b) (head_lines p) = true.
Proof.
  intros V L. apply forallb_forall. intros b Hb.
  assert (Hin : In b (plan_lines p)) by (rewrite plan_lines_head; apply in_or_app; left; exact Hb).
  pose proof (plan_lines_clean p V) as C. rewrite forallb_forall in C.
  pose proof (plan_lines_bound p V) as Bd. rewrite Forall_forall in Bd.
  rewrite (clean_nosep_nl _ (C b Hin)), (fits_bound lim b L (Bd b Hin)). reflexivity.
Qed.

(* A dialogue cut anywhere before the first digit of the pid (in particular after
   any whole line before GO, and anywhere inside the lines before it) makes the
   helper leave without having called anything. *)
Theorem no_action_before_pid lim p pre :
  valid_plan p = true -> limit_ok lim = true ->
  prefix pre (plan_head_bytes p) ->
  fst (helper_main lim pre) = [].
Proof.
  intros V L HP. destruct (valid_plan_parts p V) as (_ & _ & _ & Vu & Vg & Vt & Vpid).
  unfold helper_main, helper_lines.
  destruct (parse_plan (chunks lim pre)) as [hp rest|x] eqn:E; [|reflexivity].
  exfalso. destruct (parse_plan_go _ _ _ E) as (x & Hx & Hc).
  assert (Hgo : In (go_line p) (plan_lines p)) by (rewrite plan_lines_head; apply in_or_app; right; left; reflexivity).
  pose proof (plan_lines_clean p V) as C. rewrite forallb_forall in C.
  pose proof (plan_lines_bound p V) as Bd. rewrite Forall_forall in Bd.
  assert (Tn : nosep nl (go_head p) = true)
    by (apply (prefix_nosep _ _ _ (go_head_prefix_line p)), clean_nosep_nl, C, Hgo).
  assert (Tf : fits lim (go_head p) = true)
    by (apply (prefix_fits _ _ _ (go_head_prefix_line p)), fits_bound; [exact L|apply Bd, Hgo]).
  unfold plan_head_bytes in HP.
  destruct (chunks_prefix lim _ _ _ (head_lines_ok lim p V L) Tn Tf HP x Hx) as [(b & Hb & [->|Hp])|Hp].
  - pose proof (head_lines_cnt p b V Hb). pose proof (cnt_strip (with_nl b)).
    assert (Hw : cnt (with_nl b) = cnt b).
    { unfold with_nl. rewrite cnt_app. change (cnt [nl]) with 0%nat. lia. }
    lia.
  - pose proof (head_lines_cnt p b V Hb). pose proof (cnt_strip x). pose proof (cnt_prefix _ _ Hp). lia.
  - pose proof (go_head_prefix_cnt p x Vt Hp). lia.
Qed.

(* A dialogue cut after any whole line from GO on is handled exactly as the
   shorter dialogue: set up, the host updates received so far, clean up. *)
Lemma forallb_firstn {A} (f : A -> bool) j l : forallb f l = true -> forallb f (firstn j l) = true.
Proof.
  revert j. induction l as [|a l IH]; intros [|j] H; try reflexivity.
  cbn [forallb firstn] in *. apply andb_true_iff in H. destruct H as [Ha Hl].
  rewrite Ha, (IH j Hl). reflexivity.
Qed.

Theorem cut_after_line lim p hs j :
  valid_plan p = true -> forallb host_ok hs = true ->
  limit_ok lim = true -> hosts_fit lim hs = true ->
  prefix (render_dialogue p (firstn j hs)) (render_dialogue p hs) /\
  helper_main lim (render_dialogue p (firstn j hs)) = (expected_events p (firstn j hs), ExReturn).
Proof.
  intros V Vh L F. split.
  - unfold render_dialogue, render_hosts. apply prefix_app_l.
    rewrite <- (firstn_skipn j hs) at 2. rewrite map_app, concat_app. apply prefix_app.
  - apply dialogue_roundtrip; try assumption; [apply forallb_firstn, Vh|apply forallb_firstn, F].
Qed.

(* ------------------------------------------------------------------ *)
(* corollaries used by Props/C13.v                                     *)

Theorem plan_roundtrip lim p : valid_plan p = true -> limit_ok lim = true ->
  parse_plan (chunks lim (render_plan p)) = POk (hplan_of p) [] /\
  helper_main lim (render_plan p) = (expected_events p [], ExReturn).
Proof.
  intros V L.
  pose proof (chunks_dialogue lim p [] V eq_refl L eq_refl) as C.
  pose proof (dialogue_roundtrip lim p [] V eq_refl L eq_refl) as R.
  unfold render_dialogue, render_hosts in *. cbn [map concat] in *. rewrite app_nil_r in *.
  split; [|exact R]. rewrite C. apply parse_plan_render, V.
Qed.

Lemma hosts_fit_asfound hs :
  forallb host_fits_asfound hs = true -> hosts_fit (Some READ_LIMIT_ASFOUND) hs = true.
Proof.
  intros H. unfold hosts_fit. apply (forallb_impl host_fits_asfound); [|exact H].
  intros h Hh. unfold host_fits_asfound in Hh. cbn [fits]. unfold READ_LIMIT_ASFOUND, host_line.
  unfold lenN in *. repeat (rewrite app_length || cbn [length]). lia.
Qed.

Lemma hosts_fit_none hs : hosts_fit None hs = true.
Proof. unfold hosts_fit. induction hs as [|h hs IH]; [reflexivity|]. cbn [forallb fits]. exact IH. Qed.

Theorem host_roundtrip_repaired p hs :
  valid_plan p = true -> forallb host_ok hs = true ->
  helper (render_dialogue p hs) = (expected_events p hs, ExReturn).
Proof. intros V H. exact (dialogue_roundtrip None p hs V H eq_refl (hosts_fit_none hs)). Qed.
