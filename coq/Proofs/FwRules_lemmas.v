(* Proofs/FwRules_lemmas.v — proofs for C03 (Model/FwRules.v, Model/FwWalk.v). *)
From Coq Require Import List NArith ZArith Ascii Bool Lia ZifyBool.
From SV Require Import Lib.Bytes Model.FwRules Model.FwWalk.
Import ListNotations.
Local Open Scope N_scope.

(* ================================================================ key order *)
Lemma key_leb_total a b : key_leb a b = true \/ key_leb b a = true.
Proof. unfold key_leb. lia. Qed.

Lemma key_leb_refl a : key_leb a a = true.
Proof. destruct (key_leb_total a a); assumption. Qed.

Lemma key_leb_trans a b c : key_leb a b = true -> key_leb b c = true -> key_leb a c = true.
Proof. unfold key_leb. intros. lia. Qed.

Lemma key_leb_antisym_excl a b :
  key_leb a b = true -> key_leb b a = true -> e_excl a = e_excl b.
Proof. unfold key_leb. intros. lia. Qed.

Lemma key_leb_false a b : key_leb a b = false -> key_leb b a = true.
Proof. intros H. destruct (key_leb_total a b) as [H'|H']; [congruence|assumption]. Qed.

(* the sort key of the code orders well-formed entries exactly as the property
   text does: narrower port range first, then longer prefix, exclusion wins *)
Lemma key_leb_spec a b : wf_entry a -> wf_entry b -> key_leb a b = spec_leb a b.
Proof.
  intros (Ha1 & Ha2 & Ha3 & Ha4) (Hb1 & Hb2 & Hb3 & Hb4).
  unfold key_leb, spec_leb, key_port, range_size.
  destruct (N.eqb_spec (e_fport a) 0) as [Ea|Ea]; destruct (N.eqb_spec (e_fport b) 0) as [Eb|Eb];
    try (rewrite (Ha4 Ea)); try (rewrite (Hb4 Eb)); clear Ha4 Hb4; lia.
Qed.

Lemma wf_entryb_ok e : wf_entryb e = true <-> wf_entry e.
Proof. unfold wf_entryb, wf_entry. split; intros H; [repeat split; lia | destruct H as (?&?&?&?); lia]. Qed.

(* ================================================================== sorting *)
Lemma insert_desc_In x s y : In y (insert_desc x s) <-> y = x \/ In y s.
Proof.
  induction s as [|z s IH]; simpl; [intuition|].
  destruct (key_leb z x); simpl; [intuition|]. rewrite IH. intuition.
Qed.
Lemma sort_desc_In l y : In y (sort_desc l) <-> In y l.
Proof.
  induction l as [|x l IH]; simpl; [tauto|]. rewrite insert_desc_In, IH. intuition.
Qed.
Lemma insert_asc_In x s y : In y (insert_asc x s) <-> y = x \/ In y s.
Proof.
  induction s as [|z s IH]; simpl; [intuition|].
  destruct (key_leb x z); simpl; [intuition|]. rewrite IH. intuition.
Qed.
Lemma sort_asc_In l y : In y (sort_asc l) <-> In y l.
Proof.
  induction l as [|x l IH]; simpl; [tauto|]. rewrite insert_asc_In, IH. intuition.
Qed.

(* descending: every element is >= everything after it *)
Fixpoint desc_sorted (l : list entry) : Prop :=
  match l with
  | [] => True
  | x :: r => (forall y, In y r -> key_leb y x = true) /\ desc_sorted r
  end.
Fixpoint asc_sorted (l : list entry) : Prop :=
  match l with
  | [] => True
  | x :: r => (forall y, In y r -> key_leb x y = true) /\ asc_sorted r
  end.

Lemma insert_desc_sorted x s : desc_sorted s -> desc_sorted (insert_desc x s).
Proof.
  induction s as [|z s IH]; simpl; [intuition|]. intros [Hz Hs].
  destruct (key_leb z x) eqn:E; simpl.
  - split; [|split; assumption].
    intros y [<-|Hy]; [assumption|]. eapply key_leb_trans; [apply Hz; exact Hy|exact E].
  - split; [|apply IH; exact Hs].
    intros y Hy. apply insert_desc_In in Hy. destruct Hy as [->|Hy]; [apply key_leb_false; exact E|apply Hz; exact Hy].
Qed.
Lemma sort_desc_sorted l : desc_sorted (sort_desc l).
Proof. induction l; simpl; [exact I|apply insert_desc_sorted; assumption]. Qed.

Lemma insert_asc_sorted x s : asc_sorted s -> asc_sorted (insert_asc x s).
Proof.
  induction s as [|z s IH]; simpl; [intuition|]. intros [Hz Hs].
  destruct (key_leb x z) eqn:E; simpl.
  - split; [|split; assumption].
    intros y [<-|Hy]; [assumption|]. eapply key_leb_trans; [exact E|apply Hz; exact Hy].
  - split; [|apply IH; exact Hs].
    intros y Hy. apply insert_asc_In in Hy. destruct Hy as [->|Hy]; [apply key_leb_false; exact E|apply Hz; exact Hy].
Qed.
Lemma sort_asc_sorted l : asc_sorted (sort_asc l).
Proof. induction l; simpl; [exact I|apply insert_asc_sorted; assumption]. Qed.

(* stability: the elements of any one key class come out in their original order *)
Definition key_eqb (k x : entry) : bool := key_leb k x && key_leb x k.

Lemma insert_desc_stable k x s :
  filter (key_eqb k) (insert_desc x s) = filter (key_eqb k) (x :: s).
Proof.
  induction s as [|z s IH]; [reflexivity|]. simpl insert_desc.
  destruct (key_leb z x) eqn:E; [reflexivity|].
  simpl filter at 1. rewrite IH. simpl.
  destruct (key_eqb k z) eqn:Ez, (key_eqb k x) eqn:Ex; try reflexivity.
  exfalso. unfold key_eqb in Ez, Ex.
  apply andb_true_iff in Ez, Ex. destruct Ez as [_ Ez], Ex as [Ex _].
  rewrite (key_leb_trans _ _ _ Ez Ex) in E. discriminate.
Qed.
Lemma sort_desc_stable k l : filter (key_eqb k) (sort_desc l) = filter (key_eqb k) l.
Proof.
  induction l as [|x l IH]; [reflexivity|]. simpl sort_desc.
  rewrite insert_desc_stable. simpl. rewrite IH. reflexivity.
Qed.
Lemma insert_asc_stable k x s :
  filter (key_eqb k) (insert_asc x s) = filter (key_eqb k) (x :: s).
Proof.
  induction s as [|z s IH]; [reflexivity|]. simpl insert_asc.
  destruct (key_leb x z) eqn:E; [reflexivity|].
  simpl filter at 1. rewrite IH. simpl.
  destruct (key_eqb k z) eqn:Ez, (key_eqb k x) eqn:Ex; try reflexivity.
  exfalso. unfold key_eqb in Ez, Ex.
  apply andb_true_iff in Ez, Ex. destruct Ez as [Ez _], Ex as [_ Ex].
  rewrite (key_leb_trans _ _ _ Ex Ez) in E. discriminate.
Qed.
Lemma sort_asc_stable k l : filter (key_eqb k) (sort_asc l) = filter (key_eqb k) l.
Proof.
  induction l as [|x l IH]; [reflexivity|]. simpl sort_asc.
  rewrite insert_asc_stable. simpl. rewrite IH. reflexivity.
Qed.

(* first match in a descending list = a matching element of maximal key *)
Lemma find_desc_max (f : entry -> bool) l e :
  desc_sorted l -> find f l = Some e ->
  In e l /\ f e = true /\ forall e', In e' l -> f e' = true -> key_leb e' e = true.
Proof.
  induction l as [|x l IH]; simpl; [discriminate|]. intros [Hx Hl].
  destruct (f x) eqn:Fx.
  - intros [= <-]. repeat split; auto.
    intros e' [<-|He'] _; [apply key_leb_refl|apply Hx; exact He'].
  - intros Hf. destruct (IH Hl Hf) as (Hin & Hfe & Hmax). repeat split; auto.
    intros e' [<-|He'] Fe'; [congruence|apply Hmax; assumption].
Qed.

(* last match *)
Definition find_last (f : entry -> bool) (l : list entry) : option entry := find f (rev l).

Lemma find_last_cons f x l :
  find_last f (x :: l) = match find_last f l with Some y => Some y | None => if f x then Some x else None end.
Proof.
  unfold find_last. simpl. generalize (rev l). intros r.
  induction r as [|z r IH]; simpl; [reflexivity|]. destruct (f z); [reflexivity|exact IH].
Qed.

Lemma find_last_none f l : find_last f l = None -> forall x, In x l -> f x = false.
Proof.
  unfold find_last. intros H x Hx. apply (find_none f (rev l) H). apply in_rev in Hx. exact Hx.
Qed.

Lemma find_asc_max (f : entry -> bool) l e :
  asc_sorted l -> find_last f l = Some e ->
  In e l /\ f e = true /\ forall e', In e' l -> f e' = true -> key_leb e' e = true.
Proof.
  induction l as [|x l IH]; [discriminate|]. intros [Hx Hl]. rewrite find_last_cons.
  destruct (find_last f l) as [y|] eqn:Fl.
  - intros [= <-]. destruct (IH Hl eq_refl) as (Hin & Hfe & Hmax). repeat split; auto; [right; exact Hin|].
    intros e' [<-|He'] Fe'; [apply Hx; exact Hin|apply Hmax; assumption].
  - destruct (f x) eqn:Fx; [|discriminate]. intros [= <-]. repeat split; auto; [left; reflexivity|].
    intros e' [<-|He'] Fe'; [apply key_leb_refl|]. rewrite (find_last_none f l Fl e' He') in Fe'. discriminate.
Qed.

(* ============================================== specification vs. maximal key *)
Lemma spec_interceptb_ok es p : spec_interceptb es p = true <-> spec_intercept es p.
Proof.
  unfold spec_interceptb, spec_intercept. rewrite existsb_exists. split.
  - intros (e & Hin & H). apply andb_true_iff in H. destruct H as [H Hall].
    apply andb_true_iff in H. destruct H as [Hm Hx]. apply negb_true_iff in Hx.
    exists e. repeat split; auto. intros e' Hin' Hm'.
    rewrite forallb_forall in Hall. specialize (Hall e' Hin'). rewrite Hm' in Hall. exact Hall.
  - intros (e & Hin & Hm & Hx & Hall). exists e. split; [exact Hin|].
    rewrite Hm, Hx. simpl. apply forallb_forall. intros e' Hin'.
    destruct (e_matches p e') eqn:Hm'; [simpl; apply Hall; assumption|reflexivity].
Qed.

Lemma spec_of_max es p (o : option entry) :
  Forall wf_entry es ->
  (forall e, o = Some e -> In e es /\ e_matches p e = true /\
             forall e', In e' es -> e_matches p e' = true -> key_leb e' e = true) ->
  (o = None -> forall e, In e es -> e_matches p e = false) ->
  spec_interceptb es p = match o with Some e => negb (e_excl e) | None => false end.
Proof.
  intros Hwf HS HN. rewrite Forall_forall in Hwf. destruct o as [e|].
  - destruct (HS e eq_refl) as (Hin & Hm & Hmax). destruct (e_excl e) eqn:Hx; simpl.
    + destruct (spec_interceptb es p) eqn:Hs; [|reflexivity]. exfalso.
      apply spec_interceptb_ok in Hs. destruct Hs as (e1 & Hin1 & Hm1 & Hx1 & Hall1).
      pose proof (Hall1 e Hin Hm) as H1. rewrite <- (key_leb_spec e e1 (Hwf _ Hin) (Hwf _ Hin1)) in H1.
      pose proof (Hmax e1 Hin1 Hm1) as H2.
      pose proof (key_leb_antisym_excl _ _ H1 H2) as H3. congruence.
    + apply spec_interceptb_ok. exists e. repeat split; auto. intros e' Hin' Hm'.
      rewrite <- (key_leb_spec e' e (Hwf _ Hin') (Hwf _ Hin)). apply Hmax; assumption.
  - destruct (spec_interceptb es p) eqn:Hs; [|reflexivity]. exfalso.
    apply spec_interceptb_ok in Hs. destruct Hs as (e1 & Hin1 & Hm1 & _).
    rewrite (HN eq_refl e1 Hin1) in Hm1. discriminate.
Qed.

Lemma e_matches_fam p e : e_matches p e = true -> fam_eqb (e_fam e) (p_fam p) = true.
Proof. unfold e_matches. intros H. apply andb_true_iff in H. destruct H as [H _]. apply andb_true_iff in H. tauto. Qed.

Definition fam_entries (f : family) (es : list entry) : list entry :=
  filter (fun e => fam_eqb (e_fam e) f) es.

(* the first match in the descending list decides as the specification does *)
Lemma first_match_desc_spec es p :
  Forall wf_entry es ->
  spec_interceptb es p =
  match find (e_matches p) (sort_desc (fam_entries (p_fam p) es)) with
  | Some e => negb (e_excl e) | None => false end.
Proof.
  intros Hwf. apply spec_of_max; [exact Hwf| |].
  - intros e He. destruct (find_desc_max _ _ _ (sort_desc_sorted _) He) as (Hin & Hm & Hmax).
    apply (proj1 (sort_desc_In _ _)) in Hin. apply (proj1 (filter_In _ _ _)) in Hin. repeat split; [tauto|exact Hm|].
    intros e' Hin' Hm'. apply Hmax; [|exact Hm']. apply (proj2 (sort_desc_In _ _)). apply (proj2 (filter_In _ _ _)).
    split; [exact Hin'|apply e_matches_fam; exact Hm'].
  - intros He e Hin. destruct (e_matches p e) eqn:Hm; [|reflexivity]. exfalso.
    assert (Hin' : In e (sort_desc (fam_entries (p_fam p) es))).
    { apply (proj2 (sort_desc_In _ _)). apply (proj2 (filter_In _ _ _)). split; [exact Hin|apply e_matches_fam; exact Hm]. }
    rewrite (find_none _ _ He e Hin') in Hm. discriminate.
Qed.

(* ... and so does the last match in the ascending list (pf) *)
Lemma last_match_asc_spec es p :
  Forall wf_entry es ->
  spec_interceptb es p =
  match find_last (e_matches p) (sort_asc (fam_entries (p_fam p) es)) with
  | Some e => negb (e_excl e) | None => false end.
Proof.
  intros Hwf. apply spec_of_max; [exact Hwf| |].
  - intros e He. destruct (find_asc_max _ _ _ (sort_asc_sorted _) He) as (Hin & Hm & Hmax).
    apply (proj1 (sort_asc_In _ _)) in Hin. apply (proj1 (filter_In _ _ _)) in Hin. repeat split; [tauto|exact Hm|].
    intros e' Hin' Hm'. apply Hmax; [|exact Hm']. apply (proj2 (sort_asc_In _ _)). apply (proj2 (filter_In _ _ _)).
    split; [exact Hin'|apply e_matches_fam; exact Hm'].
  - intros He e Hin. destruct (e_matches p e) eqn:Hm; [|reflexivity]. exfalso.
    assert (Hin' : In e (sort_asc (fam_entries (p_fam p) es))).
    { apply (proj2 (sort_asc_In _ _)). apply (proj2 (filter_In _ _ _)). split; [exact Hin|apply e_matches_fam; exact Hm]. }
    rewrite (find_last_none _ _ He e Hin') in Hm. discriminate.
Qed.

(* ================================================================ chain walk *)
Lemma walk_nil d env p m : walk d env p [] m = OFall m.
Proof. destruct d; reflexivity. Qed.

Lemma walk_cons d env p r rs m :
  walk d env p (r :: rs) m =
  if rule_matches p m r then
    match sr_tgt r with
    | TReturn => OFall m
    | TAccept => OAccept m
    | TRedirect port => ORedirect port
    | TTproxy mk port => OTproxy mk port
    | TSetMark m' => walk d env p rs m'
    | TNone => walk d env p rs m
    | TJump c =>
        match d with
        | O => OFuel
        | S d' => match walk d' env p (env c) m with
                  | OFall m' => walk d env p rs m'
                  | o => o
                  end
        end
    end
  else walk d env p rs m.
Proof. destruct d; reflexivity. Qed.

Lemma walk_app_nomatch d env p l1 l2 m :
  (forall r, In r l1 -> rule_matches p m r = false) ->
  walk d env p (l1 ++ l2) m = walk d env p l2 m.
Proof.
  induction l1 as [|r l1 IH]; simpl; intros H; [reflexivity|].
  rewrite walk_cons, (H r (or_introl eq_refl)). apply IH. intros r' Hr'. apply H. right. exact Hr'.
Qed.

(* first match over a list of entries, each of which contributes a block of
   rules R e that (in front of any continuation) either decides or is skipped *)
Lemma walk_entries_first d env p (R : entry -> list srule) (D : outcome) es k m :
  (forall e k', In e es ->
     walk d env p (R e ++ k') m =
     if e_matches p e then (if e_excl e then OFall m else D) else walk d env p k' m) ->
  walk d env p (flat_map R es ++ k) m =
  match find (e_matches p) es with
  | Some e => if e_excl e then OFall m else D
  | None => walk d env p k m
  end.
Proof.
  induction es as [|e es IH]; intros H; simpl; [reflexivity|].
  rewrite <- app_assoc, (H e _ (or_introl eq_refl)).
  destruct (e_matches p e); [reflexivity|]. apply IH. intros e' k' He'. apply H. right. exact He'.
Qed.

Lemma map_flat_map {A B} (f : A -> B) l : map f l = flat_map (fun x => [f x]) l.
Proof. induction l; simpl; congruence. Qed.

(* ============================================ commands -> content of a chain *)
Lemma rules_of_app a b t c acc :
  rules_of (a ++ b) t c acc = rules_of b t c (rules_of a t c acc).
Proof.
  revert acc. induction a as [|x a IH]; intros acc; [reflexivity|].
  destruct x; simpl; apply IH.
Qed.

Lemma rules_of_flat_map {A} (F : A -> list ipt_cmd) (G : A -> list (list ipt_item)) l t c :
  (forall x acc, rules_of (F x) t c acc = acc ++ G x) ->
  forall acc, rules_of (flat_map F l) t c acc = acc ++ flat_map G l.
Proof.
  intros H. induction l as [|x l IH]; intros acc; simpl; [rewrite app_nil_r; reflexivity|].
  rewrite rules_of_app, H, IH, app_assoc. reflexivity.
Qed.

Lemma rules_of_map_same {A} (f : A -> list ipt_item) l t c acc :
  rules_of (map (fun x => CApp t c (f x)) l) t c acc = acc ++ map f l.
Proof.
  rewrite map_flat_map, (map_flat_map f).
  apply (rules_of_flat_map (fun x => [CApp t c (f x)]) (fun x => [f x])).
  intros x acc'. simpl. unfold tc_eqb. destruct t, c; reflexivity.
Qed.

Lemma rules_of_map_other {A} (f : A -> list ipt_item) l t c t' c' acc :
  tc_eqb t c t' c' = false ->
  rules_of (map (fun x => CApp t' c' (f x)) l) t c acc = acc.
Proof.
  intros H. revert acc. induction l as [|x l IH]; intros acc; simpl; [reflexivity|]. rewrite H. apply IH.
Qed.


(* ======================================================================= nat *)
Local Opaque dec.
Arguments N.eqb : simpl never.
Arguments N.leb : simpl never.
Arguments N.shiftr : simpl never.

Lemma fam_eqb_eq a b : fam_eqb a b = true <-> a = b.
Proof. destruct a, b; simpl; split; congruence. Qed.
Lemma proto_eqb_eq a b : proto_eqb a b = true <-> a = b.
Proof. destruct a, b; simpl; split; congruence. Qed.

Lemma existsb_filter {A} (g h : A -> bool) l :
  existsb g (filter h l) = existsb (fun x => h x && g x) l.
Proof. induction l as [|x l IH]; simpl; [reflexivity|]. destruct (h x); simpl; rewrite IH; reflexivity. Qed.

Lemma ns_hit_of pl p :
  ns_hit pl p = existsb (fun n => p_dst p =? ns_addr n) (ns_of pl (p_fam p)).
Proof. unfold ns_hit, ns_of. rewrite existsb_filter. reflexivity. Qed.

Lemma inactive_nil pl f : fam_active pl f = false -> entries_of pl f = [] /\ ns_of pl f = [].
Proof. unfold fam_active. destruct (entries_of pl f), (ns_of pl f); intros; try discriminate; auto. Qed.

Lemma entries_of_fam pl f e : In e (sort_desc (entries_of pl f)) -> e_fam e = f.
Proof.
  intros H. apply (proj1 (sort_desc_In _ _)) in H. apply (proj1 (filter_In _ _ _)) in H.
  apply fam_eqb_eq. tauto.
Qed.

Definition nat_main (pl : plan) (f : family) : list (list ipt_item) :=
  map (nat_dns_rule (dns_of pl f)) (ns_of pl f)
  ++ map (nat_sub_rule (port_of pl f)) (sort_desc (entries_of pl f))
  ++ [local_return].
Definition nat_jump (pl : plan) (f : family) : list ipt_item :=
  if has_owner pl then [IMMark; IMarkEq (dec (port_of pl f)) (port_of pl f); IJ (JChain CMain)]
  else [IJ (JChain CMain)].

Lemma nat_setup_main pl f : rules_of (nat_setup pl f) TNat CMain [] = nat_main pl f.
Proof.
  unfold nat_setup, nat_main. cbn [app rules_of tc_eqb table_eqb chain_eqb andb].
  rewrite rules_of_app. destruct (has_owner pl); cbn [app rules_of tc_eqb table_eqb chain_eqb andb];
  rewrite rules_of_app, rules_of_map_same, rules_of_app, rules_of_map_same;
  cbn [app rules_of tc_eqb table_eqb chain_eqb andb]; rewrite <- app_assoc; reflexivity.
Qed.
Lemma nat_setup_hook pl f c : c = OUTPUT \/ c = PREROUTING ->
  rules_of (nat_setup pl f) TNat c [] = [nat_jump pl f].
Proof.
  intros Hc. unfold nat_setup, nat_jump.
  assert (E1 : tc_eqb TNat c TNat CMain = false) by (destruct Hc; subst; reflexivity).
  cbn [app rules_of]. rewrite !E1. rewrite rules_of_app.
  destruct (has_owner pl), Hc; subst; cbn [app rules_of tc_eqb table_eqb chain_eqb andb];
  rewrite rules_of_app, rules_of_map_other, rules_of_app, rules_of_map_other by reflexivity; reflexivity.
Qed.
Lemma nat_setup_mangle pl f :
  rules_of (nat_setup pl f) TMangle OUTPUT [] =
  if has_owner pl then [owner_items pl ++ [IJ JMark; ISetMark (dec (port_of pl f)) (port_of pl f)]] else [].
Proof.
  unfold nat_setup. cbn [app rules_of tc_eqb table_eqb chain_eqb andb]. rewrite rules_of_app.
  destruct (has_owner pl); cbn [app rules_of tc_eqb table_eqb chain_eqb andb];
  rewrite rules_of_app, rules_of_map_other, rules_of_app, rules_of_map_other by reflexivity; reflexivity.
Qed.

(* a subnet rule matches a TCP packet of its family iff the entry does *)
Lemma nat_sub_rule_sem port e p m :
  e_fam e = p_fam p -> p_proto p = Tcp ->
  rule_matches p m (sem_ipt (nat_sub_rule port e)) = e_matches p e /\
  sr_tgt (sem_ipt (nat_sub_rule port e)) = if e_excl e then TReturn else TRedirect port.
Proof.
  intros Hf Hp. unfold nat_sub_rule, ports_items, e_matches, rule_matches.
  rewrite Hf, (proj2 (fam_eqb_eq _ _) eq_refl).
  destruct (e_excl e); destruct (N.eqb_spec (e_fport e) 0) as [E|E]; cbn; rewrite Hp; cbn;
    rewrite ?andb_true_r; split; reflexivity.
Qed.

Lemma nat_dns_rule_sem d n p m :
  rule_matches p m (sem_ipt (nat_dns_rule d n)) =
  (p_dst p =? ns_addr n) && (proto_eqb (p_proto p) Udp && ((p_dport p =? 53))) /\
  sr_tgt (sem_ipt (nat_dns_rule d n)) = TRedirect d.
Proof.
  unfold nat_dns_rule, rule_matches. cbn. split; [|reflexivity].
  rewrite andb_true_r. f_equal. f_equal. lia.
Qed.

Lemma local_rule_walk d env p k m :
  k = [] -> walk d env p (sem_ipt local_return :: k) m = OFall m.
Proof. intros ->. rewrite walk_cons. cbn. destruct (p_dst_local p); cbn; [reflexivity|apply walk_nil]. Qed.

Lemma nat_main_walk_tcp d env pl p m :
  p_proto p = Tcp ->
  walk d env p (map sem_ipt (nat_main pl (p_fam p))) m =
  match find (e_matches p) (sort_desc (entries_of pl (p_fam p))) with
  | Some e => if e_excl e then OFall m else ORedirect (port_of pl (p_fam p))
  | None => OFall m
  end.
Proof.
  intros Hp. unfold nat_main. rewrite !map_app, !map_map.
  rewrite walk_app_nomatch.
  2:{ intros r Hr. apply in_map_iff in Hr. destruct Hr as (n & <- & _).
      rewrite (proj1 (nat_dns_rule_sem _ _ _ _)), Hp. cbn. apply andb_false_r. }
  rewrite (map_flat_map (fun x => sem_ipt (nat_sub_rule _ x))).
  rewrite (walk_entries_first d env p _ (ORedirect (port_of pl (p_fam p)))).
  - destruct (find _ _); [reflexivity|]. apply local_rule_walk. reflexivity.
  - intros e k' He. cbn [app]. rewrite walk_cons.
    destruct (nat_sub_rule_sem (port_of pl (p_fam p)) e p m (entries_of_fam _ _ _ He) Hp) as [-> ->].
    destruct (e_matches p e); [|reflexivity]. destruct (e_excl e); reflexivity.
Qed.

Lemma nat_main_walk_udp d env pl p m :
  p_proto p = Udp ->
  walk d env p (map sem_ipt (nat_main pl (p_fam p))) m =
  if (p_dport p =? 53) && ns_hit pl p then ORedirect (dns_of pl (p_fam p)) else OFall m.
Proof.
  intros Hp. unfold nat_main. rewrite ns_hit_of. generalize (ns_of pl (p_fam p)). intros nss.
  induction nss as [|n nss IH].
  - cbn [map app existsb]. rewrite andb_false_r. rewrite map_app, walk_app_nomatch.
    + apply local_rule_walk. reflexivity.
    + intros r Hr. rewrite map_map in Hr. apply in_map_iff in Hr. destruct Hr as (e & <- & _).
      unfold nat_sub_rule, ports_items, rule_matches.
      destruct (e_excl e); destruct (N.eqb_spec (e_fport e) 0); cbn; rewrite Hp; cbn; rewrite ?andb_false_r; reflexivity.
  - cbn [map app existsb]. rewrite walk_cons.
    destruct (nat_dns_rule_sem (dns_of pl (p_fam p)) n p m) as [-> ->]. rewrite Hp. cbn [proto_eqb andb].
    destruct (p_dst p =? ns_addr n); cbn [andb orb].
    + destruct (p_dport p =? 53); cbn [andb]; [reflexivity|]. rewrite IH. reflexivity.
    + exact IH.
Qed.

(* hook level: mangle/OUTPUT (owner mark) -> nat/OUTPUT, or nat/PREROUTING *)
Definition hit_outcome (hit : option N) (m : N) : outcome :=
  match hit with Some q => ORedirect q | None => OFall m end.

Lemma nat_jump_walk pl f p env hit :
  (forall m, walk 2 env p (env CMain) m = hit_outcome hit m) ->
  forall m, walk 3 env p [sem_ipt (nat_jump pl f)] m =
            if has_owner pl && negb (m =? port_of pl f) then OFall m else hit_outcome hit m.
Proof.
  intros Hmain m. unfold nat_jump. destruct (has_owner pl); rewrite walk_cons; cbn.
  - destruct (m =? port_of pl f); cbn; rewrite ?walk_nil; [|reflexivity].
    rewrite Hmain. destruct hit; cbn; rewrite ?walk_nil; reflexivity.
  - rewrite Hmain. destruct hit; cbn; rewrite ?walk_nil; reflexivity.
Qed.

Lemma owner_rule_walk pl f p d env :
  has_owner pl = true -> p_origin p = Local ->
  walk d env p [sem_ipt (owner_items pl ++ [IJ JMark; ISetMark (dec (port_of pl f)) (port_of pl f)])] 0 =
  OFall (if opt_okb (pl_user pl) (p_uid p) && opt_okb (pl_group pl) (p_gid p) then port_of pl f else 0).
Proof.
  intros Ho Hl. unfold has_owner in Ho. unfold owner_items. rewrite walk_cons.
  destruct (pl_user pl) as [u|], (pl_group pl) as [g|]; try discriminate; cbn;
    unfold is_local_origin; rewrite Hl; cbn; rewrite ?andb_true_r;
    repeat match goal with |- context [N.eqb ?a ?b] => destruct (N.eqb a b) end; cbn; rewrite ?walk_nil; reflexivity.
Qed.

Lemma nat_verdict_shape pl p hit :
  let f := p_fam p in
  port_of pl f <> 0 ->
  (forall env m, env CMain = ipt_env (nat_setup pl f) TNat CMain ->
                 walk 2 env p (env CMain) m = hit_outcome hit m) ->
  nat_verdict_of (nat_setup pl f) p =
  match hit with
  | Some q => if nat_owner_okb pl p then Divert q else Untouched
  | None => Untouched
  end.
Proof.
  intros f Hport Hmain. unfold nat_verdict_of, DEPTH. cbv zeta.
  assert (HJ := nat_jump_walk pl f p (ipt_env (nat_setup pl f) TNat) hit (fun m => Hmain _ m eq_refl)).
  assert (EO : ipt_env (nat_setup pl f) TNat OUTPUT = [sem_ipt (nat_jump pl f)])
    by (unfold ipt_env; rewrite nat_setup_hook by auto; reflexivity).
  assert (EP : ipt_env (nat_setup pl f) TNat PREROUTING = [sem_ipt (nat_jump pl f)])
    by (unfold ipt_env; rewrite nat_setup_hook by auto; reflexivity).
  assert (EM : ipt_env (nat_setup pl f) TMangle OUTPUT =
               map sem_ipt (if has_owner pl then [owner_items pl ++ [IJ JMark; ISetMark (dec (port_of pl f)) (port_of pl f)]] else []))
    by (unfold ipt_env; rewrite nat_setup_mangle; reflexivity).
  rewrite EO, EP, EM. clear EO EP EM.
  unfold nat_owner_okb, is_local_origin.
  destruct (p_origin p) eqn:Ho.
  - destruct (has_owner pl) eqn:Hown.
    + cbn [map]. rewrite (owner_rule_walk pl f p 3 _ Hown Ho). rewrite HJ. cbn [andb].
      destruct (opt_okb (pl_user pl) (p_uid p) && opt_okb (pl_group pl) (p_gid p)).
      * rewrite N.eqb_refl. cbn. destruct hit; reflexivity.
      * destruct (N.eqb_spec 0 (port_of pl f)) as [E|E]; [congruence|]. cbn. destruct hit; reflexivity.
    + cbn [map]. rewrite walk_nil, HJ. cbn. destruct hit; reflexivity.
  - rewrite HJ. destruct (has_owner pl); cbn.
    + destruct (N.eqb_spec 0 (port_of pl f)) as [E|E]; [congruence|]. cbn. destruct hit; reflexivity.
    + destruct hit; reflexivity.
Qed.

Lemma wf_port pl f : wf_plan pl -> fam_active pl f = true -> port_of pl f <> 0.
Proof. intros (_ & H4 & H6 & _) A. destruct f; [apply H4|apply H6]; exact A. Qed.

Lemma nat_verdict_of_nil p : nat_verdict_of [] p = Untouched.
Proof. unfold nat_verdict_of, ipt_env. cbn. destruct (p_origin p); rewrite ?walk_nil; cbn; rewrite ?walk_nil; reflexivity. Qed.

Lemma inactive_spec pl p : fam_active pl (p_fam p) = false ->
  Forall wf_entry (pl_entries pl) -> spec_interceptb (pl_entries pl) p = false /\ ns_hit pl p = false.
Proof.
  intros A Hwf. destruct (inactive_nil _ _ A) as [He Hn]. split.
  - rewrite (first_match_desc_spec _ _ Hwf). unfold entries_of in He. unfold fam_entries. rewrite He. reflexivity.
  - rewrite ns_hit_of, Hn. reflexivity.
Qed.

Theorem nat_tcp_eq pl p :
  wf_plan pl -> p_proto p = Tcp ->
  nat_verdict pl p =
  if spec_interceptb (pl_entries pl) p && nat_owner_okb pl p
  then Divert (port_of pl (p_fam p)) else Untouched.
Proof.
  intros Hwf Hp. unfold nat_verdict, nat_cmds. destruct (fam_active pl (p_fam p)) eqn:A.
  - rewrite (nat_verdict_shape pl p
       (match find (e_matches p) (sort_desc (entries_of pl (p_fam p))) with
        | Some e => if e_excl e then None else Some (port_of pl (p_fam p)) | None => None end)).
    + rewrite (first_match_desc_spec _ _ (proj1 Hwf)). unfold entries_of, fam_entries.
      destruct (find _ _) as [e|]; [destruct (e_excl e)|]; reflexivity.
    + apply wf_port; assumption.
    + intros env m Henv. rewrite Henv. unfold ipt_env. rewrite nat_setup_main, nat_main_walk_tcp by exact Hp.
      destruct (find _ _) as [e|]; [destruct (e_excl e)|]; reflexivity.
  - rewrite nat_verdict_of_nil. destruct (inactive_spec pl p A (proj1 Hwf)) as [-> _]. reflexivity.
Qed.

Theorem nat_udp_eq pl p :
  wf_plan pl -> p_proto p = Udp ->
  nat_verdict pl p =
  if (p_dport p =? 53) && ns_hit pl p && nat_owner_okb pl p
  then Divert (dns_of pl (p_fam p)) else Untouched.
Proof.
  intros Hwf Hp. unfold nat_verdict, nat_cmds. destruct (fam_active pl (p_fam p)) eqn:A.
  - rewrite (nat_verdict_shape pl p
       (if (p_dport p =? 53) && ns_hit pl p then Some (dns_of pl (p_fam p)) else None)).
    + destruct ((p_dport p =? 53) && ns_hit pl p); reflexivity.
    + apply wf_port; assumption.
    + intros env m Henv. rewrite Henv. unfold ipt_env. rewrite nat_setup_main, nat_main_walk_udp by exact Hp.
      destruct ((p_dport p =? 53) && ns_hit pl p); reflexivity.
  - rewrite nat_verdict_of_nil. destruct (inactive_spec pl p A (proj1 Hwf)) as [_ ->]. rewrite andb_false_r. reflexivity.
Qed.

(* ======================================================================= nft *)
Lemma nft_chain_of_app a b acc : nft_chain_of (a ++ b) acc = nft_chain_of b (nft_chain_of a acc).
Proof. revert acc. induction a as [|x a IH]; intros acc; [reflexivity|]. destruct x; simpl; apply IH. Qed.
Lemma nft_chain_of_map {A} (g : A -> list nft_item) l acc :
  nft_chain_of (map (fun x => NAddRule (g x)) l) acc = acc ++ map g l.
Proof.
  revert acc. induction l as [|x l IH]; intros acc; simpl; [rewrite app_nil_r; reflexivity|].
  rewrite IH, <- app_assoc. reflexivity.
Qed.
Lemma nft_jumps_app a b h : nft_jumps (a ++ b) h = (nft_jumps a h + nft_jumps b h)%nat.
Proof. induction a as [|x a IH]; [reflexivity|]. destruct x; simpl; try exact IH. destruct (nft_hook_eqb h h0); simpl; rewrite IH; reflexivity. Qed.
Lemma nft_jumps_map {A} (g : A -> list nft_item) l h : nft_jumps (map (fun x => NAddRule (g x)) l) h = O.
Proof. induction l; simpl; auto. Qed.

Definition nft_body (pl : plan) (f : family) : list (list nft_item) :=
  [NFamNe f; NRet] :: map (nft_dns_rule f (dns_of pl f)) (ns_of pl f)
  ++ [NFibLocalRet] :: map (nft_sub_rule f (port_of pl f)) (sort_desc (entries_of pl f)).

Lemma nft_setup_body pl f : nft_chain_of (nft_setup pl f) [] = nft_body pl f.
Proof.
  unfold nft_setup, nft_body. cbn [app nft_chain_of].
  rewrite nft_chain_of_app, nft_chain_of_map. cbn [app nft_chain_of].
  rewrite nft_chain_of_map. cbn [app]. rewrite <- app_assoc. reflexivity.
Qed.
Lemma nft_setup_jumps pl f h : nft_jumps (nft_setup pl f) h = 1%nat.
Proof.
  unfold nft_setup. cbn [app nft_jumps]. rewrite nft_jumps_app, nft_jumps_map. cbn [nft_jumps].
  rewrite nft_jumps_map. destruct h; reflexivity.
Qed.

Lemma nft_sub_rule_sem f port e p m :
  e_fam e = f -> p_fam p = f -> p_proto p = Tcp ->
  rule_matches p m (sem_nft (nft_sub_rule f port e)) = e_matches p e /\
  sr_tgt (sem_nft (nft_sub_rule f port e)) = if e_excl e then TReturn else TRedirect port.
Proof.
  intros Hf Hpf Hp. unfold nft_sub_rule, nft_ports, e_matches, rule_matches.
  rewrite Hf, Hpf, (proj2 (fam_eqb_eq _ _) eq_refl).
  destruct (N.eqb_spec (e_fport e) 0) as [E|E]; [|destruct (N.eqb_spec (e_fport e) (e_lport e)) as [E2|E2]];
    destruct (e_excl e); cbn; rewrite Hp, Hpf, (proj2 (fam_eqb_eq _ _) eq_refl); cbn;
    rewrite ?andb_true_r, <- ?E2; split; try reflexivity; rewrite andb_comm; reflexivity.
Qed.

Lemma nft_dns_rule_sem f d n p m :
  p_fam p = f ->
  rule_matches p m (sem_nft (nft_dns_rule f d n)) =
  (p_dst p =? ns_addr n) && (proto_eqb (p_proto p) Udp && (p_dport p =? 53)) /\
  sr_tgt (sem_nft (nft_dns_rule f d n)) = TRedirect d.
Proof.
  intros Hpf. unfold nft_dns_rule, rule_matches. cbn. rewrite Hpf, (proj2 (fam_eqb_eq _ _) eq_refl). cbn.
  split; [|reflexivity]. rewrite andb_true_r. f_equal. f_equal. lia.
Qed.

(* the regular chain, entered with mark 0 *)
Lemma nft_body_walk_other d env pl f p :
  p_fam p <> f -> walk d env p (map sem_nft (nft_body pl f)) 0 = OFall 0.
Proof.
  intros Hne. unfold nft_body. cbn [map]. rewrite walk_cons. cbn.
  destruct (fam_eqb (p_fam p) f) eqn:E; [apply fam_eqb_eq in E; contradiction|reflexivity].
Qed.

Lemma nft_body_walk_tcp d env pl p :
  p_proto p = Tcp ->
  walk d env p (map sem_nft (nft_body pl (p_fam p))) 0 =
  if p_dst_local p then OFall 0 else
  match find (e_matches p) (sort_desc (entries_of pl (p_fam p))) with
  | Some e => if e_excl e then OFall 0 else ORedirect (port_of pl (p_fam p))
  | None => OFall 0
  end.
Proof.
  intros Hp. unfold nft_body. cbn [map]. rewrite walk_cons. cbn.
  rewrite (proj2 (fam_eqb_eq _ _) eq_refl). cbn. rewrite map_app, map_map, walk_app_nomatch.
  2:{ intros r Hr. apply in_map_iff in Hr. destruct Hr as (n & <- & _).
      rewrite (proj1 (nft_dns_rule_sem _ _ _ _ _ eq_refl)), Hp. cbn. apply andb_false_r. }
  cbn [map]. rewrite walk_cons. cbn. destruct (p_dst_local p); cbn; [reflexivity|].
  rewrite map_map, (map_flat_map (fun x => sem_nft (nft_sub_rule _ _ x))).
  rewrite <- (app_nil_r (flat_map _ _)).
  rewrite (walk_entries_first d env p _ (ORedirect (port_of pl (p_fam p)))).
  - destruct (find _ _); [reflexivity|apply walk_nil].
  - intros e k' He. cbn [app]. rewrite walk_cons.
    destruct (nft_sub_rule_sem (p_fam p) (port_of pl (p_fam p)) e p 0 (entries_of_fam _ _ _ He) eq_refl Hp) as [-> ->].
    destruct (e_matches p e); [|reflexivity]. destruct (e_excl e); reflexivity.
Qed.

Lemma nft_body_walk_udp d env pl p :
  p_proto p = Udp ->
  walk d env p (map sem_nft (nft_body pl (p_fam p))) 0 =
  if (p_dport p =? 53) && ns_hit pl p then ORedirect (dns_of pl (p_fam p)) else OFall 0.
Proof.
  intros Hp. unfold nft_body. cbn [map]. rewrite walk_cons. cbn.
  rewrite (proj2 (fam_eqb_eq _ _) eq_refl). cbn. rewrite ns_hit_of.
  generalize (ns_of pl (p_fam p)). intros nss. induction nss as [|n nss IH].
  - cbn [map app existsb]. rewrite andb_false_r, walk_cons. cbn.
    destruct (p_dst_local p); cbn; [reflexivity|].
    rewrite <- (app_nil_r (map _ _)), walk_app_nomatch; [apply walk_nil|].
    intros r Hr. rewrite map_map in Hr. apply in_map_iff in Hr. destruct Hr as (e & <- & _).
    unfold nft_sub_rule, nft_ports, rule_matches.
    destruct (N.eqb_spec (e_fport e) 0); [|destruct (N.eqb_spec (e_fport e) (e_lport e))];
      destruct (e_excl e); cbn; rewrite Hp; cbn; rewrite ?andb_false_r; reflexivity.
  - cbn [map app existsb]. rewrite walk_cons.
    destruct (nft_dns_rule_sem (p_fam p) (dns_of pl (p_fam p)) n p 0 eq_refl) as [-> ->]. rewrite Hp. cbn [proto_eqb andb].
    destruct (p_dst p =? ns_addr n); cbn [andb orb].
    + destruct (p_dport p =? 53); cbn [andb]; [reflexivity|]. rewrite IH. reflexivity.
    + exact IH.
Qed.

(* one table *)
Lemma nft_table_outcome_setup pl f p :
  nft_table_outcome (nft_setup pl f) p =
  walk 2 (fun c => match c with CMain => map sem_nft (nft_body pl f) | _ => [] end) p
       (map sem_nft (nft_body pl f)) 0.
Proof.
  unfold nft_table_outcome, DEPTH. rewrite nft_setup_jumps, nft_setup_body. cbn [repeat].
  rewrite walk_cons. cbn.
  match goal with |- match ?X with _ => _ end = _ => destruct X; reflexivity end.
Qed.
Lemma nft_table_outcome_nil p : nft_table_outcome [] p = OFall 0.
Proof. unfold nft_table_outcome. destruct (p_origin p); reflexivity. Qed.

Lemma nft_table_other pl f p : p_fam p <> f -> nft_table_outcome (nft_cmds pl f) p = OFall 0.
Proof.
  intros Hne. unfold nft_cmds. destruct (fam_active pl f); [|apply nft_table_outcome_nil].
  rewrite nft_table_outcome_setup. apply nft_body_walk_other. exact Hne.
Qed.

Lemma nft_verdict_own pl p :
  nft_verdict pl p =
  match nft_table_outcome (nft_cmds pl (p_fam p)) p with
  | ORedirect port => Divert port | OFuel => Stuck | _ => Untouched end.
Proof.
  unfold nft_verdict, nft_verdict_of. destruct (p_fam p) eqn:Hf.
  - rewrite (nft_table_other pl V6 p) by congruence. unfold nat_result. reflexivity.
  - rewrite (nft_table_other pl V4 p) by congruence.
    destruct (nft_table_outcome (nft_cmds pl V6) p); reflexivity.
Qed.

Theorem nft_tcp_eq pl p :
  wf_plan pl -> p_proto p = Tcp -> p_dst_local p = false ->
  nft_verdict pl p =
  if spec_interceptb (pl_entries pl) p then Divert (port_of pl (p_fam p)) else Untouched.
Proof.
  intros Hwf Hp Hl. rewrite nft_verdict_own. unfold nft_cmds.
  destruct (fam_active pl (p_fam p)) eqn:A.
  - rewrite nft_table_outcome_setup, nft_body_walk_tcp, Hl by exact Hp.
    rewrite (first_match_desc_spec _ _ (proj1 Hwf)). unfold entries_of, fam_entries.
    destruct (find _ _) as [e|]; [destruct (e_excl e)|]; reflexivity.
  - rewrite nft_table_outcome_nil. destruct (inactive_spec pl p A (proj1 Hwf)) as [-> _]. reflexivity.
Qed.

(* TCP to a local address is never diverted by nft (the fib rule precedes the subnets) *)
Theorem nft_tcp_local pl p :
  p_proto p = Tcp -> p_dst_local p = true -> nft_verdict pl p = Untouched.
Proof.
  intros Hp Hl. rewrite nft_verdict_own. unfold nft_cmds.
  destruct (fam_active pl (p_fam p)); [|rewrite nft_table_outcome_nil; reflexivity].
  rewrite nft_table_outcome_setup, nft_body_walk_tcp, Hl by exact Hp. reflexivity.
Qed.

Theorem nft_udp_eq pl p :
  wf_plan pl -> p_proto p = Udp ->
  nft_verdict pl p =
  if (p_dport p =? 53) && ns_hit pl p then Divert (dns_of pl (p_fam p)) else Untouched.
Proof.
  intros Hwf Hp. rewrite nft_verdict_own. unfold nft_cmds.
  destruct (fam_active pl (p_fam p)) eqn:A.
  - rewrite nft_table_outcome_setup, nft_body_walk_udp by exact Hp.
    destruct ((p_dport p =? 53) && ns_hit pl p); reflexivity.
  - rewrite nft_table_outcome_nil. destruct (inactive_spec pl p A (proj1 Hwf)) as [_ ->].
    rewrite andb_false_r. reflexivity.
Qed.

(* ================================================= glue used by Props/C03.v *)
Lemma verdict_iff (b : bool) (P : Prop) (v : verdict) (port : N) :
  (b = true <-> P) -> v = (if b then Divert port else Untouched) ->
  (v = Divert port <-> P) /\ (v = Divert port \/ v = Untouched).
Proof.
  intros HbP ->. destruct b.
  - split; [|left; reflexivity]. split; [intros _; apply HbP; reflexivity|reflexivity].
  - split; [|right; reflexivity]. split; [discriminate|]. intros HP. apply HbP in HP. discriminate.
Qed.

Lemma ns_hit_ok pl p :
  ns_hit pl p = true <-> exists n, In n (pl_ns pl) /\ ns_fam n = p_fam p /\ ns_addr n = p_dst p.
Proof.
  unfold ns_hit. rewrite existsb_exists. split.
  - intros (n & Hin & H). apply andb_true_iff in H. destruct H as [H1 H2].
    exists n. repeat split; [exact Hin|apply fam_eqb_eq; exact H1|symmetry; apply N.eqb_eq; exact H2].
  - intros (n & Hin & H1 & H2). exists n. split; [exact Hin|].
    rewrite (proj2 (fam_eqb_eq _ _) H1), H2, N.eqb_refl. reflexivity.
Qed.

Lemma spec_no_match es p :
  (forall e, In e es -> e_fam e <> p_fam p \/ e_matches p e = false) -> ~ spec_intercept es p.
Proof.
  intros H (e & Hin & Hm & _). destruct (H e Hin) as [Hf|Hf]; [|congruence].
  apply e_matches_fam, fam_eqb_eq in Hm. contradiction.
Qed.

Lemma spec_and_iff es p (b : bool) :
  (spec_interceptb es p && b = true) <-> (spec_intercept es p /\ b = true).
Proof. rewrite andb_true_iff, spec_interceptb_ok. tauto. Qed.

Lemma wf_planb_ok pl : wf_planb pl = true -> wf_plan pl.
Proof.
  unfold wf_planb, wf_plan. intros H. repeat (apply andb_true_iff in H; destruct H as [H ?]).
  repeat split.
  - apply Forall_forall. intros e He. apply wf_entryb_ok. rewrite forallb_forall in H. apply H. exact He.
  - intros A. rewrite A in *. cbn in *. lia.
  - intros A. rewrite A in *. cbn in *. lia.
  - lia.
Qed.
