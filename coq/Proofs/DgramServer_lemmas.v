(* Proofs/DgramServer_lemmas.v — the server loop of Model/Dgram.v as a whole (C10, C11):
   the handler-table invariant `sinv` relating handlers / dnshandlers / udphandlers / mux.channels,
   proved initially and preserved by every frame dispatch, every handler visit of runonce, the two
   sweeps of server.main and the removal of dead handlers; from it: every exception the loop can raise
   is classified by a property of the SCRIPT alone (what the peer sent / what recvfrom returned), and
   conforming scripts never raise.                                                                  *)
From Coq Require Import List NArith Ascii Bool Lia Arith.
From SV Require Import Lib.Bytes Lib.DgramLib Model.Chan Proofs.Chan_lemmas Model.Dgram Proofs.Dgram_lemmas Gen.Consts.
Import ListNotations.
Local Open Scope N_scope.

(* ------------------------------------------------------------------ *)
(* association-list helpers                                            *)

Lemma alookup_app_one {V} k k' (v : V) l :
  alookup N.eqb k (l ++ [(k', v)]) =
  match alookup N.eqb k l with Some x => Some x | None => if N.eqb k k' then Some v else None end.
Proof.
  induction l as [|[k2 v2] tl IH]; cbn [app alookup]; [reflexivity|].
  destruct (N.eqb k k2); [reflexivity|exact IH].
Qed.

Lemma nodup_app_one {V} k' (v : V) (l : list (N * V)) :
  NoDup (map fst l) -> ~ In k' (map fst l) -> NoDup (map fst (l ++ [(k', v)])).
Proof.
  induction l as [|[k2 v2] tl IH]; cbn [app map fst]; intros Hnd Hni.
  - constructor; [intros []|constructor].
  - inversion Hnd as [|? ? Hnot Hnd']; subst. constructor.
    + rewrite map_app, in_app_iff. cbn [map fst In]. intros [H|[H|[]]]; [exact (Hnot H)|].
      apply Hni. left. symmetry. exact H.
    + apply IH; [exact Hnd'|]. intros H. apply Hni. right. exact H.
Qed.

Lemma alookup_some_in_keys {V} k (v : V) l : alookup N.eqb k l = Some v -> In k (map fst l).
Proof. intros H. apply (alookup_In N.eqb Neqb_eq) in H. apply (in_map fst) in H. exact H. Qed.

Lemma in_keys_alookup {V} k (l : list (N * V)) : In k (map fst l) -> exists v, alookup N.eqb k l = Some v.
Proof.
  intros H. destruct (alookup N.eqb k l) eqn:E; [eexists; reflexivity|].
  apply (alookup_None_notin N.eqb Neqb_eq) in E. contradiction.
Qed.

(* a key-preserving map *)
Lemma alookup_map_val {V} (g : N -> V -> V) k (l : list (N * V)) :
  alookup N.eqb k (map (fun p => (fst p, g (fst p) (snd p))) l) = option_map (g k) (alookup N.eqb k l).
Proof.
  induction l as [|[k2 v2] tl IH]; cbn [map alookup fst snd option_map]; [reflexivity|].
  destruct (N.eqb k k2) eqn:E; [|exact IH]. apply N.eqb_eq in E. subst. reflexivity.
Qed.

Lemma keys_map_val {V} (g : N -> V -> V) (l : list (N * V)) :
  map fst (map (fun p => (fst p, g (fst p) (snd p))) l) = map fst l.
Proof. rewrite map_map. reflexivity. Qed.

(* ------------------------------------------------------------------ *)
(* the invariant                                                       *)

Definition frame : Type := (N * fcmd * bytes * N)%type.
Definition f_ch (f : frame) : N := fst (fst (fst f)).
Definition f_cmd (f : frame) : fcmd := snd (fst (fst f)).
Definition f_data (f : frame) : bytes := snd (fst f).
Definition f_tag (f : frame) : N := snd f.

Definition h_chan (h : shandler) : N := match h with HDns d => d_chan d | HUdp u => u_chan u end.

(* handlers: `s_h` (identity -> object, list order = visiting order);
   dnshandlers / udphandlers: identifier -> identity; channels: identifiers with a udp_req closure.
   * every identity in a table was handed out (< s_nhid); a dnshandlers entry that still is in `handlers`
     is a DnsProxy OF THAT IDENTIFIER, an udphandlers entry a UdpProxy of that identifier;
   * NOT claimed (false in the code): that every DnsProxy in `handlers` is registered in dnshandlers — a
     DNS_REQ re-using an identifier overwrites the entry and the older DnsProxy lives on unregistered
     (it is never timed out by the sweep, only retired by its own reply);
   * an open channel always has a registered, present, live UdpProxy — which is what makes the
     `udphandlers[channel]` look-ups of udp_req total;
   * (code after the F80 repair) conversely every udphandlers entry belongs to an open channel — which is
     what makes the Fatal 'UDP connection channel already open' of udp_open unreachable.            *)
Record sinv (s : sstate) : Prop := {
  si_nd : NoDup (map fst (s_h s));
  si_nd_dns : NoDup (map fst (s_dnsh s));
  si_nd_udp : NoDup (map fst (s_udph s));
  si_h : forall hid h, alookup N.eqb hid (s_h s) = Some h -> hid < s_nhid s /\ h_chan h <= 65535;
  si_dnsh : forall ch hid, alookup N.eqb ch (s_dnsh s) = Some hid -> hid < s_nhid s /\
     forall h, alookup N.eqb hid (s_h s) = Some h -> exists d, h = HDns d /\ d_chan d = ch;
  si_udph : forall ch hid, alookup N.eqb ch (s_udph s) = Some hid -> hid < s_nhid s /\
     forall h, alookup N.eqb hid (s_h s) = Some h -> exists u, h = HUdp u /\ u_chan u = ch;
  si_chan : forall ch, mem ch (s_chan s) = true -> exists hid u, alookup N.eqb ch (s_udph s) = Some hid /\
     alookup N.eqb hid (s_h s) = Some (HUdp u) /\ u_ok u = true;
  (* with the F80 repair udphandlers and mux.channels are opened and closed together *)
  si_udph_chan : forall ch hid, alookup N.eqb ch (s_udph s) = Some hid -> mem ch (s_chan s) = true
}.

Lemma sinv_init : sinv s_init.
Proof. constructor; cbn; try constructor; intros; discriminate. Qed.

Lemma fresh_hid s : sinv s -> alookup N.eqb (s_nhid s) (s_h s) = None.
Proof.
  intros I. destruct (alookup N.eqb (s_nhid s) (s_h s)) eqn:E; [|reflexivity].
  destruct (si_h s I _ _ E). lia.
Qed.

(* appending a freshly numbered handler *)
Lemma alookup_new_handler s h hid : sinv s ->
  alookup N.eqb hid (s_h s ++ [(s_nhid s, h)]) =
  if N.eqb hid (s_nhid s) then Some h else alookup N.eqb hid (s_h s).
Proof.
  intros I. rewrite alookup_app_one. destruct (N.eqb hid (s_nhid s)) eqn:E.
  - apply N.eqb_eq in E. subst. rewrite (fresh_hid s I). reflexivity.
  - destruct (alookup N.eqb hid (s_h s)); reflexivity.
Qed.

Lemma nodup_new_handler s h : sinv s -> NoDup (map fst (s_h s ++ [(s_nhid s, h)])).
Proof.
  intros I. apply nodup_app_one; [exact (si_nd s I)|].
  apply (alookup_None_notin N.eqb Neqb_eq). exact (fresh_hid s I).
Qed.

(* ------------------------------------------------------------------ *)
(* the environment script is only consumed                             *)

Lemma incl_pop io : incl (snd (pop io)) io.
Proof. destruct io; cbn; [apply incl_refl|apply incl_tl, incl_refl]. Qed.

Lemma incl_dns_target cfg io : incl (snd (dns_target cfg io)) io.
Proof. unfold dns_target. destruct (sc_to_ns cfg) as [[p port]|]; cbn [snd]; [apply incl_refl|apply incl_pop]. Qed.

Lemma try_send_incl fx cfg : forall left d nsock io d' n' io' outs,
  try_send fx cfg left d nsock io = Ok (d', n', io', outs) -> incl io' io.
Proof.
  induction left as [|left IH]; intros d nsock io d' n' io' outs E; cbn [try_send] in E.
  - inversion E; subst. apply incl_refl.
  - pose proof (incl_dns_target cfg io) as H0.
    pose proof (incl_pop (snd (dns_target cfg io))) as H1.
    pose proof (incl_pop (snd (pop (snd (dns_target cfg io))))) as H2.
    assert (Hc : incl (snd (pop (snd (dns_target cfg io)))) io) by (eapply incl_tran; eassumption).
    assert (Hs : incl (snd (pop (snd (pop (snd (dns_target cfg io)))))) io) by (eapply incl_tran; eassumption).
    destruct (fst (pop (snd (dns_target cfg io)))).
    2:{ destruct (fx10 fx); [|discriminate]. destruct (is_net_err e).
        - destruct (try_send fx cfg left _ _ _) as [[[[d2 n2] io2] o2]| |] eqn:Et; cbn [bind] in E; try discriminate.
          inversion E; subst. eapply incl_tran; [exact (IH _ _ _ _ _ _ _ Et)|exact Hc].
        - inversion E; subst. exact Hc. }
    all: destruct (fst (pop (snd (pop (snd (dns_target cfg io)))))); try (inversion E; subst; exact Hs).
    all: destruct (is_net_err e); [|inversion E; subst; exact Hs].
    all: destruct (try_send fx cfg left _ _ _) as [[[[d2 n2] io2] o2]| |] eqn:Et; cbn [bind] in E; try discriminate;
         inversion E; subst; eapply incl_tran; [exact (IH _ _ _ _ _ _ _ Et)|exact Hs].
Qed.

(* ------------------------------------------------------------------ *)
(* what the peer may send: ghost view of mux.channels                  *)

Definition opens (f : frame) : bool :=
  match f_cmd f with FDnsReq | FUdpOpen => true | _ => false end.

(* mux.channels (its key set) after dispatching f, as a function of the frame alone *)
Definition chan_track (f : frame) (open : list N) : list N :=
  match f_cmd f with
  | FUdpOpen => if mem (f_ch f) open then open else open ++ [f_ch f]
  | FUdpClose => if mem (f_ch f) open then remove_chan (f_ch f) open else open
  | _ => open
  end.

Definition track (open : list N) (fs : list frame) : list N := fold_left (fun l f => chan_track f l) fs open.

(* the peer never sends DNS_REQ / UDP_OPEN on an identifier that is open (the client's allocator
   guarantees it: C06) *)
Fixpoint no_reopen (open : list N) (fs : list frame) : Prop :=
  match fs with
  | [] => True
  | f :: tl => (opens f = true -> mem (f_ch f) open = false) /\ no_reopen (chan_track f open) tl
  end.

(* bodies as the client builds them: UDP_OPEN carries a decimal number, UDP_DATA 'ip,port,' + payload *)
Definition body_ok (f : frame) : Prop :=
  match f_cmd f with
  | FUdpOpen => undec (f_data f) <> None
  | FUdpData => exists ip port p, no_comma ip /\ port <= 65535 /\ f_data f = dgram_hdr (ip, port) p
  | _ => True
  end.

(* what recvfrom may return as the peer address: a text of at most 61000 bytes and a port < 2^64
   (really: an IP address literal and a 16-bit port) *)
Definition io_ok (it : io_item) : Prop :=
  match it with IoFrom _ peer => lenN (fst peer) <= 61000 /\ snd peer < 2 ^ 64 | _ => True end.

(* the port of an UDP_DATA header alone (what decides sendto's OverflowError) *)
Definition data_body_ok (f : frame) : Prop :=
  f_cmd f = FUdpData -> exists ip port p, no_comma ip /\ port <= 65535 /\ f_data f = dgram_hdr (ip, port) p.

Definition only_dns (s : sstate) : Prop :=
  forall hid h, alookup N.eqb hid (s_h s) = Some h -> exists d, h = HDns d.

Definition is_dns (f : frame) : Prop := f_cmd f = FDnsReq.

(* ------------------------------------------------------------------ *)
(* one frame                                                           *)

Lemma dns_req_inv cfg now ch data tag s io : sinv s -> ch <= 65535 ->
  exists s' io' o, dns_req all_fixed cfg now ch data tag s io = Ok (s', io', o) /\
    sinv s' /\ s_chan s' = s_chan s /\ incl io' io /\ (only_dns s -> only_dns s').
Proof.
  intros I Hc. unfold dns_req.
  set (d0 := {| d_chan := ch; d_tag := tag; d_timeout := now + TIMEOUT; d_tries := 0; d_request := data;
                d_socks := []; d_ok := true |}).
  destruct (try_send_no_crash cfg (tries_left d0) d0 (s_nsock s) io) as [[[[d n] io'] outs] E].
  rewrite E. cbn [bind]. eexists. exists io', outs. split; [reflexivity|].
  destruct (try_send_spec _ _ _ _ _ _ _ _ _ _ E) as (_ & _ & _ & _ & _ & _ & Hch & _).
  cbn [d0 d_chan] in Hch.
  split; [|split; [reflexivity|split; [exact (try_send_incl _ _ _ _ _ _ _ _ _ _ E)|]]].
  - constructor; cbn [s_h s_dnsh s_udph s_chan s_nhid].
    + apply nodup_new_handler. exact I.
    + apply (aset_nodup N.eqb Neqb_eq). exact (si_nd_dns s I).
    + exact (si_nd_udp s I).
    + intros hid h. rewrite (alookup_new_handler s _ hid I). destruct (N.eqb hid (s_nhid s)) eqn:Eh.
      * apply N.eqb_eq in Eh. intros [= <-]. cbn [h_chan]. split; lia.
      * intros H. destruct (si_h s I _ _ H). split; [lia|assumption].
    + intros ch0 hid. destruct (N.eq_dec ch0 ch) as [->|Hne].
      * rewrite (alookup_aset_same N.eqb Neqb_eq). intros [= <-]. split; [lia|].
        intros h. rewrite (alookup_new_handler s _ _ I), N.eqb_refl. intros [= <-]. eexists. split; [reflexivity|exact Hch].
      * rewrite (alookup_aset_other N.eqb Neqb_eq) by exact Hne. intros H.
        destruct (si_dnsh s I _ _ H) as [Hlt Hh]. split; [lia|]. intros h.
        rewrite (alookup_new_handler s _ _ I). replace (N.eqb hid (s_nhid s)) with false by (symmetry; apply N.eqb_neq; lia).
        apply Hh.
    + intros ch0 hid H. destruct (si_udph s I _ _ H) as [Hlt Hh]. split; [lia|]. intros h.
      rewrite (alookup_new_handler s _ _ I). replace (N.eqb hid (s_nhid s)) with false by (symmetry; apply N.eqb_neq; lia).
      apply Hh.
    + intros ch0 H. destruct (si_chan s I _ H) as (hid & u & H1 & H2 & H3). exists hid, u. split; [exact H1|].
      split; [|exact H3]. rewrite (alookup_new_handler s _ _ I).
      destruct (si_udph s I _ _ H1) as [Hlt _].
      replace (N.eqb hid (s_nhid s)) with false by (symmetry; apply N.eqb_neq; lia). exact H2.
    + exact (si_udph_chan s I).
  - intros Ho hid h. cbn [s_h]. rewrite (alookup_new_handler s _ _ I). destruct (N.eqb hid (s_nhid s)).
    + intros [= <-]. eexists. reflexivity.
    + apply Ho.
Qed.

Lemma mem_app x l1 l2 : mem x (l1 ++ l2) = mem x l1 || mem x l2.
Proof. unfold mem. apply existsb_app. Qed.

Lemma mem_remove_chan_iff x ch l : mem x (remove_chan ch l) = true <-> x <> ch /\ mem x l = true.
Proof.
  rewrite !mem_In. unfold remove_chan. rewrite filter_In. rewrite negb_true_iff, N.eqb_neq. tauto.
Qed.

Lemma only_dns_closed s ch : sinv s -> only_dns s -> mem ch (s_chan s) = true -> False.
Proof.
  intros I Ho H. destruct (si_chan s I _ H) as (hid & u & _ & H2 & _). destruct (Ho _ _ H2) as [d Hd]. discriminate.
Qed.

Lemma udp_open_inv ch data s io : sinv s -> ch <= 65535 -> mem ch (s_chan s) = false ->
  match udp_open ch data s io with
  | Ok (s', io', _) => sinv s' /\ s_chan s' = s_chan s ++ [ch] /\ io' = io
  | Fatal => False
  | Crash x => x = XValue /\ undec data = None
  end.
Proof.
  intros I Hc Hm. unfold udp_open. destruct (undec data) as [fam|]; [|split; reflexivity].
  rewrite Hm. destruct (amem N.eqb ch (s_udph s)) eqn:Ea.
  { apply amem_true_iff in Ea. destruct Ea as [hid Ea]. rewrite (si_udph_chan s I _ _ Ea) in Hm. discriminate. }
  apply amem_false_iff in Ea. split; [|split; reflexivity].
  set (u0 := {| u_chan := ch; u_sock := s_nsock s; u_ok := true |}).
  constructor; cbn [s_h s_dnsh s_udph s_chan s_nhid].
  - apply nodup_new_handler. exact I.
  - exact (si_nd_dns s I).
  - apply (aset_nodup N.eqb Neqb_eq). exact (si_nd_udp s I).
  - intros hid h. rewrite (alookup_new_handler s _ hid I). destruct (N.eqb hid (s_nhid s)) eqn:Eh.
    + apply N.eqb_eq in Eh. intros [= <-]. cbn [h_chan u0 u_chan]. split; lia.
    + intros H. destruct (si_h s I _ _ H). split; [lia|assumption].
  - intros ch0 hid H. destruct (si_dnsh s I _ _ H) as [Hlt Hh]. split; [lia|]. intros h.
    rewrite (alookup_new_handler s _ _ I). replace (N.eqb hid (s_nhid s)) with false by (symmetry; apply N.eqb_neq; lia).
    apply Hh.
  - intros ch0 hid. destruct (N.eq_dec ch0 ch) as [->|Hne].
    + rewrite (alookup_aset_same N.eqb Neqb_eq). intros [= <-]. split; [lia|].
      intros h. rewrite (alookup_new_handler s _ _ I), N.eqb_refl. intros [= <-]. exists u0. split; reflexivity.
    + rewrite (alookup_aset_other N.eqb Neqb_eq) by exact Hne. intros H.
      destruct (si_udph s I _ _ H) as [Hlt Hh]. split; [lia|]. intros h.
      rewrite (alookup_new_handler s _ _ I). replace (N.eqb hid (s_nhid s)) with false by (symmetry; apply N.eqb_neq; lia).
      apply Hh.
  - intros ch0. destruct (N.eq_dec ch0 ch) as [->|Hne].
    + intros _. exists (s_nhid s), u0. rewrite (alookup_aset_same N.eqb Neqb_eq).
      rewrite (alookup_new_handler s _ _ I), N.eqb_refl. repeat split.
    + rewrite mem_app. cbn [mem existsb]. replace (N.eqb ch0 ch) with false by (symmetry; apply N.eqb_neq; exact Hne).
      rewrite !orb_false_r. intros H. destruct (si_chan s I _ H) as (hid & u & H1 & H2 & H3). exists hid, u.
      rewrite (alookup_aset_other N.eqb Neqb_eq) by exact Hne. split; [exact H1|]. split; [|exact H3].
      rewrite (alookup_new_handler s _ _ I). destruct (si_udph s I _ _ H1) as [Hlt _].
      replace (N.eqb hid (s_nhid s)) with false by (symmetry; apply N.eqb_neq; lia). exact H2.
  - intros ch0 hid. rewrite mem_app. destruct (N.eq_dec ch0 ch) as [->|Hne].
    + intros _. cbn [mem existsb]. rewrite N.eqb_refl. apply orb_true_r.
    + rewrite (alookup_aset_other N.eqb Neqb_eq) by exact Hne. intros H. rewrite (si_udph_chan s I _ _ H). reflexivity.
Qed.

Definition data_ok (data : bytes) : Prop :=
  exists ip port p, no_comma ip /\ port <= 65535 /\ data = dgram_hdr (ip, port) p.

Lemma udp_close_inv s ch hid u : sinv s ->
  alookup N.eqb ch (s_udph s) = Some hid -> alookup N.eqb hid (s_h s) = Some (HUdp u) ->
  sinv {| s_h := aset N.eqb hid (HUdp (set_uok u false)) (s_h s); s_dnsh := s_dnsh s;
          s_udph := adel N.eqb ch (s_udph s);
          s_chan := remove_chan ch (s_chan s); s_nsock := s_nsock s; s_nhid := s_nhid s |}.
Proof.
  intros I H1 H2.
  assert (Hdel : forall ch0 hid0, alookup N.eqb ch0 (adel N.eqb ch (s_udph s)) = Some hid0 ->
                   ch0 <> ch /\ alookup N.eqb ch0 (s_udph s) = Some hid0).
  { intros ch0 hid0 H. destruct (N.eq_dec ch0 ch) as [->|Hne].
    - rewrite (alookup_adel_same N.eqb Neqb_eq) in H by exact (si_nd_udp s I). discriminate.
    - rewrite (alookup_adel_other N.eqb Neqb_eq) in H by exact Hne. auto. }
  constructor; cbn [s_h s_dnsh s_udph s_chan s_nhid].
  - apply (aset_nodup N.eqb Neqb_eq). exact (si_nd s I).
  - exact (si_nd_dns s I).
  - apply (adel_nodup N.eqb). exact (si_nd_udp s I).
  - intros hid0 h. destruct (N.eq_dec hid0 hid) as [->|Hne].
    + rewrite (alookup_aset_same N.eqb Neqb_eq). intros [= <-]. exact (si_h s I _ _ H2).
    + rewrite (alookup_aset_other N.eqb Neqb_eq) by exact Hne. apply (si_h s I).
  - intros ch0 hid0 H. destruct (si_dnsh s I _ _ H) as [Hlt Hh]. split; [exact Hlt|]. intros h.
    destruct (N.eq_dec hid0 hid) as [->|Hne].
    + destruct (Hh _ H2) as (d & Hd & _). discriminate.
    + rewrite (alookup_aset_other N.eqb Neqb_eq) by exact Hne. apply Hh.
  - intros ch0 hid0 H. apply Hdel in H. destruct H as [_ H].
    destruct (si_udph s I _ _ H) as [Hlt Hh]. split; [exact Hlt|]. intros h.
    destruct (N.eq_dec hid0 hid) as [->|Hne].
    + rewrite (alookup_aset_same N.eqb Neqb_eq). intros [= <-]. destruct (Hh _ H2) as (u' & [= <-] & Hc).
      eexists. split; [reflexivity|exact Hc].
    + rewrite (alookup_aset_other N.eqb Neqb_eq) by exact Hne. apply Hh.
  - intros ch0 H. apply mem_remove_chan_iff in H. destruct H as [Hne H].
    destruct (si_chan s I _ H) as (hid0 & u0 & A1 & A2 & A3). exists hid0, u0.
    split; [rewrite (alookup_adel_other N.eqb Neqb_eq) by exact Hne; exact A1|]. split; [|exact A3].
    destruct (N.eq_dec hid0 hid) as [->|Hn2].
    + exfalso. destruct (si_udph s I _ _ A1) as [_ Hh]. destruct (Hh _ H2) as (u1 & [= <-] & Hc1).
      destruct (si_udph s I _ _ H1) as [_ Hh']. destruct (Hh' _ H2) as (u2 & [= <-] & Hc2). congruence.
    + rewrite (alookup_aset_other N.eqb Neqb_eq) by exact Hn2. exact A2.
  - intros ch0 hid0 H. apply Hdel in H. destruct H as [Hne H]. apply mem_remove_chan_iff.
    split; [exact Hne|exact (si_udph_chan s I _ _ H)].
Qed.

Lemma udp_req_inv ch cmd data s io : sinv s -> mem ch (s_chan s) = true ->
  match udp_req all_fixed ch cmd data s io with
  | Ok (s', io', _) => sinv s' /\ incl io' io /\
      s_chan s' = match cmd with FUdpClose => remove_chan ch (s_chan s) | _ => s_chan s end
  | Fatal => False
  | Crash x => (x = XValue \/ x = XOverflow) /\ cmd = FUdpData /\ ~ data_ok data
  end.
Proof.
  intros I Hm. destruct (si_chan s I _ Hm) as (hid & u & H1 & H2 & H3).
  unfold udp_req. destruct cmd; try (split; [exact I|split; [apply incl_refl|reflexivity]]).
  - (* UDP_DATA *)
    destruct (split3 data) as [[[a p] d]|] eqn:Es.
    2:{ split; [left; reflexivity|split; [reflexivity|]]. intros (ip & port & pl & Hn & _ & ->).
        destruct (hdr_roundtrip ip port pl Hn) as [E _]. congruence. }
    destruct (undec p) as [port|] eqn:Eu.
    2:{ split; [left; reflexivity|split; [reflexivity|]]. intros (ip & port & pl & Hn & _ & ->).
        destruct (hdr_roundtrip ip port pl Hn) as [E E2]. rewrite E in Es. inversion Es; subst. congruence. }
    rewrite H1, H2. destruct (65535 <? port) eqn:Ep.
    + split; [right; reflexivity|split; [reflexivity|]]. intros (ip & port' & pl & Hn & Hle & ->).
      destruct (hdr_roundtrip ip port' pl Hn) as [E E2]. rewrite E in Es. inversion Es; subst.
      rewrite E2 in Eu. inversion Eu; subst. apply N.ltb_lt in Ep. lia.
    + split; [exact I|split; [apply incl_pop|reflexivity]].
  - (* UDP_CLOSE *)
    rewrite H1, H2. cbn [set_handler s_h s_dnsh s_udph s_chan s_nsock s_nhid fx80 all_fixed].
    split; [exact (udp_close_inv s ch hid u I H1 H2)|split; [apply incl_refl|reflexivity]].
Qed.

Lemma s_frame_inv cfg now (f : frame) s io : sinv s -> f_ch f <= 65535 ->
  match s_frame all_fixed cfg now f s io with
  | Ok (s', io', _) => sinv s' /\ s_chan s' = chan_track f (s_chan s) /\ incl io' io /\
                       (only_dns s -> is_dns f -> only_dns s')
  | Fatal => False
  | Crash x => (x = XAssert /\ opens f = true /\ mem (f_ch f) (s_chan s) = true) \/
               (x = XValue /\ ~ body_ok f) \/ (x = XOverflow /\ ~ data_body_ok f)
  end.
Proof.
  destruct f as [[[ch cmd] data] tag]. unfold chan_track, opens, body_ok, data_body_ok, is_dns, f_ch, f_cmd, f_data. cbn [fst snd].
  intros I Hc. unfold s_frame.
  destruct cmd; cbv iota.
  - (* DNS_REQ *)
    destruct (mem ch (s_chan s)) eqn:Hm; [left; repeat split|].
    destruct (dns_req_inv cfg now ch data tag s io I Hc) as (s' & io' & o & -> & I' & Hch & Hi & Ho).
    split; [exact I'|]. split; [exact Hch|]. split; [exact Hi|]. intros H _. exact (Ho H).
  - (* UDP_OPEN *)
    destruct (mem ch (s_chan s)) eqn:Hm; [left; repeat split|].
    pose proof (udp_open_inv ch data s io I Hc Hm) as H.
    destruct (udp_open ch data s io) as [[[s' io'] o]| |x]; [|exact H|].
    + destruct H as (I' & Hch & ->). split; [exact I'|]. split; [exact Hch|]. split; [apply incl_refl|].
      intros _ Hd. discriminate.
    + destruct H as [-> Hu]. right. left. split; [reflexivity|]. intros Hn. exact (Hn Hu).
  - (* UDP_DATA *)
    destruct (mem ch (s_chan s)) eqn:Hm.
    + pose proof (udp_req_inv ch FUdpData data s io I Hm) as H.
      destruct (udp_req all_fixed ch FUdpData data s io) as [[[s' io'] o]| |x]; [|contradiction|].
      * destruct H as (I' & Hi & Hch). split; [exact I'|]. split; [exact Hch|]. split; [exact Hi|].
        intros _ Hd. discriminate.
      * destruct H as ([-> | ->] & _ & Hb); right; [left|right]; (split; [reflexivity|]);
          [exact Hb|intros Hd; exact (Hb (Hd eq_refl))].
    + split; [exact I|]. split; [reflexivity|]. split; [apply incl_refl|]. intros _ Hd. discriminate.
  - (* UDP_CLOSE *)
    destruct (mem ch (s_chan s)) eqn:Hm.
    + pose proof (udp_req_inv ch FUdpClose data s io I Hm) as H.
      destruct (udp_req all_fixed ch FUdpClose data s io) as [[[s' io'] o]| |x]; [|contradiction|].
      * destruct H as (I' & Hi & Hch). split; [exact I'|]. split; [exact Hch|]. split; [exact Hi|].
        intros _ Hd. discriminate.
      * destruct H as (_ & Hd & _). discriminate.
    + split; [exact I|]. split; [reflexivity|]. split; [apply incl_refl|]. intros _ Hd. discriminate.
  - (* anything else *)
    destruct (mem ch (s_chan s)) eqn:Hm.
    + pose proof (udp_req_inv ch FOther data s io I Hm) as H.
      destruct (udp_req all_fixed ch FOther data s io) as [[[s' io'] o]| |x]; [|contradiction|].
      * destruct H as (I' & Hi & Hch). split; [exact I'|]. split; [exact Hch|]. split; [exact Hi|].
        intros _ Hd. discriminate.
      * destruct H as (_ & Hd & _). discriminate.
    + split; [exact I|]. split; [reflexivity|]. split; [apply incl_refl|]. intros _ Hd. discriminate.
Qed.

(* ------------------------------------------------------------------ *)
(* one handler visit of runonce                                        *)

Lemma set_handler_dns_inv s hid d d' n : sinv s ->
  alookup N.eqb hid (s_h s) = Some (HDns d) -> d_chan d' = d_chan d ->
  sinv (set_handler s hid (HDns d') n) /\ (only_dns s -> only_dns (set_handler s hid (HDns d') n)).
Proof.
  intros I H Hc. split.
  - constructor; cbn [set_handler s_h s_dnsh s_udph s_chan s_nhid].
    + apply (aset_nodup N.eqb Neqb_eq). exact (si_nd s I).
    + exact (si_nd_dns s I).
    + exact (si_nd_udp s I).
    + intros hid0 h. destruct (N.eq_dec hid0 hid) as [->|Hne].
      * rewrite (alookup_aset_same N.eqb Neqb_eq). intros [= <-]. cbn [h_chan]. rewrite Hc. exact (si_h s I _ _ H).
      * rewrite (alookup_aset_other N.eqb Neqb_eq) by exact Hne. apply (si_h s I).
    + intros ch0 hid0 H0. destruct (si_dnsh s I _ _ H0) as [Hlt Hh]. split; [exact Hlt|]. intros h.
      destruct (N.eq_dec hid0 hid) as [->|Hne].
      * rewrite (alookup_aset_same N.eqb Neqb_eq). intros [= <-]. destruct (Hh _ H) as (d1 & [= <-] & Hd).
        eexists. split; [reflexivity|congruence].
      * rewrite (alookup_aset_other N.eqb Neqb_eq) by exact Hne. apply Hh.
    + intros ch0 hid0 H0. destruct (si_udph s I _ _ H0) as [Hlt Hh]. split; [exact Hlt|]. intros h.
      destruct (N.eq_dec hid0 hid) as [->|Hne].
      * destruct (Hh _ H) as (u & Hu & _). discriminate.
      * rewrite (alookup_aset_other N.eqb Neqb_eq) by exact Hne. apply Hh.
    + intros ch0 H0. destruct (si_chan s I _ H0) as (hid0 & u & A1 & A2 & A3). exists hid0, u.
      split; [exact A1|]. split; [|exact A3]. destruct (N.eq_dec hid0 hid) as [->|Hne]; [congruence|].
      rewrite (alookup_aset_other N.eqb Neqb_eq) by exact Hne. exact A2.
    + exact (si_udph_chan s I).
  - intros Ho hid0 h. cbn [set_handler s_h]. destruct (N.eq_dec hid0 hid) as [->|Hne].
    + rewrite (alookup_aset_same N.eqb Neqb_eq). intros [= <-]. eexists. reflexivity.
    + rewrite (alookup_aset_other N.eqb Neqb_eq) by exact Hne. apply Ho.
Qed.

Lemma mux_check_cases ch cmd data : ch <= 65535 -> cmd <= 65535 ->
  mux_check ch cmd data = Ok tt \/ (mux_check ch cmd data = Crash XAssert /\ 65535 < lenN data).
Proof.
  intros A B. unfold mux_check. destruct (65535 <? lenN data) eqn:E.
  - right. split; [reflexivity|apply N.ltb_lt; exact E].
  - left. replace (65535 <? ch) with false by (symmetry; apply N.ltb_ge; exact A).
    replace (65535 <? cmd) with false by (symmetry; apply N.ltb_ge; exact B). reflexivity.
Qed.

Lemma dns_callback_inv cfg hid d sock s io : sinv s -> alookup N.eqb hid (s_h s) = Some (HDns d) ->
  exists s' io' o, dns_callback all_fixed cfg hid d sock s io = Ok (s', io', o) /\
    sinv s' /\ s_chan s' = s_chan s /\ incl io' io /\ (only_dns s -> only_dns s').
Proof.
  intros I H. destruct (si_h s I _ _ H) as [_ Hc]. cbn [h_chan] in Hc.
  destruct (fst (pop io)) as [| e | x | x p | k] eqn:E.
  2:{ (* recv error *)
      unfold dns_callback. rewrite E. destruct (is_net_err e).
      - set (d1 := set_socks d (remove_sock sock (d_socks d))).
        destruct (try_send_no_crash cfg (tries_left d1) d1 (s_nsock s) (snd (pop io))) as [[[[d2 n2] io2] o2] Et].
        rewrite Et. cbn [bind]. eexists. exists io2, o2. split; [reflexivity|].
        destruct (try_send_spec _ _ _ _ _ _ _ _ _ _ Et) as (_ & _ & _ & _ & _ & _ & Hch & _).
        destruct (set_handler_dns_inv s hid d d2 n2 I H Hch) as [I' Ho].
        split; [exact I'|]. split; [reflexivity|]. split; [|exact Ho].
        eapply incl_tran; [exact (try_send_incl _ _ _ _ _ _ _ _ _ _ Et)|apply incl_pop].
      - eexists. eexists. eexists. split; [reflexivity|].
        destruct (set_handler_dns_inv s hid d (set_socks d (remove_sock sock (d_socks d))) (s_nsock s) I H eq_refl) as [I' Ho].
        split; [exact I'|]. split; [reflexivity|]. split; [apply incl_pop|exact Ho]. }
  all: (assert (Hn : not_err (fst (pop io))) by (rewrite E; intros e0; discriminate);
        rewrite (dns_callback_reply all_fixed cfg hid d sock s io Hn Hc);
        eexists; eexists; eexists; split; [reflexivity|];
        destruct (set_handler_dns_inv s hid d (set_dok d false) (s_nsock s) I H eq_refl) as [I' Ho];
        split; [exact I'|]; split; [reflexivity|]; split; [apply incl_pop|exact Ho]).
Qed.

Lemma default_peer_ok : lenN (fst default_peer) <= 61000 /\ snd default_peer < 2 ^ 64.
Proof. split; [apply N.leb_le; reflexivity|apply N.ltb_lt; reflexivity]. Qed.

Lemma udp_callback_inv u s io : u_chan u <= 65535 ->
  match udp_callback all_fixed u s io with
  | Ok (s', io', _) => s' = s /\ incl io' io
  | Fatal => False
  | Crash x => x = XAssert /\ ~ Forall io_ok io
  end.
Proof.
  intros Hc. unfold udp_callback.
  assert (G : forall data peer, (Forall io_ok io -> lenN (fst peer) <= 61000 /\ snd peer < 2 ^ 64) ->
     match (do _ <- mux_check (u_chan u) CMD_UDP_DATA (dgram_hdr peer (takeN BUFSIZE data));
            Ok (s, snd (pop io), [SFrame (u_chan u) CMD_UDP_DATA (dgram_hdr peer (takeN BUFSIZE data)) 0]))
     with Ok (s', io', _) => s' = s /\ incl io' io | Fatal => False
        | Crash x => x = XAssert /\ ~ Forall io_ok io end).
  { intros data peer Hp.
    destruct (mux_check_cases (u_chan u) CMD_UDP_DATA (dgram_hdr peer (takeN BUFSIZE data)) Hc) as [->|[-> Hl]];
      [apply cmd_small| |]; cbn [bind].
    - split; [reflexivity|apply incl_pop].
    - split; [reflexivity|]. intros HF. destruct (Hp HF) as [A B]. destruct peer as [pa pp]. cbn [fst snd] in A, B.
      pose proof (hdr_fits pa pp data A B). lia. }
  destruct (fst (pop io)) as [| e | x | x p | k] eqn:E.
  2:{ cbn [fx4 all_fixed]. split; [reflexivity|apply incl_pop]. }
  1,2,4: apply G; intros _; exact default_peer_ok.
  apply G. intros HF. destruct io as [|it tl]; [discriminate|]. cbn [pop fst] in E. subst it.
  inversion HF as [|? ? H1 _]; subst. exact H1.
Qed.

Lemma visit_inv cfg ready hid s io : sinv s ->
  match visit all_fixed cfg ready hid s io with
  | Ok (s', io', _) => sinv s' /\ s_chan s' = s_chan s /\ incl io' io /\ (only_dns s -> only_dns s')
  | Fatal => False
  | Crash x => x = XAssert /\ ~ only_dns s /\ ~ Forall io_ok io
  end.
Proof.
  intros I. unfold visit.
  assert (Triv : sinv s /\ s_chan s = s_chan s /\ incl io io /\ (only_dns s -> only_dns s))
    by (split; [exact I|split; [reflexivity|split; [apply incl_refl|auto]]]).
  destruct (alookup N.eqb hid (s_h s)) as [[d|u]|] eqn:H; [| |exact Triv].
  - destruct (d_socks d) as [|sock tl]; [exact Triv|]. destruct (mem sock ready); [|exact Triv].
    destruct (dns_callback_inv cfg hid d sock s io I H) as (s' & io' & o & -> & R). exact R.
  - destruct (mem (u_sock u) ready); [|exact Triv].
    destruct (si_h s I _ _ H) as [_ Hc]. cbn [h_chan] in Hc.
    pose proof (udp_callback_inv u s io Hc) as R.
    destruct (udp_callback all_fixed u s io) as [[[s' io'] o]| |x]; [|exact R|].
    + destruct R as [-> Hi]. split; [exact I|split; [reflexivity|split; [exact Hi|auto]]].
    + destruct R as [-> Hf]. split; [reflexivity|]. split; [|exact Hf].
      intros Ho. destruct (Ho _ _ H) as [d Hd]. discriminate.
Qed.

(* ------------------------------------------------------------------ *)
(* folds                                                               *)

Lemma fold_steps_inv {X} (f : X -> sstate -> list io_item -> res (sstate * list io_item * list sout))
  (Inv : sstate -> list io_item -> Prop) (Bad : exn -> Prop) :
  (forall x s io, Inv s io ->
     match f x s io with Ok (s', io', _) => Inv s' io' | Fatal => False | Crash e => Bad e end) ->
  forall xs s io, Inv s io ->
     match fold_steps f xs s io with Ok (s', io', _) => Inv s' io' | Fatal => False | Crash e => Bad e end.
Proof.
  intros Hf. induction xs as [|x tl IH]; intros s io Hi; cbn [fold_steps]; [exact Hi|].
  specialize (Hf x s io Hi). destruct (f x s io) as [[[s1 io1] o1]| |e]; cbn [bind]; [|exact Hf|exact Hf].
  specialize (IH s1 io1 Hf). destruct (fold_steps f tl s1 io1) as [[[s2 io2] o2]| |e]; cbn [bind]; assumption.
Qed.

Lemma visits_inv cfg ready hids s io : sinv s ->
  match fold_steps (visit all_fixed cfg ready) hids s io with
  | Ok (s', io', _) => sinv s' /\ s_chan s' = s_chan s /\ incl io' io /\ (only_dns s -> only_dns s')
  | Fatal => False
  | Crash x => x = XAssert /\ ~ only_dns s /\ ~ Forall io_ok io
  end.
Proof.
  intros I.
  apply (fold_steps_inv (visit all_fixed cfg ready)
           (fun s' io' => sinv s' /\ s_chan s' = s_chan s /\ incl io' io /\ (only_dns s -> only_dns s'))
           (fun x => x = XAssert /\ ~ only_dns s /\ ~ Forall io_ok io)).
  - intros hid s1 io1 (I1 & Hc1 & Hi1 & Ho1). pose proof (visit_inv cfg ready hid s1 io1 I1) as R.
    destruct (visit all_fixed cfg ready hid s1 io1) as [[[s2 io2] o2]| |x]; [|exact R|].
    + destruct R as (I2 & Hc2 & Hi2 & Ho2). split; [exact I2|]. split; [congruence|].
      split; [eapply incl_tran; eassumption|auto].
    + destruct R as (-> & Hno & Hnf). split; [reflexivity|]. split; [intros Ho; exact (Hno (Ho1 Ho))|].
      intros HF. apply Hnf. exact (incl_Forall Hi1 HF).
  - split; [exact I|split; [reflexivity|split; [apply incl_refl|auto]]].
Qed.

Lemma track_cons f fs open : track open (f :: fs) = track (chan_track f open) fs.
Proof. reflexivity. Qed.

Lemma frames_inv cfg now : forall (fs : list frame) s io, sinv s -> Forall (fun f => f_ch f <= 65535) fs ->
  match fold_steps (s_frame all_fixed cfg now) fs s io with
  | Ok (s', io', _) => sinv s' /\ s_chan s' = track (s_chan s) fs /\ incl io' io /\
                       (only_dns s -> Forall is_dns fs -> only_dns s')
  | Fatal => False
  | Crash x => (x = XAssert /\ ~ no_reopen (s_chan s) fs) \/ (x = XValue /\ ~ Forall body_ok fs) \/
               (x = XOverflow /\ ~ Forall data_body_ok fs)
  end.
Proof.
  induction fs as [|f tl IH]; intros s io I Hw; cbn [fold_steps].
  - split; [exact I|split; [reflexivity|split; [apply incl_refl|auto]]].
  - inversion Hw as [|? ? Hf Hw']; subst.
    pose proof (s_frame_inv cfg now f s io I Hf) as R.
    destruct (s_frame all_fixed cfg now f s io) as [[[s1 io1] o1]| |x]; cbn [bind]; [|exact R|].
    + destruct R as (I1 & Hc1 & Hi1 & Ho1). specialize (IH s1 io1 I1 Hw').
      destruct (fold_steps (s_frame all_fixed cfg now) tl s1 io1) as [[[s2 io2] o2]| |x]; cbn [bind]; [|exact IH|].
      * destruct IH as (I2 & Hc2 & Hi2 & Ho2). split; [exact I2|]. split; [rewrite track_cons, <- Hc1; exact Hc2|].
        split; [eapply incl_tran; eassumption|]. intros Ho HF. inversion HF; subst. auto.
      * rewrite Hc1 in IH. destruct IH as [[-> Hn]|[[Hx Hn]|[Hx Hn]]].
        -- left. split; [reflexivity|]. intros [_ H]. exact (Hn H).
        -- right. left. split; [exact Hx|]. intros HF. inversion HF; subst. auto.
        -- right. right. split; [exact Hx|]. intros HF. inversion HF; subst. auto.
    + destruct R as [(-> & Ho & Hm)|[[Hx Hb]|[Hx Hb]]].
      * left. split; [reflexivity|]. intros [H _]. rewrite (H Ho) in Hm. discriminate.
      * right. left. split; [exact Hx|]. intros HF. inversion HF; subst. auto.
      * right. right. split; [exact Hx|]. intros HF. inversion HF; subst. auto.
Qed.

(* ------------------------------------------------------------------ *)
(* the sweeps of server.main and the removal of dead handlers          *)

Lemma h_chan_kill h : h_chan (h_kill h) = h_chan h.
Proof. destruct h; reflexivity. Qed.

Definition sweep_val (deadd : list N) (k : N) (h : shandler) : shandler := if mem k deadd then h_kill h else h.

Lemma sweep_h_eq deadd (l : list (N * shandler)) :
  map (fun p => if mem (fst p) deadd then (fst p, h_kill (snd p)) else p) l =
  map (fun p => (fst p, sweep_val deadd (fst p) (snd p))) l.
Proof.
  apply map_ext. intros [k h]. unfold sweep_val. cbn [fst snd]. destruct (mem k deadd); reflexivity.
Qed.

Lemma sweep_inv now s : sinv s ->
  sinv (sweep now s) /\ s_chan (sweep now s) = s_chan s /\ (only_dns s -> only_dns (sweep now s)).
Proof.
  intros I.
  set (deadd := map snd (filter (dns_dead now s) (s_dnsh s))).
  assert (Hl : forall hid, alookup N.eqb hid (s_h (sweep now s)) =
                           option_map (sweep_val deadd hid) (alookup N.eqb hid (s_h s))).
  { intros hid. unfold sweep. cbn [s_h]. fold deadd. rewrite sweep_h_eq. apply alookup_map_val. }
  assert (Hd : forall ch hid, alookup N.eqb ch (s_dnsh (sweep now s)) = Some hid -> alookup N.eqb ch (s_dnsh s) = Some hid).
  { intros ch hid. unfold sweep. cbn [s_dnsh]. rewrite (alookup_filter N.eqb Neqb_eq) by exact (si_nd_dns s I).
    destruct (alookup N.eqb ch (s_dnsh s)) as [v|]; [|discriminate]. destruct (negb _); [auto|discriminate]. }
  assert (Hu : forall ch hid, alookup N.eqb ch (s_udph (sweep now s)) = Some hid -> alookup N.eqb ch (s_udph s) = Some hid).
  { intros ch hid. unfold sweep. cbn [s_udph]. rewrite (alookup_filter N.eqb Neqb_eq) by exact (si_nd_udp s I).
    destruct (alookup N.eqb ch (s_udph s)) as [v|]; [|discriminate]. destruct (negb _); [auto|discriminate]. }
  split; [|split; [reflexivity|]].
  - constructor.
    + unfold sweep. cbn [s_h]. fold deadd. rewrite sweep_h_eq, keys_map_val. exact (si_nd s I).
    + unfold sweep. cbn [s_dnsh]. apply filter_nodup. exact (si_nd_dns s I).
    + unfold sweep. cbn [s_udph]. apply filter_nodup. exact (si_nd_udp s I).
    + intros hid h. rewrite Hl. destruct (alookup N.eqb hid (s_h s)) as [h0|] eqn:E; [|discriminate].
      cbn [option_map]. intros [= <-]. destruct (si_h s I _ _ E) as [A B]. split; [exact A|].
      unfold sweep_val. destruct (mem hid deadd); [rewrite h_chan_kill|]; exact B.
    + intros ch hid H. apply Hd in H. destruct (si_dnsh s I _ _ H) as [Hlt Hh]. split; [exact Hlt|].
      intros h. rewrite Hl. destruct (alookup N.eqb hid (s_h s)) as [h0|] eqn:E; [|discriminate].
      cbn [option_map]. intros [= <-]. destruct (Hh _ eq_refl) as (d & -> & Hc).
      unfold sweep_val. destruct (mem hid deadd); cbn [h_kill]; eexists; (split; [reflexivity|exact Hc]).
    + intros ch hid H. apply Hu in H. destruct (si_udph s I _ _ H) as [Hlt Hh]. split; [exact Hlt|].
      intros h. rewrite Hl. destruct (alookup N.eqb hid (s_h s)) as [h0|] eqn:E; [|discriminate].
      cbn [option_map]. intros [= <-]. destruct (Hh _ eq_refl) as (u & -> & Hc).
      unfold sweep_val. destruct (mem hid deadd); cbn [h_kill]; eexists; (split; [reflexivity|exact Hc]).
    + intros ch H. change (s_chan (sweep now s)) with (s_chan s) in H.
      destruct (si_chan s I _ H) as (hid & u & A1 & A2 & A3). exists hid, u. split; [|split; [|exact A3]].
      * unfold sweep. cbn [s_udph]. rewrite (alookup_filter N.eqb Neqb_eq) by exact (si_nd_udp s I).
        rewrite A1. unfold udp_dead. cbn [snd]. rewrite A2. cbn [h_ok]. rewrite A3. reflexivity.
      * rewrite Hl, A2. cbn [option_map]. unfold sweep_val.
        destruct (mem hid deadd) eqn:Em; [|reflexivity]. exfalso.
        apply mem_In in Em. unfold deadd in Em. apply in_map_iff in Em. destruct Em as ([ch' hid'] & Hs & Hin).
        cbn [snd] in Hs. subst hid'. apply filter_In in Hin. destruct Hin as [_ Hdead].
        unfold dns_dead in Hdead. cbn [snd] in Hdead. rewrite A2, A3 in Hdead. discriminate.
    + intros ch hid H. apply Hu in H. exact (si_udph_chan s I _ _ H).
  - intros Ho hid h. rewrite Hl. destruct (alookup N.eqb hid (s_h s)) as [h0|] eqn:E; [|discriminate].
    cbn [option_map]. intros [= <-]. destruct (Ho _ _ E) as [d ->]. unfold sweep_val.
    destruct (mem hid deadd); cbn [h_kill]; eexists; reflexivity.
Qed.

Lemma remove_dead_inv s : sinv s ->
  sinv (remove_dead s) /\ s_chan (remove_dead s) = s_chan s /\ (only_dns s -> only_dns (remove_dead s)).
Proof.
  intros I.
  assert (Hl : forall hid h, alookup N.eqb hid (s_h (remove_dead s)) = Some h ->
                             alookup N.eqb hid (s_h s) = Some h).
  { intros hid h. unfold remove_dead. cbn [s_h]. rewrite (alookup_filter N.eqb Neqb_eq) by exact (si_nd s I).
    destruct (alookup N.eqb hid (s_h s)) as [v|]; [|discriminate]. destruct (h_ok _); [auto|discriminate]. }
  split; [|split; [reflexivity|]].
  - constructor; unfold remove_dead at 1; cbn [s_h s_dnsh s_udph s_chan s_nhid].
    + apply filter_nodup. exact (si_nd s I).
    + exact (si_nd_dns s I).
    + exact (si_nd_udp s I).
    + intros hid h H. apply (si_h s I). apply Hl. exact H.
    + intros ch hid H. destruct (si_dnsh s I _ _ H) as [Hlt Hh]. split; [exact Hlt|]. intros h H2. apply Hh, Hl, H2.
    + intros ch hid H. destruct (si_udph s I _ _ H) as [Hlt Hh]. split; [exact Hlt|]. intros h H2. apply Hh, Hl, H2.
    + intros ch H. destruct (si_chan s I _ H) as (hid & u & A1 & A2 & A3). exists hid, u.
      split; [exact A1|]. split; [|exact A3]. unfold remove_dead. cbn [s_h].
      rewrite (alookup_filter N.eqb Neqb_eq) by exact (si_nd s I). rewrite A2. cbn [snd h_ok]. rewrite A3. reflexivity.
    + exact (si_udph_chan s I).
  - intros Ho hid h H. apply (Ho hid). apply Hl. exact H.
Qed.

(* ------------------------------------------------------------------ *)
(* one iteration of `while mux.ok:`                                    *)

Definition chan16 (f : frame) : Prop := f_ch f <= 65535.

(* why an iteration can raise, in terms of the script alone (given the channel view `open` = s_chan) *)
Definition step_cause (open : list N) (dnsonly : Prop) (e : sevent) (x : exn) : Prop :=
  (x = XAssert /\ (~ no_reopen open (se_frames e) \/
                   (~ (dnsonly /\ Forall is_dns (se_frames e)) /\ ~ Forall io_ok (se_io e)))) \/
  (x = XValue /\ ~ Forall body_ok (se_frames e)) \/
  (x = XOverflow /\ ~ Forall data_body_ok (se_frames e)).

Lemma sstep_inv cfg s e : sinv s -> Forall chan16 (se_frames e) ->
  match sstep all_fixed cfg s e with
  | Ok (s', _) => sinv s' /\ s_chan s' = track (s_chan s) (se_frames e) /\
                  (only_dns s -> Forall is_dns (se_frames e) -> only_dns s')
  | Fatal => False
  | Crash x => step_cause (s_chan s) (only_dns s) e x
  end.
Proof.
  intros I Hw. unfold sstep.
  pose proof (frames_inv cfg (se_now e) (se_frames e) s (se_io e) I Hw) as R1.
  destruct (fold_steps (s_frame all_fixed cfg (se_now e)) (se_frames e) s (se_io e)) as [[[s1 io1] o1]| |x];
    cbn [bind]; [|exact R1|].
  2:{ destruct R1 as [[-> H]|[[-> H]|[-> H]]]; [left; split; [reflexivity|left; exact H]|right; left; auto|right; right; auto]. }
  destruct R1 as (I1 & Hc1 & Hi1 & Ho1).
  pose proof (visits_inv cfg (filter (fun k => k <? s_nsock s) (se_ready e)) (map fst (s_h s1)) s1 io1 I1) as R2.
  destruct (fold_steps (visit all_fixed cfg _) (map fst (s_h s1)) s1 io1) as [[[s2 io2] o2]| |x];
    cbn [bind]; [|exact R2|].
  - destruct R2 as (I2 & Hc2 & Hi2 & Ho2).
    destruct (sweep_inv (se_now e) s2 I2) as (I3 & Hc3 & Ho3).
    destruct (remove_dead_inv _ I3) as (I4 & Hc4 & Ho4).
    split; [exact I4|]. split; [congruence|]. auto.
  - destruct R2 as (-> & Hno & Hnf). left. split; [reflexivity|]. right. split.
    + intros [A B]. exact (Hno (Ho1 A B)).
    + intros HF. apply Hnf. exact (incl_Forall Hi1 HF).
Qed.

(* ------------------------------------------------------------------ *)
(* whole runs                                                          *)

Fixpoint run_no_reopen (open : list N) (evs : list sevent) : Prop :=
  match evs with
  | [] => True
  | e :: tl => no_reopen open (se_frames e) /\ run_no_reopen (track open (se_frames e)) tl
  end.

Definition all_frames (P : frame -> Prop) (evs : list sevent) : Prop :=
  forall e, In e evs -> forall f, In f (se_frames e) -> P f.
Definition all_io (P : io_item -> Prop) (evs : list sevent) : Prop :=
  forall e, In e evs -> forall it, In it (se_io e) -> P it.

Lemma all_frames_cons P e tl : all_frames P (e :: tl) -> Forall P (se_frames e) /\ all_frames P tl.
Proof.
  intros H. split.
  - apply Forall_forall. intros f Hf. exact (H e (or_introl eq_refl) f Hf).
  - intros e' He'. exact (H e' (or_intror He')).
Qed.

Lemma all_io_cons P e tl : all_io P (e :: tl) -> Forall P (se_io e) /\ all_io P tl.
Proof.
  intros H. split.
  - apply Forall_forall. intros f Hf. exact (H e (or_introl eq_refl) f Hf).
  - intros e' He'. exact (H e' (or_intror He')).
Qed.

(* why a run can raise, in terms of the script alone *)
Definition run_cause (open : list N) (dnsonly : Prop) (evs : list sevent) (x : exn) : Prop :=
  (x = XAssert /\ (~ run_no_reopen open evs \/
                   (~ (dnsonly /\ all_frames is_dns evs) /\ ~ all_io io_ok evs))) \/
  (x = XValue /\ ~ all_frames body_ok evs) \/
  (x = XOverflow /\ ~ all_frames data_body_ok evs).

Lemma srun_inv cfg : forall evs s, sinv s -> all_frames chan16 evs ->
  sinv (fst (fst (srun all_fixed cfg s evs))) /\ snd (srun all_fixed cfg s evs) <> Fatal /\
  forall x, snd (srun all_fixed cfg s evs) = Crash x -> run_cause (s_chan s) (only_dns s) evs x.
Proof.
  induction evs as [|e tl IH]; intros s I Hw; cbn [srun].
  - split; [exact I|]. split; [discriminate|]. intros x H. discriminate.
  - apply all_frames_cons in Hw. destruct Hw as [Hw Hwt].
    pose proof (sstep_inv cfg s e I Hw) as R.
    destruct (sstep all_fixed cfg s e) as [[s' o]| |x0].
    + destruct R as (I' & Hc & Ho). specialize (IH s' I' Hwt).
      destruct (srun all_fixed cfg s' tl) as [[s'' os] r]. cbn [fst snd] in *. destruct IH as (IH1 & IHf & IH2).
      split; [exact IH1|]. split; [exact IHf|]. intros x Hx. specialize (IH2 x Hx). rewrite Hc in IH2.
      destruct IH2 as [[-> [H|[H1 H2]]]|[[-> H]|[-> H]]].
      * left. split; [reflexivity|]. left. intros [_ A]. exact (H A).
      * left. split; [reflexivity|]. right. split.
        -- intros [A B]. apply all_frames_cons in B. destruct B as [B1 B2]. apply H1. split; [exact (Ho A B1)|exact B2].
        -- intros A. apply all_io_cons in A. exact (H2 (proj2 A)).
      * right. left. split; [reflexivity|]. intros A. apply all_frames_cons in A. exact (H (proj2 A)).
      * right. right. split; [reflexivity|]. intros A. apply all_frames_cons in A. exact (H (proj2 A)).
    + contradiction.
    + cbn [fst snd]. split; [exact I|]. split; [discriminate|]. intros x [= <-].
      destruct R as [[-> [H|[H1 H2]]]|[[-> H]|[-> H]]].
      * left. split; [reflexivity|]. left. intros [A _]. exact (H A).
      * left. split; [reflexivity|]. right. split.
        -- intros [A B]. apply all_frames_cons in B. apply H1. split; [exact A|exact (proj1 B)].
        -- intros A. apply all_io_cons in A. exact (H2 (proj1 A)).
      * right. left. split; [reflexivity|]. intros A. apply all_frames_cons in A. exact (H (proj1 A)).
      * right. right. split; [reflexivity|]. intros A. apply all_frames_cons in A. exact (H (proj1 A)).
Qed.

Lemma only_dns_init : only_dns s_init.
Proof. intros hid h H. discriminate. Qed.

(* every state the loop reaches satisfies the invariant — whatever the peer sends (16-bit identifiers) and
   whatever the sockets do *)
Theorem server_invariant_reachable cfg evs : all_frames chan16 evs ->
  sinv (fst (fst (srun all_fixed cfg s_init evs))).
Proof. intros H. exact (proj1 (srun_inv cfg evs s_init sinv_init H)). Qed.

(* ALL scripts: the loop raises only AssertionError / ValueError / OverflowError, and each only for a reason
   visible in the script: a DNS_REQ/UDP_OPEN on an open identifier or (with UDP in play) an oversized recvfrom
   peer address; an UDP_OPEN / UDP_DATA body that does not parse; an UDP_DATA port above 65535.
   In particular never KeyError (the table look-ups of udp_req are total), never UnboundLocalError, OSError,
   struct.error, TypeError. *)
Theorem server_crash_classified cfg evs x : all_frames chan16 evs ->
  snd (srun all_fixed cfg s_init evs) = Crash x -> run_cause [] (only_dns s_init) evs x.
Proof. intros H. exact (proj2 (proj2 (srun_inv cfg evs s_init sinv_init H)) x). Qed.

(* ... and (F80 repaired) it never ends with Fatal either, whatever the script *)
Theorem server_never_fatal cfg evs : all_frames chan16 evs ->
  snd (srun all_fixed cfg s_init evs) <> Fatal.
Proof. intros H. exact (proj1 (proj2 (srun_inv cfg evs s_init sinv_init H))). Qed.

Theorem server_crash_kinds cfg evs x : all_frames chan16 evs ->
  snd (srun all_fixed cfg s_init evs) = Crash x -> x = XAssert \/ x = XValue \/ x = XOverflow.
Proof.
  intros H E. destruct (server_crash_classified cfg evs x H E) as [[-> _]|[[-> _]|[-> _]]]; auto.
Qed.

(* conforming scripts (what a correct client produces, what real sockets return): never an exception *)
Theorem server_no_crash_conforming cfg evs :
  all_frames chan16 evs -> run_no_reopen [] evs -> all_frames body_ok evs -> all_io io_ok evs ->
  forall x, snd (srun all_fixed cfg s_init evs) <> Crash x.
Proof.
  intros Hw Hr Hb Hi x E.
  assert (Hd : all_frames data_body_ok evs).
  { intros e He f Hf Hc. specialize (Hb e He f Hf). unfold body_ok in Hb. rewrite Hc in Hb. exact Hb. }
  destruct (server_crash_classified cfg evs x Hw E) as [[_ [H|[_ H]]]|[[_ H]|[_ H]]]; auto.
Qed.

(* DNS-only scripts: identifiers stay closed, so nothing can be re-opened *)
Lemma track_dns open fs : Forall is_dns fs -> track open fs = open.
Proof.
  induction 1 as [|f tl Hf _ IH]; [reflexivity|]. rewrite track_cons. unfold chan_track. rewrite Hf. exact IH.
Qed.

Lemma no_reopen_dns fs : Forall is_dns fs -> no_reopen [] fs.
Proof.
  induction 1 as [|f tl Hf _ IH]; cbn [no_reopen]; [exact Logic.I|]. split; [intros _; reflexivity|].
  unfold chan_track. rewrite Hf. exact IH.
Qed.

Lemma run_no_reopen_dns evs : all_frames is_dns evs -> run_no_reopen [] evs.
Proof.
  induction evs as [|e tl IH]; intros H; cbn [run_no_reopen]; [exact Logic.I|].
  apply all_frames_cons in H. destruct H as [H1 H2]. split; [exact (no_reopen_dns _ H1)|].
  rewrite (track_dns _ _ H1). exact (IH H2).
Qed.

Theorem server_no_crash_dns cfg evs :
  (forall e, In e evs -> forall f, In f (se_frames e) ->
     snd (fst (fst f)) = FDnsReq /\ fst (fst (fst f)) <= 65535) ->
  forall x, snd (srun all_fixed cfg s_init evs) <> Crash x.
Proof.
  intros H x E.
  assert (Hw : all_frames chan16 evs) by (intros e He f Hf; exact (proj2 (H e He f Hf))).
  assert (Hd : all_frames is_dns evs) by (intros e He f Hf; exact (proj1 (H e He f Hf))).
  destruct (server_crash_classified cfg evs x Hw E) as [[_ [A|[A _]]]|[[_ A]|[_ A]]].
  - exact (A (run_no_reopen_dns evs Hd)).
  - apply A. split; [exact only_dns_init|exact Hd].
  - apply A. intros e He f Hf. unfold body_ok. rewrite (Hd e He f Hf). exact Logic.I.
  - apply A. intros e He f Hf Hc. rewrite (Hd e He f Hf) in Hc. discriminate.
Qed.

(* UDP scripts in the shape of Props/C11.v *)
Definition udp_frame_ok (f : frame) : Prop :=
  fst (fst (fst f)) <= 65535 /\
  (snd (fst (fst f)) = FUdpOpen \/ snd (fst (fst f)) = FUdpClose \/
   (snd (fst (fst f)) = FUdpData /\
    exists ip port p, no_comma ip /\ port <= 65535 /\ snd (fst f) = dgram_hdr (ip, port) p)).

(* whatever else is wrong with such a script (identifier opened twice, UDP_OPEN body not a number, absurd
   recvfrom peer), the only exceptions are the assertion of Mux.got_packet / Mux.send and int()'s ValueError *)
Theorem server_udp_only_assert_value cfg evs :
  (forall e, In e evs -> forall f, In f (se_frames e) -> udp_frame_ok f) ->
  forall x, x <> XAssert -> x <> XValue -> snd (srun all_fixed cfg s_init evs) <> Crash x.
Proof.
  intros H x Hx1 Hx2 E.
  assert (Hw : all_frames chan16 evs) by (intros e He f Hf; exact (proj1 (H e He f Hf))).
  destruct (server_crash_classified cfg evs x Hw E) as [[A _]|[[A _]|[_ A]]]; [exact (Hx1 A)|exact (Hx2 A)|].
  apply A. intros e He f Hf Hc. destruct (H e He f Hf) as [_ [B|[B|[_ B]]]].
  - unfold f_cmd in Hc. congruence.
  - unfold f_cmd in Hc. congruence.
  - exact B.
Qed.

(* the same scripts when the peer also respects the identifier discipline and UDP_OPEN carries a number,
   and recvfrom returns address-sized peers: no exception at all *)
Theorem server_no_crash_udp cfg evs :
  (forall e, In e evs -> forall f, In f (se_frames e) ->
     udp_frame_ok f /\ (snd (fst (fst f)) = FUdpOpen -> exists fam, snd (fst f) = dec fam)) ->
  run_no_reopen [] evs -> all_io io_ok evs ->
  forall x, snd (srun all_fixed cfg s_init evs) <> Crash x.
Proof.
  intros H Hr Hi. apply server_no_crash_conforming; [|exact Hr| |exact Hi].
  - intros e He f Hf. exact (proj1 (proj1 (H e He f Hf))).
  - intros e He f Hf. destruct (H e He f Hf) as [[_ B] C]. unfold body_ok, f_cmd, f_data.
    destruct (snd (fst (fst f))) eqn:Ec; try exact Logic.I.
    + destruct (C eq_refl) as [fam ->]. rewrite undec_dec. discriminate.
    + destruct B as [B|[B|[_ B]]]; [discriminate|discriminate|exact B].
Qed.

(* identifiers above 65535 cannot come off the wire ('!H'); without that bound the statement is false of the
   model (struct.error in Mux.send) — this is why the bound is a hypothesis *)
Definition w_bigchan : list sevent :=
  [ {| se_now := 0; se_frames := [(70000, FUdpOpen, dec 2, 0)]; se_ready := []; se_io := [] |};
    {| se_now := 1; se_frames := []; se_ready := [0]; se_io := [IoFrom ["x"%char] (["a"%char], 1)] |} ].

Lemma bigchan_struct : snd (srun all_fixed w_scfg s_init w_bigchan) = Crash XStruct.
Proof. vm_compute. reflexivity. Qed.

(* the script-level reasons are real: each classified exception has a witness *)
Definition w_reopen : list sevent :=
  [ {| se_now := 0; se_frames := [(5, FUdpOpen, dec 2, 0); (5, FDnsReq, ["q"%char], 1)]; se_ready := []; se_io := [] |} ].
Definition w_badopen : list sevent :=
  [ {| se_now := 0; se_frames := [(5, FUdpOpen, ["x"%char], 0)]; se_ready := []; se_io := [] |} ].
Definition w_bigport : list sevent :=
  [ {| se_now := 0; se_frames := [(5, FUdpOpen, dec 2, 0); (5, FUdpData, dgram_hdr (["a"%char], 65536) [], 0)];
       se_ready := []; se_io := [] |} ].
(* F80, the Fatal of udp_open in the code as found: UDP_OPEN, UDP_CLOSE, UDP_OPEN of one identifier inside one
   iteration (the sweep that forgets the closed association only runs after the iteration); repaired: UDP_CLOSE
   forgets the association at once *)
Definition w_fatal_reopen : list sevent :=
  [ {| se_now := 0; se_frames := [(5, FUdpOpen, dec 2, 0); (5, FUdpClose, [], 0); (5, FUdpOpen, dec 2, 0)];
       se_ready := []; se_io := [] |} ].
(* ... and spread over two iterations it is fine *)
Definition w_reopen_next_iteration : list sevent :=
  [ {| se_now := 0; se_frames := [(5, FUdpOpen, dec 2, 0); (5, FUdpClose, [], 0)]; se_ready := []; se_io := [] |};
    {| se_now := 0; se_frames := [(5, FUdpOpen, dec 2, 0)]; se_ready := []; se_io := [] |} ].
(* the aliasing corner: a second DNS_REQ on identifier 7 while the first DnsProxy is alive; the older
   DnsProxy stays in `handlers`, unregistered, past its deadline (time 100 > 0 + 30), the invariant holds *)
Definition w_alias : list sevent :=
  [ {| se_now := 0; se_frames := [(7, FDnsReq, ["a"%char], 0)]; se_ready := []; se_io := [] |};
    {| se_now := 90; se_frames := [(7, FDnsReq, ["b"%char], 1)]; se_ready := []; se_io := [] |};
    {| se_now := 100; se_frames := []; se_ready := []; se_io := [] |} ].

Lemma witnesses_crash :
  snd (srun all_fixed w_scfg s_init w_reopen) = Crash XAssert /\
  snd (srun all_fixed w_scfg s_init w_badopen) = Crash XValue /\
  snd (srun all_fixed w_scfg s_init w_bigport) = Crash XOverflow /\
  snd (srun as_found w_scfg s_init w_fatal_reopen) = Fatal /\
  snd (srun all_fixed w_scfg s_init w_fatal_reopen) = Ok tt /\
  snd (srun all_fixed w_scfg s_init w_reopen_next_iteration) = Ok tt.
Proof. vm_compute. repeat split. Qed.

Lemma alias_state :
  let s := fst (fst (srun all_fixed w_scfg s_init w_alias)) in
  map fst (s_h s) = [0; 1] /\ s_dnsh s = [(7, 1)] /\ snd (srun all_fixed w_scfg s_init w_alias) = Ok tt.
Proof. vm_compute. repeat split. Qed.
