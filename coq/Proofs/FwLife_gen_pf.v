(* Proofs/FwLife_gen_pf.v — C04, general theorems, part 9: pf (repaired code path, F17 fixed).
   1. `pfctl -s all` is parsed exactly: b'INFO:\nStatus: Disabled' in status  <->  pf is disabled,
      for every main ruleset whose anchor names contain no newline;
   2. set-up and tear-down of one family on the pf state, fault-free;
   3. the fault-free session is the identity on the pf state up to the anchor calls it appends to
      the main ruleset (and, on OpenBSD/Darwin with `set skip on lo`, the main ruleset it replaces). *)
From Coq Require Import String List NArith ZArith Ascii Bool Lia Arith.
From SV Require Import Lib.Bytes Model.FwLife Model.FwLifeSpec Proofs.FwLife_lemmas.
Import ListNotations.

Definition nl : ascii := "010"%char.
Definition nlfree (l : bytes) : bool := forallb (fun a => negb (Ascii.eqb a nl)) l.

Fixpoint infx (p l : bytes) : bool :=
  starts_with p l || match l with [] => false | _ :: l' => infx p l' end.

Lemma is_infix_fuel_infx p : forall fuel l, length l < fuel -> is_infix_fuel fuel p l = infx p l.
Proof.
  induction fuel as [|k IH]; intros l H; [lia|]. destruct l as [|a l]; cbn [is_infix_fuel infx]; [reflexivity|].
  rewrite IH by (cbn in H; lia). reflexivity.
Qed.

Lemma is_infix_infx p l : is_infix p l = infx p l.
Proof. unfold is_infix. apply is_infix_fuel_infx. lia. Qed.

Lemma nlfree_app a b : nlfree (a ++ b) = nlfree a && nlfree b.
Proof. unfold nlfree. apply forallb_app. Qed.

Lemma sw_line A B : forall line rest,
  nlfree A = true -> nlfree line = true ->
  (starts_with (A ++ nl :: B) (line ++ nl :: rest) = true <-> line = A /\ starts_with B rest = true).
Proof.
  induction A as [|a A IH]; intros line rest HA HL.
  - destruct line as [|c line]; cbn [app starts_with].
    + rewrite Ascii.eqb_refl. split; [intro H; split; [reflexivity | exact H] | intros [_ H]; exact H].
    + cbn [nlfree forallb] in HL. apply andb_true_iff in HL as [Hc _]. apply negb_true_iff in Hc.
      rewrite Ascii.eqb_sym, Hc. split; [discriminate | intros [E _]; discriminate].
  - cbn [nlfree forallb] in HA. apply andb_true_iff in HA as [Ha HA]. apply negb_true_iff in Ha.
    destruct line as [|c line]; cbn [app starts_with].
    + rewrite Ha. split; [discriminate | intros [E _]; discriminate].
    + cbn [nlfree forallb] in HL. apply andb_true_iff in HL as [_ HL].
      destruct (Ascii.eqb a c) eqn:E.
      * apply Ascii.eqb_eq in E. subst c. rewrite (IH line rest HA HL).
        split; intros [E1 E2]; (split; [|exact E2]); congruence.
      * split; [discriminate|]. intros [E1 _]. injection E1 as E1 _. subst. rewrite Ascii.eqb_refl in E. discriminate.
Qed.

Definition endsw (A l : bytes) : Prop := exists x, l = x ++ A.

Section Occ.
Variables A B : bytes.
Hypothesis HA : nlfree A = true.
Hypothesis HBne : B <> [].
Let P := A ++ nl :: B.

Definition Occ (L : list bytes) : Prop := infx P (join_lines L) = true.

Lemma occ_line line rest :
  nlfree line = true ->
  (infx P (line ++ nl :: rest) = true <-> (endsw A line /\ starts_with B rest = true) \/ infx P rest = true).
Proof.
  induction line as [|c line IH]; intro HL.
  - cbn [app infx]. rewrite orb_true_iff. change (nl :: rest) with ([] ++ nl :: rest).
    unfold P. rewrite (sw_line A B [] rest HA eq_refl). split.
    + intros [[E S]|H]; [left; split; [exists []; rewrite <- E; reflexivity | exact S] | right; exact H].
    + intros [[(x & E) S]|H]; [left | right; exact H]. split; [|exact S].
      destruct x; [exact E | discriminate].
  - cbn [nlfree forallb] in HL. apply andb_true_iff in HL as [Hc HL].
    cbn [app infx]. rewrite orb_true_iff. change (c :: line ++ nl :: rest) with ((c :: line) ++ nl :: rest).
    unfold P at 1. rewrite (sw_line A B (c :: line) rest HA) by (cbn [nlfree forallb]; rewrite Hc; exact HL).
    rewrite (IH HL). split.
    + intros [[E S]|[[(x & E) S]|H]].
      * left. split; [exists []; rewrite E; reflexivity | exact S].
      * left. split; [exists (c :: x); rewrite E; reflexivity | exact S].
      * right. exact H.
    + intros [[(x & E) S]|H]; [|right; right; exact H].
      destruct x as [|c' x]; [left; split; [exact E | exact S]|].
      right. left. injection E as _ E. split; [exists x; exact E | exact S].
Qed.

Lemma join_cons l L : join_lines (l :: L) = l ++ nl :: join_lines L.
Proof. unfold join_lines. cbn [flat_map]. rewrite <- app_assoc. reflexivity. Qed.

Lemma occ_cons l L :
  nlfree l = true -> (Occ (l :: L) <-> (endsw A l /\ starts_with B (join_lines L) = true) \/ Occ L).
Proof. intro H. unfold Occ. rewrite join_cons. apply occ_line. exact H. Qed.

Lemma occ_nil : ~ Occ [].
Proof. unfold Occ, P. cbn. destruct A; cbn; discriminate. Qed.

Lemma occ_skip L1 : forall L2,
  (forall l, In l L1 -> nlfree l = true /\ ~ endsw A l) -> (Occ (L1 ++ L2) <-> Occ L2).
Proof.
  induction L1 as [|l L1 IH]; intros L2 H; [reflexivity|]. cbn [app].
  destruct (H l (or_introl eq_refl)) as [Hn He]. rewrite (occ_cons l _ Hn).
  rewrite (IH L2) by (intros x Hx; apply H; right; exact Hx). split; [intros [[E _]|O]; [contradiction | exact O] | intro O; right; exact O].
Qed.

Lemma endsw_rev l : endsw A l -> starts_with (rev A) (rev l) = true.
Proof.
  intros (x & ->). rewrite rev_app_distr. rewrite <- (app_nil_r (rev A)) at 1.
  rewrite starts_with_app. reflexivity.
Qed.
End Occ.

(* ---- the status text of pf ---- *)
Definition pA : bytes := bs "INFO:".
Definition pB : bytes := bs "Status: Disabled".
Definition dis_parse (p : pfstate) : bool :=
  is_infix (bs "INFO:" ++ ["010"%char] ++ bs "Status: Disabled") (join_lines (pf_status_lines p)).

Definition calls_ok (cl : list (bool * tok)) : bool := forallb (fun c : bool * tok => nlfree (snd c)) cl.

Lemma not_endsw_last (a b : ascii) A l : a <> b -> ~ endsw (A ++ [a]) (l ++ [b]).
Proof. intros Hne (x & E). rewrite app_assoc in E. apply app_inj_tail in E as [_ E]. congruence. Qed.

Lemma dis_parse_exact p : calls_ok (pf_calls p) = true -> dis_parse p = negb (pf_enabled p).
Proof.
  intro Hc. unfold dis_parse. rewrite is_infix_infx.
  change (bs "INFO:" ++ ["010"%char] ++ bs "Status: Disabled") with (pA ++ nl :: pB).
  set (st := if pf_enabled p then bs "Status: Enabled for 0 days 00:00:01           Debug: Urgent"
             else bs "Status: Disabled for 0 days 00:00:01          Debug: Urgent").
  set (rd := map (fun c : bool * tok => bs "rdr-anchor """ ++ snd c ++ bs """ all") (filter (fun c : bool * tok => fst c) (pf_calls p))).
  set (an := map (fun c : bool * tok => bs "anchor """ ++ snd c ++ bs """ all") (filter (fun c : bool * tok => negb (fst c)) (pf_calls p))).
  assert (EL : pf_status_lines p = ([bs "TRANSLATION RULES:"] ++ rd ++ [[]; bs "FILTER RULES:"] ++ an ++ [[]]) ++ [pA; st]).
  { unfold pf_status_lines. fold rd an st. rewrite <- !app_assoc. reflexivity. }
  rewrite EL.
  assert (HpB : pB <> []) by discriminate.
  assert (Hsk : forall l, In l ([bs "TRANSLATION RULES:"] ++ rd ++ [[]; bs "FILTER RULES:"] ++ an ++ [[]]) ->
                          nlfree l = true /\ ~ endsw pA l).
  { assert (Hfix : forall l, nlfree l = true -> starts_with (rev pA) (rev l) = false -> nlfree l = true /\ ~ endsw pA l).
    { intros l H1 H2. split; [exact H1|]. intro E. apply endsw_rev in E. congruence. }
    assert (Hcall : forall pre c, In c (pf_calls p) -> nlfree pre = true ->
                                  nlfree (pre ++ snd c ++ bs """ all") = true /\ ~ endsw pA (pre ++ snd c ++ bs """ all")).
    { intros pre c Hin Hpre. unfold calls_ok in Hc. rewrite forallb_forall in Hc. split.
      - rewrite !nlfree_app, Hpre, (Hc c Hin). reflexivity.
      - change (bs """ all") with (bs """ al" ++ ["l"%char]). rewrite !app_assoc.
        change pA with (bs "INFO" ++ [":"%char]). apply not_endsw_last. discriminate. }
    intros l Hin. rewrite !in_app_iff in Hin. destruct Hin as [Hin|[Hin|[Hin|[Hin|Hin]]]].
    - destruct Hin as [<-|[]]. apply Hfix; reflexivity.
    - unfold rd in Hin. apply in_map_iff in Hin as (c & <- & Hc'). apply filter_In in Hc' as [Hc' _].
      apply (Hcall (bs "rdr-anchor """) c Hc'). reflexivity.
    - destruct Hin as [<-|[<-|[]]]; apply Hfix; reflexivity.
    - unfold an in Hin. apply in_map_iff in Hin as (c & <- & Hc'). apply filter_In in Hc' as [Hc' _].
      apply (Hcall (bs "anchor """) c Hc'). reflexivity.
    - destruct Hin as [<-|[]]. apply Hfix; reflexivity. }
  pose proof (occ_skip pA pB eq_refl _ [pA; st] Hsk) as O1.
  assert (Hst : nlfree st = true) by (unfold st; destruct (pf_enabled p); reflexivity).
  pose proof (occ_cons pA pB eq_refl pA [st] eq_refl) as O2.
  pose proof (occ_cons pA pB eq_refl st [] Hst) as O3.
  unfold Occ in *.
  destruct (pf_enabled p) eqn:En; cbn [negb].
  - destruct (infx (pA ++ nl :: pB) (join_lines (([bs "TRANSLATION RULES:"] ++ rd ++ [[]; bs "FILTER RULES:"] ++ an ++ [[]]) ++ [pA; st]))) eqn:X; [|reflexivity].
    exfalso. apply O1 in X. apply O2 in X. destruct X as [[_ S]|X].
    + unfold st in S. vm_compute in S. discriminate.
    + apply O3 in X. destruct X as [[_ S]|X]; [vm_compute in S; discriminate | exact (occ_nil pA pB eq_refl X)].
  - apply O1. apply O2. left. split; [exists []; reflexivity|]. unfold st. vm_compute. reflexivity.
Qed.

(* ---- one family's set-up / tear-down on the pf state, fault-free ---- *)
Definition with_pf (s : kstate) (p : pfstate) : kstate :=
  mkK (k_v6nat s) (k_v6mangle s) (k_v4nat s) (k_v4mangle s) (k_nft s) p.

Definition skiptext (os : pfos) : bytes :=
  match os with OpenBSD => bs "match on lo" ++ ["010"%char] | _ => bs "pass on lo" ++ ["010"%char] end.
Definition is_freebsd (os : pfos) : bool := match os with FreeBSD => true | _ => false end.

Record SetupSpec (os : pfos) (a : tok) (text : bytes) (py : pyctx) (p : pfstate) (py' : pyctx) (p' : pfstate) : Prop := mkSS {
  ss_loaded : pf_loaded p' = true;
  ss_anchors : pf_anchors p' = anchor_set a text (pf_anchors p);
  ss_main : (pf_main p', pf_skip_lo p') =
            if negb (is_freebsd os) && pf_skip_lo p then (pf_main p ++ [skiptext os], false) else (pf_main p, pf_skip_lo p);
  ss_calls : calls_ok (pf_calls p') = true;
  ss_en : match os with
          | Darwin => pf_on p' = pf_on p /\ pf_refs p' = pf_refs p ++ [dec (pf_next p)] /\ pf_next p' = N.succ (pf_next p) /\
                      py_tokens py' = py_tokens py ++ [dec (pf_next p)] /\ py_started py' = py_started py
          | _ => pf_refs p' = pf_refs p /\ pf_next p' = pf_next p /\ py_tokens py' = py_tokens py /\
                 if pf_enabled p then pf_on p' = pf_on p /\ py_started py' = py_started py
                 else pf_on p' = true /\ py_started py' = Z.succ (py_started py)
          end;
  ss_pyl : py_loaded py' = py_loaded py
}.

Lemma skip_yes : is_infix (bs "skip") (join_lines [bs "lo0 (skip)"]) = true.
Proof. vm_compute. reflexivity. Qed.
Lemma skip_no : is_infix (bs "skip") (join_lines [bs "lo0"]) = false.
Proof. vm_compute. reflexivity. Qed.

Lemma calls_ok_app a b : calls_ok (a ++ b) = calls_ok a && calls_ok b.
Proof. unfold calls_ok. apply forallb_app. Qed.

Lemma pf_setup_nf os f port body py n s :
  pf_loaded (k_pf s) = true -> calls_ok (pf_calls (k_pf s)) = true -> nlfree (pf_anchor f port) = true ->
  exists py' n' p' ev,
    pf_setup no_faults os f port body py n s = (true, py', n', with_pf s p', ev) /\
    SetupSpec os (pf_anchor f port) (match body with (_, [x]) :: _ => x | _ => [] end) py (k_pf s) py' p'.
Proof.
  intros Hl Hc Ha. destruct s as [t1 t2 t3 t4 nf p]. destruct p as [ld on refs nx sk mn cl an].
  cbn [k_pf pf_loaded pf_calls] in Hl, Hc. subst ld.
  unfold pf_setup, pf_do, pf_ioctl_add, issue, no_faults.
  destruct os; destruct sk; destruct on; destruct refs as [|r0 refs].
  all: cbn -[is_infix join_lines pf_status_lines dec anchor_set Z.succ N.succ].
  all: rewrite ?skip_yes, ?skip_no.
  all: cbn -[is_infix join_lines pf_status_lines dec anchor_set Z.succ N.succ].
  all: repeat (match goal with
               | |- context [is_infix ?a (join_lines (pf_status_lines ?P))] =>
                   first [ change (is_infix a (join_lines (pf_status_lines P))) with (dis_parse P);
                           rewrite (dis_parse_exact P) by (cbn [pf_calls]; rewrite ?calls_ok_app, ?Hc; cbn [calls_ok forallb snd andb]; rewrite ?Ha; reflexivity)
                         | destruct (is_infix a (join_lines (pf_status_lines P))) ]
               end; cbn -[is_infix join_lines pf_status_lines dec anchor_set Z.succ N.succ]).
  all: do 4 eexists; (split; [unfold with_pf; cbn [k_v6nat k_v6mangle k_v4nat k_v4mangle k_nft]; reflexivity|]).
  all: constructor; cbn -[dec anchor_set Z.succ N.succ]; try reflexivity.
  all: rewrite ?calls_ok_app, ?Hc; cbn [calls_ok forallb snd andb]; rewrite ?Ha; try reflexivity.
  all: try first [exact Hc | repeat split; reflexivity].
  all: change (forallb (fun a : ascii => negb (Ascii.eqb a nl)) (pf_anchor f port)) with (nlfree (pf_anchor f port)); rewrite Ha; reflexivity.
Qed.

Record RestoreSpec (os : pfos) (a : tok) (py : pyctx) (p : pfstate) (py' : pyctx) (p' : pfstate) : Prop := mkRS {
  rs_loaded : pf_loaded p' = true;
  rs_anchors : pf_anchors p' = anchor_del a (pf_anchors p);
  rs_same : pf_main p' = pf_main p /\ pf_skip_lo p' = pf_skip_lo p /\ pf_next p' = pf_next p /\ pf_calls p' = pf_calls p;
  rs_pyl : py_loaded py' = false;
  rs_en : match os with
          | Darwin => pf_on p' = pf_on p /\ py_started py' = py_started py /\
                      match rev (py_tokens py) with
                      | [] => pf_refs p' = pf_refs p /\ py_tokens py' = py_tokens py
                      | t :: rest => py_tokens py' = rev rest /\
                                     pf_refs p' = match tok_del t (pf_refs p) with Some l => l | None => pf_refs p end
                      end
          | _ => py_tokens py' = py_tokens py /\
                 if Z.eqb (py_started py) 1
                 then (if pf_enabled p
                       then pf_on p' = false /\ pf_refs p' = [] /\ py_started py' = Z.pred (py_started py)
                       else pf_on p' = pf_on p /\ pf_refs p' = pf_refs p /\ py_started py' = py_started py)
                 else pf_on p' = pf_on p /\ pf_refs p' = pf_refs p /\ py_started py' = Z.pred (py_started py)
          end
}.

Lemma pf_restore_nf rep os f port py n s :
  pf_loaded (k_pf s) = true -> py_loaded py = false ->
  exists ok py' n' p' ev,
    pf_restore rep no_faults os f port py n s = (ok, py', n', with_pf s p', ev) /\
    RestoreSpec os (pf_anchor f port) py (k_pf s) py' p'.
Proof.
  intros Hl Hpl. destruct s as [t1 t2 t3 t4 nf p]. destruct p as [ld on refs nx sk mn cl an].
  destruct py as [st pl tk]. cbn [k_pf pf_loaded py_loaded] in Hl, Hpl. subst ld pl.
  unfold pf_restore, pf_do, issue, no_faults.
  destruct os; [destruct (Z.eqb st 1) eqn:E1; destruct on; destruct refs as [|r0 refs]
               | destruct (Z.eqb st 1) eqn:E1; destruct on; destruct refs as [|r0 refs]
               | destruct (rev tk) as [|t rest] eqn:Rv; [|destruct (tok_del t refs) as [l|] eqn:Td] ].
  all: cbn -[anchor_del Z.pred Z.eqb tok_del rev]; rewrite ?E1, ?Rv, ?Td; cbn -[anchor_del Z.pred Z.eqb tok_del rev]; rewrite ?E1, ?Rv, ?Td.
  all: cbn -[anchor_del Z.pred Z.eqb tok_del rev].
  all: do 5 eexists; (split; [unfold with_pf; cbn [k_v6nat k_v6mangle k_v4nat k_v4mangle k_nft]; reflexivity|]).
  all: constructor; cbn -[anchor_del Z.pred Z.eqb tok_del rev]; rewrite ?E1, ?Rv, ?Td; try reflexivity.
  all: try (repeat split; reflexivity).
Qed.

Lemma pf_setup_unloaded os f port body py n s :
  pf_loaded (k_pf s) = false ->
  exists n' ev, pf_setup no_faults os f port body py n s = (false, py, n', s, ev).
Proof.
  intro Hl. destruct s as [t1 t2 t3 t4 nf p]. destruct p as [ld on refs nx sk mn cl an].
  cbn [k_pf pf_loaded] in Hl. subst ld. unfold pf_setup, pf_do, issue, no_faults.
  destruct os; cbn -[is_infix join_lines]; do 2 eexists; reflexivity.
Qed.

Lemma pf_restore_unloaded rep os f port py n s :
  pf_loaded (k_pf s) = false ->
  exists ok py' n' ev, pf_restore rep no_faults os f port py n s = (ok, py', n', s, ev).
Proof.
  intro Hl. destruct s as [t1 t2 t3 t4 nf p]. destruct p as [ld on refs nx sk mn cl an].
  cbn [k_pf pf_loaded] in Hl. subst ld. unfold pf_restore, pf_do, issue, no_faults.
  destruct rep; [|cbn; do 4 eexists; reflexivity].
  destruct os; [destruct (Z.eqb (py_started py) 1) | destruct (Z.eqb (py_started py) 1) | destruct (rev (py_tokens py))];
    cbn; do 4 eexists; reflexivity.
Qed.

(* ---- anchors and tokens ---- *)
Lemma anchor_del_app a L1 L2 : anchor_del a (L1 ++ L2) = anchor_del a L1 ++ anchor_del a L2.
Proof.
  induction L1 as [|[n x] L1 IH]; [reflexivity|]. cbn [app anchor_del].
  destruct (bytes_eqb n a); [exact IH | cbn [app]; rewrite IH; reflexivity].
Qed.

Lemma anchor_del_idem a L : anchor_del a (anchor_del a L) = anchor_del a L.
Proof.
  induction L as [|[n x] L IH]; [reflexivity|]. cbn [anchor_del].
  destruct (bytes_eqb n a) eqn:E; [exact IH | cbn [anchor_del]; rewrite E, IH; reflexivity].
Qed.

Lemma anchor_del_comm a b L : anchor_del a (anchor_del b L) = anchor_del b (anchor_del a L).
Proof.
  induction L as [|[n x] L IH]; [reflexivity|]. cbn [anchor_del].
  destruct (bytes_eqb n b) eqn:Eb; destruct (bytes_eqb n a) eqn:Ea; cbn [anchor_del]; rewrite ?Ea, ?Eb, ?IH; reflexivity.
Qed.

Lemma anchor_del_set_same a t L : anchor_del a (anchor_set a t L) = anchor_del a L.
Proof.
  unfold anchor_set. destruct t; [apply anchor_del_idem|].
  rewrite anchor_del_app, anchor_del_idem. cbn [anchor_del]. rewrite bytes_eqb_refl. apply app_nil_r.
Qed.

Lemma anchor_del_set_other a b t L : b <> a -> anchor_del a (anchor_set b t L) = anchor_set b t (anchor_del a L).
Proof.
  intro Hne. unfold anchor_set. destruct t; [apply anchor_del_comm|].
  rewrite anchor_del_app, anchor_del_comm. cbn [anchor_del].
  assert (E : bytes_eqb b a = false) by (apply bytes_eqb_neq; exact Hne). rewrite E. reflexivity.
Qed.

Lemma tok_del_notin_app t l r : ~ In t l -> tok_del t (l ++ r) = match tok_del t r with Some r' => Some (l ++ r') | None => None end.
Proof.
  induction l as [|x l IH]; intro H; cbn [app tok_del]; [destruct (tok_del t r); reflexivity|].
  assert (E : bytes_eqb x t = false) by (apply bytes_eqb_neq; intro E; apply H; left; exact E). rewrite E.
  rewrite IH by (intro Hi; apply H; right; exact Hi). destruct (tok_del t r); reflexivity.
Qed.

Lemma tok_del_last t l : ~ In t l -> tok_del t (l ++ [t]) = Some l.
Proof. intro H. rewrite (tok_del_notin_app t l [t] H). cbn [tok_del]. rewrite bytes_eqb_refl, app_nil_r. reflexivity. Qed.

Lemma tok_del_last2 t1 t2 l : ~ In t2 l -> tok_del t2 ((l ++ [t1]) ++ [t2]) = Some (l ++ [t1]).
Proof.
  intro H. rewrite <- app_assoc. rewrite (tok_del_notin_app t2 l _ H). cbn [app tok_del].
  destruct (bytes_eqb t1 t2) eqn:E.
  - apply bytes_eqb_eq in E. subst. reflexivity.
  - rewrite bytes_eqb_refl. reflexivity.
Qed.

Lemma pf_anchor_ne p6 p4 : pf_anchor V6 p6 <> pf_anchor V4 p4.
Proof. unfold pf_anchor. cbn [app]. discriminate. Qed.

Lemma pf_anchor_nlfree f p : nlfree p = true -> nlfree (pf_anchor f p) = true.
Proof. intro H. destruct f; unfold pf_anchor; rewrite nlfree_app, H; reflexivity. Qed.

(* ---- the fault-free session ---- *)
Definition pf_text_of (body : list (tok * rule)) : bytes := match body with (_, [x]) :: _ => x | _ => [] end.

Lemma with_pf_id s : with_pf s (k_pf s) = s.
Proof. destruct s; reflexivity. Qed.

Lemma pf_session_loaded os c cut s0 :
  c_method c = MPf os -> c_repaired c = true -> c_udp c = false -> c_nlines c <= cut ->
  pf_loaded (k_pf s0) = true -> calls_ok (pf_calls (k_pf s0)) = true ->
  (forall f, fc_on (fcfg c f) = true -> nlfree (fc_port (fcfg c f)) = true) ->
  exists py1 p1 py2 p2 py3 p3 py4 p4,
    r_final (session c cut no_faults s0) = with_pf s0 p4 /\
    (if fc_on (c_v6 c) then SetupSpec os (pf_anchor V6 (fc_port (c_v6 c))) (pf_text_of (fc_body (c_v6 c))) (py_init c) (k_pf s0) py1 p1
     else py1 = py_init c /\ p1 = k_pf s0) /\
    (if fc_on (c_v4 c) then SetupSpec os (pf_anchor V4 (fc_port (c_v4 c))) (pf_text_of (fc_body (c_v4 c))) py1 p1 py2 p2
     else py2 = py1 /\ p2 = p1) /\
    (if fc_on (c_v6 c) then RestoreSpec os (pf_anchor V6 (fc_port (c_v6 c))) py2 p2 py3 p3 else py3 = py2 /\ p3 = p2) /\
    (if fc_on (c_v4 c) then RestoreSpec os (pf_anchor V4 (fc_port (c_v4 c))) py3 p3 py4 p4 else py4 = py3 /\ p4 = p3).
Proof.
  intros Hm Hrep Hudp Hle Hl Hc Hn. unfold session.
  assert (Lt : Nat.ltb cut (c_nlines c) = false) by (apply Nat.ltb_ge; exact Hle). rewrite Lt.
  unfold udp_refused. rewrite Hudp. cbn [andb]. unfold do_setup, do_restore. rewrite Hm.
  assert (Hpl0 : py_loaded (py_init c) = false) by (unfold py_init; rewrite Hrep; reflexivity).
  (* phase 1 *)
  assert (P1 : exists ok6 py1 n1 p1 ev1,
             (if fc_on (c_v6 c)
              then let '(ok, py, n, s, ev) := pf_setup no_faults os V6 (fc_port (fcfg c V6)) (fc_body (fcfg c V6)) (py_init c) 0 s0 in
                   (ok, py, n, s, EMark (MSetup V6) :: ev)
              else (true, py_init c, 0, s0, [])) = (ok6, py1, n1, with_pf s0 p1, ev1) /\ ok6 = true /\
             (if fc_on (c_v6 c) then SetupSpec os (pf_anchor V6 (fc_port (c_v6 c))) (pf_text_of (fc_body (c_v6 c))) (py_init c) (k_pf s0) py1 p1
              else py1 = py_init c /\ p1 = k_pf s0)).
  { destruct (fc_on (c_v6 c)) eqn:On.
    - destruct (pf_setup_nf os V6 (fc_port (fcfg c V6)) (fc_body (fcfg c V6)) (py_init c) 0 s0 Hl Hc
                  (pf_anchor_nlfree _ _ (Hn V6 On))) as (py1 & n1 & p1 & ev1 & E & S).
      rewrite E. do 5 eexists. split; [reflexivity|]. split; [reflexivity | exact S].
    - exists true, (py_init c), 0, (k_pf s0), []. rewrite with_pf_id. split; [reflexivity|]. split; [reflexivity | split; reflexivity]. }
  destruct P1 as (ok6 & py1 & n1 & p1 & ev1 & E1 & -> & S1). rewrite E1. cbn [andb].
  assert (Hl1 : pf_loaded p1 = true) by (destruct (fc_on (c_v6 c)); [exact (ss_loaded _ _ _ _ _ _ _ S1) | destruct S1 as [_ ->]; exact Hl]).
  assert (Hc1 : calls_ok (pf_calls p1) = true) by (destruct (fc_on (c_v6 c)); [exact (ss_calls _ _ _ _ _ _ _ S1) | destruct S1 as [_ ->]; exact Hc]).
  assert (Hpl1 : py_loaded py1 = false) by (destruct (fc_on (c_v6 c)); [rewrite (ss_pyl _ _ _ _ _ _ _ S1); exact Hpl0 | destruct S1 as [-> _]; exact Hpl0]).
  (* phase 2 *)
  assert (P2 : exists ok4 py2 n2 p2 ev2,
             (if fc_on (c_v4 c)
              then let '(ok, py, n, s, ev) := pf_setup no_faults os V4 (fc_port (fcfg c V4)) (fc_body (fcfg c V4)) py1 n1 (with_pf s0 p1) in
                   (ok, py, n, s, EMark (MSetup V4) :: ev)
              else (true, py1, n1, with_pf s0 p1, [])) = (ok4, py2, n2, with_pf s0 p2, ev2) /\ ok4 = true /\
             (if fc_on (c_v4 c) then SetupSpec os (pf_anchor V4 (fc_port (c_v4 c))) (pf_text_of (fc_body (c_v4 c))) py1 p1 py2 p2
              else py2 = py1 /\ p2 = p1)).
  { destruct (fc_on (c_v4 c)) eqn:On.
    - destruct (pf_setup_nf os V4 (fc_port (fcfg c V4)) (fc_body (fcfg c V4)) py1 n1 (with_pf s0 p1) Hl1 Hc1
                  (pf_anchor_nlfree _ _ (Hn V4 On))) as (py2 & n2 & p2 & ev2 & E & S).
      rewrite E. do 5 eexists. split; [reflexivity|]. split; [reflexivity | exact S].
    - exists true, py1, n1, p1, []. split; [reflexivity|]. split; [reflexivity | split; reflexivity]. }
  destruct P2 as (ok4 & py2 & n2 & p2 & ev2 & E2 & -> & S2). rewrite E2.
  assert (Hl2 : pf_loaded p2 = true) by (destruct (fc_on (c_v4 c)); [exact (ss_loaded _ _ _ _ _ _ _ S2) | destruct S2 as [_ ->]; exact Hl1]).
  assert (Hpl2 : py_loaded py2 = false) by (destruct (fc_on (c_v4 c)); [rewrite (ss_pyl _ _ _ _ _ _ _ S2); exact Hpl1 | destruct S2 as [-> _]; exact Hpl1]).
  destruct (wait_loop (firstn (cut - c_nlines c) (c_tail c))) as [hosts lf].
  (* phase 3 *)
  assert (P3 : exists ok7 py3 n3 p3 ev3,
             (if fc_on (c_v6 c)
              then let '(ok, py, n, s, ev) := pf_restore (c_repaired c) no_faults os V6 (fc_port (fcfg c V6)) py2 n2 (with_pf s0 p2) in
                   (ok, py, n, s, EMark (MRestore V6) :: ev)
              else (true, py2, n2, with_pf s0 p2, [])) = (ok7, py3, n3, with_pf s0 p3, ev3) /\
             (if fc_on (c_v6 c) then RestoreSpec os (pf_anchor V6 (fc_port (c_v6 c))) py2 p2 py3 p3 else py3 = py2 /\ p3 = p2)).
  { destruct (fc_on (c_v6 c)) eqn:On.
    - destruct (pf_restore_nf (c_repaired c) os V6 (fc_port (fcfg c V6)) py2 n2 (with_pf s0 p2) Hl2 Hpl2) as (ok & py3 & n3 & p3 & ev3 & E & S).
      rewrite E. do 5 eexists. split; [reflexivity | exact S].
    - exists true, py2, n2, p2, []. split; [reflexivity | split; reflexivity]. }
  destruct P3 as (ok7 & py3 & n3 & p3 & ev3 & E3 & S3). rewrite E3.
  assert (Hl3 : pf_loaded p3 = true) by (destruct (fc_on (c_v6 c)); [exact (rs_loaded _ _ _ _ _ _ S3) | destruct S3 as [_ ->]; exact Hl2]).
  assert (Hpl3 : py_loaded py3 = false) by (destruct (fc_on (c_v6 c)); [exact (rs_pyl _ _ _ _ _ _ S3) | destruct S3 as [-> _]; exact Hpl2]).
  assert (P4 : exists ok8 py4 n4 p4 ev4,
             (if fc_on (c_v4 c)
              then let '(ok, py, n, s, ev) := pf_restore (c_repaired c) no_faults os V4 (fc_port (fcfg c V4)) py3 n3 (with_pf s0 p3) in
                   (ok, py, n, s, EMark (MRestore V4) :: ev)
              else (true, py3, n3, with_pf s0 p3, [])) = (ok8, py4, n4, with_pf s0 p4, ev4) /\
             (if fc_on (c_v4 c) then RestoreSpec os (pf_anchor V4 (fc_port (c_v4 c))) py3 p3 py4 p4 else py4 = py3 /\ p4 = p3)).
  { destruct (fc_on (c_v4 c)) eqn:On.
    - destruct (pf_restore_nf (c_repaired c) os V4 (fc_port (fcfg c V4)) py3 n3 (with_pf s0 p3) Hl3 Hpl3) as (ok & py4 & n4 & p4 & ev4 & E & S).
      rewrite E. do 5 eexists. split; [reflexivity | exact S].
    - exists true, py3, n3, p3, []. split; [reflexivity | split; reflexivity]. }
  destruct P4 as (ok8 & py4 & n4 & p4 & ev4 & E4 & S4). rewrite E4.
  exists py1, p1, py2, p2, py3, p3, py4, p4. cbn [r_final]. split; [reflexivity|]. repeat split; assumption.
Qed.

(* the enable bookkeeping of pf.py as functions *)
Definition gen_setup (x : bool * list tok * Z) : bool * list tok * Z :=
  let '(on, refs, st) := x in
  if on || match refs with [] => false | _ => true end then (on, refs, st) else (true, refs, Z.succ st).
Definition gen_restore (x : bool * list tok * Z) : bool * list tok * Z :=
  let '(on, refs, st) := x in
  if Z.eqb st 1
  then (if on || match refs with [] => false | _ => true end then (false, [], Z.pred st) else (on, refs, st))
  else (on, refs, Z.pred st).
Definition dar_setup (x : list tok * N * list tok) : list tok * N * list tok :=
  let '(refs, nx, tk) := x in (refs ++ [dec nx], N.succ nx, tk ++ [dec nx]).
Definition dar_restore (x : list tok * list tok) : list tok * list tok :=
  let '(refs, tk) := x in
  match rev tk with
  | [] => (refs, tk)
  | t :: rest => (match tok_del t refs with Some l => l | None => refs end, rev rest)
  end.

Lemma gen_ss os a t py p py' p' : os <> Darwin -> SetupSpec os a t py p py' p' ->
  (pf_on p', pf_refs p', py_started py') = gen_setup (pf_on p, pf_refs p, py_started py).
Proof.
  intros Hos S. pose proof (ss_en _ _ _ _ _ _ _ S) as E. unfold gen_setup, pf_enabled in *.
  destruct os; [| |contradiction]; destruct E as (-> & _ & _ & E);
    destruct (pf_on p || match pf_refs p with [] => false | _ :: _ => true end); destruct E as [-> ->]; reflexivity.
Qed.

Lemma gen_rs os a py p py' p' : os <> Darwin -> RestoreSpec os a py p py' p' ->
  (pf_on p', pf_refs p', py_started py') = gen_restore (pf_on p, pf_refs p, py_started py).
Proof.
  intros Hos S. pose proof (rs_en _ _ _ _ _ _ S) as E. unfold gen_restore, pf_enabled in *.
  destruct os; [| |contradiction]; destruct E as (_ & E); destruct (Z.eqb (py_started py) 1);
    try (destruct (pf_on p || match pf_refs p with [] => false | _ :: _ => true end));
    destruct E as (-> & -> & ->); reflexivity.
Qed.

Lemma dar_ss a t py p py' p' : SetupSpec Darwin a t py p py' p' ->
  pf_on p' = pf_on p /\ (pf_refs p', pf_next p', py_tokens py') = dar_setup (pf_refs p, pf_next p, py_tokens py).
Proof.
  intro S. pose proof (ss_en _ _ _ _ _ _ _ S) as E. cbv beta iota in E. destruct E as (-> & -> & -> & -> & _).
  split; reflexivity.
Qed.

Lemma dar_rs a py p py' p' : RestoreSpec Darwin a py p py' p' ->
  pf_on p' = pf_on p /\ pf_next p' = pf_next p /\ (pf_refs p', py_tokens py') = dar_restore (pf_refs p, py_tokens py).
Proof.
  intro S. pose proof (rs_en _ _ _ _ _ _ S) as E. cbv beta iota in E. destruct E as (-> & _ & E).
  destruct (rs_same _ _ _ _ _ _ S) as (_ & _ & -> & _). split; [reflexivity|]. split; [reflexivity|].
  unfold dar_restore. destruct (rev (py_tokens py)); destruct E as [-> ->]; reflexivity.
Qed.

Definition opt_del (on : bool) (a : tok) (L : list (tok * bytes)) : list (tok * bytes) :=
  if on then anchor_del a L else L.

(* what the chain of four phases does *)
Lemma pf_chain os (on6 on4 : bool) a6 a4 t6 t4 py0 p0 py1 p1 py2 p2 py3 p3 py4 p4 :
  a6 <> a4 -> py_started py0 = 0%Z -> py_tokens py0 = [] ->
  (os = Darwin -> ~ In (dec (pf_next p0)) (pf_refs p0) /\ ~ In (dec (N.succ (pf_next p0))) (pf_refs p0)) ->
  (if on6 then SetupSpec os a6 t6 py0 p0 py1 p1 else py1 = py0 /\ p1 = p0) ->
  (if on4 then SetupSpec os a4 t4 py1 p1 py2 p2 else py2 = py1 /\ p2 = p1) ->
  (if on6 then RestoreSpec os a6 py2 p2 py3 p3 else py3 = py2 /\ p3 = p2) ->
  (if on4 then RestoreSpec os a4 py3 p3 py4 p4 else py4 = py3 /\ p4 = p3) ->
  pf_on p4 = pf_on p0 /\ pf_refs p4 = pf_refs p0 /\
  pf_anchors p4 = opt_del on4 a4 (opt_del on6 a6 (pf_anchors p0)) /\
  (is_freebsd os || negb (pf_skip_lo p0) = true -> pf_main p4 = pf_main p0 /\ pf_skip_lo p4 = pf_skip_lo p0).
Proof.
  intros Hne Hst Htk Hfr S1 S2 S3 S4.
  assert (Anch : pf_anchors p4 = opt_del on4 a4 (opt_del on6 a6 (pf_anchors p0))).
  { unfold opt_del. destruct on6, on4;
      repeat match goal with
             | H : SetupSpec _ _ _ _ _ _ _ |- _ => pose proof (ss_anchors _ _ _ _ _ _ _ H); clear H
             | H : RestoreSpec _ _ _ _ _ _ |- _ => pose proof (rs_anchors _ _ _ _ _ _ H); clear H
             | H : _ = _ /\ _ = _ |- _ => destruct H as [? ?]
             end; subst;
      repeat match goal with H : pf_anchors _ = _ |- _ => rewrite H; clear H end.
    - rewrite (anchor_del_set_other a6 a4) by (intro E; apply Hne; symmetry; exact E).
      rewrite anchor_del_set_same, anchor_del_set_same. reflexivity.
    - rewrite anchor_del_set_same. reflexivity.
    - rewrite anchor_del_set_same. reflexivity.
    - reflexivity. }
  assert (Main : is_freebsd os || negb (pf_skip_lo p0) = true -> pf_main p4 = pf_main p0 /\ pf_skip_lo p4 = pf_skip_lo p0).
  { intro Hs.
    assert (M1 : pf_main p1 = pf_main p0 /\ pf_skip_lo p1 = pf_skip_lo p0).
    { destruct on6; [|destruct S1 as [_ ->]; split; reflexivity].
      pose proof (ss_main _ _ _ _ _ _ _ S1) as M.
      destruct (negb (is_freebsd os) && pf_skip_lo p0) eqn:B.
      - exfalso. apply andb_true_iff in B as [B1 B2]. rewrite B2 in Hs. apply negb_true_iff in B1. rewrite B1 in Hs. discriminate.
      - injection M as -> ->. split; reflexivity. }
    assert (M2 : pf_main p2 = pf_main p0 /\ pf_skip_lo p2 = pf_skip_lo p0).
    { destruct M1 as [E1 E2]. destruct on4; [|destruct S2 as [_ ->]; split; assumption].
      pose proof (ss_main _ _ _ _ _ _ _ S2) as M. rewrite E1, E2 in M.
      destruct (negb (is_freebsd os) && pf_skip_lo p0) eqn:B.
      - exfalso. apply andb_true_iff in B as [B1 B2]. rewrite B2 in Hs. apply negb_true_iff in B1. rewrite B1 in Hs. discriminate.
      - injection M as -> ->. split; reflexivity. }
    assert (M3 : pf_main p3 = pf_main p0 /\ pf_skip_lo p3 = pf_skip_lo p0).
    { destruct M2 as [E1 E2]. destruct on6; [|destruct S3 as [_ ->]; split; assumption].
      destruct (rs_same _ _ _ _ _ _ S3) as (-> & -> & _). split; assumption. }
    destruct M3 as [E1 E2]. destruct on4; [|destruct S4 as [_ ->]; split; assumption].
    destruct (rs_same _ _ _ _ _ _ S4) as (-> & -> & _). split; assumption. }
  assert (En : pf_on p4 = pf_on p0 /\ pf_refs p4 = pf_refs p0).
  { assert (D : os = Darwin \/ os <> Darwin) by (destruct os; [right; discriminate | right; discriminate | left; reflexivity]).
    destruct D as [->|Hos].
    - destruct (Hfr eq_refl) as [F1 F2]. clear Anch Main.
      destruct on6, on4;
        repeat match goal with
               | H : SetupSpec Darwin _ _ _ _ _ _ |- _ => apply dar_ss in H; destruct H as [? ?]
               | H : RestoreSpec Darwin _ _ _ _ _ |- _ => apply dar_rs in H; destruct H as (? & ? & ?)
               | H : _ = _ /\ _ = _ |- _ => destruct H as [? ?]
               end; subst; unfold dar_setup, dar_restore in *;
        repeat match goal with H : (_, _, _) = (_, _, _) |- _ => injection H as ? ? ? end; subst;
        repeat match goal with H : py_tokens _ = _ |- _ => rewrite H in *; clear H end;
        rewrite ?Htk in *; cbn [app rev] in *;
        repeat match goal with
               | H : pf_refs _ = _ ++ _ |- _ => rewrite H in *; clear H
               | H : pf_next _ = N.succ _ |- _ => rewrite H in *; clear H
               end;
        repeat (progress (try rewrite (tok_del_last2 _ _ _ F2) in *; try rewrite (tok_del_last _ _ F1) in *;
                          repeat match goal with
                                 | H : (pf_refs _, py_tokens _) = (_, _) |- _ => injection H as ? ?
                                 | H : py_tokens _ = _ |- _ => rewrite H in *; clear H
                                 | H : pf_refs _ = _ |- _ => rewrite H in *; clear H
                                 end; cbn [app rev] in * ));
        try match goal with |- context [tok_del ?t ?l] =>
              replace (tok_del t l) with (Some (pf_refs p0)) by (symmetry; exact (tok_del_last _ _ F1)) end;
        (split; congruence).
    - clear Anch Main Hfr Htk.
      destruct on6, on4;
        repeat match goal with
               | H : SetupSpec _ _ _ _ _ _ _ |- _ => apply (gen_ss _ _ _ _ _ _ _ Hos) in H
               | H : RestoreSpec _ _ _ _ _ _ |- _ => apply (gen_rs _ _ _ _ _ _ Hos) in H
               | H : _ = _ /\ _ = _ |- _ => destruct H as [? ?]
               end; subst; rewrite ?Hst in *;
        destruct (pf_on p0) eqn:O0; destruct (pf_refs p0) eqn:R0;
        repeat match goal with
               | H : (pf_on ?p, pf_refs ?p, py_started ?y) = _ |- _ =>
                   cbn in H; injection H as ? ? ?;
                   repeat match goal with
                          | E : pf_on p = _ |- _ => rewrite E in *; clear E
                          | E : pf_refs p = _ |- _ => rewrite E in *; clear E
                          | E : py_started y = _ |- _ => rewrite E in *; clear E
                          end
               end; (split; reflexivity). }
  destruct En as [E1 E2]. split; [exact E1|]. split; [exact E2|]. split; [exact Anch | exact Main].
Qed.

Lemma pf_session_unloaded os c cut s0 :
  c_method c = MPf os -> c_udp c = false -> c_nlines c <= cut -> pf_loaded (k_pf s0) = false ->
  r_final (session c cut no_faults s0) = s0.
Proof.
  intros Hm Hudp Hle Hl. unfold session.
  assert (Lt : Nat.ltb cut (c_nlines c) = false) by (apply Nat.ltb_ge; exact Hle). rewrite Lt.
  unfold udp_refused. rewrite Hudp. cbn [andb]. unfold do_setup, do_restore. rewrite Hm.
  destruct (fc_on (c_v6 c)) eqn:On6; destruct (fc_on (c_v4 c)) eqn:On4;
    repeat (match goal with
            | |- context [pf_setup no_faults os ?f ?p ?b ?py ?n s0] =>
                let n' := fresh "n" in let ev := fresh "ev" in let E := fresh "E" in
                destruct (pf_setup_unloaded os f p b py n s0 Hl) as (n' & ev & E); rewrite E
            | |- context [pf_restore ?rp no_faults os ?f ?p ?py ?n s0] =>
                let n' := fresh "n" in let ev := fresh "ev" in let E := fresh "E" in
                let ok' := fresh "ok" in let py' := fresh "py" in
                destruct (pf_restore_unloaded rp os f p py n s0 Hl) as (ok' & py' & n' & ev & E); rewrite E
            end; cbn [andb]);
    try (destruct (wait_loop _)); reflexivity.
Qed.

Lemma anchors_eqb_refl a : anchors_eqb a a = true.
Proof. induction a as [|[n t] a IH]; [reflexivity|]. cbn [anchors_eqb]. rewrite !bytes_eqb_refl, IH. reflexivity. Qed.

Definition pf_start_ok (os : pfos) (c : cfg) (s0 : kstate) : Prop :=
  calls_ok (pf_calls (k_pf s0)) = true /\
  (forall f, fc_on (fcfg c f) = true ->
             nlfree (fc_port (fcfg c f)) = true /\
             anchor_del (pf_anchor f (fc_port (fcfg c f))) (pf_anchors (k_pf s0)) = pf_anchors (k_pf s0)) /\
  (os = Darwin -> ~ In (dec (pf_next (k_pf s0))) (pf_refs (k_pf s0)) /\
                  ~ In (dec (N.succ (pf_next (k_pf s0)))) (pf_refs (k_pf s0))).

Theorem pf_identity os c cut s0 :
  c_method c = MPf os -> c_repaired c = true -> c_udp c = false -> pf_start_ok os c s0 ->
  let sf := r_final (session c cut no_faults s0) in
  sf = with_pf s0 (k_pf sf) /\
  pf_loaded (k_pf sf) = pf_loaded (k_pf s0) /\ pf_on (k_pf sf) = pf_on (k_pf s0) /\
  pf_refs (k_pf sf) = pf_refs (k_pf s0) /\ pf_anchors (k_pf sf) = pf_anchors (k_pf s0) /\
  (is_freebsd os || negb (pf_skip_lo (k_pf s0)) = true ->
   pf_main (k_pf sf) = pf_main (k_pf s0) /\ pf_skip_lo (k_pf sf) = pf_skip_lo (k_pf s0)).
Proof.
  intros Hm Hrep Hudp (Hc & Hf & Hd). cbv zeta.
  assert (Same : forall s, s = s0 ->
            s = with_pf s0 (k_pf s) /\ pf_loaded (k_pf s) = pf_loaded (k_pf s0) /\ pf_on (k_pf s) = pf_on (k_pf s0) /\
            pf_refs (k_pf s) = pf_refs (k_pf s0) /\ pf_anchors (k_pf s) = pf_anchors (k_pf s0) /\
            (is_freebsd os || negb (pf_skip_lo (k_pf s0)) = true ->
             pf_main (k_pf s) = pf_main (k_pf s0) /\ pf_skip_lo (k_pf s) = pf_skip_lo (k_pf s0))).
  { intros s ->. rewrite with_pf_id. repeat split; reflexivity. }
  destruct (Nat.ltb cut (c_nlines c)) eqn:Lt.
  - apply Nat.ltb_lt in Lt. apply Same. exact (proj1 (proj2 (no_command_before_go c cut no_faults s0 Lt))).
  - apply Nat.ltb_ge in Lt. destruct (pf_loaded (k_pf s0)) eqn:Hl.
    2:{ apply Same. exact (pf_session_unloaded os c cut s0 Hm Hudp Lt Hl). }
    destruct (pf_session_loaded os c cut s0 Hm Hrep Hudp Lt Hl Hc (fun f On => proj1 (Hf f On)))
      as (py1 & p1 & py2 & p2 & py3 & p3 & py4 & p4 & Ef & S1 & S2 & S3 & S4).
    rewrite Ef. cbn [k_pf with_pf].
    destruct (pf_chain os (fc_on (c_v6 c)) (fc_on (c_v4 c)) _ _ _ _ (py_init c) (k_pf s0) _ _ _ _ _ _ _ _
                (pf_anchor_ne _ _) eq_refl eq_refl Hd S1 S2 S3 S4) as (E1 & E2 & E3 & E4).
    split; [reflexivity|]. split.
    { destruct (fc_on (c_v4 c)); [exact (rs_loaded _ _ _ _ _ _ S4)|]. destruct S4 as [_ ->].
      destruct (fc_on (c_v6 c)); [exact (rs_loaded _ _ _ _ _ _ S3)|]. destruct S3 as [_ ->].
      destruct S2 as [_ ->]. destruct S1 as [_ ->]. exact Hl. }
    split; [exact E1|]. split; [exact E2|]. split; [|exact E4].
    rewrite E3. unfold opt_del.
    pose proof (fun On => proj2 (Hf V6 On)) as A6. pose proof (fun On => proj2 (Hf V4 On)) as A4. cbn [fcfg] in A6, A4.
    destruct (fc_on (c_v6 c)) eqn:On6; destruct (fc_on (c_v4 c)) eqn:On4;
      try rewrite (A6 eq_refl); try rewrite (A4 eq_refl); reflexivity.
Qed.

Corollary pf_identity_bool os c cut s0 :
  c_method c = MPf os -> c_repaired c = true -> c_udp c = false -> pf_start_ok os c s0 ->
  is_freebsd os || negb (pf_skip_lo (k_pf s0)) = true ->
  pf_same_but_calls (k_pf (r_final (session c cut no_faults s0))) (k_pf s0) = true.
Proof.
  intros Hm Hrep Hudp Hs Hk. destruct (pf_identity os c cut s0 Hm Hrep Hudp Hs) as (_ & E1 & E2 & E3 & E4 & E5).
  destruct (E5 Hk) as [E6 E7]. unfold pf_same_but_calls. rewrite E1, E2, E3, E4, E6, E7.
  rewrite !Bool.eqb_reflx, !rule_eqb_refl, anchors_eqb_refl. reflexivity.
Qed.
