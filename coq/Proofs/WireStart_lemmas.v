(* Proofs/WireStart_lemmas.v — proofs about Model/WireStart.v *)
From Coq Require Import List NArith Ascii Bool Lia Arith.
From SV Require Import Lib.Bytes Model.Wire Model.WireStart.
Import ListNotations.
Local Open Scope N_scope.

Lemma raw_take_bounds k a l : 1 <= raw_take k (a :: l) <= lenN (a :: l).
Proof.
  unfold raw_take. rewrite lenN_cons. lia.
Qed.

(* whatever the script: what reached the descriptor followed by what is left is the data *)
Lemma flush_all_split : forall script data,
  fst (flush_all script data) ++ snd (flush_all script data) = data.
Proof.
  induction script as [|k ks IH]; intros data.
  - reflexivity.
  - destruct data as [|a l]; [reflexivity|].
    cbn [flush_all fst snd]. rewrite <- app_assoc, IH. apply takeN_dropN.
Qed.

(* a script with at least as many writes as there are bytes delivers everything *)
Lemma flush_all_complete : forall script data,
  (length data <= length script)%nat -> flush_all script data = (data, []).
Proof.
  induction script as [|k ks IH]; intros data H.
  - destruct data; [reflexivity | cbn in H; lia].
  - destruct data as [|a l]; [reflexivity|].
    cbn [flush_all].
    pose proof (raw_take_bounds k a l) as [Hlo Hhi].
    set (n := raw_take k (a :: l)) in *.
    rewrite IH.
    + cbn [fst snd]. rewrite takeN_dropN. reflexivity.
    + rewrite length_dropN. cbn [length] in *. lia.
Qed.
