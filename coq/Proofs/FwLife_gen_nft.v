(* Proofs/FwLife_gen_nft.v — C04, general theorems, part 7: the nft method. *)
From Coq Require Import String List NArith ZArith Ascii Bool Lia Arith.
From SV Require Import Lib.Bytes Model.FwLife Model.FwLifeSpec Proofs.FwLife_lemmas
  Proofs.FwLife_gen_run Proofs.FwLife_gen_tbl Proofs.FwLife_gen_sess.
Import ListNotations.

(* ---- the list of nft tables ---- *)
Definition ntcnt (t : tok) (L : list nfttable) : nat :=
  length (filter (fun nt : nfttable => bytes_eqb (fst nt) t) L).

Lemma ntcnt_cons n T0 t L : ntcnt t ((n, T0) :: L) = (if bytes_eqb n t then 1 else 0) + ntcnt t L.
Proof. unfold ntcnt. cbn [filter fst]. destruct (bytes_eqb n t); reflexivity. Qed.

Lemma ft_none_cnt t L : find_tbl t L = None <-> ntcnt t L = 0.
Proof.
  induction L as [|[n T0] L IH]; [split; reflexivity|].
  rewrite ntcnt_cons. cbn [find_tbl]. destruct (bytes_eqb n t); [split; [discriminate | lia] | exact IH].
Qed.

Lemma ft_app b c T L :
  find_tbl b (L ++ [(c, T)]) =
  match find_tbl b L with Some r => Some r | None => if bytes_eqb c b then Some T else None end.
Proof.
  induction L as [|[n r0] L IH]; cbn [app find_tbl]; [reflexivity|].
  destruct (bytes_eqb n b); [reflexivity | exact IH].
Qed.

Lemma ntcnt_app t c T L : ntcnt t (L ++ [(c, T)]) = ntcnt t L + (if bytes_eqb c t then 1 else 0).
Proof.
  induction L as [|[n r0] L IH]; [cbn [app]; rewrite ntcnt_cons; unfold ntcnt; cbn; lia|].
  cbn [app]. rewrite !ntcnt_cons, IH. lia.
Qed.

Lemma ft_set_same b T T' L : find_tbl b L = Some T -> find_tbl b (set_tbl b T' L) = Some T'.
Proof.
  induction L as [|[n r0] L IH]; cbn [find_tbl set_tbl]; [discriminate|].
  destruct (bytes_eqb n b) eqn:E; intro H; cbn [find_tbl]; rewrite E; [reflexivity | exact (IH H)].
Qed.

Lemma ft_set_other b c T' L : c <> b -> find_tbl b (set_tbl c T' L) = find_tbl b L.
Proof.
  intro Hn. induction L as [|[n r0] L IH]; cbn [find_tbl set_tbl]; [reflexivity|].
  destruct (bytes_eqb n c) eqn:E; cbn [find_tbl].
  - apply bytes_eqb_eq in E. subst n. rewrite (beq_false _ _ Hn). reflexivity.
  - destruct (bytes_eqb n b); [reflexivity | exact IH].
Qed.

Lemma ntcnt_set t c T' L : ntcnt t (set_tbl c T' L) = ntcnt t L.
Proof.
  induction L as [|[n r0] L IH]; [reflexivity|]. cbn [set_tbl].
  destruct (bytes_eqb n c); rewrite !ntcnt_cons; [reflexivity | rewrite IH; reflexivity].
Qed.

Lemma ft_del_same b L : ntcnt b L <= 1 -> find_tbl b (del_tbl b L) = None.
Proof.
  induction L as [|[n r0] L IH]; [reflexivity|].
  rewrite ntcnt_cons. cbn [del_tbl]. destruct (bytes_eqb n b) eqn:E; intro H.
  - apply ft_none_cnt. lia.
  - cbn [find_tbl]. rewrite E. apply IH. lia.
Qed.

Lemma ft_del_other b c L : c <> b -> find_tbl b (del_tbl c L) = find_tbl b L.
Proof.
  intro Hn. induction L as [|[n r0] L IH]; cbn [find_tbl del_tbl]; [reflexivity|].
  destruct (bytes_eqb n c) eqn:E; cbn [find_tbl].
  - apply bytes_eqb_eq in E. subst n. rewrite (beq_false _ _ Hn). reflexivity.
  - destruct (bytes_eqb n b); [reflexivity | exact IH].
Qed.

Lemma ntcnt_del_le t c L : ntcnt t (del_tbl c L) <= ntcnt t L.
Proof.
  induction L as [|[n r0] L IH]; [cbn; lia|]. cbn [del_tbl].
  destruct (bytes_eqb n c); rewrite !ntcnt_cons; lia.
Qed.

Lemma ntcnt_del_other t c L : c <> t -> ntcnt t (del_tbl c L) = ntcnt t L.
Proof.
  intro Hn. induction L as [|[n r0] L IH]; [reflexivity|]. cbn [del_tbl].
  destruct (bytes_eqb n c) eqn:E; rewrite !ntcnt_cons.
  - apply bytes_eqb_eq in E. subst n. rewrite (beq_false _ _ Hn). reflexivity.
  - rewrite IH. reflexivity.
Qed.

(* ---- the own table of one family ---- *)
Definition NRL (t : tok) (L : list nfttable) (a : option table) : Prop := find_tbl t L = a /\ ntcnt t L <= 1.

Lemma nexec_addtable t a : nexec t (NAddTable t) a = Some (Some (match a with Some T => T | None => [] end)).
Proof. unfold nexec. destruct a as [T|]; cbn [nft_exec find_tbl]; rewrite ?bytes_eqb_refl; reflexivity. Qed.

Lemma nexec_addchain t c spec T :
  nexec t (NAddChain t c spec) (Some T) =
  Some (Some (match find_chain c T with Some _ => T | None => T ++ [(c, [])] end)).
Proof.
  unfold nexec. cbn [nft_exec find_tbl]. rewrite bytes_eqb_refl.
  destruct (find_chain c T); [reflexivity|]. cbn [set_tbl]. rewrite bytes_eqb_refl. reflexivity.
Qed.

Lemma nexec_createchain t c spec T :
  nexec t (NCreateChain t c spec) (Some T) =
  match find_chain c T with Some _ => None | None => Some (Some (T ++ [(c, [])])) end.
Proof.
  unfold nexec. cbn [nft_exec find_tbl]. rewrite bytes_eqb_refl.
  destruct (find_chain c T); [reflexivity|]. cbn [set_tbl]. rewrite bytes_eqb_refl. reflexivity.
Qed.

Lemma nexec_flush t c T :
  nexec t (NFlushChain t c) (Some T) =
  match find_chain c T with Some _ => Some (Some (set_chain c [] T)) | None => None end.
Proof.
  unfold nexec. cbn [nft_exec find_tbl]. rewrite bytes_eqb_refl.
  destruct (find_chain c T); [|reflexivity]. cbn [set_tbl]. rewrite bytes_eqb_refl. reflexivity.
Qed.

Lemma nexec_addrule t c args T :
  nexec t (NAddRule t c args) (Some T) =
  match find_chain c T with Some rs => Some (Some (set_chain c (rs ++ [args]) T)) | None => None end.
Proof.
  unfold nexec. cbn [nft_exec find_tbl]. rewrite bytes_eqb_refl.
  destruct (find_chain c T); [|reflexivity]. cbn [set_tbl]. rewrite bytes_eqb_refl. reflexivity.
Qed.

Lemma nexec_delete t a : nexec t (NDeleteTable t) a = match a with Some _ => Some None | None => None end.
Proof. unfold nexec. destruct a as [T|]; cbn [nft_exec find_tbl del_tbl]; rewrite ?bytes_eqb_refl; reflexivity. Qed.

Lemma nft_exec_sim t o L a :
  nftop_table o = t -> NRL t L a ->
  match nexec t o a with
  | Some a' => exists L', nft_exec o L = Some L' /\ NRL t L' a'
  | None => nft_exec o L = None
  end.
Proof.
  intros Ht [Hf Hc]. destruct o as [x|x c spec|x c|x c args|x|x c spec]; cbn [nftop_table] in Ht; subst x.
  - rewrite nexec_addtable. cbn [nft_exec]. rewrite Hf. destruct a as [T|].
    + exists L. split; [reflexivity|]. split; assumption.
    + eexists. split; [reflexivity|]. split.
      * rewrite ft_app, Hf, bytes_eqb_refl. reflexivity.
      * rewrite ntcnt_app, bytes_eqb_refl. apply ft_none_cnt in Hf. lia.
  - destruct a as [T|].
    + rewrite nexec_addchain. cbn [nft_exec]. rewrite Hf. destruct (find_chain c T).
      * exists L. split; [reflexivity|]. split; assumption.
      * eexists. split; [reflexivity|]. split; [apply ft_set_same with T; exact Hf | rewrite ntcnt_set; exact Hc].
    + cbn [nft_exec]. rewrite Hf. reflexivity.
  - destruct a as [T|].
    + rewrite nexec_flush. cbn [nft_exec]. rewrite Hf. destruct (find_chain c T); [|reflexivity].
      eexists. split; [reflexivity|]. split; [apply ft_set_same with T; exact Hf | rewrite ntcnt_set; exact Hc].
    + cbn [nft_exec]. rewrite Hf. reflexivity.
  - destruct a as [T|].
    + rewrite nexec_addrule. cbn [nft_exec]. rewrite Hf. destruct (find_chain c T); [|reflexivity].
      eexists. split; [reflexivity|]. split; [apply ft_set_same with T; exact Hf | rewrite ntcnt_set; exact Hc].
    + cbn [nft_exec]. rewrite Hf. reflexivity.
  - rewrite nexec_delete. cbn [nft_exec]. rewrite Hf. destruct a as [T|]; [|reflexivity].
    eexists. split; [reflexivity|]. split; [apply ft_del_same; exact Hc|].
    pose proof (ntcnt_del_le t t L). lia.
  - destruct a as [T|].
    + rewrite nexec_createchain. cbn [nft_exec]. rewrite Hf. destruct (find_chain c T); [reflexivity|].
      eexists. split; [reflexivity|]. split; [apply ft_set_same with T; exact Hf | rewrite ntcnt_set; exact Hc].
    + cbn [nft_exec]. rewrite Hf. reflexivity.
Qed.

Lemma nft_exec_frame t t' o L L' x :
  nftop_table o = t -> t <> t' -> nft_exec o L = Some L' -> NRL t' L x -> NRL t' L' x.
Proof.
  intros Ht Hne He [Hf Hc]. destruct o as [y|y c spec|y c|y c args|y|y c spec]; cbn [nftop_table] in Ht; subst y;
    cbn [nft_exec] in He.
  - destruct (find_tbl t L); injection He as <-; [split; assumption|]. split.
    + rewrite ft_app, Hf. destruct x; [reflexivity|]. rewrite (beq_false _ _ Hne). reflexivity.
    + rewrite ntcnt_app, (beq_false _ _ Hne). lia.
  - destruct (find_tbl t L) as [T|]; [|discriminate]. destruct (find_chain c T); injection He as <-; [split; assumption|].
    split; [rewrite ft_set_other; assumption | rewrite ntcnt_set; exact Hc].
  - destruct (find_tbl t L) as [T|]; [|discriminate]. destruct (find_chain c T); [|discriminate]. injection He as <-.
    split; [rewrite ft_set_other; assumption | rewrite ntcnt_set; exact Hc].
  - destruct (find_tbl t L) as [T|]; [|discriminate]. destruct (find_chain c T); [|discriminate]. injection He as <-.
    split; [rewrite ft_set_other; assumption | rewrite ntcnt_set; exact Hc].
  - destruct (find_tbl t L); [|discriminate]. injection He as <-.
    split; [rewrite ft_del_other; assumption | rewrite ntcnt_del_other; assumption].
  - destruct (find_tbl t L) as [T|]; [|discriminate]. destruct (find_chain c T); [discriminate|]. injection He as <-.
    split; [rewrite ft_set_other; assumption | rewrite ntcnt_set; exact Hc].
Qed.

(* ---- the abstract machine instance ---- *)
Definition nrun (t : tok) : faultfn -> list (astep nftop unit) -> nat -> option table -> ares (option table) :=
  arun (option table) nftop unit (nexec t) (fun _ _ => false) Nft (fun _ => V4) (fun _ => TNat).
Definition ncomp : astep nftop unit -> step :=
  comp nftop unit Nft (fun _ => V4) (fun _ => TNat) (fun _ => []).

Definition NR (t : tok) (s : kstate) (a : option table) : Prop := NRL t (k_nft s) a.

Lemma nexec_sim t o s a :
  nftop_table o = t -> NR t s a ->
  match nexec t o a with
  | Some a' => exists s', exec (Nft o) s = (Some s', [], []) /\ NR t s' a'
  | None => exec (Nft o) s = (None, [], [])
  end.
Proof.
  intros Ht Hr. pose proof (nft_exec_sim t o (k_nft s) a Ht Hr) as H. cbn [exec].
  destruct (nexec t o a) as [a'|].
  - destruct H as (L' & E & Hr'). rewrite E. eexists. split; [reflexivity|]. exact Hr'.
  - rewrite H. reflexivity.
Qed.

Definition nprog_ok (t : tok) (p : list (astep nftop unit)) : Prop :=
  Forall (ok_step nftop unit (fun o => nftop_table o = t) (fun _ => False)) p.

Lemma nft_cmd_frame t t' o x : nftop_table o = t -> t <> t' -> cmd_pres (fun s => NR t' s x) (Nft o).
Proof.
  intros Ht Hne s s' out err E Hq. cbn [exec] in E.
  destruct (nft_exec o (k_nft s)) as [L'|] eqn:X; [|discriminate]. injection E as <- _ _.
  unfold NR. cbn [k_nft]. eapply nft_exec_frame; eassumption.
Qed.

Lemma nprog_frame t t' x p : nprog_ok t p -> t <> t' -> Forall (step_pres (fun s => NR t' s x)) (map ncomp p).
Proof.
  intros Hp Hne. unfold nprog_ok in Hp. rewrite Forall_forall in Hp.
  apply Forall_forall. intros st Hin. apply in_map_iff in Hin as (y & <- & Hy). specialize (Hp y Hy).
  destruct y as [z|u body]; cbn [ncomp comp step_pres ok_step] in *.
  - destruct z; cbn [comp_ss sstep_pres sstep_cmd ok_ss] in *; apply nft_cmd_frame with t; assumption.
  - destruct Hp as [[] _].
Qed.

Theorem nrun_sim t t' x F p n s a ok n' s' ev :
  nprog_ok t p -> t <> t' -> NR t s a -> NR t' s x -> run F (map ncomp p) n s = (ok, n', s', ev) ->
  exists a', nrun t F p n a = (ok, n', a', cmds_of ev) /\ NR t s' a' /\ NR t' s' x.
Proof.
  intros Hp Hne Hr Hx H.
  destruct (gsim (option table) nftop unit (nexec t) (fun _ _ => false) Nft (fun _ => V4) (fun _ => TNat) (fun _ => [])
              (NR t) (fun o => nftop_table o = t) (fun _ => False)
              (fun o s0 a0 Ho Hr0 => nexec_sim t o s0 a0 Ho Hr0) (fun _ _ _ => eq_refl)
              (fun _ _ _ (Hf : False) _ => match Hf with end)
              F p n s a ok n' s' ev Hp Hr H) as (a' & A & Hr').
  exists a'. split; [exact A|]. split; [exact Hr'|].
  exact (run_pres (fun z => NR t' z x) F _ _ _ _ _ _ _ (nprog_frame t t' x p Hp Hne) H Hx).
Qed.

(* ---- the programs ---- *)
Definition nft_ops (t : tok) (body : list (tok * rule)) : list nftop :=
  [NAddTable t;
   NAddChain t (bs "prerouting") [bs "{ type nat hook prerouting priority -100; policy accept; }"];
   NAddChain t (bs "output") [bs "{ type nat hook output priority -100; policy accept; }"];
   NAddChain t t [];
   NFlushChain t t;
   NAddRule t (bs "output") [bs "output jump " ++ t];
   NAddRule t (bs "prerouting") [bs "prerouting jump " ++ t]] ++
  map (fun cr : tok * rule => NAddRule t (fst cr) (snd cr)) body.
Definition a_nft_setup (t : tok) (body : list (tok * rule)) : list (astep nftop unit) :=
  map (fun o => ASimple (ADo o)) (nft_ops t body).
Definition a_nft_restore (t : tok) : list (astep nftop unit) := [ASimple (ATry (NDeleteTable t))].

Lemma nft_setup_comp f p body : nft_setup f p body = map ncomp (a_nft_setup (nft_table f p) body).
Proof.
  unfold nft_setup, a_nft_setup, nft_ops. rewrite map_map. rewrite !map_app. rewrite !map_map. reflexivity.
Qed.

Lemma nft_restore_comp f p : nft_restore f p = map ncomp (a_nft_restore (nft_table f p)).
Proof. reflexivity. Qed.

Lemma nft_setup_ok t body : nprog_ok t (a_nft_setup t body).
Proof.
  unfold nprog_ok, a_nft_setup. apply Forall_forall. intros x Hx. apply in_map_iff in Hx as (o & <- & Ho).
  cbn [ok_step ok_ss]. unfold nft_ops in Ho. apply in_app_iff in Ho as [Ho|Ho].
  - cbn in Ho. repeat (destruct Ho as [<-|Ho]; [reflexivity|]). destruct Ho.
  - apply in_map_iff in Ho as (cr & <- & _). reflexivity.
Qed.

Lemma nft_restore_ok t : nprog_ok t (a_nft_restore t).
Proof. apply Forall_cons; [reflexivity | apply Forall_nil]. Qed.

(* fault-free straight-line Do programs *)
Fixpoint nfold (t : tok) (ops : list nftop) (a : option table) : option (option table) :=
  match ops with
  | [] => Some a
  | o :: r => match nexec t o a with Some a' => nfold t r a' | None => None end
  end.

Lemma nrun_do_nf t ops : forall n a ok n' a' tr,
  nrun t no_faults (map (fun o => ASimple (ADo o)) ops) n a = (ok, n', a', tr) ->
  match nfold t ops a with Some af => ok = true /\ a' = af | None => ok = false end.
Proof.
  unfold nrun. induction ops as [|o ops IH]; intros n a ok n' a' tr H.
  - cbn in H. injection H as <- <- <- <-. cbn. split; reflexivity.
  - cbn [map arun arun_step arun_sstep aissue no_faults nfold] in H |- *.
    destruct (nexec t o a) as [a1|].
    + match type of H with context [arun ?A ?B ?C ?D ?E ?G ?H1 ?H2 ?F ?xs ?m ?st] =>
        destruct (arun A B C D E G H1 H2 F xs m st) as [[[ok2 n2] a2] t2] eqn:R2 end.
      apply IH in R2. injection H as <- <- <- <-. exact R2.
    + injection H as <- <- <- <-. reflexivity.
Qed.

Lemma nfold_app t x y a :
  nfold t (x ++ y) a = match nfold t x a with Some a1 => nfold t y a1 | None => None end.
Proof.
  revert a. induction x as [|o x IH]; intro a; cbn [app nfold]; [reflexivity|].
  destruct (nexec t o a); [apply IH | reflexivity].
Qed.

Definition has (X : tok) (T : table) : Prop := is_some (find_chain X T) = true.

Lemma has_app X T l : has X T -> has X (T ++ l).
Proof.
  unfold has. induction T as [|[n r0] T IH]; cbn [app find_chain]; [discriminate|].
  destruct (bytes_eqb n X); [trivial | exact IH].
Qed.
Lemma has_new c T : has c (T ++ [(c, [])]).
Proof. unfold has. rewrite fc_app. destruct (find_chain c T); [reflexivity|]. rewrite bytes_eqb_refl. reflexivity. Qed.
Lemma has_set X c rs T : has X T -> has X (set_chain c rs T).
Proof.
  unfold has. induction T as [|[n r0] T IH]; cbn [set_chain find_chain]; [trivial|].
  destruct (bytes_eqb n c) eqn:E; cbn [find_chain]; destruct (bytes_eqb n X); trivial.
Qed.

Lemma addchain_has t c spec T :
  exists T', nexec t (NAddChain t c spec) (Some T) = Some (Some T') /\ has c T' /\ forall X, has X T -> has X T'.
Proof.
  rewrite nexec_addchain. destruct (find_chain c T) eqn:F.
  - exists T. split; [reflexivity|]. split; [unfold has; rewrite F; reflexivity | trivial].
  - eexists. split; [reflexivity|]. split; [apply has_new | intros X; apply has_app].
Qed.

Lemma flush_has t c T : has c T ->
  exists T', nexec t (NFlushChain t c) (Some T) = Some (Some T') /\ forall X, has X T -> has X T'.
Proof.
  intro H. rewrite nexec_flush. unfold has in H. destruct (find_chain c T); [|discriminate].
  eexists. split; [reflexivity|]. intro X. apply has_set.
Qed.

Lemma addrule_has t c args T : has c T ->
  exists T', nexec t (NAddRule t c args) (Some T) = Some (Some T') /\ forall X, has X T -> has X T'.
Proof.
  intro H. rewrite nexec_addrule. unfold has in H. destruct (find_chain c T); [|discriminate].
  eexists. split; [reflexivity|]. intro X. apply has_set.
Qed.

Lemma nfold_body t body : forall T,
  has (bs "prerouting") T -> has (bs "output") T -> has t T ->
  forallb (fun cr : tok * rule => bytes_eqb (fst cr) (bs "prerouting") || bytes_eqb (fst cr) (bs "output") ||
                                  bytes_eqb (fst cr) t) body = true ->
  exists T', nfold t (map (fun cr : tok * rule => NAddRule t (fst cr) (snd cr)) body) (Some T) = Some (Some T').
Proof.
  induction body as [|cr body IH]; intros T H1 H2 H3 Hb; [exists T; reflexivity|].
  cbn [forallb] in Hb. apply andb_true_iff in Hb as [Hc Hb]. cbn [map nfold].
  assert (Hh : has (fst cr) T).
  { apply orb_true_iff in Hc as [Hc|Hc]; [apply orb_true_iff in Hc as [Hc|Hc]|];
      apply bytes_eqb_eq in Hc; rewrite Hc; assumption. }
  destruct (addrule_has t (fst cr) (snd cr) T Hh) as (T1 & E & M). rewrite E.
  apply IH; auto.
Qed.

Lemma nfold_setup t body a :
  forallb (fun cr : tok * rule => bytes_eqb (fst cr) (bs "prerouting") || bytes_eqb (fst cr) (bs "output") ||
                                  bytes_eqb (fst cr) t) body = true ->
  exists T, nfold t (nft_ops t body) a = Some (Some T).
Proof.
  intro Hb. unfold nft_ops. rewrite nfold_app. cbn [nfold]. rewrite nexec_addtable.
  set (T0 := match a with Some T => T | None => [] end).
  destruct (addchain_has t (bs "prerouting") [bs "{ type nat hook prerouting priority -100; policy accept; }"] T0) as (T1 & E1 & P1 & M1).
  rewrite E1.
  destruct (addchain_has t (bs "output") [bs "{ type nat hook output priority -100; policy accept; }"] T1) as (T2 & E2 & O2 & M2).
  rewrite E2.
  destruct (addchain_has t t [] T2) as (T3 & E3 & C3 & M3). rewrite E3.
  destruct (flush_has t t T3 C3) as (T4 & E4 & M4). rewrite E4.
  destruct (addrule_has t (bs "output") [bs "output jump " ++ t] T4 (M4 _ (M3 _ O2))) as (T5 & E5 & M5). rewrite E5.
  destruct (addrule_has t (bs "prerouting") [bs "prerouting jump " ++ t] T5 (M5 _ (M4 _ (M3 _ (M2 _ P1))))) as (T6 & E6 & M6).
  rewrite E6.
  apply nfold_body; [| | |exact Hb].
  - apply M6, M5, M4, M3, M2. exact P1.
  - apply M6, M5, M4, M3. exact O2.
  - apply M6, M5, M4. exact C3.
Qed.

Lemma nft_setup_nf t body n a ok n' a' tr :
  forallb (fun cr : tok * rule => bytes_eqb (fst cr) (bs "prerouting") || bytes_eqb (fst cr) (bs "output") ||
                                  bytes_eqb (fst cr) t) body = true ->
  nrun t no_faults (a_nft_setup t body) n a = (ok, n', a', tr) -> ok = true.
Proof.
  intros Hb H. apply nrun_do_nf in H. destruct (nfold_setup t body a Hb) as (T & E). rewrite E in H. exact (proj1 H).
Qed.

Definition n_nd (a : option table) : bool := match a with None => true | Some _ => false end.

Lemma nft_restore_nf t n a ok n' a' tr :
  nrun t no_faults (a_nft_restore t) n a = (ok, n', a', tr) -> a' = None.
Proof.
  unfold nrun, a_nft_restore. cbn [arun arun_step arun_sstep aissue no_faults]. rewrite nexec_delete.
  destruct a; intros [= <- <- <- <-]; reflexivity.
Qed.

Lemma nft_restore_one t k n a ok n' a' tr :
  nrun t (fault_at k) (a_nft_restore t) n a = (ok, n', a', tr) ->
  n_nd a' = true \/ (n <= k /\ exists x, nth_error tr (k - n) = Some x /\ excused x = true).
Proof.
  unfold nrun, a_nft_restore. cbn [arun arun_step arun_sstep]. unfold aissue. destruct (fault_at k n) eqn:Fk.
  - cbn [app]. intros [= <- <- <- <-]. right. unfold fault_at in Fk. apply Nat.eqb_eq in Fk. subst k.
    split; [lia|]. rewrite Nat.sub_diag. eexists. split; reflexivity.
  - rewrite nexec_delete. destruct a; cbn [app]; intros [= <- <- <- <-]; left; reflexivity.
Qed.

(* ------------------------------------------------------------------ *)
Section NftMethod.
Variable c : cfg.
Hypothesis Hm : c_method c = MNft.
Hypothesis Hudp : c_udp c = false.
Hypothesis Hwf : cfg_wf c = true.
Hypothesis Hbody : forall f, fc_on (fcfg c f) = true ->
  nft_body_ok f (fc_port (fcfg c f)) (fc_body (fcfg c f)) = true.

Definition nt (f : fam) : tok := nft_table f (fc_port (fcfg c f)).

Lemma nt_ne f f' : f' <> f -> nt f <> nt f'.
Proof.
  intros Hne E. destruct f, f'; try (exfalso; apply Hne; reflexivity);
    unfold nt, nft_table in E; cbn [app] in E; discriminate.
Qed.

Lemma nft_not_pf : not_pf c = true.
Proof. unfold not_pf. rewrite Hm. reflexivity. Qed.
Lemma nft_udp : udp_refused c = false.
Proof. unfold udp_refused. rewrite Hudp. reflexivity. Qed.

Definition nS (F : faultfn) (f : fam) (n : nat) (a : option table) :=
  nrun (nt f) F (a_nft_setup (nt f) (fc_body (fcfg c f))) n a.
Definition nRr (F : faultfn) (f : fam) (n : nat) (a : option table) :=
  nrun (nt f) F (a_nft_restore (nt f)) n a.
Definition nRel (f : fam) (s : kstate) (a : option table) : Prop := NR (nt f) s a.

Lemma other_fam (f f' : fam) : f' <> f -> forall g, g = f \/ g = f'.
Proof. intros H g. destruct f, f', g; auto; exfalso; apply H; reflexivity. Qed.

Lemma nft_sim_S : sim_hyp c (option table) nRel (setup_prog c) nS.
Proof.
  intros F f n s a ok n' s' ev On Hr Run. unfold setup_prog in Run. rewrite Hm, nft_setup_comp in Run.
  set (f' := match f with V6 => V4 | V4 => V6 end).
  assert (Hne : f' <> f) by (destruct f; discriminate).
  (* the other family's table: whatever it is, it is preserved *)
  assert (G : exists a', nS F f n a = (ok, n', a', cmds_of ev) /\ nRel f s' a' /\
                         forall x, nRel f' s x -> nRel f' s' x).
  { destruct (gsim (option table) nftop unit (nexec (nt f)) (fun _ _ => false) Nft (fun _ => V4) (fun _ => TNat) (fun _ => [])
                (NR (nt f)) (fun o => nftop_table o = nt f) (fun _ => False)
                (fun o s0 a0 Ho Hr0 => nexec_sim (nt f) o s0 a0 Ho Hr0) (fun _ _ _ => eq_refl)
                (fun _ _ _ (Hf : False) _ => match Hf with end)
                F _ n s a ok n' s' ev (nft_setup_ok (nt f) _) Hr Run) as (a' & A & Hr').
    exists a'. split; [exact A|]. split; [exact Hr'|]. intros x Hx.
    exact (run_pres (fun z => NR (nt f') z x) F _ _ _ _ _ _ _
             (nprog_frame (nt f) (nt f') x _ (nft_setup_ok (nt f) _) (nt_ne f f' Hne)) Run Hx). }
  destruct G as (a' & A & Hr' & Hfr). exists a'. split; [exact A|]. split; [exact Hr'|].
  intros g x Hg Hx. destruct (other_fam f f' Hne g) as [->| ->]; [contradiction | apply Hfr; exact Hx].
Qed.

Lemma nft_sim_R : sim_hyp c (option table) nRel (restore_prog c) nRr.
Proof.
  intros F f n s a ok n' s' ev On Hr Run. unfold restore_prog in Run. rewrite Hm, nft_restore_comp in Run.
  set (f' := match f with V6 => V4 | V4 => V6 end).
  assert (Hne : f' <> f) by (destruct f; discriminate).
  assert (G : exists a', nRr F f n a = (ok, n', a', cmds_of ev) /\ nRel f s' a' /\
                         forall x, nRel f' s x -> nRel f' s' x).
  { destruct (gsim (option table) nftop unit (nexec (nt f)) (fun _ _ => false) Nft (fun _ => V4) (fun _ => TNat) (fun _ => [])
                (NR (nt f)) (fun o => nftop_table o = nt f) (fun _ => False)
                (fun o s0 a0 Ho Hr0 => nexec_sim (nt f) o s0 a0 Ho Hr0) (fun _ _ _ => eq_refl)
                (fun _ _ _ (Hf : False) _ => match Hf with end)
                F _ n s a ok n' s' ev (nft_restore_ok (nt f)) Hr Run) as (a' & A & Hr').
    exists a'. split; [exact A|]. split; [exact Hr'|]. intros x Hx.
    exact (run_pres (fun z => NR (nt f') z x) F _ _ _ _ _ _ _
             (nprog_frame (nt f) (nt f') x _ (nft_restore_ok (nt f)) (nt_ne f f' Hne)) Run Hx). }
  destruct G as (a' & A & Hr' & Hfr). exists a'. split; [exact A|]. split; [exact Hr'|].
  intros g x Hg Hx. destruct (other_fam f f' Hne g) as [->| ->]; [contradiction | apply Hfr; exact Hx].
Qed.

Lemma nft_own_chains f t : own_chains c f t = [].
Proof. unfold own_chains. rewrite Hm. destruct (fc_on (fcfg c f)), t; reflexivity. Qed.
Lemma nft_own_mark f t : own_mark c f t = None.
Proof. unfold own_mark. rewrite Hm. destruct (fc_on (fcfg c f)), t; reflexivity. Qed.

Lemma own_nft_in x : In x (own_nft c) -> exists f, fc_on (fcfg c f) = true /\ x = nt f.
Proof.
  unfold own_nft. rewrite Hm. rewrite in_app_iff. intros [H|H].
  - destruct (fc_on (c_v6 c)) eqn:On; [|destruct H]. destruct H as [<-|[]]. exists V6. split; [exact On | reflexivity].
  - destruct (fc_on (c_v4 c)) eqn:On; [|destruct H]. destruct H as [<-|[]]. exists V4. split; [exact On | reflexivity].
Qed.

Lemma nt_in_own f : fc_on (fcfg c f) = true -> tmem (nt f) (own_nft c) = true.
Proof.
  intro On. unfold own_nft, tmem. rewrite Hm, existsb_app.
  destruct f; cbn [fcfg] in On; rewrite On; cbn [existsb]; unfold nt; cbn [fcfg]; rewrite bytes_eqb_refl;
    rewrite ?orb_true_r; reflexivity.
Qed.

Lemma nft_none_all s :
  (forall f, on c f = true -> find_tbl (nt f) (k_nft s) = None) ->
  forall ntb, In ntb (k_nft s) -> tmem (fst ntb) (own_nft c) = false.
Proof.
  intros H ntb Hin. destruct (tmem (fst ntb) (own_nft c)) eqn:E; [|reflexivity].
  unfold tmem in E. apply existsb_exists in E as (x & Hx & Ex). apply bytes_eqb_eq in Ex.
  apply own_nft_in in Hx as (f & On & ->). specialize (H f On). apply ft_none_cnt in H. unfold ntcnt in H.
  exfalso. clear -H Hin Ex. induction (k_nft s) as [|c0 L IH]; [destruct Hin|]. cbn [filter] in H.
  destruct Hin as [->|Hin].
  - rewrite Ex, bytes_eqb_refl in H. discriminate.
  - destruct (bytes_eqb (fst c0) (nt f)); [discriminate | exact (IH H Hin)].
Qed.

Lemma nft_fin s : (forall f, on c f = true -> nRel f s None) -> erase c s = s.
Proof.
  intro H. unfold erase. rewrite !nft_own_chains, !nft_own_mark, !erase_tbl_nil.
  assert (E : erase_nft (own_nft c) (k_nft s) = k_nft s).
  { unfold erase_nft. apply filter_all. apply forallb_forall. intros ntb Hin. apply negb_true_iff.
    apply (nft_none_all s); [|exact Hin]. intros f On. exact (proj1 (H f On)). }
  rewrite E. destruct s; reflexivity.
Qed.

Lemma nft_nd s (a : fam -> option table) :
  (forall f, on c f = true -> nRel f s (a f) /\ n_nd (a f) = true) -> no_divert c s = true.
Proof.
  intro H. unfold no_divert. rewrite !nft_own_chains, !no_divert_nil. cbn [andb].
  apply forallb_forall. intros ntb Hin. apply negb_true_iff. apply (nft_none_all s); [|exact Hin].
  intros f On. destruct (H f On) as [[Hf _] Hn]. destruct (a f); [discriminate | exact Hf].
Qed.

Lemma nft_init s : erase c s = s -> St c (option table) nRel s None None.
Proof.
  intro He.
  assert (E : erase_nft (own_nft c) (k_nft s) = k_nft s).
  { unfold erase in He. destruct s. cbn in *. injection He as _ _ _ _ E. exact E. }
  assert (A : forall ntb, In ntb (k_nft s) -> tmem (fst ntb) (own_nft c) = false).
  { unfold erase_nft in E. intros ntb Hin.
    assert (L : length (filter (fun x : nfttable => negb (tmem (fst x) (own_nft c))) (k_nft s)) = length (k_nft s))
      by (rewrite E; reflexivity).
    apply filter_len_all in L. rewrite forallb_forall in L. specialize (L ntb Hin). apply negb_true_iff in L. exact L. }
  assert (G : forall f, on c f = true -> nRel f s None).
  { intros f On. unfold on in On. assert (Z : ntcnt (nt f) (k_nft s) = 0).
    { unfold ntcnt. clear E. induction (k_nft s) as [|c0 L IH]; [reflexivity|]. cbn [filter].
      destruct (bytes_eqb (fst c0) (nt f)) eqn:B.
      - apply bytes_eqb_eq in B. pose proof (A c0 (or_introl eq_refl)) as X. rewrite B, (nt_in_own f On) in X. discriminate.
      - apply IH. intros ntb Hin. apply A. right. exact Hin. }
    split; [apply ft_none_cnt; exact Z | lia]. }
  split; apply G.
Qed.

Theorem nft_all_exits s0 k cut : erase c s0 = s0 -> sess_ok c s0 k cut = true.
Proof.
  intro He.
  apply (all_exits c nft_not_pf Hwf nft_udp (option table) nRel (fun _ => None) (fun _ _ => True) (fun _ _ => True)
           (fun _ => n_nd) (fun _ => false) nS nRr).
  - exact nft_sim_S.
  - exact nft_sim_R.
  - intros F G f n a ok n' a' tr. unfold nS, nrun. apply arun_ext.
  - intros F G f n a ok n' a' tr. unfold nRr, nrun. apply arun_ext.
  - intros F f n a ok n' a' tr. unfold nS, nrun. apply arun_mono.
  - intros F f n a ok n' a' tr. unfold nRr, nrun. apply arun_mono.
  - trivial.
  - trivial.
  - intros; left; exact I.
  - intros f n a ok n' a' tr _ _ H. eapply nft_restore_nf; exact H.
  - intros f n a ok n' a' tr On _ H. split; [|exact I]. eapply nft_setup_nf; [|exact H]. exact (Hbody f On).
  - intros f k0 n a ok n' a' tr _ _ H. eapply nft_restore_one; exact H.
  - exact nft_fin.
  - exact nft_nd.
  - apply nft_init. exact He.
  - cbv zeta. apply andb_false_iff. right. destruct (nth_cmd _ _); reflexivity.
Qed.
End NftMethod.

(* ------------------------------------------------------------------ *)
(* `nft create chain` (not issued by methods/nft.py; the kernel model answers it as the real tool does) *)

Lemma nft_create_chain_spec t c spec L :
  nft_exec (NCreateChain t c spec) L =
  match find_tbl t L with
  | Some T => match find_chain c T with Some _ => None | None => nft_exec (NAddChain t c spec) L end
  | None => None
  end.
Proof.
  cbn [nft_exec]. destruct (find_tbl t L) as [T|]; [|reflexivity]. destruct (find_chain c T); reflexivity.
Qed.

Lemma nft_create_chain_not_reentrant t c spec L L' :
  nft_exec (NCreateChain t c spec) L = Some L' -> nft_exec (NCreateChain t c spec) L' = None.
Proof.
  cbn [nft_exec]. destruct (find_tbl t L) as [T|] eqn:Hf; [|discriminate].
  destruct (find_chain c T) eqn:Hc; [discriminate|]. intros [= <-].
  rewrite (ft_set_same t T _ L Hf). rewrite fc_app, Hc, bytes_eqb_refl. reflexivity.
Qed.

Lemma nft_add_chain_reentrant t c spec L L' :
  nft_exec (NAddChain t c spec) L = Some L' -> nft_exec (NAddChain t c spec) L' = Some L'.
Proof.
  cbn [nft_exec]. destruct (find_tbl t L) as [T|] eqn:Hf; [|discriminate].
  destruct (find_chain c T) eqn:Hc; intros [= <-].
  - rewrite Hf, Hc. reflexivity.
  - rewrite (ft_set_same t T _ L Hf). rewrite fc_app, Hc, bytes_eqb_refl. reflexivity.
Qed.

(* over a table a failed `delete table` left behind (the session's chain still in it) `create chain` fails where
   `add chain` succeeds without changing anything *)
Lemma nft_create_over_leftover t c spec spec' L T rs :
  find_tbl t L = Some T -> find_chain c T = Some rs ->
  nft_exec (NCreateChain t c spec) L = None /\ nft_exec (NAddChain t c spec') L = Some L.
Proof. intros Hf Hc. cbn [nft_exec]. rewrite Hf, Hc. split; reflexivity. Qed.
