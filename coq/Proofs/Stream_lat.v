(* Proofs/Stream_lat.v — latency control (C09): what may be queued while the
   acknowledgement is outstanding, PING/PONG behaviour, no pause when off. *)
From Coq Require Import List NArith Ascii Bool Lia.
From SV Require Import Lib.Bytes Model.Wire Model.Chan Model.Stream
  Proofs.Wire_lemmas Proofs.Stream_basic Proofs.Stream_wrap Proofs.Stream_cb Proofs.Stream_reg.
Import ListNotations.
Local Open Scope N_scope.

Definition tf (w : world) (sd : side) : bool := x_too_full (e_mux (get_end w sd)).
Definition outq (w : world) (sd : side) : list sframe := x_out (e_mux (get_end w sd)).
Definition full (w : world) (sd : side) : N := x_full (e_mux (get_end w sd)).

Lemma data_cat_nil_len l : data_cat l = [] -> data_len l = 0.
Proof.
  unfold data_cat, data_len. induction (filter is_data l) as [|f fl IH]; [reflexivity|].
  cbn [map concat pay_len fold_right]. intros H. apply app_eq_nil in H. destruct H as [A B].
  fold (pay_len fl). rewrite A, (IH B). reflexivity.
Qed.

(* ---- one callback ---- *)
Lemma callback_latency sd fid p x o p' x' :
  proxy_callback sd fid p x o = Ok (p', x') ->
  exists new, x_out x' = x_out x ++ new /\ x_too_full x' = x_too_full x /\
    x_full x' = x_full x + pay_len new /\ data_len new <= 2048 /\
    (x_too_full x = true -> data_cat new = []).
Proof.
  intros H. pose proof (callback_spec _ _ _ _ _ _ _ H) as F. destr_cb F.
  exists cbnew. destruct Fext as [A1 A2 A3 A4 _ _ _]. splits; auto.
Qed.

Lemma pre_select_latency sd fid p x :
  let '(p', x', ws) := proxy_pre_select sd fid p x in
  exists new, x_out x' = x_out x ++ new /\ x_too_full x' = x_too_full x /\
    x_full x' = x_full x + pay_len new /\ data_cat new = [] /\ data_len new = 0.
Proof.
  pose proof (pre_select_spec sd fid p x) as F.
  destruct (proxy_pre_select sd fid p x) as [[p' x'] ws].
  destruct F as (sn & [A1 A2 A3 A4 _ _ _] & _ & _ & Esn & _).
  exists sn. splits; auto; subst sn; destruct (s_sw (p_s p)); try reflexivity; destruct (m_sr (p_m p)); reflexivity.
Qed.

(* ---- check_fullness: PING 'rttest' exactly once, then too_full ---- *)
Lemma check_fullness_spec x lbs :
  let x' := check_fullness x lbs in
  (x_full x <= lbs -> x' = x) /\
  (lbs < x_full x -> x_too_full x' = true /\ x_full x' = x_full x + (if x_too_full x then 0 else 6) /\
     x_out x' = x_out x ++ (if x_too_full x then [] else [mkSF 0 CPing rttest None])).
Proof.
  unfold check_fullness. destruct (lbs <? x_full x) eqn:E.
  - apply N.ltb_lt in E. split; [lia|]. intros _.
    destruct (x_too_full x); cbn; splits; auto; try lia. symmetry. apply app_nil_r.
  - apply N.ltb_ge in E. split; [reflexivity|lia].
Qed.

(* ---- PING is always answered, whatever the state of latency control ---- *)
Lemma ping_answered sd e f o : sf_cmd f = CPing ->
  exists e', mux_got_packet sd e f o = Ok (e', false) /\
  x_out (e_mux e') = x_out (e_mux e) ++ [mkSF 0 CPong (sf_data f) None] /\
  x_too_full (e_mux e') = x_too_full (e_mux e) /\ e_prox e' = e_prox e.
Proof.
  intros H. unfold mux_got_packet. rewrite H. eexists. split; [reflexivity|]. cbn. auto.
Qed.

Lemma pong_clears sd e f o : sf_cmd f = CPong ->
  exists e', mux_got_packet sd e f o = Ok (e', false) /\
  x_too_full (e_mux e') = false /\ x_full (e_mux e') = 0 /\ x_out (e_mux e') = x_out (e_mux e) /\
  e_prox e' = e_prox e.
Proof.
  intros H. unfold mux_got_packet. rewrite H. eexists. split; [reflexivity|]. cbn. auto.
Qed.

(* ---- latency control off = no check_fullness events: never a pause ---- *)
Definition is_check (ev : event) : bool := match ev with EvCheckFull _ => true | _ => false end.

Lemma got_packet_tf sd e f o e' st : mux_got_packet sd e f o = Ok (e', st) ->
  x_too_full (e_mux e) = false -> x_too_full (e_mux e') = false.
Proof.
  unfold mux_got_packet. destruct (sf_cmd f).
  - intros H. apply ok_pair_inj in H. destruct H as [<- _]. cbn. auto.
  - intros H. apply ok_pair_inj in H. destruct H as [<- _]. cbn. auto.
  - destruct (occ (e_mux e) (sf_ch f)); [discriminate|].
    destruct sd.
    + intros H. apply ok_pair_inj in H. destruct H as [<- _]. auto.
    + unfold server_new_channel.
      destruct (s_try_connect (new_sock true) (io_conn o) (io_shut_ok o)); [|discriminate].
      intros H. apply ok_pair_inj in H. destruct H as [<- _]. cbn. auto.
  - destruct (x_chan (e_mux e) (sf_ch f)) as [g|]; [|intros H; apply ok_pair_inj in H; destruct H as [<- _]; auto].
    destruct (e_prox e g) as [p|]; [|discriminate]. cbn [m_got_packet].
    destruct (setnowrite_ext (p_m p) (e_mux e) g) as ([_ _ A _ _ _ _] & _).
    destruct (m_setnowrite (p_m p) (e_mux e)) as [m' x']. cbn [fst snd] in *.
    intros H. apply ok_pair_inj in H. destruct H as [<- _]. cbn. congruence.
  - destruct (x_chan (e_mux e) (sf_ch f)) as [g|]; [|intros H; apply ok_pair_inj in H; destruct H as [<- _]; auto].
    destruct (e_prox e g) as [p|]; [|discriminate]. cbn [m_got_packet].
    destruct (setnoread_ext (p_m p) (e_mux e) g) as ([_ _ A _ _ _ _] & _).
    destruct (m_setnoread (p_m p) (e_mux e)) as [m' x']. cbn [fst snd] in *.
    intros H. apply ok_pair_inj in H. destruct H as [<- _]. cbn. congruence.
  - destruct (x_chan (e_mux e) (sf_ch f)) as [g|]; [|intros H; apply ok_pair_inj in H; destruct H as [<- _]; auto].
    destruct (e_prox e g) as [p|]; [|discriminate]. cbn [m_got_packet].
    intros H. apply ok_pair_inj in H. destruct H as [<- _]. cbn. auto.
  - destruct (x_chan (e_mux e) (sf_ch f)) as [g|]; [|intros H; apply ok_pair_inj in H; destruct H as [<- _]; auto].
    destruct (e_prox e g) as [p|]; [|discriminate]. cbn [m_got_packet]. discriminate.
Qed.

Lemma step_no_pause w ev w' : is_check ev = false -> step w ev = Ok w' ->
  (forall sd, tf w sd = false) -> forall sd, tf w' sd = false.
Proof.
  intros Hc Hs Htf. unfold tf in *.
  destruct ev as [payload|sd0 fid o|sd0 fid|sd0|sd0 o|sd0|sd0 fid]; cbn [step is_check] in *; try discriminate.
  - inversion Hs; subst w'. intros [|]; cbn; [|apply (Htf Server)].
    unfold client_accept.
    destruct (next_channel (w_maxc w) (occ (e_mux (w_cl w))) (x_chani (e_mux (w_cl w)))) as [[c|] ch];
      cbn; apply (Htf Client).
  - destruct (e_prox (get_end w sd0) fid) as [p|]; [|discriminate].
    destruct (live p); [|discriminate].
    destruct (proxy_callback sd0 fid p (e_mux (get_end w sd0)) o) as [[p' x']|] eqn:E; [|discriminate].
    destruct (callback_latency _ _ _ _ _ _ _ E) as (new & _ & A & _).
    inversion Hs; subst w'. intros sd. specialize (Htf sd). destruct sd0, sd; cbn in *; congruence.
  - destruct (e_prox (get_end w sd0) fid) as [p|]; [|discriminate].
    destruct (live p); [|discriminate].
    pose proof (pre_select_latency sd0 fid p (e_mux (get_end w sd0))) as F.
    destruct (proxy_pre_select sd0 fid p (e_mux (get_end w sd0))) as [[p' x'] ws].
    destruct F as (new & _ & A & _).
    inversion Hs; subst w'. intros sd. specialize (Htf sd). destruct sd0, sd; cbn in *; congruence.
  - destruct (x_out (e_mux (get_end w sd0))) as [|f rest]; inversion Hs; subst w'; [exact Htf|].
    intros sd. specialize (Htf sd). destruct sd0, sd; cbn in *; congruence.
  - destruct (match sd0 with Client => w_sc w | Server => w_cs w end) as [|f rest]; [inversion Hs; subst; exact Htf|].
    destruct (mux_got_packet sd0 (get_end w sd0) f o) as [[e' st]|] eqn:E; [|discriminate].
    pose proof (got_packet_tf _ _ _ _ _ _ E (Htf sd0)) as A.
    inversion Hs; subst w'. intros sd. specialize (Htf sd). destruct sd0, sd; cbn in *; congruence.
  - destruct (e_prox (get_end w sd0) fid) as [p|]; [|discriminate].
    destruct (negb (p_ok p) && live p); [|discriminate].
    inversion Hs; subst w'. intros sd. specialize (Htf sd). destruct sd0, sd; cbn in *; congruence.
Qed.

Lemma run_no_pause evs : forall w w', forallb (fun ev => negb (is_check ev)) evs = true ->
  run w evs = Ok w' -> (forall sd, tf w sd = false) -> forall sd, tf w' sd = false.
Proof.
  induction evs as [|ev evs IH]; intros w w' Hall; cbn [run].
  - intros [= <-] H. exact H.
  - cbn [forallb] in Hall. apply andb_true_iff in Hall. destruct Hall as [H1 H2].
    apply negb_true_iff in H1.
    destruct (step w ev) as [w1|] eqn:Es; [|discriminate].
    intros Hr Htf. eapply IH; [exact H2|exact Hr|]. eapply step_no_pause; eassumption.
Qed.

(* ---- a batch of callbacks / pre_selects on one end (what one runonce does
        between two check_fullness calls) ---- *)
Inductive batch_ev (sd : side) : event -> Prop :=
| be_cb fid o : batch_ev sd (EvCallback sd fid o)
| be_ps fid : batch_ev sd (EvPreSelect sd fid).

Definition n_callbacks (evs : list event) : N :=
  fold_right (fun ev a => match ev with EvCallback _ _ _ => 1 + a | _ => a end) 0 evs.

Lemma batch_bound sd evs : forall w w', Forall (batch_ev sd) evs -> run w evs = Ok w' ->
  exists new, outq w' sd = outq w sd ++ new /\ tf w' sd = tf w sd /\
    full w' sd = full w sd + pay_len new /\
    data_len new <= 2048 * n_callbacks evs /\ (tf w sd = true -> data_len new = 0).
Proof.
  induction evs as [|ev evs IH]; intros w w' Hall; cbn [run].
  - intros [= <-]. exists []. rewrite app_nil_r. cbn. splits; auto; lia.
  - inversion Hall as [|? ? Hev Hrest]; subst.
    destruct (step w ev) as [w1|] eqn:Es; [|discriminate]. intros Hr.
    destruct (IH w1 w' Hrest Hr) as (new2 & B1 & B2 & B3 & B4 & B5).
    assert (S1 : exists new1, outq w1 sd = outq w sd ++ new1 /\ tf w1 sd = tf w sd /\
              full w1 sd = full w sd + pay_len new1 /\
              data_len new1 <= (match ev with EvCallback _ _ _ => 2048 | _ => 0 end) /\
              (tf w sd = true -> data_len new1 = 0)).
    { unfold outq, tf, full. destruct Hev as [fid o|fid]; cbn [step] in Es.
      - destruct (e_prox (get_end w sd) fid) as [p|]; [|discriminate].
        destruct (live p); [|discriminate].
        destruct (proxy_callback sd fid p (e_mux (get_end w sd)) o) as [[p' x']|] eqn:E; [|discriminate].
        destruct (callback_latency _ _ _ _ _ _ _ E) as (new & A1 & A2 & A3 & A4 & A5).
        inversion Es; subst w1. rewrite get_set_end. cbn [set_prox e_mux].
        exists new. splits; auto. intros H. apply data_cat_nil_len. exact (A5 H).
      - destruct (e_prox (get_end w sd) fid) as [p|]; [|discriminate].
        destruct (live p); [|discriminate].
        pose proof (pre_select_latency sd fid p (e_mux (get_end w sd))) as F.
        destruct (proxy_pre_select sd fid p (e_mux (get_end w sd))) as [[p' x'] ws].
        destruct F as (new & A1 & A2 & A3 & A4 & A5).
        inversion Es; subst w1. rewrite get_set_end. cbn [set_prox e_mux].
        exists new. splits; auto. lia. }
    destruct S1 as (new1 & A1 & A2 & A3 & A4 & A5).
    exists (new1 ++ new2). splits.
    + rewrite B1, A1. apply app_assoc_reverse.
    + congruence.
    + rewrite B3, A3, pay_len_app. lia.
    + rewrite data_len_app. cbn [n_callbacks fold_right]. fold (n_callbacks evs).
      destruct ev; lia.
    + intros H. rewrite data_len_app, (A5 H), B5; [reflexivity|congruence].
Qed.
