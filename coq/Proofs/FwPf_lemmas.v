(* Proofs/FwPf_lemmas.v — C03, pf method (FreeBSD/Darwin and OpenBSD rule shapes). *)
From Coq Require Import List NArith ZArith Ascii Bool Lia ZifyBool.
From SV Require Import Lib.Bytes Model.FwRules Model.FwWalk Proofs.FwRules_lemmas.
Import ListNotations.
Local Open Scope N_scope.
Local Opaque dec.
Arguments N.eqb : simpl never.
Arguments N.leb : simpl never.
Arguments N.shiftr : simpl never.

Lemma filter_flat_map {A B} (P : B -> bool) (F : A -> list B) (G : A -> list B) l :
  (forall x, filter P (F x) = G x) -> filter P (flat_map F l) = flat_map G l.
Proof. intros H. induction l; simpl; [reflexivity|]. rewrite filter_app, H, IHl. reflexivity. Qed.

Lemma flat_map_nil' {A B} (l : list A) : flat_map (fun _ => @nil B) l = [].
Proof. induction l; simpl; auto. Qed.

Definition has_ns (pl : plan) (f : family) : bool := match ns_of pl f with [] => false | _ => true end.
Definition pf_tbl (pl : plan) (f : family) : list N := map ns_addr (ns_of pl f).
Definition asc (pl : plan) (f : family) : list entry := sort_asc (entries_of pl f).
Definition incl (pl : plan) (f : family) : list entry := filter (fun e => negb (e_excl e)) (asc pl f).

Definition out_rule (f : family) (e : entry) : pf_srule :=
  mkPf (pf_entry_conds f e) (if e_excl e then APassOut else ARouteLo).
Definition dns_rule (pl : plan) (f : family) (a : pf_act) : list pf_srule :=
  if has_ns pl f then [mkPf (pf_dns_conds f (pf_tbl pl f)) a] else [].

Definition is_table (l : pf_line) : bool := match l with PTable _ => true | _ => false end.
Lemma table_of_map {A} (g : A -> pf_line) l :
  (forall e, is_table (g e) = false) -> pf_table_of (map g l) = [].
Proof.
  intros Hg. unfold pf_table_of. induction l as [|e l IH]; simpl; [reflexivity|].
  specialize (Hg e). destruct (g e); try discriminate; exact IH.
Qed.
Lemma pf_table_of_app a b : pf_table_of (a ++ b) = pf_table_of a ++ pf_table_of b.
Proof. unfold pf_table_of. apply flat_map_app. Qed.

Lemma pf_table_lines os pl f :
  pf_table_of (pf_lines os pl f) = if has_ns pl f then pf_tbl pl f else [].
Proof.
  unfold pf_lines, has_ns, pf_tbl.
  destruct os; destruct (ns_of pl f) eqn:En; rewrite !pf_table_of_app;
    rewrite !table_of_map by (intros e; try destruct (e_excl e); reflexivity);
    cbn; rewrite ?app_nil_r; reflexivity.
Qed.

Lemma sem_map {A} (P : pf_srule -> bool) (g : A -> pf_line) (h : A -> list pf_srule) tbl l :
  (forall x, filter P (sem_pf_line tbl (g x)) = h x) ->
  filter P (flat_map (sem_pf_line tbl) (map g l)) = flat_map h l.
Proof. intros Hx. induction l as [|x l IH]; simpl; [reflexivity|]. rewrite filter_app, Hx, IH. reflexivity. Qed.

Definition pf_rs (os : pf_os) (pl : plan) (f : family) : list pf_srule :=
  flat_map (sem_pf_line (pf_table_of (pf_lines os pl f))) (pf_lines os pl f).

Ltac pf_seg1 :=
  cbn [flat_map sem_pf_line filter is_out is_rdr is_inlo pf_act_of app]; rewrite ?flat_map_app, ?filter_app.
Ltac pf_seg := do 4 pf_seg1.

Lemma pf_out_rules os pl f :
  filter is_out (pf_rs os pl f) = map (out_rule f) (asc pl f) ++ dns_rule pl f ARouteLo.
Proof.
  unfold pf_rs. rewrite pf_table_lines. unfold pf_lines, dns_rule, has_ns, pf_tbl, asc.
  destruct os; destruct (ns_of pl f) as [|n0 nss] eqn:En; pf_seg;
    rewrite (sem_map is_out _ (fun _ => [])) by (intros x; reflexivity);
    rewrite (sem_map is_out _ (fun e => [out_rule f e]))
      by (intros x; unfold out_rule; destruct (e_excl x); reflexivity);
    rewrite flat_map_nil', <- map_flat_map; reflexivity.
Qed.

Lemma pf_rdr_rules pl f :
  filter is_rdr (pf_rs FreeBsd pl f) =
  map (fun e => mkPf (KSrcNotLo :: pf_entry_conds f e) (ARdr (port_of pl f))) (incl pl f)
  ++ dns_rule pl f (ARdr (dns_of pl f)).
Proof.
  unfold pf_rs. rewrite pf_table_lines. unfold pf_lines, dns_rule, has_ns, pf_tbl, incl, asc.
  destruct (ns_of pl f) as [|n0 nss] eqn:En; pf_seg;
    rewrite (sem_map is_rdr _ (fun e => [mkPf (KSrcNotLo :: pf_entry_conds f e) (ARdr (port_of pl f))]))
      by (intros x; reflexivity);
    rewrite (sem_map is_rdr _ (fun _ => [])) by (intros x; destruct (e_excl x); reflexivity);
    rewrite flat_map_nil', <- map_flat_map, ?app_nil_r; reflexivity.
Qed.

Lemma pf_inlo_rules pl f :
  filter is_inlo (pf_rs OpenBsd pl f) =
  map (fun e => mkPf (pf_entry_conds f e) (AInLo (port_of pl f))) (incl pl f)
  ++ dns_rule pl f (AInLo (dns_of pl f)).
Proof.
  unfold pf_rs. rewrite pf_table_lines. unfold pf_lines, dns_rule, has_ns, pf_tbl, incl, asc.
  destruct (ns_of pl f) as [|n0 nss] eqn:En; pf_seg;
    rewrite (sem_map is_inlo _ (fun e => [mkPf (pf_entry_conds f e) (AInLo (port_of pl f))]))
      by (intros x; reflexivity);
    rewrite (sem_map is_inlo _ (fun _ => [])) by (intros x; destruct (e_excl x); reflexivity);
    rewrite flat_map_nil', <- map_flat_map, ?app_nil_r; reflexivity.
Qed.

(* ---- matching *)
Lemma pf_entry_match f e a p :
  e_fam e = f -> p_fam p = f ->
  pf_matches p (mkPf (pf_entry_conds f e) a) = proto_eqb (p_proto p) Tcp && e_matches p e.
Proof.
  intros He Hp. unfold pf_matches, pf_entry_conds, e_matches. cbn [pf_conds].
  rewrite He, Hp, (proj2 (fam_eqb_eq _ _) eq_refl).
  destruct (N.eqb_spec (e_fport e) 0); cbn; rewrite Hp, (proj2 (fam_eqb_eq _ _) eq_refl); cbn;
    rewrite ?andb_true_r; reflexivity.
Qed.
Lemma pf_rdr_match f e a p :
  e_fam e = f -> p_fam p = f ->
  pf_matches p (mkPf (KSrcNotLo :: pf_entry_conds f e) a) =
  negb (p_src_lo p) && (proto_eqb (p_proto p) Tcp && e_matches p e).
Proof.
  intros He Hp. rewrite <- (pf_entry_match f e a p He Hp). reflexivity.
Qed.
Lemma existsb_map {A B} (g : B -> bool) (h : A -> B) l : existsb g (map h l) = existsb (fun x => g (h x)) l.
Proof. induction l; simpl; congruence. Qed.
Lemma pf_dns_match pl a p :
  pf_matches p (mkPf (pf_dns_conds (p_fam p) (pf_tbl pl (p_fam p))) a) =
  proto_eqb (p_proto p) Udp && ((p_dport p =? 53) && ns_hit pl p).
Proof.
  unfold pf_matches, pf_dns_conds, pf_tbl. cbn. rewrite (proj2 (fam_eqb_eq _ _) eq_refl), existsb_map, ns_hit_of.
  cbn. rewrite andb_true_r.
  replace ((53 <=? p_dport p) && (p_dport p <=? 53)) with (p_dport p =? 53) by lia.
  destruct (proto_eqb _ _), (existsb _ _), (p_dport p =? 53); reflexivity.
Qed.

Lemma last_match_app p a b :
  last_match p (a ++ b) = match last_match p b with Some x => Some x | None => last_match p a end.
Proof.
  induction a as [|r a IH]; simpl; [destruct (last_match p b); reflexivity|].
  rewrite IH. destruct (last_match p b); reflexivity.
Qed.

Lemma last_match_map p (R : entry -> pf_srule) g es :
  (forall e, In e es -> pf_matches p (R e) = g && e_matches p e) ->
  last_match p (map R es) = if g then option_map R (find_last (e_matches p) es) else None.
Proof.
  induction es as [|e es IH]; intros H; [destruct g; reflexivity|].
  cbn [map last_match]. rewrite IH by (intros e' He'; apply H; right; exact He').
  rewrite (H e (or_introl eq_refl)), find_last_cons. destruct g; cbn [andb]; [|reflexivity].
  destruct (find_last (e_matches p) es); [reflexivity|]. cbn. destruct (e_matches p e); reflexivity.
Qed.

Lemma find_last_some f l e : find_last f l = Some e -> In e l /\ f e = true.
Proof. unfold find_last. intros H. apply find_some in H. destruct H as [H1 H2]. split; [apply in_rev; exact H1|exact H2]. Qed.

Lemma first_match_map_some p (R : entry -> pf_srule) l k e :
  In e l -> pf_matches p (R e) = true ->
  exists e', In e' l /\ first_match p (map R l ++ k) = Some (R e').
Proof.
  unfold first_match. induction l as [|x l IH]; intros Hin Hm; [contradiction|]. cbn [map app find].
  destruct (pf_matches p (R x)) eqn:Hx; [exists x; split; [left; reflexivity|reflexivity]|].
  destruct Hin as [->|Hin]; [congruence|]. destruct (IH Hin Hm) as (e' & He' & Hf). exists e'. split; [right; exact He'|exact Hf].
Qed.
Lemma first_match_map_none p (R : entry -> pf_srule) l k :
  (forall e, In e l -> pf_matches p (R e) = false) -> first_match p (map R l ++ k) = first_match p k.
Proof.
  unfold first_match. induction l as [|x l IH]; intros H; [reflexivity|]. cbn [map app find].
  rewrite (H x (or_introl eq_refl)). apply IH. intros e He. apply H. right. exact He.
Qed.

Lemma asc_fam pl f e : In e (asc pl f) -> e_fam e = f.
Proof.
  unfold asc. intros H. apply (proj1 (sort_asc_In _ _)) in H. apply (proj1 (filter_In _ _ _)) in H.
  apply fam_eqb_eq. tauto.
Qed.
Lemma incl_In pl f e : In e (incl pl f) <-> In e (asc pl f) /\ e_excl e = false.
Proof. unfold incl. rewrite filter_In, negb_true_iff. tauto. Qed.

Lemma pf_verdict_of_nil os p : pf_verdict_of os [] p = Untouched.
Proof. reflexivity. Qed.

(* ---- TCP *)
Theorem pf_tcp_eq os pl p :
  wf_plan pl -> p_proto p = Tcp -> p_src_lo p = false ->
  pf_rules os pl (p_fam p) <> None ->
  pf_verdict os pl p =
  Some (if spec_interceptb (pl_entries pl) p then Divert (port_of pl (p_fam p)) else Untouched).
Proof.
  intros Hwf Hp Hsl Hne. unfold pf_verdict.
  destruct (fam_active pl (p_fam p)) eqn:A.
  2:{ unfold pf_rules. rewrite A. destruct (inactive_spec pl p A (proj1 Hwf)) as [-> _]. reflexivity. }
  assert (Hr : pf_rules os pl (p_fam p) = Some (pf_lines os pl (p_fam p))).
  { unfold pf_rules in *. rewrite A in *. destruct (entries_of pl (p_fam p)); [congruence|reflexivity]. }
  rewrite Hr. clear Hr Hne.
  f_equal. unfold pf_verdict_of. fold (pf_rs os pl (p_fam p)).
  rewrite pf_out_rules, last_match_app.
  assert (Ed : forall a, last_match p (dns_rule pl (p_fam p) a) = None).
  { intros a. unfold dns_rule. destruct (has_ns pl (p_fam p)); [|reflexivity]. cbn [last_match].
    rewrite pf_dns_match, Hp. reflexivity. }
  rewrite Ed.
  rewrite (last_match_map p (out_rule (p_fam p)) true)
    by (intros e He; unfold out_rule; rewrite (pf_entry_match _ _ _ _ (asc_fam _ _ _ He) eq_refl), Hp; reflexivity).
  rewrite (last_match_asc_spec _ _ (proj1 Hwf)). unfold asc, entries_of, fam_entries in *.
  destruct (find_last (e_matches p) _) as [e|] eqn:Hfl; [|reflexivity].
  cbn [option_map]. unfold out_rule at 1. cbn [pf_act_of].
  destruct (e_excl e) eqn:Hx; [reflexivity|]. cbn [negb].
  destruct (find_last_some _ _ _ Hfl) as [Hin Hm].
  assert (Hinc : In e (incl pl (p_fam p))) by (apply incl_In; split; assumption).
  destruct os.
  - rewrite pf_rdr_rules.
    destruct (first_match_map_some p
                (fun e => mkPf (KSrcNotLo :: pf_entry_conds (p_fam p) e) (ARdr (port_of pl (p_fam p))))
                (incl pl (p_fam p)) (dns_rule pl (p_fam p) (ARdr (dns_of pl (p_fam p)))) e Hinc) as (e' & _ & ->).
    + rewrite (pf_rdr_match _ _ _ _ (asc_fam _ _ _ Hin) eq_refl), Hsl, Hp, Hm. reflexivity.
    + reflexivity.
  - rewrite pf_inlo_rules, last_match_app, Ed.
    rewrite (last_match_map p _ true)
      by (intros e' He'; apply incl_In in He'; rewrite (pf_entry_match _ _ _ _ (asc_fam _ _ _ (proj1 He')) eq_refl), Hp; reflexivity).
    destruct (find_last (e_matches p) (incl pl (p_fam p))) as [e'|] eqn:Hfl'; [reflexivity|].
    rewrite (find_last_none _ _ Hfl' e Hinc) in Hm. discriminate.
Qed.

(* ---- UDP *)
Theorem pf_udp_eq os pl p :
  wf_plan pl -> p_proto p = Udp ->
  pf_rules os pl (p_fam p) <> None ->
  pf_verdict os pl p =
  Some (if (p_dport p =? 53) && ns_hit pl p then Divert (dns_of pl (p_fam p)) else Untouched).
Proof.
  intros Hwf Hp Hne. unfold pf_verdict.
  destruct (fam_active pl (p_fam p)) eqn:A.
  2:{ unfold pf_rules. rewrite A. destruct (inactive_spec pl p A (proj1 Hwf)) as [_ ->]. rewrite andb_false_r. reflexivity. }
  assert (Hr : pf_rules os pl (p_fam p) = Some (pf_lines os pl (p_fam p))).
  { unfold pf_rules in *. rewrite A in *. destruct (entries_of pl (p_fam p)); [congruence|reflexivity]. }
  rewrite Hr. clear Hr Hne.
  f_equal. unfold pf_verdict_of. fold (pf_rs os pl (p_fam p)).
  rewrite pf_out_rules, last_match_app.
  assert (Eo : forall (R : entry -> pf_srule) l, (forall e, In e l -> exists a c, R e = mkPf (c ++ pf_entry_conds (p_fam p) e) a /\ e_fam e = p_fam p) ->
               forall e, In e l -> pf_matches p (R e) = false).
  { intros R l H e He. destruct (H e He) as (a & c & -> & Hf). unfold pf_matches. cbn [pf_conds].
    rewrite forallb_app.
    change (forallb (cond_ok p 0) (pf_entry_conds (p_fam p) e)) with (pf_matches p (mkPf (pf_entry_conds (p_fam p) e) a)).
    rewrite (pf_entry_match (p_fam p) e a p Hf eq_refl), Hp. cbn. apply andb_false_r. }
  assert (Eout : last_match p (map (out_rule (p_fam p)) (asc pl (p_fam p))) = None).
  { rewrite (last_match_map p _ false); [reflexivity|]. intros e He. unfold out_rule.
    rewrite (pf_entry_match _ _ _ _ (asc_fam _ _ _ He) eq_refl), Hp. reflexivity. }
  rewrite Eout. unfold dns_rule.
  destruct (has_ns pl (p_fam p)) eqn:Hns.
  2:{ cbn. unfold has_ns in Hns. rewrite ns_hit_of. destruct (ns_of pl (p_fam p)); [|discriminate].
      cbn. rewrite andb_false_r. reflexivity. }
  cbn [last_match]. rewrite pf_dns_match, Hp. cbn [proto_eqb andb].
  destruct ((p_dport p =? 53) && ns_hit pl p) eqn:Hd; [|reflexivity]. cbn [pf_act_of].
  destruct os.
  - rewrite pf_rdr_rules, first_match_map_none.
    + unfold dns_rule. rewrite Hns. unfold first_match. cbn [find]. rewrite pf_dns_match, Hp, Hd. reflexivity.
    + apply Eo. intros e He. apply incl_In in He. exists (ARdr (port_of pl (p_fam p))), [KSrcNotLo].
      split; [reflexivity|apply (asc_fam pl); tauto].
  - rewrite pf_inlo_rules, last_match_app. unfold dns_rule. rewrite Hns. cbn [last_match].
    rewrite pf_dns_match, Hp, Hd. reflexivity.
Qed.

(* observation: name servers but no subnet of that family -> UnboundLocalError *)
Lemma pf_rules_crash os pl f :
  entries_of pl f = [] -> ns_of pl f <> [] -> pf_rules os pl f = None.
Proof.
  intros He Hn. unfold pf_rules, fam_active. rewrite He. destruct (ns_of pl f); [contradiction|reflexivity].
Qed.
