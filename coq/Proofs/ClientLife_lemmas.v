(* Proofs/ClientLife_lemmas.v — proofs about Model/ClientLife.v (property C12). *)
From Coq Require Import List NArith ZArith Ascii Bool Lia.
From SV Require Import Lib.Bytes Model.Wire Proofs.Wire_lemmas Model.ClientLife Gen.Consts.
Import ListNotations.

(* ------------------------------------------------------------------ *)
(* count / prec / existsb toolkit                                      *)

Lemma count_app p a b : count p (a ++ b) = (count p a + count p b)%nat.
Proof. unfold count. rewrite filter_app, app_length. reflexivity. Qed.

Lemma count_cons p e tl :
  count p (e :: tl) = ((if p e then 1 else 0) + count p tl)%nat.
Proof. unfold count. cbn [filter]. destruct (p e); reflexivity. Qed.

Lemma count_0 p tr : existsb p tr = false -> count p tr = 0%nat.
Proof.
  induction tr as [|e tl IH]; [reflexivity|].
  cbn [existsb]. intros H. apply orb_false_elim in H as [H1 H2].
  rewrite count_cons, H1, (IH H2). reflexivity.
Qed.

Lemma count_0_inv p tr : count p tr = 0%nat -> existsb p tr = false.
Proof.
  induction tr as [|e tl IH]; [reflexivity|].
  rewrite count_cons. cbn [existsb]. intros H.
  destruct (p e); [lia|]. cbn. apply IH. lia.
Qed.

Lemma prec_true p q tr : prec p q true tr = true.
Proof.
  induction tr as [|e tl IH]; [reflexivity|].
  cbn [prec]. rewrite orb_true_r. cbn. exact IH.
Qed.

Lemma prec_mono p q tr seen : prec p q false tr = true -> prec p q seen tr = true.
Proof. destruct seen; [intros _; apply prec_true | auto]. Qed.

Lemma prec_app p q : forall a seen b,
  prec p q seen (a ++ b) = prec p q seen a && prec p q (seen || existsb p a) b.
Proof.
  induction a as [|e tl IH]; intros seen b.
  - cbn. rewrite orb_false_r. reflexivity.
  - cbn [app prec existsb]. rewrite IH, andb_assoc, orb_assoc. reflexivity.
Qed.

Lemma prec_noq p q tr : forall seen, existsb q tr = false -> prec p q seen tr = true.
Proof.
  induction tr as [|e tl IH]; intros seen H; [reflexivity|].
  cbn [existsb] in H. apply orb_false_elim in H as [H1 H2].
  cbn [prec]. rewrite H1. cbn. apply IH. exact H2.
Qed.

Lemma prec_sound p q : forall pre seen e post,
  prec p q seen (pre ++ e :: post) = true -> q e = true ->
  seen = true \/ existsb p pre = true.
Proof.
  induction pre as [|x tl IH]; intros seen e post H Hq.
  - cbn [app prec] in H. rewrite Hq in H. cbn in H.
    apply andb_prop in H as [H _]. left; exact H.
  - cbn [app prec] in H. apply andb_prop in H as [_ H].
    apply IH in H; [|exact Hq]. cbn [existsb]. destruct H as [H|H].
    + apply orb_prop in H as [H|H]; [left; exact H | right; rewrite H; reflexivity].
    + right. rewrite H. apply orb_true_r.
Qed.

Lemma existsb_In (p : event -> bool) x tr : p x = true -> In x tr -> existsb p tr = true.
Proof. intros H1 H2. apply existsb_exists. exists x. split; assumption. Qed.

Lemma existsb_false_notin (p : event -> bool) x tr :
  existsb p tr = false -> p x = true -> ~ In x tr.
Proof. intros H Hp Hin. rewrite (existsb_In p x tr Hp Hin) in H. discriminate. Qed.

Lemma existsb_impl (p q : event -> bool) tr :
  (forall x, p x = true -> q x = true) -> existsb q tr = false -> existsb p tr = false.
Proof.
  intros Himp. induction tr as [|e tl IH]; [reflexivity|].
  cbn [existsb]. intros H. apply orb_false_elim in H as [H1 H2].
  rewrite (IH H2), orb_false_r.
  destruct (p e) eqn:E; [|reflexivity]. rewrite (Himp e E) in H1. discriminate.
Qed.

Lemma existsb_repeat_false (p : event -> bool) x n :
  p x = false -> existsb p (repeat x n) = false.
Proof. intros H. induction n as [|n IH]; [reflexivity|]. cbn. rewrite H, IH. reflexivity. Qed.

Ltac ex_in H :=
  let x := fresh "x" in let Hin := fresh "Hin" in let Hx := fresh "Hx" in
  apply existsb_exists in H as [x [Hin Hx]]; destruct x; try discriminate; exact Hin.

Lemma In_SyncOk tr : existsb is_SyncOk tr = true -> In SyncOk tr.
Proof. intros H. ex_in H. Qed.
Lemma In_Routes tr : existsb is_Routes tr = true -> In Routes tr.
Proof. intros H. ex_in H. Qed.
Lemma In_FwStart tr : existsb is_FwStart tr = true -> In FwStart tr.
Proof. intros H. ex_in H. Qed.
Lemma In_FwStarted tr : existsb is_FwStarted tr = true -> In FwStarted tr.
Proof. intros H. ex_in H. Qed.

(* ------------------------------------------------------------------ *)
(* The loop invariant                                                  *)

(* events that never come out of the main loop *)
Definition is_outer (e : event) : bool :=
  match e with
  | MainEnter | Upload | SyncOk | Daemonize | MainEnd _ | FwClose | NotifyStop
  | DaemonCleanup | Exit _ => true
  | _ => false
  end.

Record loop_inv (armed : bool) (ev : list event) (armed' : bool) : Prop := mkLI {
  li_dis : armed = false -> armed' = false /\ existsb is_FwStart ev = false;
  li_arm : armed' = true -> existsb is_FwStart ev = false;
  li_cnt : (count is_FwStart ev <= 1)%nat;
  li_rt : prec is_Routes is_FwStart false ev = true;
  li_st : prec is_FwStart is_FwStarted false ev = true;
  li_rd : prec is_FwStarted is_NotifyReady false ev = true;
  li_out : existsb is_outer ev = false
}.

Lemma loop_inv_app a ev1 b ev2 c :
  loop_inv a ev1 b -> loop_inv b ev2 c -> loop_inv a (ev1 ++ ev2) c.
Proof.
  intros H1 H2. constructor.
  - intros Ha. destruct (li_dis _ _ _ H1 Ha) as [Hb N1].
    destruct (li_dis _ _ _ H2 Hb) as [Hc N2].
    split; [exact Hc|]. rewrite existsb_app, N1, N2. reflexivity.
  - intros Hc. pose proof (li_arm _ _ _ H2 Hc) as N2.
    destruct b.
    + rewrite existsb_app, (li_arm _ _ _ H1 eq_refl), N2. reflexivity.
    + destruct (li_dis _ _ _ H2 eq_refl) as [Hc' _]. congruence.
  - rewrite count_app. pose proof (li_cnt _ _ _ H1). pose proof (li_cnt _ _ _ H2).
    destruct b.
    + rewrite (count_0 _ _ (li_arm _ _ _ H1 eq_refl)). lia.
    + destruct (li_dis _ _ _ H2 eq_refl) as [_ N2]. rewrite (count_0 _ _ N2). lia.
  - rewrite prec_app, (li_rt _ _ _ H1). cbn. apply prec_mono, (li_rt _ _ _ H2).
  - rewrite prec_app, (li_st _ _ _ H1). cbn. apply prec_mono, (li_st _ _ _ H2).
  - rewrite prec_app, (li_rd _ _ _ H1). cbn. apply prec_mono, (li_rd _ _ _ H2).
  - rewrite existsb_app, (li_out _ _ _ H1), (li_out _ _ _ H2). reflexivity.
Qed.

Lemma loop_inv_quiet armed ev :
  existsb is_FwStart ev = false -> existsb is_FwStarted ev = false ->
  existsb is_NotifyReady ev = false -> existsb is_outer ev = false ->
  loop_inv armed ev armed.
Proof.
  intros N1 N2 N3 N4. constructor; auto.
  - rewrite (count_0 _ _ N1). lia.
  - apply prec_noq. exact N1.
  - apply prec_noq. exact N2.
  - apply prec_noq. exact N3.
Qed.

Lemma loop_inv_nil armed : loop_inv armed [] armed.
Proof. apply loop_inv_quiet; reflexivity. Qed.

Lemma server_ready_shape s :
  fst (server_ready s) = [FwStart] \/
  fst (server_ready s) = [FwStart; FwStarted; NotifyReady].
Proof.
  unfold server_ready, run_start.
  destruct (s_start s) as [e|e|st rv]; cbn; auto.
  destruct (truthy rv); cbn; auto.
  destruct st; cbn; auto.
Qed.

Lemma run_act_inv s armed a :
  loop_inv armed (fst (fst (run_act s armed a))) (snd (fst (run_act s armed a))).
Proof.
  destruct a as [bad|n bad|e]; cbn [run_act].
  - destruct armed.
    + destruct (s_auto_nets s && bad); cbn [fst snd].
      * apply loop_inv_quiet; reflexivity.
      * pose proof (server_ready_shape s) as Hs.
        destruct (server_ready s) as [ev r]. cbn [fst snd] in *.
        destruct Hs as [-> | ->]; constructor; cbn; try reflexivity; try lia;
          try (intros; discriminate); auto.
    + cbn [fst snd]. apply loop_inv_quiet; reflexivity.
  - cbn [fst snd]. apply loop_inv_quiet; cbn [existsb];
      rewrite existsb_repeat_false; reflexivity.
  - cbn [fst snd]. apply loop_inv_nil.
Qed.

Lemma run_acts_inv s : forall acts armed,
  loop_inv armed (fst (fst (run_acts s armed acts))) (snd (fst (run_acts s armed acts))).
Proof.
  induction acts as [|a tl IH]; intros armed; cbn [run_acts].
  - cbn. apply loop_inv_nil.
  - pose proof (run_act_inv s armed a) as Ha.
    destruct (run_act s armed a) as [[ev a'] r]. cbn [fst snd] in Ha.
    destruct r as [e|]; cbn [fst snd]; [exact Ha|].
    pose proof (IH a') as Ht.
    destruct (run_acts s a' tl) as [[ev' a''] r']. cbn [fst snd] in *.
    eapply loop_inv_app; eassumption.
Qed.

Lemma run_loop_inv s : forall iters armed,
  exists armed', loop_inv armed (fst (run_loop s armed iters)) armed'.
Proof.
  induction iters as [|it tl IH]; intros armed; cbn [run_loop].
  - exists armed. apply loop_inv_nil.
  - destruct (it_dead it); [exists armed; apply loop_inv_nil|].
    pose proof (run_acts_inv s (it_acts it) armed) as Ha.
    destruct (run_acts s armed (it_acts it)) as [[ev a'] r]. cbn [fst snd] in Ha.
    destruct r as [e|]; cbn [fst snd]; [exists a'; exact Ha|].
    destruct (IH a') as [a'' Ht].
    destruct (run_loop s a' tl) as [ev' r']. cbn [fst snd] in *.
    exists a''. eapply loop_inv_app; eassumption.
Qed.

(* ------------------------------------------------------------------ *)
(* Shape of _main's trace and of the finally block                     *)

Definition head_ok (s : script) (hd ev : list event) : Prop :=
  (sync_ok s = false /\ hd = [Upload] /\ ev = []) \/
  (sync_ok s = true /\ (hd = [Upload; SyncOk] \/ hd = [Upload; SyncOk; Daemonize]) /\
   exists a', loop_inv true ev a').

Lemma main_body_shape s : exists hd ev,
  fst (main_body s) = hd ++ ev /\ head_ok s hd ev.
Proof.
  unfold main_body, head_ok, sync_ok.
  destruct (s_connect s) as [e|].
  { exists [Upload], []. split; [reflexivity|]. left. auto. }
  destruct (handshake s) as [[|]|e].
  2,3: destruct (s_poll0 s); exists [Upload], []; (split; [reflexivity|]); left; auto.
  destruct (s_poll0 s) as [rv|].
  { exists [Upload], []. split; [reflexivity|]. left. auto. }
  cbn [negb].
  destruct (run_loop_inv s (s_iters s) true) as [a' Hl].
  destruct (s_daemon s).
  - destruct (s_daemonize s) as [e|].
    + exists [Upload; SyncOk], []. split; [reflexivity|]. right.
      split; [reflexivity|]. split; [left; reflexivity|]. exists true. apply loop_inv_nil.
    + destruct (run_loop s true (s_iters s)) as [ev r]. cbn [fst] in *.
      exists [Upload; SyncOk; Daemonize], ev. split; [reflexivity|]. right.
      split; [reflexivity|]. split; [right; reflexivity|]. exists a'. exact Hl.
  - destruct (run_loop s true (s_iters s)) as [ev r]. cbn [fst] in *.
    exists [Upload; SyncOk], ev. split; [reflexivity|]. right.
    split; [reflexivity|]. split; [left; reflexivity|]. exists a'. exact Hl.
Qed.

Lemma run_unfold s :
  run s = MainEnter :: fst (main_body s) ++
          MainEnd (snd (main_body s)) :: finally_part s (snd (main_body s)).
Proof. unfold run. destruct (main_body s) as [ev e]. reflexivity. Qed.

Definition fin_event (x : event) : Prop := x = NotifyStop \/ x = DaemonCleanup.

Lemma inner_finally_shape s c : exists post e1,
  inner_finally s c = post ++ [Exit e1] /\ (post = [] \/ post = [DaemonCleanup]).
Proof.
  unfold inner_finally. destruct (s_daemon s).
  - destruct (cleanup_exn (s_cleanup s)) as [e|].
    + exists [DaemonCleanup], e. auto.
    + exists [DaemonCleanup], c. auto.
  - exists [], c. auto.
Qed.

Lemma finally_shape s e : exists post e1,
  finally_part s e = FwClose :: post ++ [Exit e1] /\
  Forall fin_event post /\
  (In NotifyStop post <-> done_ok s = true).
Proof.
  assert (Hin : forall c, exists post e1,
             inner_finally s c = post ++ [Exit e1] /\ Forall fin_event post /\ ~ In NotifyStop post).
  { intros c. destruct (inner_finally_shape s c) as (post & e1 & H & Hp).
    exists post, e1. split; [exact H|]. destruct Hp as [-> | ->]; split.
    - constructor.
    - intros [].
    - constructor; [right; reflexivity | constructor].
    - cbn. intros [H1|H1]; [discriminate|exact H1]. }
  unfold finally_part, done_ok.
  destruct (s_close s) as [e1|].
  { destruct (Hin e1) as (post & e2 & H & HF & HN). exists post, e2. rewrite H.
    split; [reflexivity|]. split; [exact HF|]. split; [contradiction|discriminate]. }
  destruct (done_wait s) as [rv|e2].
  2:{ destruct (Hin e2) as (post & e3 & H & HF & HN). exists post, e3. rewrite H.
      split; [reflexivity|]. split; [exact HF|]. split; [contradiction|discriminate]. }
  destruct (Z.eqb rv 0); cbn [negb].
  2:{ destruct (Hin (EFatal FCleanup)) as (post & e3 & H & HF & HN). exists post, e3. rewrite H.
      split; [reflexivity|]. split; [exact HF|]. split; [contradiction|discriminate]. }
  destruct (notify_exn (s_stop s)) as [e3|].
  - destruct (Hin e3) as (post & e4 & H & HF & HN). exists (NotifyStop :: post), e4. rewrite H.
    split; [reflexivity|]. split; [constructor; [left; reflexivity|exact HF]|].
    split; [reflexivity|]. intros _. left; reflexivity.
  - destruct (Hin e) as (post & e4 & H & HF & HN). exists (NotifyStop :: post), e4. rewrite H.
    split; [reflexivity|]. split; [constructor; [left; reflexivity|exact HF]|].
    split; [reflexivity|]. intros _. left; reflexivity.
Qed.

Lemma fin_events_existsb (p : event -> bool) post :
  p NotifyStop = false -> p DaemonCleanup = false -> Forall fin_event post ->
  existsb p post = false.
Proof.
  intros H1 H2 HF. induction HF as [|x l Hx _ IH]; [reflexivity|].
  cbn [existsb]. rewrite IH, orb_false_r. destruct Hx as [-> | ->]; assumption.
Qed.

(* the part of the trace after _main ended, for a predicate that is false on
   MainEnd, FwClose, NotifyStop, DaemonCleanup and Exit *)
Lemma tail_existsb (p : event -> bool) e post e1 :
  (forall x, p (MainEnd x) = false) -> p FwClose = false -> p NotifyStop = false ->
  p DaemonCleanup = false -> (forall x, p (Exit x) = false) -> Forall fin_event post ->
  existsb p (MainEnd e :: FwClose :: post ++ [Exit e1]) = false.
Proof.
  intros H1 H2 H3 H4 H5 HF. cbn [existsb]. rewrite H1, H2, existsb_app.
  rewrite (fin_events_existsb p post H3 H4 HF). cbn. rewrite H5. reflexivity.
Qed.

(* ------------------------------------------------------------------ *)
(* Whole-trace facts                                                   *)

Lemma mid_start_facts s hd ev : head_ok s hd ev ->
  prec is_SyncOk is_FwStart false (hd ++ ev) = true /\
  prec is_Routes is_FwStart false (hd ++ ev) = true /\
  (count is_FwStart (hd ++ ev) <= 1)%nat /\
  prec is_FwStart is_FwStarted false (hd ++ ev) = true /\
  prec is_FwStarted is_NotifyReady false (hd ++ ev) = true /\
  existsb is_FwClose (hd ++ ev) = false /\
  existsb is_NotifyStop (hd ++ ev) = false /\
  existsb is_SyncOk (hd ++ ev) = sync_ok s /\
  (sync_ok s = false -> existsb is_FwStart (hd ++ ev) = false).
Proof.
  intros [(Hs & -> & ->) | (Hs & Hhd & a' & Hl)].
  - rewrite Hs. cbn. repeat split; auto.
  - rewrite Hs.
    assert (Hc : existsb is_FwClose ev = false).
    { apply (existsb_impl is_FwClose is_outer); [|exact (li_out _ _ _ Hl)].
      intros x; destruct x; cbn; congruence. }
    assert (Hn : existsb is_NotifyStop ev = false).
    { apply (existsb_impl is_NotifyStop is_outer); [|exact (li_out _ _ _ Hl)].
      intros x; destruct x; cbn; congruence. }
    pose proof (li_cnt _ _ _ Hl) as Hcnt.
    rewrite !prec_app, count_app, !existsb_app, Hc, Hn.
    destruct Hhd as [-> | ->]; cbn;
      rewrite ?prec_true, ?(li_rt _ _ _ Hl), ?(li_st _ _ _ Hl), ?(li_rd _ _ _ Hl);
      repeat split; auto; try lia; try discriminate.
Qed.

Record run_facts (tr : list event) (sok : bool) : Prop := mkRF {
  rf_sync : prec is_SyncOk is_FwStart false tr = true;
  rf_routes : prec is_Routes is_FwStart false tr = true;
  rf_cnt : (count is_FwStart tr <= 1)%nat;
  rf_st : prec is_FwStart is_FwStarted false tr = true;
  rf_rd : prec is_FwStarted is_NotifyReady false tr = true;
  rf_sok : existsb is_SyncOk tr = sok;
  rf_nostart : sok = false -> existsb is_FwStart tr = false
}.

Lemma frame_prec p q mid tl :
  p MainEnter = false -> q MainEnter = false -> existsb q tl = false ->
  prec p q false mid = true -> prec p q false (MainEnter :: mid ++ tl) = true.
Proof.
  intros Hp Hq Ht Hm. cbn [prec]. rewrite Hp, Hq. cbn.
  rewrite prec_app, Hm. cbn. apply prec_noq. exact Ht.
Qed.

Lemma run_decomp s : exists hd ev e post e1,
  run s = MainEnter :: (hd ++ ev) ++ MainEnd e :: FwClose :: post ++ [Exit e1] /\
  e = snd (main_body s) /\
  head_ok s hd ev /\ Forall fin_event post /\ (In NotifyStop post <-> done_ok s = true).
Proof.
  destruct (main_body_shape s) as (hd & ev & Hfst & Hok).
  destruct (finally_shape s (snd (main_body s))) as (post & e1 & Hfin & HF & Hstop).
  exists hd, ev, (snd (main_body s)), post, e1.
  rewrite run_unfold, Hfst, Hfin. auto.
Qed.

Lemma run_has_facts s : run_facts (run s) (sync_ok s).
Proof.
  destruct (run_decomp s) as (hd & ev & e & post & e1 & Hrun & _ & Hok & HF & _).
  rewrite Hrun.
  destruct (mid_start_facts s hd ev Hok) as (M1 & M2 & M3 & M4 & M5 & _ & _ & M8 & M9).
  assert (T1 : existsb is_FwStart (MainEnd e :: FwClose :: post ++ [Exit e1]) = false)
    by (apply tail_existsb; auto).
  assert (T2 : existsb is_FwStarted (MainEnd e :: FwClose :: post ++ [Exit e1]) = false)
    by (apply tail_existsb; auto).
  assert (T3 : existsb is_NotifyReady (MainEnd e :: FwClose :: post ++ [Exit e1]) = false)
    by (apply tail_existsb; auto).
  assert (T4 : existsb is_SyncOk (MainEnd e :: FwClose :: post ++ [Exit e1]) = false)
    by (apply tail_existsb; auto).
  constructor.
  - apply frame_prec; auto.
  - apply frame_prec; auto.
  - rewrite count_cons, count_app, (count_0 _ _ T1). cbn. lia.
  - apply frame_prec; auto.
  - apply frame_prec; auto.
  - cbn [existsb is_SyncOk]. rewrite existsb_app, T4, M8, orb_false_r. reflexivity.
  - intros Hs. cbn [existsb is_FwStart]. rewrite existsb_app, T1, (M9 Hs). reflexivity.
Qed.

(* ------------------------------------------------------------------ *)
(* C12 (1): FwStart only after SyncOk and Routes, and at most once      *)

Lemma start_after_routes s pre post :
  run s = pre ++ FwStart :: post ->
  In SyncOk pre /\ In Routes pre /\ ~ In FwStart pre /\ ~ In FwStart post.
Proof.
  intros Hrun. pose proof (run_has_facts s) as F. rewrite Hrun in F.
  split; [|split].
  - destruct (prec_sound _ _ _ _ _ _ (rf_sync _ _ F) eq_refl) as [H|H]; [discriminate|].
    apply In_SyncOk. exact H.
  - destruct (prec_sound _ _ _ _ _ _ (rf_routes _ _ F) eq_refl) as [H|H]; [discriminate|].
    apply In_Routes. exact H.
  - pose proof (rf_cnt _ _ F) as Hc. rewrite count_app, count_cons in Hc. cbn in Hc.
    split; apply (existsb_false_notin is_FwStart); try reflexivity; apply count_0_inv; lia.
Qed.

(* C12 (2): NotifyReady only after the helper confirmed (and was asked) *)
Lemma ready_after_confirm s pre post :
  run s = pre ++ NotifyReady :: post ->
  In FwStarted pre /\ In FwStart pre.
Proof.
  intros Hrun. pose proof (run_has_facts s) as F. rewrite Hrun in F.
  destruct (prec_sound _ _ _ _ _ _ (rf_rd _ _ F) eq_refl) as [H|H]; [discriminate|].
  apply In_FwStarted in H. split; [exact H|].
  destruct (in_split _ _ H) as (p1 & p2 & ->).
  pose proof (rf_st _ _ F) as Hst. rewrite <- app_assoc in Hst. cbn [app] in Hst.
  destruct (prec_sound _ _ _ _ _ _ Hst eq_refl) as [H1|H1]; [discriminate|].
  apply in_or_app. left. apply In_FwStart. exact H1.
Qed.

Lemma started_after_start s pre post :
  run s = pre ++ FwStarted :: post -> In FwStart pre.
Proof.
  intros Hrun. pose proof (run_has_facts s) as F. rewrite Hrun in F.
  destruct (prec_sound _ _ _ _ _ _ (rf_st _ _ F) eq_refl) as [H|H]; [discriminate|].
  apply In_FwStart. exact H.
Qed.

(* C12 (3): whatever ends _main, the helper channel is closed before exit *)
Lemma close_always s : exists pre e0 post e1,
  run s = MainEnter :: pre ++ MainEnd e0 :: FwClose :: post ++ [Exit e1] /\
  ~ In FwClose pre /\
  (forall x, In x post -> x = NotifyStop \/ x = DaemonCleanup).
Proof.
  destruct (run_decomp s) as (hd & ev & e & post & e1 & Hrun & _ & Hok & HF & _).
  exists (hd ++ ev), e, post, e1. split; [exact Hrun|]. split.
  - destruct (mid_start_facts s hd ev Hok) as (_ & _ & _ & _ & _ & M6 & _).
    apply (existsb_false_notin is_FwClose); [exact M6|reflexivity].
  - intros x Hx. rewrite Forall_forall in HF. exact (HF x Hx).
Qed.

(* C12 (4): ssh found dead at any iteration ends the loop there with Fatal *)
Lemma run_loop_dead s it tl : it_dead it <> None ->
  forall a armed,
  run_loop s armed (a ++ it :: tl) =
  (fst (run_loop s armed a),
   match snd (run_loop s armed a) with
   | Some e => Some e
   | None => Some (EFatal FSshExited)
   end).
Proof.
  intros Hd. induction a as [|x a IH]; intros armed.
  - cbn [app run_loop fst snd]. destruct (it_dead it); [reflexivity|congruence].
  - cbn [app run_loop]. destruct (it_dead x); [reflexivity|].
    destruct (run_acts s armed (it_acts x)) as [[ev a'] r].
    destruct r as [e|]; [reflexivity|].
    rewrite IH. destruct (run_loop s a' a) as [ev' r']. reflexivity.
Qed.

Lemma run_loop_dead_raises s iters armed :
  Exists (fun it => it_dead it <> None) iters -> snd (run_loop s armed iters) <> None.
Proof.
  intros H. apply Exists_exists in H as (it & Hin & Hd).
  destruct (in_split _ _ Hin) as (a & tl & ->).
  rewrite (run_loop_dead s it tl Hd). cbn [snd].
  destruct (snd (run_loop s armed a)); discriminate.
Qed.

Lemma main_body_loop s : sync_ok s = true ->
  (s_daemon s = true -> s_daemonize s = None) ->
  snd (main_body s) = loop_end (snd (run_loop s true (s_iters s))).
Proof.
  unfold sync_ok, main_body. intros Hs Hd.
  destruct (s_connect s); [discriminate|].
  destruct (handshake s) as [[|]|e]; try discriminate.
  destruct (s_poll0 s); [discriminate|]. cbn [negb].
  destruct (s_daemon s).
  - rewrite (Hd eq_refl). destruct (run_loop s true (s_iters s)); reflexivity.
  - destruct (run_loop s true (s_iters s)); reflexivity.
Qed.

Lemma dead_ssh s a it tl :
  sync_ok s = true -> (s_daemon s = true -> s_daemonize s = None) ->
  s_iters s = a ++ it :: tl -> it_dead it <> None ->
  snd (run_loop s true a) = None ->
  exists pre post, run s = pre ++ MainEnd (EFatal FSshExited) :: FwClose :: post.
Proof.
  intros Hs Hdz Hit Hd Ha.
  destruct (run_decomp s) as (hd & ev & e & post & e1 & Hrun & He & _).
  rewrite (main_body_loop s Hs Hdz), Hit, (run_loop_dead s it tl Hd), Ha in He.
  cbn in He. subst e.
  exists (MainEnter :: hd ++ ev), (post ++ [Exit e1]). exact Hrun.
Qed.

(* C12 (5): no verified handshake, no interception *)
Lemma no_sync_no_start s : sync_ok s = false ->
  ~ In SyncOk (run s) /\ ~ In FwStart (run s) /\ ~ In Routes (run s) /\
  exists e post, run s = MainEnter :: Upload :: MainEnd e :: FwClose :: post.
Proof.
  intros Hs. pose proof (run_has_facts s) as F. rewrite Hs in F.
  split; [|split; [|split]].
  - apply (existsb_false_notin is_SyncOk); [exact (rf_sok _ _ F)|reflexivity].
  - apply (existsb_false_notin is_FwStart); [exact (rf_nostart _ _ F eq_refl)|reflexivity].
  - destruct (run_decomp s) as (hd & ev & e & post & e1 & Hrun & _ & Hok & HF & _).
    destruct Hok as [(_ & -> & ->) | (Hs' & _)]; [|congruence].
    rewrite Hrun. cbn [app]. intros [H|[H|[H|[H|H]]]]; try discriminate.
    apply in_app_or in H as [H|[H|[]]]; [|discriminate].
    rewrite Forall_forall in HF. destruct (HF _ H); discriminate.
  - destruct (run_decomp s) as (hd & ev & e & post & e1 & Hrun & _ & Hok & _).
    destruct Hok as [(_ & -> & ->) | (Hs' & _)]; [|congruence].
    exists e, (post ++ [Exit e1]). exact Hrun.
Qed.

Lemma sync_iff s : In SyncOk (run s) <-> sync_ok s = true.
Proof.
  pose proof (run_has_facts s) as F. split.
  - intros H. rewrite <- (rf_sok _ _ F). apply (existsb_In is_SyncOk SyncOk); [reflexivity|exact H].
  - intros H. apply In_SyncOk. rewrite (rf_sok _ _ F). exact H.
Qed.

Lemma sync_ok_hs_run s : sync_ok s = true -> fst (hs_run expected (s_chunks s)) = true.
Proof.
  unfold sync_ok, handshake.
  destruct (s_connect s); [discriminate|].
  destruct (lenN (hs_init (s_chunks s)) <? lenN expected)%N.
  - destruct (s_hs_end s); [discriminate|].
    destruct (fst (hs_run expected (s_chunks s))); [reflexivity|discriminate].
  - destruct (fst (hs_run expected (s_chunks s))); [reflexivity|discriminate].
Qed.

(* stream level: the verdict depends on the bytes only (C07's c07_handshake) *)
Lemma sync_ok_stream s : Forall nonempty (s_chunks s) -> sync_ok s = true ->
  fst (hs_spec client_sync (concat (s_chunks s))) = true.
Proof.
  intros HF Hs. apply sync_ok_hs_run in Hs.
  destruct (hs_run_spec expected (s_chunks s) HF) as [H _].
  unfold expected in *. rewrite <- H. exact Hs.
Qed.

Lemma lenN_takeN_le n l : (lenN (takeN n l) <= lenN l)%N.
Proof. unfold takeN, lenN. rewrite firstn_length. lia. Qed.

(* a stream that ends before 12 bytes have followed the second NUL is never accepted *)
Lemma short_stream_rejected str :
  (lenN (after_nul (after_nul str)) < lenN client_sync)%N ->
  fst (hs_spec client_sync str) = false.
Proof.
  intros Hlen. unfold hs_spec. cbn [fst].
  destruct (bytes_eqb (takeN (lenN client_sync) (after_nul (after_nul str))) client_sync) eqn:E;
    [|reflexivity].
  apply bytes_eqb_eq in E. exfalso.
  pose proof (lenN_takeN_le (lenN client_sync) (after_nul (after_nul str))) as Hl.
  rewrite E in Hl. lia.
Qed.

(* C12 (6): STOPPING=1 is announced iff closing the helper succeeded *)
Lemma stop_iff_done_ok s : In NotifyStop (run s) <-> done_ok s = true.
Proof.
  destruct (run_decomp s) as (hd & ev & e & post & e1 & Hrun & _ & Hok & HF & Hstop).
  destruct (mid_start_facts s hd ev Hok) as (_ & _ & _ & _ & _ & _ & M7 & _).
  rewrite <- Hstop, Hrun. split.
  - cbn [In]. intros [H|H]; [discriminate|].
    apply in_app_or in H as [H|H].
    + exfalso. revert H. apply (existsb_false_notin is_NotifyStop); [exact M7|reflexivity].
    + cbn [In] in H. destruct H as [H|[H|H]]; try discriminate.
      apply in_app_or in H as [H|[H|[]]]; [exact H|discriminate].
  - intros H. right. apply in_or_app. right. right. right. apply in_or_app. left. exact H.
Qed.

Lemma wrong_handshake s : Forall nonempty (s_chunks s) ->
  fst (hs_spec client_sync (concat (s_chunks s))) = false ->
  ~ In SyncOk (run s) /\ ~ In FwStart (run s).
Proof.
  intros HF Hv.
  assert (Hs : sync_ok s = false).
  { destruct (sync_ok s) eqn:E; [|reflexivity].
    pose proof (sync_ok_stream s HF E) as H1. rewrite Hv in H1. discriminate. }
  destruct (no_sync_no_start s Hs) as (H1 & H2 & _). split; assumption.
Qed.

Lemma missing_handshake s : Forall nonempty (s_chunks s) ->
  (lenN (after_nul (after_nul (concat (s_chunks s)))) < lenN client_sync)%N ->
  ~ In SyncOk (run s) /\ ~ In FwStart (run s).
Proof.
  intros HF Hl. apply wrong_handshake; [exact HF|]. apply short_stream_rejected. exact Hl.
Qed.

(* the wrong-string case is visible as the SyncBad event *)
Lemma bad_sync_event s :
  s_connect s = None -> handshake s = HsDone false -> s_poll0 s = None ->
  exists post, run s = MainEnter :: Upload :: SyncBad :: FwClose :: post.
Proof.
  intros Hc Hh Hp.
  destruct (finally_shape s (EFatal FBadSync)) as (post & e1 & Hfin & _).
  exists (post ++ [Exit e1]).
  rewrite run_unfold. unfold main_body. rewrite Hc, Hh, Hp. cbn [negb fst snd app].
  rewrite Hfin. reflexivity.
Qed.
