(* Proofs/DgramSystem_lemmas.v — the two-ended datagram system of Model/Dgram.v (C10): the client step function
   and the server iteration composed over two reliable FIFO links; a reply is never delivered to another
   requester under ONE system-level hypothesis (an identifier is not put on the wire for a new DNS query while
   anything of a previous incarnation is in flight).                                                   *)
From Coq Require Import List NArith Ascii Bool Lia Arith.
From SV Require Import Lib.Bytes Lib.DgramLib Model.Chan Proofs.Chan_lemmas Model.Dgram Proofs.Dgram_lemmas
  Model.DgramSys Proofs.DgramServer_lemmas Gen.Consts.
Import ListNotations.
Local Open Scope N_scope.

(* ------------------------------------------------------------------ *)
(* server: (identifier, ghost tag) pairs only move, they are never made up *)

Section Tags.
  Context (P : N -> N -> Prop).

  Definition s_tags (s : sstate) : Prop :=
    forall hid d, In (hid, HDns d) (s_h s) -> P (d_chan d) (d_tag d).
  Definition out_tags (o : sout) : Prop :=
    match o with SFrame ch cmd _ tag => cmd = CMD_DNS_RESPONSE -> P ch tag | _ => True end.
  Definition frame_tags (f : frame) : Prop := f_cmd f = FDnsReq -> P (f_ch f) (f_tag f).

  Definition no_sframe (o : sout) : Prop := match o with SFrame _ _ _ _ => False | _ => True end.

  Lemma no_sframe_tags l : Forall no_sframe l -> Forall out_tags l.
  Proof. apply Forall_impl. intros [] H; cbn in *; tauto. Qed.

  Lemma try_send_no_sframe fx cfg : forall left d nsock io d' n' io' outs,
    try_send fx cfg left d nsock io = Ok (d', n', io', outs) -> Forall no_sframe outs.
  Proof.
    induction left as [|left IH]; intros d nsock io d' n' io' outs E; cbn [try_send] in E.
    - inversion E; subst. constructor.
    - destruct (fst (pop (snd (dns_target cfg io)))).
      2:{ destruct (fx10 fx); [|discriminate]. destruct (is_net_err e).
          - destruct (try_send fx cfg left _ _ _) as [[[[d2 n2] io2] o2]| |] eqn:Et; cbn [bind] in E; try discriminate.
            inversion E; subst. constructor; [exact Logic.I|exact (IH _ _ _ _ _ _ _ Et)].
          - inversion E; subst. repeat constructor. }
      all: destruct (fst (pop (snd (pop (snd (dns_target cfg io)))))); try (inversion E; subst; repeat constructor).
      all: destruct (is_net_err e); [|inversion E; subst; repeat constructor].
      all: destruct (try_send fx cfg left _ _ _) as [[[[d2 n2] io2] o2]| |] eqn:Et; cbn [bind] in E; try discriminate;
           inversion E; subst; repeat constructor; exact (IH _ _ _ _ _ _ _ Et).
  Qed.

  Lemma aset_In {V} k (v : V) l k' v' : In (k', v') (aset N.eqb k v l) -> (k' = k /\ v' = v) \/ In (k', v') l.
  Proof.
    induction l as [|[k2 v2] tl IH]; cbn [aset].
    - intros [[= <- <-]|[]]. left. auto.
    - destruct (N.eqb k k2).
      + intros [[= <- <-]|H]; [left; auto|right; right; exact H].
      + intros [H|H]; [right; left; exact H|]. destruct (IH H); [left; assumption|right; right; assumption].
  Qed.

  Lemma dns_req_tags fx cfg now ch data tag s io s' io' o :
    s_tags s -> P ch tag -> dns_req fx cfg now ch data tag s io = Ok (s', io', o) ->
    s_tags s' /\ Forall out_tags o.
  Proof.
    intros T Hp E. unfold dns_req in E.
    destruct (try_send fx cfg _ _ _ _) as [[[[d n] io1] o1]| |] eqn:Et; cbn [bind] in E; try discriminate.
    inversion E; subst.
    destruct (try_send_spec _ _ _ _ _ _ _ _ _ _ Et) as (_ & _ & _ & _ & _ & _ & Hch & Htag & _).
    cbn [d_chan d_tag] in Hch, Htag. split.
    - intros hid d0 H. cbn [s_h] in H. apply in_app_iff in H. destruct H as [H|[[= <- <-]|[]]]; [exact (T _ _ H)|].
      rewrite Hch, Htag. exact Hp.
    - apply no_sframe_tags. exact (try_send_no_sframe _ _ _ _ _ _ _ _ _ _ Et).
  Qed.

  Lemma s_frame_tags fx cfg now f s io s' io' o :
    s_tags s -> frame_tags f -> s_frame fx cfg now f s io = Ok (s', io', o) -> s_tags s' /\ Forall out_tags o.
  Proof.
    destruct f as [[[ch cmd] data] tag]. unfold frame_tags, f_cmd, f_ch, f_tag. cbn [fst snd].
    intros T Hp E. unfold s_frame in E.
    assert (Hreq : forall c, udp_req fx ch c data s io = Ok (s', io', o) -> s_tags s' /\ Forall out_tags o).
    { intros c Er. unfold udp_req in Er. destruct c; try (inversion Er; subst; split; [exact T|constructor]).
      - destruct (split3 data) as [[[a p] d]|]; [|discriminate]. destruct (undec p); [|discriminate].
        destruct (alookup N.eqb ch (s_udph s)); [|discriminate].
        destruct (alookup N.eqb n0 (s_h s)) as [[d0|u]|]; try discriminate.
        destruct (65535 <? n); [discriminate|]. inversion Er; subst. split; [exact T|repeat constructor].
      - destruct (alookup N.eqb ch (s_udph s)); [|discriminate].
        destruct (alookup N.eqb n (s_h s)) as [[d0|u]|]; try discriminate.
        inversion Er; subst. split; [|constructor]. intros hid d0 H. cbn [s_h set_handler] in H.
        apply aset_In in H. destruct H as [[_ H]|H]; [discriminate|exact (T _ _ H)]. }
    destruct cmd.
    - destruct (mem ch (s_chan s)); [discriminate|]. exact (dns_req_tags _ _ _ _ _ _ _ _ _ _ _ T (Hp eq_refl) E).
    - destruct (mem ch (s_chan s)); [discriminate|]. unfold udp_open in E.
      destruct (undec data); [|discriminate]. destruct (amem N.eqb ch (s_udph s)); [discriminate|].
      inversion E; subst. split; [|repeat constructor]. intros hid d0 H. cbn [s_h] in H.
      apply in_app_iff in H. destruct H as [H|[H|[]]]; [exact (T _ _ H)|discriminate].
    - destruct (mem ch (s_chan s)); [exact (Hreq _ E)|]. inversion E; subst. split; [exact T|constructor].
    - destruct (mem ch (s_chan s)); [exact (Hreq _ E)|]. inversion E; subst. split; [exact T|constructor].
    - destruct (mem ch (s_chan s)); [exact (Hreq _ E)|]. inversion E; subst. split; [exact T|constructor].
  Qed.

  Lemma cmd_resp_ne_data : CMD_UDP_DATA <> CMD_DNS_RESPONSE.
  Proof. discriminate. Qed.

  Lemma visit_tags fx cfg ready hid s io s' io' o :
    s_tags s -> visit fx cfg ready hid s io = Ok (s', io', o) -> s_tags s' /\ Forall out_tags o.
  Proof.
    intros T E. unfold visit in E.
    destruct (alookup N.eqb hid (s_h s)) as [[d|u]|] eqn:H; [| |inversion E; subst; split; [exact T|constructor]].
    - apply (alookup_In N.eqb Neqb_eq) in H. pose proof (T _ _ H) as Hp.
      destruct (d_socks d) as [|sock tl]; [inversion E; subst; split; [exact T|constructor]|].
      destruct (mem sock ready); [|inversion E; subst; split; [exact T|constructor]].
      assert (G : forall d2 n, d_chan d2 = d_chan d -> d_tag d2 = d_tag d -> s_tags (set_handler s hid (HDns d2) n)).
      { intros d2 n A B hid0 d0 H0. cbn [set_handler s_h] in H0. apply aset_In in H0.
        destruct H0 as [[_ [= ->]]|H0]; [rewrite A, B; exact Hp|exact (T _ _ H0)]. }
      unfold dns_callback in E. destruct (fst (pop io)) eqn:Ei.
      2:{ destruct (is_net_err e).
          - destruct (try_send fx cfg _ _ _ _) as [[[[d2 n2] io2] o2]| |] eqn:Et; cbn [bind] in E; try discriminate.
            inversion E; subst.
            destruct (try_send_spec _ _ _ _ _ _ _ _ _ _ Et) as (_ & _ & _ & _ & _ & _ & Hch & Htag & _).
            split; [exact (G _ _ Hch Htag)|]. apply no_sframe_tags. exact (try_send_no_sframe _ _ _ _ _ _ _ _ _ _ Et).
          - inversion E; subst. split; [apply G; reflexivity|constructor]. }
      all: destruct (mux_check _ _ _); cbn [bind] in E; try discriminate; inversion E; subst;
           (split; [apply G; reflexivity|]); constructor; [intros _; exact Hp|constructor].
    - destruct (mem (u_sock u) ready); [|inversion E; subst; split; [exact T|constructor]].
      unfold udp_callback in E. destruct (fst (pop io)) eqn:Ei.
      2:{ destruct (fx4 fx); [|discriminate]. inversion E; subst. split; [exact T|constructor]. }
      all: cbv zeta in E; destruct (mux_check _ _ _); cbn [bind] in E; try discriminate; inversion E; subst;
           (split; [exact T|]); constructor; [intros C; exfalso; exact (cmd_resp_ne_data C)|constructor].
  Qed.

  Lemma fold_steps_tags {X} (f : X -> sstate -> list io_item -> res (sstate * list io_item * list sout)) (Q : X -> Prop) :
    (forall x s io s' io' o, Q x -> s_tags s -> f x s io = Ok (s', io', o) -> s_tags s' /\ Forall out_tags o) ->
    forall xs s io s' io' o, Forall Q xs -> s_tags s -> fold_steps f xs s io = Ok (s', io', o) ->
      s_tags s' /\ Forall out_tags o.
  Proof.
    intros Hf. induction xs as [|x tl IH]; intros s io s' io' o HQ T E; cbn [fold_steps] in E.
    - inversion E; subst. split; [exact T|constructor].
    - inversion HQ as [|? ? Hx HQ']; subst.
      destruct (f x s io) as [[[s1 io1] o1]| |] eqn:E1; cbn [bind] in E; try discriminate.
      destruct (fold_steps f tl s1 io1) as [[[s2 io2] o2]| |] eqn:E2; cbn [bind] in E; try discriminate.
      inversion E; subst. destruct (Hf _ _ _ _ _ _ Hx T E1) as [T1 O1].
      destruct (IH _ _ _ _ _ HQ' T1 E2) as [T2 O2]. split; [exact T2|]. apply Forall_app. split; assumption.
  Qed.

  Lemma sweep_tags now s : s_tags s -> s_tags (remove_dead (sweep now s)).
  Proof.
    intros T hid d H. unfold remove_dead in H. cbn [s_h] in H. apply filter_In in H. destruct H as [H _].
    unfold sweep in H. cbn [s_h] in H. apply in_map_iff in H. destruct H as ([hid0 h0] & Hg & Hin). cbn [fst snd] in Hg.
    destruct (mem hid0 _).
    - inversion Hg; subst. destruct h0 as [d0|u0]; [|discriminate]. cbn [h_kill] in *.
      match goal with H : HDns _ = HDns d |- _ => inversion H; subst end. exact (T _ _ Hin).
    - inversion Hg; subst. exact (T _ _ Hin).
  Qed.

  (* one iteration: handlers afterwards and DNS_RESPONSE frames emitted carry (identifier, tag) pairs of handlers
     before or of DNS_REQ frames dispatched *)
  Lemma sstep_tags fx cfg s e s' o :
    s_tags s -> Forall frame_tags (se_frames e) -> sstep fx cfg s e = Ok (s', o) -> s_tags s' /\ Forall out_tags o.
  Proof.
    intros T HF E. unfold sstep in E.
    destruct (fold_steps (s_frame fx cfg (se_now e)) (se_frames e) s (se_io e)) as [[[s1 io1] o1]| |] eqn:E1;
      cbn [bind] in E; try discriminate.
    destruct (fold_steps (visit fx cfg _) (map fst (s_h s1)) s1 io1) as [[[s2 io2] o2]| |] eqn:E2;
      cbn [bind] in E; try discriminate.
    inversion E; subst.
    destruct (fold_steps_tags (s_frame fx cfg (se_now e)) frame_tags
                (fun x s io s' io' o Hx Ts Ex => s_frame_tags _ _ _ _ _ _ _ _ _ Ts Hx Ex) _ _ _ _ _ _ HF T E1) as [T1 O1].
    destruct (fold_steps_tags (visit fx cfg _) (fun _ => True)
                (fun x s io s' io' o _ Ts Ex => visit_tags _ _ _ _ _ _ _ _ _ Ts Ex) _ _ _ _ _ _
                (proj2 (Forall_forall _ _) (fun _ _ => Logic.I)) T1 E2) as [T2 O2].
    split; [exact (sweep_tags _ _ T2)|]. apply Forall_app. split; assumption.
  Qed.
End Tags.

(* ------------------------------------------------------------------ *)
(* client: what an accept event does to the DNS entries of mux.channels *)

Lemma in_closes now c x : In x (closes now c) -> exists ch, x = OFrame ch CMD_UDP_CLOSE [].
Proof. intros H. apply in_map_iff in H. destruct H as [p [<- _]]. eexists. reflexivity. Qed.

Lemma expire_udp_loop_closes : forall l chan r, expire_udp_loop l chan = Ok r ->
  forall x, In x (snd r) -> exists ch, x = OFrame ch CMD_UDP_CLOSE [].
Proof.
  induction l as [|[a [ch2 dl]] tl IH]; intros chan r Eu x H; cbn [expire_udp_loop] in Eu.
  - inversion Eu; subst. destruct H.
  - destruct (mux_check ch2 CMD_UDP_CLOSE []); cbn [bind] in Eu; try discriminate.
    destruct (amem N.eqb ch2 chan); [|discriminate].
    destruct (expire_udp_loop tl _) as [r2| |] eqn:E2; cbn [bind] in Eu; try discriminate.
    inversion Eu; subst. cbn [snd] in H. destruct H as [<-|H]; [eexists; reflexivity|exact (IH _ _ E2 _ H)].
Qed.

Lemma expire_outs now c c' o : expire now c = Ok (c', o) ->
  forall x, In x o -> exists ch, x = OFrame ch CMD_UDP_CLOSE [].
Proof.
  intros Ee. unfold expire in Ee. destruct (expire_dns_loop _ _) as [ch1| |]; cbn [bind] in Ee; try discriminate.
  destruct (expire_udp_loop _ _) as [r| |] eqn:Eu; cbn [bind] in Ee; try discriminate.
  inversion Ee; subst. exact (expire_udp_loop_closes _ _ _ Eu).
Qed.

Lemma accept_summary cfg c e c' o :
  cfg_ok' cfg -> cinv cfg c -> is_accept e = true -> ev_sane cfg c e -> cstep all_fixed cfg c e = Ok (c', o) ->
  cinv cfg c' /\
  (forall q f a d, ~ In (ODgram q f a d) o) /\
  (forall ch0 q f a, alookup N.eqb ch0 (c_chan c') = Some (KDns q f a) ->
     alookup N.eqb ch0 (c_chan c) = Some (KDns q f a) \/ (q = c_nq c /\ exists d, In (OFrame ch0 CMD_DNS_REQ d) o)) /\
  (forall ch0 d, In (OFrame ch0 CMD_DNS_REQ d) o -> alookup N.eqb ch0 (c_chan c) = None).
Proof.
  intros Hcfg I Ha He E.
  assert (I' : cinv cfg c').
  { destruct (cstep_ok cfg c e Hcfg I He) as (c2 & o2 & E2 & I2 & _). rewrite E in E2. inversion E2; subst. exact I2. }
  split; [exact I'|].
  assert (Hclose : forall now c0 x, In x (closes now c0) ->
            (forall q f a d, x <> ODgram q f a d) /\ (forall ch0 d, x <> OFrame ch0 CMD_DNS_REQ d)).
  { intros now c0 x Hx. destruct (in_closes _ _ _ Hx) as [ch ->]. split; intros; discriminate. }
  destruct e as [now src dst payload|now src dst payload|now fam dst|ch data sr|tch]; [| | |discriminate|discriminate]; cbn [cstep] in E.
  - (* ondns *)
    destruct Hcfg as [Hc1 Hc2].
    assert (Hskip : cc_method cfg = MTproxy -> dst = None -> c' = c /\ o = []).
    { intros Em Ed. unfold ondns in E. rewrite Em, Ed in E. inversion E; subst. auto. }
    destruct (cc_method cfg) eqn:Em.
    2: destruct dst as [d0|].
    3:{ destruct (Hskip eq_refl eq_refl) as [-> ->]. split; [intros q f a d []|]. split; [auto|intros ch0 d []]. }
    all: (match type of E with ondns _ _ _ _ ?D _ _ = _ =>
            assert (Hd : cc_method cfg = MTproxy -> D <> None) by (intros; congruence);
            pose proof (ondns_spec cfg now src D payload c Hc1 I Hd) as SP end; cbv zeta in SP;
          destruct (fst (next_channel (cc_maxc cfg) (c_occ c) (c_chani c))) as [ch|];
          [destruct SP as (Hfree & _ & c2 & E2 & _ & _ & _ & _ & _ & _ & _ & LK)|destruct SP as (c2 & E2 & _ & _ & _ & _ & LK)];
          rewrite E in E2; inversion E2; subst c2 o; clear E2).
    1,3: (split; [intros q f a d [H|H]; [discriminate|exact (proj1 (Hclose _ _ _ H) _ _ _ _ eq_refl)]|];
          split; [|intros ch0 d [H|H]; [inversion H; subst; exact Hfree|exfalso; exact (proj2 (Hclose _ _ _ H) _ _ eq_refl)]];
          intros ch0 q f a H; rewrite LK in H;
          match type of H with (if ?b then _ else _) = _ => destruct b; [discriminate|] end;
          cbn [c_after_dns c_chan] in H; destruct (N.eq_dec ch0 ch) as [->|Hne];
          [rewrite (alookup_aset_same N.eqb Neqb_eq) in H; inversion H; subst; right; split; [reflexivity|];
           eexists; left; reflexivity
          |rewrite (alookup_aset_other N.eqb Neqb_eq) in H by exact Hne; left; exact H]).
    all: (split; [intros q f a d H; exact (proj1 (Hclose _ _ _ H) _ _ _ _ eq_refl)|];
          split; [intros ch0 q f a H; left; exact (LK _ _ H)|intros ch0 d H; exfalso; exact (proj2 (Hclose _ _ _ H) _ _ eq_refl)]).
  - (* onaccept_udp *)
    destruct He as [Hm Hd]. destruct dst as [d0|].
    2:{ unfold onaccept_udp in E. rewrite Hm in E. inversion E; subst.
        split; [intros q f a d []|]. split; [auto|intros ch0 d []]. }
    destruct Hd as [Hl Hp]. destruct (alookup addr_eqb src (c_udp c)) as [[ch dl0]|] eqn:Hsrc.
    + destruct (onaccept_udp_known cfg now src d0 payload c ch dl0 I Hm Hsrc Hl Hp) as (c2 & E2 & _ & _ & _ & _ & _ & LK).
      pose proof (eq_trans (eq_sym E) E2) as X; inversion X; subst c' o; clear X.
      split; [intros q f a d [H|H]; [discriminate|exact (proj1 (Hclose _ _ _ H) _ _ _ _ eq_refl)]|].
      split; [intros ch0 q f a H; left; exact (LK _ _ H)|].
      intros ch0 d [H|H]; [discriminate|exfalso; exact (proj2 (Hclose _ _ _ H) _ _ eq_refl)].
    + pose proof (onaccept_udp_new cfg now src d0 payload c Hcfg I Hm Hsrc Hl Hp) as SP. cbv zeta in SP.
      destruct (fst (next_channel (cc_maxc cfg) (c_occ c) (c_chani c))) as [ch|].
      * destruct SP as (_ & c2 & E2 & _ & _ & Hk & _ & _ & LK). pose proof (eq_trans (eq_sym E) E2) as X; inversion X; subst c' o; clear X.
        split; [intros q f a d [H|[H|H]]; [discriminate|discriminate|exact (proj1 (Hclose _ _ _ H) _ _ _ _ eq_refl)]|].
        split.
        -- intros ch0 q f a H. destruct (LK _ _ H) as [->|H0]; [congruence|left; exact H0].
        -- intros ch0 d [H|[H|H]]; [discriminate|discriminate|exfalso; exact (proj2 (Hclose _ _ _ H) _ _ eq_refl)].
      * destruct SP as (c2 & E2 & _ & _ & _ & LK). pose proof (eq_trans (eq_sym E) E2) as X; inversion X; subst c' o; clear X.
        split; [intros q f a d H; exact (proj1 (Hclose _ _ _ H) _ _ _ _ eq_refl)|].
        split; [intros ch0 q f a H; left; exact (LK _ _ H)|].
        intros ch0 d H; exfalso; exact (proj2 (Hclose _ _ _ H) _ _ eq_refl).
  - (* onaccept_tcp *)
    destruct He as (Hl & Hf & Hp). destruct Hcfg as [Hc1 _].
    destruct (onaccept_tcp_spec cfg now fam dst c Hc1 I Hl Hf Hp) as (c2 & o2 & E2 & _ & _ & F & LK).
    pose proof (eq_trans (eq_sym E) E2) as X; inversion X; subst c' o; clear X.
    split; [intros q f a d H; rewrite Forall_forall in F; exact (F _ H)|].
    split; [intros ch0 q f a H; left; exact (LK _ _ _ _ H)|].
    intros ch0 d H. exfalso. unfold onaccept_tcp in E.
    destruct (fst (next_channel (cc_maxc cfg) (c_occ c) (c_chani c))) as [ch|]; [|inversion E; subst; destruct H].
    destruct (mux_check _ _ _); cbn [bind] in E; try discriminate.
    destruct (expire now _) as [[c3 o3]| |] eqn:Ee; cbn [bind] in E; try discriminate.
    inversion E; subst. cbn [prepend fst snd app] in H. destruct H as [H|H]; [discriminate|].
    destruct (expire_outs _ _ _ _ Ee _ H) as [ch1 Hx]. discriminate.
Qed.

Lemma send_udp_outs fx m q from to data sr o : send_udp fx m q from to data sr = Ok o ->
  forall x, In x o -> exists f, x = ODgram q f to data.
Proof.
  unfold send_udp. intros E x H.
  destruct m, from as [f0|], sr; try discriminate; try (destruct (fx16 fx); try discriminate);
    inversion E; subst; try destruct H as [<-|[]]; try destruct H; eexists; reflexivity.
Qed.

(* a frame from the server at the client: only datagrams come out; DNS entries only disappear; a datagram
   for query q is emitted only if the frame's identifier is held by query q *)
Lemma deliver_summary cfg c ch data sr c' o :
  cinv cfg c -> got_packet all_fixed cfg ch data sr c = Ok (c', o) ->
  cinv cfg c' /\
  (forall x, In x o -> exists q f a d, x = ODgram q f a d) /\
  (forall ch0 q f a, alookup N.eqb ch0 (c_chan c') = Some (KDns q f a) -> alookup N.eqb ch0 (c_chan c) = Some (KDns q f a)) /\
  (forall q f a d, In (ODgram (Some q) f a d) o -> exists f0 a0, alookup N.eqb ch (c_chan c) = Some (KDns q f0 a0)).
Proof.
  intros I E. destruct (alookup N.eqb ch (c_chan c)) as [[q0 f0 t0|src|]|] eqn:Hl.
  - destruct (dns_done_spec cfg c ch q0 f0 t0 data sr I Hl) as (E3 & I3 & _).
    pose proof (eq_trans (eq_sym E) E3) as X; inversion X; subst c' o; clear X.
    split; [exact I3|]. split; [|split].
    + intros x H. destruct sr; [destruct H as [<-|[]]; repeat eexists|destruct H].
    + intros ch0 q f a H. cbn [c_chan] in H. destruct (N.eq_dec ch0 ch) as [->|Hne].
      * rewrite (alookup_adel_same N.eqb Neqb_eq) in H by exact (ci_nd_chan _ _ I). discriminate.
      * rewrite (alookup_adel_other N.eqb Neqb_eq) in H by exact Hne. exact H.
    + intros q f a d H. destruct sr; [|destruct H]. destruct H as [H|[]]. inversion H; subst. eexists. eexists. reflexivity.
  - unfold got_packet in E. rewrite Hl in E.
    destruct (split3 data) as [[[a p] d]|]; [|discriminate]. destruct (undec p) as [port|]; [|discriminate].
    destruct (send_udp _ _ _ _ _ _ _) as [o1| |] eqn:Es; cbn [bind] in E; try discriminate. inversion E; subst.
    split; [exact I|]. split; [|split; [auto|]].
    + intros x H. destruct (send_udp_outs _ _ _ _ _ _ _ _ Es _ H) as [f ->]. repeat eexists.
    + intros q f a0 d0 H. destruct (send_udp_outs _ _ _ _ _ _ _ _ Es _ H) as [f1 X]. discriminate.
  - unfold got_packet in E. rewrite Hl in E. discriminate.
  - rewrite (closed_channel_spec _ cfg c ch data sr Hl) in E. inversion E; subst.
    split; [exact I|]. split; [intros x []|]. split; [auto|intros q f a d []].
Qed.

(* ------------------------------------------------------------------ *)
(* the two-ended system                                                *)

(* something of identifier ch's DNS life is still on its way: a DNS_REQ on the up link, a DnsProxy on the
   server (pending, or aliased and never expired), a DNS_RESPONSE on the down link *)
Definition in_flight (ch : N) (y : sys) : Prop :=
  (exists f, In f (y_up y) /\ f_cmd f = FDnsReq /\ f_ch f = ch) \/
  (exists hid d, In (hid, HDns d) (s_h (y_s y)) /\ d_chan d = ch) \/
  (exists data t, In (ch, data, Some t) (y_down y)).

Section System.
  Context (cc : ccfg) (sc : scfg).

  (* THE hypothesis, stated once for the whole system: whenever the client puts a DNS_REQ for identifier ch on
     the wire, nothing of a previous incarnation of ch is in flight *)
  Fixpoint no_stale_alloc (y : sys) (evs : list yev) : Prop :=
    match evs with
    | [] => True
    | e :: tl =>
      forall y' ob, ystep cc sc y e = Some (y', ob) ->
        match ob with
        | ObsClient _ o => forall ch d, In (OFrame ch CMD_DNS_REQ d) o -> ~ in_flight ch y
        | ObsServer _ => True
        end /\ no_stale_alloc y' tl
    end.

  (* listener events are what the kernel can deliver (sizes), cf. ev_sane *)
  Fixpoint accepts_sane (y : sys) (evs : list yev) : Prop :=
    match evs with
    | [] => True
    | e :: tl =>
      match e with YAccept ce => ev_sane cc (y_c y) ce | _ => True end /\
      forall y' ob, ystep cc sc y e = Some (y', ob) -> accepts_sane y' tl
    end.

  (* no reply is delivered to another requester: whenever the client handles a frame produced by the DnsProxy of
     query t, every datagram it emits for a query is for query t *)
  Fixpoint no_cross_sys (y : sys) (evs : list yev) : Prop :=
    match evs with
    | [] => True
    | e :: tl =>
      forall y' ob, ystep cc sc y e = Some (y', ob) ->
        match ob with
        | ObsClient (Some t) o => forall q f a d, In (ODgram (Some q) f a d) o -> q = t
        | _ => True
        end /\ no_cross_sys y' tl
    end.

  Definition owns (c : cstate) (ch t : N) : Prop :=
    forall q f a, alookup N.eqb ch (c_chan c) = Some (KDns q f a) -> q = t.

  Record yinv (y : sys) : Prop := {
    yi_c : cinv cc (y_c y);
    yi_up : forall f, In f (y_up y) -> f_cmd f = FDnsReq -> owns (y_c y) (f_ch f) (f_tag f);
    yi_s : s_tags (owns (y_c y)) (y_s y);
    yi_down : forall ch data t, In (ch, data, Some t) (y_down y) -> owns (y_c y) ch t
  }.

  Lemma yinv_init : yinv y_init.
  Proof. constructor; cbn; [apply cinv_init|intros f []|intros hid d []|intros ch data t []]. Qed.
End System.

Lemma fcmd_of_dns cmd : fcmd_of cmd = FDnsReq -> cmd = CMD_DNS_REQ.
Proof.
  unfold fcmd_of. destruct (cmd =? CMD_DNS_REQ) eqn:E; [intros _; apply N.eqb_eq; exact E|].
  destruct (cmd =? CMD_UDP_OPEN); [discriminate|]. destruct (cmd =? CMD_UDP_DATA); [discriminate|].
  destruct (cmd =? CMD_UDP_CLOSE); discriminate.
Qed.

Lemma in_firstn {A} k (l : list A) x : In x (firstn k l) -> In x l.
Proof. rewrite <- (firstn_skipn k l) at 2. intros H. apply in_app_iff. left. exact H. Qed.
Lemma in_skipn {A} k (l : list A) x : In x (skipn k l) -> In x l.
Proof. rewrite <- (firstn_skipn k l) at 2. intros H. apply in_app_iff. right. exact H. Qed.

Section SystemProof.
  Context (cc : ccfg) (sc : scfg) (Hcfg : cfg_ok' cc).

  Lemma ystep_inv y e y' ob :
    yinv cc y -> match e with YAccept ce => ev_sane cc (y_c y) ce | _ => True end ->
    ystep cc sc y e = Some (y', ob) ->
    match ob with
    | ObsClient _ o => forall ch d, In (OFrame ch CMD_DNS_REQ d) o -> ~ in_flight ch y
    | ObsServer _ => True
    end ->
    yinv cc y' /\
    match ob with
    | ObsClient (Some t) o => forall q f a d, In (ODgram (Some q) f a d) o -> q = t
    | _ => True
    end.
  Proof.
    intros Y He E Ha. destruct e as [ce|now k ready io|sr]; unfold ystep in E; cbn [ystep_fx] in E.
    - (* a listener event at the client *)
      destruct (is_accept ce) eqn:Eacc; [|discriminate].
      destruct (cstep all_fixed cc (y_c y) ce) as [[c' o]| |] eqn:Ec; try discriminate.
      inversion E; subst y' ob; clear E. split; [|exact Logic.I].
      destruct (accept_summary cc (y_c y) ce c' o Hcfg (yi_c _ _ Y) Eacc He Ec) as (I' & _ & LK & Fresh).
      assert (T : forall ch t, in_flight ch y -> owns (y_c y) ch t -> owns c' ch t).
      { intros ch t Hf Ho q f a H. destruct (LK _ _ _ _ H) as [H0|[_ [d Hd]]]; [exact (Ho _ _ _ H0)|].
        exfalso. exact (Ha _ _ Hd Hf). }
      constructor; cbn [y_c y_s y_up y_down].
      + exact I'.
      + intros f Hf Hc. apply in_app_iff in Hf. destruct Hf as [Hf|Hf].
        * apply T; [left; exists f; auto|exact (yi_up _ _ Y f Hf Hc)].
        * apply in_flat_map in Hf. destruct Hf as (x & Hx & Hfx). destruct x as [ch cmd data|]; [|destruct Hfx].
          destruct Hfx as [<-|[]]. unfold f_cmd in Hc. cbn [fst snd] in Hc. apply fcmd_of_dns in Hc. subst cmd.
          unfold f_ch, f_tag. cbn [fst snd]. intros q f a H.
          destruct (LK _ _ _ _ H) as [H0|[Hq _]]; [|exact Hq]. rewrite (Fresh _ _ Hx) in H0. discriminate.
      + intros hid d Hd. apply T; [right; left; exists hid, d; auto|exact (yi_s _ _ Y hid d Hd)].
      + intros ch data t Hd. apply T; [right; right; exists data, t; exact Hd|exact (yi_down _ _ Y _ _ _ Hd)].
    - (* a server iteration *)
      destruct (sstep all_fixed sc (y_s y) _) as [[s' o]| |] eqn:Es; try discriminate.
      inversion E; subst y' ob; clear E. split; [|exact Logic.I].
      assert (HF : Forall (frame_tags (owns (y_c y))) (firstn k (y_up y))).
      { apply Forall_forall. intros f Hf Hc. exact (yi_up _ _ Y f (in_firstn _ _ _ Hf) Hc). }
      destruct (sstep_tags (owns (y_c y)) all_fixed sc (y_s y)
                  {| se_now := now; se_frames := firstn k (y_up y); se_ready := ready; se_io := io |} s' o
                  (yi_s _ _ Y) HF Es) as [T1 O1].
      constructor; cbn [y_c y_s y_up y_down].
      + exact (yi_c _ _ Y).
      + intros f Hf Hc. exact (yi_up _ _ Y f (in_skipn _ _ _ Hf) Hc).
      + exact T1.
      + intros ch data t Hd. apply in_app_iff in Hd. destruct Hd as [Hd|Hd]; [exact (yi_down _ _ Y _ _ _ Hd)|].
        apply in_flat_map in Hd. destruct Hd as (x & Hx & Hdx). rewrite Forall_forall in O1. specialize (O1 x Hx).
        destruct x as [ch1 cmd data1 tag| | | |]; [|destruct Hdx|destruct Hdx|destruct Hdx|destruct Hdx]. destruct Hdx as [Hdx|[]].
        destruct (cmd =? CMD_DNS_RESPONSE) eqn:Ecmd; [|discriminate]. inversion Hdx; subst.
        apply O1. apply N.eqb_eq. exact Ecmd.
    - (* the client handles the next frame from the server *)
      destruct (y_down y) as [|[[ch data] tag] tl] eqn:Ed; [discriminate|].
      destruct (cstep all_fixed cc (y_c y) (EFrame ch data sr)) as [[c' o]| |] eqn:Ec; try discriminate.
      inversion E; subst y' ob; clear E. cbn [cstep] in Ec.
      destruct (deliver_summary cc (y_c y) ch data sr c' o (yi_c _ _ Y) Ec) as (I' & Dg & LK & Own).
      assert (T : forall ch0 t, owns (y_c y) ch0 t -> owns c' ch0 t).
      { intros ch0 t Ho q f a H. exact (Ho _ _ _ (LK _ _ _ _ H)). }
      split.
      + constructor; cbn [y_c y_s y_up y_down].
        * exact I'.
        * intros f Hf Hc. apply in_app_iff in Hf. destruct Hf as [Hf|Hf]; [exact (T _ _ (yi_up _ _ Y f Hf Hc))|].
          apply in_flat_map in Hf. destruct Hf as (x & Hx & Hfx). destruct (Dg _ Hx) as (q & f0 & a & d & ->). destruct Hfx.
        * intros hid d Hd. exact (T _ _ (yi_s _ _ Y hid d Hd)).
        * intros ch0 data0 t Hd. apply T. apply (yi_down _ _ Y ch0 data0 t). rewrite Ed. right. exact Hd.
      + destruct tag as [t|]; [|exact Logic.I]. intros q f a d H.
        destruct (Own _ _ _ _ H) as (f0 & a0 & Hl).
        assert (Ho : owns (y_c y) ch t) by (apply (yi_down _ _ Y ch data t); rewrite Ed; left; reflexivity).
        exact (Ho _ _ _ Hl).
  Qed.

  (* in the two-ended system, under the single hypothesis no_stale_alloc, no reply is ever delivered to another
     requester — along every run, from every state satisfying the system invariant (in particular y_init) *)
  Theorem system_no_cross : forall evs y,
    yinv cc y -> accepts_sane cc sc y evs -> no_stale_alloc cc sc y evs -> no_cross_sys cc sc y evs.
  Proof.
    induction evs as [|e tl IH]; intros y Y Hs Hn; cbn [no_cross_sys]; [exact Logic.I|].
    cbn [accepts_sane] in Hs. destruct Hs as [He Hs]. cbn [no_stale_alloc] in Hn.
    intros y' ob E. destruct (Hn _ _ E) as [Ha Hn']. destruct (ystep_inv y e y' ob Y He E Ha) as [Y' C].
    split; [exact C|]. exact (IH y' Y' (Hs _ _ E) Hn').
  Qed.

  Corollary system_no_cross_init evs :
    accepts_sane cc sc y_init evs -> no_stale_alloc cc sc y_init evs -> no_cross_sys cc sc y_init evs.
  Proof. apply system_no_cross. apply yinv_init. Qed.
End SystemProof.

(* ------------------------------------------------------------------ *)
(* concrete runs: non-vacuity, and what happens without the hypothesis *)

Fixpoint yrun (cc : ccfg) (sc : scfg) (y : sys) (evs : list yev) : list yobs :=
  match evs with
  | [] => []
  | e :: tl => match ystep cc sc y e with Some (y', ob) => ob :: yrun cc sc y' tl | None => [] end
  end.

(* one query: accepted, relayed, answered, delivered to its asker *)
Definition w_sys_life : list yev :=
  [YAccept (EDns 100 w_a1 None ["q"%char]); YServer 100 1 [] []; YServer 101 0 [0] [IoData ["r"%char]]; YDeliver SendOk].

Ltac sys_step E :=
  vm_compute in E; inversion E; subst; clear E.

Lemma life_hyps :
  accepts_sane w_cfgN w_scfg y_init w_sys_life /\ no_stale_alloc w_cfgN w_scfg y_init w_sys_life.
Proof.
  split.
  - unfold w_sys_life. repeat (cbn [accepts_sane ev_sane]; split; [exact Logic.I|]; intros ? ? E; sys_step E).
    exact Logic.I.
  - unfold w_sys_life. cbn [no_stale_alloc]. intros ? ? E. sys_step E. split.
    { intros ch d [H|[]]. inversion H; subst.
      intros [(f & [] & _)|[(hid & d0 & [] & _)|(data & t & [])]]. }
    cbn [no_stale_alloc]. intros ? ? E. sys_step E. split; [exact Logic.I|].
    cbn [no_stale_alloc]. intros ? ? E. sys_step E. split; [exact Logic.I|].
    cbn [no_stale_alloc]. intros ? ? E. sys_step E. split; [intros ch d [H|[]]; discriminate|exact Logic.I].
Qed.

Lemma life_run :
  yrun w_cfgN w_scfg y_init w_sys_life =
  [ObsClient None [OFrame 1 CMD_DNS_REQ ["q"%char]];
   ObsServer [SConnect 0 (["n"%char], 53) true; SSend 0 ["q"%char] true];
   ObsServer [SFrame 1 CMD_DNS_RESPONSE ["r"%char] 0];
   ObsClient (Some 0) [ODgram (Some 0) None w_a1 ["r"%char]]].
Proof. vm_compute. reflexivity. Qed.

(* without the hypothesis: one identifier (MAX_CHANNEL = 1); query 0 of w_a1 expires at the client while its
   DnsProxy is still pending; query 1 of w_a2 re-uses identifier 1; the old resolver's answer arrives and is
   delivered to w_a2 *)
Definition w_sys_stale : list yev :=
  [YAccept (EDns 0 w_a1 None ["a"%char]); YServer 0 1 [] [];
   YAccept (EDns 31 w_a2 None ["x"%char]);            (* no identifier free: dropped, then expiry frees 1 *)
   YAccept (EDns 31 w_a2 None ["b"%char]);            (* identifier 1 again, DnsProxy of query 0 still pending *)
   YServer 30 0 [0] [IoData ["o"%char]]; YDeliver SendOk].

Lemma stale_run :
  yrun w_cfg1 w_scfg y_init w_sys_stale =
  [ObsClient None [OFrame 1 CMD_DNS_REQ ["a"%char]];
   ObsServer [SConnect 0 (["n"%char], 53) true; SSend 0 ["a"%char] true];
   ObsClient None [];
   ObsClient None [OFrame 1 CMD_DNS_REQ ["b"%char]];
   ObsServer [SFrame 1 CMD_DNS_RESPONSE ["o"%char] 0];
   ObsClient (Some 0) [ODgram (Some 1) None w_a2 ["o"%char]]].
Proof. vm_compute. reflexivity. Qed.

Ltac cross_step H :=
  cbn [no_cross_sys] in H;
  match type of H with
  | forall y' ob, ?X = Some (y', ob) -> _ =>
    let v := eval vm_compute in X in
    match v with
    | Some (?a, ?b) =>
      let H2 := fresh "H" in
      assert (H2 : X = Some (a, b)) by (vm_compute; reflexivity);
      apply H in H2; clear H; rename H2 into H
    end
  end.

Lemma stale_cross :
  accepts_sane w_cfg1 w_scfg y_init w_sys_stale /\ ~ no_cross_sys w_cfg1 w_scfg y_init w_sys_stale /\
  ~ no_stale_alloc w_cfg1 w_scfg y_init w_sys_stale.
Proof.
  split; [|split].
  - unfold w_sys_stale. repeat (cbn [accepts_sane ev_sane]; split; [exact Logic.I|]; intros ? ? E; sys_step E).
    exact Logic.I.
  - unfold w_sys_stale. intros H.
    cross_step H. destruct H as [_ H]. cross_step H. destruct H as [_ H]. cross_step H. destruct H as [_ H].
    cross_step H. destruct H as [_ H]. cross_step H. destruct H as [_ H]. cross_step H. destruct H as [H _].
    specialize (H 1 None w_a2 ["o"%char] (or_introl eq_refl)). discriminate.
  - intros H. apply (system_no_cross w_cfg1 w_scfg) in H.
    + revert H. unfold w_sys_stale. intros H.
      cross_step H. destruct H as [_ H]. cross_step H. destruct H as [_ H]. cross_step H. destruct H as [_ H].
      cross_step H. destruct H as [_ H]. cross_step H. destruct H as [_ H]. cross_step H. destruct H as [H _].
      specialize (H 1 None w_a2 ["o"%char] (or_introl eq_refl)). discriminate.
    + split; [split|]; apply N.leb_le || apply N.ltb_lt; reflexivity.
    + apply yinv_init.
    + unfold w_sys_stale. repeat (cbn [accepts_sane ev_sane]; split; [exact Logic.I|]; intros ? ? E; sys_step E).
      exact Logic.I.
Qed.

(* ------------------------------------------------------------------ *)
(* the DNS-only system never raises, on either side                    *)

Definition dns_event (e : yev) : Prop :=
  match e with YAccept (EDns _ _ _ _) => True | YAccept _ => False | _ => True end.

Definition all_kdns (c : cstate) : Prop :=
  forall ch k, alookup N.eqb ch (c_chan c) = Some k -> exists q f a, k = KDns q f a.

Lemma closes_nil now c : c_udp c = [] -> closes now c = [].
Proof. intros H. unfold closes. rewrite H. reflexivity. Qed.

Lemma ondns_dns_only cc now src dst payload c c' o :
  cfg_ok cc -> cinv cc c -> c_udp c = [] -> all_kdns c ->
  ondns all_fixed cc now src dst payload c = Ok (c', o) ->
  cinv cc c' /\ c_udp c' = [] /\ all_kdns c' /\
  (o = [] \/ exists ch data, ch <= 65535 /\ o = [OFrame ch CMD_DNS_REQ data]).
Proof.
  intros Hc1 I Hu Hk E.
  assert (Hskip : cc_method cc = MTproxy -> dst = None -> c' = c /\ o = []).
  { intros Em Ed. unfold ondns in E. rewrite Em, Ed in E. inversion E; subst. auto. }
  destruct (cc_method cc) eqn:Em.
  2: destruct dst as [d0|].
  3:{ destruct (Hskip eq_refl eq_refl) as [-> ->]. auto. }
  all: (match type of E with ondns _ _ _ _ ?DD _ _ = _ =>
          assert (Hd : cc_method cc = MTproxy -> DD <> None) by (intros; congruence);
          pose proof (ondns_spec cc now src DD payload c Hc1 I Hd) as SP end; cbv zeta in SP;
        destruct (fst (next_channel (cc_maxc cc) (c_occ c) (c_chani c))) as [ch|];
        [destruct SP as (Hfree & Hr & c2 & E2 & _ & I2 & _ & _ & _ & Hu2 & _ & LK)
        |destruct SP as (c2 & E2 & I2 & _ & Hu2 & _ & LK)];
        pose proof (eq_trans (eq_sym E) E2) as X; inversion X; subst c2 o; clear X;
        rewrite Hu in Hu2; cbn [filter] in Hu2; rewrite (closes_nil now c Hu)).
  1,3: (split; [exact I2|]; split; [exact Hu2|]; split; [|right; eexists; eexists; split; [|reflexivity]; lia];
        intros ch0 k H; rewrite LK in H;
        match type of H with (if ?b then _ else _) = _ => destruct b; [discriminate|] end;
        cbn [c_after_dns c_chan] in H; destruct (N.eq_dec ch0 ch) as [->|Hne];
        [rewrite (alookup_aset_same N.eqb Neqb_eq) in H; inversion H; subst; repeat eexists
        |rewrite (alookup_aset_other N.eqb Neqb_eq) in H by exact Hne; exact (Hk _ _ H)]).
  all: (split; [exact I2|]; split; [exact Hu2|]; split; [|left; reflexivity];
        intros ch0 k H; exact (Hk _ _ (LK _ _ H))).
Qed.

Lemma got_packet_dns_only cc ch data sr c :
  cinv cc c -> c_udp c = [] -> all_kdns c ->
  exists c' o, got_packet all_fixed cc ch data sr c = Ok (c', o) /\
    cinv cc c' /\ c_udp c' = [] /\ all_kdns c' /\ forall x, In x o -> exists q f a d, x = ODgram q f a d.
Proof.
  intros I Hu Hk. destruct (alookup N.eqb ch (c_chan c)) as [k|] eqn:Hl.
  - destruct (Hk _ _ Hl) as (q & f & a & ->).
    destruct (dns_done_spec cc c ch q f a data sr I Hl) as (E & I' & _).
    eexists. eexists. split; [exact E|]. split; [exact I'|]. split; [exact Hu|]. split.
    + unfold all_kdns. intros ch0 k0 H. cbn [c_chan] in H. destruct (N.eq_dec ch0 ch) as [->|Hne].
      * rewrite (alookup_adel_same N.eqb Neqb_eq) in H by exact (ci_nd_chan _ _ I). discriminate.
      * rewrite (alookup_adel_other N.eqb Neqb_eq) in H by exact Hne. exact (Hk _ _ H).
    + intros x H. destruct sr; [destruct H as [<-|[]]; repeat eexists|destruct H].
  - rewrite (closed_channel_spec _ cc c ch data sr Hl). exists c, []. split; [reflexivity|]. split; [exact I|]. split; [exact Hu|]. split; [exact Hk|intros x []].
Qed.

Lemma fcmd_of_dns_req : fcmd_of CMD_DNS_REQ = FDnsReq.
Proof. reflexivity. Qed.

Section SystemDns.
  Context (cc : ccfg) (sc : scfg) (Hcfg : cfg_ok' cc).

  Record dinv (y : sys) : Prop := {
    di_c : cinv cc (y_c y);
    di_udp : c_udp (y_c y) = [];
    di_k : all_kdns (y_c y);
    di_s : sinv (y_s y);
    di_only : only_dns (y_s y);
    di_chan : s_chan (y_s y) = [];
    di_up : Forall (fun f => is_dns f /\ chan16 f) (y_up y)
  }.

  Lemma dinv_init : dinv y_init.
  Proof.
    constructor; cbn; [apply cinv_init|reflexivity|intros ch k H; discriminate|apply sinv_init|apply only_dns_init|
                       reflexivity|constructor].
  Qed.

  (* which component raises at event e in state y *)
  Definition raises (y : sys) (e : yev) (x : exn) : Prop :=
    match e with
    | YAccept ce => cstep all_fixed cc (y_c y) ce = Crash x
    | YServer now k ready io =>
      sstep all_fixed sc (y_s y) {| se_now := now; se_frames := firstn k (y_up y); se_ready := ready; se_io := io |} = Crash x
    | YDeliver sr =>
      match y_down y with
      | [] => False
      | (ch, data, _) :: _ => cstep all_fixed cc (y_c y) (EFrame ch data sr) = Crash x
      end
    end.

  Lemma dstep y e : dinv y -> dns_event e ->
    (forall x, ~ raises y e x) /\ forall y' ob, ystep cc sc y e = Some (y', ob) -> dinv y'.
  Proof.
    intros D He. destruct e as [ce|now k ready io|sr].
    - (* ondns *)
      destruct ce as [now src dst payload| | | |]; try contradiction. clear He.
      destruct (cstep_ok cc (y_c y) (EDns now src dst payload) Hcfg (di_c _ D) Logic.I) as (c1 & o1 & E1 & _).
      split; [intros x Hx; cbn [raises] in Hx; rewrite E1 in Hx; discriminate|].
      intros y' ob E. unfold ystep in E; cbn [ystep_fx is_accept] in E. rewrite E1 in E. inversion E; subst y' ob; clear E.
      cbn [cstep] in E1.
      destruct (ondns_dns_only cc now src dst payload (y_c y) c1 o1 (proj1 Hcfg) (di_c _ D) (di_udp _ D) (di_k _ D) E1)
        as (I1 & U1 & K1 & Ho).
      constructor; cbn [y_c y_s y_up y_down]; try assumption; try apply D.
      apply Forall_app. split; [exact (di_up _ D)|].
      destruct Ho as [->|(ch & data & Hch & ->)]; cbn [flat_map up_of app]; [constructor|].
      constructor; [|constructor]. split; [reflexivity|exact Hch].
    - (* server iteration *)
      assert (HF : Forall (fun f => is_dns f /\ chan16 f) (firstn k (y_up y))).
      { apply Forall_forall. intros f Hf. pose proof (di_up _ D) as H. rewrite Forall_forall in H. exact (H f (in_firstn _ _ _ Hf)). }
      assert (Hd : Forall is_dns (firstn k (y_up y))) by (revert HF; apply Forall_impl; tauto).
      assert (Hw : Forall chan16 (firstn k (y_up y))) by (revert HF; apply Forall_impl; tauto).
      pose proof (sstep_inv sc (y_s y) {| se_now := now; se_frames := firstn k (y_up y); se_ready := ready; se_io := io |}
                    (di_s _ D) Hw) as R.
      unfold ystep; cbn [raises ystep_fx].
      destruct (sstep all_fixed sc (y_s y) _) as [[s' o]| |x0].
      + split; [intros x Hx; discriminate|]. intros y' ob E. inversion E; subst y' ob; clear E.
        destruct R as (I' & Hc & Ho). cbn [se_frames] in Hc, Ho.
        constructor; cbn [y_c y_s y_up y_down]; try apply D.
        * exact I'.
        * exact (Ho (di_only _ D) Hd).
        * rewrite Hc, (di_chan _ D). apply track_dns. exact Hd.
        * apply Forall_forall. intros f Hf. pose proof (di_up _ D) as H. rewrite Forall_forall in H. exact (H f (in_skipn _ _ _ Hf)).
      + split; [intros x Hx; discriminate|]. intros y' ob E. discriminate.
      + split; [|intros y' ob E; discriminate]. intros x Hx. inversion Hx; subst x0. exfalso.
        rewrite (di_chan _ D) in R. cbn [se_frames se_io] in R.
        destruct R as [[_ [A|[A _]]]|[[_ A]|[_ A]]].
        * exact (A (no_reopen_dns _ Hd)).
        * apply A. split; [exact (di_only _ D)|exact Hd].
        * apply A. revert Hd. apply Forall_impl. intros f Hf. unfold body_ok. rewrite Hf. exact Logic.I.
        * apply A. revert Hd. apply Forall_impl. intros f Hf Hc. rewrite Hf in Hc. discriminate.
    - (* the client handles a frame *)
      unfold ystep; cbn [raises ystep_fx]. destruct (y_down y) as [|[[ch data] tag] tl]; [split; [intros x []|intros y' ob E; discriminate]|].
      cbn [cstep].
      destruct (got_packet_dns_only cc ch data sr (y_c y) (di_c _ D) (di_udp _ D) (di_k _ D)) as (c1 & o1 & E1 & I1 & U1 & K1 & Ho).
      rewrite E1. split; [intros x Hx; discriminate|]. intros y' ob E. inversion E; subst y' ob; clear E.
      constructor; cbn [y_c y_s y_up y_down]; try assumption; try apply D.
      apply Forall_app. split; [exact (di_up _ D)|]. apply Forall_forall. intros f Hf.
      apply in_flat_map in Hf. destruct Hf as (x & Hx & Hfx). destruct (Ho _ Hx) as (q & f0 & a & d & ->). destruct Hfx.
  Qed.

  Fixpoint never_raises (y : sys) (evs : list yev) : Prop :=
    match evs with
    | [] => True
    | e :: tl => (forall x, ~ raises y e x) /\ forall y' ob, ystep cc sc y e = Some (y', ob) -> never_raises y' tl
    end.

  (* DNS-only two-ended system: whatever the schedule, the resolver sockets, the times, the send errors and the
     number of identifiers — neither the client nor the server loop ever raises *)
  Theorem system_dns_never_raises : forall evs y, dinv y -> Forall dns_event evs -> never_raises y evs.
  Proof.
    induction evs as [|e tl IH]; intros y D He; cbn [never_raises]; [exact Logic.I|].
    inversion He as [|? ? H1 H2]; subst. destruct (dstep y e D H1) as [A B].
    split; [exact A|]. intros y' ob E. exact (IH y' (B _ _ E) H2).
  Qed.
End SystemDns.
