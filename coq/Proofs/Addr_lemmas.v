(* Proofs/Addr_lemmas.v — proofs about Model/Addr.v (property C05). *)
From Coq Require Import List NArith ZArith Ascii Bool Lia ZifyBool Arith.
From SV Require Import Lib.Bytes Gen.Consts Model.Addr.
Import ListNotations.
Local Open Scope N_scope.

(* ================================================================== *)
(* 1. characters                                                       *)

Lemma N_of_ch n : n < 256 -> N_of_ascii (ch n) = n.
Proof. intros H. unfold ch. apply N_ascii_embedding. exact H. Qed.

Lemma ch_N_of c : ch (N_of_ascii c) = c.
Proof. unfold ch. apply ascii_N_embedding. Qed.

Lemma eqb_ch_neq c n : n < 256 -> N_of_ascii c <> n -> Ascii.eqb c (ch n) = false.
Proof.
  intros Hn H. apply Ascii.eqb_neq. intros ->. apply H. apply N_of_ch. exact Hn.
Qed.

Definition is_dec (c : ascii) : bool := let n := N_of_ascii c in (48 <=? n) && (n <=? 57).
Definition is_hexl (c : ascii) : bool :=
  let n := N_of_ascii c in is_dec c || ((97 <=? n) && (n <=? 102)).
(* the alphabet of address texts *)
Definition addr_ch (c : ascii) : Prop := is_hexl c = true \/ c = DOT \/ c = COLON.

Lemma is_dec_range c : is_dec c = true -> 48 <= N_of_ascii c <= 57.
Proof. unfold is_dec. cbv zeta. lia. Qed.

Lemma is_dec_hexl c : is_dec c = true -> is_hexl c = true.
Proof. unfold is_hexl. cbv zeta. intros ->. reflexivity. Qed.

Lemma addr_ch_range c : addr_ch c ->
  let n := N_of_ascii c in n = 46 \/ 48 <= n <= 58 \/ 97 <= n <= 102.
Proof.
  intros [H | [-> | ->]]; cbv zeta.
  - unfold is_hexl, is_dec in H. cbv zeta in H. lia.
  - left. reflexivity.
  - right. left. change (N_of_ascii COLON) with 58. lia.
Qed.

Lemma addr_ch_not_comma c : addr_ch c -> c <> COMMA.
Proof. intros H ->. apply addr_ch_range in H. cbv zeta in H. change (N_of_ascii COMMA) with 44 in H. lia. Qed.
Lemma addr_ch_not_nl c : addr_ch c -> c <> NL.
Proof. intros H ->. apply addr_ch_range in H. cbv zeta in H. change (N_of_ascii NL) with 10 in H. lia. Qed.
Lemma addr_ch_ascii c : addr_ch c -> (N_of_ascii c <? 128) = true.
Proof. intros H. apply addr_ch_range in H. cbv zeta in H. lia. Qed.
Lemma addr_ch_not_ws c : addr_ch c -> is_ws_str c = false.
Proof. intros H. apply addr_ch_range in H. unfold is_ws_str, is_ws. cbv zeta in *. lia. Qed.

Lemma is_ws_str_ws c : is_ws_str c = false -> is_ws c = false.
Proof. unfold is_ws_str. cbv zeta. destruct (is_ws c); [discriminate|reflexivity]. Qed.

Lemma digit_char_dec d : d < 10 -> is_dec (digit_char d) = true.
Proof.
  intros H. unfold is_dec, digit_char. cbv zeta.
  replace (d <? 10) with true by lia. rewrite N_of_ch by lia. lia.
Qed.

Lemma digit_char_hexl d : d < 16 -> is_hexl (digit_char d) = true.
Proof.
  intros H. unfold is_hexl, is_dec, digit_char. cbv zeta.
  destruct (d <? 10) eqn:E; rewrite N_of_ch by lia; lia.
Qed.

Lemma dec_val_digit d : d < 10 -> dec_val (digit_char d) = Some d.
Proof.
  intros H. unfold dec_val, digit_char. cbv zeta.
  replace (d <? 10) with true by lia. rewrite N_of_ch by lia.
  replace ((48 <=? 48 + d) && (48 + d <=? 57)) with true by lia.
  f_equal. lia.
Qed.

Lemma hex_val_digit d : d < 16 -> hex_val (digit_char d) = Some d.
Proof.
  intros H. unfold hex_val, digit_char. cbv zeta.
  destruct (d <? 10) eqn:E; rewrite N_of_ch by lia.
  - replace ((48 <=? 48 + d) && (48 + d <=? 57)) with true by lia. f_equal. lia.
  - replace ((48 <=? 87 + d) && (87 + d <=? 57)) with false by lia.
    replace ((97 <=? 87 + d) && (87 + d <=? 102)) with true by lia. f_equal. lia.
Qed.

(* ================================================================== *)
(* 2. digit strings                                                    *)

Definition dstep (b : N) (a d : N) : N := a * b + d.

Lemma ndigits_acc b fuel : forall n acc,
  ndigits b fuel n acc = ndigits b fuel n [] ++ acc.
Proof.
  induction fuel as [|f IH]; intros n acc; cbn [ndigits].
  - reflexivity.
  - destruct (n <? b); [reflexivity|].
    rewrite (IH (n / b) (n mod b :: acc)), (IH (n / b) [n mod b]).
    rewrite <- app_assoc. reflexivity.
Qed.

Lemma ndigits_S b f n :
  ndigits b (S f) n [] = if n <? b then [n] else ndigits b f (n / b) [] ++ [n mod b].
Proof. cbn [ndigits]. destruct (n <? b); [reflexivity|]. apply ndigits_acc. Qed.

(* with enough fuel: all digits < b, value n, non-empty, leading digit zero only for 0 *)
Lemma ndigits_ok b : 2 <= b -> forall f n, n < 2 ^ N.of_nat (S f) ->
  let ds := ndigits b (S f) n [] in
  Forall (fun d => d < b) ds /\ fold_left (dstep b) ds 0 = n /\ ds <> [] /\
  (forall d r, ds = d :: r -> d = 0 -> r = []).
Proof.
  intros Hb f. induction f as [|f IH]; intros n Hn; cbv zeta; rewrite ndigits_S.
  - change (2 ^ N.of_nat 1) with 2 in Hn.
    replace (n <? b) with true by lia.
    split; [|split; [|split]].
    + constructor; [lia|constructor].
    + cbn [fold_left]. unfold dstep. lia.
    + discriminate.
    + intros d r [= <- <-] _. reflexivity.
  - destruct (n <? b) eqn:E.
    + split; [|split; [|split]].
      * constructor; [lia|constructor].
      * cbn [fold_left]. unfold dstep. lia.
      * discriminate.
      * intros d r [= <- <-] _. reflexivity.
    + assert (Hq : n / b < 2 ^ N.of_nat (S f)).
      { apply N.div_lt_upper_bound; [lia|].
        replace (N.of_nat (S (S f))) with (N.succ (N.of_nat (S f))) in Hn by lia.
        rewrite N.pow_succ_r' in Hn. nia. }
      destruct (IH (n / b) Hq) as (HF & HV & HN & HZ).
      assert (Hm : n mod b < b) by (apply N.mod_lt; lia).
      split; [|split; [|split]].
      * apply Forall_app. split; [exact HF|]. constructor; [exact Hm|constructor].
      * rewrite fold_left_app. cbn [fold_left]. rewrite HV. unfold dstep.
        rewrite N.mul_comm. symmetry. apply N.div_mod. lia.
      * intros H. apply app_eq_nil in H. destruct H as [_ H]. discriminate.
      * intros d r Heq Hd.
        destruct (ndigits b (S f) (n / b) []) as [|d0 r0] eqn:Ed; [contradiction|].
        cbn [app] in Heq. injection Heq as <- <-.
        specialize (HZ d0 r0 eq_refl Hd). subst r0 d0.
        cbn [fold_left] in HV. unfold dstep in HV.
        assert (n / b = 0) by lia.
        assert (b <= n) by lia.
        assert (0 < n / b); [|lia].
        apply N.div_str_pos. lia.
Qed.

Lemma digits_fuel n : n < 2 ^ N.of_nat (S (N.to_nat (N.log2 n))).
Proof.
  replace (N.of_nat (S (N.to_nat (N.log2 n)))) with (N.succ (N.log2 n)) by lia.
  destruct n as [|p]; [reflexivity|].
  apply N.log2_spec. lia.
Qed.

Lemma digits_ok b n : 2 <= b ->
  Forall (fun d => d < b) (digits b n) /\ fold_left (dstep b) (digits b n) 0 = n /\
  digits b n <> [] /\ (forall d r, digits b n = d :: r -> d = 0 -> r = []).
Proof. intros Hb. unfold digits. apply (ndigits_ok b Hb). apply digits_fuel. Qed.

(* length: n < b^(k+1) has at most k+1 digits (whatever the fuel) *)
Lemma ndigits_len b : 2 <= b -> forall k fuel n, n < b ^ N.of_nat (S k) ->
  (length (ndigits b fuel n []) <= S k)%nat.
Proof.
  intros Hb k. induction k as [|k IH]; intros fuel n Hn.
  - change (N.of_nat 1) with 1 in Hn. rewrite N.pow_1_r in Hn.
    destruct fuel; [cbn; lia|]. rewrite ndigits_S. replace (n <? b) with true by lia. cbn. lia.
  - destruct fuel; [cbn; lia|]. rewrite ndigits_S.
    destruct (n <? b) eqn:E; [cbn; lia|].
    rewrite app_length. cbn [length].
    assert (Hq : n / b < b ^ N.of_nat (S k)).
    { apply N.div_lt_upper_bound; [lia|].
      replace (N.of_nat (S (S k))) with (N.succ (N.of_nat (S k))) in Hn by lia.
      rewrite N.pow_succ_r' in Hn. exact Hn. }
    specialize (IH fuel (n / b) Hq). lia.
Qed.

Lemma undigits_map b val : (forall d, d < b -> val (digit_char d) = Some d) ->
  forall ds acc, Forall (fun d => d < b) ds ->
  undigits b val (map digit_char ds) acc = Some (fold_left (dstep b) ds acc).
Proof.
  intros Hv ds. induction ds as [|d ds IH]; intros acc HF; cbn [map undigits fold_left].
  - reflexivity.
  - inversion HF as [|? ? Hd HF']; subst. rewrite (Hv d Hd). apply IH. exact HF'.
Qed.

Lemma dec_nonnil n : dec n <> [].
Proof.
  unfold dec. destruct (digits_ok 10 n ltac:(lia)) as (_ & _ & H & _).
  destruct (digits 10 n); [contradiction|discriminate].
Qed.

Lemma hex_nonnil n : hex n <> [].
Proof.
  unfold hex. destruct (digits_ok 16 n ltac:(lia)) as (_ & _ & H & _).
  destruct (digits 16 n); [contradiction|discriminate].
Qed.

Lemma undigits_dec n : undigits 10 dec_val (dec n) 0 = Some n.
Proof.
  unfold dec. destruct (digits_ok 10 n ltac:(lia)) as (HF & HV & _ & _).
  rewrite (undigits_map 10 dec_val dec_val_digit _ 0 HF). rewrite HV. reflexivity.
Qed.

Lemma undec_dec n : undec (dec n) = Some n.
Proof.
  unfold undec. pose proof (dec_nonnil n) as Hn. pose proof (undigits_dec n) as Hu.
  destruct (dec n); [contradiction|exact Hu].
Qed.

Lemma unhex_hex n : undigits 16 hex_val (hex n) 0 = Some n.
Proof.
  unfold hex. destruct (digits_ok 16 n ltac:(lia)) as (HF & HV & _ & _).
  rewrite (undigits_map 16 hex_val hex_val_digit _ 0 HF). rewrite HV. reflexivity.
Qed.

Lemma dec_is_dec n : Forall (fun c => is_dec c = true) (dec n).
Proof.
  unfold dec. destruct (digits_ok 10 n ltac:(lia)) as (HF & _).
  apply Forall_map. eapply Forall_impl; [|exact HF]. cbv beta. intros d Hd. apply digit_char_dec. exact Hd.
Qed.

Lemma hex_is_hexl n : Forall (fun c => is_hexl c = true) (hex n).
Proof.
  unfold hex. destruct (digits_ok 16 n ltac:(lia)) as (HF & _).
  apply Forall_map. eapply Forall_impl; [|exact HF]. cbv beta. intros d Hd. apply digit_char_hexl. exact Hd.
Qed.

Lemma dec_addr_ch n : Forall addr_ch (dec n).
Proof.
  eapply Forall_impl; [|apply dec_is_dec]. intros c H. left. apply is_dec_hexl. exact H.
Qed.

Lemma hex_addr_ch n : Forall addr_ch (hex n).
Proof. eapply Forall_impl; [|apply hex_is_hexl]. intros c H. left. exact H. Qed.

Lemma dec_len n k : n < 10 ^ N.of_nat (S k) -> (length (dec n) <= S k)%nat.
Proof. intros H. unfold dec, digits. rewrite map_length. apply ndigits_len; [lia|exact H]. Qed.

Lemma hex_len n k : n < 16 ^ N.of_nat (S k) -> (length (hex n) <= S k)%nat.
Proof. intros H. unfold hex, digits. rewrite map_length. apply ndigits_len; [lia|exact H]. Qed.

Lemma dec_len5 n : n < 65536 -> (length (dec n) <= 5)%nat.
Proof. intros H. apply (dec_len n 4). change (10 ^ N.of_nat 5) with 100000. lia. Qed.
Lemma dec_len3 n : n < 256 -> (length (dec n) <= 3)%nat.
Proof. intros H. apply (dec_len n 2). change (10 ^ N.of_nat 3) with 1000. lia. Qed.
Lemma hex_len4 n : n < 65536 -> (length (hex n) <= 4)%nat.
Proof. intros H. apply (hex_len n 3). change (16 ^ N.of_nat 4) with 65536. exact H. Qed.

(* leading zero only for "0" *)
Lemma dec_leading_zero n c r : dec n = c :: r -> c = ZERO_CH -> r = [].
Proof.
  unfold dec. destruct (digits_ok 10 n ltac:(lia)) as (HF & _ & _ & HZ).
  destruct (digits 10 n) as [|d ds] eqn:E; [discriminate|].
  cbn [map]. intros [= <- <-] Hc.
  inversion HF as [|? ? Hd _]; subst.
  assert (d = 0).
  { assert (H : N_of_ascii (digit_char d) = 48) by (rewrite Hc; reflexivity).
    unfold digit_char in H. replace (d <? 10) with true in H by lia.
    rewrite N_of_ch in H by lia. lia. }
  rewrite (HZ d ds eq_refl H). reflexivity.
Qed.

(* ================================================================== *)
(* 3. split / cut / join / strip                                       *)

Lemma split_on_nosep sep w : ~ In sep w -> split_on sep w = [w].
Proof.
  induction w as [|c w IH]; intros H; cbn [split_on]; [reflexivity|].
  destruct (Ascii.eqb c sep) eqn:E.
  - apply Ascii.eqb_eq in E. subst. exfalso. apply H. left. reflexivity.
  - rewrite IH; [reflexivity|]. intros Hi. apply H. right. exact Hi.
Qed.

Lemma split_on_app sep w r : ~ In sep w ->
  split_on sep (w ++ sep :: r) = w :: split_on sep r.
Proof.
  induction w as [|c w IH]; intros H; cbn [split_on app].
  - rewrite Ascii.eqb_refl. reflexivity.
  - destruct (Ascii.eqb c sep) eqn:E.
    + apply Ascii.eqb_eq in E. subst. exfalso. apply H. left. reflexivity.
    + rewrite IH; [reflexivity|]. intros Hi. apply H. right. exact Hi.
Qed.

Lemma cut_app sep w r : ~ In sep w -> cut sep (w ++ sep :: r) = Some (w, r).
Proof.
  induction w as [|c w IH]; intros H; cbn [cut app].
  - rewrite Ascii.eqb_refl. reflexivity.
  - destruct (Ascii.eqb c sep) eqn:E.
    + apply Ascii.eqb_eq in E. subst. exfalso. apply H. left. reflexivity.
    + rewrite IH; [reflexivity|]. intros Hi. apply H. right. exact Hi.
Qed.

Lemma split_on_join sep ps : ps <> [] -> Forall (fun p => ~ In sep p) ps ->
  split_on sep (join sep ps) = ps.
Proof.
  induction ps as [|p ps IH]; intros Hn HF; [contradiction|].
  inversion HF as [|? ? Hp HF']; subst.
  destruct ps as [|q ps].
  - cbn [join]. apply split_on_nosep. exact Hp.
  - change (join sep (p :: q :: ps)) with (p ++ sep :: join sep (q :: ps)).
    rewrite split_on_app by exact Hp. rewrite IH; [reflexivity|discriminate|exact HF'].
Qed.

Lemma Forall_join (P : ascii -> Prop) sep ps : P sep -> Forall (Forall P) ps -> Forall P (join sep ps).
Proof.
  intros Hs. induction ps as [|p ps IH]; intros HF; [constructor|].
  inversion HF as [|? ? Hp HF']; subst.
  destruct ps as [|q ps]; [exact Hp|].
  change (join sep (p :: q :: ps)) with (p ++ sep :: join sep (q :: ps)).
  apply Forall_app. split; [exact Hp|]. constructor; [exact Hs|]. apply IH. exact HF'.
Qed.

Lemma join_length sep ps :
  (length (join sep ps) <= list_sum (map (fun p => S (length p)) ps))%nat.
Proof.
  induction ps as [|p ps IH]; [cbn; lia|].
  destruct ps as [|q ps]; [cbn; lia|].
  change (join sep (p :: q :: ps)) with (p ++ sep :: join sep (q :: ps)).
  rewrite app_length. unfold list_sum in *. cbn [length map fold_right] in *. lia.
Qed.

Lemma addr_no_comma s : Forall addr_ch s -> ~ In COMMA s.
Proof. intros HF Hi. rewrite Forall_forall in HF. apply (addr_ch_not_comma _ (HF _ Hi)). reflexivity. Qed.

Lemma addr_no_nl s : Forall addr_ch s -> ~ In NL s.
Proof. intros HF Hi. rewrite Forall_forall in HF. apply (addr_ch_not_nl _ (HF _ Hi)). reflexivity. Qed.

Lemma is_ascii7_Forall s : Forall (fun c => (N_of_ascii c <? 128) = true) s -> is_ascii7 s = true.
Proof. intros H. unfold is_ascii7. apply forallb_forall. rewrite Forall_forall in H. exact H. Qed.

Lemma addr_ascii s : Forall addr_ch s -> Forall (fun c => (N_of_ascii c <? 128) = true) s.
Proof. apply Forall_impl. apply addr_ch_ascii. Qed.

Lemma lstrip_nows ws s : Forall (fun c => ws c = false) s -> lstrip ws s = s.
Proof.
  intros H. destruct s as [|c r]; [reflexivity|]. cbn [lstrip].
  inversion H as [|? ? Hc _]; subst. rewrite Hc. reflexivity.
Qed.

Lemma strip_by_nows ws s : Forall (fun c => ws c = false) s -> strip_by ws s = s.
Proof.
  intros H. unfold strip_by. rewrite (lstrip_nows ws s H).
  rewrite lstrip_nows by (apply Forall_rev; exact H). apply rev_involutive.
Qed.

(* a clean string followed by one newline *)
Lemma strip_by_nl ws s : Forall (fun c => ws c = false) s -> ws NL = true -> s <> [] ->
  strip_by ws (s ++ [NL]) = s.
Proof.
  intros H Hnl Hs. unfold strip_by.
  destruct s as [|c r]; [contradiction|].
  assert (E1 : lstrip ws ((c :: r) ++ [NL]) = (c :: r) ++ [NL]).
  { cbn [app lstrip]. inversion H as [|? ? Hc _]; subst. rewrite Hc. reflexivity. }
  rewrite E1. rewrite rev_app_distr. cbn [rev app]. cbn [lstrip]. rewrite Hnl.
  change (rev r ++ [c]) with (rev (c :: r)).
  rewrite lstrip_nows by (apply Forall_rev; exact H). apply rev_involutive.
Qed.

Lemma addr_nows s : Forall addr_ch s -> Forall (fun c => is_ws_str c = false) s.
Proof. apply Forall_impl. apply addr_ch_not_ws. Qed.

Lemma nows_str_ws s : Forall (fun c => is_ws_str c = false) s -> Forall (fun c => is_ws c = false) s.
Proof. apply Forall_impl. apply is_ws_str_ws. Qed.

(* int() of what %d printed, also when a newline follows (pf reply) *)
Lemma py_int_core s n : Forall (fun c => is_dec c = true) s -> undec s = Some n ->
  match s with
  | c :: r =>
    (if Ascii.eqb c (ch 45) then option_map (fun n => (- Z.of_N n)%Z) (undec r)
     else if Ascii.eqb c (ch 43) then option_map Z.of_N (undec r)
     else option_map Z.of_N (undec (c :: r))) = Some (Z.of_N n)
  | [] => False
  end.
Proof.
  intros HF Hu. destruct s as [|c r]; [discriminate|].
  inversion HF as [|? ? Hc _]; subst. apply is_dec_range in Hc.
  rewrite (eqb_ch_neq c 45) by lia. rewrite (eqb_ch_neq c 43) by lia.
  rewrite Hu. reflexivity.
Qed.

Lemma py_int_dec n : py_int (dec n) = Some (Z.of_N n).
Proof.
  unfold py_int, strip.
  rewrite strip_by_nows.
  2:{ apply nows_str_ws, addr_nows, dec_addr_ch. }
  pose proof (py_int_core (dec n) n (dec_is_dec n) (undec_dec n)) as H.
  destruct (dec n); [contradiction|exact H].
Qed.

Lemma py_int_dec_nl n : py_int (dec n ++ [NL]) = Some (Z.of_N n).
Proof.
  unfold py_int, strip.
  rewrite strip_by_nl; [| apply nows_str_ws, addr_nows, dec_addr_ch | reflexivity | apply dec_nonnil].
  pose proof (py_int_core (dec n) n (dec_is_dec n) (undec_dec n)) as H.
  destruct (dec n); [contradiction|exact H].
Qed.

(* ================================================================== *)
(* 4. IPv4 text                                                        *)

Lemma is_dec_not_dot c : is_dec c = true -> c <> DOT.
Proof. intros H ->. apply is_dec_range in H. change (N_of_ascii DOT) with 46 in H. lia. Qed.

Lemma is_hexl_not_dot_colon c : is_hexl c = true -> c <> DOT /\ c <> COLON.
Proof.
  intros H. unfold is_hexl, is_dec in H. cbv zeta in H.
  split; intros ->; [change (N_of_ascii DOT) with 46 in H | change (N_of_ascii COLON) with 58 in H]; lia.
Qed.

Lemma dec_no_dot n : ~ In DOT (dec n).
Proof.
  intros Hi. pose proof (dec_is_dec n) as HF. rewrite Forall_forall in HF.
  apply (is_dec_not_dot _ (HF _ Hi)). reflexivity.
Qed.

Lemma hex_no_dot n : ~ In DOT (hex n).
Proof.
  intros Hi. pose proof (hex_is_hexl n) as HF. rewrite Forall_forall in HF.
  apply (proj1 (is_hexl_not_dot_colon _ (HF _ Hi))). reflexivity.
Qed.

Lemma hex_no_colon n : ~ In COLON (hex n).
Proof.
  intros Hi. pose proof (hex_is_hexl n) as HF. rewrite Forall_forall in HF.
  apply (proj2 (is_hexl_not_dot_colon _ (HF _ Hi))). reflexivity.
Qed.

Lemma mem_ch_false c s : ~ In c s -> mem_ch c s = false.
Proof.
  intros H. unfold mem_ch. destruct (existsb (Ascii.eqb c) s) eqn:E; [|reflexivity].
  apply existsb_exists in E. destruct E as (x & Hx & Ex). apply Ascii.eqb_eq in Ex. subst x. contradiction.
Qed.

Lemma parse_octet_dec n : n < 256 -> parse_octet (dec n) = Some n.
Proof.
  intros H. unfold parse_octet.
  pose proof (dec_nonnil n) as Hn. pose proof (undigits_dec n) as Hu.
  pose proof (dec_len3 n H) as Hl. pose proof (dec_leading_zero n) as Hz.
  destruct (dec n) as [|c r]; [contradiction|].
  assert (E : Ascii.eqb c ZERO_CH && negb (match r with [] => true | _ => false end) = false).
  { destruct (Ascii.eqb c ZERO_CH) eqn:Ec; [|reflexivity].
    apply Ascii.eqb_eq in Ec. rewrite (Hz c r eq_refl Ec). reflexivity. }
  rewrite E. replace (3 <? lenN (c :: r)) with false by (unfold lenN; lia).
  rewrite Hu. replace (n <=? 255) with true by lia. reflexivity.
Qed.

Lemma fmt4_eq a b c d :
  fmt4 [a; b; c; d] = dec (N_of_ascii a) ++ DOT :: dec (N_of_ascii b) ++ DOT :: dec (N_of_ascii c)
                        ++ DOT :: dec (N_of_ascii d).
Proof. reflexivity. Qed.

Lemma parse4_fmt4_4 a b c d : parse4 (fmt4 [a; b; c; d]) = Some [a; b; c; d].
Proof.
  unfold parse4. rewrite fmt4_eq.
  rewrite !split_on_app by apply dec_no_dot. rewrite split_on_nosep by apply dec_no_dot.
  rewrite !parse_octet_dec by apply N_ascii_bounded. rewrite !ch_N_of. reflexivity.
Qed.

Lemma parse4_fmt4 a : length a = 4%nat -> parse4 (fmt4 a) = Some a.
Proof.
  destruct a as [|a [|b [|c [|d [|]]]]]; try discriminate. intros _. apply parse4_fmt4_4.
Qed.

Lemma fmt4_addr_ch a : Forall addr_ch (fmt4 a).
Proof.
  unfold fmt4. apply Forall_join; [right; left; reflexivity|].
  apply Forall_map. apply Forall_forall. intros x _. apply dec_addr_ch.
Qed.

Lemma fmt4_len a b c d : (length (fmt4 [a; b; c; d]) <= 15)%nat.
Proof.
  rewrite fmt4_eq. repeat (rewrite app_length; cbn [length]).
  pose proof (dec_len3 _ (N_ascii_bounded a)). pose proof (dec_len3 _ (N_ascii_bounded b)).
  pose proof (dec_len3 _ (N_ascii_bounded c)). pose proof (dec_len3 _ (N_ascii_bounded d)). lia.
Qed.

Lemma fmt4_has_dot a b c d : mem_ch DOT (fmt4 [a; b; c; d]) = true.
Proof.
  unfold mem_ch. rewrite fmt4_eq. rewrite existsb_app. apply orb_true_iff. right.
  cbn [existsb]. rewrite Ascii.eqb_refl. reflexivity.
Qed.

Lemma fmt4_nonnil a b c d : fmt4 [a; b; c; d] <> [].
Proof.
  rewrite fmt4_eq. pose proof (dec_nonnil (N_of_ascii a)) as H.
  destruct (dec (N_of_ascii a)); [contradiction|discriminate].
Qed.

(* ================================================================== *)
(* 5. IPv6 text                                                        *)

Ltac Zify.zify_post_hook ::= Z.to_euclidean_division_equations.

Lemma put_get_u16 h l : put_u16 (get_u16 h l) = [h; l].
Proof.
  unfold put_u16, get_u16.
  pose proof (N_ascii_bounded h). pose proof (N_ascii_bounded l).
  replace ((256 * N_of_ascii h + N_of_ascii l) / 256) with (N_of_ascii h) by lia.
  replace ((256 * N_of_ascii h + N_of_ascii l) mod 256) with (N_of_ascii l) by lia.
  rewrite !ascii_N_embedding. reflexivity.
Qed.

Lemma groups_facts : forall n a, length a = (2 * n)%nat ->
  bytes_of_groups (groups_of a) = a /\ length (groups_of a) = n /\
  Forall (fun g => g < 65536) (groups_of a).
Proof.
  induction n as [|n IH]; intros a Hl.
  - destruct a; [|discriminate]. repeat split. constructor.
  - destruct a as [|h [|l r]]; try (cbn in Hl; lia).
    assert (Hr : length r = (2 * n)%nat) by (cbn [length] in Hl; lia).
    destruct (IH r Hr) as (H1 & H2 & H3).
    cbn [groups_of bytes_of_groups]. rewrite put_get_u16. cbn [app length].
    split; [rewrite H1; reflexivity|]. split; [rewrite H2; reflexivity|].
    constructor; [apply get_u16_bound|exact H3].
Qed.

Ltac case0 g :=
  let E := fresh "E" in
  destruct (is0 g) eqn:E; [apply N.eqb_eq in E; subst g | clear E].

Lemma parse_compress8 g0 g1 g2 g3 g4 g5 g6 g7 :
  parse_parts (compress [g0; g1; g2; g3; g4; g5; g6; g7]) = Some [g0; g1; g2; g3; g4; g5; g6; g7].
Proof.
  unfold compress, best_run. cbn [map].
  case0 g0; case0 g1; case0 g2; case0 g3; case0 g4; case0 g5; case0 g6; case0 g7;
    vm_compute; reflexivity.
Qed.

Lemma parse_compress_ntop8 g0 g1 g2 g3 g4 g5 g6 g7 :
  parse_parts (compress_ntop [g0; g1; g2; g3; g4; g5; g6; g7]) = Some [g0; g1; g2; g3; g4; g5; g6; g7].
Proof.
  unfold compress_ntop, compress, best_run. cbn [map nth].
  destruct (g5 =? 65535) eqn:E5; [apply N.eqb_eq in E5; subst g5 |].
  - case0 g0; case0 g1; case0 g2; case0 g3; case0 g4; case0 g6; case0 g7; vm_compute; reflexivity.
  - case0 g0; case0 g1; case0 g2; case0 g3; case0 g4; case0 g5; case0 g6; case0 g7;
      vm_compute; reflexivity.
Qed.

Lemma list8 {A} (l : list A) : length l = 8%nat ->
  exists a b c d e f g h, l = [a; b; c; d; e; f; g; h].
Proof.
  intros H. destruct l as [|a [|b [|c [|d [|e [|f [|g [|h [|]]]]]]]]]; try discriminate.
  do 8 eexists. reflexivity.
Qed.

Lemma parse_compress gs : length gs = 8%nat -> parse_parts (compress gs) = Some gs.
Proof. intros H. destruct (list8 gs H) as (a & b & c & d & e & f & g & h & ->). apply parse_compress8. Qed.

Lemma parse_compress_ntop gs : length gs = 8%nat -> parse_parts (compress_ntop gs) = Some gs.
Proof. intros H. destruct (list8 gs H) as (a & b & c & d & e & f & g & h & ->). apply parse_compress_ntop8. Qed.

(* parts the printers produce *)
Definition good_part (p : part) : Prop :=
  match p with
  | PG g => g < 65536
  | PE => True
  | PV4 hi lo => hi < 65536 /\ lo < 65536
  | PBad => False
  end.

Lemma render_addr_ch p : good_part p -> Forall addr_ch (render_part p).
Proof.
  destruct p; cbn [render_part good_part]; intros H.
  - apply hex_addr_ch.
  - constructor.
  - apply fmt4_addr_ch.
  - contradiction.
Qed.

Lemma render_no_colon p : good_part p -> ~ In COLON (render_part p).
Proof.
  destruct p; cbn [render_part good_part]; intros H.
  - apply hex_no_colon.
  - intros [].
  - intros Hi. pose proof (fmt4_addr_ch (put_u16 hi ++ put_u16 lo)) as HF.
    unfold fmt4 in Hi.
    (* every character of a dotted quad is a decimal digit or a dot *)
    assert (HD : Forall (fun c => is_dec c = true \/ c = DOT) (join DOT (map (fun b => dec (N_of_ascii b)) (put_u16 hi ++ put_u16 lo)))).
    { apply Forall_join; [right; reflexivity|]. apply Forall_map. apply Forall_forall. intros x _.
      eapply Forall_impl; [|apply dec_is_dec]. intros c Hc. left. exact Hc. }
    rewrite Forall_forall in HD. destruct (HD _ Hi) as [Hc | Hc].
    + apply is_dec_range in Hc. change (N_of_ascii COLON) with 58 in Hc. lia.
    + discriminate Hc.
  - contradiction.
Qed.

Lemma classify_render p : good_part p -> classify (render_part p) = p.
Proof.
  destruct p; cbn [render_part good_part]; intros H.
  - unfold classify. pose proof (hex_nonnil g) as Hn.
    destruct (hex g) eqn:E; [contradiction|]. rewrite <- E.
    rewrite (mem_ch_false DOT (hex g) (hex_no_dot g)).
    unfold parse_hextet. rewrite E. rewrite <- E.
    replace (4 <? lenN (hex g)) with false by (pose proof (hex_len4 g H); unfold lenN; lia).
    rewrite unhex_hex. reflexivity.
  - reflexivity.
  - destruct H as [Hh Hl]. unfold put_u16. cbn [app].
    unfold classify. pose proof (fmt4_nonnil (ascii_of_N (hi / 256)) (ascii_of_N (hi mod 256)) (ascii_of_N (lo / 256)) (ascii_of_N (lo mod 256))) as Hn.
    destruct (fmt4 _) eqn:E; [contradiction|]. rewrite <- E.
    rewrite fmt4_has_dot. rewrite parse4_fmt4_4.
    rewrite (get_put_u16 hi Hh), (get_put_u16 lo Hl). reflexivity.
  - contradiction.
Qed.

Lemma classify_render_all ps : Forall good_part ps -> map classify (map render_part ps) = ps.
Proof.
  induction ps as [|p ps IH]; intros H; [reflexivity|].
  inversion H as [|? ? Hp Hps]; subst. cbn [map]. rewrite (classify_render p Hp), (IH Hps). reflexivity.
Qed.

Lemma Forall_PG gs : Forall (fun g => g < 65536) gs -> Forall good_part (map PG gs).
Proof. intros H. apply Forall_map. exact H. Qed.

Lemma Forall_firstn {A} (P : A -> Prop) n l : Forall P l -> Forall P (firstn n l).
Proof.
  revert l. induction n as [|n IH]; intros l H; [constructor|].
  destruct l; [constructor|]. inversion H; subst. cbn [firstn]. constructor; [assumption|apply IH; assumption].
Qed.

Lemma Forall_skipn {A} (P : A -> Prop) n l : Forall P l -> Forall P (skipn n l).
Proof.
  revert l. induction n as [|n IH]; intros l H; [exact H|].
  destruct l; [constructor|]. inversion H; subst. cbn [skipn]. apply IH. assumption.
Qed.

Lemma Forall_app_intro {A} (P : A -> Prop) a b : Forall P a -> Forall P b -> Forall P (a ++ b).
Proof. intros Ha Hb. apply Forall_app. split; assumption. Qed.

Lemma compress_good gs : Forall (fun g => g < 65536) gs -> Forall good_part (compress gs).
Proof.
  intros H. unfold compress. destruct (best_run (map is0 gs)) as [s l].
  destruct (Nat.ltb 1 l); [|apply Forall_PG; exact H].
  apply Forall_app_intro; [|apply Forall_app_intro; [|apply Forall_app_intro; [|apply Forall_app_intro]]].
  - destruct (Nat.eqb s 0); [constructor; [exact I|constructor]|constructor].
  - apply Forall_PG, Forall_firstn, H.
  - constructor; [exact I|constructor].
  - apply Forall_PG, Forall_skipn, H.
  - destruct (Nat.eqb (s + l) (length gs)); [constructor; [exact I|constructor]|constructor].
Qed.

Lemma Forall_nth_lt gs k : Forall (fun g => g < 65536) gs -> nth k gs 0 < 65536.
Proof.
  intros H. revert k. induction H as [|g gs Hg _ IH]; intros k; destruct k; cbn [nth]; try lia; apply IH.
Qed.

Lemma compress_ntop_good gs : Forall (fun g => g < 65536) gs -> Forall good_part (compress_ntop gs).
Proof.
  intros H. unfold compress_ntop. pose proof (compress_good gs H) as HC.
  destruct (best_run (map is0 gs)) as [s l].
  destruct (Nat.eqb s 0 && (Nat.eqb l 6 || Nat.eqb l 5 && (nth 5 gs 0 =? 65535))); [|exact HC].
  apply Forall_app_intro; [|apply Forall_app_intro].
  - constructor; [exact I|constructor; [exact I|constructor]].
  - destruct (Nat.eqb l 5); [constructor; [|constructor]|constructor]. cbn [good_part]. lia.
  - constructor; [|constructor]. cbn [good_part]. split; apply Forall_nth_lt; exact H.
Qed.

Lemma compress_nonnil gs : gs <> [] -> compress gs <> [].
Proof.
  intros H. unfold compress. destruct (best_run (map is0 gs)) as [s l].
  destruct (Nat.ltb 1 l).
  - destruct (Nat.eqb s 0); cbn [app]; [discriminate|].
    intros E. apply app_eq_nil in E. destruct E as [_ E]. discriminate.
  - destruct gs; [contradiction|discriminate].
Qed.

Lemma compress_ntop_nonnil gs : gs <> [] -> compress_ntop gs <> [].
Proof.
  intros H. unfold compress_ntop. pose proof (compress_nonnil gs H) as HC.
  destruct (best_run (map is0 gs)) as [s l].
  destruct (Nat.eqb s 0 && (Nat.eqb l 6 || Nat.eqb l 5 && (nth 5 gs 0 =? 65535))); [discriminate|exact HC].
Qed.

(* the generic text round trip for a list of good parts *)
Lemma parse6_parts ps gs : ps <> [] -> Forall good_part ps -> parse_parts ps = Some gs ->
  parse6 (join COLON (map render_part ps)) = Some (bytes_of_groups gs).
Proof.
  intros Hn HG HP. unfold parse6.
  rewrite split_on_join.
  - rewrite (classify_render_all ps HG). rewrite HP. reflexivity.
  - destruct ps; [contradiction|discriminate].
  - apply Forall_map. eapply Forall_impl; [|exact HG]. apply render_no_colon.
Qed.

Lemma groups16 a : length a = 16%nat ->
  bytes_of_groups (groups_of a) = a /\ length (groups_of a) = 8%nat /\ Forall (fun g => g < 65536) (groups_of a).
Proof. intros H. apply (groups_facts 8 a). exact H. Qed.

Lemma parse6_fmt6 a : length a = 16%nat -> parse6 (fmt6 a) = Some a.
Proof.
  intros H. destruct (groups16 a H) as (Hb & Hl & HF). unfold fmt6.
  rewrite (parse6_parts (compress (groups_of a)) (groups_of a)).
  - rewrite Hb. reflexivity.
  - apply compress_nonnil. destruct (groups_of a); [discriminate|discriminate].
  - apply compress_good. exact HF.
  - apply parse_compress. exact Hl.
Qed.

Lemma parse6_fmt6_ntop a : length a = 16%nat -> parse6 (fmt6_ntop a) = Some a.
Proof.
  intros H. destruct (groups16 a H) as (Hb & Hl & HF). unfold fmt6_ntop.
  rewrite (parse6_parts (compress_ntop (groups_of a)) (groups_of a)).
  - rewrite Hb. reflexivity.
  - apply compress_ntop_nonnil. destruct (groups_of a); [discriminate|discriminate].
  - apply compress_ntop_good. exact HF.
  - apply parse_compress_ntop. exact Hl.
Qed.

Lemma parts_addr_ch ps : Forall good_part ps -> Forall addr_ch (join COLON (map render_part ps)).
Proof.
  intros H. apply Forall_join; [right; right; reflexivity|].
  apply Forall_map. eapply Forall_impl; [|exact H]. apply render_addr_ch.
Qed.

Lemma fmt6_addr_ch a : length a = 16%nat -> Forall addr_ch (fmt6 a).
Proof. intros H. destruct (groups16 a H) as (_ & _ & HF). apply parts_addr_ch, compress_good, HF. Qed.

Lemma fmt6_ntop_addr_ch a : length a = 16%nat -> Forall addr_ch (fmt6_ntop a).
Proof. intros H. destruct (groups16 a H) as (_ & _ & HF). apply parts_addr_ch, compress_ntop_good, HF. Qed.

(* length of the IPv6 texts (crude but sufficient: <= 43 characters) *)
Definition W (ps : list part) : nat := list_sum (map (fun p => S (length (render_part p))) ps).

Lemma W_app a b : W (a ++ b) = (W a + W b)%nat.
Proof. unfold W. rewrite map_app, list_sum_app. reflexivity. Qed.

Lemma W_PG l : Forall (fun g => g < 65536) l -> (W (map PG l) <= 5 * length l)%nat.
Proof.
  induction 1 as [|g l Hg _ IH]; [cbn; lia|].
  unfold W, list_sum in *. cbn [map fold_right length render_part] in *. pose proof (hex_len4 g Hg). lia.
Qed.

Lemma parts_len ps : (length (join COLON (map render_part ps)) <= W ps)%nat.
Proof.
  unfold W. pose proof (join_length COLON (map render_part ps)) as H. rewrite map_map in H. exact H.
Qed.

Lemma W_compress gs : length gs = 8%nat -> Forall (fun g => g < 65536) gs -> (W (compress gs) <= 43)%nat.
Proof.
  intros Hl HF. unfold compress. destruct (best_run (map is0 gs)) as [s l].
  destruct (Nat.ltb 1 l).
  - rewrite !W_app.
    pose proof (W_PG _ (Forall_firstn _ s gs HF)) as H1.
    pose proof (W_PG _ (Forall_skipn _ (s + l) gs HF)) as H2.
    rewrite firstn_length in H1. rewrite skipn_length in H2.
    assert (W (if Nat.eqb s 0 then [PE] else []) <= 1)%nat by (destruct (Nat.eqb s 0); cbn; lia).
    assert (W (if Nat.eqb (s + l) (length gs) then [PE] else []) <= 1)%nat
      by (destruct (Nat.eqb (s + l) (length gs)); cbn; lia).
    change (W [PE]) with 1%nat. lia.
  - pose proof (W_PG gs HF). lia.
Qed.

Lemma W_compress_ntop gs : length gs = 8%nat -> Forall (fun g => g < 65536) gs -> (W (compress_ntop gs) <= 43)%nat.
Proof.
  intros Hl HF. unfold compress_ntop. pose proof (W_compress gs Hl HF) as HC.
  destruct (best_run (map is0 gs)) as [s l].
  destruct (Nat.eqb s 0 && (Nat.eqb l 6 || Nat.eqb l 5 && (nth 5 gs 0 =? 65535))); [|exact HC].
  rewrite !W_app. change (W [PE; PE]) with 2%nat.
  assert (W (if Nat.eqb l 5 then [PG 65535] else []) <= 5)%nat by (destruct (Nat.eqb l 5); vm_compute; lia).
  assert (W [PV4 (nth 6 gs 0%N) (nth 7 gs 0%N)] <= 16)%nat.
  { unfold W, list_sum. cbn [map fold_right render_part]. unfold put_u16. cbn [app].
    pose proof (fmt4_len (ascii_of_N (nth 6 gs 0 / 256)) (ascii_of_N (nth 6 gs 0 mod 256))
                         (ascii_of_N (nth 7 gs 0 / 256)) (ascii_of_N (nth 7 gs 0 mod 256))). lia. }
  lia.
Qed.

Lemma fmt6_len a : length a = 16%nat -> (length (fmt6 a) <= 43)%nat.
Proof.
  intros H. destruct (groups16 a H) as (_ & Hl & HF). unfold fmt6.
  pose proof (parts_len (compress (groups_of a))). pose proof (W_compress _ Hl HF). lia.
Qed.

Lemma fmt6_ntop_len a : length a = 16%nat -> (length (fmt6_ntop a) <= 43)%nat.
Proof.
  intros H. destruct (groups16 a H) as (_ & Hl & HF). unfold fmt6_ntop.
  pose proof (parts_len (compress_ntop (groups_of a))). pose proof (W_compress_ntop _ Hl HF). lia.
Qed.

Lemma fmt4_len4 a : length a = 4%nat -> (length (fmt4 a) <= 43)%nat.
Proof.
  destruct a as [|a [|b [|c [|d [|]]]]]; try discriminate. intros _.
  pose proof (fmt4_len a b c d). lia.
Qed.

Lemma fmt6_nonnil_gen ps : ps <> [] -> Forall good_part ps -> parse_parts ps <> None ->
  join COLON (map render_part ps) <> [].
Proof.
  (* an empty text would be the single part PE, which parse_parts rejects *)
  intros Hn HG HP E.
  destruct ps as [|p [|q ps]]; [contradiction| |].
  - cbn [map join] in E. destruct p; cbn [render_part] in E.
    + exact (hex_nonnil g E).
    + apply HP. reflexivity.
    + apply HP. reflexivity.
    + discriminate.
  - change (join COLON (map render_part (p :: q :: ps)))
      with (render_part p ++ COLON :: join COLON (map render_part (q :: ps))) in E.
    apply app_eq_nil in E. destruct E as [_ E]. discriminate.
Qed.

(* ================================================================== *)
(* 6. kernel layouts                                                   *)

Lemma takeN4 (a b c d : ascii) r : takeN 4 (a :: b :: c :: d :: r) = [a; b; c; d].
Proof. reflexivity. Qed.
Lemma dropN4 (a b c d : ascii) r : dropN 4 (a :: b :: c :: d :: r) = r.
Proof. reflexivity. Qed.
Lemma takeN8 (a b c d e f g h : ascii) r : takeN 8 (a :: b :: c :: d :: e :: f :: g :: h :: r) = [a; b; c; d; e; f; g; h].
Proof. reflexivity. Qed.
Lemma dropN8 (a b c d e f g h : ascii) r : dropN 8 (a :: b :: c :: d :: e :: f :: g :: h :: r) = r.
Proof. reflexivity. Qed.

Lemma lenN_len (s : bytes) (k : nat) : length s = k -> lenN s = N.of_nat k.
Proof. intros <-. reflexivity. Qed.

Lemma read_native e n : n < 65536 ->
  match native_u16 e n with
  | [b0; b1] => read_native_u16 e b0 b1 = n
  | _ => False
  end.
Proof.
  intros H. destruct e; unfold native_u16, put_u16, read_native_u16, get_u16, ch.
  - rewrite !N_ascii_embedding by lia. lia.
  - rewrite !N_ascii_embedding by lia. lia.
Qed.

Lemma htons_read e p : p < 65536 ->
  htons e (read_native_u16 e (ascii_of_N (p / 256)) (ascii_of_N (p mod 256))) = p.
Proof.
  intros H. destruct e; unfold htons, read_native_u16, get_u16; rewrite !N_ascii_embedding by lia; lia.
Qed.

Lemma original_dst_in e a p tail sn : length a = 4%nat -> p < 65536 ->
  original_dst AF_INET (inl (sockaddr_in e a p ++ tail)) sn = Ok (fmt4 a, p).
Proof.
  intros Ha Hp. destruct a as [|a1 [|a2 [|a3 [|a4 [|]]]]]; try discriminate.
  unfold original_dst. change (AF_INET =? AF_INET) with true. cbv beta iota. cbn [orb].
  unfold sockaddr_in.
  assert (E : exists f0 f1, native_u16 e AF_INET = [f0; f1]) by (destruct e; do 2 eexists; reflexivity).
  destruct E as (f0 & f1 & ->). unfold put_u16. cbn [app].
  rewrite takeN8. cbv beta iota. rewrite (get_put_u16 p Hp). reflexivity.
Qed.

Lemma original_dst_in6 e a p flow scope tail sn : length a = 16%nat -> length flow = 4%nat -> p < 65536 ->
  original_dst AF_INET6 (inl (sockaddr_in6 e a p flow scope ++ tail)) sn = Ok (fmt6 a, p).
Proof.
  intros Ha Hf Hp. destruct flow as [|x1 [|x2 [|x3 [|x4 [|]]]]]; try discriminate.
  unfold original_dst. change (AF_INET6 =? AF_INET) with false. change (AF_INET6 =? AF_INET6) with true.
  cbv beta iota. cbn [orb].
  unfold sockaddr_in6.
  assert (E : exists f0 f1, native_u16 e AF_INET6 = [f0; f1]) by (destruct e; do 2 eexists; reflexivity).
  destruct E as (f0 & f1 & ->). unfold put_u16. cbn [app]. rewrite <- !app_assoc.
  replace (lenN (f0 :: f1 :: ascii_of_N (p / 256) :: ascii_of_N (p mod 256) :: x1 :: x2 :: x3 :: x4 :: a ++ scope ++ tail) <? 24)
    with false.
  2:{ unfold lenN. cbn [length]. rewrite app_length. lia. }
  rewrite (get_put_u16 p Hp).
  replace 16 with (lenN a) by (unfold lenN; rewrite Ha; reflexivity).
  rewrite takeN_app_exact. reflexivity.
Qed.

Definition cmsg_other (c : N * N * bytes) : bool :=
  let '(lvl, typ, _) := c in
  negb ((lvl =? SOL_IP) && (typ =? IP_ORIGDSTADDR)) && negb ((lvl =? SOL_IPV6) && (typ =? IPV6_ORIGDSTADDR)).

Lemma recv_udp_skip e pre rest : forallb cmsg_other pre = true ->
  recv_udp_dst e (pre ++ rest) = recv_udp_dst e rest.
Proof.
  induction pre as [|[[lvl typ] d] pre IH]; intros H; [reflexivity|].
  cbn [forallb] in H. apply andb_true_iff in H. destruct H as [H1 H2].
  unfold cmsg_other in H1. apply andb_true_iff in H1. destruct H1 as [Ha Hb].
  apply negb_true_iff in Ha. apply negb_true_iff in Hb.
  cbn [app recv_udp_dst]. rewrite Ha, Hb. apply IH. exact H2.
Qed.

Lemma cmsg4 e a p tail pre post : length a = 4%nat -> p < 65536 -> forallb cmsg_other pre = true ->
  recv_udp_dst e (pre ++ (SOL_IP, IP_ORIGDSTADDR, sockaddr_in e a p ++ tail) :: post) = Ok (Some (fmt4 a, p)).
Proof.
  intros Ha Hp Hpre. rewrite recv_udp_skip by exact Hpre.
  destruct a as [|a1 [|a2 [|a3 [|a4 [|]]]]]; try discriminate.
  cbn [recv_udp_dst]. change ((SOL_IP =? SOL_IP) && (IP_ORIGDSTADDR =? IP_ORIGDSTADDR)) with true. cbv beta iota.
  unfold cmsg_decode, sockaddr_in.
  pose proof (read_native e AF_INET ltac:(reflexivity)) as Hr.
  destruct (native_u16 e AF_INET) as [|f0 [|f1 [|]]]; try contradiction.
  unfold put_u16. cbn [app]. rewrite takeN4, dropN4. cbv beta iota. rewrite Hr.
  change (AF_INET =? AF_INET) with true. cbv beta iota.
  rewrite takeN4. change (lenN [a1; a2; a3; a4] =? 4) with true. cbv beta iota.
  rewrite (htons_read e p Hp). reflexivity.
Qed.

Lemma cmsg6 e a p flow tail pre post : length a = 16%nat -> length flow = 4%nat -> p < 65536 ->
  forallb cmsg_other pre = true ->
  recv_udp_dst e (pre ++ (SOL_IPV6, IPV6_ORIGDSTADDR, native_u16 e AF_INET6 ++ put_u16 p ++ flow ++ a ++ tail) :: post)
  = Ok (Some (fmt6_ntop a, p)).
Proof.
  intros Ha Hf Hp Hpre. rewrite recv_udp_skip by exact Hpre.
  destruct flow as [|x1 [|x2 [|x3 [|x4 [|]]]]]; try discriminate.
  cbn [recv_udp_dst].
  change ((SOL_IPV6 =? SOL_IP) && (IPV6_ORIGDSTADDR =? IP_ORIGDSTADDR)) with false.
  change ((SOL_IPV6 =? SOL_IPV6) && (IPV6_ORIGDSTADDR =? IPV6_ORIGDSTADDR)) with true. cbv beta iota.
  unfold cmsg_decode.
  pose proof (read_native e AF_INET6 ltac:(reflexivity)) as Hr.
  destruct (native_u16 e AF_INET6) as [|f0 [|f1 [|]]]; try contradiction.
  unfold put_u16. cbn [app]. rewrite takeN4, dropN8. cbv beta iota. rewrite Hr.
  change (AF_INET6 =? AF_INET6) with true. cbv beta iota.
  replace 16 with (lenN a) by (unfold lenN; rewrite Ha; reflexivity).
  rewrite takeN_app_exact. rewrite N.eqb_refl.
  rewrite (htons_read e p Hp). reflexivity.
Qed.

(* ------------------------------------------------------------------ *)
(* the control buffer as the kernel fills it (put_cmsgs)               *)

Lemma takeN_app_ge n (a b : bytes) : lenN a <= n -> takeN n (a ++ b) = a ++ takeN (n - lenN a) b.
Proof.
  intros H. unfold takeN, lenN in *. rewrite firstn_app. rewrite firstn_all2 by lia.
  f_equal. f_equal. lia.
Qed.

Lemma lenN_native_u16 e n : lenN (native_u16 e n) = 2.
Proof. destruct e; reflexivity. Qed.

Lemma lenN_put_u16 n : lenN (put_u16 n) = 2.
Proof. reflexivity. Qed.

Lemma lenN_sockaddr_in e a p : length a = 4%nat -> lenN (sockaddr_in e a p) = 16.
Proof.
  intros Ha. unfold sockaddr_in. rewrite !lenN_app, lenN_native_u16, lenN_put_u16, (lenN_len a 4 Ha).
  reflexivity.
Qed.

Lemma lenN_sockaddr_in6_head e a p flow : length a = 16%nat -> length flow = 4%nat ->
  lenN (native_u16 e AF_INET6 ++ put_u16 p ++ flow ++ a) = 24.
Proof.
  intros Ha Hf. rewrite !lenN_app, lenN_native_u16, lenN_put_u16, (lenN_len a 16 Ha), (lenN_len flow 4 Hf).
  reflexivity.
Qed.

(* IPv4: struct sockaddr_in (16 bytes) fits every buffer with 16 bytes of data room: stored whole, no MSG_CTRUNC *)
Lemma cmsg4_kernel e a p hdr al room : length a = 4%nat -> p < 65536 -> hdr + 16 <= room ->
  recv_udp_kernel e hdr al room [(SOL_IP, IP_ORIGDSTADDR, sockaddr_in e a p)] = (Ok (Some (fmt4 a, p)), false).
Proof.
  intros Ha Hp Hr. unfold recv_udp_kernel. cbn [put_cmsgs].
  replace (room <? hdr) with false by lia.
  rewrite (lenN_sockaddr_in e a p Ha). replace (hdr + 16 <=? room) with true by lia.
  cbv beta iota zeta. cbn [put_cmsgs fst snd negb orb].
  pose proof (cmsg4 e a p [] [] [] Ha Hp eq_refl) as H. rewrite app_nil_r in H. cbn [app] in H.
  f_equal. exact H.
Qed.

(* IPv6: struct sockaddr_in6 is 28 bytes.  Whatever the buffer, as long as it has 24 bytes of data room
   (recv_udp offers CMSG_SPACE(24)), the stored data begins with family, port, flowinfo and the whole
   address - the cut, if any, falls inside the scope id - and recv_udp decodes the dialled destination *)
Lemma cmsg6_kernel e a p flow scope hdr al room : length a = 16%nat -> length flow = 4%nat -> p < 65536 ->
  hdr + 24 <= room ->
  fst (recv_udp_kernel e hdr al room [(SOL_IPV6, IPV6_ORIGDSTADDR, sockaddr_in6 e a p flow scope)])
  = Ok (Some (fmt6_ntop a, p)).
Proof.
  intros Ha Hf Hp Hr. unfold recv_udp_kernel. cbn [put_cmsgs fst].
  replace (room <? hdr) with false by lia.
  pose proof (lenN_sockaddr_in6_head e a p flow Ha Hf) as Hh.
  assert (E : sockaddr_in6 e a p flow scope = (native_u16 e AF_INET6 ++ put_u16 p ++ flow ++ a) ++ scope).
  { unfold sockaddr_in6. rewrite <- !app_assoc. reflexivity. }
  destruct (hdr + lenN (sockaddr_in6 e a p flow scope) <=? room).
  - unfold sockaddr_in6. exact (cmsg6 e a p flow scope [] [] Ha Hf Hp eq_refl).
  - rewrite E, takeN_app_ge by lia. rewrite <- !app_assoc.
    exact (cmsg6 e a p flow _ [] [] Ha Hf Hp eq_refl).
Qed.

(* ... and the kernel reports MSG_CTRUNC for EVERY such datagram when the data room is below 28 bytes:
   the flag says nothing about whether the destination could be read *)
Lemma cmsg6_kernel_ctrunc e a p flow scope hdr al room : length a = 16%nat -> length flow = 4%nat ->
  length scope = 4%nat -> hdr <= room -> room < hdr + 28 ->
  snd (recv_udp_kernel e hdr al room [(SOL_IPV6, IPV6_ORIGDSTADDR, sockaddr_in6 e a p flow scope)]) = true.
Proof.
  intros Ha Hf Hs H1 H2. unfold recv_udp_kernel. cbn [put_cmsgs snd].
  replace (room <? hdr) with false by lia.
  assert (L : lenN (sockaddr_in6 e a p flow scope) = 28).
  { unfold sockaddr_in6. rewrite !lenN_app, lenN_native_u16, lenN_put_u16, (lenN_len a 16 Ha), (lenN_len flow 4 Hf),
      (lenN_len scope 4 Hs). reflexivity. }
  rewrite L. replace (hdr + 28 <=? room) with false by lia. reflexivity.
Qed.

(* ================================================================== *)
(* 7. CONNECT payload and UDP header                                   *)

Lemma is_ascii7_app a b : is_ascii7 (a ++ b) = is_ascii7 a && is_ascii7 b.
Proof. apply forallb_app. Qed.

Lemma is_ascii7_dec n : is_ascii7 (dec n) = true.
Proof. apply is_ascii7_Forall, addr_ascii, dec_addr_ch. Qed.

Lemma dec_no_comma n : ~ In COMMA (dec n).
Proof. apply addr_no_comma, dec_addr_ch. Qed.

Lemma splitn2 a b c : ~ In COMMA a -> ~ In COMMA b ->
  splitn 2 COMMA (a ++ COMMA :: b ++ COMMA :: c) = [a; b; c].
Proof. intros Ha Hb. cbn [splitn]. rewrite (cut_app COMMA a _ Ha). rewrite (cut_app COMMA b _ Hb). reflexivity. Qed.

Lemma ZofN_eqb2 fam : (Z.of_N fam =? 2)%Z = (fam =? 2).
Proof. destruct (fam =? 2) eqn:E; lia. Qed.

Lemma new_channel_connect fam ip port : ~ In COMMA ip -> is_ascii7 ip = true ->
  new_channel (connect_payload fam ip port)
  = Ok (if fam =? 2 then FamV4 else FamV6, ip, Z.of_N port).
Proof.
  intros Hc Ha. unfold new_channel, connect_payload.
  replace (is_ascii7 (dec fam ++ COMMA :: ip ++ COMMA :: dec port)) with true.
  2:{ symmetry. rewrite is_ascii7_app, is_ascii7_dec.
      change (COMMA :: ip ++ COMMA :: dec port) with ([COMMA] ++ ip ++ [COMMA] ++ dec port).
      rewrite !is_ascii7_app, Ha, is_ascii7_dec. reflexivity. }
  cbn [negb]. rewrite (splitn2 _ _ _ (dec_no_comma fam) Hc).
  rewrite !py_int_dec. rewrite ZofN_eqb2. reflexivity.
Qed.

Lemma udp_req_frame ip port payload : ~ In COMMA ip ->
  udp_req (udp_frame ip port payload) = Ok (ip, Z.of_N port, payload).
Proof.
  intros Hc. unfold udp_req, udp_frame.
  rewrite (splitn2 _ _ _ Hc (dec_no_comma port)). rewrite py_int_dec. reflexivity.
Qed.

(* ================================================================== *)
(* 8. pf dialogue                                                      *)

Definition line_chb (c : ascii) : bool :=
  (N_of_ascii c <? 128) && negb (Ascii.eqb c NL).

Lemma addr_line c : addr_ch c -> line_chb c = true.
Proof.
  intros H. unfold line_chb. rewrite (addr_ch_ascii c H).
  destruct (Ascii.eqb c NL) eqn:E; [|reflexivity].
  apply Ascii.eqb_eq in E. exfalso. exact (addr_ch_not_nl c H E).
Qed.

Lemma addr_line_all s : Forall addr_ch s -> Forall (fun c => line_chb c = true) s.
Proof. apply Forall_impl. apply addr_line. Qed.

Lemma forallb_Forall {A} (f : A -> bool) l : forallb f l = true -> Forall (fun x => f x = true) l.
Proof. intros H. apply Forall_forall. apply forallb_forall. exact H. Qed.

Lemma line_facts s : Forall (fun c => line_chb c = true) s ->
  is_ascii7 s = true /\ ~ In NL s.
Proof.
  intros H. split.
  - apply is_ascii7_Forall. eapply Forall_impl; [|exact H]. intros c Hc. unfold line_chb in Hc.
    destruct (N_of_ascii c <? 128); [reflexivity|discriminate].
  - intros Hi. rewrite Forall_forall in H. specialize (H _ Hi). unfold line_chb in H.
    rewrite Ascii.eqb_refl in H. rewrite andb_false_r in H. discriminate.
Qed.

Lemma rev_app_last {A} (a b : list A) : b <> [] -> exists d r', rev (a ++ b) = d :: r' /\ In d b.
Proof.
  intros Hb. rewrite rev_app_distr. destruct (rev b) as [|d l] eqn:E.
  - exfalso. apply Hb. rewrite <- (rev_involutive b), E. reflexivity.
  - exists d, (l ++ rev a). split; [reflexivity|]. apply in_rev. rewrite E. left. reflexivity.
Qed.

(* strip() of a line whose first and last characters are not white space *)
Lemma strip_by_nl_ends ws s c r d r' : s = c :: r -> rev s = d :: r' ->
  ws c = false -> ws d = false -> ws NL = true -> strip_by ws (s ++ [NL]) = s.
Proof.
  intros Es Er Hc Hd Hnl. unfold strip_by.
  assert (E1 : lstrip ws (s ++ [NL]) = s ++ [NL]) by (rewrite Es; cbn [app lstrip]; rewrite Hc; reflexivity).
  rewrite E1, rev_app_distr. cbn [rev app lstrip]. rewrite Hnl, Er. cbn [lstrip]. rewrite Hd.
  rewrite <- Er. apply rev_involutive.
Qed.

Lemma readline_whole : forall body limit rest, ~ In NL body -> (length body < limit)%nat ->
  readline_lim limit (body ++ NL :: rest) = (body ++ [NL], rest).
Proof.
  induction body as [|c body IH]; intros limit rest Hn Hl.
  - destruct limit; [cbn in Hl; lia|]. cbn [app readline_lim]. rewrite Ascii.eqb_refl. reflexivity.
  - destruct limit; [cbn in Hl; lia|]. cbn [app readline_lim].
    destruct (Ascii.eqb c NL) eqn:E.
    + apply Ascii.eqb_eq in E. subst. exfalso. apply Hn. left. reflexivity.
    + rewrite IH; [reflexivity| |cbn [length] in Hl; lia].
      intros Hi. apply Hn. right. exact Hi.
Qed.

Lemma readline_all_whole : forall body rest, ~ In NL body ->
  readline_all (body ++ NL :: rest) = (body ++ [NL], rest).
Proof.
  induction body as [|c body IH]; intros rest Hn.
  - cbn [app readline_all]. rewrite Ascii.eqb_refl. reflexivity.
  - cbn [app readline_all]. destruct (Ascii.eqb c NL) eqn:E.
    + apply Ascii.eqb_eq in E. subst. exfalso. apply Hn. left. reflexivity.
    + rewrite IH; [reflexivity|]. intros Hi. apply Hn. right. exact Hi.
Qed.

(* a reader that does not cut lines of up to 128 bytes *)
Definition limit_ok (lim : option nat) : Prop :=
  match lim with None => True | Some k => (128 <= k)%nat end.

Lemma readline_opt_whole lim body rest : limit_ok lim -> ~ In NL body -> (length body < 128)%nat ->
  readline_opt lim (body ++ NL :: rest) = (body ++ [NL], rest).
Proof.
  intros Hl Hn Hb. destruct lim as [k|]; cbn [readline_opt].
  - apply readline_whole; [exact Hn|]. cbn [limit_ok] in Hl. lia.
  - apply readline_all_whole. exact Hn.
Qed.

Lemma readline_limit_code_ok : limit_ok readline_limit_code.
Proof. unfold limit_ok, readline_limit_code. cbn. first [exact I | lia]. Qed.

Lemma starts_with_app p x : starts_with p (p ++ x) = true.
Proof. induction p as [|a p IH]; [destruct x; reflexivity|]. cbn [app starts_with]. rewrite Ascii.eqb_refl. exact IH. Qed.

Lemma starts_with_failure x : starts_with s_SUCCESS (s_FAILURE ++ x) = false.
Proof. reflexivity. Qed.

Definition pf_body (fam : N) (pt : bytes) (pp : N) (xt : bytes) (xp : N) : bytes :=
  s_QUERY ++ dec fam ++ COMMA :: dec IPPROTO_TCP ++ COMMA :: pt ++ COMMA :: dec pp
    ++ COMMA :: xt ++ COMMA :: dec xp.

Lemma app_cons_assoc {A} (a : list A) c b r : (a ++ c :: b) ++ r = a ++ c :: (b ++ r).
Proof. rewrite <- app_assoc. reflexivity. Qed.

Lemma pf_request_body fam pt pp xt xp :
  pf_request fam (pt, pp) (xt, xp) = pf_body fam pt pp xt xp ++ [NL].
Proof.
  unfold pf_request, pf_body. cbn [fst snd].
  repeat (rewrite <- app_comm_cons || rewrite <- app_assoc). reflexivity.
Qed.

Lemma pf_body_line fam pt pp xt xp : Forall addr_ch pt -> Forall addr_ch xt ->
  Forall (fun c => line_chb c = true) (pf_body fam pt pp xt xp).
Proof.
  intros Hp Hx. unfold pf_body.
  assert (HC : line_chb COMMA = true) by reflexivity.
  apply Forall_app_intro; [apply forallb_Forall; reflexivity|].
  apply Forall_app_intro; [apply addr_line_all, dec_addr_ch|]. constructor; [exact HC|].
  apply Forall_app_intro; [apply addr_line_all, dec_addr_ch|]. constructor; [exact HC|].
  apply Forall_app_intro; [apply addr_line_all, Hp|]. constructor; [exact HC|].
  apply Forall_app_intro; [apply addr_line_all, dec_addr_ch|]. constructor; [exact HC|].
  apply Forall_app_intro; [apply addr_line_all, Hx|]. constructor; [exact HC|].
  apply addr_line_all, dec_addr_ch.
Qed.

Lemma pf_body_len fam pt pp xt xp : fam < 65536 -> pp < 65536 -> xp < 65536 ->
  (length pt <= 43)%nat -> (length xt <= 43)%nat ->
  (length (pf_body fam pt pp xt xp) <= 127)%nat.
Proof.
  intros Hf Hpp Hxp Hpt Hxt. unfold pf_body.
  repeat (rewrite app_length; cbn [length]).
  change (length s_QUERY) with 13%nat. change (length (dec IPPROTO_TCP)) with 1%nat.
  pose proof (dec_len5 fam Hf). pose proof (dec_len5 pp Hpp). pose proof (dec_len5 xp Hxp). lia.
Qed.

Lemma pf_body_ends fam pt pp xt xp : exists c r d r',
  pf_body fam pt pp xt xp = c :: r /\ rev (pf_body fam pt pp xt xp) = d :: r' /\
  is_ws_str c = false /\ is_ws_str d = false.
Proof.
  assert (E : pf_body fam pt pp xt xp
              = (s_QUERY ++ dec fam ++ COMMA :: dec IPPROTO_TCP ++ COMMA :: pt ++ COMMA :: dec pp
                   ++ COMMA :: xt ++ [COMMA]) ++ dec xp).
  { unfold pf_body. repeat (rewrite <- app_comm_cons || rewrite <- app_assoc). reflexivity. }
  destruct (rev_app_last (s_QUERY ++ dec fam ++ COMMA :: dec IPPROTO_TCP ++ COMMA :: pt ++ COMMA :: dec pp
                   ++ COMMA :: xt ++ [COMMA]) (dec xp) (dec_nonnil xp)) as (d & r' & Hr & Hd).
  rewrite <- E in Hr.
  exists (ch 81). eexists. exists d, r'. split; [|split; [exact Hr|split; [reflexivity|]]].
  - unfold pf_body, s_QUERY. cbn [map app]. reflexivity.
  - pose proof (dec_addr_ch xp) as HF. rewrite Forall_forall in HF. apply addr_ch_not_ws. apply HF. exact Hd.
Qed.

Lemma pf_fields fam pt pp xt xp : Forall addr_ch pt -> Forall addr_ch xt ->
  split_on COMMA (dropN 13 (pf_body fam pt pp xt xp))
  = [dec fam; dec IPPROTO_TCP; pt; dec pp; xt; dec xp].
Proof.
  intros Hp Hx. unfold pf_body.
  change 13 with (lenN s_QUERY). rewrite dropN_app_exact.
  rewrite (split_on_app COMMA _ _ (dec_no_comma fam)).
  rewrite (split_on_app COMMA _ _ (dec_no_comma IPPROTO_TCP)).
  rewrite (split_on_app COMMA _ _ (addr_no_comma pt Hp)).
  rewrite (split_on_app COMMA _ _ (dec_no_comma pp)).
  rewrite (split_on_app COMMA _ _ (addr_no_comma xt Hx)).
  rewrite (split_on_nosep COMMA _ (dec_no_comma xp)). reflexivity.
Qed.

(* the helper, reading the client's request through readline(128), performs
   exactly the look-up the client asked for *)
Lemma helper_step_request fam6 lim fam kernel pt pp xt xp pa xa rest : limit_ok lim ->
  fam < 65536 -> pp < 65536 -> xp < 65536 ->
  Forall addr_ch pt -> Forall addr_ch xt -> (length pt <= 43)%nat -> (length xt <= 43)%nat ->
  (fam = 2 \/ fam = fam6) ->
  inet_pton fam6 (Z.of_N fam) pt = Some pa -> inet_pton fam6 (Z.of_N fam) xt = Some xa ->
  let q := mkNatQuery (Z.of_N fam) 6 pa (Z.of_N pp) xa (Z.of_N xp) in
  helper_step fam6 lim kernel (pf_request fam (pt, pp) (xt, xp) ++ rest)
  = TOut (match kernel q with
          | NatFound ra rp => HReply (Some q) (s_SUCCESS ++ fmt_by_len ra ++ COMMA :: dec rp ++ [NL])
          | NatError m => HReply (Some q) (s_FAILURE ++ m ++ [NL])
          end) rest.
Proof.
  intros Hlim Hf Hpp Hxp Hpt Hxt Lpt Lxt Hfam Ip Ix q.
  rewrite pf_request_body. set (body := pf_body fam pt pp xt xp).
  pose proof (pf_body_line fam pt pp xt xp Hpt Hxt) as HL. fold body in HL.
  destruct (line_facts body HL) as (Hasc & Hnl).
  destruct (pf_body_ends fam pt pp xt xp) as (c0 & r0 & d0 & r0' & Eb & Er & Hc0 & Hd0). fold body in Eb, Er.
  pose proof (pf_body_len fam pt pp xt xp Hf Hpp Hxp Lpt Lxt) as Hlen. fold body in Hlen.
  unfold helper_step. rewrite <- app_assoc. cbn [app].
  rewrite (readline_opt_whole lim body rest Hlim Hnl) by lia.
  destruct (body ++ [NL]) eqn:EB; [apply app_eq_nil in EB; destruct EB; discriminate|]. rewrite <- EB.
  rewrite is_ascii7_app, Hasc. change (is_ascii7 [NL]) with true. cbn [andb negb].
  unfold strip_str. rewrite (strip_by_nl_ends is_ws_str body c0 r0 d0 r0' Eb Er Hc0 Hd0 eq_refl).
  destruct body eqn:EB2; [discriminate Eb|]. rewrite <- EB2. clear EB EB2 Eb Er.
  unfold firewall_command. subst body.
  replace (starts_with s_QUERY (pf_body fam pt pp xt xp)) with true
    by (symmetry; unfold pf_body; apply starts_with_app).
  cbn [negb]. rewrite (pf_fields fam pt pp xt xp Hpt Hxt).
  rewrite !py_int_dec.
  replace ((-2147483648 <=? Z.of_N fam)%Z && (Z.of_N fam <=? 2147483647)%Z) with true by lia.
  cbn [negb].
  replace ((Z.of_N fam =? 2)%Z || (Z.of_N fam =? Z.of_N fam6)%Z) with true by lia.
  cbn [negb]. rewrite Ip, Ix.
  replace (port_ok (Z.of_N pp) && port_ok (Z.of_N xp)) with true by (unfold port_ok; lia).
  cbn [negb]. change (Z.of_N IPPROTO_TCP mod 256)%Z with 6%Z. fold q.
  destruct (kernel q); reflexivity.
Qed.

Lemma pf_reply_success t rp sn : Forall addr_ch t ->
  pf_reply_decode (s_SUCCESS ++ t ++ COMMA :: dec rp ++ [NL]) sn = Ok (t, Z.of_N rp).
Proof.
  intros Ht. unfold pf_reply_decode.
  replace (is_ascii7 (s_SUCCESS ++ t ++ COMMA :: dec rp ++ [NL])) with true.
  2:{ symmetry. rewrite is_ascii7_app.
      change (COMMA :: dec rp ++ [NL]) with ([COMMA] ++ dec rp ++ [NL]).
      rewrite !is_ascii7_app, is_ascii7_dec, (is_ascii7_Forall t (addr_ascii t Ht)). reflexivity. }
  cbn [negb]. rewrite starts_with_app.
  change 21 with (lenN s_SUCCESS). rewrite dropN_app_exact.
  rewrite (split_on_app COMMA _ _ (addr_no_comma t Ht)).
  rewrite split_on_nosep.
  2:{ intros Hi. apply in_app_or in Hi. destruct Hi as [Hi | [Hi | []]]; [exact (dec_no_comma rp Hi)|discriminate Hi]. }
  rewrite py_int_dec_nl. reflexivity.
Qed.

Lemma pf_reply_failure m sn : is_ascii7 m = true ->
  pf_reply_decode (s_FAILURE ++ m ++ [NL]) sn = Ok (fst sn, Z.of_N (snd sn)).
Proof.
  intros Hm. unfold pf_reply_decode.
  rewrite !is_ascii7_app, Hm. change (is_ascii7 s_FAILURE) with true. change (is_ascii7 [NL]) with true.
  cbn [andb negb]. rewrite starts_with_failure. reflexivity.
Qed.

Lemma fmt_by_len_addr_ch ra : length ra = 4%nat \/ length ra = 16%nat -> Forall addr_ch (fmt_by_len ra).
Proof.
  intros [H | H]; unfold fmt_by_len, lenN; rewrite H.
  - change (N.of_nat 4 =? 4) with true. apply fmt4_addr_ch.
  - change (N.of_nat 16 =? 4) with false. apply fmt6_ntop_addr_ch. exact H.
Qed.

Lemma pf_get_success fam6 lim fam kernel pt pp xt xp pa xa ra rp :
  limit_ok lim -> fam < 65536 -> pp < 65536 -> xp < 65536 ->
  Forall addr_ch pt -> Forall addr_ch xt -> (length pt <= 43)%nat -> (length xt <= 43)%nat ->
  (fam = 2 \/ fam = fam6) ->
  inet_pton fam6 (Z.of_N fam) pt = Some pa -> inet_pton fam6 (Z.of_N fam) xt = Some xa ->
  kernel (mkNatQuery (Z.of_N fam) 6 pa (Z.of_N pp) xa (Z.of_N xp)) = NatFound ra rp ->
  (length ra = 4%nat \/ length ra = 16%nat) ->
  pf_get_tcp_dstip fam6 fam lim kernel (inl (pt, pp)) (xt, xp) = Ok (fmt_by_len ra, Z.of_N rp).
Proof.
  intros Hlim Hf Hpp Hxp Hpt Hxt Lpt Lxt Hfam Ip Ix Hk Hra.
  pose proof (helper_step_request fam6 lim fam kernel pt pp xt xp pa xa [] Hlim Hf Hpp Hxp Hpt Hxt Lpt Lxt Hfam Ip Ix) as H.
  cbv zeta in H. rewrite app_nil_r in H. unfold pf_get_tcp_dstip. rewrite H, Hk.
  apply pf_reply_success. apply fmt_by_len_addr_ch. exact Hra.
Qed.

Lemma pf_get_failure fam6 lim fam kernel pt pp xt xp pa xa m :
  limit_ok lim -> fam < 65536 -> pp < 65536 -> xp < 65536 ->
  Forall addr_ch pt -> Forall addr_ch xt -> (length pt <= 43)%nat -> (length xt <= 43)%nat ->
  (fam = 2 \/ fam = fam6) ->
  inet_pton fam6 (Z.of_N fam) pt = Some pa -> inet_pton fam6 (Z.of_N fam) xt = Some xa ->
  kernel (mkNatQuery (Z.of_N fam) 6 pa (Z.of_N pp) xa (Z.of_N xp)) = NatError m ->
  is_ascii7 m = true ->
  pf_get_tcp_dstip fam6 fam lim kernel (inl (pt, pp)) (xt, xp) = Ok (xt, Z.of_N xp).
Proof.
  intros Hlim Hf Hpp Hxp Hpt Hxt Lpt Lxt Hfam Ip Ix Hk Hm.
  pose proof (helper_step_request fam6 lim fam kernel pt pp xt xp pa xa [] Hlim Hf Hpp Hxp Hpt Hxt Lpt Lxt Hfam Ip Ix) as H.
  cbv zeta in H. rewrite app_nil_r in H. unfold pf_get_tcp_dstip. rewrite H, Hk.
  apply (pf_reply_failure m (xt, xp) Hm).
Qed.

Lemma pf_request_len fam pt pp xt xp : fam < 65536 -> pp < 65536 -> xp < 65536 ->
  (length pt <= 43)%nat -> (length xt <= 43)%nat ->
  (length (pf_request fam (pt, pp) (xt, xp)) <= 128)%nat.
Proof.
  intros Hf Hpp Hxp Lpt Lxt. rewrite pf_request_body, app_length. cbn [length].
  pose proof (pf_body_len fam pt pp xt xp Hf Hpp Hxp Lpt Lxt). lia.
Qed.

Lemma inet_pton_v6 fam6 a : fam6 <> 2 -> length a = 16%nat ->
  inet_pton fam6 (Z.of_N fam6) (fmt6_ntop a) = Some a.
Proof.
  intros Hn Ha. unfold inet_pton.
  replace (Z.of_N fam6 =? 2)%Z with false by lia. rewrite Z.eqb_refl. apply parse6_fmt6_ntop. exact Ha.
Qed.

Lemma inet_pton_v4 fam6 a : length a = 4%nat -> inet_pton fam6 2 (fmt4 a) = Some a.
Proof. intros Ha. unfold inet_pton. cbn [Z.eqb Pos.eqb]. apply parse4_fmt4. exact Ha. Qed.

(* ================================================================== *)
(* 9. guard and composition                                            *)

Lemma self_guard_iff islocal fam dst lp chan :
  onaccept_tcp islocal fam dst lp chan = AccDropSelf <-> (snd dst = lp /\ islocal (fst dst) = true).
Proof.
  unfold onaccept_tcp, self_guard.
  destruct (snd dst =? lp) eqn:E; destruct (islocal (fst dst)) eqn:I; cbn [andb].
  - apply N.eqb_eq in E. split; [intros _; split; [exact E|reflexivity]|reflexivity].
  - split; [|intros [_ H]; discriminate H]. destruct chan as [[|c]|]; discriminate.
  - apply N.eqb_neq in E. split; [|intros [H _]; contradiction]. destruct chan as [[|c]|]; discriminate.
  - split; [|intros [_ H]; discriminate H]. destruct chan as [[|c]|]; discriminate.
Qed.

Lemma onaccept_connect islocal fam (ip : bytes) port lp chan : chan <> 0 ->
  onaccept_tcp islocal fam (ip, port) lp (Some chan)
  = if (port =? lp) && islocal ip then AccDropSelf else AccConnect chan (connect_payload fam ip port).
Proof.
  intros Hc. unfold onaccept_tcp, self_guard. cbn [fst snd].
  destruct ((port =? lp) && islocal ip); [reflexivity|]. destruct chan; [contradiction|reflexivity].
Qed.

Lemma e2e_text_ok islocal fam (ip : bytes) port lp chan : chan <> 0 -> Forall addr_ch ip ->
  e2e_text islocal fam (ip, port) lp chan
  = if (port =? lp) && islocal ip then Ok None
    else Ok (Some (if fam =? 2 then FamV4 else FamV6, ip, Z.of_N port)).
Proof.
  intros Hc Hip. unfold e2e_text. rewrite (onaccept_connect islocal fam ip port lp chan Hc).
  destruct ((port =? lp) && islocal ip); [reflexivity|].
  rewrite new_channel_connect; [reflexivity|apply addr_no_comma, Hip|apply is_ascii7_Forall, addr_ascii, Hip].
Qed.

Lemma e2e_nat_ok islocal fam gso (ip : bytes) port (snip : bytes) lp chan : chan <> 0 -> Forall addr_ch ip ->
  original_dst fam gso (snip, lp) = Ok (ip, port) ->
  e2e_nat islocal fam gso (snip, lp) chan
  = if (port =? lp) && islocal ip then Ok None
    else Ok (Some (if fam =? 2 then FamV4 else FamV6, ip, Z.of_N port)).
Proof.
  intros Hc Hip Ho. unfold e2e_nat. rewrite Ho. cbv beta iota. cbn [snd].
  rewrite (onaccept_connect islocal fam ip port lp chan Hc).
  destruct ((port =? lp) && islocal ip); [reflexivity|].
  rewrite new_channel_connect; [reflexivity|apply addr_no_comma, Hip|apply is_ascii7_Forall, addr_ascii, Hip].
Qed.

Lemma e2e_udp_ok e anc (ip : bytes) port payload : Forall addr_ch ip ->
  recv_udp_dst e anc = Ok (Some (ip, port)) ->
  e2e_udp e anc payload = Ok (Some (ip, Z.of_N port, payload)).
Proof.
  intros Hip Hr. unfold e2e_udp. rewrite Hr. cbv beta iota. cbn [fst snd].
  rewrite udp_req_frame; [reflexivity|apply addr_no_comma, Hip].
Qed.

(* ================================================================== *)
(* 10. statements used by Props/C05.v                                  *)

(* t is the text CPython's getsockname()/getpeername() (inet_ntop) gives for the
   raw address a in family fam; fam6 is the platform's AF_INET6 *)
Definition addr_text (fam6 fam : N) (a t : bytes) : Prop :=
  (fam = 2 /\ length a = 4%nat /\ t = fmt4 a) \/
  (fam = fam6 /\ fam6 <> 2 /\ length a = 16%nat /\ t = fmt6_ntop a).

Lemma addr_text_facts fam6 fam a t : addr_text fam6 fam a t ->
  Forall addr_ch t /\ (length t <= 43)%nat /\ inet_pton fam6 (Z.of_N fam) t = Some a /\ (fam = 2 \/ fam = fam6).
Proof.
  intros [(-> & Ha & ->) | (-> & Hn & Ha & ->)].
  - split; [apply fmt4_addr_ch|]. split; [apply fmt4_len4, Ha|]. split; [apply inet_pton_v4, Ha|left; reflexivity].
  - split; [apply fmt6_ntop_addr_ch, Ha|]. split; [apply fmt6_ntop_len, Ha|].
    split; [apply inet_pton_v6; assumption|right; reflexivity].
Qed.

Lemma pf_fits fam6 fam pa pt pp xa xt xp : fam < 65536 -> pp < 65536 -> xp < 65536 ->
  addr_text fam6 fam pa pt -> addr_text fam6 fam xa xt ->
  (length (pf_request fam (pt, pp) (xt, xp)) <= 128)%nat.
Proof.
  intros Hf Hpp Hxp Tp Tx.
  destruct (addr_text_facts _ _ _ _ Tp) as (_ & Lp & _). destruct (addr_text_facts _ _ _ _ Tx) as (_ & Lx & _).
  apply pf_request_len; assumption.
Qed.

Lemma pf_query_roundtrip fam6 lim fam kernel pa pt pp xa xt xp rest : limit_ok lim ->
  fam < 65536 -> pp < 65536 -> xp < 65536 ->
  addr_text fam6 fam pa pt -> addr_text fam6 fam xa xt ->
  let q := mkNatQuery (Z.of_N fam) 6 pa (Z.of_N pp) xa (Z.of_N xp) in
  helper_step fam6 lim kernel (pf_request fam (pt, pp) (xt, xp) ++ rest)
  = TOut (match kernel q with
          | NatFound ra rp => HReply (Some q) (s_SUCCESS ++ fmt_by_len ra ++ COMMA :: dec rp ++ [NL])
          | NatError m => HReply (Some q) (s_FAILURE ++ m ++ [NL])
          end) rest.
Proof.
  intros Hlim Hf Hpp Hxp Tp Tx.
  destruct (addr_text_facts _ _ _ _ Tp) as (Cp & Lp & Ip & Hfam).
  destruct (addr_text_facts _ _ _ _ Tx) as (Cx & Lx & Ix & _).
  apply helper_step_request; assumption.
Qed.

Lemma pf_dialogue_success fam6 lim fam kernel pa pt pp xa xt xp ra rp : limit_ok lim ->
  fam < 65536 -> pp < 65536 -> xp < 65536 ->
  addr_text fam6 fam pa pt -> addr_text fam6 fam xa xt ->
  kernel (mkNatQuery (Z.of_N fam) 6 pa (Z.of_N pp) xa (Z.of_N xp)) = NatFound ra rp ->
  (length ra = 4%nat \/ length ra = 16%nat) ->
  pf_get_tcp_dstip fam6 fam lim kernel (inl (pt, pp)) (xt, xp) = Ok (fmt_by_len ra, Z.of_N rp).
Proof.
  intros Hlim Hf Hpp Hxp Tp Tx Hk Hra.
  destruct (addr_text_facts _ _ _ _ Tp) as (Cp & Lp & Ip & Hfam).
  destruct (addr_text_facts _ _ _ _ Tx) as (Cx & Lx & Ix & _).
  eapply pf_get_success; eassumption.
Qed.

Lemma pf_dialogue_failure fam6 lim fam kernel pa pt pp xa xt xp m : limit_ok lim ->
  fam < 65536 -> pp < 65536 -> xp < 65536 ->
  addr_text fam6 fam pa pt -> addr_text fam6 fam xa xt ->
  kernel (mkNatQuery (Z.of_N fam) 6 pa (Z.of_N pp) xa (Z.of_N xp)) = NatError m ->
  is_ascii7 m = true ->
  pf_get_tcp_dstip fam6 fam lim kernel (inl (pt, pp)) (xt, xp) = Ok (xt, Z.of_N xp).
Proof.
  intros Hlim Hf Hpp Hxp Tp Tx Hk Hm.
  destruct (addr_text_facts _ _ _ _ Tp) as (Cp & Lp & Ip & Hfam).
  destruct (addr_text_facts _ _ _ _ Tx) as (Cx & Lx & Ix & _).
  eapply pf_get_failure; eassumption.
Qed.

Lemma fmt_by_len_4 a : length a = 4%nat -> fmt_by_len a = fmt4 a.
Proof. intros H. unfold fmt_by_len, lenN. rewrite H. reflexivity. Qed.
Lemma fmt_by_len_16 a : length a = 16%nat -> fmt_by_len a = fmt6_ntop a.
Proof. intros H. unfold fmt_by_len, lenN. rewrite H. reflexivity. Qed.

(* what connect_dst receives, per mechanism *)
Definition delivered (islocal : bytes -> bool) (fc : famclass) (t : bytes) (p lp : N)
  : result (option (famclass * bytes * Z)) :=
  if (p =? lp) && islocal t then Ok None else Ok (Some (fc, t, Z.of_N p)).

Lemma e2e_nat4 islocal e a p tail (snip : bytes) lp chan : length a = 4%nat -> p < 65536 -> chan <> 0 ->
  e2e_nat islocal AF_INET (inl (sockaddr_in e a p ++ tail)) (snip, lp) chan = delivered islocal FamV4 (fmt4 a) p lp.
Proof.
  intros Ha Hp Hc.
  rewrite (e2e_nat_ok islocal AF_INET _ (fmt4 a) p snip lp chan Hc (fmt4_addr_ch a)
             (original_dst_in e a p tail (snip, lp) Ha Hp)). reflexivity.
Qed.

Lemma e2e_nat6 islocal e a p flow scope tail (snip : bytes) lp chan :
  length a = 16%nat -> length flow = 4%nat -> p < 65536 -> chan <> 0 ->
  e2e_nat islocal AF_INET6 (inl (sockaddr_in6 e a p flow scope ++ tail)) (snip, lp) chan
  = delivered islocal FamV6 (fmt6 a) p lp.
Proof.
  intros Ha Hf Hp Hc.
  rewrite (e2e_nat_ok islocal AF_INET6 _ (fmt6 a) p snip lp chan Hc (fmt6_addr_ch a Ha)
             (original_dst_in6 e a p flow scope tail (snip, lp) Ha Hf Hp)). reflexivity.
Qed.

Lemma e2e_text4 islocal a p lp chan : chan <> 0 ->
  e2e_text islocal AF_INET (sockname4 a p) lp chan = delivered islocal FamV4 (fmt4 a) p lp.
Proof. intros Hc. unfold sockname4. rewrite (e2e_text_ok islocal AF_INET (fmt4 a) p lp chan Hc (fmt4_addr_ch a)). reflexivity. Qed.

Lemma e2e_text6 islocal fam a p lp chan : chan <> 0 -> fam <> 2 -> length a = 16%nat ->
  e2e_text islocal fam (sockname6 a p) lp chan = delivered islocal FamV6 (fmt6_ntop a) p lp.
Proof.
  intros Hc Hf Ha. unfold sockname6.
  rewrite (e2e_text_ok islocal fam (fmt6_ntop a) p lp chan Hc (fmt6_ntop_addr_ch a Ha)).
  replace (fam =? 2) with false by lia. reflexivity.
Qed.

Lemma e2e_udp4 e a p tail pre post payload : length a = 4%nat -> p < 65536 -> forallb cmsg_other pre = true ->
  e2e_udp e (pre ++ (SOL_IP, IP_ORIGDSTADDR, sockaddr_in e a p ++ tail) :: post) payload
  = Ok (Some (fmt4 a, Z.of_N p, payload)).
Proof.
  intros Ha Hp Hpre. apply e2e_udp_ok; [apply fmt4_addr_ch|]. apply cmsg4; assumption.
Qed.

Lemma e2e_udp6 e a p flow tail pre post payload : length a = 16%nat -> length flow = 4%nat -> p < 65536 ->
  forallb cmsg_other pre = true ->
  e2e_udp e (pre ++ (SOL_IPV6, IPV6_ORIGDSTADDR, native_u16 e AF_INET6 ++ put_u16 p ++ flow ++ a ++ tail) :: post) payload
  = Ok (Some (fmt6_ntop a, Z.of_N p, payload)).
Proof.
  intros Ha Hf Hp Hpre. apply e2e_udp_ok; [apply fmt6_ntop_addr_ch, Ha|]. apply cmsg6; assumption.
Qed.

Lemma fmt4_no_comma a : ~ In COMMA (fmt4 a).
Proof. apply addr_no_comma, fmt4_addr_ch. Qed.
Lemma fmt6_no_comma a : length a = 16%nat -> ~ In COMMA (fmt6 a).
Proof. intros H. apply addr_no_comma, fmt6_addr_ch, H. Qed.
Lemma fmt6_ntop_no_comma a : length a = 16%nat -> ~ In COMMA (fmt6_ntop a).
Proof. intros H. apply addr_no_comma, fmt6_ntop_addr_ch, H. Qed.
