(* Proofs/FwLife_lemmas.v — proofs about Model/FwLife.v (C04).
   Part 1: specification-side definitions (what a session owns, the state
   with those objects erased) and the invariance of everything else under
   every command the helper can issue. *)
From Coq Require Import String List NArith ZArith Ascii Bool Lia Arith.
From SV Require Import Lib.Bytes Model.FwLife.
Import ListNotations.

(* ------------------------------------------------------------------ *)
(* equality tests                                                       *)

Lemma rule_eqb_eq a b : rule_eqb a b = true <-> a = b.
Proof.
  revert b. induction a as [|x a IH]; intros [|y b]; simpl; split; intro H; try congruence; try discriminate.
  - apply andb_true_iff in H as [H1 H2]. apply bytes_eqb_eq in H1. apply IH in H2. congruence.
  - inversion H; subst. apply andb_true_iff. split; [apply bytes_eqb_refl | apply IH; reflexivity].
Qed.

Lemma rule_eqb_refl a : rule_eqb a a = true.
Proof. apply rule_eqb_eq. reflexivity. Qed.

Lemma bytes_eqb_neq a b : bytes_eqb a b = false <-> a <> b.
Proof.
  split; intro H.
  - intro E. apply bytes_eqb_eq in E. congruence.
  - destruct (bytes_eqb a b) eqn:E; [apply bytes_eqb_eq in E; contradiction | reflexivity].
Qed.

Lemma bytes_eqb_sym a b : bytes_eqb a b = bytes_eqb b a.
Proof.
  destruct (bytes_eqb a b) eqn:E.
  - apply bytes_eqb_eq in E. subst. symmetry. apply bytes_eqb_refl.
  - symmetry. apply bytes_eqb_neq. apply bytes_eqb_neq in E. congruence.
Qed.

(* ------------------------------------------------------------------ *)
(* what a session owns                                                   *)

Definition tmem (x : tok) (l : list tok) : bool := existsb (bytes_eqb x) l.

Definition owned_rule (cs : list tok) (r : rule) : bool :=
  match jump_target r with Some x => tmem x cs | None => false end.

Definition is_mark (mk : option rule) (b : tok) (r : rule) : bool :=
  match mk with Some m => bytes_eqb b bOUTPUT && rule_eqb r m | None => false end.

Definition keep_rule (cs : list tok) (mk : option rule) (b : tok) (r : rule) : bool :=
  negb (owned_rule cs r) && negb (is_mark mk b r).

(* a table without the chains named in cs, without the rules that jump to
   them, and without the session's MARK rule in OUTPUT *)
Definition erase_tbl (cs : list tok) (mk : option rule) (T : table) : table :=
  map (fun ch : chain => (fst ch, filter (keep_rule cs mk (fst ch)) (snd ch)))
      (filter (fun ch : chain => negb (tmem (fst ch) cs)) T).

Definition own_chains (c : cfg) (f : fam) (t : tbl) : list tok :=
  let p := fc_port (fcfg c f) in
  if fc_on (fcfg c f) then
    match c_method c, t with
    | MNat, TNat => [nat_chain p]
    | MTproxy, TMangle => [tp_mark p; tp_tproxy p; tp_divert p]
    | _, _ => []
    end
  else [].

Definition own_mark (c : cfg) (f : fam) (t : tbl) : option rule :=
  if fc_on (fcfg c f) then
    match c_method c, t, c_owner c with
    | MNat, TMangle, Some own => Some (nat_mark_rule own (fc_port (fcfg c f)))
    | _, _, _ => None
    end
  else None.

Definition own_nft (c : cfg) : list tok :=
  match c_method c with
  | MNft => (if fc_on (c_v6 c) then [nft_table V6 (fc_port (c_v6 c))] else []) ++
            (if fc_on (c_v4 c) then [nft_table V4 (fc_port (c_v4 c))] else [])
  | _ => []
  end.

Definition erase_nft (ns : list tok) (L : list nfttable) : list nfttable :=
  filter (fun nt : nfttable => negb (tmem (fst nt) ns)) L.

(* the kernel state without everything named for this session's ports *)
Definition erase (c : cfg) (s : kstate) : kstate :=
  mkK (erase_tbl (own_chains c V6 TNat) (own_mark c V6 TNat) (k_v6nat s))
      (erase_tbl (own_chains c V6 TMangle) (own_mark c V6 TMangle) (k_v6mangle s))
      (erase_tbl (own_chains c V4 TNat) (own_mark c V4 TNat) (k_v4nat s))
      (erase_tbl (own_chains c V4 TMangle) (own_mark c V4 TMangle) (k_v4mangle s))
      (erase_nft (own_nft c) (k_nft s))
      (k_pf s).

Definition own_iop (cs : list tok) (mk : option rule) (o : iop) : bool :=
  match o with
  | INew c | IFlush c | IDelChain c | IAppend c _ => tmem c cs
  | IInsert b r | IDelete b r => tmem b cs || owned_rule cs r || is_mark mk b r
  | IList => true
  end.

Definition nftop_table (o : nftop) : tok :=
  match o with
  | NAddTable t | NAddChain t _ _ | NFlushChain t _ | NAddRule t _ _ | NDeleteTable t | NCreateChain t _ _ => t
  end.

Definition own_cmd (c : cfg) (x : cmd) : bool :=
  match x with
  | Ipt f t o => own_iop (own_chains c f t) (own_mark c f t) o
  | Nft o => tmem (nftop_table o) (own_nft c)
  | Pf _ => false
  end.

(* ------------------------------------------------------------------ *)
(* erase is invariant under owned table commands                         *)

Section EraseTbl.
Variable cs : list tok.
Variable mk : option rule.

Lemma erase_set_chain_own c rs T :
  tmem c cs = true -> erase_tbl cs mk (set_chain c rs T) = erase_tbl cs mk T.
Proof.
  intro Hc. induction T as [|[n rs0] T IH]; [reflexivity|].
  simpl. destruct (bytes_eqb n c) eqn:E.
  - apply bytes_eqb_eq in E. subst n. unfold erase_tbl. simpl. rewrite Hc. reflexivity.
  - unfold erase_tbl in *. simpl. destruct (tmem n cs); simpl; rewrite IH; reflexivity.
Qed.

Lemma erase_del_chain_own c T :
  tmem c cs = true -> erase_tbl cs mk (del_chain c T) = erase_tbl cs mk T.
Proof.
  intro Hc. induction T as [|[n rs0] T IH]; [reflexivity|].
  simpl. destruct (bytes_eqb n c) eqn:E.
  - apply bytes_eqb_eq in E. subst n. unfold erase_tbl. simpl. rewrite Hc. reflexivity.
  - unfold erase_tbl in *. simpl. destruct (tmem n cs); simpl; rewrite IH; reflexivity.
Qed.

Lemma erase_app_own c T :
  tmem c cs = true -> erase_tbl cs mk (T ++ [(c, [])]) = erase_tbl cs mk T.
Proof.
  intro Hc. unfold erase_tbl. rewrite filter_app. simpl. rewrite Hc. simpl. rewrite app_nil_r. reflexivity.
Qed.

Lemma erase_set_chain_rules b rs0 rs' T :
  find_chain b T = Some rs0 ->
  filter (keep_rule cs mk b) rs' = filter (keep_rule cs mk b) rs0 ->
  erase_tbl cs mk (set_chain b rs' T) = erase_tbl cs mk T.
Proof.
  intros Hf Hr. induction T as [|[n rs1] T IH]; [reflexivity|].
  simpl in *. destruct (bytes_eqb n b) eqn:E.
  - apply bytes_eqb_eq in E. subst n. inversion Hf; subst rs1.
    unfold erase_tbl. simpl. destruct (tmem b cs); simpl; [reflexivity|]. rewrite Hr. reflexivity.
  - unfold erase_tbl in *. simpl. destruct (tmem n cs); simpl; rewrite (IH Hf); reflexivity.
Qed.

Lemma remove_first_filter (P : rule -> bool) r rs rs' :
  remove_first r rs = Some rs' -> P r = false -> filter P rs' = filter P rs.
Proof.
  revert rs'. induction rs as [|x rs IH]; intros rs' H Hp; simpl in H; [discriminate|].
  destruct (rule_eqb x r) eqn:E.
  - apply rule_eqb_eq in E. subst x. inversion H; subst. simpl. rewrite Hp. reflexivity.
  - destruct (remove_first r rs) as [l|] eqn:R; [|discriminate]. inversion H; subst.
    simpl. rewrite (IH l eq_refl Hp). reflexivity.
Qed.

Lemma tbl_exec_erase o T T' :
  own_iop cs mk o = true -> tbl_exec o T = Some T' -> erase_tbl cs mk T' = erase_tbl cs mk T.
Proof.
  intros Ho He. destruct o as [c|c|c|b r|c r|b r|]; simpl in *.
  - destruct (find_chain c T); [discriminate|]. inversion He; subst. apply erase_app_own; assumption.
  - destruct (find_chain c T); [|discriminate]. inversion He; subst. apply erase_set_chain_own; assumption.
  - destruct (find_chain c T) as [[|? ?]|]; try discriminate.
    destruct (referenced c T); [discriminate|]. inversion He; subst. apply erase_del_chain_own; assumption.
  - destruct (find_chain b T) as [rs|] eqn:F; [|discriminate]. inversion He; subst.
    destruct (tmem b cs) eqn:Hb; [apply erase_set_chain_own; assumption|].
    apply (erase_set_chain_rules b rs); [assumption|].
    simpl. unfold keep_rule at 1. simpl in Ho.
    destruct (owned_rule cs r); simpl; [reflexivity|]. simpl in Ho. rewrite Ho. reflexivity.
  - destruct (find_chain c T) as [rs|] eqn:F; [|discriminate]. inversion He; subst.
    apply erase_set_chain_own; assumption.
  - destruct (find_chain b T) as [rs|] eqn:F; [|discriminate].
    destruct (remove_first r rs) as [rs'|] eqn:R; [|discriminate]. inversion He; subst.
    destruct (tmem b cs) eqn:Hb; [apply erase_set_chain_own; assumption|].
    apply (erase_set_chain_rules b rs); [assumption|].
    apply (remove_first_filter _ r); [assumption|].
    unfold keep_rule. simpl in Ho. destruct (owned_rule cs r); simpl; [reflexivity|].
    simpl in Ho. rewrite Ho. reflexivity.
  - inversion He; subst. reflexivity.
Qed.
End EraseTbl.

(* ------------------------------------------------------------------ *)
(* nft                                                                   *)

Lemma erase_nft_set t T L ns :
  tmem t ns = true -> erase_nft ns (set_tbl t T L) = erase_nft ns L.
Proof.
  intro Ht. induction L as [|[n T0] L IH]; [reflexivity|].
  simpl. destruct (bytes_eqb n t) eqn:E.
  - apply bytes_eqb_eq in E. subst n. unfold erase_nft. simpl. rewrite Ht. reflexivity.
  - unfold erase_nft in *. simpl. destruct (tmem n ns); simpl; rewrite IH; reflexivity.
Qed.

Lemma erase_nft_del t L ns :
  tmem t ns = true -> erase_nft ns (del_tbl t L) = erase_nft ns L.
Proof.
  intro Ht. induction L as [|[n T0] L IH]; [reflexivity|].
  simpl. destruct (bytes_eqb n t) eqn:E.
  - apply bytes_eqb_eq in E. subst n. unfold erase_nft. simpl. rewrite Ht. reflexivity.
  - unfold erase_nft in *. simpl. destruct (tmem n ns); simpl; rewrite IH; reflexivity.
Qed.

Lemma nft_exec_erase ns o L L' :
  tmem (nftop_table o) ns = true -> nft_exec o L = Some L' -> erase_nft ns L' = erase_nft ns L.
Proof.
  intros Ht He. destruct o as [t|t c sp|t c|t c a|t|t c sp]; simpl in *.
  - destruct (find_tbl t L); inversion He; subst; [reflexivity|].
    unfold erase_nft. rewrite filter_app. simpl. rewrite Ht. simpl. apply app_nil_r.
  - destruct (find_tbl t L) as [T|]; [|discriminate].
    destruct (find_chain c T); inversion He; subst; [reflexivity|]. apply erase_nft_set; assumption.
  - destruct (find_tbl t L) as [T|]; [|discriminate].
    destruct (find_chain c T); inversion He; subst. apply erase_nft_set; assumption.
  - destruct (find_tbl t L) as [T|]; [|discriminate].
    destruct (find_chain c T); inversion He; subst. apply erase_nft_set; assumption.
  - destruct (find_tbl t L); inversion He; subst. apply erase_nft_del; assumption.
  - destruct (find_tbl t L) as [T|]; [|discriminate].
    destruct (find_chain c T); inversion He; subst. apply erase_nft_set; assumption.
Qed.

(* ------------------------------------------------------------------ *)
(* whole state                                                           *)

Lemma put_get_tbl f t s : put_tbl f t (get_tbl f t s) s = s.
Proof. destruct s, f, t; reflexivity. Qed.

Lemma exec_ipt_inv f t o s s' out err :
  exec (Ipt f t o) s = (Some s', out, err) ->
  exists T', tbl_exec o (get_tbl f t s) = Some T' /\ s' = put_tbl f t T' s.
Proof.
  intro He. destruct o; cbn [exec] in He;
    try (match type of He with context [tbl_exec ?o ?T] => destruct (tbl_exec o T) as [T'|] eqn:HT end;
         [|discriminate]; inversion He; subst; exists T'; split; [reflexivity | reflexivity]).
  inversion He; subst. exists (get_tbl f t s'). split; [reflexivity | symmetry; apply put_get_tbl].
Qed.

Lemma exec_ipt_fail f t o s out err :
  exec (Ipt f t o) s = (None, out, err) -> tbl_exec o (get_tbl f t s) = None.
Proof.
  intro He. destruct o; cbn [exec] in He;
    try (match type of He with context [tbl_exec ?o ?T] => destruct (tbl_exec o T) as [T'|] eqn:HT end;
         [discriminate | reflexivity]).
  discriminate.
Qed.

Lemma exec_erase c x s s' out err :
  own_cmd c x = true -> exec x s = (Some s', out, err) -> erase c s' = erase c s.
Proof.
  intros Ho He. destruct x as [f t o|o|o]; simpl in Ho; [| |discriminate].
  - apply exec_ipt_inv in He as (T' & HT & ->).
    pose proof (tbl_exec_erase _ _ _ _ _ Ho HT) as E.
    destruct f, t; unfold erase, put_tbl; simpl in *; rewrite E; reflexivity.
  - simpl in He. destruct (nft_exec o (k_nft s)) as [L|] eqn:HL; [|discriminate].
    inversion He; subst. unfold erase. simpl. rewrite (nft_exec_erase _ _ _ _ Ho HL). reflexivity.
Qed.

Lemma issue_erase c faults x n s ok out err s' :
  own_cmd c x = true -> issue faults x n s = (ok, out, err, s') -> erase c s' = erase c s.
Proof.
  intros Ho Hi. unfold issue in Hi. destruct (faults n); [inversion Hi; subst; reflexivity|].
  destruct (exec x s) as [[[s1|] o1] e1] eqn:E; inversion Hi; subst; [|reflexivity].
  eapply exec_erase; eassumption.
Qed.

(* every command event carries a state that agrees with s0 outside the session's objects *)
Definition ev_ok (c : cfg) (s0 : kstate) (e : event) : Prop :=
  match e with ECmd _ _ st => erase c st = erase c s0 | EMark _ => True end.

Definition sstep_cmd (x : sstep) : cmd := match x with Do y | Try y => y end.
Definition step_owned (c : cfg) (x : step) : bool :=
  match x with
  | Simple y => own_cmd c (sstep_cmd y)
  | IfChain f t name body => forallb (fun y => own_cmd c (sstep_cmd y)) body
  end.

Lemma run_sstep_erase c faults x n s ok n' s' ev s0 :
  own_cmd c (sstep_cmd x) = true -> erase c s = erase c s0 ->
  run_sstep faults x n s = (ok, n', s', ev) ->
  erase c s' = erase c s0 /\ Forall (ev_ok c s0) ev.
Proof.
  intros Ho Hs Hr. destruct x as [y|y]; simpl in *;
    destruct (issue faults y n s) as [[[ok1 o1] e1] s1] eqn:I; inversion Hr; subst;
    pose proof (issue_erase _ _ _ _ _ _ _ _ _ Ho I) as E; rewrite Hs in E;
    (split; [assumption | constructor; [exact E | constructor]]).
Qed.

Lemma run_ss_erase c faults xs : forall n s ok n' s' ev s0,
  forallb (fun y => own_cmd c (sstep_cmd y)) xs = true -> erase c s = erase c s0 ->
  run_ss faults xs n s = (ok, n', s', ev) ->
  erase c s' = erase c s0 /\ Forall (ev_ok c s0) ev.
Proof.
  induction xs as [|x xs IH]; intros n s ok n' s' ev s0 Ho Hs Hr; simpl in *.
  - inversion Hr; subst. split; [assumption|constructor].
  - apply andb_true_iff in Ho as [Hx Hxs].
    destruct (run_sstep faults x n s) as [[[ok1 n1] s1] ev1] eqn:R1.
    destruct (run_sstep_erase _ _ _ _ _ _ _ _ _ _ Hx Hs R1) as [E1 F1].
    destruct ok1.
    + destruct (run_ss faults xs n1 s1) as [[[ok2 n2] s2] ev2] eqn:R2.
      destruct (IH _ _ _ _ _ _ _ Hxs E1 R2) as [E2 F2].
      inversion Hr; subst. split; [assumption | apply Forall_app; split; assumption].
    + inversion Hr; subst. split; assumption.
Qed.

Lemma run_step_erase c faults x n s ok n' s' ev s0 :
  step_owned c x = true -> erase c s = erase c s0 ->
  run_step faults x n s = (ok, n', s', ev) ->
  erase c s' = erase c s0 /\ Forall (ev_ok c s0) ev.
Proof.
  intros Ho Hs Hr. destruct x as [y|f t name body]; simpl in *.
  - eapply run_sstep_erase; eassumption.
  - destruct (issue faults (Ipt f t IList) n s) as [[[ok1 o1] e1] s1] eqn:I.
    assert (E1 : erase c s1 = erase c s0).
    { rewrite <- Hs. eapply issue_erase; [|exact I]. reflexivity. }
    destruct ok1.
    + destruct (chain_in_listing name o1).
      * destruct (run_ss faults body (S n) s1) as [[[ok2 n2] s2] ev2] eqn:R2.
        destruct (run_ss_erase _ _ _ _ _ _ _ _ _ _ Ho E1 R2) as [E2 F2].
        inversion Hr; subst. split; [assumption | constructor; [exact E1 | assumption]].
      * inversion Hr; subst. split; [assumption | constructor; [exact E1 | constructor]].
    + inversion Hr; subst. split; [assumption | constructor; [exact E1 | constructor]].
Qed.

Lemma run_erase c faults xs : forall n s ok n' s' ev s0,
  forallb (step_owned c) xs = true -> erase c s = erase c s0 ->
  run faults xs n s = (ok, n', s', ev) ->
  erase c s' = erase c s0 /\ Forall (ev_ok c s0) ev.
Proof.
  induction xs as [|x xs IH]; intros n s ok n' s' ev s0 Ho Hs Hr; simpl in *.
  - inversion Hr; subst. split; [assumption|constructor].
  - apply andb_true_iff in Ho as [Hx Hxs].
    destruct (run_step faults x n s) as [[[ok1 n1] s1] ev1] eqn:R1.
    destruct (run_step_erase _ _ _ _ _ _ _ _ _ _ Hx Hs R1) as [E1 F1].
    destruct ok1.
    + destruct (run faults xs n1 s1) as [[[ok2 n2] s2] ev2] eqn:R2.
      destruct (IH _ _ _ _ _ _ _ Hxs E1 R2) as [E2 F2].
      inversion Hr; subst. split; [assumption | apply Forall_app; split; assumption].
    + inversion Hr; subst. split; assumption.
Qed.

(* ------------------------------------------------------------------ *)
(* Part 2: the helper's programs only issue owned commands; foreign objects are untouched *)

Arguments bytes_eqb : simpl never.
Arguments rule_eqb : simpl never.
Arguments nat_chain : simpl never.
Arguments tp_mark : simpl never.
Arguments tp_tproxy : simpl never.
Arguments tp_divert : simpl never.
Arguments nft_table : simpl never.
Arguments nat_mark_rule : simpl never.

Definition port_ok (p : tok) : bool := negb (bytes_eqb p (bs "-j")).

Definition ipt_table (c : cfg) : tbl := match c_method c with MTproxy => TMangle | _ => TNat end.

Definition body_wf (c : cfg) (f : fam) : bool :=
  match c_method c with
  | MNat | MTproxy =>
      forallb (fun cr : tok * rule => tmem (fst cr) (own_chains c f (ipt_table c))) (fc_body (fcfg c f))
  | _ => true
  end.

Definition cfg_wf (c : cfg) : bool :=
  body_wf c V6 && body_wf c V4 && port_ok (fc_port (c_v6 c)) && port_ok (fc_port (c_v4 c)).

Definition not_pf (c : cfg) : bool := match c_method c with MPf _ => false | _ => true end.

Lemma forallb_map {A B} (f : A -> B) (P : B -> bool) l :
  forallb P (map f l) = forallb (fun x => P (f x)) l.
Proof. induction l; simpl; congruence. Qed.

Lemma tmem_hd x l : tmem x (x :: l) = true.
Proof. unfold tmem. simpl. rewrite bytes_eqb_refl. reflexivity. Qed.

Lemma jump_target_j x : jump_target [bs "-j"; x] = Some x.
Proof. reflexivity. Qed.

Lemma jump_target_mark p x : port_ok p = true ->
  jump_target [bs "-m"; bs "mark"; bs "--mark"; p; bs "-j"; x] = Some x.
Proof.
  unfold port_ok. intro H. apply negb_true_iff in H.
  cbn -[bytes_eqb].
  change (bytes_eqb (bs "-m") (bs "-j")) with false.
  change (bytes_eqb (bs "mark") (bs "-j")) with false.
  change (bytes_eqb (bs "--mark") (bs "-j")) with false.
  cbn -[bytes_eqb]. rewrite H. reflexivity.
Qed.

Lemma port_ok_f c f : cfg_wf c = true -> port_ok (fc_port (fcfg c f)) = true.
Proof.
  unfold cfg_wf. intro H. repeat (apply andb_true_iff in H as [H ?]). destruct f; assumption.
Qed.

Lemma body_wf_f c f : cfg_wf c = true -> body_wf c f = true.
Proof.
  unfold cfg_wf. intro H. repeat (apply andb_true_iff in H as [H ?]). destruct f; assumption.
Qed.

Lemma owned_jump_nat own p : port_ok p = true ->
  owned_rule [nat_chain p] (nat_jump own p) = true.
Proof.
  intro Hp. unfold owned_rule, nat_jump. destruct own.
  - rewrite (jump_target_mark _ _ Hp). apply tmem_hd.
  - rewrite jump_target_j. apply tmem_hd.
Qed.

Lemma restore_owned c f :
  fc_on (fcfg c f) = true -> cfg_wf c = true -> not_pf c = true ->
  forallb (step_owned c) (restore_prog c f) = true.
Proof.
  intros Hon Hwf Hpf. pose proof (port_ok_f c f Hwf) as Hp.
  unfold restore_prog. destruct (c_method c) eqn:Hm; try discriminate.
  - (* nat *)
    unfold nat_restore. cbn [forallb step_owned]. rewrite andb_true_r. rewrite forallb_app.
    cbn [forallb sstep_cmd own_cmd own_iop]. unfold own_chains, own_mark. rewrite Hon, Hm.
    rewrite (owned_jump_nat _ _ Hp). rewrite tmem_hd. rewrite !orb_true_r. cbn [andb]. rewrite andb_true_r.
    destruct (c_owner c) as [own|] eqn:Ho; cbn [forallb sstep_cmd own_cmd own_iop]; [|reflexivity].
    unfold own_chains, own_mark. rewrite Hon, Hm, Ho. unfold is_mark. rewrite rule_eqb_refl.
    change (bytes_eqb bOUTPUT bOUTPUT) with true. rewrite !orb_true_r. reflexivity.
  - (* nft *)
    cbn [nft_restore forallb step_owned sstep_cmd own_cmd nftop_table]. unfold own_nft. rewrite Hm.
    destruct f; cbn [fcfg] in Hon; rewrite Hon.
    + unfold tmem. rewrite existsb_app. cbn [existsb]. rewrite bytes_eqb_refl. reflexivity.
    + unfold tmem. rewrite existsb_app. cbn [existsb]. rewrite bytes_eqb_refl. rewrite !orb_true_r. reflexivity.
  - (* tproxy *)
    unfold tproxy_restore.
    assert (H3 : forall x y z : tok, tmem x [x; y; z] = true /\ tmem y [x; y; z] = true /\ tmem z [x; y; z] = true).
    { intros. unfold tmem. cbn [existsb]. rewrite !bytes_eqb_refl. rewrite !orb_true_r. auto. }
    destruct (H3 (tp_mark (fc_port (fcfg c f))) (tp_tproxy (fc_port (fcfg c f))) (tp_divert (fc_port (fcfg c f))))
      as (T1 & T2 & T3).
    destruct (c_repaired c); cbn [forallb step_owned sstep_cmd own_cmd own_iop];
      unfold own_chains, own_mark; rewrite Hon, Hm; unfold owned_rule; rewrite !jump_target_j;
      rewrite T1, T2, T3; rewrite ?orb_true_r; reflexivity.
  - reflexivity.
Qed.

Lemma setup_owned c f :
  fc_on (fcfg c f) = true -> cfg_wf c = true -> not_pf c = true ->
  forallb (step_owned c) (setup_prog c f) = true.
Proof.
  intros Hon Hwf Hpf. pose proof (port_ok_f c f Hwf) as Hp. pose proof (body_wf_f c f Hwf) as Hb.
  pose proof (restore_owned c f Hon Hwf Hpf) as Hr.
  unfold setup_prog. unfold restore_prog in Hr. unfold body_wf, ipt_table in Hb.
  destruct (c_method c) eqn:Hm; try discriminate.
  - (* nat *)
    assert (Hoc : own_chains c f TNat = [nat_chain (fc_port (fcfg c f))])
      by (unfold own_chains; rewrite Hon, Hm; reflexivity).
    rewrite Hoc in Hb.
    unfold nat_setup. rewrite forallb_app. rewrite Hr. cbn [andb].
    rewrite forallb_map. rewrite !forallb_app. rewrite forallb_map.
    cbn [forallb step_owned sstep_cmd own_cmd own_iop fst].
    rewrite !Hoc, Hb. rewrite (owned_jump_nat _ _ Hp), tmem_hd. rewrite ?orb_true_r. cbn [orb andb].
    destruct (c_owner c) as [own|] eqn:Ho; cbn [forallb step_owned sstep_cmd own_cmd own_iop]; [|reflexivity].
    unfold own_mark. rewrite Hon, Hm, Ho. unfold is_mark. rewrite rule_eqb_refl.
    change (bytes_eqb bOUTPUT bOUTPUT) with true. rewrite ?orb_true_r. reflexivity.
  - (* nft *)
    unfold nft_setup. rewrite forallb_map. rewrite forallb_app. rewrite forallb_map.
    cbn [forallb step_owned sstep_cmd own_cmd nftop_table].
    assert (Ht : tmem (nft_table f (fc_port (fcfg c f))) (own_nft c) = true).
    { unfold own_nft. rewrite Hm. destruct f; cbn [fcfg] in *; rewrite Hon.
      - unfold tmem. rewrite existsb_app. cbn [existsb]. rewrite bytes_eqb_refl. reflexivity.
      - unfold tmem. rewrite existsb_app. cbn [existsb]. rewrite bytes_eqb_refl. rewrite !orb_true_r. reflexivity. }
    rewrite Ht. cbn [andb]. induction (fc_body (fcfg c f)); cbn [forallb]; [reflexivity|]. rewrite IHl. reflexivity.
  - (* tproxy *)
    unfold tproxy_setup. rewrite forallb_app. rewrite Hr. cbn [andb].
    rewrite forallb_map. rewrite !forallb_app. rewrite forallb_map.
    cbn [step_owned sstep_cmd own_cmd own_iop fst]. rewrite Hb. rewrite andb_true_r.
    assert (H3 : forall x y z : tok, tmem x [x; y; z] = true /\ tmem y [x; y; z] = true /\ tmem z [x; y; z] = true).
    { intros. unfold tmem. cbn [existsb]. rewrite !bytes_eqb_refl. rewrite !orb_true_r. auto. }
    destruct (H3 (tp_mark (fc_port (fcfg c f))) (tp_tproxy (fc_port (fcfg c f))) (tp_divert (fc_port (fcfg c f))))
      as (T1 & T2 & T3).
    cbn [forallb step_owned sstep_cmd own_cmd own_iop].
    unfold own_chains, own_mark; rewrite Hon, Hm; unfold owned_rule; rewrite !jump_target_j;
      rewrite T1, T2, T3; rewrite ?orb_true_r; reflexivity.
  - reflexivity.
Qed.

Lemma do_setup_erase c f faults py n s ok py' n' s' ev s0 :
  not_pf c = true -> cfg_wf c = true -> fc_on (fcfg c f) = true -> erase c s = erase c s0 ->
  do_setup faults c f py n s = (ok, py', n', s', ev) ->
  erase c s' = erase c s0 /\ Forall (ev_ok c s0) ev.
Proof.
  intros Hpf Hwf Hon Hs Hd. pose proof (setup_owned c f Hon Hwf Hpf) as Ho.
  unfold do_setup in Hd. unfold not_pf in Hpf.
  destruct (c_method c); try discriminate;
    (destruct (run faults (setup_prog c f) n s) as [[[ok1 n1] s1] ev1] eqn:R;
     inversion Hd; subst; eapply run_erase; eassumption).
Qed.

Lemma do_restore_erase c f faults py n s ok py' n' s' ev s0 :
  not_pf c = true -> cfg_wf c = true -> fc_on (fcfg c f) = true -> erase c s = erase c s0 ->
  do_restore faults c f py n s = (ok, py', n', s', ev) ->
  erase c s' = erase c s0 /\ Forall (ev_ok c s0) ev.
Proof.
  intros Hpf Hwf Hon Hs Hd. pose proof (restore_owned c f Hon Hwf Hpf) as Ho.
  unfold do_restore in Hd. unfold not_pf in Hpf.
  destruct (c_method c); try discriminate;
    (destruct (run faults (restore_prog c f) n s) as [[[ok1 n1] s1] ev1] eqn:R;
     inversion Hd; subst; eapply run_erase; eassumption).
Qed.

Lemma Forall_cons_mark c s0 m ev : Forall (ev_ok c s0) ev -> Forall (ev_ok c s0) (EMark m :: ev).
Proof. intro H. constructor; [exact I | exact H]. Qed.

Theorem session_foreign c cut faults s0 :
  not_pf c = true -> cfg_wf c = true ->
  Forall (ev_ok c s0) (r_events (session c cut faults s0)) /\
  erase c (r_final (session c cut faults s0)) = erase c s0.
Proof.
  intros Hpf Hwf. unfold session.
  destruct (Nat.ltb cut (c_nlines c)); [simpl; split; [constructor | reflexivity]|].
  (* v6 set-up *)
  match goal with |- context [match ?X with pair _ _ => _ end] => destruct X as [[[[ok6 py1] n1] s1] ev1] eqn:P1 end.
  assert (H1 : erase c s1 = erase c s0 /\ Forall (ev_ok c s0) ev1).
  { destruct (fc_on (c_v6 c)) eqn:On6.
    - destruct (udp_refused c).
      + inversion P1; subst. split; [reflexivity | apply Forall_cons_mark; constructor].
      + destruct (do_setup faults c V6 (py_init c) 0 s0) as [[[[ok py] n] s] ev] eqn:D.
        inversion P1; subst.
        destruct (do_setup_erase c V6 _ _ _ _ _ _ _ _ _ s0 Hpf Hwf On6 eq_refl D) as [E F].
        split; [exact E | apply Forall_cons_mark; exact F].
    - inversion P1; subst. split; [reflexivity | constructor]. }
  destruct H1 as [E1 F1].
  match goal with |- context [match ?X with pair _ _ => _ end] => destruct X as [[[[ok4 py2] n2] s2] ev2] eqn:P2 end.
  assert (H2 : erase c s2 = erase c s0 /\ Forall (ev_ok c s0) ev2).
  { destruct (ok6 && fc_on (c_v4 c)) eqn:B.
    - apply andb_true_iff in B as [_ On4]. destruct (udp_refused c).
      + inversion P2; subst. split; [exact E1 | apply Forall_cons_mark; constructor].
      + destruct (do_setup faults c V4 py1 n1 s1) as [[[[ok py] n] s] ev] eqn:D.
        inversion P2; subst.
        destruct (do_setup_erase c V4 _ _ _ _ _ _ _ _ _ s0 Hpf Hwf On4 E1 D) as [E F].
        split; [exact E | apply Forall_cons_mark; exact F].
    - inversion P2; subst. split; [exact E1 | constructor]. }
  destruct H2 as [E2 F2].
  match goal with |- context [match ?X with pair _ _ => _ end] => destruct X as [hosts loop_fatal] end.
  match goal with |- context [match ?X with pair _ _ => _ end] => destruct X as [[[[ok7 py3] n3] s3] ev4] eqn:P3 end.
  assert (H3 : erase c s3 = erase c s0 /\ Forall (ev_ok c s0) ev4).
  { destruct (fc_on (c_v6 c)) eqn:On6.
    - destruct (udp_refused c).
      + inversion P3; subst. split; [exact E2 | apply Forall_cons_mark; constructor].
      + destruct (do_restore faults c V6 py2 n2 s2) as [[[[ok py] n] s] ev] eqn:D.
        inversion P3; subst.
        destruct (do_restore_erase c V6 _ _ _ _ _ _ _ _ _ s0 Hpf Hwf On6 E2 D) as [E F].
        split; [exact E | apply Forall_cons_mark; exact F].
    - inversion P3; subst. split; [exact E2 | constructor]. }
  destruct H3 as [E3 F3].
  match goal with |- context [match ?X with pair _ _ => _ end] => destruct X as [[[[ok8 py4] n4] s4] ev5] eqn:P4 end.
  assert (H4 : erase c s4 = erase c s0 /\ Forall (ev_ok c s0) ev5).
  { destruct (fc_on (c_v4 c)) eqn:On4.
    - destruct (udp_refused c).
      + inversion P4; subst. split; [exact E3 | apply Forall_cons_mark; constructor].
      + destruct (do_restore faults c V4 py3 n3 s3) as [[[[ok py] n] s] ev] eqn:D.
        inversion P4; subst.
        destruct (do_restore_erase c V4 _ _ _ _ _ _ _ _ _ s0 Hpf Hwf On4 E3 D) as [E F].
        split; [exact E | apply Forall_cons_mark; exact F].
    - inversion P4; subst. split; [exact E3 | constructor]. }
  destruct H4 as [E4 F4].
  lazy beta iota zeta delta [r_final r_events]. split; [|exact E4].
  repeat (apply Forall_app; split); try assumption.
  - destruct ok4; constructor; [exact I | constructor].
  - destruct hosts; constructor; [exact I | constructor].
Qed.

(* ------------------------------------------------------------------ *)
(* Part 3: decidable checks on sessions and concrete witnesses           *)

Definition kstate_eq_dec : forall a b : kstate, {a = b} + {a <> b}.
Proof. repeat decide equality. Defined.

Definition kstate_eqb (a b : kstate) : bool := if kstate_eq_dec a b then true else false.

Lemma kstate_eqb_eq a b : kstate_eqb a b = true <-> a = b.
Proof. unfold kstate_eqb. destruct (kstate_eq_dec a b); split; congruence. Qed.

(* (ii) nothing can be diverted: no rule outside the session's own chains
   jumps into a non-empty own chain, and no own nft table is left *)
Definition no_divert_tbl (cs : list tok) (T : table) : bool :=
  forallb (fun ch : chain =>
    tmem (fst ch) cs ||
    forallb (fun r => match jump_target r with
                      | Some x => negb (tmem x cs) ||
                                  match find_chain x T with Some (_ :: _) => false | _ => true end
                      | None => true end) (snd ch)) T.

Definition no_divert (c : cfg) (s : kstate) : bool :=
  no_divert_tbl (own_chains c V6 TNat) (k_v6nat s) && no_divert_tbl (own_chains c V6 TMangle) (k_v6mangle s) &&
  no_divert_tbl (own_chains c V4 TNat) (k_v4nat s) && no_divert_tbl (own_chains c V4 TMangle) (k_v4mangle s) &&
  forallb (fun nt : nfttable => negb (tmem (fst nt) (own_nft c))) (k_nft s).

Definition has_mark (m : mark) (evs : list event) : bool :=
  existsb (fun e => match e, m with
                    | EMark MStarted, MStarted | EMark MHosts, MHosts => true
                    | EMark (MRestore V6), MRestore V6 | EMark (MRestore V4), MRestore V4 => true
                    | EMark (MSetup V6), MSetup V6 | EMark (MSetup V4), MSetup V4 => true
                    | _, _ => false end) evs.

Definition is_listing (c : cmd) : bool := match c with Ipt _ _ IList => true | _ => false end.

(* tear-down commands whose own failure necessarily leaves the rules in place:
   the chain listing that guards a family's whole restore (finding F42) and nft's
   single `delete table` (no retry; stated in DESIGN section 5) *)
Definition excused (c : cmd) : bool :=
  is_listing c || match c with Nft (NDeleteTable _) => true | _ => false end.

(* the k-th external command of an event list *)
Fixpoint nth_cmd (k : nat) (evs : list event) : option cmd :=
  match evs with
  | [] => None
  | ECmd (Pf (PAddCall _ _)) _ _ :: r => nth_cmd k r
  | ECmd c _ _ :: r => match k with O => Some c | S k' => nth_cmd k' r end
  | EMark _ :: r => nth_cmd k r
  end.

Definition full_cut (c : cfg) : nat := c_nlines c + length (c_tail c).

(* one session with the k-th command failing and the dialogue cut after `cut` lines:
   - cut before GO: no command at all, state untouched;
   - fault (if any) before the finally block: final state = s0 with this session's objects erased;
   - fault inside the finally block: (i) both families' restores and the hosts restore still ran,
     (ii) unless the failing command is `excused`, nothing can be diverted any more,
     (iii) a later fault-free session started from the left-over state reaches STARTED and ends in
           s0 with this session's objects erased. *)
Definition sess_ok (c : cfg) (s0 : kstate) (k cut : nat) : bool :=
  let r := session c cut (fault_at k) s0 in
  if Nat.ltb cut (c_nlines c) then
    kstate_eqb (r_final r) s0 && match r_events r with [] => true | _ => false end
  else if Nat.ltb k (r_fin_at r) || Nat.leb (r_ncmds r) k then
    kstate_eqb (r_final r) (erase c s0)
  else
    (negb (fc_on (c_v6 c)) || has_mark (MRestore V6) (r_events r)) &&
    (negb (fc_on (c_v4 c)) || has_mark (MRestore V4) (r_events r)) &&
    (negb (has_mark MStarted (r_events r)) || Nat.leb cut (c_nlines c) ||
       match c_tail c with true :: _ => has_mark MHosts (r_events r) | _ => true end) &&
    (match nth_cmd k (r_events r) with Some x => excused x | None => false end || no_divert c (r_final r)) &&
    (let r2 := session c (full_cut c) no_faults (r_final r) in
     has_mark MStarted (r_events r2) && kstate_eqb (r_final r2) (erase c s0)).

Definition sweep (c : cfg) (s0 : kstate) (K L : nat) : bool :=
  forallb (fun k => forallb (fun cut => sess_ok c s0 k cut) (seq 0 (S L))) (seq 0 K).

Lemma sweep_sound c s0 K L :
  sweep c s0 K L = true -> forall k cut, k < K -> cut <= L -> sess_ok c s0 k cut = true.
Proof.
  unfold sweep. intros H k cut Hk Hc. rewrite forallb_forall in H.
  assert (Hin : In k (seq 0 K)) by (apply in_seq; lia).
  specialize (H k Hin). rewrite forallb_forall in H. apply H. apply in_seq. lia.
Qed.

(* ---- a kernel with foreign rules, a foreign chain and a second instance on port 12300 ---- *)
Definition r_foreign1 : rule := [bs "-p"; bs "udp"; bs "-j"; bs "ACCEPT"].
Definition r_docker : rule := [bs "-j"; bs "DOCKER"].
Definition other_nat_chain : chain :=
  (nat_chain (bs "12300"),
   [[bs "-j"; bs "REDIRECT"; bs "--dest"; bs "172.16.0.0/16"; bs "-p"; bs "tcp"; bs "--to-ports"; bs "12300"];
    [bs "-j"; bs "RETURN"; bs "-m"; bs "addrtype"; bs "--dst-type"; bs "LOCAL"]]).
Definition ex_nat : table :=
  [(bs "PREROUTING", [nat_jump None (bs "12300"); r_docker]); (bs "INPUT", []);
   (bs "OUTPUT", [nat_jump None (bs "12300"); r_docker; r_foreign1]); (bs "POSTROUTING", []);
   (bs "DOCKER", [[bs "-j"; bs "RETURN"; bs "-p"; bs "tcp"]]);
   other_nat_chain].
Definition ex_mangle : table :=
  [(bs "PREROUTING", [[bs "-j"; tp_tproxy (bs "12300")]; r_foreign1]); (bs "INPUT", []); (bs "FORWARD", []);
   (bs "OUTPUT", [[bs "-j"; tp_mark (bs "12300")]; r_docker]); (bs "POSTROUTING", []);
   (bs "DOCKER", [[bs "-j"; bs "RETURN"]]);
   (tp_mark (bs "12300"), [[bs "-j"; bs "MARK"; bs "--set-mark"; bs "0x01"; bs "--dest"; bs "172.16.0.0/16"; bs "-m"; bs "tcp"; bs "-p"; bs "tcp"]]);
   (tp_divert (bs "12300"), [[bs "-j"; bs "MARK"; bs "--set-mark"; bs "0x01"]; [bs "-j"; bs "ACCEPT"]]);
   (tp_tproxy (bs "12300"), [[bs "-m"; bs "socket"; bs "-j"; tp_divert (bs "12300"); bs "-m"; bs "tcp"; bs "-p"; bs "tcp"];
                             [bs "-j"; bs "TPROXY"; bs "--tproxy-mark"; bs "0x01"; bs "--dest"; bs "172.16.0.0/16"; bs "-m"; bs "tcp"; bs "-p"; bs "tcp"; bs "--on-port"; bs "12300"]])].
Definition ex_nft : list nfttable :=
  [(bs "filter", [(bs "input", [[bs "tcp dport 22 accept"]])]);
   (nft_table V4 (bs "12300"), [(bs "output", [[bs "output jump x"]])])].
Definition ex_state : kstate := mkK ex_nat ex_mangle ex_nat ex_mangle ex_nft pf_empty.

(* ---- sample plans on port 1230 (both families) ---- *)
Definition P1230 : tok := bs "1230".
Definition nat_body (p : tok) : list (tok * rule) :=
  [(nat_chain p, [bs "-j"; bs "REDIRECT"; bs "--dest"; bs "10.0.0.53"; bs "-p"; bs "udp"; bs "--dport"; bs "53"; bs "--to-ports"; bs "1232"]);
   (nat_chain p, [bs "-j"; bs "RETURN"; bs "--dest"; bs "10.1.2.66/32"; bs "-p"; bs "tcp"]);
   (nat_chain p, [bs "-j"; bs "REDIRECT"; bs "--dest"; bs "10.0.0.0/8"; bs "-p"; bs "tcp"; bs "--to-ports"; p]);
   (nat_chain p, [bs "-j"; bs "RETURN"; bs "-m"; bs "addrtype"; bs "--dst-type"; bs "LOCAL"])].
Definition tp_body (p : tok) : list (tok * rule) :=
  [(tp_tproxy p, [bs "-j"; bs "RETURN"; bs "-m"; bs "addrtype"; bs "--dst-type"; bs "LOCAL"]);
   (tp_mark p, [bs "-j"; bs "RETURN"; bs "-m"; bs "addrtype"; bs "--dst-type"; bs "LOCAL"]);
   (tp_divert p, [bs "-j"; bs "MARK"; bs "--set-mark"; bs "0x01"]);
   (tp_divert p, [bs "-j"; bs "ACCEPT"]);
   (tp_tproxy p, [bs "-m"; bs "socket"; bs "-j"; tp_divert p; bs "-m"; bs "tcp"; bs "-p"; bs "tcp"]);
   (tp_mark p, [bs "-j"; bs "MARK"; bs "--set-mark"; bs "0x01"; bs "--dest"; bs "10.0.0.0/8"; bs "-m"; bs "tcp"; bs "-p"; bs "tcp"]);
   (tp_tproxy p, [bs "-j"; bs "TPROXY"; bs "--tproxy-mark"; bs "0x01"; bs "--dest"; bs "10.0.0.0/8"; bs "-m"; bs "tcp"; bs "-p"; bs "tcp"; bs "--on-port"; p])].
Definition nft_body (f : fam) (p : tok) : list (tok * rule) :=
  [(nft_table f p, [nft_table f p; bs "fib daddr type local return"]);
   (nft_table f p, [nft_table f p; bs "meta"; bs "l4proto"; bs "tcp"; bs "ip"; bs "daddr 10.0.0.0/8"; bs "redirect to :1230"])].

Definition mk_cfg (m : method) (owner : option rule) (repaired : bool) (b6 b4 : list (tok * rule)) : cfg :=
  mkCfg m (mkFam true P1230 b6) (mkFam true P1230 b4) owner false repaired 8 [true; true].

Definition cfg_nat : cfg := mk_cfg MNat None true (nat_body P1230) (nat_body P1230).
Definition cfg_nat_user : cfg := mk_cfg MNat (Some [bs "--uid-owner"; bs "alice"]) true (nat_body P1230) (nat_body P1230).
Definition cfg_tproxy : cfg := mk_cfg MTproxy None true (tp_body P1230) (tp_body P1230).
Definition cfg_tproxy_asfound : cfg := mk_cfg MTproxy None false (tp_body P1230) (tp_body P1230).
Definition cfg_nft : cfg := mk_cfg MNft None true (nft_body V6 P1230) (nft_body V4 P1230).

(* pf on FreeBSD: IPv4 only; the module is loaded and pf is disabled before the session *)
Definition pf_text : bytes := bs "rdr pass on lo0 inet proto tcp from ! 127.0.0.1 to 10.0.0.0/8 -> 127.0.0.1 port 1230".
Definition cfg_pf (os : pfos) (repaired : bool) : cfg :=
  mkCfg (MPf os) (mkFam false (bs "0") []) (mkFam true P1230 [(pf_anchor V4 P1230, [pf_text])])
        None false repaired 6 [true].
Definition pf_foreign : pfstate :=
  mkPf true false [] 1 false [] [(false, bs "com.apple")] [(bs "com.apple", bs "pass all")].
Definition ex_pf_state : kstate := mkK builtin_nat builtin_mangle builtin_nat builtin_mangle [] pf_foreign.

Lemma no_command_before_go c cut faults s0 :
  cut < c_nlines c ->
  r_events (session c cut faults s0) = [] /\ r_final (session c cut faults s0) = s0 /\
  r_ncmds (session c cut faults s0) = 0.
Proof.
  intro H. unfold session. apply Nat.ltb_lt in H. rewrite H. cbn. auto.
Qed.

(* pf: what sshuttle never undoes by construction of pf.py — the anchor calls it appends
   to the main ruleset (and Darwin's token counter) *)
Fixpoint anchors_eqb (a b : list (tok * bytes)) : bool :=
  match a, b with
  | [], [] => true
  | (n1, t1) :: a', (n2, t2) :: b' => bytes_eqb n1 n2 && bytes_eqb t1 t2 && anchors_eqb a' b'
  | _, _ => false
  end.
Definition pf_same_but_calls (a b : pfstate) : bool :=
  Bool.eqb (pf_loaded a) (pf_loaded b) && Bool.eqb (pf_on a) (pf_on b) &&
  rule_eqb (pf_refs a) (pf_refs b) && Bool.eqb (pf_skip_lo a) (pf_skip_lo b) &&
  rule_eqb (pf_main a) (pf_main b) && anchors_eqb (pf_anchors a) (pf_anchors b).

Arguments Ascii.eqb : simpl never.

(* ------------------------------------------------------------------ *)
(* Part 4: ipt_chain_exists parses the listing correctly — for ARBITRARY  *)
(* bytes in the rule text and in the other chains' names: the decode step *)
(* bytes.decode('ASCII', errors='replace') is total and maps every byte   *)
(* >= 0x80 to U+FFFD, the sought name is ASCII, and the trailing blank     *)
(* keeps sshuttle-1230 apart from sshuttle-12300.                          *)

Definition nospace (b : bytes) : bool := forallb (fun a => negb (Ascii.eqb a " "%char)) b.

(* a name the helper looks for: 7-bit (it is 'sshuttle-...%s' % port with a decimal port) and not empty *)
Definition aname (b : bytes) : bool := forallb ascii7 b && match b with [] => false | _ => true end.
(* a port as it is printed into chain names: no blank, 7-bit *)
Definition pname_ok (p : tok) : bool := nospace p && forallb ascii7 p.

Lemma pname_nospace p : pname_ok p = true -> nospace p = true.
Proof. unfold pname_ok. intro H. apply andb_true_iff in H as [H _]. exact H. Qed.
Lemma pname_ascii p : pname_ok p = true -> forallb ascii7 p = true.
Proof. unfold pname_ok. intro H. apply andb_true_iff in H as [_ H]. exact H. Qed.

Lemma aname_app a b : forallb ascii7 a = true -> forallb ascii7 b = true -> a <> [] -> aname (a ++ b) = true.
Proof.
  intros Ha Hb Hn. unfold aname. rewrite forallb_app, Ha, Hb. destruct a; [contradiction | reflexivity].
Qed.

Lemma starts_with_app a p l : starts_with (a ++ p) (a ++ l) = starts_with p l.
Proof. induction a as [|x a IH]; simpl; [reflexivity|]. rewrite Ascii.eqb_refl. exact IH. Qed.

Lemma decode_app a b : decode_replace (a ++ b) = decode_replace a ++ decode_replace b.
Proof. unfold decode_replace. apply map_app. Qed.

Lemma decode_ascii a : forallb ascii7 a = true -> decode_replace a = ustr a.
Proof.
  unfold decode_replace, ustr. induction a as [|x a IH]; [reflexivity|]. cbn [forallb map]. intro H.
  apply andb_true_iff in H as [Hx Ha]. rewrite Hx, (IH Ha). reflexivity.
Qed.

Lemma ustr_app a b : ustr (a ++ b) = ustr a ++ ustr b.
Proof. unfold ustr. apply map_app. Qed.

Lemma uchar_eqb_refl c : uchar_eqb c c = true.
Proof. destruct c; [apply Ascii.eqb_refl | reflexivity]. Qed.

Lemma ustarts_with_app a p l : ustarts_with (a ++ p) (a ++ l) = ustarts_with p l.
Proof. induction a as [|x a IH]; cbn [app ustarts_with]; [reflexivity|]. rewrite uchar_eqb_refl. exact IH. Qed.

(* the decoded byte a, compared with the code point x of the pattern *)
Lemma uchar_decode_eqb x a : ascii7 x = true ->
  uchar_eqb (UA x) (if ascii7 a then UA a else URepl) = Ascii.eqb x a.
Proof.
  intro Hx. destruct (ascii7 a) eqn:Ha; cbn [uchar_eqb]; [reflexivity|].
  symmetry. apply Ascii.eqb_neq. intro E. subst a. congruence.
Qed.

(* header line of chain n against the pattern for `name` *)
Lemma ustarts_with_name name n rest :
  nospace name = true -> forallb ascii7 name = true -> nospace n = true ->
  ustarts_with (ustr (name ++ [" "%char])) (decode_replace (n ++ " "%char :: rest)) = bytes_eqb n name.
Proof.
  revert n. induction name as [|x name IH]; intros [|a n] Hn Ha Hm; cbn [app ustr map decode_replace ustarts_with] in *.
  - reflexivity.
  - apply andb_true_iff in Hm as [Hb _]. apply negb_true_iff in Hb.
    rewrite (uchar_decode_eqb " "%char a eq_refl), Ascii.eqb_sym, Hb.
    symmetry. apply bytes_eqb_neq. discriminate.
  - apply andb_true_iff in Hn as [Hx _]. apply negb_true_iff in Hx.
    apply andb_true_iff in Ha as [Hx7 _].
    rewrite (uchar_decode_eqb x " "%char Hx7), Hx. symmetry. apply bytes_eqb_neq. discriminate.
  - apply andb_true_iff in Hn as [Hx Hn]. apply andb_true_iff in Hm as [Hb Hm].
    apply andb_true_iff in Ha as [Hx7 Ha].
    rewrite (uchar_decode_eqb x a Hx7).
    destruct (Ascii.eqb x a) eqn:E.
    + apply Ascii.eqb_eq in E. subst a.
      change (map (fun a0 : ascii => if ascii7 a0 then UA a0 else URepl) (n ++ " "%char :: rest))
        with (decode_replace (n ++ " "%char :: rest)).
      change (map UA (name ++ [" "%char])) with (ustr (name ++ [" "%char])).
      rewrite (IH n Hn Ha Hm).
      destruct (bytes_eqb n name) eqn:B.
      * apply bytes_eqb_eq in B. subst. symmetry. apply bytes_eqb_refl.
      * symmetry. apply bytes_eqb_neq. apply bytes_eqb_neq in B. congruence.
    + symmetry. apply bytes_eqb_neq. intro H. inversion H; subst. rewrite Ascii.eqb_refl in E. discriminate.
Qed.

(* a rule line never looks like a header for a non-empty name without blanks: its first word w
   (the target column) has no blank and is followed by padding; "Chain" + blank + a non-blank
   cannot be a prefix of w + blanks *)
Lemma first_word_nospace t : nospace (first_word t) = true.
Proof.
  induction t as [|a t IH]; [reflexivity|]. cbn [first_word].
  destruct (Ascii.eqb a " "%char) eqn:E; [reflexivity|]. cbn [nospace forallb]. rewrite E. exact IH.
Qed.

Lemma ustarts_with_ruleline A x rest : forall w k tail,
  nospace A = true -> forallb ascii7 A = true -> nospace w = true ->
  Ascii.eqb x " "%char = false -> ascii7 x = true ->
  (1 <= k \/ length w <> length A) ->
  ustarts_with (ustr (A ++ " "%char :: x :: rest))
               (decode_replace (w ++ repeat " "%char k ++ " "%char :: tail)) = false.
Proof.
  induction A as [|a A IH]; intros [|b w] k tail HA HA7 Hw Hx Hx7 Hk;
    cbn [app ustr map decode_replace ustarts_with length] in *.
  - destruct Hk as [Hk|Hk]; [|contradiction]. destruct k as [|k]; [lia|].
    destruct k as [|k]; cbn [repeat app map ascii7 negb uchar_eqb ustarts_with];
      change (Ascii.eqb " " " ") with true; cbn iota; rewrite Hx; reflexivity.
  - apply andb_true_iff in Hw as [Hb _]. apply negb_true_iff in Hb.
    rewrite (uchar_decode_eqb " "%char b eq_refl), Ascii.eqb_sym, Hb. reflexivity.
  - apply andb_true_iff in HA as [Ha _]. apply negb_true_iff in Ha. apply andb_true_iff in HA7 as [Ha7 _].
    destruct k as [|k]; cbn [repeat app map ascii7 negb uchar_eqb]; rewrite Ha; reflexivity.
  - apply andb_true_iff in HA as [Ha HA]. apply andb_true_iff in HA7 as [Ha7 HA7].
    apply andb_true_iff in Hw as [Hb Hw].
    rewrite (uchar_decode_eqb a b Ha7). destruct (Ascii.eqb a b); [|reflexivity].
    change (map (fun a0 : ascii => if ascii7 a0 then UA a0 else URepl) (w ++ repeat " "%char k ++ " "%char :: tail))
      with (decode_replace (w ++ repeat " "%char k ++ " "%char :: tail)).
    change (map UA (A ++ " "%char :: x :: rest)) with (ustr (A ++ " "%char :: x :: rest)).
    apply IH; try assumption. destruct Hk as [Hk|Hk]; [left; exact Hk | right; lia].
Qed.

Lemma rule_line_no_header name r :
  nospace name = true -> aname name = true ->
  ustarts_with (chain_pattern name) (decode_replace (rule_line r)) = false.
Proof.
  intros Hn Ha. unfold aname in Ha. apply andb_true_iff in Ha as [Ha7 Hne].
  destruct name as [|x name]; [discriminate|].
  cbn [nospace forallb] in Hn. apply andb_true_iff in Hn as [Hx Hn]. apply negb_true_iff in Hx.
  cbn [forallb] in Ha7. apply andb_true_iff in Ha7 as [Hx7 Ha7].
  unfold chain_pattern, rule_line, pad_to.
  set (w := match jump_target r with Some t => first_word t | None => [] end).
  assert (Hw : nospace w = true) by (unfold w; destruct (jump_target r); [apply first_word_nospace | reflexivity]).
  change (bs "Chain " ++ (x :: name) ++ bs " ") with (bs "Chain" ++ " "%char :: x :: (name ++ bs " ")).
  rewrite <- app_assoc.
  apply ustarts_with_ruleline; try assumption; try reflexivity.
  change (length (bs "Chain")) with 5.
  destruct (Nat.eq_dec (length w) 5) as [E|E]; [left; rewrite E; cbn; lia | right; exact E].
Qed.

Lemma listing_cons n rs T :
  listing ((n, rs) :: T) =
  [bs "Chain " ++ n ++ bs " (" ++ bs "policy ACCEPT)";
   bs "target     prot opt source               destination"] ++ map rule_line rs ++ [[]] ++ listing T.
Proof. unfold listing. cbn [flat_map fst snd]. rewrite <- !app_assoc. reflexivity. Qed.

Lemma chain_in_listing_spec T name :
  nospace name = true -> aname name = true -> forallb (fun ch : chain => nospace (fst ch)) T = true ->
  chain_in_listing name (listing T) = existsb (fun ch : chain => bytes_eqb (fst ch) name) T.
Proof.
  intros Hn Ha HT. unfold chain_in_listing. induction T as [|[n rs] T IH]; [reflexivity|].
  cbn [forallb fst] in HT. apply andb_true_iff in HT as [Hm HT].
  rewrite listing_cons. rewrite !existsb_app. cbn [existsb fst].
  specialize (IH HT). change (list ascii) with bytes. rewrite IH. rewrite !orb_false_r.
  match goal with |- context [existsb ?f (map rule_line rs)] =>
    assert (Hrules : existsb f (map rule_line rs) = false)
      by (clear - Hn Ha; induction rs as [|r rs IHr]; [reflexivity|]; cbn [map existsb];
          rewrite (rule_line_no_header name r Hn Ha); exact IHr) end.
  rewrite Hrules. cbn [orb].
  change (ustarts_with (chain_pattern name) (decode_replace [])) with false. cbn [orb]. f_equal.
  unfold chain_pattern. unfold aname in Ha. apply andb_true_iff in Ha as [Ha7 _].
  rewrite ustr_app. rewrite decode_app. rewrite (decode_ascii (bs "Chain ") eq_refl).
  rewrite ustarts_with_app.
  change (bs " (" ++ bs "policy ACCEPT)") with (" "%char :: bs "(policy ACCEPT)").
  exact (ustarts_with_name name n _ Hn Ha7 Hm).
Qed.

(* the numeric prefix case spelled out *)
Example listing_prefix_ports :
  chain_in_listing (nat_chain (bs "1230")) (listing [(nat_chain (bs "12300"), [])]) = false /\
  chain_in_listing (nat_chain (bs "12300")) (listing [(nat_chain (bs "12300"), [])]) = true.
Proof. vm_compute. split; reflexivity. Qed.

(* ---- the same on the raw output bytes (decode, then split at every line feed) ---- *)
Definition LF : ascii := "010"%char.
Definition line_nolf (l : bytes) : bool := forallb (fun a => negb (Ascii.eqb a LF)) l.
(* no chain name and no rule token contains a line feed *)
Definition tbl_nolf (T : table) : bool :=
  forallb (fun ch : chain => line_nolf (fst ch) && forallb (forallb line_nolf) (snd ch)) T.

Lemma usplit_cons d : exists cur rest, usplit d = cur :: rest.
Proof.
  induction d as [|c d (cur & rest & E)]; [exists [], []; reflexivity|].
  cbn [usplit]. rewrite E. destruct (is_lf c); eauto.
Qed.

Lemma decode_not_lf a : Ascii.eqb a LF = false -> is_lf (if ascii7 a then UA a else URepl) = false.
Proof.
  intro H. destruct (ascii7 a); [|reflexivity]. unfold is_lf. cbn [uchar_eqb]. exact H.
Qed.

Lemma usplit_line l rest : line_nolf l = true ->
  usplit (decode_replace (l ++ LF :: rest)) = decode_replace l :: usplit (decode_replace rest).
Proof.
  induction l as [|a l IH]; intro H.
  - cbn [app decode_replace map]. change (if ascii7 LF then UA LF else URepl) with (UA LF).
    cbn [usplit]. change (map (fun a : ascii => if ascii7 a then UA a else URepl) rest) with (decode_replace rest).
    destruct (usplit_cons (decode_replace rest)) as (cur & r & ->). reflexivity.
  - cbn [line_nolf forallb] in H. apply andb_true_iff in H as [Ha Hl]. apply negb_true_iff in Ha.
    cbn [app decode_replace map usplit].
    change (map (fun a0 : ascii => if ascii7 a0 then UA a0 else URepl) (l ++ LF :: rest))
      with (decode_replace (l ++ LF :: rest)).
    rewrite (IH Hl), (decode_not_lf a Ha). reflexivity.
Qed.

Lemma join_lines_cons l ls : join_lines (l :: ls) = l ++ LF :: join_lines ls.
Proof. unfold join_lines. cbn [flat_map]. rewrite <- app_assoc. reflexivity. Qed.

Lemma usplit_join lines : forallb line_nolf lines = true ->
  usplit (decode_replace (join_lines lines)) = map decode_replace lines ++ [[]].
Proof.
  induction lines as [|l ls IH]; intro H; [reflexivity|].
  cbn [forallb] in H. apply andb_true_iff in H as [Hl Hls].
  rewrite join_lines_cons, (usplit_line l _ Hl), (IH Hls). reflexivity.
Qed.

(* what linux.py:23-25 computes on the bytes = the line-level test, when no printed line
   contains a line feed *)
Lemma chain_in_output_lines name lines :
  forallb line_nolf lines = true ->
  chain_in_output name (join_lines lines) = chain_in_listing name lines.
Proof.
  intro H. unfold chain_in_output, chain_in_listing. rewrite (usplit_join lines H).
  rewrite existsb_app. cbn [existsb].
  change (ustarts_with (chain_pattern name) []) with false. rewrite !orb_false_r.
  induction lines as [|l ls IH]; [reflexivity|]. cbn [map existsb].
  cbn [forallb] in H. apply andb_true_iff in H as [_ H]. rewrite (IH H). reflexivity.
Qed.

Lemma line_nolf_app a b : line_nolf (a ++ b) = line_nolf a && line_nolf b.
Proof. unfold line_nolf. apply forallb_app. Qed.

Lemma first_word_nolf t : line_nolf t = true -> line_nolf (first_word t) = true.
Proof.
  induction t as [|a t IH]; [reflexivity|]. cbn [first_word line_nolf forallb]. intro H.
  apply andb_true_iff in H as [Ha Ht]. destruct (Ascii.eqb a " "%char); [reflexivity|].
  cbn [forallb]. rewrite Ha. exact (IH Ht).
Qed.

Lemma jump_target_in r t : jump_target r = Some t -> In t r.
Proof.
  induction r as [|x r IH]; [discriminate|]. cbn [jump_target].
  destruct (bytes_eqb x (bs "-j")).
  - destruct r as [|y r']; [discriminate|]. intros [= ->]. right. left. reflexivity.
  - intro H. right. exact (IH H).
Qed.

Lemma repeat_blank_nolf k : line_nolf (repeat " "%char k) = true.
Proof. induction k as [|k IH]; [reflexivity|]. cbn [repeat line_nolf forallb]. exact IH. Qed.

Lemma rule_line_nolf r : forallb line_nolf r = true -> line_nolf (rule_line r) = true.
Proof.
  intro H. unfold rule_line, pad_to.
  rewrite !line_nolf_app. apply andb_true_iff. split; [apply andb_true_iff; split|].
  - destruct (jump_target r) as [t|] eqn:J; [|reflexivity].
    apply first_word_nolf. rewrite forallb_forall in H. apply H. exact (jump_target_in r t J).
  - apply repeat_blank_nolf.
  - change (line_nolf (" "%char :: bs "0    --  0.0.0.0/0            0.0.0.0/0           " ++
                       flat_map (fun t : tok => " "%char :: t) r))
      with (line_nolf ((" "%char :: bs "0    --  0.0.0.0/0            0.0.0.0/0           ") ++
                       flat_map (fun t : tok => " "%char :: t) r)).
    rewrite line_nolf_app. apply andb_true_iff. split; [reflexivity|].
    induction r as [|t r IH]; [reflexivity|]. cbn [forallb] in H. apply andb_true_iff in H as [Ht Hr].
    cbn [flat_map]. change (line_nolf ((" "%char :: t) ++ flat_map (fun t0 : tok => " "%char :: t0) r) = true).
    rewrite line_nolf_app. apply andb_true_iff. split; [exact Ht | exact (IH Hr)].
Qed.

Lemma listing_nolf T : tbl_nolf T = true -> forallb line_nolf (listing T) = true.
Proof.
  induction T as [|[n rs] T IH]; intro H; [reflexivity|].
  cbn [tbl_nolf forallb fst snd] in H. apply andb_true_iff in H as [H HT].
  apply andb_true_iff in H as [Hn Hrs].
  rewrite listing_cons, !forallb_app. cbn [forallb].
  specialize (IH HT). change (list ascii) with bytes. rewrite IH. rewrite !line_nolf_app, Hn. cbn [andb].
  change (line_nolf (bs "Chain ")) with true.
  change (line_nolf (bs " (" ++ bs "policy ACCEPT)")) with true.
  change (line_nolf (bs "target     prot opt source               destination")) with true.
  change (line_nolf []) with true. cbn [andb]. rewrite andb_true_r.
  induction rs as [|r rs IHr]; [reflexivity|]. cbn [forallb] in Hrs. apply andb_true_iff in Hrs as [Hr Hrs].
  cbn [map forallb]. rewrite (rule_line_nolf r Hr). exact (IHr Hrs).
Qed.

(* exact membership on the bytes, for arbitrary bytes in rule text and foreign chain names
   except the line feed *)
Lemma chain_exists_bytes_exact T name :
  nospace name = true -> aname name = true ->
  forallb (fun ch : chain => nospace (fst ch)) T = true -> tbl_nolf T = true ->
  chain_in_output name (join_lines (listing T)) = existsb (fun ch : chain => bytes_eqb (fst ch) name) T.
Proof.
  intros Hn Ha HT Hl. rewrite (chain_in_output_lines name _ (listing_nolf T Hl)).
  exact (chain_in_listing_spec T name Hn Ha HT).
Qed.

(* F90 — the exception: a foreign rule whose comment contains a line feed prints as two lines
   and the second one can be a forged chain header; the byte-level parse (what the code does)
   then reports a chain that does not exist.  The line-level test is not fooled: the session
   model assumes rule text without line feeds. *)
Definition forged_comment : tok :=
  bs "x" ++ [LF] ++ bs "Chain sshuttle-1230 (0 references)".
Definition forged_rule : rule := [bs "-m"; bs "comment"; bs "--comment"; forged_comment; bs "-j"; bs "RETURN"].
Definition forged_nat : table :=
  [(bs "PREROUTING", []); (bs "INPUT", []); (bs "OUTPUT", [forged_rule]); (bs "POSTROUTING", [])].

Lemma listing_lf_refuted :
  chain_in_output (nat_chain (bs "1230")) (join_lines (listing forged_nat)) = true /\
  existsb (fun ch : chain => bytes_eqb (fst ch) (nat_chain (bs "1230"))) forged_nat = false /\
  chain_in_listing (nat_chain (bs "1230")) (listing forged_nat) = false /\
  tbl_nolf forged_nat = false /\
  forallb (fun ch : chain => nospace (fst ch)) forged_nat = true.
Proof. vm_compute. repeat split. Qed.

(* odd bytes that are NOT a line feed are harmless: Latin-1, invalid and valid UTF-8, control
   characters, even the text of a header, in a comment and in a foreign chain name *)
Definition odd_comment : tok :=
  bs "r" ++ ["232"%char] ++ bs "gle caf" ++ ["233"%char; "255"%char; "128"%char; "191"%char; "195"%char; "001"%char; "009"%char;
             "013"%char; "027"%char; "127"%char; "195"%char; "169"%char; "226"%char; "130"%char; "172"%char] ++
  bs " Chain sshuttle-1230 (0 references)".
Definition odd_nat : table :=
  [(bs "PREROUTING", []); (bs "INPUT", []);
   (bs "OUTPUT", [[bs "-m"; bs "comment"; bs "--comment"; odd_comment; bs "-j"; bs "Chain"]]);
   (bs "POSTROUTING", []); (bs "Chain", []); (bs "sshuttle-1230" ++ ["233"%char], []); (bs "caf" ++ ["233"%char], [])].

Example listing_odd_bytes :
  chain_in_output (nat_chain (bs "1230")) (join_lines (listing odd_nat)) = false /\
  chain_in_output (bs "Chain") (join_lines (listing odd_nat)) = true /\
  tbl_nolf odd_nat = true /\ forallb (fun ch : chain => nospace (fst ch)) odd_nat = true /\
  chain_in_output (nat_chain (bs "1230")) (join_lines (listing (odd_nat ++ [(nat_chain (bs "1230"), [])]))) = true.
Proof. vm_compute. repeat split. Qed.
