(* Proofs/FwEnv_lemmas.v — the environment of firewall.main outside the packet
   filter (Model/FwEnv.v) never changes a packet-filter command. *)
From Coq Require Import List NArith ZArith Bool Lia.
From SV Require Import Lib.Bytes Model.FwLife Model.FwLog Model.FwEnv.
Import ListNotations.

Lemma wait_loop_e_neutral : forall lines i,
  wait_loop_e None false i lines =
  (fst (wait_loop lines), if snd (wait_loop lines) then ExitFatal else ExitReturn).
Proof.
  induction lines as [|b ls IH]; intro i; cbn [wait_loop_e wait_loop fst snd]; [reflexivity|].
  destruct b; [|reflexivity].
  rewrite IH. destruct (wait_loop ls) as [h ft]. reflexivity.
Qed.

Lemma cmds_of_app : forall a b, cmds_of (a ++ b) = cmds_of a ++ cmds_of b.
Proof. intros. unfold cmds_of. apply filter_app. Qed.

Lemma cmds_of_mark : forall m l, cmds_of (EMark m :: l) = cmds_of l.
Proof. reflexivity. Qed.

Lemma cmds_of_nil : cmds_of [] = [].
Proof. reflexivity. Qed.

Ltac env_step :=
  first
  [ progress cbv beta iota
  | progress cbn [andb negb]
  | match goal with
    | |- context [if fc_on ?x then _ else _] => destruct (fc_on x)
    | |- context [udp_refused ?c] => destruct (udp_refused c)
    | |- context [do_setup ?f ?c ?v ?p ?n ?s] => destruct (do_setup f c v p n s) as [[[[? ?] ?] ?] ?]
    | |- context [do_restore ?f ?c ?v ?p ?n ?s] => destruct (do_restore f c v p n s) as [[[[? ?] ?] ?] ?]
    | |- context [if ?b then _ else _] => is_var b; destruct b
    | |- context [andb ?b _] => is_var b; destruct b
    end ].

Lemma session_e_neutral : forall c cut faults s0,
  session_e c cut faults wenv_none s0 = session c cut faults s0.
Proof.
  intros. unfold session_e, session.
  cbn [end_escapes wenv_none w_end w_flush_setup w_started w_hosts_fail].
  destruct (Nat.ltb cut (c_nlines c)); [reflexivity|].
  rewrite wait_loop_e_neutral.
  destruct (wait_loop (firstn (cut - c_nlines c) (c_tail c))) as [h ft]. cbn [fst snd].
  repeat env_step; reflexivity.
Qed.

(* whatever the environment does, the packet-filter side of the session is that of `session` *)
Lemma session_e_invisible : forall c cut faults w s0,
  let r := session_e c cut faults w s0 in
  let r' := session c cut faults s0 in
  r_final r = r_final r' /\ r_ncmds r = r_ncmds r' /\ r_fin_at r = r_fin_at r' /\
  r_py r = r_py r' /\ cmds_of (r_events r) = cmds_of (r_events r').
Proof.
  intros. subst r r'. unfold session_e, session.
  destruct (Nat.ltb cut (c_nlines c)); [cbn; repeat split; reflexivity|].
  destruct (wait_loop (firstn (cut - c_nlines c) (c_tail c))) as [h ft].
  destruct (wait_loop_e (w_hosts_fail w) (end_escapes w) 0 (firstn (cut - c_nlines c) (c_tail c))) as [h' o'].
  destruct (w_flush_setup w) as [ef|]; destruct (w_started w) as [es|];
  repeat env_step;
  cbn [r_final r_ncmds r_fin_at r_py r_events];
  (repeat split; try reflexivity);
  rewrite ?cmds_of_app, ?cmds_of_mark, ?cmds_of_nil, ?cmds_of_app, ?cmds_of_mark, ?cmds_of_nil, ?app_nil_r;
  reflexivity.
Qed.

(* a failing STARTED write that `except IOError` catches = the channel closing right after GO *)
Lemma session_e_started_failure : forall c cut faults w s0 e,
  c_nlines c <= cut ->
  w_flush_setup w = None -> w_started w = Some e -> started_swallows e = true ->
  session_e c cut faults w s0 = session c (c_nlines c) faults s0.
Proof.
  intros c cut faults w s0 e Hcut Hf Hs Hsw. unfold session_e, session.
  rewrite Hf, Hs, Hsw.
  replace (Nat.ltb cut (c_nlines c)) with false by (symmetry; apply Nat.ltb_ge; exact Hcut).
  rewrite Nat.ltb_irrefl, Nat.sub_diag. cbn [firstn wait_loop].
  repeat env_step; reflexivity.
Qed.

(* a read error that `except IOError` catches = EOF *)
Lemma session_e_read_error : forall c cut faults w s0 e,
  read_swallows e = true ->
  session_e c cut faults (mkWenv (CErr e) (w_flush_setup w) (w_started w) (w_hosts_fail w)
                                 (w_hosts_restore_fail w) (w_flush_teardown w)) s0 =
  session_e c cut faults (mkWenv CEof (w_flush_setup w) (w_started w) (w_hosts_fail w)
                                 (w_hosts_restore_fail w) (w_flush_teardown w)) s0.
Proof.
  intros c cut faults w s0 e Hsw. unfold session_e, end_escapes.
  cbn [w_end w_flush_setup w_started w_hosts_fail]. rewrite Hsw. reflexivity.
Qed.

(* every class below OSError is caught: the classes a dead socket / pipe raises *)
Lemma read_swallows_oserror : forall e, subclass e COSError = true -> read_swallows e = true.
Proof. intros e H. exact H. Qed.

(* ------------------------------------------------------------------ *)
(* F120: the signal handler that raises (as found)                      *)
From SV Require Import Proofs.FwLife_lemmas.

Definition sig_at (k : nat) : nat -> bool := Nat.eqb k.

(* nat, both families, foreign rules present, whole dialogue, no command fails.  The client is gone; a SIGTERM
   reaches the helper while it waits for command 18, the chain listing that opens the IPv6 restore (the tear-down
   starts at command 18 and has 10 commands).  As found the handler raises: 24 commands instead of 28, the IPv6
   chain stays and traffic is still diverted into it.  With a handler that does not raise the session is `session`:
   28 commands, final state = initial state. *)
Lemma sig_relay_asfound_refuted :
  exists k,
    let r := session_sig_asfound cfg_nat (full_cut cfg_nat) no_faults (sig_at k) ex_state in
    let r' := session cfg_nat (full_cut cfg_nat) no_faults ex_state in
    r_fin_at r' <= k /\ k < r_ncmds r' /\
    kstate_eqb (r_final r') ex_state = true /\ r_ncmds r' = 28 /\
    r_outcome r = ExitReturn /\ r_ncmds r = 24 /\
    kstate_eqb (r_final r) ex_state = false /\ no_divert cfg_nat (r_final r) = false.
Proof. exists 18. cbv zeta. repeat split; try (vm_compute; reflexivity); vm_compute; lia. Qed.

(* a raising handler is harmless where a family's restore is a single command (nft: `delete table`) *)
Lemma sig_nft_harmless : forall c cut faults ab s0,
  c_method c = MNft ->
  r_final (session_sig_asfound c cut faults ab s0) = r_final (session c cut faults s0) /\
  r_events (session_sig_asfound c cut faults ab s0) = r_events (session c cut faults s0).
Proof.
  intros c cut faults ab s0 Hm. unfold session_sig_asfound, session, do_restore_a, do_restore, restore_prog.
  rewrite Hm. unfold nft_restore, run_a, run, run_step_a, run_step, run_sstep_a, run_sstep.
  destruct (Nat.ltb cut (c_nlines c)); [split; reflexivity|].
  destruct (wait_loop (firstn (cut - c_nlines c) (c_tail c))) as [h ft].
  repeat env_step;
  repeat (cbv beta iota zeta; cbn [app andb negb];
          match goal with
          | |- context [ab ?n] => destruct (ab n)
          | |- context [issue ?f ?c ?n ?s] => destruct (issue f c n s) as [[[? ?] ?] ?]
          end);
  cbv beta iota zeta; cbn [r_final r_events]; split; reflexivity.
Qed.
