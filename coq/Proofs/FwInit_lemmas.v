(* Proofs/FwInit_lemmas.v — the helper the client ends up with is the FIRST candidate
   that could be started, had not exited with a failure status and announced READY
   within its first 101 lines. *)
From Coq Require Import List NArith ZArith Ascii Bool Lia.
From SV Require Import Lib.Bytes Model.FwInit.
Import ListNotations.

Lemma scan_ready_in : forall fuel line rest,
  is_ready (scan_ready fuel line rest) = true ->
  In (scan_ready fuel line rest) (firstn (S fuel) (line :: rest)).
Proof.
  induction fuel as [|f IH]; intros line rest H.
  - cbn. left. reflexivity.
  - cbn [scan_ready] in *. destruct (is_ready line) eqn:E.
    + left. reflexivity.
    + destruct rest as [|l r].
      * exfalso. clear IH. revert H. generalize f. intros g. induction g as [|g IHg]; cbn [scan_ready].
        -- discriminate.
        -- replace (is_ready []) with false by reflexivity. exact IHg.
      * right. change (firstn (S f) (l :: r)) with (firstn (S f) (l :: r)). apply IH. exact H.
Qed.

Lemma cand_result_sound c m : cand_result c = Some m ->
  c_spawn c = true /\ (c_rv c = None \/ c_rv c = Some 0%Z) /\
  exists line, In line (firstn 101 (c_lines c)) /\ is_ready line = true /\ m = method_of line.
Proof.
  unfold cand_result. destruct (c_spawn c); cbn [negb]; [|discriminate].
  destruct (c_rv c) as [rv|] eqn:R.
  - destruct (Z.eqb rv 0) eqn:Z0; cbn [negb]; [|discriminate].
    apply Z.eqb_eq in Z0. subst rv.
    destruct (c_lines c) as [|l r].
    + replace (scan_ready 100 [] []) with (@nil ascii) by reflexivity. discriminate.
    + destruct (is_ready (scan_ready 100 l r)) eqn:E; [|discriminate].
      intros [= <-]. split; [reflexivity|]. split; [right; reflexivity|].
      exists (scan_ready 100 l r). split; [apply (scan_ready_in 100 l r E)|]. split; [exact E|reflexivity].
  - destruct (c_lines c) as [|l r].
    + replace (scan_ready 100 [] []) with (@nil ascii) by reflexivity. discriminate.
    + destruct (is_ready (scan_ready 100 l r)) eqn:E; [|discriminate].
      intros [= <-]. split; [reflexivity|]. split; [left; reflexivity|].
      exists (scan_ready 100 l r). split; [apply (scan_ready_in 100 l r E)|]. split; [exact E|reflexivity].
Qed.

Lemma fw_init_from_spec : forall cs i k m, fw_init_from i cs = Some (k, m) ->
  (i <= k)%nat /\ exists c, nth_error cs (k - i) = Some c /\ cand_result c = Some m /\
  forall j c', (j < k - i)%nat -> nth_error cs j = Some c' -> cand_result c' = None.
Proof.
  induction cs as [|c t IH]; intros i k m H; [discriminate|].
  cbn [fw_init_from] in H. destruct (cand_result c) as [m'|] eqn:E.
  - injection H as <- <-. split; [lia|]. rewrite Nat.sub_diag. exists c. split; [reflexivity|]. split; [exact E|].
    intros j c' Hj. lia.
  - destruct (IH (S i) k m H) as (Hle & c0 & Hn & Hr & Hbefore).
    split; [lia|]. exists c0. replace (k - i)%nat with (S (k - S i)) by lia.
    split; [exact Hn|]. split; [exact Hr|].
    intros j c' Hj Hnth. destruct j as [|j].
    + cbn in Hnth. injection Hnth as <-. exact E.
    + cbn in Hnth. apply (Hbefore j c'); [lia|exact Hnth].
Qed.

Lemma fw_init_chosen cs k m : fw_init cs = Some (k, m) ->
  exists c, nth_error cs k = Some c /\ cand_result c = Some m /\
  forall j c', (j < k)%nat -> nth_error cs j = Some c' -> cand_result c' = None.
Proof.
  intros H. destruct (fw_init_from_spec cs 0 k m H) as (_ & c & Hn & Hr & Hb).
  rewrite Nat.sub_0_r in *. exists c. auto.
Qed.

Lemma fw_init_from_none : forall cs i, fw_init_from i cs = None -> forall c, In c cs -> cand_result c = None.
Proof.
  induction cs as [|c t IH]; intros i H x Hx; [destruct Hx|].
  cbn [fw_init_from] in H. destruct (cand_result c) eqn:E; [discriminate|].
  destruct Hx as [<-|Hx]; [exact E|]. exact (IH (S i) H x Hx).
Qed.

Lemma fw_init_none cs : fw_init cs = None <-> forall c, In c cs -> cand_result c = None.
Proof.
  split; [apply fw_init_from_none|].
  unfold fw_init. generalize 0%nat. induction cs as [|c t IH]; intros i H; [reflexivity|].
  cbn [fw_init_from]. rewrite (H c (or_introl eq_refl)). apply IH. intros x Hx. apply H. right. exact Hx.
Qed.

(* an administrator never goes through an elevation command; everybody else ends with the direct attempt *)
Lemma try_order_shape admin d s o :
  (admin = true -> try_order admin d s o = [PDirect]) /\
  (admin = false -> exists a b, try_order admin d s o = [a; b; PDirect] /\
                     ((a = PSudo /\ b = PDoas) \/ (a = PDoas /\ b = PSudo))).
Proof.
  split; intros ->; cbn.
  - reflexivity.
  - destruct ((d && negb s) || o); eauto 6.
Qed.
