(* Proofs/FwLife_gen_meth.v — C04, general theorems, part 5: what the two iptables
   methods (nat, tproxy) share: the simulation of their programs, initial and final
   clean states, "nothing diverted", packaged for Proofs/FwLife_gen_sess.v. *)
From Coq Require Import String List NArith ZArith Ascii Bool Lia Arith.
From SV Require Import Lib.Bytes Model.FwLife Model.FwLifeSpec Proofs.FwLife_lemmas
  Proofs.FwLife_gen_run Proofs.FwLife_gen_tbl Proofs.FwLife_gen_ipt Proofs.FwLife_gen_sess.
Import ListNotations.

Lemma erase_nft_nil L : erase_nft [] L = L.
Proof. unfold erase_nft. apply filter_all. apply forallb_forall. intros x _. reflexivity. Qed.

Lemma irun_ext sp F G p n a ok n' a' tr :
  irun sp F p n a = (ok, n', a', tr) -> (forall i, n <= i < n' -> G i = F i) -> irun sp G p n a = (ok, n', a', tr).
Proof. unfold irun. apply arun_ext. Qed.

Lemma irun_win sp F p n a ok n' a' tr :
  irun sp F p n a = (ok, n', a', tr) -> n <= n' /\ length tr = n' - n.
Proof. unfold irun. apply arun_mono. Qed.

Lemma irun_app sp F xs ys n a :
  irun sp F (xs ++ ys) n a =
  let '(ok1, n1, a1, t1) := irun sp F xs n a in
  if ok1 then let '(ok2, n2, a2, t2) := irun sp F ys n1 a1 in (ok2, n2, a2, t1 ++ t2)
  else (false, n1, a1, t1).
Proof. unfold irun. apply arun_app. Qed.

Lemma irun_shift sp F p n a :
  irun sp F p n a = let '(ok, m, a', tr) := irun sp (fun i => F (n + i)) p 0 a in (ok, n + m, a', tr).
Proof. unfold irun. apply arun_shift. Qed.

Lemma irun_ext_all sp F G p n a : (forall i, G i = F i) -> irun sp G p n a = irun sp F p n a.
Proof.
  intro H. destruct (irun sp F p n a) as [[[ok n'] a'] tr] eqn:E.
  eapply irun_ext; [exact E|]. intros i _. apply H.
Qed.

(* an invariant of the abstract state that every command of a program preserves *)
Section IrunInv.
Variable sp : ispec.
Variable Inv : astate -> Prop.
Definition c_pres (c : icmd) : Prop := forall a a', iexec sp c a = Some a' -> Inv a -> Inv a'.
Definition ss_pres (x : asstep icmd) : Prop := match x with ADo c | ATry c => c_pres c end.
Definition st_pres (x : astep icmd slot) : Prop :=
  match x with ASimple y => ss_pres y | AIf _ body => Forall ss_pres body end.

Lemma aissue_inv F c n a ok a' :
  c_pres c -> aissue astate icmd (iexec sp) F c n a = (ok, a') -> Inv a -> Inv a'.
Proof.
  unfold aissue. intros Hc H Hi. destruct (F n); [injection H as <- <-; exact Hi|].
  destruct (iexec sp c a) as [a1|] eqn:E; injection H as <- <-; [eapply Hc; eassumption | exact Hi].
Qed.

Lemma arun_sstep_inv F x n a ok n' a' tr :
  ss_pres x -> arun_sstep astate icmd (iexec sp) (iconc sp) F x n a = (ok, n', a', tr) -> Inv a -> Inv a'.
Proof.
  intros Hx H Hi. destruct x as [c|c]; cbn [arun_sstep ss_pres] in *;
    destruct (aissue astate icmd (iexec sp) F c n a) as [ok1 a1] eqn:I; injection H as <- <- <- <-;
    eapply aissue_inv; eassumption.
Qed.

Lemma arun_ss_inv F xs : forall n a ok n' a' tr,
  Forall ss_pres xs -> arun_ss astate icmd (iexec sp) (iconc sp) F xs n a = (ok, n', a', tr) -> Inv a -> Inv a'.
Proof.
  induction xs as [|x xs IH]; intros n a ok n' a' tr Hx H Hi; cbn [arun_ss] in H.
  - injection H as <- <- <- <-. exact Hi.
  - inversion Hx as [|? ? Hx1 Hx2]; subst.
    destruct (arun_sstep astate icmd (iexec sp) (iconc sp) F x n a) as [[[ok1 n1] a1] t1] eqn:R1.
    pose proof (arun_sstep_inv _ _ _ _ _ _ _ _ Hx1 R1 Hi) as I1. destruct ok1.
    + destruct (arun_ss astate icmd (iexec sp) (iconc sp) F xs n1 a1) as [[[ok2 n2] a2] t2] eqn:R2.
      injection H as <- <- <- <-. eapply IH; eassumption.
    + injection H as <- <- <- <-. exact I1.
Qed.

Lemma irun_inv F xs : forall n a ok n' a' tr,
  Forall st_pres xs -> irun sp F xs n a = (ok, n', a', tr) -> Inv a -> Inv a'.
Proof.
  unfold irun. induction xs as [|x xs IH]; intros n a ok n' a' tr Hx H Hi; cbn [arun] in H.
  - injection H as <- <- <- <-. exact Hi.
  - inversion Hx as [|? ? Hx1 Hx2]; subst.
    match type of H with context [arun_step ?A ?B ?C ?D ?E ?G ?H1 ?H2 F x n a] =>
      destruct (arun_step A B C D E G H1 H2 F x n a) as [[[ok1 n1] a1] t1] eqn:R1 end.
    assert (I1 : Inv a1).
    { destruct x as [y|t body]; cbn [arun_step st_pres] in *; [eapply arun_sstep_inv; eassumption|].
      destruct (F n); [injection R1 as <- <- <- <-; exact Hi|].
      destruct (itest t a); [|injection R1 as <- <- <- <-; exact Hi].
      destruct (arun_ss astate icmd (iexec sp) (iconc sp) F body (S n) a) as [[[ok2 n2] a2] t2] eqn:R2.
      injection R1 as <- <- <- <-. eapply arun_ss_inv; eassumption. }
    destruct ok1.
    + match type of H with context [arun ?A ?B ?C ?D ?E ?G ?H1 ?H2 F xs n1 a1] =>
        destruct (arun A B C D E G H1 H2 F xs n1 a1) as [[[ok2 n2] a2] t2] eqn:R2 end.
      injection H as <- <- <- <-. eapply IH; eassumption.
    + injection H as <- <- <- <-. exact I1.
Qed.
End IrunInv.

(* ------------------------------------------------------------------ *)
Section IptMethod.
Variable c : cfg.
Variable tb : tbl.
Variable sp : fam -> ispec.
Variables AS AR : fam -> iprog.

Hypothesis Hfam : forall f, is_fam (sp f) = f.
Hypothesis Htb : forall f, is_tbl (sp f) = tb.
Hypothesis Hspwf : forall f, fc_on (fcfg c f) = true -> is_wf (sp f).
Hypothesis Hown : forall f t, own_chains c f t =
  if fc_on (fcfg c f) then (match t, tb with TNat, TNat | TMangle, TMangle => is_names (sp f) | _, _ => [] end) else [].
Hypothesis Hmark : forall f t, own_mark c f t = None.
Hypothesis Hnft : own_nft c = [].
Hypothesis HprogS : forall f, fc_on (fcfg c f) = true -> setup_prog c f = map (icomp (sp f)) (AS f).
Hypothesis HprogR : forall f, fc_on (fcfg c f) = true -> restore_prog c f = map (icomp (sp f)) (AR f).
Hypothesis HonS : forall f, fc_on (fcfg c f) = true -> prog_on (sp f) (AS f).
Hypothesis HonR : forall f, fc_on (fcfg c f) = true -> prog_on (sp f) (AR f).

Definition mR (f : fam) (s : kstate) (a : astate) : Prop := RelS (sp f) s a.
Definition mS (F : faultfn) (f : fam) (n : nat) (a : astate) := irun (sp f) F (AS f) n a.
Definition mRr (F : faultfn) (f : fam) (n : nat) (a : astate) := irun (sp f) F (AR f) n a.

Lemma m_sim (prog : fam -> list step) (AP : fam -> iprog) :
  (forall f, fc_on (fcfg c f) = true -> prog f = map (icomp (sp f)) (AP f)) ->
  (forall f, fc_on (fcfg c f) = true -> prog_on (sp f) (AP f)) ->
  sim_hyp c astate mR prog (fun F f n a => irun (sp f) F (AP f) n a).
Proof.
  intros Hp Hon F f n s a ok n' s' ev On Hr Run. unfold on in On. rewrite (Hp f On) in Run.
  destruct (irun_sim (sp f) (Hspwf f On) F (AP f) n s a ok n' s' ev (Hon f On) Hr Run) as (a' & A & Hr' & Hfr & _).
  exists a'. split; [exact A|]. split; [exact Hr'|].
  intros f' x Hne Hx. unfold mR, RelS in *. rewrite Hfr; [exact Hx|].
  rewrite !Hfam, !Htb. intro E. injection E as E. contradiction.
Qed.

Lemma m_ext (AP : fam -> iprog) : ext_hyp astate (fun F f n a => irun (sp f) F (AP f) n a).
Proof. intros F G f n a ok n' a' tr. apply irun_ext. Qed.
Lemma m_win (AP : fam -> iprog) : win_hyp astate (fun F f n a => irun (sp f) F (AP f) n a).
Proof. intros F f n a ok n' a' tr. apply irun_win. Qed.

Lemma own_chains_other f t : t <> tb -> own_chains c f t = [].
Proof. intro H. rewrite Hown. destruct (fc_on (fcfg c f)); [|reflexivity]. destruct t, tb; try reflexivity; contradiction. Qed.
Lemma own_chains_tb f : fc_on (fcfg c f) = true -> own_chains c f tb = is_names (sp f).
Proof. intro H. rewrite Hown, H. destruct tb; reflexivity. Qed.
Lemma own_chains_off f t : fc_on (fcfg c f) = false -> own_chains c f t = [].
Proof. intro H. rewrite Hown, H. reflexivity. Qed.

Lemma m_tbl_fix f t s :
  (fc_on (fcfg c f) = true -> mR f s a_clean) ->
  erase_tbl (own_chains c f t) (own_mark c f t) (get_tbl f t s) = get_tbl f t s.
Proof.
  intro H. rewrite Hmark. destruct (fc_on (fcfg c f)) eqn:On.
  - assert (D : t = tb \/ t <> tb) by (destruct t, tb; auto; right; discriminate).
    destruct D as [->|D]; [|rewrite (own_chains_other f t D); apply erase_tbl_nil].
    rewrite (own_chains_tb f On). apply clean_erase_fix. apply (rel_clean_fin (sp f)).
    specialize (H eq_refl). unfold mR, RelS in H. rewrite Hfam, Htb in H. exact H.
  - rewrite (own_chains_off f t On). apply erase_tbl_nil.
Qed.

Lemma m_fin s : (forall f, on c f = true -> mR f s a_clean) -> erase c s = s.
Proof.
  intro H. unfold erase. rewrite Hnft, erase_nft_nil.
  pose proof (m_tbl_fix V6 TNat s (H V6)) as E1. pose proof (m_tbl_fix V6 TMangle s (H V6)) as E2.
  pose proof (m_tbl_fix V4 TNat s (H V4)) as E3. pose proof (m_tbl_fix V4 TMangle s (H V4)) as E4.
  cbn [get_tbl] in E1, E2, E3, E4. rewrite E1, E2, E3, E4.
  destruct s; reflexivity.
Qed.

Lemma m_tbl_nd f t s a :
  (fc_on (fcfg c f) = true -> mR f s a /\ a_nd (sp f) a = true) ->
  no_divert_tbl (own_chains c f t) (get_tbl f t s) = true.
Proof.
  intro H. destruct (fc_on (fcfg c f)) eqn:On.
  - assert (D : t = tb \/ t <> tb) by (destruct t, tb; auto; right; discriminate).
    destruct D as [->|D]; [|rewrite (own_chains_other f t D); apply no_divert_nil].
    rewrite (own_chains_tb f On). destruct (H eq_refl) as [Hr Hn].
    apply (rel_no_divert (sp f) _ a); [|exact Hn].
    unfold mR, RelS in Hr. rewrite Hfam, Htb in Hr. exact Hr.
  - rewrite (own_chains_off f t On). apply no_divert_nil.
Qed.

Lemma m_nd s (a : fam -> astate) :
  (forall f, on c f = true -> mR f s (a f) /\ a_nd (sp f) (a f) = true) -> no_divert c s = true.
Proof.
  intro H. unfold no_divert. rewrite Hnft.
  pose proof (m_tbl_nd V6 TNat s (a V6) (H V6)) as E1. pose proof (m_tbl_nd V6 TMangle s (a V6) (H V6)) as E2.
  pose proof (m_tbl_nd V4 TNat s (a V4) (H V4)) as E3. pose proof (m_tbl_nd V4 TMangle s (a V4) (H V4)) as E4.
  cbn [get_tbl] in E1, E2, E3, E4. rewrite E1, E2, E3, E4.
  cbn [andb]. apply forallb_forall. intros x _. reflexivity.
Qed.

Lemma kst_wf_tbl s f t : kst_wf s = true -> tbl_wf (get_tbl f t s) = true.
Proof.
  unfold kst_wf. intro H. apply andb_true_iff in H as [H H4]. apply andb_true_iff in H as [H H3].
  apply andb_true_iff in H as [H1 H2]. destruct f, t; assumption.
Qed.

Lemma erase_get f t s : erase c s = s ->
  erase_tbl (own_chains c f t) (own_mark c f t) (get_tbl f t s) = get_tbl f t s.
Proof.
  intro H. unfold erase in H. destruct s as [a b d e n p]. cbn [k_v6nat k_v6mangle k_v4nat k_v4mangle k_nft k_pf] in H.
  injection H as H1 H2 H3 H4 H5. destruct f, t; assumption.
Qed.

Lemma m_init s : erase c s = s -> kst_wf s = true -> St c astate mR s a_clean a_clean.
Proof.
  intros He Hw.
  assert (G : forall f, on c f = true -> mR f s a_clean).
  { intros f On. unfold on in On. unfold mR, RelS. rewrite Hfam, Htb.
    apply (rel_clean_init (sp f)); [|apply kst_wf_tbl; exact Hw].
    apply erase_fix_clean. pose proof (erase_get f tb s He) as E.
    rewrite Hmark, (own_chains_tb f On) in E. exact E. }
  split; apply G.
Qed.
End IptMethod.
