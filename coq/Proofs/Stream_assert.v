(* Proofs/Stream_assert.v — the CONNECT assertion of Mux.got_packet
   (`assert not self.channels.get(channel)`) never fires.

   The peer of a flow always frees a channel identifier before the allocating
   side does: when a CONNECT for identifier c is dispatched at the server, the
   server has no wrapper registered for c any more.  The argument combines
     - the registration invariant (Stream_reg.Rinv),
     - the alignment invariant between the ends (Stream_flow.ALinv),
     - the per-flow view invariant (Stream_view.Vinv: vi_n1, vi_n3), and
     - two new history invariants proved here:
         Einv        flow numbers are dense, and of two flows of one end that
                     share an identifier the older one is closed;
         quiet_after an incarnation that is older than a CONNECT on the way and
                     shares its identifier sends only DATA behind that CONNECT
                     (never EOF or STOP, which it has already sent or received). *)
From Coq Require Import List NArith Ascii Bool Lia.
From SV Require Import Lib.Bytes Model.Wire Model.Chan Model.Stream
  Proofs.Wire_lemmas Proofs.Chan_lemmas Proofs.Stream_basic Proofs.Stream_wrap Proofs.Stream_cb
  Proofs.Stream_reg Proofs.Stream_fw Proofs.Stream_view Proofs.Stream_flow.
Import ListNotations.
Local Open Scope N_scope.

(* ---------------- history invariant of one end ---------------- *)
Record Einv (e : endpt) : Prop := {
  e_dense : forall g, g < e_next e -> e_prox e g <> None;
  e_hist : forall g h p q, g < h -> e_prox e g = Some p -> e_prox e h = Some q ->
           m_chan (p_m p) = m_chan (p_m q) -> closed (p_m p) = true
}.

Lemma Einv_end0 : Einv end0.
Proof. constructor; cbn; intros; [lia|discriminate]. Qed.

Definition prox_evolve (e e' : endpt) : Prop :=
  e_next e' = e_next e /\
  forall f, match e_prox e f, e_prox e' f with
            | Some p, Some p' => muxw_mono (p_m p) (p_m p')
            | None, None => True
            | _, _ => False
            end.

Definition prox_new (e e' : endpt) (c : N) : Prop :=
  x_chan (e_mux e) c = None /\ e_next e' = e_next e + 1 /\
  exists np, m_chan (p_m np) = c /\
    forall f, e_prox e' f = if f =? e_next e then Some np else e_prox e f.

Lemma prox_evolve_same e e' :
  e_next e' = e_next e -> (forall f, e_prox e' f = e_prox e f) -> prox_evolve e e'.
Proof.
  intros A B. split; [exact A|]. intros f. rewrite B. destruct (e_prox e f); [apply muxw_mono_refl|exact I].
Qed.

Lemma prox_evolve_upd e g p p' x :
  e_prox e g = Some p -> muxw_mono (p_m p) (p_m p') -> prox_evolve e (set_prox e g p' x).
Proof.
  intros Hp Hm. split; [reflexivity|]. intros f. cbn [set_prox e_prox]. unfold upd.
  destruct (N.eqb_spec f g) as [->|Hne].
  - rewrite Hp. exact Hm.
  - destruct (e_prox e f); [apply muxw_mono_refl|exact I].
Qed.

Lemma Einv_evolve e e' : Einv e -> prox_evolve e e' -> Einv e'.
Proof.
  intros [D H] [En Hf]. constructor.
  - intros g Hg. rewrite En in Hg. specialize (D g Hg). specialize (Hf g).
    destruct (e_prox e g); [|congruence]. destruct (e_prox e' g); [discriminate|contradiction].
  - intros g h p' q' Hgh Hp Hq Ec.
    pose proof (Hf g) as Fg. pose proof (Hf h) as Fh. rewrite Hp in Fg. rewrite Hq in Fh.
    destruct (e_prox e g) as [p|] eqn:Ep; [|contradiction].
    destruct (e_prox e h) as [q|] eqn:Eq; [|contradiction].
    apply (closed_mono _ _ Fg). apply (H g h p q Hgh Ep Eq).
    destruct Fg as (A & _). destruct Fh as (B & _). congruence.
Qed.

Lemma Einv_new e e' c : Rinv e -> Einv e -> prox_new e e' c -> Einv e'.
Proof.
  intros R [D H] (Hc & En & np & Hnp & Hf). constructor.
  - intros g Hg. rewrite Hf. destruct (N.eqb_spec g (e_next e)) as [->|Hne]; [discriminate|].
    apply D. lia.
  - intros g h p q Hgh Hp Hq Ec. rewrite Hf in Hp, Hq.
    destruct (N.eqb_spec g (e_next e)) as [Eg|Hg].
    + destruct (N.eqb_spec h (e_next e)) as [Eh|Hh]; [lia|].
      pose proof (r_fresh _ R h q Hq). lia.
    + destruct (N.eqb_spec h (e_next e)) as [Eh|Hh].
      * assert (Eq : q = np) by congruence. subst q.
        destruct (closed (p_m p)) eqn:Ecl; [reflexivity|].
        pose proof (r_open _ R g p Hp Ecl) as Hreg. rewrite Ec, Hnp, Hc in Hreg. discriminate.
      * apply (H g h p q Hgh Hp Hq Ec).
Qed.

(* ---------------- nothing but DATA follows a CONNECT from older incarnations ---------------- *)
Definition quiet_one (fr : sframe) (tl : list sframe) : Prop :=
  forall f, sf_cmd fr = CConnect -> sf_fid fr = Some f ->
  forall fr2 g, In fr2 tl -> sf_fid fr2 = Some g -> g < f -> sf_ch fr2 = sf_ch fr -> sf_cmd fr2 = CData.

Fixpoint quiet_after (l : list sframe) : Prop :=
  match l with
  | [] => True
  | fr :: tl => quiet_one fr tl /\ quiet_after tl
  end.

Lemma qa_app l new : quiet_after l -> quiet_after new ->
  (forall fr, In fr l -> quiet_one fr new) -> quiet_after (l ++ new).
Proof.
  induction l as [|a l IH]; intros Hl Hn Hx; [exact Hn|].
  destruct Hl as [H1 H2]. cbn [app quiet_after]. split.
  - intros f Hc Hf fr2 g Hin. apply in_app_or in Hin. destruct Hin as [Hin|Hin].
    + apply (H1 f Hc Hf fr2 g Hin).
    + apply (Hx a (or_introl eq_refl) f Hc Hf fr2 g Hin).
  - apply IH; auto. intros fr Hin. apply Hx. right. exact Hin.
Qed.

Lemma qa_no_connect new : (forall fr, In fr new -> sf_cmd fr <> CConnect) -> quiet_after new.
Proof.
  induction new as [|a l IH]; intros H; cbn [quiet_after]; [exact I|]. split.
  - intros f Hc. exfalso. apply (H a); [left; reflexivity|exact Hc].
  - apply IH. intros fr Hin. apply H. right. exact Hin.
Qed.

Lemma quiet_one_nofid fr new : (forall a, In a new -> sf_fid a = None) -> quiet_one fr new.
Proof. intros H f _ _ fr2 g Hin Hg. rewrite (H fr2 Hin) in Hg. discriminate. Qed.

Lemma qa_skipn k : forall l, quiet_after l -> quiet_after (skipn k l).
Proof.
  induction k as [|k IH]; intros l H; [exact H|].
  destruct l as [|a l]; [exact I|]. cbn [skipn]. apply IH. apply H.
Qed.

Lemma in_skipn {A} k : forall (l : list A) a, In a (skipn k l) -> In a l.
Proof.
  induction k as [|k IH]; intros l a H; [exact H|].
  destruct l as [|b l]; [exact H|]. right. apply IH. exact H.
Qed.

(* ---------------- the invariant ---------------- *)
Record Sinv (w : world) : Prop := {
  s_cl : Einv (w_cl w);
  s_sv : Einv (w_sv w);
  s_quiet : quiet_after (path w Client);
  s_cfid : forall fr, In fr (path w Client) -> sf_cmd fr = CConnect -> sf_fid fr <> None;
  s_nosc : forall fr, In fr (path w Server) -> sf_cmd fr <> CConnect
}.

Lemma Sinv_world0 maxc lbs : Sinv (world0 maxc lbs).
Proof.
  constructor; try apply Einv_end0.
  - unfold path; cbn. split; [|exact I]. intros f Hc. discriminate.
  - unfold path; cbn. intros fr [<-|[]]. discriminate.
  - unfold path; cbn. intros fr [<-|[]]. discriminate.
Qed.

Definition end_step (e e' : endpt) : Prop := prox_evolve e e' \/ exists c, prox_new e e' c.

Lemma Sinv_build w w' kc ks new_c new_s :
  Winv w -> Sinv w ->
  (forall s2, end_step (get_end w s2) (get_end w' s2)) ->
  path w' Client = skipn kc (path w Client) ++ new_c ->
  path w' Server = skipn ks (path w Server) ++ new_s ->
  quiet_after new_c -> (forall fr, In fr (path w Client) -> quiet_one fr new_c) ->
  (forall fr, In fr new_c -> sf_cmd fr = CConnect -> sf_fid fr <> None) ->
  (forall fr, In fr new_s -> sf_cmd fr <> CConnect) ->
  Sinv w'.
Proof.
  intros W [S1 S2 S3 S4 S5] Hends Hpc Hps Hq Hx Hcf Hns.
  assert (HE : forall s2, Einv (get_end w s2) -> Einv (get_end w' s2)).
  { intros s2 E. destruct (Hends s2) as [H|(c & H)].
    - apply (Einv_evolve _ _ E H).
    - apply (Einv_new _ _ c (Winv_get w s2 W) E H). }
  constructor.
  - apply (HE Client S1).
  - apply (HE Server S2).
  - rewrite Hpc. apply qa_app; [apply qa_skipn; exact S3|exact Hq|].
    intros fr Hin. apply Hx. apply (in_skipn kc). exact Hin.
  - intros fr Hin. rewrite Hpc in Hin. apply in_app_or in Hin. destruct Hin as [Hin|Hin].
    + apply S4. apply (in_skipn kc). exact Hin.
    + apply Hcf. exact Hin.
  - intros fr Hin. rewrite Hps in Hin. apply in_app_or in Hin. destruct Hin as [Hin|Hin].
    + apply S5. apply (in_skipn ks). exact Hin.
    + apply Hns. exact Hin.
Qed.

(* frames of a flow are never CONNECTs *)
Lemma flow_frame_not_connect c g fr : flow_frame c g fr -> sf_cmd fr <> CConnect.
Proof. intros (_ & _ & [F|[[F _]|[F _]]]); congruence. Qed.

Lemma end_step_refl e : end_step e e.
Proof. left. apply prox_evolve_same; reflexivity. Qed.

(* ---------------- one proxy acts ---------------- *)
Lemma act_Sinv w sd g p p' x' new :
  e_prox (get_end w sd) g = Some p ->
  x_out x' = x_out (e_mux (get_end w sd)) ++ new ->
  Forall (flow_frame (m_chan (p_m p)) g) new ->
  muxw_mono (p_m p) (p_m p') ->
  (closed (p_m p) = true -> forall fr, In fr new -> sf_cmd fr = CData) ->
  Winv w -> ALinv w -> Sinv w -> Sinv (w_act w sd g p' x').
Proof.
  intros Hp Hout Hnew Hm Hcl W AL S.
  pose proof (act_path_same w sd g p p' x' new Hp Hout) as Ps.
  pose proof (act_path_other w sd g p p' x' new Hp Hout) as Po.
  assert (Hends : forall s2, end_step (get_end w s2) (get_end (w_act w sd g p' x') s2)).
  { intros s2. destruct (side_eq_dec s2 sd) as [->|Hne].
    - unfold w_act. rewrite get_set_end. left. apply (prox_evolve_upd _ _ p); assumption.
    - assert (s2 = other sd) by (destruct s2, sd; try reflexivity; contradiction). subst s2.
      unfold w_act. rewrite get_set_end_other. apply end_step_refl. }
  assert (Hnc : forall fr, In fr new -> sf_cmd fr <> CConnect).
  { intros fr Hin. rewrite Forall_forall in Hnew. apply (flow_frame_not_connect _ _ _ (Hnew fr Hin)). }
  destruct sd; cbn [other] in *.
  - apply (Sinv_build w _ 0 0 new [] W S Hends); cbn [skipn].
    + exact Ps.
    + rewrite Po, app_nil_r. reflexivity.
    + apply qa_no_connect. exact Hnc.
    + intros fr Hin f Hc Hf fr2 g2 Hin2 Hg2 Hlt Hch.
      rewrite Forall_forall in Hnew. destruct (Hnew fr2 Hin2) as (F1 & F2 & F3).
      assert (g2 = g) by congruence. subst g2.
      destruct (al_cs w AL fr f Hin Hf) as (q & Hq & Ec).
      apply Hcl; [|exact Hin2].
      apply (e_hist _ (s_cl w S) g f p q Hlt Hp Hq). congruence.
    + intros fr Hin Hc. exfalso. apply (Hnc fr Hin Hc).
    + intros fr [].
  - apply (Sinv_build w _ 0 0 [] new W S Hends); cbn [skipn].
    + rewrite Po, app_nil_r. reflexivity.
    + exact Ps.
    + exact I.
    + intros fr _. apply quiet_one_nofid. intros a [].
    + intros fr [].
    + exact Hnc.
Qed.

Lemma closed_flags m : closed m = true -> m_sr m = true /\ m_sw m = true.
Proof. unfold closed. intros H. apply andb_true_iff in H. exact H. Qed.

Lemma callback_Sinv w sd g o w' : step w (EvCallback sd g o) = Ok w' ->
  Winv w -> ALinv w -> Sinv w -> Sinv w'.
Proof.
  cbn [step]. destruct (e_prox (get_end w sd) g) as [p|] eqn:Ep; [|discriminate].
  destruct (live p); [|discriminate].
  destruct (proxy_callback sd g p (e_mux (get_end w sd)) o) as [[p' x']|cr] eqn:Ecb; [|discriminate].
  intros [= <-]. pose proof (callback_spec _ _ _ _ _ _ _ Ecb) as F. destr_cb F.
  pose proof (me_out _ _ _ _ _ Fext) as Hout. pose proof (me_frames _ _ _ _ _ Fext) as Hnew.
  apply (act_Sinv w sd g p p' x' cbnew Ep Hout Hnew Fmmono).
  intros Hc fr Hin. destruct (closed_flags _ Hc) as [Hsr Hsw].
  rewrite Forall_forall in Hnew. destruct (Hnew fr Hin) as (_ & _ & [C|[[C _]|[C _]]]); [exact C| |].
  - exfalso. assert (E : m_sw (p_m p') = m_sw (p_m p)).
    { destruct Fmmono as (_ & _ & M). rewrite (M Hsw). symmetry. exact Hsw. }
    apply (Fnoeof E fr Hin C).
  - exfalso. assert (Hs : has_stop cbnew) by (exists fr; auto).
    destruct (Fstopf Hs) as [_ X]. congruence.
Qed.

Lemma preselect_Sinv w sd g w' : step w (EvPreSelect sd g) = Ok w' ->
  Winv w -> ALinv w -> Sinv w -> Sinv w'.
Proof.
  cbn [step]. destruct (e_prox (get_end w sd) g) as [p|] eqn:Ep; [|discriminate].
  destruct (live p); [|discriminate].
  pose proof (pre_select_spec sd g p (e_mux (get_end w sd))) as F.
  destruct (proxy_pre_select sd g p (e_mux (get_end w sd))) as [[p' x'] ws].
  destruct F as (sn & Fext & Fcc & Fmm & Esn & _).
  intros [= <-].
  pose proof (me_out _ _ _ _ _ Fext) as Hout. pose proof (me_frames _ _ _ _ _ Fext) as Hnew.
  apply (act_Sinv w sd g p p' x' sn Ep Hout Hnew Fmm).
  intros Hc fr Hin. destruct (closed_flags _ Hc) as [Hsr Hsw].
  rewrite Esn, Hsr in Hin. destruct (s_sw (p_s p)); destruct Hin.
Qed.

(* ---------------- client.onaccept_tcp ---------------- *)
Lemma accept_Sinv w payload w' : step w (EvAccept payload) = Ok w' ->
  Winv w -> ALinv w -> Sinv w -> Sinv w'.
Proof.
  cbn [step]. intros [= <-] W AL S. unfold client_accept.
  destruct (next_channel (w_maxc w) (occ (e_mux (w_cl w))) (x_chani (e_mux (w_cl w)))) as [r chani'] eqn:En.
  destruct r as [c|].
  2:{ apply (Sinv_build w _ 0 0 [] [] W S); cbn [skipn].
      - intros [|]; [|apply end_step_refl]. left. apply prox_evolve_same; reflexivity.
      - rewrite app_nil_r. unfold path, inlink. reflexivity.
      - rewrite app_nil_r. reflexivity.
      - exact I.
      - intros fr _. apply quiet_one_nofid. intros a [].
      - intros fr [].
      - intros fr []. }
  destruct (next_channel_some _ _ _ _ _ En) as (_ & Hocc & _).
  set (g := e_next (w_cl w)).
  set (fr0 := mkSF c CConnect payload (Some g)).
  set (np := mkProxy true false (new_sock false) (new_muxw c)).
  match goal with |- Sinv ?W => set (w1 := W) end.
  assert (Hpc : path w1 Client = path w Client ++ [fr0]).
  { unfold w1, path, inlink. cbn. rewrite app_assoc. reflexivity. }
  assert (Hps : path w1 Server = path w Server) by reflexivity.
  apply (Sinv_build w w1 0 0 [fr0] [] W S); cbn [skipn].
  - intros [|]; [|apply end_step_refl]. right. exists c. split; [|split].
    + unfold occ in Hocc. cbn [get_end]. destruct (x_chan (e_mux (w_cl w)) c); [discriminate|reflexivity].
    + reflexivity.
    + exists np. split; reflexivity.
  - exact Hpc.
  - rewrite Hps, app_nil_r. reflexivity.
  - split; [|exact I]. intros f _ _ fr2 g2 [].
  - intros fr Hin f Hc Hf fr2 g2 [<-|[]] Hg2 Hlt _. exfalso.
    cbn in Hg2. assert (g2 = g) by congruence. subst g2.
    destruct (al_cs w AL fr f Hin Hf) as (q & Hq & _).
    pose proof (r_fresh _ (proj1 W) f q Hq). unfold g in Hlt. lia.
  - intros fr [<-|[]] _. discriminate.
  - intros fr [].
Qed.

(* ---------------- events that touch no wrapper state ---------------- *)
Lemma flush_Sinv w sd w' : step w (EvFlush sd) = Ok w' -> Winv w -> Sinv w -> Sinv w'.
Proof.
  intros Hs W S. destruct (flush_views _ _ _ Hs) as [Hp Hf].
  assert (Hn : forall s2, e_next (get_end w' s2) = e_next (get_end w s2)).
  { revert Hs. cbn [step]. destruct (x_out (e_mux (get_end w sd))); intros [= <-]; [reflexivity|].
    intros s2. destruct sd, s2; reflexivity. }
  apply (Sinv_build w w' 0 0 [] [] W S); cbn [skipn].
  - intros s2. left. apply prox_evolve_same; [apply Hn|apply Hf].
  - rewrite app_nil_r. apply Hp.
  - rewrite app_nil_r. apply Hp.
  - exact I.
  - intros fr _. apply quiet_one_nofid. intros a [].
  - intros fr [].
  - intros fr [].
Qed.

Lemma checkfull_Sinv w sd w' : step w (EvCheckFull sd) = Ok w' -> Winv w -> Sinv w -> Sinv w'.
Proof.
  intros Hs W S. destruct (checkfull_views _ _ _ Hs) as (_ & Hf & Hpath).
  assert (Hn : forall s2, e_next (get_end w' s2) = e_next (get_end w s2)).
  { revert Hs. cbn [step]. intros [= <-]. intros s2. destruct sd, s2; reflexivity. }
  destruct (Hpath Client) as (nc & Ec & Hnc). destruct (Hpath Server) as (ns & Es & Hns).
  rewrite Forall_forall in Hnc, Hns.
  apply (Sinv_build w w' 0 0 nc ns W S); cbn [skipn].
  - intros s2. left. apply prox_evolve_same; [apply Hn|apply Hf].
  - exact Ec.
  - exact Es.
  - apply qa_no_connect. intros fr Hin. destruct (Hnc fr Hin) as [_ C]. congruence.
  - intros fr _. apply quiet_one_nofid. intros a Ha. apply (Hnc a Ha).
  - intros fr Hin C. destruct (Hnc fr Hin) as [_ C2]. congruence.
  - intros fr Hin. destruct (Hns fr Hin) as [_ C]. congruence.
Qed.

Lemma remove_Sinv w sd g w' : step w (EvRemove sd g) = Ok w' -> Winv w -> Sinv w -> Sinv w'.
Proof.
  intros Hs W S. destruct (remove_views _ _ _ _ Hs) as [Hp Hf].
  assert (Hn : forall s2, e_next (get_end w' s2) = e_next (get_end w s2)).
  { revert Hs. cbn [step]. destruct (e_prox (get_end w sd) g) as [p|]; [|discriminate].
    destruct (negb (p_ok p) && live p); [|discriminate]. intros [= <-].
    intros s2. destruct sd, s2; reflexivity. }
  apply (Sinv_build w w' 0 0 [] [] W S); cbn [skipn].
  - intros s2. left. split; [apply Hn|]. intros f. destruct (Hf s2 f) as (_ & E & [N1 N2]).
    destruct (e_prox (get_end w s2) f) as [p|] eqn:E1; destruct (e_prox (get_end w' s2) f) as [p'|] eqn:E2; auto.
    + cbn in E. rewrite E. apply muxw_mono_refl.
    + specialize (N1 eq_refl). discriminate.
    + specialize (N2 eq_refl). discriminate.
  - rewrite app_nil_r. apply Hp.
  - rewrite app_nil_r. apply Hp.
  - exact I.
  - intros fr _. apply quiet_one_nofid. intros a [].
  - intros fr [].
  - intros fr [].
Qed.

(* ---------------- Mux.handle dispatches one frame ---------------- *)
Lemma got_packet_shape sd e fr o e' st : mux_got_packet sd e fr o = Ok (e', st) ->
  (prox_evolve e e' \/ (sd = Server /\ sf_cmd fr = CConnect /\ prox_new e e' (sf_ch fr))) /\
  exists nw, x_out (e_mux e') = x_out (e_mux e) ++ nw /\
             forall a, In a nw -> sf_fid a = None /\ sf_cmd a = CPong.
Proof.
  unfold mux_got_packet. intros H.
  assert (Hsame : e' = e -> (prox_evolve e e' \/ (sd = Server /\ sf_cmd fr = CConnect /\ prox_new e e' (sf_ch fr))) /\
            exists nw, x_out (e_mux e') = x_out (e_mux e) ++ nw /\
                       forall a, In a nw -> sf_fid a = None /\ sf_cmd a = CPong).
  { intros ->. split; [left; apply prox_evolve_same; reflexivity|]. exists []. rewrite app_nil_r. split; [reflexivity|intros a []]. }
  assert (Hwr : forall g p m' x', e_prox e g = Some p -> muxw_mono (p_m p) m' -> x_out x' = x_out (e_mux e) ->
            e' = set_prox e g (mkProxy (p_ok p) (p_removed p) (p_s p) m') x' ->
            (prox_evolve e e' \/ (sd = Server /\ sf_cmd fr = CConnect /\ prox_new e e' (sf_ch fr))) /\
            exists nw, x_out (e_mux e') = x_out (e_mux e) ++ nw /\
                       forall a, In a nw -> sf_fid a = None /\ sf_cmd a = CPong).
  { intros g p m' x' Hp Hm Ho ->. split; [left; apply (prox_evolve_upd e g p); [exact Hp|exact Hm]|].
    exists []. rewrite app_nil_r. split; [exact Ho|intros a []]. }
  destruct (sf_cmd fr) eqn:Ecmd.
  - apply ok_pair_inj in H. destruct H as [<- _]. split; [left; apply prox_evolve_same; reflexivity|].
    exists [mkSF 0 CPong (sf_data fr) None]. split; [reflexivity|]. intros a [<-|[]]. split; reflexivity.
  - apply ok_pair_inj in H. destruct H as [<- _]. split; [left; apply prox_evolve_same; reflexivity|].
    exists []. rewrite app_nil_r. split; [reflexivity|intros a []].
  - destruct (occ (e_mux e) (sf_ch fr)) eqn:Eocc; [discriminate|]. destruct sd.
    + apply ok_pair_inj in H. destruct H as [<- _]. apply Hsame. reflexivity.
    + destruct (server_new_channel e (sf_ch fr) o) as [e1|cr] eqn:En; [|discriminate].
      apply ok_pair_inj in H. destruct H as [<- _].
      unfold server_new_channel in En.
      destruct (s_try_connect (new_sock true) (io_conn o) (io_shut_ok o)) as [s|cr]; [|discriminate].
      injection En as <-. split.
      * right. split; [reflexivity|]. split; [reflexivity|]. split; [|split].
        -- unfold occ in Eocc. destruct (x_chan (e_mux e) (sf_ch fr)); [discriminate|reflexivity].
        -- reflexivity.
        -- exists (mkProxy true false s (new_muxw (sf_ch fr))). split; reflexivity.
      * exists []. rewrite app_nil_r. split; [reflexivity|intros a []].
  - destruct (x_chan (e_mux e) (sf_ch fr)) as [g|]; [|apply ok_pair_inj in H; destruct H as [<- _]; apply Hsame; reflexivity].
    destruct (e_prox e g) as [p|] eqn:Epg; [|discriminate]. cbn [m_got_packet] in H.
    destruct (setnowrite_ext (p_m p) (e_mux e) g) as (X1 & X2 & _).
    destruct (m_setnowrite (p_m p) (e_mux e)) as [m' x'] eqn:Em. cbn [fst snd] in *.
    apply ok_pair_inj in H. destruct H as [<- _].
    apply (Hwr g p m' x' Epg X2); [|reflexivity]. rewrite (me_out _ _ _ _ _ X1), app_nil_r. reflexivity.
  - destruct (x_chan (e_mux e) (sf_ch fr)) as [g|]; [|apply ok_pair_inj in H; destruct H as [<- _]; apply Hsame; reflexivity].
    destruct (e_prox e g) as [p|] eqn:Epg; [|discriminate]. cbn [m_got_packet] in H.
    destruct (setnoread_ext (p_m p) (e_mux e) g) as (X1 & X2 & _).
    destruct (m_setnoread (p_m p) (e_mux e)) as [m' x'] eqn:Em. cbn [fst snd] in *.
    apply ok_pair_inj in H. destruct H as [<- _].
    apply (Hwr g p m' x' Epg X2); [|reflexivity]. rewrite (me_out _ _ _ _ _ X1), app_nil_r. reflexivity.
  - destruct (x_chan (e_mux e) (sf_ch fr)) as [g|]; [|apply ok_pair_inj in H; destruct H as [<- _]; apply Hsame; reflexivity].
    destruct (e_prox e g) as [p|] eqn:Epg; [|discriminate]. cbn [m_got_packet] in H.
    apply ok_pair_inj in H. destruct H as [<- _].
    apply (Hwr g p (mkMuxw (m_chan (p_m p)) (m_sr (p_m p)) (m_sw (p_m p)) (m_buf (p_m p) ++ [sf_data fr])) (e_mux e) Epg); [|reflexivity|reflexivity].
    unfold muxw_mono. cbn. auto.
  - destruct (x_chan (e_mux e) (sf_ch fr)) as [g|]; [|apply ok_pair_inj in H; destruct H as [<- _]; apply Hsame; reflexivity].
    destruct (e_prox e g) as [p|] eqn:Epg; [|discriminate]. cbn [m_got_packet] in H. discriminate.
Qed.

Lemma deliver_Sinv w sd o w' : step w (EvDeliver sd o) = Ok w' -> Winv w -> Sinv w -> Sinv w'.
Proof.
  intros Hs W S.
  destruct (inlink w (other sd)) as [|fr rest] eqn:Hl.
  { rewrite (deliver_empty _ _ _ _ Hs Hl). exact S. }
  destruct (deliver_shape _ _ _ _ _ _ Hs Hl) as (e' & st & Hg & E1 & E2 & E3 & E4 & E5).
  destruct (got_packet_shape _ _ _ _ _ _ Hg) as (Hend & nw & Hout & Hnw).
  set (tl := rest ++ x_out (e_mux (get_end w (other sd)))).
  assert (Hp : path w (other sd) = fr :: tl) by (unfold path; rewrite Hl; reflexivity).
  assert (Hp' : path w' (other sd) = skipn 1 (path w (other sd)) ++ []).
  { rewrite Hp. cbn [skipn]. rewrite app_nil_r. unfold path. rewrite E3, E2. reflexivity. }
  assert (Hq : path w' sd = skipn 0 (path w sd) ++ nw).
  { cbn [skipn]. unfold path. rewrite E4, E1, Hout, app_assoc. reflexivity. }
  assert (Hends : forall s2, end_step (get_end w s2) (get_end w' s2)).
  { intros s2. destruct (side_eq_dec s2 sd) as [->|Hne].
    - rewrite E1. destruct Hend as [H|(_ & _ & H)]; [left; exact H|right; eexists; exact H].
    - assert (s2 = other sd) by (destruct s2, sd; try reflexivity; contradiction). subst s2.
      rewrite E2. apply end_step_refl. }
  assert (Hnc : forall a, In a nw -> sf_cmd a <> CConnect).
  { intros a Ha. destruct (Hnw a Ha) as [_ C]. congruence. }
  destruct sd; cbn [other] in *.
  - apply (Sinv_build w w' 0 1 nw [] W S Hends).
    + exact Hq.
    + exact Hp'.
    + apply qa_no_connect. exact Hnc.
    + intros a _. apply quiet_one_nofid. intros b Hb. apply (Hnw b Hb).
    + intros a Ha C. exfalso. apply (Hnc a Ha C).
    + intros a [].
  - apply (Sinv_build w w' 1 0 [] nw W S Hends).
    + exact Hp'.
    + exact Hq.
    + exact I.
    + intros a _. apply quiet_one_nofid. intros b [].
    + intros a [].
    + exact Hnc.
Qed.

Theorem step_Sinv w ev w' : Ginv w -> Sinv w -> step w ev = Ok w' -> Sinv w'.
Proof.
  intros [W _ AL _] S Hs.
  destruct ev as [payload|sd fid o|sd fid|sd|sd o|sd|sd fid].
  - eapply accept_Sinv; eassumption.
  - eapply callback_Sinv; eassumption.
  - eapply preselect_Sinv; eassumption.
  - eapply flush_Sinv; eassumption.
  - eapply deliver_Sinv; eassumption.
  - eapply checkfull_Sinv; eassumption.
  - eapply remove_Sinv; eassumption.
Qed.

Theorem run_GSinv evs : forall w w', Ginv w -> Sinv w -> run w evs = Ok w' -> w_stale w' = false ->
  Ginv w' /\ Sinv w'.
Proof.
  induction evs as [|ev evs IH]; intros w w' G S; cbn [run].
  - intros [= <-] _. split; assumption.
  - destruct (step w ev) as [w1|] eqn:Es; [|discriminate]. intros Hr Hst.
    apply (IH w1 w'); [| |exact Hr|exact Hst].
    + apply (step_Ginv w ev w1 G Es).
      destruct (w_stale w1) eqn:E; [|reflexivity].
      rewrite (run_stale_mono _ _ _ Hr E) in Hst. discriminate.
    + apply (step_Sinv w ev w1 G S Es).
Qed.

(* ---------------- the identifier is free where the CONNECT arrives ---------------- *)
Lemma in_filter_fid f l fr : In fr (filter (fid_is f) l) -> In fr l /\ sf_fid fr = Some f.
Proof.
  intros H. apply filter_In in H. destruct H as [Hin Hf]. split; [exact Hin|].
  unfold fid_is, same_fid in Hf. destruct (sf_fid fr) as [h|]; [|discriminate].
  apply N.eqb_eq in Hf. congruence.
Qed.

Lemma has_eof_in l : has_eof l = true -> exists fr, In fr l /\ sf_cmd fr = CEof.
Proof.
  unfold has_eof. intros H. apply existsb_exists in H. destruct H as (fr & Hin & He).
  exists fr. split; [exact Hin|]. unfold is_eof in He. destruct (sf_cmd fr); try discriminate. reflexivity.
Qed.

Theorem connect_identifier_free w fr tl f :
  Ginv w -> Sinv w -> path w Client = fr :: tl -> sf_cmd fr = CConnect -> sf_fid fr = Some f ->
  x_chan (e_mux (w_sv w)) (sf_ch fr) = None.
Proof.
  intros [W FW AL V] S Hp Hc Hf.
  destruct (x_chan (e_mux (w_sv w)) (sf_ch fr)) as [g|] eqn:Ex; [exfalso|reflexivity].
  assert (Hin : In fr (path w Client)) by (rewrite Hp; left; reflexivity).
  pose proof (al_connect_pending w AL fr f Hin Hc Hf) as Hsvf.
  destruct (al_cs w AL fr f Hin Hf) as (qf & Hqf & Echf).
  destruct (r_reg _ (proj2 W) _ _ Ex) as (p & Hpg & Echg & Hopen).
  destruct (al_sv_cl w AL g p Hpg) as (qg & Hqg & Echq).
  (* g is older than f *)
  assert (Hgf : g < f).
  { pose proof (r_fresh _ (proj2 W) g p Hpg) as Hlt.
    destruct (N.lt_ge_cases f (e_next (w_sv w))) as [Hlt2|Hge]; [|lia].
    exfalso. apply (e_dense _ (s_sv w S) f Hlt2). exact Hsvf. }
  (* so the client's incarnation g is closed *)
  assert (Hclosed : closed (p_m qg) = true).
  { apply (e_hist _ (s_cl w S) g f qg qf Hgf Hqg Hqf). congruence. }
  destruct (closed_flags _ Hclosed) as [Hsr Hsw].
  (* nothing but DATA of flow g follows the CONNECT *)
  pose proof (s_quiet w S) as Q. rewrite Hp in Q. destruct Q as [Q _].
  assert (Hq : forall a, In a tl -> sf_fid a = Some g -> sf_cmd a = CData).
  { intros a Ha Hfa. apply (Q f Hc Hf a g Ha Hfa Hgf).
    assert (Hin2 : In a (path w Client)) by (rewrite Hp; right; exact Ha).
    destruct (al_cs w AL a g Hin2 Hfa) as (q2 & Hq2 & Ech2). unfold cl in *. congruence. }
  assert (Hgne : fid_is g fr = false).
  { unfold fid_is. rewrite Hf. cbn. apply N.eqb_neq. lia. }
  unfold closed in Hopen. apply andb_false_iff in Hopen. destruct Hopen as [Hopen|Hopen].
  - (* the server has not seen EOF: it must still be on the way, behind the CONNECT *)
    pose proof (vi_n1 _ (V Client g)) as N1.
    unfold view_of, rprox, wprox in N1. cbn [vrmsw vwmsr vP get_end other] in N1.
    unfold cl, sv in *. rewrite Hqg, Hpg in N1. cbn [pM] in N1.
    destruct (N1 Hsw) as [X|X]; [congruence|].
    destruct (has_eof_in _ X) as (a & Ha & Ca).
    apply in_filter_fid in Ha. destruct Ha as [Ha Hfa]. rewrite Hp in Ha.
    destruct Ha as [<-|Ha]; [congruence|]. rewrite (Hq a Ha Hfa) in Ca. discriminate.
  - (* the server has not seen STOP: it must still be on the way, behind the CONNECT *)
    pose proof (vi_n3 _ (V Server g)) as N3.
    unfold view_of, rprox, wprox in N3. cbn [vrmsw vwmsr vstop get_end other] in N3.
    unfold cl, sv in *. rewrite Hqg, Hpg in N3. cbn [pM] in N3.
    destruct (N3 Hsr) as [X|X]; [congruence|].
    apply existsb_exists in X. destruct X as (a & Ha & Sa).
    unfold is_stop_of in Sa. apply andb_true_iff in Sa. destruct Sa as [Fa Sa].
    assert (Hfa : sf_fid a = Some g).
    { unfold fid_is, same_fid in Fa. destruct (sf_fid a) as [h|]; [|discriminate]. apply N.eqb_eq in Fa. congruence. }
    rewrite Hp in Ha. destruct Ha as [<-|Ha]; [congruence|].
    unfold is_stop in Sa. rewrite (Hq a Ha Hfa) in Sa. discriminate.
Qed.

(* no dispatch at either end ever trips the assertion *)
Theorem connect_assert_never_fires w sd o :
  Ginv w -> Sinv w -> step w (EvDeliver sd o) <> Crash CrAssertConnect.
Proof.
  intros G S. cbn [step].
  destruct (match sd with Client => w_sc w | Server => w_cs w end) as [|fr rest] eqn:El; [discriminate|].
  assert (Hp : path w (other sd) = fr :: rest ++ x_out (e_mux (get_end w (other sd)))).
  { unfold path, inlink. destruct sd; cbn [other]; rewrite El; reflexivity. }
  unfold mux_got_packet.
  destruct (sf_cmd fr) eqn:Ecmd; try discriminate.
  - destruct sd; cbn [other get_end] in *.
    + exfalso. apply (s_nosc w S fr); [rewrite Hp; left; reflexivity|exact Ecmd].
    + destruct (sf_fid fr) as [f|] eqn:Ef.
      * pose proof (connect_identifier_free w fr _ f G S Hp Ecmd Ef) as Hfree.
        unfold occ. rewrite Hfree.
        destruct (server_new_channel (w_sv w) (sf_ch fr) o) as [e1|cr] eqn:En; [discriminate|].
        unfold server_new_channel in En.
        destruct (s_try_connect (new_sock true) (io_conn o) (io_shut_ok o)) as [s|cr2] eqn:Et; [discriminate|].
        injection En as <-. unfold s_try_connect in Et. cbn in Et.
        destruct (io_conn o) as [|[]]; try discriminate; injection Et as <-; discriminate.
      * exfalso. apply (s_cfid w S fr); [rewrite Hp; left; reflexivity|exact Ecmd|exact Ef].
  - destruct (x_chan (e_mux (get_end w sd)) (sf_ch fr)) as [g|]; [|discriminate].
    destruct (e_prox (get_end w sd) g) as [p|]; [|discriminate]. cbn [m_got_packet].
    destruct (m_setnowrite (p_m p) (e_mux (get_end w sd))). discriminate.
  - destruct (x_chan (e_mux (get_end w sd)) (sf_ch fr)) as [g|]; [|discriminate].
    destruct (e_prox (get_end w sd) g) as [p|]; [|discriminate]. cbn [m_got_packet].
    destruct (m_setnoread (p_m p) (e_mux (get_end w sd))). discriminate.
  - destruct (x_chan (e_mux (get_end w sd)) (sf_ch fr)) as [g|]; [|discriminate].
    destruct (e_prox (get_end w sd) g) as [p|]; discriminate.
  - destruct (x_chan (e_mux (get_end w sd)) (sf_ch fr)) as [g|]; [|discriminate].
    destruct (e_prox (get_end w sd) g) as [p|]; discriminate.
Qed.

Theorem run_connect_assert maxc lbs evs w sd o :
  run (world0 maxc lbs) evs = Ok w -> w_stale w = false ->
  step w (EvDeliver sd o) <> Crash CrAssertConnect.
Proof.
  intros Hr Hst.
  destruct (run_GSinv evs _ _ (Ginv_world0 maxc lbs) (Sinv_world0 maxc lbs) Hr Hst) as [G S].
  apply connect_assert_never_fires; assumption.
Qed.

Theorem run_identifier_free maxc lbs evs w fr tl f :
  run (world0 maxc lbs) evs = Ok w -> w_stale w = false ->
  path w Client = fr :: tl -> sf_cmd fr = CConnect -> sf_fid fr = Some f ->
  x_chan (e_mux (w_sv w)) (sf_ch fr) = None.
Proof.
  intros Hr Hst.
  destruct (run_GSinv evs _ _ (Ginv_world0 maxc lbs) (Sinv_world0 maxc lbs) Hr Hst) as [G S].
  apply connect_identifier_free; assumption.
Qed.
