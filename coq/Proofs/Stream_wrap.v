(* Proofs/Stream_wrap.v — contracts of the SockWrapper operations and of the two
   copy_to directions: conservation of bytes at every hop. *)
From Coq Require Import List NArith Ascii Bool Lia.
From SV Require Import Lib.Bytes Model.Wire Model.Chan Model.Stream
  Proofs.Wire_lemmas Proofs.Stream_basic.
Import ListNotations.
Local Open Scope N_scope.

Definition flat (l : list bytes) : bytes := concat l.

Definition data_cat (l : list sframe) : bytes := concat (map sf_data (filter is_data l)).

Lemma data_cat_app a b : data_cat (a ++ b) = data_cat a ++ data_cat b.
Proof. unfold data_cat. rewrite filter_app, map_app, concat_app. reflexivity. Qed.

Lemma flat_drop_empty l : flat (drop_empty l) = flat l.
Proof. apply concat_drop_empty. Qed.

Lemma flat_advance b rest w : flat (b :: rest) = takeN w b ++ flat (advance (b :: rest) w).
Proof.
  unfold advance. rewrite flat_drop_empty. unfold flat. cbn [concat].
  rewrite app_assoc, takeN_dropN. reflexivity.
Qed.

Lemma takeN_len_takeN n b : takeN (lenN (takeN n b)) b = takeN n b.
Proof.
  destruct (N.le_gt_cases n (lenN b)) as [H|H].
  - rewrite lenN_takeN by exact H. reflexivity.
  - rewrite (takeN_all n b) by lia. apply takeN_all. lia.
Qed.

Lemma nonempty_buf_false l : nonempty_buf l = false -> l = [].
Proof. destruct l; [reflexivity|discriminate]. Qed.

(* ---------------- SockWrapper: what may change ---------------- *)
(* s' is s after some wrapper operations that do not touch buf/rd/wr *)
Definition sock_flags_mono (s s' : sockw) : Prop :=
  (s_sr s = true -> s_sr s' = true) /\ (s_sw s = true -> s_sw s' = true) /\
  (s_exc s = true -> s_exc s' = true) /\ (s_fault s = true -> s_fault s' = true).

Lemma sfm_refl s : sock_flags_mono s s.
Proof. unfold sock_flags_mono. auto. Qed.

Lemma sfm_trans a b c : sock_flags_mono a b -> sock_flags_mono b c -> sock_flags_mono a c.
Proof. unfold sock_flags_mono. intuition. Qed.

Definition same_data (s s' : sockw) : Prop :=
  s_buf s' = s_buf s /\ s_rd s' = s_rd s /\ s_wr s' = s_wr s.

Lemma noread_spec s : same_data s (s_noread s) /\ sock_flags_mono s (s_noread s) /\
  s_sr (s_noread s) = true /\ s_sw (s_noread s) = s_sw s /\ s_conn (s_noread s) = s_conn s /\
  s_fault (s_noread s) = s_fault s.
Proof. unfold same_data, sock_flags_mono, s_noread. cbn. splits; auto. Qed.

(* a shutdown newly issued by nowrite is clean unless it failed (fault) *)
Lemma nowrite_spec s ok : same_data s (s_nowrite s ok) /\ sock_flags_mono s (s_nowrite s ok) /\
  s_sw (s_nowrite s ok) = true /\ s_conn (s_nowrite s ok) = s_conn s /\
  (s_fault (s_nowrite s ok) = s_fault s \/ s_fault (s_nowrite s ok) = true).
Proof.
  unfold same_data, sock_flags_mono, s_nowrite.
  destruct (s_sw s) eqn:E; [splits; auto|].
  destruct ok; cbn; splits; auto; congruence.
Qed.

Lemma seterr_spec s ok : same_data s (s_seterr s ok) /\ sock_flags_mono s (s_seterr s ok) /\
  s_sw (s_seterr s ok) = true /\ s_sr (s_seterr s ok) = true /\ s_fault (s_seterr s ok) = true /\
  s_conn (s_seterr s ok) = s_conn s.
Proof.
  unfold s_seterr.
  set (s1 := mkSock (s_conn s) (s_sr s) (s_sw s) (s_buf s) true (s_rd s) (s_wr s) true).
  destruct (nowrite_spec s1 ok) as ((A1 & A2 & A3) & (B1 & B2 & B3 & B4) & C & D & F).
  destruct (noread_spec (s_nowrite s1 ok)) as ((G1 & G2 & G3) & (H1 & H2 & H3 & H4) & I & J & K & L).
  unfold same_data, sock_flags_mono. cbn in *.
  splits; try congruence; auto.
Qed.

(* ---------------- fill: appends exactly what recv returned ---------------- *)
Definition recv_bytes (s : sockw) (o : recv_out) : bytes :=
  match s_buf s with
  | _ :: _ => []
  | [] => if s_conn s then [] else if s_sr s then [] else
          match o with RecvData b => b | _ => [] end
  end.

Lemma fill_spec s o ok :
  let s' := s_fill s o ok in
  flat (s_buf s') = flat (s_buf s) ++ recv_bytes s o /\
  s_rd s' = s_rd s ++ recv_bytes s o /\ s_wr s' = s_wr s /\
  sock_flags_mono s s' /\ s_conn s' = s_conn s /\
  (s_sr s = true -> recv_bytes s o = []) /\
  (s_sw s = false -> s_sw s' = true -> s_fault s' = true).
Proof.
  unfold s_fill, recv_bytes.
  destruct (s_buf s) as [|b0 bs] eqn:Eb.
  2:{ cbn zeta. rewrite ?Eb, ?app_nil_r. splits; auto using sfm_refl. congruence. }
  destruct (s_conn s) eqn:Ec.
  { cbn zeta. rewrite ?Eb, ?Ec, ?app_nil_r. splits; auto using sfm_refl. congruence. }
  destruct (s_sr s) eqn:Er.
  { cbn zeta. rewrite ?Eb, ?Ec, ?Er, ?app_nil_r. splits; auto using sfm_refl. congruence. }
  destruct o as [b| | |]; cbn zeta.
  - destruct b as [|a b].
    + destruct (noread_spec s) as ((A1 & A2 & A3) & B & C & D & E & F).
      rewrite ?A1, ?A2, ?A3, ?Eb, ?E, ?app_nil_r. splits; auto. congruence.
    + cbn. rewrite app_nil_r. unfold sock_flags_mono. cbn. splits; auto; congruence.
  - destruct (noread_spec s) as ((A1 & A2 & A3) & B & C & D & E & F).
    rewrite ?A1, ?A2, ?A3, ?Eb, ?E, ?app_nil_r. splits; auto. congruence.
  - rewrite ?Eb, ?app_nil_r. splits; auto using sfm_refl. congruence.
  - destruct (seterr_spec s ok) as ((A1 & A2 & A3) & B & C & D & E & F).
    destruct (noread_spec (s_seterr s ok)) as ((G1 & G2 & G3) & H & I & J & K & L).
    rewrite ?G1, ?G2, ?G3, ?A1, ?A2, ?A3, ?Eb, ?K, ?F, ?app_nil_r.
    splits; auto; try (eapply sfm_trans; eassumption); try (intros _ _; rewrite L; exact E).
Qed.

(* ---------------- uwrite on a socket ---------------- *)
Lemma s_uwrite_spec s b o ok :
  let '(s', w) := s_uwrite s b o ok in
  w <= lenN b /\ s_wr s' = s_wr s ++ takeN w b /\ s_buf s' = s_buf s /\ s_rd s' = s_rd s /\
  sock_flags_mono s s' /\ s_conn s' = s_conn s /\
  (s_sw s = true -> w = 0) /\ (s_conn s = true -> w = 0) /\
  (s_sw s = false -> s_sw s' = true -> s_fault s' = true).
Proof.
  unfold s_uwrite. destruct (s_conn s) eqn:Ec.
  { rewrite takeN_0, app_nil_r. splits; auto using sfm_refl; try lia. congruence. }
  set (o' := if s_sw s then match o with SendAccept _ => SendErr EPipe | _ => o end else o).
  assert (Ho' : s_sw s = true -> forall k, o' <> SendAccept k).
  { intros H k. unfold o'. rewrite H. destruct o; discriminate. }
  destruct o' as [k| |e] eqn:Eo.
  - assert (Hsw : s_sw s = false) by (destruct (s_sw s) eqn:E; [exfalso; eapply Ho'; eauto|reflexivity]).
    cbn. unfold sock_flags_mono. cbn. splits; auto; try congruence. lia.
  - rewrite takeN_0, app_nil_r. splits; auto using sfm_refl; try lia. congruence.
  - assert (Hse : let '(s', w) := (s_seterr s ok, 0) in
      w <= lenN b /\ s_wr s' = s_wr s ++ takeN w b /\ s_buf s' = s_buf s /\ s_rd s' = s_rd s /\
      sock_flags_mono s s' /\ s_conn s' = false /\
      (s_sw s = true -> w = 0) /\ (false = true -> w = 0) /\
      (s_sw s = false -> s_sw s' = true -> s_fault s' = true)).
    { destruct (seterr_spec s ok) as ((A1 & A2 & A3) & B & C & D & E & F).
      cbv beta iota. rewrite takeN_0, app_nil_r. splits; auto; try lia. congruence. }
    destruct e; try exact Hse.
    set (s1 := mkSock false (s_sr s) (s_sw s) (s_buf s) (s_exc s) (s_rd s) (s_wr s) true).
    destruct (nowrite_spec s1 ok) as ((A1 & A2 & A3) & (B1 & B2 & B3 & B4) & C & D & F).
    cbv beta iota. rewrite takeN_0, app_nil_r. cbn in *. unfold sock_flags_mono.
    splits; auto; try lia; try (intros _ _; apply B4; reflexivity).
Qed.

(* ---------------- SockWrapper.copy_to(MuxWrapper) ---------------- *)
Lemma copy_s_to_m_spec s m x fid :
  let '(s', m', x') := copy_s_to_m s m x fid in
  exists new, mux_ext (m_chan m) fid x x' new /\
  flat (s_buf s) = data_cat new ++ flat (s_buf s') /\
  s_rd s' = s_rd s /\ s_wr s' = s_wr s /\ s_sr s' = s_sr s /\ s_sw s' = s_sw s /\
  s_conn s' = s_conn s /\ s_exc s' = s_exc s /\ s_fault s' = s_fault s /\
  muxw_mono m m' /\ m_buf m' = m_buf m /\ m_sr m' = m_sr m /\
  (x_too_full x = true -> data_cat new = []) /\
  data_len new <= 2048 /\
  (* an EOF is emitted only after the buffer drained and the reader is shut *)
  (m_sw m = false -> m_sw m' = true -> s_buf s' = [] /\ s_sr s = true /\
     exists pre, new = pre ++ [mkSF (m_chan m) CEof [] (Some fid)] /\ Forall (fun f => sf_cmd f = CData) pre) /\
  (m_sw m' = m_sw m -> Forall (fun f => sf_cmd f = CData) new).
Proof.
  unfold copy_s_to_m.
  (* first phase: at most one DATA frame *)
  assert (P1 : exists buf' x1 new1,
    (match s_buf s with
     | (a :: b0) :: rest => let '(x1, w) := m_uwrite m x fid (a :: b0) in (advance (s_buf s) w, x1)
     | _ => (drop_empty (s_buf s), x)
     end) = (buf', x1) /\
    mux_ext (m_chan m) fid x x1 new1 /\ flat (s_buf s) = data_cat new1 ++ flat buf' /\
    (x_too_full x = true -> new1 = []) /\ data_len new1 <= 2048 /\
    Forall (fun f => sf_cmd f = CData) new1).
  { destruct (s_buf s) as [|[|a b0] rest] eqn:Eb.
    - exists [], x, []. splits; auto using mux_ext_refl. cbn; lia.
    - exists (drop_empty rest), x, []. splits; auto using mux_ext_refl.
      + cbn [data_cat app]. rewrite flat_drop_empty. reflexivity.
      + cbn; lia.
    - pose proof (uwrite_ext m x fid (a :: b0)) as Hu.
      destruct (m_uwrite m x fid (a :: b0)) as [x1 w].
      destruct Hu as (new & Hext & Htf & Hntf & Hw1 & Hw2).
      exists (advance ((a :: b0) :: rest) w), x1, new. splits; auto.
      + destruct (x_too_full x) eqn:Etf.
        * destruct (Htf eq_refl) as [-> ->]. cbn [data_cat app].
          rewrite (flat_advance (a :: b0) rest 0), takeN_0. reflexivity.
        * destruct (Hntf eq_refl) as [-> ->].
          unfold data_cat. cbn [filter is_data sf_cmd map sf_data concat]. rewrite app_nil_r.
          rewrite <- (takeN_len_takeN 2048 (a :: b0)) at 1. apply flat_advance.
      + intros H. apply (Htf H).
      + destruct (x_too_full x) eqn:Etf.
        * destruct (Htf eq_refl) as [-> _]. cbn; lia.
        * destruct (Hntf eq_refl) as [-> ->]. unfold data_len.
          cbn [filter is_data sf_cmd pay_len fold_right sf_data]. lia.
      + destruct (x_too_full x) eqn:Etf.
        * destruct (Htf eq_refl) as [-> _]. constructor.
        * destruct (Hntf eq_refl) as [-> _]. constructor; [reflexivity|constructor]. }
  destruct P1 as (buf' & x1 & new1 & -> & Hext1 & Hflat & Htf & Hdl & Hall).
  destruct buf' as [|b1 bs1].
  - destruct (s_sr s) eqn:Esr.
    + destruct (nowrite_ext m x1 fid) as (new2 & Hext2 & Hn2 & Hmono & Hsw & Hsr & Hbuf).
      destruct (m_nowrite m x1 fid) as [m' x2]. cbn [fst snd] in *.
      exists (new1 ++ new2). splits; auto.
      * eapply mux_ext_trans; eassumption.
      * rewrite data_cat_app, Hflat. subst new2. destruct (m_sw m); cbn; rewrite ?app_nil_r; reflexivity.
      * intros H. rewrite data_cat_app, (Htf H). subst new2. destruct (m_sw m); reflexivity.
      * rewrite data_len_app. subst new2. destruct (m_sw m); cbn; lia.
      * intros Hf _. splits; auto. exists new1. rewrite Hn2, Hf. split; [reflexivity|exact Hall].
      * intros Heq. rewrite Hsw in Heq. rewrite Hn2, <- Heq, app_nil_r. exact Hall.
    + exists new1. splits; auto using muxw_mono_refl.
      * intros H. rewrite (Htf H). reflexivity.
      * intros H1 H2. congruence.
  - exists new1. splits; auto using muxw_mono_refl.
    + intros H. rewrite (Htf H). reflexivity.
    + intros H1 H2. congruence.
Qed.

(* ---------------- MuxWrapper.copy_to(SockWrapper) ---------------- *)
Lemma copy_m_to_s_spec m s o ok :
  let '(m', s') := copy_m_to_s m s o ok in
  exists d, flat (m_buf m) = d ++ flat (m_buf m') /\ s_wr s' = s_wr s ++ d /\
  m_chan m' = m_chan m /\ m_sr m' = m_sr m /\ m_sw m' = m_sw m /\
  s_buf s' = s_buf s /\ s_rd s' = s_rd s /\ s_conn s' = s_conn s /\
  sock_flags_mono s s' /\
  (s_sw s = true -> d = []) /\
  (* a shutdown newly issued here is either the clean end-of-stream path or a fault *)
  (s_sw s = false -> s_sw s' = true -> s_fault s' = true \/ (m_buf m' = [] /\ m_sr m = true)).
Proof.
  unfold copy_m_to_s.
  assert (P1 : exists buf' s1 d,
    (match m_buf m with
     | (a :: b0) :: rest => let '(s1, w) := s_uwrite s (a :: b0) o ok in (advance (m_buf m) w, s1)
     | _ => (drop_empty (m_buf m), s)
     end) = (buf', s1) /\
    flat (m_buf m) = d ++ flat buf' /\ s_wr s1 = s_wr s ++ d /\ s_buf s1 = s_buf s /\ s_rd s1 = s_rd s /\
    s_conn s1 = s_conn s /\ sock_flags_mono s s1 /\ (s_sw s = true -> d = []) /\
    (s_sw s = false -> s_sw s1 = true -> s_fault s1 = true)).
  { destruct (m_buf m) as [|[|a b0] rest] eqn:Eb.
    - exists [], s, []. rewrite app_nil_r. splits; auto using sfm_refl; try (symmetry; apply app_nil_r); intros; congruence.
    - exists (drop_empty rest), s, []. rewrite app_nil_r. splits; auto using sfm_refl.
      + cbn [app]. rewrite flat_drop_empty. reflexivity.
      + intros; congruence.
    - pose proof (s_uwrite_spec s (a :: b0) o ok) as Hu.
      destruct (s_uwrite s (a :: b0) o ok) as [s1 w].
      destruct Hu as (Hw & Hwr & Hb & Hr & Hm & Hc & Hsw & _ & Hf).
      exists (advance ((a :: b0) :: rest) w), s1, (takeN w (a :: b0)). splits; auto.
      + apply flat_advance.
      + intros H. rewrite (Hsw H). apply takeN_0. }
  destruct P1 as (buf' & s1 & d & -> & Hflat & Hwr & Hb & Hr & Hc & Hm & Hsw & Hf).
  destruct buf' as [|b1 bs1].
  - destruct (m_sr m) eqn:Esr.
    + destruct (nowrite_spec s1 ok) as ((A1 & A2 & A3) & B & C & D & F).
      exists d. cbn [m_buf m_chan m_sr m_sw]. rewrite A1, A2, A3, D.
      splits; auto; try congruence; try (eapply sfm_trans; eassumption);
        try (intros H1 H2; right; auto).
    + exists d. cbn [m_buf m_chan m_sr m_sw]. splits; auto.
  - exists d. cbn [m_buf m_chan m_sr m_sw]. splits; auto.
Qed.
