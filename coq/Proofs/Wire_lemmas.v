(* Proofs/Wire_lemmas.v — proofs about Model/Wire.v *)
From Coq Require Import List NArith Ascii Bool Lia Arith.
From SV Require Import Lib.Bytes Model.Wire.
Import ListNotations.
Local Open Scope N_scope.

(* ------------------------------------------------------------------ *)
(* parse_hdr                                                           *)

Lemma parse_hdr_none_iff b : parse_hdr b = None <-> lenN b < 8.
Proof.
  unfold parse_hdr.
  do 8 (destruct b as [|? b]; [rewrite ?lenN_cons, ?lenN_nil; split; [lia|reflexivity]|]).
  rewrite !lenN_cons. split; [discriminate|]. pose proof (N.le_0_l (lenN b)). lia.
Qed.

Lemma parse_hdr_some_len b x : parse_hdr b = Some x -> 8 <= lenN b.
Proof.
  intros H. destruct (N.lt_ge_cases (lenN b) 8) as [Hlt|Hge]; [|exact Hge].
  apply parse_hdr_none_iff in Hlt. congruence.
Qed.

Lemma parse_hdr_app a b x : parse_hdr a = Some x -> parse_hdr (a ++ b) = Some x.
Proof.
  unfold parse_hdr.
  do 8 (destruct a as [|? a]; [discriminate|]).
  cbn [app]. trivial.
Qed.

Lemma parse_hdr_header ch cmd len rest :
  ch < 65536 -> cmd < 65536 -> len < 65536 ->
  parse_hdr (header ch cmd len ++ rest) = Some (true, ch, cmd, len).
Proof.
  intros H1 H2 H3. unfold header, put_u16. cbn [app parse_hdr].
  rewrite !get_put_u16 by assumption. reflexivity.
Qed.

Lemma lenN_header ch cmd len : lenN (header ch cmd len) = 8.
Proof. reflexivity. Qed.

(* ------------------------------------------------------------------ *)
(* decode: fuel irrelevance and unfolding                              *)

Lemma decode_fuel_stable n : forall m s,
  (length s < n)%nat -> (length s < m)%nat -> decode_fuel n s = decode_fuel m s.
Proof.
  induction n as [|n IH]; intros m s Hn Hm; [lia|].
  destruct m as [|m]; [lia|].
  cbn [decode_fuel].
  destruct (parse_hdr s) as [[[[ok ch] cmd] dl]|] eqn:Hp; [|reflexivity].
  destruct (negb ok); [reflexivity|].
  destruct (dl + HDR_LEN <=? lenN s) eqn:Hw; [|reflexivity].
  apply N.leb_le in Hw.
  assert (Hlen : (length (dropN (dl + HDR_LEN) s) < length s)%nat).
  { rewrite length_dropN. unfold lenN, HDR_LEN in *. lia. }
  rewrite (IH m (dropN (dl + HDR_LEN) s)) by lia. reflexivity.
Qed.

Lemma decode_unfold s :
  decode s =
  match parse_hdr s with
  | None => ([], s, RxOk)
  | Some (ok, ch, cmd, dl) =>
    if negb ok then ([], s, RxAssert)
    else
      let want := dl + HDR_LEN in
      if want <=? lenN s then
        let data := dropN HDR_LEN (takeN want s) in
        let '(fs, r, st) := decode (dropN want s) in
        (mkFrame ch cmd data :: fs, r, st)
      else ([], s, RxOk)
  end.
Proof.
  unfold decode at 1. cbn [decode_fuel].
  destruct (parse_hdr s) as [[[[ok ch] cmd] dl]|] eqn:Hp; [|reflexivity].
  destruct (negb ok); [reflexivity|].
  cbv zeta.
  destruct (dl + HDR_LEN <=? lenN s) eqn:Hw; [|reflexivity].
  apply N.leb_le in Hw.
  unfold decode.
  rewrite (decode_fuel_stable (length s) (S (length (dropN (dl + HDR_LEN) s)))); [reflexivity| |lia].
  rewrite length_dropN. unfold lenN, HDR_LEN in *. lia.
Qed.

(* strong induction on the length of a byte string *)
Lemma bytes_strong_ind (P : list ascii -> Prop) :
  (forall s : list ascii, (forall t : list ascii, (length t < length s)%nat -> P t) -> P s) ->
  forall s : list ascii, P s.
Proof.
  intros H s.
  assert (G : forall n t, (length t < n)%nat -> P t).
  { induction n as [|n IH]; intros t Ht; [lia|].
    apply H. intros u Hu. apply IH. lia. }
  apply (G (S (length s))). lia.
Qed.

Lemma drop_shorter dl s : dl + HDR_LEN <= lenN s ->
  (length (dropN (dl + HDR_LEN) s) < length s)%nat.
Proof. intros H. rewrite length_dropN. unfold lenN, HDR_LEN in *. lia. Qed.

Lemma decode_no_fuel s : forall fs r, decode s <> (fs, r, RxFuel).
Proof.
  induction s as [s IH] using bytes_strong_ind. intros fs r.
  rewrite decode_unfold.
  destruct (parse_hdr s) as [[[[ok ch] cmd] dl]|]; [|discriminate].
  destruct (negb ok); [discriminate|]. cbv zeta.
  destruct (dl + HDR_LEN <=? lenN s) eqn:Hw; [|discriminate].
  apply N.leb_le in Hw.
  destruct (decode (dropN (dl + HDR_LEN) s)) as [[fs1 r1] st1] eqn:Hd.
  intros Heq. inversion Heq; subst.
  eapply (IH _ (drop_shorter _ _ Hw)). exact Hd.
Qed.

(* ------------------------------------------------------------------ *)
(* append-compositionality: the core of every segmentation theorem     *)

Definition decode_then (res : list frame * bytes * rx_status) (b : bytes)
  : list frame * bytes * rx_status :=
  let '(fs, r, st) := res in
  match st with
  | RxOk => let '(fs', r', st') := decode (r ++ b) in (fs ++ fs', r', st')
  | _ => (fs, r ++ b, st)
  end.

Lemma decode_app a : forall b, decode (a ++ b) = decode_then (decode a) b.
Proof.
  induction a as [a IH] using bytes_strong_ind. intros b.
  rewrite (decode_unfold a).
  destruct (parse_hdr a) as [[[[ok ch] cmd] dl]|] eqn:Hp.
  2:{ cbn [decode_then]. destruct (decode (a ++ b)) as [[? ?] ?]. reflexivity. }
  rewrite (decode_unfold (a ++ b)), (parse_hdr_app _ _ _ Hp).
  destruct ok; cbn [negb]; [|reflexivity]. cbv zeta.
  destruct (dl + HDR_LEN <=? lenN a) eqn:Hw.
  - apply N.leb_le in Hw.
    assert (Hw' : (dl + HDR_LEN <=? lenN (a ++ b)) = true).
    { apply N.leb_le. rewrite lenN_app. lia. }
    rewrite Hw'.
    rewrite dropN_app_le, takeN_app_le by exact Hw.
    rewrite (IH _ (drop_shorter _ _ Hw) b).
    destruct (decode (dropN (dl + HDR_LEN) a)) as [[fs1 r1] st1].
    cbn [decode_then]. destruct st1; try reflexivity.
    destruct (decode (r1 ++ b)) as [[fs2 r2] st2]. reflexivity.
  - cbn [decode_then].
    rewrite (decode_unfold (a ++ b)), (parse_hdr_app _ _ _ Hp).
    cbn [negb]. cbv zeta.
    destruct (dl + HDR_LEN <=? lenN (a ++ b)); [|reflexivity].
    destruct (decode (dropN (dl + HDR_LEN) (a ++ b))) as [[? ?] ?]. reflexivity.
Qed.

(* the residual of a successful decode contains no further complete frame *)
Lemma decode_residual s : forall fs r, decode s = (fs, r, RxOk) -> decode r = ([], r, RxOk).
Proof.
  induction s as [s IH] using bytes_strong_ind. intros fs r.
  rewrite (decode_unfold s).
  destruct (parse_hdr s) as [[[[ok ch] cmd] dl]|] eqn:Hp.
  2:{ intros H; inversion H; subst. rewrite decode_unfold, Hp. reflexivity. }
  destruct ok; cbn [negb]; [|discriminate]. cbv zeta.
  destruct (dl + HDR_LEN <=? lenN s) eqn:Hw.
  - apply N.leb_le in Hw.
    destruct (decode (dropN (dl + HDR_LEN) s)) as [[fs1 r1] st1] eqn:Hd.
    intros H; inversion H; subst.
    eapply (IH _ (drop_shorter _ _ Hw)). exact Hd.
  - intros H; inversion H; subst.
    rewrite decode_unfold, Hp. cbn [negb]. cbv zeta. rewrite Hw. reflexivity.
Qed.

(* ------------------------------------------------------------------ *)
(* encode / decode round trip                                          *)

Lemma encode_ok_inv f b : encode f = EncOk b ->
  lenN (f_data f) <= 65535 /\ f_ch f <= 65535 /\ f_cmd f <= 65535 /\
  b = header (f_ch f) (f_cmd f) (lenN (f_data f)) ++ f_data f.
Proof.
  unfold encode.
  destruct (65535 <? lenN (f_data f)) eqn:H1; [discriminate|].
  destruct ((65535 <? f_ch f) || (65535 <? f_cmd f)) eqn:H2; [discriminate|].
  apply orb_false_iff in H2. destruct H2 as [H2 H3].
  apply N.ltb_ge in H1, H2, H3.
  intros H; inversion H; subst. repeat split; assumption.
Qed.

Lemma encode_frame_ok f : frame_ok f = true -> exists b, encode f = EncOk b.
Proof.
  unfold frame_ok, encode. intros H.
  apply andb_true_iff in H. destruct H as [H H3].
  apply andb_true_iff in H. destruct H as [H1 H2].
  apply N.leb_le in H1, H2, H3.
  assert (E1 : (65535 <? lenN (f_data f)) = false) by (apply N.ltb_ge; exact H1).
  assert (E2 : (65535 <? f_ch f) = false) by (apply N.ltb_ge; exact H2).
  assert (E3 : (65535 <? f_cmd f) = false) by (apply N.ltb_ge; exact H3).
  rewrite E1, E2, E3. cbn [orb]. eexists. reflexivity.
Qed.

Lemma decode_encode_app f b rest : encode f = EncOk b ->
  decode (b ++ rest) = let '(fs, r, st) := decode rest in (f :: fs, r, st).
Proof.
  intros He. apply encode_ok_inv in He. destruct He as (Hl & Hc & Hm & ->).
  destruct f as [ch cmd data]. cbn [f_ch f_cmd f_data] in *.
  rewrite decode_unfold.
  rewrite <- app_assoc.
  rewrite parse_hdr_header by lia.
  cbn [negb]. cbv zeta.
  set (s := header ch cmd (lenN data) ++ data ++ rest).
  assert (Hs : s = (header ch cmd (lenN data) ++ data) ++ rest)
    by (unfold s; apply app_assoc).
  assert (Hlen : lenN (header ch cmd (lenN data) ++ data) = lenN data + HDR_LEN).
  { rewrite lenN_app, lenN_header. unfold HDR_LEN. lia. }
  assert (Hw : (lenN data + HDR_LEN <=? lenN s) = true).
  { apply N.leb_le. rewrite Hs, lenN_app, Hlen. lia. }
  rewrite Hw.
  assert (Ht : takeN (lenN data + HDR_LEN) s = header ch cmd (lenN data) ++ data).
  { rewrite Hs, <- Hlen. apply takeN_app_exact. }
  assert (Hdr : dropN (lenN data + HDR_LEN) s = rest).
  { rewrite Hs, <- Hlen. apply dropN_app_exact. }
  assert (Hdd : dropN HDR_LEN (header ch cmd (lenN data) ++ data) = data).
  { change HDR_LEN with (lenN (header ch cmd (lenN data))). apply dropN_app_exact. }
  rewrite Ht, Hdr, Hdd.
  destruct (decode rest) as [[fs r] st]. reflexivity.
Qed.

Lemma decode_nil : decode [] = ([], [], RxOk).
Proof. reflexivity. Qed.

Lemma decode_encode f b : encode f = EncOk b -> decode b = ([f], [], RxOk).
Proof.
  intros He. rewrite <- (app_nil_r b).
  rewrite (decode_encode_app f b [] He), decode_nil. reflexivity.
Qed.

Definition encodable (f : frame) : Prop := exists b, encode f = EncOk b.

Lemma decode_encode_all fs : Forall encodable fs -> forall rest,
  decode (encode_all fs ++ rest) = let '(fs', r, st) := decode rest in (fs ++ fs', r, st).
Proof.
  induction 1 as [|f fs [b Hb] _ IH]; intros rest; cbn [encode_all app].
  - destruct (decode rest) as [[? ?] ?]. reflexivity.
  - rewrite Hb, <- app_assoc, (decode_encode_app f b _ Hb), IH.
    destruct (decode rest) as [[? ?] ?]. reflexivity.
Qed.

(* ------------------------------------------------------------------ *)
(* the receive loop computes decode                                    *)

Definition w_ok (inbuf : bytes) (want : N) : Prop :=
  want = 0 \/ exists ch cmd dl, parse_hdr inbuf = Some (true, ch, cmd, dl) /\ want = dl + HDR_LEN.

Definition final_want (r : bytes) (st : rx_status) : N :=
  match st with RxOk => want_of r | _ => 0 end.

Lemma rx_loop_want_irrelevant n inbuf want : w_ok inbuf want ->
  (forall fs st, rx_loop n inbuf 0 <> (fs, st, RxAssert)) \/ True ->
  fst (fst (rx_loop n inbuf want)) = fst (fst (rx_loop n inbuf 0)) /\
  snd (rx_loop n inbuf want) = snd (rx_loop n inbuf 0) /\
  (snd (rx_loop n inbuf 0) = RxOk -> snd (fst (rx_loop n inbuf want)) = snd (fst (rx_loop n inbuf 0))).
Proof.
  intros [->|(ch & cmd & dl & Hp & ->)] _; [auto|].
  destruct n as [|n]; cbn [rx_loop];
    [cbn [fst snd]; split; [reflexivity|split; [reflexivity|discriminate]]|].
  pose proof (parse_hdr_some_len _ _ Hp) as H8.
  assert (E0 : (dl + HDR_LEN =? 0) = false) by (apply N.eqb_neq; unfold HDR_LEN; lia).
  rewrite E0. cbn [N.eqb].
  assert (E8 : (HDR_LEN <=? lenN inbuf) = true) by (apply N.leb_le; exact H8).
  rewrite E8, Hp. cbn [negb].
  destruct (dl + HDR_LEN <=? lenN inbuf) eqn:Hw.
  - auto.
  - cbn [fst snd]. auto.
Qed.

Lemma rx_loop_decode n : forall inbuf, (length inbuf < n)%nat ->
  rx_loop n inbuf 0 =
  let '(fs, r, st) := decode_fuel n inbuf in (fs, (r, final_want r st), st).
Proof.
  induction n as [|n IH]; intros inbuf Hn; [lia|].
  cbn [rx_loop decode_fuel N.eqb].
  destruct (HDR_LEN <=? lenN inbuf) eqn:H8.
  - apply N.leb_le in H8.
    destruct (parse_hdr inbuf) as [[[[ok ch] cmd] dl]|] eqn:Hp.
    2:{ apply parse_hdr_none_iff in Hp. unfold HDR_LEN in H8. lia. }
    destruct ok; cbn [negb].
    + destruct (dl + HDR_LEN <=? lenN inbuf) eqn:Hw.
      * apply N.leb_le in Hw.
        rewrite IH by (pose proof (drop_shorter _ _ Hw); lia).
        destruct (decode_fuel n (dropN (dl + HDR_LEN) inbuf)) as [[fs r] st].
        reflexivity.
      * cbn [final_want]. unfold want_of. rewrite Hp. reflexivity.
    + reflexivity.
  - apply N.leb_gt in H8.
    assert (Hp : parse_hdr inbuf = None) by (apply parse_hdr_none_iff; exact H8).
    rewrite Hp. cbn [final_want]. unfold want_of. rewrite Hp. reflexivity.
Qed.

Definition rx_inv (st : bytes * N) : Prop :=
  snd st = want_of (fst st) /\ decode (fst st) = ([], fst st, RxOk).

Lemma want_of_w_ok r : w_ok r (want_of r).
Proof.
  unfold w_ok, want_of.
  destruct (parse_hdr r) as [[[[[] ch] cmd] dl]|]; auto.
  right. eauto.
Qed.

Lemma rx_inv_init : rx_inv ([], 0).
Proof. split; reflexivity. Qed.

(* one handle() call: frames and status are those of the stream so far *)
Lemma rx_feed_decode st chunk : rx_inv st ->
  let '(fs, st', s) := rx_feed st chunk in
  let '(fs', r, s') := decode (fst st ++ chunk) in
  fs = fs' /\ s = s' /\ (s = RxOk -> st' = (r, want_of r) /\ rx_inv st').
Proof.
  intros [Hw Hres]. destruct st as [r0 w0]. cbn [fst snd] in *. subst w0.
  unfold rx_feed. cbn [fst snd].
  set (inbuf := r0 ++ chunk).
  assert (Hwok : w_ok inbuf (want_of r0)).
  { unfold w_ok, want_of.
    destruct (parse_hdr r0) as [[[[[] ch] cmd] dl]|] eqn:Hp; auto.
    right. exists ch, cmd, dl. split; [|reflexivity].
    apply parse_hdr_app. exact Hp. }
  destruct (rx_loop_want_irrelevant (S (length inbuf)) inbuf _ Hwok (or_intror I))
    as (H1 & H2 & H3).
  rewrite rx_loop_decode in H1, H2, H3 by lia.
  fold (decode inbuf) in H1, H2, H3.
  destruct (rx_loop (S (length inbuf)) inbuf (want_of r0)) as [[fs st'] s].
  destruct (decode inbuf) as [[fs' r] s'] eqn:Hd.
  cbn [fst snd] in *. subst fs s. split; [reflexivity|]. split; [reflexivity|].
  intros ->. specialize (H3 eq_refl). subst st'. cbn [final_want].
  split; [reflexivity|]. split; [reflexivity|]. cbn [fst].
  eapply decode_residual. exact Hd.
Qed.

Lemma decode_then_residual r b : decode r = ([], r, RxOk) ->
  decode_then (decode r) b = decode (r ++ b).
Proof.
  intros ->. cbn [decode_then]. destruct (decode (r ++ b)) as [[? ?] ?]. reflexivity.
Qed.

(* any cutting of the stream into reads: same frames, same status *)
Lemma rx_feed_all_decode chunks : forall st, rx_inv st ->
  let '(fs, st', s) := rx_feed_all st chunks in
  let '(fs', r, s') := decode (fst st ++ concat chunks) in
  fs = fs' /\ s = s' /\ (s = RxOk -> st' = (r, want_of r)).
Proof.
  induction chunks as [|c cs IH]; intros st Hinv; cbn [rx_feed_all concat].
  - rewrite app_nil_r. destruct Hinv as [Hw Hres]. rewrite Hres.
    split; [reflexivity|]. split; [reflexivity|]. intros _.
    destruct st; cbn [fst snd] in *; congruence.
  - pose proof (rx_feed_decode st c Hinv) as Hf.
    destruct (rx_feed st c) as [[fs1 st1] s1].
    rewrite app_assoc, decode_app.
    destruct (decode (fst st ++ c)) as [[fs1' r1] s1'].
    destruct Hf as (-> & -> & Hst).
    destruct s1'; cbn [decode_then].
    + destruct (Hst eq_refl) as [-> Hinv1].
      specialize (IH _ Hinv1). cbn [fst] in IH.
      destruct (rx_feed_all (r1, want_of r1) cs) as [[fs2 st2] s2].
      destruct (decode (r1 ++ concat cs)) as [[fs2' r2] s2'].
      destruct IH as (-> & -> & IH). auto.
    + split; [reflexivity|]. split; [reflexivity|]. discriminate.
    + split; [reflexivity|]. split; [reflexivity|]. discriminate.
Qed.

(* ------------------------------------------------------------------ *)
(* sender                                                              *)

Lemma concat_drop_empty out : concat (drop_empty out) = concat out.
Proof.
  induction out as [|b tl IH]; [reflexivity|].
  destruct b; cbn [drop_empty]; [exact IH|reflexivity].
Qed.

Lemma tx_flush_inv k out :
  snd (tx_flush k out) ++ concat (fst (tx_flush k out)) = concat out.
Proof.
  unfold tx_flush.
  destruct out as [|[|a b0] tl].
  - reflexivity.
  - cbn [fst snd app]. rewrite concat_drop_empty. reflexivity.
  - destruct k as [k|]; cbv zeta; cbn [fst snd].
    + rewrite concat_drop_empty.
      cbn [concat]. rewrite app_assoc, takeN_dropN. reflexivity.
    + cbn [app]. apply concat_drop_empty.
Qed.

Lemma encode_all_app a b : encode_all (a ++ b) = encode_all a ++ encode_all b.
Proof.
  induction a as [|f a IH]; [reflexivity|]. cbn [app encode_all].
  destruct (encode f); rewrite IH; [apply app_assoc| |]; reflexivity.
Qed.

Definition tx_inv (st : list bytes * bytes * list frame) : Prop :=
  let '(out, wire, sent) := st in
  wire ++ concat out = encode_all sent /\ Forall encodable sent.

Lemma tx_step_inv st op : tx_inv st -> tx_inv (tx_step st op).
Proof.
  destruct st as [[out wire] sent]. intros [H HF]. destruct op as [f|k]; cbn [tx_step].
  - destruct (encode f) as [b| |] eqn:He; try (split; assumption).
    split.
    + rewrite concat_app, encode_all_app. cbn [concat encode_all]. rewrite He.
      rewrite !app_nil_r, app_assoc, H. reflexivity.
    + apply Forall_app. split; [exact HF|]. constructor; [|constructor]. exists b. exact He.
  - pose proof (tx_flush_inv k out) as Hf.
    destruct (tx_flush k out) as [out' w]. cbn [fst snd] in Hf.
    split; [|exact HF].
    rewrite <- app_assoc, Hf. exact H.
Qed.

Lemma tx_run_inv_gen ops : forall st, tx_inv st -> tx_inv (fold_left tx_step ops st).
Proof.
  induction ops as [|op ops IH]; intros st H; [exact H|].
  cbn [fold_left]. apply IH. apply tx_step_inv. exact H.
Qed.

Lemma tx_run_inv ops : tx_inv (tx_run ops).
Proof. apply tx_run_inv_gen. split; [reflexivity|constructor]. Qed.

(* ------------------------------------------------------------------ *)
(* link = FIFO                                                         *)

Lemma link_fifo_core wire rest sent :
  wire ++ rest = encode_all sent -> Forall encodable sent ->
  let '(fs, r, st) := decode wire in
  st = RxOk /\ prefix fs sent /\ (rest = [] -> fs = sent /\ r = []).
Proof.
  intros Heq HF.
  pose proof (decode_app wire rest) as Ha.
  rewrite Heq in Ha.
  assert (Hd : decode (encode_all sent) = (sent, [], RxOk)).
  { rewrite <- (app_nil_r (encode_all sent)) at 1.
    rewrite (decode_encode_all sent HF []), decode_nil, (app_nil_r sent). reflexivity. }
  rewrite Hd in Ha.
  destruct (decode wire) as [[fs r] st] eqn:Hw. cbn [decode_then] in Ha.
  destruct st.
  - destruct (decode (r ++ rest)) as [[fs2 r2] st2] eqn:H2.
    inversion Ha as [[Hfs Hr Hst]]. split; [reflexivity|]. split.
    + exists fs2. reflexivity.
    + intros ->. rewrite app_nil_r in H2.
      rewrite (decode_residual _ _ _ Hw) in H2. inversion H2; subst.
      rewrite !app_nil_r. auto.
  - discriminate.
  - discriminate.
Qed.

(* ------------------------------------------------------------------ *)
(* handshake                                                           *)

Definition nonempty (c : bytes) : Prop := c <> [].

Lemma total_len_cons c cs : total_len (c :: cs) = (length c + total_len cs)%nat.
Proof. unfold total_len. cbn [concat]. apply app_length. Qed.

Lemma raw_read_spec n chunks : Forall nonempty chunks -> 0 < n ->
  let '(d, rest) := raw_read n chunks in
  d ++ concat rest = concat chunks /\ Forall nonempty rest /\
  lenN d <= n /\ (d = [] -> chunks = []) /\ (total_len rest <= total_len chunks)%nat.
Proof.
  intros HF Hn. destruct chunks as [|c cs]; cbn [raw_read].
  - repeat split; auto; try (rewrite lenN_nil; lia); try lia.
  - inversion HF as [|? ? Hc Hcs]; subst.
    destruct (lenN c <=? n) eqn:Hl.
    + apply N.leb_le in Hl. repeat split; auto.
      * intros ->. exfalso. apply Hc. reflexivity.
      * rewrite total_len_cons. lia.
    + apply N.leb_gt in Hl. cbn [concat]. repeat split.
      * rewrite app_assoc, takeN_dropN. reflexivity.
      * constructor; [|exact Hcs]. unfold nonempty. intros E.
        assert (lenN (dropN n c) = lenN c - n) by (apply lenN_dropN; lia).
        rewrite E, lenN_nil in H. lia.
      * rewrite lenN_takeN; lia.
      * intros E. assert (lenN (takeN n c) = n) by (apply lenN_takeN; lia).
        rewrite E, lenN_nil in H. lia.
      * rewrite !total_len_cons, length_dropN. lia.
Qed.

Lemma skip_to_nul_spec fuel : forall chunks,
  Forall nonempty chunks -> (total_len chunks < fuel)%nat ->
  concat (skip_to_nul fuel chunks) = after_nul (concat chunks) /\
  Forall nonempty (skip_to_nul fuel chunks) /\
  (total_len (skip_to_nul fuel chunks) <= total_len chunks)%nat.
Proof.
  induction fuel as [|fuel IH]; intros chunks HF Hlen; [lia|].
  cbn [skip_to_nul].
  pose proof (raw_read_spec 1 chunks HF eq_refl) as Hr.
  destruct (raw_read 1 chunks) as [d rest].
  destruct Hr as (Hcat & HFr & Hd & Hnil & Htl).
  destruct d as [|v d'].
  - rewrite (Hnil eq_refl) in *. cbn in Hcat.
    repeat split; auto.
  - assert (d' = []).
    { rewrite lenN_cons in Hd. apply lenN_0. lia. }
    subst d'. rewrite <- Hcat. cbn [app after_nul].
    assert (Hlt : (total_len rest < total_len chunks)%nat).
    { unfold total_len in *. rewrite <- Hcat. cbn [app length]. lia. }
    destruct (Ascii.eqb v NUL).
    + repeat split; auto.
    + destruct (IH rest HFr ltac:(lia)) as (H1 & H2 & H3).
      repeat split; auto. lia.
Qed.

Lemma read_exact_spec fuel : forall n chunks,
  Forall nonempty chunks -> (N.to_nat n < fuel)%nat ->
  let '(d, rest) := read_exact fuel n chunks in
  d = takeN n (concat chunks) /\ concat rest = dropN n (concat chunks).
Proof.
  induction fuel as [|fuel IH]; intros n chunks HF Hn; [lia|].
  cbn [read_exact].
  destruct (n =? 0) eqn:H0.
  - apply N.eqb_eq in H0. subst n. split; reflexivity.
  - apply N.eqb_neq in H0.
    pose proof (raw_read_spec n chunks HF ltac:(lia)) as Hr.
    destruct (raw_read n chunks) as [d rest].
    destruct Hr as (Hcat & HFr & Hd & Hnil & _).
    destruct d as [|v d'].
    + rewrite (Hnil eq_refl) in *. cbn [concat app] in *.
      unfold takeN, dropN. rewrite firstn_nil, skipn_nil. split; [reflexivity|exact Hcat].
    + set (d := v :: d') in *.
      assert (Hdpos : 0 < lenN d) by (unfold d; rewrite lenN_cons; lia).
      specialize (IH (n - lenN d) rest HFr ltac:(lia)).
      destruct (read_exact fuel (n - lenN d) rest) as [d2 rest2].
      destruct IH as [-> ->]. rewrite <- Hcat.
      split.
      * unfold takeN. replace (N.to_nat n) with (length d + N.to_nat (n - lenN d))%nat
          by (unfold lenN in *; lia).
        rewrite firstn_app_2. reflexivity.
      * unfold dropN. replace (N.to_nat n) with (length d + N.to_nat (n - lenN d))%nat
          by (unfold lenN in *; lia).
        rewrite skipn_app.
        replace (length d + N.to_nat (n - lenN d) - length d)%nat
          with (N.to_nat (n - lenN d)) by lia.
        rewrite (skipn_all2 d) by lia. reflexivity.
Qed.

Lemma hs_run_spec expected chunks : Forall nonempty chunks ->
  fst (hs_run expected chunks) = fst (hs_spec expected (concat chunks)) /\
  concat (snd (hs_run expected chunks)) = snd (hs_spec expected (concat chunks)).
Proof.
  intros HF. unfold hs_run, hs_spec.
  destruct (skip_to_nul_spec (S (total_len chunks)) chunks HF ltac:(lia)) as (H1 & HF1 & L1).
  set (c1 := skip_to_nul (S (total_len chunks)) chunks) in *.
  destruct (skip_to_nul_spec (S (total_len chunks)) c1 HF1 ltac:(lia)) as (H2 & HF2 & L2).
  set (c2 := skip_to_nul (S (total_len chunks)) c1) in *.
  pose proof (read_exact_spec (S (length expected)) (lenN expected) c2 HF2
                ltac:(unfold lenN; lia)) as H3.
  destruct (read_exact (S (length expected)) (lenN expected) c2) as [init rest].
  cbn [fst snd]. destruct H3 as [-> ->]. rewrite H2, H1. split; reflexivity.
Qed.

Definition nul_free (s : bytes) : Prop := Forall (fun c => c <> NUL) s.

Lemma after_nul_noise n rest : nul_free n -> after_nul (n ++ NUL :: rest) = rest.
Proof.
  induction 1 as [|c n Hc _ IH]; cbn [app after_nul].
  - reflexivity.
  - destruct (Ascii.eqb c NUL) eqn:E; [|exact IH].
    apply Ascii.eqb_eq in E. contradiction.
Qed.

Lemma hs_spec_accepts expected n1 n2 rest : nul_free n1 -> nul_free n2 ->
  hs_spec expected (n1 ++ NUL :: n2 ++ NUL :: expected ++ rest) = (true, rest).
Proof.
  intros H1 H2. unfold hs_spec.
  rewrite (after_nul_noise n1 _ H1), (after_nul_noise n2 _ H2).
  rewrite takeN_app_exact, dropN_app_exact, bytes_eqb_refl. reflexivity.
Qed.
