(* Proofs/Routes_lemmas.v — proofs about Model/Routes.v (C17). *)
From Coq Require Import List NArith ZArith Ascii Bool Lia ZifyBool.
From SV Require Import Lib.Bytes Model.Wire Proofs.Wire_lemmas Model.Routes Gen.Consts.
Import ListNotations.
Local Open Scope N_scope.

(* ================================================================== *)
(* 1. Mask arithmetic                                                  *)

Definition netmask (w : N) : N := (2 ^ w - 1) * 2 ^ (32 - w).
Definition network (ip w : N) : N := (ip / 2 ^ (32 - w)) * 2 ^ (32 - w).

Lemma testbit_high ip n : ip < 2 ^ 32 -> 32 <= n -> N.testbit ip n = false.
Proof.
  intros Hip Hn. destruct (N.eq_dec ip 0) as [->|Hnz]; [apply N.bits_0|].
  apply N.bits_above_log2.
  assert (N.log2 ip < 32) by (apply N.log2_lt_pow2; lia). lia.
Qed.

Lemma mask_land ip w : ip < 2 ^ 32 -> w <= 32 ->
  N.land ip (netmask w) = network ip w.
Proof.
  intros Hip Hw. unfold netmask, network.
  set (k := 32 - w).
  replace (2 ^ w - 1) with (N.ones w) by (rewrite N.ones_equiv; lia).
  rewrite <- !N.shiftl_mul_pow2, <- N.shiftr_div_pow2.
  apply N.bits_inj. intros n. rewrite N.land_spec.
  destruct (N.ltb_spec n k) as [Hlt|Hge].
  - rewrite !N.shiftl_spec_low by assumption. apply andb_false_r.
  - rewrite !N.shiftl_spec_high' by assumption.
    rewrite N.shiftr_spec'. replace (n - k + k) with n by lia.
    destruct (N.ltb_spec (n - k) w) as [Hl|Hh].
    + rewrite N.ones_spec_low by assumption. apply andb_true_r.
    + rewrite N.ones_spec_high by assumption.
      rewrite (testbit_high ip n Hip) by (unfold k in *; lia). reflexivity.
Qed.

Lemma network_lt ip w : ip < 2 ^ 32 -> network ip w < 2 ^ 32.
Proof.
  intros Hip. unfold network.
  assert (H : ip / 2 ^ (32 - w) * 2 ^ (32 - w) <= ip).
  { rewrite N.mul_comm. apply N.mul_div_le. apply N.pow_nonzero. discriminate. }
  lia.
Qed.

(* host bits cleared, network bits kept *)
Lemma network_host_bits ip w : w <= 32 -> network ip w mod 2 ^ (32 - w) = 0.
Proof. intros _. unfold network. apply N.mod_mul. apply N.pow_nonzero. discriminate. Qed.

Lemma network_net_bits ip w : w <= 32 -> network ip w / 2 ^ (32 - w) = ip / 2 ^ (32 - w).
Proof. intros _. unfold network. apply N.div_mul. apply N.pow_nonzero. discriminate. Qed.

Lemma N2Z_inj_land a b : Z.of_N (N.land a b) = Z.land (Z.of_N a) (Z.of_N b).
Proof. destruct a, b; reflexivity. Qed.

Lemma netmask_Z w : w <= 32 ->
  ((2 ^ Z.of_N w - 1) * 2 ^ (32 - Z.of_N w))%Z = Z.of_N (netmask w).
Proof.
  intros Hw. unfold netmask.
  rewrite N2Z.inj_mul, N2Z.inj_sub, !N2Z.inj_pow, N2Z.inj_sub by (try lia; apply N.neq_0_lt_0, N.pow_nonzero; discriminate).
  reflexivity.
Qed.

(* ================================================================== *)
(* 2. _maskbits                                                        *)

Lemma maskbits_loop_range fuel i m : (0 <= i)%Z -> (i + Z.of_nat fuel <= 32)%Z ->
  (0 <= maskbits_loop fuel i m <= 32)%Z.
Proof.
  revert i. induction fuel as [|f IH]; intros i Hi Hb; cbn [maskbits_loop]; [lia|].
  destruct (negb (Z.land m (shl 1 i) =? 0)%Z); [lia|]. apply IH; lia.
Qed.

Lemma maskbits_range nm : (0 <= maskbits nm <= 32)%Z.
Proof.
  destruct nm as [[m x]|]; cbn [maskbits]; [|lia].
  apply maskbits_loop_range; cbn; lia.
Qed.

Definition widths : list N := map N.of_nat (seq 0 33).

Lemma widths_complete w : w <= 32 -> In w widths.
Proof.
  intros H. unfold widths. apply in_map_iff. exists (N.to_nat w). split; [lia|].
  apply in_seq. lia.
Qed.

Lemma maskbits_contiguous_sweep :
  forallb (fun w => (maskbits (Some (netmask w, 0%Z)) =? Z.of_N w)%Z) widths = true.
Proof. vm_compute. reflexivity. Qed.

Lemma maskbits_contiguous w x : w <= 32 -> maskbits (Some (netmask w, x)) = Z.of_N w.
Proof.
  intros H. pose proof maskbits_contiguous_sweep as S.
  rewrite forallb_forall in S. specialize (S w (widths_complete w H)).
  cbn [maskbits] in *. lia.
Qed.

(* every netmask value: 32 - (index of the lowest set bit) *)
Lemma land_shl1 m i : (0 <= i)%Z ->
  (Z.land (Z.of_N m) (shl 1 i) =? 0)%Z = negb (N.testbit m (Z.to_N i)).
Proof.
  intros Hi. unfold shl. rewrite Z.mul_1_l.
  replace (2 ^ i)%Z with (Z.of_N (2 ^ Z.to_N i)) by (rewrite N2Z.inj_pow, Z2N.id by lia; reflexivity).
  rewrite <- N2Z_inj_land.
  rewrite N.land_comm, <- (N.shiftl_1_l (Z.to_N i)).
  destruct (N.testbit m (Z.to_N i)) eqn:Hb; cbn [negb].
  - apply Z.eqb_neq. intros H0. assert (H1 : N.land (N.shiftl 1 (Z.to_N i)) m = 0) by lia.
    assert (N.testbit (N.land (N.shiftl 1 (Z.to_N i)) m) (Z.to_N i) = true).
    { rewrite N.land_spec, N.shiftl_spec_high', N.sub_diag, Hb by lia. reflexivity. }
    rewrite H1, N.bits_0 in H. discriminate.
  - apply Z.eqb_eq. change 0%Z with (Z.of_N 0). f_equal. apply N.bits_inj. intros n. rewrite N.land_spec, N.bits_0.
    destruct (N.eq_dec n (Z.to_N i)) as [->|Hne]; [rewrite Hb; apply andb_false_r|].
    destruct (N.ltb_spec n (Z.to_N i)).
    + rewrite N.shiftl_spec_low by assumption. reflexivity.
    + rewrite N.shiftl_spec_high' by assumption.
      replace (N.testbit 1 (n - Z.to_N i)) with false; [reflexivity|].
      symmetry. apply (N.bits_above_log2 1). cbn. lia.
Qed.

Lemma maskbits_loop_lowbit fuel i m j :
  (0 <= i)%Z -> (i <= Z.of_N j)%Z -> (Z.of_N j < i + Z.of_nat fuel)%Z ->
  N.testbit m j = true ->
  (forall k, (i <= Z.of_N k)%Z -> k < j -> N.testbit m k = false) ->
  maskbits_loop fuel i (Z.of_N m) = (32 - Z.of_N j)%Z.
Proof.
  revert i. induction fuel as [|f IH]; intros i Hi Hij Hjf Hb Hlow; [lia|].
  cbn [maskbits_loop]. rewrite land_shl1 by assumption. rewrite negb_involutive.
  destruct (Z.eq_dec i (Z.of_N j)) as [->|Hne].
  - rewrite N2Z.id, Hb. reflexivity.
  - rewrite (Hlow (Z.to_N i)) by lia.
    apply IH; try lia; try assumption. intros k Hk Hkj. apply Hlow; lia.
Qed.

Lemma maskbits_lowest_bit m x j : j < 32 -> N.testbit m j = true ->
  (forall k, k < j -> N.testbit m k = false) ->
  maskbits (Some (m, x)) = (32 - Z.of_N j)%Z.
Proof.
  intros Hj Hb Hlow. cbn [maskbits].
  apply maskbits_loop_lowbit; try lia; try assumption. intros k _ Hk. apply Hlow, Hk.
Qed.

(* ================================================================== *)
(* 3. route_of                                                         *)

Lemma route_of_ok ip w0 mask :
  ip < 2 ^ 32 -> (0 <= Z.min w0 mask <= 32)%Z ->
  route_of (ip, w0) mask =
  Ok (mkRoute AF_INET (dotted_quad (network ip (Z.to_N (Z.min w0 mask)))) (Z.min w0 mask)).
Proof.
  intros Hip Hw. unfold route_of. cbn [fst snd].
  set (wz := Z.min w0 mask) in *. set (w := Z.to_N wz).
  assert (Hwz : wz = Z.of_N w) by (unfold w; lia).
  assert (Hw32 : w <= 32) by lia.
  unfold py_shl. replace (0 <=? wz)%Z with true by lia. cbn [bind].
  replace (0 <=? 32 - wz)%Z with true by lia. cbn [bind].
  rewrite Z.mul_1_l, Hwz, (netmask_Z w Hw32), <- N2Z_inj_land, (mask_land ip w Hip Hw32).
  pose proof (network_lt ip w Hip) as Hlt.
  replace ((0 <=? Z.of_N (network ip w)) && (Z.of_N (network ip w) <? 4294967296))%Z with true.
  - rewrite N2Z.id. reflexivity.
  - change (2 ^ 32) with 4294967296 in Hlt. lia.
Qed.

(* ================================================================== *)
(* 4. _ipmatch: range of the result, classes of exceptions              *)

Lemma aton_part_le p n : aton_part p = Some n -> n <= 255.
Proof.
  unfold aton_part.
  match goal with |- match ?X with _ => _ end = _ -> _ => destruct X as [v|] end; [|discriminate].
  destruct (N.leb_spec v 255); [|discriminate]. intros [= <-]. assumption.
Qed.

Lemma inet_aton4_lt ps ip : inet_aton4 ps = Ok ip -> ip < 2 ^ 32.
Proof.
  unfold inet_aton4. intros H.
  destruct ps as [|p1 [|p2 [|p3 [|p4 [|p5 ps]]]]]; cbn [map] in H;
    repeat match type of H with context [aton_part ?p] =>
      let E := fresh "E" in destruct (aton_part p) eqn:E end; try discriminate H.
  injection H as <-.
  repeat match goal with E : aton_part _ = Some _ |- _ => apply aton_part_le in E end.
  change (2 ^ 32) with 4294967296. lia.
Qed.

Lemma inet_aton4_crash ps e : inet_aton4 ps = Crash e -> e = OSError.
Proof.
  unfold inet_aton4.
  destruct (map aton_part ps) as [|[a|] [|[b|] [|[c|] [|[d|] [|? ?]]]]]; intros [= <-]; reflexivity.
Qed.

Lemma int_of_digits_ok ds z : int_of_digits ds = Ok z -> (0 <= z)%Z.
Proof. unfold int_of_digits. destruct (_ <? _); intros [= <-]. lia. Qed.

Lemma int_of_digits_crash ds e : int_of_digits ds = Crash e -> e = ValueError.
Proof. unfold int_of_digits. destruct (_ <? _); intros [= <-]. reflexivity. Qed.

Lemma ipmatch_some s ip w : ipmatch s = Ok (Some (ip, w)) -> ip < 2 ^ 32 /\ (0 <= w)%Z.
Proof.
  unfold ipmatch.
  destruct (ipmatch_re _) as [[ps wd]|]; [|discriminate].
  match goal with |- bind ?X _ = _ -> _ => destruct X as [width|e] eqn:Ew end; cbn [bind]; [|discriminate].
  assert (Hw : (0 <= width)%Z).
  { destruct wd as [ds|]; [exact (int_of_digits_ok _ _ Ew)|]. injection Ew as <-. lia. }
  match goal with |- (let '(a, b) := ?X in _) = _ -> _ => destruct X as [ps4 width'] eqn:Eps end.
  assert (Hw' : (0 <= width')%Z).
  { destruct ps as [|? [|? [|? [|? ?]]]]; injection Eps as <- <-; lia. }
  destruct (inet_aton4 ps4) as [ip'|e] eqn:Ea; cbn [bind]; [|discriminate].
  intros [= <- <-]. split; [exact (inet_aton4_lt _ _ Ea)|exact Hw'].
Qed.

Lemma ipmatch_crash s e : ipmatch s = Crash e -> e = ValueError \/ e = OSError.
Proof.
  unfold ipmatch.
  destruct (ipmatch_re _) as [[ps wd]|]; [|discriminate].
  match goal with |- bind ?X _ = _ -> _ => destruct X as [width|e'] eqn:Ew end; cbn [bind].
  - match goal with |- (let '(a, b) := ?X in _) = _ -> _ => destruct X as [ps4 width'] end.
    destruct (inet_aton4 ps4) as [ip'|e'] eqn:Ea; cbn [bind]; [discriminate|].
    intros [= <-]. right. exact (inet_aton4_crash _ _ Ea).
  - intros [= <-]. left. destruct wd as [ds|]; [exact (int_of_digits_crash _ _ Ew)|discriminate].
Qed.

(* without a '/' the width comes from the abbreviation rule alone: 8, 16, 24 or 32 *)
Lemma span_app_suffix p s x y : span p s = (x, y) -> s = x ++ y.
Proof.
  revert x y. induction s as [|a t IH]; intros x y; cbn [span].
  - intros [= <- <-]. reflexivity.
  - destruct (p a).
    + destruct (span p t) as [x' y'] eqn:E. intros [= <- <-]. cbn. f_equal. apply IH. reflexivity.
    + intros [= <- <-]. reflexivity.
Qed.

Lemma dotted_suffix fuel s ps r : dotted fuel s = Some (ps, r) -> exists pre, s = pre ++ r.
Proof.
  revert s ps r. induction fuel as [|f IH]; intros s ps r; cbn [dotted];
    destruct (span is_digit s) as [d r0] eqn:Es; apply span_app_suffix in Es; subst s;
    destruct d as [|d0 d]; try discriminate.
  - intros [= <- <-]. eexists. reflexivity.
  - destruct r0 as [|c r']; [intros [= <- <-]; eexists; reflexivity|].
    destruct (Ascii.eqb c DOT).
    + destruct (dotted f r') as [[ps' rest]|] eqn:Ed; [|discriminate]. intros [= <- <-].
      destruct (IH _ _ _ Ed) as [pre ->].
      exists ((d0 :: d) ++ c :: pre). rewrite <- app_assoc. reflexivity.
    + intros [= <- <-]. eexists. reflexivity.
Qed.

Lemma ipmatch_re_width_slash s ps ds : ipmatch_re s = Some (ps, Some ds) -> In SLASH s.
Proof.
  unfold ipmatch_re. destruct (dotted 3 s) as [[ps' r]|] eqn:Ed; [|discriminate].
  destruct (dotted_suffix _ _ _ _ Ed) as [pre ->].
  destruct r as [|c r']; [discriminate|].
  destruct (Ascii.eqb c SLASH) eqn:Ec.
  - intros _. apply Ascii.eqb_eq in Ec. subst c. apply in_or_app. right. left. reflexivity.
  - destruct (re_end (c :: r')); discriminate.
Qed.

Lemma existsb_slash_in s : existsb (Ascii.eqb SLASH) s = false -> ~ In SLASH s.
Proof.
  intros H Hin. assert (existsb (Ascii.eqb SLASH) s = true); [|congruence].
  apply existsb_exists. exists SLASH. split; [assumption|apply Ascii.eqb_refl].
Qed.

Lemma ipmatch_noslash_width s ip w :
  ~ In SLASH s -> ipmatch s = Ok (Some (ip, w)) -> (w <= 32)%Z.
Proof.
  intros Hns. unfold ipmatch.
  destruct (bytes_eqb s s_default) eqn:Edef.
  - apply bytes_eqb_eq in Edef. subst s. vm_compute. intros [= <- <-]. discriminate.
  - destruct (ipmatch_re s) as [[ps wd]|] eqn:Ere; [|discriminate].
    destruct wd as [ds|]; [exfalso; exact (Hns (ipmatch_re_width_slash _ _ _ Ere))|].
    cbn [bind].
    match goal with |- (let '(a, b) := ?X in _) = _ -> _ => destruct X as [ps4 width'] eqn:Eps end.
    assert (Hw' : (width' <= 32)%Z).
    { destruct ps as [|? [|? [|? [|? ?]]]]; injection Eps as <- <-; lia. }
    destruct (inet_aton4 ps4); cbn [bind]; [|discriminate]. intros [= <- <-]. exact Hw'.
Qed.

(* ================================================================== *)
(* 5. Extractors and the repaired scanner                               *)

Lemma split_on_no_sep c s : Forall (fun f => ~ In c f) (split_on c s).
Proof.
  induction s as [|a t IH]; cbn [split_on].
  - constructor; [intros []|constructor].
  - destruct (Ascii.eqb a c) eqn:Eac.
    + constructor; [intros []|exact IH].
    + destruct (split_on c t) as [|h r]; [constructor; [|constructor]|].
      * intros [<-|[]]. rewrite Ascii.eqb_refl in Eac. discriminate.
      * inversion IH as [|? ? Hh Hr]; subst. constructor; [|exact Hr].
        intros [<-|Hin]; [rewrite Ascii.eqb_refl in Eac; discriminate|exact (Hh Hin)].
Qed.

Lemma py_int_crash sp s e : py_int sp s = Crash e -> e = ValueError.
Proof.
  unfold py_int.
  match goal with |- (let '(a, b) := ?X in _) = _ -> _ => destruct X as [neg s2] end.
  destruct (und_ok s2 true); [|intros [= <-]; reflexivity].
  destruct (_ <? _); [intros [= <-]; reflexivity|discriminate].
Qed.

Lemma route_iproute_some line ip w m :
  route_iproute line = Ok (Some ((ip, w), m)) -> ip < 2 ^ 32 /\ (0 <= w <= 32)%Z.
Proof.
  unfold route_iproute. destruct (words line) as [|ipm ws]; [discriminate|].
  destruct (negb (existsb (Ascii.eqb SLASH) ipm)); [discriminate|].
  pose proof (split_on_no_sep SLASH ipm) as Hns.
  destruct (split_on SLASH ipm) as [|ips [|mask [|? ?]]]; try discriminate.
  inversion Hns as [|? ? Hip _]; subst.
  destruct (ipmatch ips) as [ipw|e] eqn:Ei; cbn [bind]; [|discriminate].
  destruct (py_int is_space_s mask) as [mz|e]; cbn [bind]; [|discriminate].
  destruct ipw as [[ip' w']|]; [|discriminate]. intros [= <- <- <-].
  destruct (ipmatch_some _ _ _ Ei) as [H1 H2].
  pose proof (ipmatch_noslash_width _ _ _ Hip Ei). lia.
Qed.

Lemma route_iproute_crash line e : route_iproute line = Crash e -> caught e = true.
Proof.
  unfold route_iproute. destruct (words line) as [|ipm ws]; [intros [= <-]; reflexivity|].
  destruct (negb (existsb (Ascii.eqb SLASH) ipm)); [discriminate|].
  destruct (split_on SLASH ipm) as [|ips [|mask [|? ?]]]; try (intros [= <-]; reflexivity).
  destruct (ipmatch ips) as [ipw|e'] eqn:Ei; cbn [bind].
  - destruct (py_int is_space_s mask) as [mz|e'] eqn:Em; cbn [bind]; [discriminate|].
    intros [= <-]. rewrite (py_int_crash _ _ _ Em). reflexivity.
  - intros [= <-]. destruct (ipmatch_crash _ _ Ei) as [-> | ->]; reflexivity.
Qed.

Lemma route_netstat_some line ip w m :
  route_netstat line = Ok (Some ((ip, w), m)) -> ip < 2 ^ 32 /\ (0 <= w)%Z /\ (0 <= m <= 32)%Z.
Proof.
  unfold route_netstat. destruct (words line) as [|c0 [|c1 [|c2 cs]]]; try discriminate.
  destruct (ipmatch c0) as [ipw|e] eqn:Ei; cbn [bind]; [|discriminate].
  destruct (ipmatch c2) as [maskw|e]; cbn [bind]; [|discriminate].
  destruct ipw as [[ip' w']|]; [|discriminate]. intros [= <- <- <-].
  destruct (ipmatch_some _ _ _ Ei) as [H1 H2]. pose proof (maskbits_range maskw). lia.
Qed.

Lemma route_netstat_crash line e : route_netstat line = Crash e -> caught e = true.
Proof.
  unfold route_netstat. destruct (words line) as [|c0 [|c1 [|c2 cs]]]; try discriminate.
  destruct (ipmatch c0) as [ipw|e'] eqn:Ei; cbn [bind].
  - destruct (ipmatch c2) as [maskw|e'] eqn:Em; cbn [bind]; [discriminate|].
    intros [= <-]. destruct (ipmatch_crash _ _ Em) as [-> | ->]; reflexivity.
  - intros [= <-]. destruct (ipmatch_crash _ _ Ei) as [-> | ->]; reflexivity.
Qed.

Lemma route_windows_some line ip w m :
  route_windows line = Ok (Some ((ip, w), m)) -> ip < 2 ^ 32 /\ (0 <= w)%Z /\ (0 <= m <= 32)%Z.
Proof.
  unfold route_windows. destruct (negb (contains s_onlink line)); [discriminate|].
  destruct (words line) as [|c0 [|c1 cs]]; try discriminate.
  destruct (bytes_eqb c1 s_bcast); [discriminate|].
  destruct (win_skip c0); [discriminate|].
  destruct (ipmatch c0) as [ipw|e] eqn:Ei; cbn [bind]; [|discriminate].
  destruct (ipmatch c1) as [maskw|e]; cbn [bind]; [|discriminate].
  destruct ipw as [[ip' w']|]; [|discriminate]. intros [= <- <- <-].
  destruct (ipmatch_some _ _ _ Ei) as [H1 H2]. pose proof (maskbits_range maskw). lia.
Qed.

Lemma route_windows_crash line e : route_windows line = Crash e -> caught e = true.
Proof.
  unfold route_windows. destruct (negb (contains s_onlink line)); [discriminate|].
  destruct (words line) as [|c0 [|c1 cs]]; try (intros [= <-]; reflexivity).
  destruct (bytes_eqb c1 s_bcast); [discriminate|].
  destruct (win_skip c0); [discriminate|].
  destruct (ipmatch c0) as [ipw|e'] eqn:Ei; cbn [bind].
  - destruct (ipmatch c1) as [maskw|e'] eqn:Em; cbn [bind]; [discriminate|].
    intros [= <-]. destruct (ipmatch_crash _ _ Em) as [-> | ->]; reflexivity.
  - intros [= <-]. destruct (ipmatch_crash _ _ Ei) as [-> | ->]; reflexivity.
Qed.

Definition canonical_route (r : route) : Prop :=
  exists ip w, ip < 2 ^ 32 /\ w <= 32 /\
    r = mkRoute AF_INET (dotted_quad (network ip w)) (Z.of_N w).

Lemma extractor_some t line ip w m :
  extractor t line = Ok (Some ((ip, w), m)) -> (0 <= m)%Z ->
  ip < 2 ^ 32 /\ (0 <= Z.min w m <= 32)%Z.
Proof.
  destruct t; cbn [extractor]; intros H Hm.
  - destruct (route_iproute_some _ _ _ _ H). lia.
  - destruct (route_netstat_some _ _ _ _ H) as (? & ? & ?). lia.
  - discriminate.
  - destruct (route_windows_some _ _ _ _ H) as (? & ? & ?). lia.
Qed.

Lemma extractor_crash t line e : extractor t line = Crash e -> caught e = true.
Proof.
  destruct t; cbn [extractor]; [apply route_iproute_crash|apply route_netstat_crash|discriminate|apply route_windows_crash].
Qed.

(* the repaired scanner: a route (canonical) or a skip, never an exception *)
Lemma scan_line_total t line :
  scan_line (extractor t) line = Ok None \/
  exists r, scan_line (extractor t) line = Ok (Some r) /\ canonical_route r.
Proof.
  unfold scan_line. destruct (is_blank line); [left; reflexivity|].
  destruct (negb (all_ascii line)); [left; reflexivity|].
  destruct (extractor t line) as [[[[ip w] m]|]|e] eqn:Ex.
  - destruct (Z.ltb_spec m 0) as [Hneg|Hpos]; [left; reflexivity|].
    destruct (extractor_some _ _ _ _ _ Ex Hpos) as [Hip Hw].
    rewrite (route_of_ok ip w m Hip Hw). cbn [bind]. right. eexists. split; [reflexivity|].
    exists ip, (Z.to_N (Z.min w m)). split; [assumption|]. split; [lia|].
    rewrite Z2N.id by lia. reflexivity.
  - left; reflexivity.
  - rewrite (extractor_crash _ _ _ Ex). left; reflexivity.
Qed.

Lemma scan_lines_total t lines :
  exists rs, scan_lines (scan_line (extractor t)) lines = Ok rs /\ Forall canonical_route rs.
Proof.
  induction lines as [|l ls [rs [IH HF]]]; cbn [scan_lines].
  - exists []. split; [reflexivity|constructor].
  - destruct (scan_line_total t l) as [->|[r [-> Hr]]]; cbn [bind]; rewrite IH; cbn [bind].
    + exists rs. split; [reflexivity|assumption].
    + exists (r :: rs). split; [reflexivity|constructor; assumption].
Qed.

Lemma raw_routes_total t out :
  exists rs, raw_routes t out = Ok rs /\ Forall canonical_route rs.
Proof.
  unfold raw_routes. destruct t; try apply (scan_lines_total IpRoute); try apply (scan_lines_total Netstat);
    try apply (scan_lines_total RouteWin).
  exists []. split; [reflexivity|constructor].
Qed.

Lemma Forall_filter {A} (P : A -> Prop) f l : Forall P l -> Forall P (filter f l).
Proof.
  induction 1 as [|a l Ha Hl IH]; cbn [filter]; [constructor|].
  destruct (f a); [constructor; assumption|assumption].
Qed.

Lemma list_routes_total t out :
  exists rs, list_routes t out = Ok rs /\ Forall canonical_route rs /\
             forallb keep_route rs = true.
Proof.
  unfold list_routes. destruct (raw_routes_total t out) as [rs [-> HF]]. cbn [bind].
  exists (filter keep_route rs). split; [reflexivity|]. split; [apply Forall_filter, HF|].
  apply forallb_forall. intros r Hr. apply filter_In in Hr. apply Hr.
Qed.

(* the code as found: concrete lines on which the scanner raises *)
Definition line_abc : bytes := ["a"; "/"; "b"; "/"; "c"; " "; "d"; "e"; "v"; LF]%char.
Definition line_xslash : bytes := ["x"; "/"; LF]%char.
Definition line_xyy : bytes := ["x"; "/"; "y"; "y"; LF]%char.
Definition line_300 : bytes := ["3"; "0"; "0"; "."; "1"; "."; "1"; "."; "1"; "/"; "8"; " "; "d"; "e"; "v"; LF]%char.
Definition line_fs : bytes := ["028"%char; LF].
Definition line_nonascii : bytes := ["233"%char; "/"; "8"; LF]%char.
Definition line_300_netstat : bytes :=
  ["3"; "0"; "0"; "."; "1"; "."; "1"; "."; "1"; " "; "g"; " "; "2"; "5"; "5"; "."; "0"; "."; "0"; "."; "0"; LF]%char.

Lemma asfound_crashes :
  scan_line_asfound route_iproute line_abc = Crash ValueError /\
  scan_line_asfound route_iproute line_xslash = Crash ValueError /\
  scan_line_asfound route_iproute line_xyy = Crash ValueError /\
  scan_line_asfound route_iproute line_300 = Crash OSError /\
  scan_line_asfound route_netstat line_300_netstat = Crash OSError /\
  scan_line_asfound route_iproute line_fs = Crash IndexError /\
  scan_line_asfound route_iproute line_nonascii = Crash UnicodeDecodeError.
Proof. vm_compute. repeat split. Qed.

(* ================================================================== *)
(* 6. Finite sweeps over octets (0..255) and widths (0..32)            *)

Definition range (n : nat) : list N := map N.of_nat (seq 0 n).

Lemma range_complete n k : k < N.of_nat n -> In k (range n).
Proof.
  intros H. unfold range. apply in_map_iff. exists (N.to_nat k). split; [lia|].
  apply in_seq. lia.
Qed.

Lemma sweep (P : N -> bool) n :
  forallb P (range n) = true -> forall k, k < N.of_nat n -> P k = true.
Proof. intros H k Hk. rewrite forallb_forall in H. apply H, range_complete, Hk. Qed.

Definition ipchar (a : ascii) : bool := is_digit a || Ascii.eqb a DOT.

Definition opt_eqb (o : option N) (n : N) : bool :=
  match o with Some m => m =? n | None => false end.

Definition resZ_eqb (r : res Z) (z : Z) : bool :=
  match r with Ok v => (v =? z)%Z | Crash _ => false end.

(* p compared with x is decided inside x (p exhausted, or a mismatch found) *)
Fixpoint decided (p x : bytes) : bool :=
  match p, x with
  | [], _ => true
  | a :: p', b :: x' => if Ascii.eqb a b then decided p' x' else true
  | _ :: _, [] => false
  end.

Lemma starts_with_app p x r : decided p x = true -> starts_with p (x ++ r) = starts_with p x.
Proof.
  revert x. induction p as [|a p IH]; intros x H; [reflexivity|].
  destruct x as [|b x]; [discriminate|]. cbn [starts_with decided app] in *.
  destruct (Ascii.eqb a b); [cbn [andb]; apply IH, H|reflexivity].
Qed.

Definition octet_prop (n : N) : bool :=
  forallb is_digit (dec n) && negb (lenN (dec n) =? 0) &&
  opt_eqb (aton_part (dec n)) n &&
  decided s_0dot (dec n ++ [DOT]) && decided s_127dot (dec n ++ [DOT]) &&
  Bool.eqb (starts_with s_0dot (dec n ++ [DOT])) (n =? 0) &&
  Bool.eqb (starts_with s_127dot (dec n ++ [DOT])) (n =? 127).

Lemma octet_sweep : forallb octet_prop (range 256) = true.
Proof. vm_compute. reflexivity. Qed.

Lemma octet_facts n : n < 256 ->
  forallb is_digit (dec n) = true /\ dec n <> [] /\ aton_part (dec n) = Some n /\
  (forall r, starts_with s_0dot (dec n ++ DOT :: r) = (n =? 0)) /\
  (forall r, starts_with s_127dot (dec n ++ DOT :: r) = (n =? 127)).
Proof.
  intros H. pose proof (sweep _ _ octet_sweep n H) as S. unfold octet_prop in S.
  repeat (apply andb_prop in S; destruct S as [S ?]).
  split; [assumption|]. split.
  { intros E. rewrite E in *. discriminate. }
  split.
  { unfold opt_eqb in *. destruct (aton_part (dec n)); [f_equal; lia|discriminate]. }
  split; intros r; change (dec n ++ DOT :: r) with (dec n ++ [DOT] ++ r); rewrite app_assoc, starts_with_app by assumption.
  - apply Bool.eqb_prop. assumption.
  - apply Bool.eqb_prop. assumption.
Qed.

Definition width_prop (w : N) : bool :=
  forallb is_digit (dec w) && negb (lenN (dec w) =? 0) &&
  resZ_eqb (py_int is_space_s (dec w)) (Z.of_N w) &&
  resZ_eqb (py_int is_space_b (dec w)) (Z.of_N w) &&
  resZ_eqb (int_of_digits (dec w)) (Z.of_N w) &&
  bytes_eqb (rstrip is_space_b (dec w ++ [LF])) (dec w) &&
  bytes_eqb (decZ (Z.of_N w)) (dec w).

Lemma width_sweep : forallb width_prop (range 33) = true.
Proof. vm_compute. reflexivity. Qed.

Lemma resZ_eqb_eq r z : resZ_eqb r z = true -> r = Ok z.
Proof. destruct r; cbn; [intros; f_equal; lia|discriminate]. Qed.

Lemma width_facts w : w <= 32 ->
  forallb is_digit (dec w) = true /\ dec w <> [] /\
  py_int is_space_s (dec w) = Ok (Z.of_N w) /\ py_int is_space_b (dec w) = Ok (Z.of_N w) /\
  int_of_digits (dec w) = Ok (Z.of_N w) /\
  rstrip is_space_b (dec w ++ [LF]) = dec w /\ decZ (Z.of_N w) = dec w.
Proof.
  intros H. assert (Hlt : w < N.of_nat 33) by lia.
  pose proof (sweep _ _ width_sweep w Hlt) as S. unfold width_prop in S.
  repeat (apply andb_prop in S; destruct S as [S ?]).
  split; [assumption|]. split.
  { intros E. rewrite E in *. discriminate. }
  repeat split; try (apply resZ_eqb_eq; assumption); apply bytes_eqb_eq; assumption.
Qed.

(* character classes *)
Lemma ipchar_facts a : ipchar a = true ->
  is_space_s a = false /\ is_space_b a = false /\ is_ascii a = true /\
  Ascii.eqb a COMMA = false /\ Ascii.eqb a LF = false /\ Ascii.eqb a SLASH = false.
Proof. destruct a as [[] [] [] [] [] [] [] []]; vm_compute; intros H; try discriminate H; repeat split. Qed.

Lemma digit_ipchar a : is_digit a = true -> ipchar a = true.
Proof. unfold ipchar. intros ->. reflexivity. Qed.

Lemma forallb_app' {A} (f : A -> bool) x y : forallb f (x ++ y) = forallb f x && forallb f y.
Proof. induction x as [|a x IH]; cbn; [reflexivity|]. rewrite IH. apply andb_assoc. Qed.

Lemma forallb_impl {A} (f g : A -> bool) l :
  (forall a, f a = true -> g a = true) -> forallb f l = true -> forallb g l = true.
Proof.
  intros H. induction l as [|a l IH]; cbn; [reflexivity|].
  intros E. apply andb_prop in E. destruct E as [E1 E2]. rewrite (H _ E1), (IH E2). reflexivity.
Qed.

(* the four octets of an address *)
Definition o1 (ip : N) := ip / 16777216.
Definition o2 (ip : N) := (ip / 65536) mod 256.
Definition o3 (ip : N) := (ip / 256) mod 256.
Definition o4 (ip : N) := ip mod 256.

Lemma octets_lt ip : ip < 2 ^ 32 -> o1 ip < 256 /\ o2 ip < 256 /\ o3 ip < 256 /\ o4 ip < 256.
Proof.
  intros H. change (2 ^ 32) with 4294967296 in H. unfold o1, o2, o3, o4.
  repeat split; try (apply N.mod_lt; discriminate).
  apply N.div_lt_upper_bound; [discriminate|]. lia.
Qed.

Lemma octets_recompose ip : ((o1 ip * 256 + o2 ip) * 256 + o3 ip) * 256 + o4 ip = ip.
Proof.
  unfold o1, o2, o3, o4.
  assert (E2 : ip / 65536 = ip / 256 / 256) by (rewrite N.div_div by discriminate; reflexivity).
  assert (E3 : ip / 16777216 = ip / 256 / 256 / 256) by (rewrite !N.div_div by discriminate; reflexivity).
  rewrite E2, E3.
  pose proof (N.div_mod ip 256 ltac:(discriminate)) as H1.
  pose proof (N.div_mod (ip / 256) 256 ltac:(discriminate)) as H2.
  pose proof (N.div_mod (ip / 256 / 256) 256 ltac:(discriminate)) as H3.
  generalize dependent (ip / 256 / 256 / 256). intros q3.
  generalize dependent ((ip / 256 / 256) mod 256). intros r3.
  generalize dependent (ip / 256 / 256). intros q2.
  generalize dependent ((ip / 256) mod 256). intros r2.
  generalize dependent (ip / 256). intros q1.
  generalize dependent (ip mod 256). intros r1. intros. lia.
Qed.

Lemma dotted_quad_eq ip :
  dotted_quad ip = dec (o1 ip) ++ DOT :: dec (o2 ip) ++ DOT :: dec (o3 ip) ++ DOT :: dec (o4 ip).
Proof. reflexivity. Qed.

Lemma dotted_quad_ipchar ip : ip < 2 ^ 32 -> forallb ipchar (dotted_quad ip) = true.
Proof.
  intros H. destruct (octets_lt ip H) as (H1 & H2 & H3 & H4).
  rewrite dotted_quad_eq.
  repeat (rewrite forallb_app' || cbn [forallb]).
  rewrite !(forallb_impl is_digit ipchar _ digit_ipchar) by (apply octet_facts; assumption).
  reflexivity.
Qed.

(* default / 127.x / 0.x filter on rendered addresses *)
Lemma keep_route_spec f ip w : ip < 2 ^ 32 ->
  keep_route (mkRoute f (dotted_quad ip) w) = negb (o1 ip =? 0) && negb (o1 ip =? 127).
Proof.
  intros H. destruct (octets_lt ip H) as (H1 & _).
  destruct (octet_facts _ H1) as (_ & _ & _ & F0 & F127).
  unfold keep_route. cbn [r_ip]. rewrite dotted_quad_eq, F0, F127. reflexivity.
Qed.

(* ================================================================== *)
(* 7. ROUTES payload: rendering, Mux.send, client onroutes               *)

Lemma rstrip_nonempty sp y : existsb (fun a => negb (sp a)) y = true -> rstrip sp y <> [].
Proof.
  induction y as [|a t IH]; cbn [existsb rstrip]; [discriminate|].
  intros H. destruct (rstrip sp t) as [|b r] eqn:E.
  - destruct (sp a) eqn:Ea; [|discriminate]. cbn [negb orb] in H. exfalso. exact (IH H eq_refl).
  - discriminate.
Qed.

Lemma rstrip_app sp x y : rstrip sp y <> [] -> rstrip sp (x ++ y) = x ++ rstrip sp y.
Proof.
  intros Hy. induction x as [|a x IH]; [reflexivity|].
  cbn [app rstrip]. rewrite IH.
  destruct (x ++ rstrip sp y) as [|b r] eqn:E; [|reflexivity].
  apply app_eq_nil in E. destruct E as [_ E]. contradiction.
Qed.

Lemma break_app c x y : forallb (fun a => negb (Ascii.eqb a c)) x = true ->
  break c (x ++ c :: y) = (x, Some y).
Proof.
  induction x as [|a x IH]; cbn [app break forallb].
  - rewrite Ascii.eqb_refl. reflexivity.
  - intros H. apply andb_prop in H. destruct H as [Ha Hx].
    destruct (Ascii.eqb a c); [discriminate|]. rewrite (IH Hx). reflexivity.
Qed.

Lemma split_on_single c x : forallb (fun a => negb (Ascii.eqb a c)) x = true -> split_on c x = [x].
Proof.
  induction x as [|a x IH]; cbn [split_on forallb]; [reflexivity|].
  intros H. apply andb_prop in H. destruct H as [Ha Hx].
  destruct (Ascii.eqb a c); [discriminate|]. rewrite (IH Hx). reflexivity.
Qed.

Lemma split_on_app c x y : forallb (fun a => negb (Ascii.eqb a c)) x = true ->
  split_on c (x ++ c :: y) = x :: split_on c y.
Proof.
  induction x as [|a x IH]; cbn [app split_on forallb].
  - rewrite Ascii.eqb_refl. reflexivity.
  - intros H. apply andb_prop in H. destruct H as [Ha Hx].
    destruct (Ascii.eqb a c); [discriminate|]. rewrite (IH Hx). reflexivity.
Qed.

(* one rendered line without its LF, for a canonical route *)
Definition body (ip w : N) : bytes := ["2"%char] ++ COMMA :: dotted_quad ip ++ COMMA :: dec w.

Lemma render_canonical ip w : w <= 32 ->
  render_route (mkRoute AF_INET (dotted_quad ip) (Z.of_N w)) = body ip w ++ [LF].
Proof.
  intros Hw. unfold render_route, body. cbn [r_family r_ip r_width].
  destruct (width_facts w Hw) as (_ & _ & _ & _ & _ & _ & ->).
  change (decZ AF_INET) with ["2"%char].
  rewrite <- !app_assoc. cbn [app]. rewrite <- app_assoc. reflexivity.
Qed.

Lemma not_eqb_of_ipchar c : (forall a, ipchar a = true -> Ascii.eqb a c = false) ->
  forall x, forallb ipchar x = true -> forallb (fun a => negb (Ascii.eqb a c)) x = true.
Proof.
  intros H x. apply forallb_impl. intros a Ha. rewrite (H a Ha). reflexivity.
Qed.

Lemma body_no_lf ip w : ip < 2 ^ 32 -> w <= 32 ->
  forallb (fun a => negb (Ascii.eqb a LF)) (body ip w) = true.
Proof.
  intros Hip Hw. unfold body.
  assert (HL : forall x, forallb ipchar x = true -> forallb (fun a => negb (Ascii.eqb a LF)) x = true).
  { apply not_eqb_of_ipchar. intros a Ha. apply (ipchar_facts a Ha). }
  repeat (rewrite forallb_app' || cbn [forallb]).
  rewrite (HL _ (dotted_quad_ipchar ip Hip)).
  rewrite (HL (dec w)); [reflexivity|].
  apply (forallb_impl is_digit ipchar _ digit_ipchar), (width_facts w Hw).
Qed.

Lemma onroutes_line_body v6 ip w : ip < 2 ^ 32 -> w <= 32 ->
  onroutes_line true v6 (body ip w) = Ok (Some (mkNet AF_INET (dotted_quad ip) (Z.of_N w))).
Proof.
  intros Hip Hw. unfold onroutes_line, body.
  assert (HC : forallb (fun a => negb (Ascii.eqb a COMMA)) (dotted_quad ip) = true).
  { apply (not_eqb_of_ipchar COMMA); [|apply dotted_quad_ipchar, Hip].
    intros a Ha. apply (ipchar_facts a Ha). }
  cbn [splitn app break]. change (Ascii.eqb "2" COMMA) with false. cbn iota.
  change (Ascii.eqb COMMA COMMA) with true. cbn iota.
  rewrite (break_app COMMA _ _ HC).
  change (py_int is_space_b ["2"%char]) with (Ok 2%Z). cbn [bind].
  destruct (width_facts w Hw) as (_ & _ & _ & -> & _). cbn [bind].
  assert (HA : all_ascii (dotted_quad ip) = true).
  { unfold all_ascii. apply (forallb_impl ipchar is_ascii); [|apply dotted_quad_ipchar, Hip].
    intros a Ha. apply (ipchar_facts a Ha). }
  rewrite HA. reflexivity.
Qed.

Definition canon_list (l : list (N * N)) : Prop :=
  Forall (fun p => fst p < 2 ^ 32 /\ snd p <= 32) l.
Definition route_of_pair (p : N * N) : route :=
  mkRoute AF_INET (dotted_quad (fst p)) (Z.of_N (snd p)).

Lemma body_nonempty ip w : body ip w <> [].
Proof. discriminate. Qed.

Lemma onroutes_lines_bodies v6 l : canon_list l ->
  onroutes_lines true v6 (map (fun p => body (fst p) (snd p)) l) =
  (map (fun p => net_of_route (route_of_pair p)) l, Ok tt).
Proof.
  induction 1 as [|[ip w] l [Hip Hw] Hl IH]; [reflexivity|].
  cbn [map onroutes_lines fst snd] in *.
  destruct (body ip w) as [|b0 bt] eqn:Eb; [discriminate|]. rewrite <- Eb.
  rewrite (onroutes_line_body v6 ip w Hip Hw), IH. reflexivity.
Qed.

Lemma render_pairs l : canon_list l ->
  render_routes (map route_of_pair l) = concat (map (fun p => body (fst p) (snd p) ++ [LF]) l).
Proof.
  induction 1 as [|[ip w] l [Hip Hw] Hl IH]; [reflexivity|].
  unfold render_routes in *. cbn [map concat fst snd] in *. rewrite IH.
  unfold route_of_pair at 1. cbn [fst snd]. rewrite (render_canonical ip w Hw). reflexivity.
Qed.

Lemma body_lf_rstrip ip w : w <= 32 ->
  rstrip is_space_b (body ip w ++ [LF]) = body ip w.
Proof.
  intros Hw. destruct (width_facts w Hw) as (_ & Hne & _ & _ & _ & Hr & _).
  assert (E : rstrip is_space_b (dec w ++ [LF]) <> []) by (rewrite Hr; exact Hne).
  assert (Eq : body ip w ++ [LF] = ("2"%char :: COMMA :: dotted_quad ip ++ [COMMA]) ++ (dec w ++ [LF])).
  { unfold body. cbn [app]. rewrite <- !app_assoc. cbn [app]. reflexivity. }
  rewrite Eq, rstrip_app by exact E. rewrite Hr.
  unfold body. cbn [app]. rewrite <- !app_assoc. cbn [app]. reflexivity.
Qed.

Definition payload_of (l : list (N * N)) : bytes :=
  concat (map (fun p => body (fst p) (snd p) ++ [LF]) l).

Lemma payload_split p l : canon_list (p :: l) ->
  rstrip is_space_b (payload_of (p :: l)) <> [] /\ split_on LF (rstrip is_space_b (payload_of (p :: l))) = map (fun p => body (fst p) (snd p)) (p :: l).
Proof.
  revert p. induction l as [|p2 l IH]; intros [ip w] Hc; inversion Hc as [|? ? [Hip Hw] Hl]; subst;
    cbn [fst snd] in *; unfold payload_of in *; cbn [map concat fst snd] in *.
  - rewrite app_nil_r, (body_lf_rstrip ip w Hw). split; [discriminate|].
    apply split_on_single, body_no_lf; assumption.
  - destruct (IH p2 Hl) as [Hne Hsp].
    rewrite <- app_assoc. cbn [app].
    change (body ip w ++ LF :: ?X) with (body ip w ++ [LF] ++ X).
    rewrite app_assoc, rstrip_app by exact Hne. split.
    + intros E. apply app_eq_nil in E. destruct E as [E _]. apply app_eq_nil in E. destruct E; discriminate.
    + rewrite <- app_assoc. cbn [app]. rewrite split_on_app by (apply body_no_lf; assumption).
      rewrite Hsp. reflexivity.
Qed.

Lemma onroutes_payload v6 l : canon_list l ->
  onroutes true true v6 (payload_of l) =
  mkOutcome (map (fun p => net_of_route (route_of_pair p)) l) true None.
Proof.
  intros Hc. unfold onroutes, strip. destruct l as [|p l].
  - reflexivity.
  - assert (Hd : dropwhile is_space_b (payload_of (p :: l)) = payload_of (p :: l)) by reflexivity.
    rewrite Hd. destruct (payload_split p l Hc) as [_ ->].
    rewrite (onroutes_lines_bodies v6 (p :: l) Hc). reflexivity.
Qed.

(* canonical routes as pairs *)
Lemma canonical_pairs rs : Forall canonical_route rs ->
  exists l, canon_list l /\ rs = map route_of_pair l.
Proof.
  induction 1 as [|r rs (ip & w & Hip & Hw & ->) _ (l & Hl & ->)].
  - exists []. split; constructor.
  - exists ((network ip w, w) :: l). split; [|reflexivity].
    constructor; [|assumption]. cbn [fst snd]. split; [apply network_lt, Hip|assumption].
Qed.

Lemma send_routes_ok rs : lenN (render_routes rs) <= 65535 ->
  exists wire, send_routes rs = Ok wire /\ decode wire = ([routes_frame rs], [], RxOk).
Proof.
  intros Hlen. unfold send_routes.
  assert (Hok : frame_ok (routes_frame rs) = true).
  { unfold frame_ok, routes_frame. cbn [f_data f_ch f_cmd].
    apply N.leb_le in Hlen. rewrite Hlen. reflexivity. }
  destruct (encode_frame_ok _ Hok) as [b Hb]. rewrite Hb.
  exists b. split; [reflexivity|]. exact (decode_encode _ _ Hb).
Qed.

Lemma send_routes_too_big rs : 65535 < lenN (render_routes rs) ->
  send_routes rs = Crash AssertionError.
Proof.
  intros H. unfold send_routes, encode, routes_frame. cbn [f_data].
  apply N.ltb_lt in H. rewrite H. reflexivity.
Qed.

Lemma client_receive_routes v6 rs wire : Forall canonical_route rs ->
  decode wire = ([routes_frame rs], [], RxOk) ->
  client_receive true true v6 wire = Some (mkOutcome (map net_of_route rs) true None).
Proof.
  intros Hc Hd. unfold client_receive. rewrite Hd. unfold routes_frame. cbn [f_cmd f_data].
  rewrite N.eqb_refl.
  destruct (canonical_pairs rs Hc) as (l & Hl & ->).
  rewrite (render_pairs l Hl). fold (payload_of l). rewrite (onroutes_payload v6 l Hl).
  rewrite map_map. reflexivity.
Qed.

Lemma delivery_partial t out :
  exists rs, list_routes t out = Ok rs /\ Forall canonical_route rs /\   (lenN (render_routes rs) <= 65535 ->
     exists wire, server_advertise t out = Ok wire /\      forall v6, client_receive true true v6 wire =
                  Some (mkOutcome (map net_of_route rs) true None)).
Proof.
  destruct (list_routes_total t out) as (rs & Hrs & Hc & _).
  exists rs. split; [assumption|]. split; [assumption|].
  intros Hlen. destruct (send_routes_ok rs Hlen) as (wire & Hs & Hd).
  exists wire. split.
  - unfold server_advertise. rewrite Hrs. exact Hs.
  - intros v6. exact (client_receive_routes v6 rs wire Hc Hd).
Qed.

Lemma delivery_too_big t out rs : list_routes t out = Ok rs ->
  65535 < lenN (render_routes rs) -> server_advertise t out = Crash AssertionError.
Proof.
  intros Hrs Hlen. unfold server_advertise. rewrite Hrs. exact (send_routes_too_big rs Hlen).
Qed.

(* without --auto-nets the payload is ignored and the firewall starts *)
Lemma onroutes_off v4 v6 payload : onroutes false v4 v6 payload = mkOutcome [] true None.
Proof. reflexivity. Qed.

(* the witness of finding F6: 5000 /24 routes as printed by `ip route` *)
Definition big_line (i : N) : bytes :=
  dotted_quad (167772160 + 256 * i) ++ ["/"; "2"; "4"; " "; "d"; "e"; "v"; LF]%char.
Definition big_table (n : nat) : bytes := concat (map big_line (map N.of_nat (seq 0 n))).

Lemma big_table_kills_server : server_advertise IpRoute (big_table 5000) = Crash AssertionError.
Proof. vm_compute. reflexivity. Qed.

(* ================================================================== *)
(* 8. Well-formed tokens and lines                                      *)

Definition starts_ok (p : ascii -> bool) (r : bytes) : Prop :=
  match r with [] => True | c :: _ => p c = false end.

Lemma span_app p x r : forallb p x = true -> starts_ok p r -> span p (x ++ r) = (x, r).
Proof.
  intros Hx Hr. induction x as [|a x IH]; cbn [app span].
  - destruct r as [|c r]; [reflexivity|]. cbn [span]. cbn in Hr. rewrite Hr. reflexivity.
  - cbn [forallb] in Hx. apply andb_prop in Hx. destruct Hx as [Ha Hx].
    rewrite Ha, (IH Hx). reflexivity.
Qed.

Lemma words_lead lead x : forallb is_space_s lead = true -> words (lead ++ x) = words x.
Proof.
  induction lead as [|a l IH]; [reflexivity|]. cbn [forallb app words].
  intros H. apply andb_prop in H. destruct H as [-> Hl]. exact (IH Hl).
Qed.

Lemma words_tok tok rest : tok <> [] ->
  forallb (fun a => negb (is_space_s a)) tok = true -> starts_ok (fun a => negb (is_space_s a)) rest ->
  words (tok ++ rest) = tok :: words rest.
Proof.
  intros Hne Ht Hr. induction tok as [|a t IH]; [contradiction|].
  cbn [forallb] in Ht. apply andb_prop in Ht. destruct Ht as [Ha Ht].
  apply negb_true_iff in Ha. cbn [app words]. rewrite Ha.
  destruct t as [|b t'].
  - cbn [app]. destruct rest as [|c rest']; [reflexivity|].
    cbn in Hr. apply negb_false_iff in Hr. rewrite Hr. reflexivity.
  - cbn [app]. cbn [forallb] in Ht. pose proof Ht as Ht'. apply andb_prop in Ht'. destruct Ht' as [Hb _].
    apply negb_true_iff in Hb. rewrite Hb.
    change (b :: t' ++ rest) with ((b :: t') ++ rest). rewrite IH by (try discriminate; assumption).
    reflexivity.
Qed.

Fixpoint join_dot (ps : list bytes) : bytes :=
  match ps with
  | [] => []
  | [d] => d
  | d :: ps' => d ++ DOT :: join_dot ps'
  end.

Definition digits (d : bytes) : Prop := forallb is_digit d = true /\ d <> [].
Definition after_ip (r : bytes) : Prop :=
  match r with [] => True | c :: _ => is_digit c = false /\ Ascii.eqb c DOT = false end.

Lemma dotted_join ps : forall f r, ps <> [] -> (length ps <= S f)%nat -> Forall digits ps -> after_ip r ->
  dotted f (join_dot ps ++ r) = Some (ps, r).
Proof.
  induction ps as [|d ps IH]; intros f r Hne Hlen HF Hr; [contradiction|].
  inversion HF as [|? ? [Hd Hdn] HF']; subst.
  destruct ps as [|d2 ps].
  - cbn [join_dot]. destruct f; cbn [dotted];
      (rewrite (span_app is_digit d r Hd) by (destruct r; [exact I|apply Hr]));
      (destruct d as [|d0 dt]; [contradiction|]); [reflexivity|].
    destruct r as [|c r']; [reflexivity|]. destruct Hr as [_ ->]. reflexivity.
  - destruct f as [|f]; [cbn in Hlen; lia|].
    change (join_dot (d :: d2 :: ps)) with (d ++ DOT :: join_dot (d2 :: ps)).
    rewrite <- app_assoc. cbn [app dotted].
    rewrite (span_app is_digit d _ Hd) by reflexivity.
    destruct d as [|d0 dt]; [contradiction|].
    change (Ascii.eqb DOT DOT) with true. cbn iota.
    rewrite (IH f r) by (try discriminate; try assumption; cbn in *; lia). reflexivity.
Qed.

Lemma ipmatch_re_plain ps : ps <> [] -> (length ps <= 4)%nat -> Forall digits ps ->
  ipmatch_re (join_dot ps) = Some (ps, None).
Proof.
  intros Hne Hlen HF. unfold ipmatch_re.
  pose proof (dotted_join ps 3 [] Hne Hlen HF I) as Ed. rewrite app_nil_r in Ed. rewrite Ed. reflexivity.
Qed.

Lemma ipmatch_re_width ps ds : ps <> [] -> (length ps <= 4)%nat -> Forall digits ps -> digits ds ->
  ipmatch_re (join_dot ps ++ SLASH :: ds) = Some (ps, Some ds).
Proof.
  intros Hne Hlen HF [Hd Hdn]. unfold ipmatch_re.
  rewrite (dotted_join ps 3 (SLASH :: ds) Hne Hlen HF) by (split; reflexivity).
  change (Ascii.eqb SLASH SLASH) with true. cbn iota.
  pose proof (span_app is_digit ds [] Hd I) as Es. rewrite app_nil_r in Es. rewrite Es.
  destruct ds as [|? ?]; [contradiction|]. reflexivity.
Qed.

Lemma digits_dec_octet n : n < 256 -> digits (dec n).
Proof. intros H. destruct (octet_facts n H) as (H1 & H2 & _). split; assumption. Qed.

Lemma digits_head d : digits d -> exists c t, d = c :: t /\ is_digit c = true.
Proof.
  intros [Hd Hn]. destruct d as [|c t]; [contradiction|]. exists c, t. split; [reflexivity|].
  cbn in Hd. apply andb_prop in Hd. apply Hd.
Qed.

Lemma not_default_of_digit c t : is_digit c = true -> bytes_eqb (c :: t) s_default = false.
Proof.
  intros Hc. destruct (bytes_eqb (c :: t) s_default) eqn:E; [|reflexivity].
  apply bytes_eqb_eq in E. injection E as -> _. discriminate.
Qed.

Lemma join_dot_head d ps r : digits d -> exists c t, join_dot (d :: ps) ++ r = c :: t /\ is_digit c = true.
Proof.
  intros Hd. destruct (digits_head d Hd) as (c & t & -> & Hc).
  destruct ps; cbn [join_dot app]; eexists; eexists; (split; [reflexivity|exact Hc]).
Qed.

(* zero-filled address and width cap of an abbreviated destination *)
Definition ip_of (os : list N) : N :=
  match os with
  | [a] => a * 16777216
  | [a; b] => a * 16777216 + b * 65536
  | [a; b; c] => a * 16777216 + b * 65536 + c * 256
  | [a; b; c; d] => a * 16777216 + b * 65536 + c * 256 + d
  | _ => 0
  end.
Definition cap_of (os : list N) : Z := (8 * Z.of_nat (length os))%Z.
Definition octets_ok (os : list N) : Prop :=
  os <> [] /\ (length os <= 4)%nat /\ Forall (fun n => n < 256) os.

Lemma octets_digits os : Forall (fun n => n < 256) os -> Forall digits (map dec os).
Proof. induction 1; cbn [map]; constructor; [apply digits_dec_octet|]; assumption. Qed.

Lemma aton_s0 : aton_part s0 = Some 0.
Proof. reflexivity. Qed.

Lemma ipmatch_core os wd width : octets_ok os -> (width <= 32)%Z ->
  (match wd with None => Ok 32%Z | Some ds => int_of_digits ds end) = Ok width ->
  ipmatch_re (join_dot (map dec os) ++ match wd with None => [] | Some ds => SLASH :: ds end)
    = Some (map dec os, wd) ->
  ipmatch (join_dot (map dec os) ++ match wd with None => [] | Some ds => SLASH :: ds end)
    = Ok (Some (ip_of os, Z.min width (cap_of os))).
Proof.
  intros (Hne & Hlen & HF) Hw32 Hw Hre. unfold ipmatch.
  destruct os as [|a os]; [contradiction|].
  inversion HF as [|? ? Ha HF1]; subst.
  destruct (join_dot_head (dec a) (map dec os) (match wd with None => [] | Some ds => SLASH :: ds end)
              (digits_dec_octet a Ha)) as (c & t & Eh & Hc).
  cbn [map] in *. rewrite Eh in *. rewrite (not_default_of_digit c t Hc), Hre, Hw. cbn [bind].
  destruct os as [|b [|c' [|d [|e os]]]]; cbn [length] in Hlen; try lia; cbn [map app];
    repeat match goal with H : Forall _ (_ :: _) |- _ => inversion H; subst; clear H end;
    unfold inet_aton4; cbn [map];
    rewrite ?aton_s0;
    repeat match goal with H : ?n < 256 |- _ =>
      rewrite (proj1 (proj2 (proj2 (octet_facts n H)))); clear H end;
    cbn [bind ip_of]; unfold cap_of; cbn [length]; (f_equal; f_equal; f_equal; lia).
Qed.

Lemma ipmatch_plain os : octets_ok os ->
  ipmatch (join_dot (map dec os)) = Ok (Some (ip_of os, cap_of os)).
Proof.
  intros Hok. pose proof Hok as (Hne & Hlen & HF).
  pose proof (ipmatch_core os None 32%Z Hok ltac:(lia) eq_refl) as H. cbn iota in H.
  rewrite app_nil_r in H. rewrite H.
  - repeat f_equal. unfold cap_of. lia.
  - apply ipmatch_re_plain; [destruct os; [contradiction|discriminate]|rewrite map_length; exact Hlen|apply octets_digits, HF].
Qed.

Lemma ipmatch_width os w : octets_ok os -> w <= 32 ->
  ipmatch (join_dot (map dec os) ++ SLASH :: dec w) = Ok (Some (ip_of os, Z.min (Z.of_N w) (cap_of os))).
Proof.
  intros Hok Hw. pose proof Hok as (Hne & Hlen & HF).
  destruct (width_facts w Hw) as (Hd & Hdn & _ & _ & Hi & _).
  apply (ipmatch_core os (Some (dec w)) (Z.of_N w) Hok ltac:(lia) Hi).
  apply ipmatch_re_width; [destruct os; [contradiction|discriminate]|rewrite map_length; exact Hlen|apply octets_digits, HF|split; assumption].
Qed.

Lemma dotted_quad_join ip :
  dotted_quad ip = join_dot (map dec [o1 ip; o2 ip; o3 ip; o4 ip]).
Proof. rewrite dotted_quad_eq. cbn [map join_dot]. reflexivity. Qed.

Lemma quad_octets_ok ip : ip < 2 ^ 32 -> octets_ok [o1 ip; o2 ip; o3 ip; o4 ip].
Proof.
  intros H. destruct (octets_lt ip H) as (H1 & H2 & H3 & H4).
  split; [discriminate|]. split; [cbn; lia|]. repeat constructor; assumption.
Qed.

Lemma ip_of_quad ip : ip_of [o1 ip; o2 ip; o3 ip; o4 ip] = ip.
Proof. cbn [ip_of]. pose proof (octets_recompose ip). lia. Qed.

Lemma ipmatch_quad ip : ip < 2 ^ 32 -> ipmatch (dotted_quad ip) = Ok (Some (ip, 32%Z)).
Proof.
  intros H. rewrite dotted_quad_join, (ipmatch_plain _ (quad_octets_ok ip H)), ip_of_quad. reflexivity.
Qed.

(* ---- whole lines ---- *)
Definition tokn (t : bytes) : Prop := t <> [] /\ forallb (fun a => negb (is_space_s a)) t = true.
Definition spaces (s : bytes) : Prop := s <> [] /\ forallb is_space_s s = true.
Definition rest_ok (r : bytes) : Prop := starts_ok (fun a => negb (is_space_s a)) r.

Lemma space_s_ascii a : is_space_s a = true -> is_ascii a = true.
Proof. destruct a as [[] [] [] [] [] [] [] []]; vm_compute; intros H; try discriminate H; reflexivity. Qed.

Lemma space_b_s a : is_space_b a = true -> is_space_s a = true.
Proof. unfold is_space_s. intros ->. reflexivity. Qed.

Lemma spaces_rest_ok s x : spaces s -> rest_ok (s ++ x).
Proof.
  intros [Hn Hs]. destruct s as [|c s]; [contradiction|]. cbn in *.
  apply andb_prop in Hs. destruct Hs as [-> _]. reflexivity.
Qed.

Lemma not_blank_tok lead c t x : is_space_s c = false -> is_blank (lead ++ (c :: t) ++ x) = false.
Proof.
  intros Hc. unfold is_blank. rewrite forallb_app'. cbn [app forallb].
  replace (is_space_b c) with false; [apply andb_false_r|].
  destruct (is_space_b c) eqn:E; [|reflexivity]. rewrite (space_b_s c E) in Hc. discriminate.
Qed.

Lemma ipchar_tok x : x <> [] -> forallb ipchar x = true -> tokn x.
Proof.
  intros Hn Hx. split; [assumption|]. revert Hx. apply forallb_impl.
  intros a Ha. destruct (ipchar_facts a Ha) as (-> & _). reflexivity.
Qed.

Lemma join_dot_ipchar os : Forall (fun n => n < 256) os -> forallb ipchar (join_dot (map dec os)) = true.
Proof.
  induction 1 as [|a os Ha HF IH]; [reflexivity|].
  assert (Hd : forallb ipchar (dec a) = true).
  { apply (forallb_impl is_digit ipchar _ digit_ipchar), (octet_facts a Ha). }
  destruct os as [|b os]; [exact Hd|].
  change (join_dot (map dec (a :: b :: os))) with (dec a ++ DOT :: join_dot (map dec (b :: os))).
  rewrite forallb_app', Hd. cbn [forallb andb]. exact IH.
Qed.

Lemma ip_of_lt os : octets_ok os -> ip_of os < 2 ^ 32.
Proof.
  intros (Hne & Hlen & HF). change (2 ^ 32) with 4294967296.
  destruct os as [|a [|b [|c [|d [|e os]]]]]; cbn [length] in Hlen; try lia; try contradiction;
    repeat match goal with H : Forall _ (_ :: _) |- _ => inversion H; subst; clear H end;
    cbn [ip_of]; lia.
Qed.

Definition dest_tok (os : list N) (w : N) : bytes := join_dot (map dec os) ++ SLASH :: dec w.
Definition eff_width (os : list N) (w : N) : N := N.min w (8 * N.of_nat (length os)).

Lemma dest_tok_props os w : octets_ok os -> w <= 32 ->
  exists c t, dest_tok os w = c :: t /\ is_digit c = true /\
    forallb (fun a => ipchar a || Ascii.eqb a SLASH) (dest_tok os w) = true.
Proof.
  intros Hok Hw. pose proof Hok as (Hne & Hlen & HF).
  destruct os as [|a os]; [contradiction|]. inversion HF as [|? ? Ha HF1]; subst.
  destruct (join_dot_head (dec a) (map dec os) (SLASH :: dec w) (digits_dec_octet a Ha)) as (c & t & E & Hc).
  exists c, t. split; [exact E|]. split; [exact Hc|].
  unfold dest_tok. rewrite forallb_app'. cbn [forallb].
  rewrite (forallb_impl ipchar (fun a => ipchar a || Ascii.eqb a SLASH) (join_dot (map dec (a :: os))))
    by (try (apply join_dot_ipchar, HF); intros x ->; reflexivity).
  change (Ascii.eqb SLASH SLASH) with true. rewrite orb_true_r. cbn [andb].
  apply (forallb_impl is_digit); [|apply (width_facts w Hw)].
  intros x Hx. rewrite (digit_ipchar x Hx). reflexivity.
Qed.

Lemma slashchar_facts a : ipchar a || Ascii.eqb a SLASH = true ->
  is_space_s a = false /\ is_ascii a = true.
Proof. destruct a as [[] [] [] [] [] [] [] []]; vm_compute; intros H; try discriminate H; split; reflexivity. Qed.

Lemma iproute_line lead os w rest : octets_ok os -> w <= 32 ->
  forallb is_space_s lead = true -> rest_ok rest -> all_ascii rest = true ->
  scan_line route_iproute (lead ++ dest_tok os w ++ rest) =
  Ok (Some (mkRoute AF_INET (dotted_quad (network (ip_of os) (eff_width os w)))
                    (Z.of_N (eff_width os w)))).
Proof.
  intros Hok Hw Hlead Hrest Hasc. pose proof Hok as (Hne & Hlen & HF).
  destruct (dest_tok_props os w Hok Hw) as (c & t & Etok & Hc & Hchars).
  assert (Hsp : forall a, ipchar a || Ascii.eqb a SLASH = true -> negb (is_space_s a) = true).
  { intros a Ha. destruct (slashchar_facts a Ha) as [-> _]. reflexivity. }
  assert (Htok : tokn (dest_tok os w)).
  { split; [rewrite Etok; discriminate|]. exact (forallb_impl _ _ _ Hsp Hchars). }
  unfold scan_line.
  assert (Hcs : is_space_s c = false).
  { apply negb_true_iff, Hsp. rewrite (digit_ipchar c Hc). reflexivity. }
  rewrite Etok at 1. rewrite (not_blank_tok lead c t rest Hcs).
  assert (Hall : all_ascii (lead ++ dest_tok os w ++ rest) = true).
  { unfold all_ascii in *. rewrite !forallb_app', Hasc.
    rewrite (forallb_impl is_space_s is_ascii lead space_s_ascii Hlead).
    rewrite (forallb_impl _ is_ascii (dest_tok os w) (fun a Ha => proj2 (slashchar_facts a Ha)) Hchars).
    reflexivity. }
  rewrite Hall. cbn [negb].
  unfold route_iproute.
  rewrite (words_lead lead _ Hlead), (words_tok _ rest (proj1 Htok) (proj2 Htok) Hrest).
  assert (Hex : existsb (Ascii.eqb SLASH) (dest_tok os w) = true).
  { apply existsb_exists. exists SLASH. split; [|reflexivity]. unfold dest_tok. apply in_or_app. right. left. reflexivity. }
  rewrite Hex. cbn [negb].
  assert (HnsI : forallb (fun a => negb (Ascii.eqb a SLASH)) (join_dot (map dec os)) = true).
  { apply (not_eqb_of_ipchar SLASH); [|apply join_dot_ipchar, HF]. intros a Ha. apply (ipchar_facts a Ha). }
  assert (HnsW : forallb (fun a => negb (Ascii.eqb a SLASH)) (dec w) = true).
  { apply (not_eqb_of_ipchar SLASH); [intros a Ha; apply (ipchar_facts a Ha)|].
    apply (forallb_impl is_digit ipchar _ digit_ipchar), (width_facts w Hw). }
  unfold dest_tok. rewrite (split_on_app SLASH _ _ HnsI), (split_on_single SLASH _ HnsW).
  rewrite (ipmatch_plain os Hok). cbn [bind].
  destruct (width_facts w Hw) as (_ & _ & -> & _). cbn [bind].
  replace (Z.of_N w <? 0)%Z with false by lia.
  assert (Hmin : Z.min (cap_of os) (Z.of_N w) = Z.of_N (eff_width os w)).
  { unfold cap_of, eff_width. lia. }
  rewrite (route_of_ok (ip_of os) (cap_of os) (Z.of_N w) (ip_of_lt os Hok)) by (rewrite Hmin; unfold eff_width; lia).
  cbn [bind]. rewrite Hmin, N2Z.id. reflexivity.
Qed.

(* three-column lines *)
Lemma words3 lead c0 sp1 c1 sp2 c2 rest :
  forallb is_space_s lead = true -> tokn c0 -> spaces sp1 -> tokn c1 -> spaces sp2 -> tokn c2 -> rest_ok rest ->
  words (lead ++ c0 ++ sp1 ++ c1 ++ sp2 ++ c2 ++ rest) = c0 :: c1 :: c2 :: words rest.
Proof.
  intros Hl [H0n H0] Hs1 [H1n H1] Hs2 [H2n H2] Hr.
  rewrite (words_lead lead _ Hl).
  rewrite (words_tok c0 _ H0n H0 (spaces_rest_ok sp1 _ Hs1)).
  rewrite (words_lead sp1 _ (proj2 Hs1)).
  rewrite (words_tok c1 _ H1n H1 (spaces_rest_ok sp2 _ Hs2)).
  rewrite (words_lead sp2 _ (proj2 Hs2)).
  rewrite (words_tok c2 _ H2n H2 Hr). reflexivity.
Qed.

Lemma netstat_line_gen lead c0 sp1 c1 sp2 c2 rest ip w0 maskw :
  forallb is_space_s lead = true -> tokn c0 -> spaces sp1 -> tokn c1 -> spaces sp2 -> tokn c2 -> rest_ok rest ->
  all_ascii (lead ++ c0 ++ sp1 ++ c1 ++ sp2 ++ c2 ++ rest) = true ->
  ipmatch c0 = Ok (Some (ip, w0)) -> ipmatch c2 = Ok maskw ->
  (Z.min w0 (maskbits maskw) <= 32)%Z ->
  scan_line route_netstat (lead ++ c0 ++ sp1 ++ c1 ++ sp2 ++ c2 ++ rest) =
  Ok (Some (mkRoute AF_INET
             (dotted_quad (network ip (Z.to_N (Z.min w0 (maskbits maskw)))))
             (Z.min w0 (maskbits maskw)))).
Proof.
  intros Hl H0 Hs1 H1 Hs2 H2 Hr Hasc Hi0 Hi2 Hle.
  unfold scan_line.
  destruct c0 as [|c t] eqn:Ec0; [destruct H0; contradiction|].
  assert (Hcs : is_space_s c = false).
  { destruct H0 as [_ H0]. cbn in H0. apply andb_prop in H0. apply negb_true_iff, H0. }
  rewrite (not_blank_tok lead c t _ Hcs), Hasc. cbn [negb].
  unfold route_netstat. rewrite (words3 lead (c :: t) sp1 c1 sp2 c2 rest Hl H0 Hs1 H1 Hs2 H2 Hr).
  rewrite Hi0, Hi2. cbn [bind].
  pose proof (maskbits_range maskw) as Hm.
  destruct (ipmatch_some _ _ _ Hi0) as [Hip Hw0].
  replace (maskbits maskw <? 0)%Z with false by lia.
  rewrite (route_of_ok ip w0 (maskbits maskw) Hip) by lia. reflexivity.
Qed.

(* Linux `netstat -rn`: destination, gateway, contiguous genmask of width w *)
Lemma netmask_lt_sweep : forallb (fun w => netmask w <? 2 ^ 32) (range 33) = true.
Proof. vm_compute. reflexivity. Qed.

Lemma netmask_lt w : w <= 32 -> netmask w < 2 ^ 32.
Proof.
  intros H. assert (Hlt : w < N.of_nat 33) by lia.
  pose proof (sweep _ _ netmask_lt_sweep w Hlt) as S. cbv beta in S. lia.
Qed.

Lemma dotted_quad_tokn ip : ip < 2 ^ 32 -> tokn (dotted_quad ip) /\ all_ascii (dotted_quad ip) = true.
Proof.
  intros H. pose proof (dotted_quad_ipchar ip H) as Hc. split.
  - apply ipchar_tok; [|exact Hc]. rewrite dotted_quad_join.
    destruct (join_dot_head (dec (o1 ip)) (map dec [o2 ip; o3 ip; o4 ip]) []
                (digits_dec_octet _ (proj1 (octets_lt ip H)))) as (c & t & E & _).
    rewrite app_nil_r in E. cbn [map] in *. rewrite E. discriminate.
  - unfold all_ascii. revert Hc. apply forallb_impl. intros a Ha. apply (ipchar_facts a Ha).
Qed.

Lemma netstat_linux_line lead ip sp1 gw sp2 w rest : ip < 2 ^ 32 -> w <= 32 ->
  forallb is_space_s lead = true -> spaces sp1 -> tokn gw -> all_ascii gw = true -> spaces sp2 ->
  rest_ok rest -> all_ascii rest = true ->
  scan_line route_netstat (lead ++ dotted_quad ip ++ sp1 ++ gw ++ sp2 ++ dotted_quad (netmask w) ++ rest) =
  Ok (Some (mkRoute AF_INET (dotted_quad (network ip w)) (Z.of_N w))).
Proof.
  intros Hip Hw Hl Hs1 Hgw Hgwa Hs2 Hr Hra.
  pose proof (netmask_lt w Hw) as Hm.
  destruct (dotted_quad_tokn ip Hip) as [Ht0 Ha0].
  destruct (dotted_quad_tokn _ Hm) as [Ht2 Ha2].
  assert (Hsa : forall s, spaces s -> all_ascii s = true).
  { intros s [_ Hs]. unfold all_ascii. exact (forallb_impl _ _ _ space_s_ascii Hs). }
  assert (Hasc : all_ascii (lead ++ dotted_quad ip ++ sp1 ++ gw ++ sp2 ++ dotted_quad (netmask w) ++ rest) = true).
  { unfold all_ascii in *. rewrite !forallb_app', Ha0, Ha2, Hgwa, Hra, (Hsa sp1 Hs1), (Hsa sp2 Hs2).
    rewrite (forallb_impl _ _ _ space_s_ascii Hl). reflexivity. }
  pose proof (maskbits_contiguous w 32%Z Hw) as Hmb.
  rewrite (netstat_line_gen lead _ sp1 gw sp2 _ rest ip 32%Z (Some (netmask w, 32%Z))
             Hl Ht0 Hs1 Hgw Hs2 Ht2 Hr Hasc (ipmatch_quad ip Hip) (ipmatch_quad _ Hm)) by (rewrite Hmb; lia).
  rewrite Hmb. replace (Z.min 32 (Z.of_N w)) with (Z.of_N w) by lia. rewrite N2Z.id. reflexivity.
Qed.

(* BSD `netstat -rn`: abbreviated destination, optional /width, third column = flags *)
Lemma netstat_bsd_line lead os sp1 gw sp2 flags rest : octets_ok os ->
  forallb is_space_s lead = true -> spaces sp1 -> tokn gw -> all_ascii gw = true -> spaces sp2 ->
  tokn flags -> all_ascii flags = true -> ipmatch flags = Ok None ->
  rest_ok rest -> all_ascii rest = true ->
  scan_line route_netstat (lead ++ join_dot (map dec os) ++ sp1 ++ gw ++ sp2 ++ flags ++ rest) =
  Ok (Some (mkRoute AF_INET (dotted_quad (network (ip_of os) (8 * N.of_nat (length os))))
                    (Z.of_N (8 * N.of_nat (length os))))).
Proof.
  intros Hok Hl Hs1 Hgw Hgwa Hs2 Hfl Hfla Hfn Hr Hra. pose proof Hok as (Hne & Hlen & HF).
  pose proof (join_dot_ipchar os HF) as Hc.
  assert (Ht0 : tokn (join_dot (map dec os))).
  { apply ipchar_tok; [|exact Hc]. destruct os as [|a os]; [contradiction|]. inversion HF; subst.
    destruct (join_dot_head (dec a) (map dec os) [] (digits_dec_octet a ltac:(assumption))) as (c & t & E & _).
    rewrite app_nil_r in E. cbn [map]. rewrite E. discriminate. }
  assert (Ha0 : all_ascii (join_dot (map dec os)) = true).
  { unfold all_ascii. revert Hc. apply forallb_impl. intros a Ha. apply (ipchar_facts a Ha). }
  assert (Hsa : forall s, spaces s -> all_ascii s = true).
  { intros s [_ Hs]. unfold all_ascii. exact (forallb_impl _ _ _ space_s_ascii Hs). }
  assert (Hasc : all_ascii (lead ++ join_dot (map dec os) ++ sp1 ++ gw ++ sp2 ++ flags ++ rest) = true).
  { unfold all_ascii in *. rewrite !forallb_app', Ha0, Hfla, Hgwa, Hra, (Hsa sp1 Hs1), (Hsa sp2 Hs2).
    rewrite (forallb_impl _ _ _ space_s_ascii Hl). reflexivity. }
  assert (Hcap : Z.min (cap_of os) (maskbits None) = Z.of_N (8 * N.of_nat (length os))).
  { unfold cap_of. cbn [maskbits]. lia. }
  rewrite (netstat_line_gen lead _ sp1 gw sp2 flags rest (ip_of os) (cap_of os) None
             Hl Ht0 Hs1 Hgw Hs2 Hfl Hr Hasc (ipmatch_plain os Hok) Hfn) by (rewrite Hcap; lia).
  rewrite Hcap, N2Z.id. reflexivity.
Qed.

(* default routes *)
Definition s_default_line (rest : bytes) : bytes := s_default ++ rest.

Lemma iproute_default rest : rest_ok rest -> route_iproute (s_default ++ rest) = Ok None.
Proof.
  intros Hr. unfold route_iproute.
  rewrite (words_tok s_default rest) by (try discriminate; try reflexivity; exact Hr).
  reflexivity.
Qed.

Lemma ipmatch_default : ipmatch s_default = Ok (Some (0, 0%Z)).
Proof. reflexivity. Qed.

(* ================================================================== *)
(* 9. Windows `route PRINT -4`                                          *)

Lemma contains_prefix p s : starts_with p s = true -> contains p s = true.
Proof. intros H. destruct s; cbn [contains]; rewrite H; reflexivity. Qed.

Lemma starts_with_self p r : starts_with p (p ++ r) = true.
Proof. induction p as [|a p IH]; [reflexivity|]. cbn [app starts_with]. rewrite Ascii.eqb_refl. exact IH. Qed.

Lemma contains_skip p x y : contains p y = true -> contains p (x ++ y) = true.
Proof.
  intros H. induction x as [|a x IH]; [exact H|].
  cbn [app contains]. rewrite IH. apply orb_true_r.
Qed.

Lemma contains_here p x r : contains p (x ++ p ++ r) = true.
Proof. apply contains_skip, contains_prefix, starts_with_self. Qed.

(* the four skipped prefixes on a rendered address: decided by its first two octets *)
Definition winskip_prop (a b : N) : bool :=
  let x := dec a ++ DOT :: dec b ++ [DOT] in
  forallb (fun p => decided p x) win_skip_prefixes &&
  Bool.eqb (win_skip x) ((a =? 127) || (a =? 0) || (a =? 224) || ((a =? 169) && (b =? 254))).

Lemma winskip_sweep : forallb (fun a => forallb (winskip_prop a) (range 256)) (range 256) = true.
Proof. vm_compute. reflexivity. Qed.

Lemma win_skip_app x r :
  forallb (fun p => decided p x) win_skip_prefixes = true -> win_skip (x ++ r) = win_skip x.
Proof.
  unfold win_skip, win_skip_prefixes. cbn [forallb existsb]. intros H.
  repeat (apply andb_prop in H; destruct H as [? H]).
  rewrite !starts_with_app by assumption. reflexivity.
Qed.

Lemma win_skip_spec ip : ip < 2 ^ 32 ->
  win_skip (dotted_quad ip) =
  (o1 ip =? 127) || (o1 ip =? 0) || (o1 ip =? 224) || ((o1 ip =? 169) && (o2 ip =? 254)).
Proof.
  intros H. destruct (octets_lt ip H) as (H1 & H2 & _ & _).
  pose proof (sweep _ _ winskip_sweep (o1 ip) H1) as S1. cbv beta in S1.
  pose proof (sweep _ _ S1 (o2 ip) H2) as S. unfold winskip_prop in S. cbv zeta in S.
  apply andb_prop in S. destruct S as [Sd Se]. apply Bool.eqb_prop in Se.
  rewrite dotted_quad_eq.
  change (dec (o1 ip) ++ DOT :: dec (o2 ip) ++ DOT :: dec (o3 ip) ++ DOT :: dec (o4 ip))
    with (dec (o1 ip) ++ DOT :: dec (o2 ip) ++ [DOT] ++ (dec (o3 ip) ++ DOT :: dec (o4 ip))).
  replace (dec (o1 ip) ++ DOT :: dec (o2 ip) ++ [DOT] ++ dec (o3 ip) ++ DOT :: dec (o4 ip))
    with ((dec (o1 ip) ++ DOT :: dec (o2 ip) ++ [DOT]) ++ (dec (o3 ip) ++ DOT :: dec (o4 ip)))
    by (rewrite <- app_assoc; cbn [app]; rewrite <- app_assoc; reflexivity).
  rewrite (win_skip_app _ _ Sd). exact Se.
Qed.

(* a rendered contiguous netmask equals "255.255.255.255" exactly for width 32 *)
Lemma bcast_sweep : forallb (fun w => Bool.eqb (bytes_eqb (dotted_quad (netmask w)) s_bcast) (w =? 32)) (range 33) = true.
Proof. vm_compute. reflexivity. Qed.

Lemma netmask_not_bcast w : w < 32 -> bytes_eqb (dotted_quad (netmask w)) s_bcast = false.
Proof.
  intros H. assert (Hlt : w < N.of_nat 33) by lia.
  pose proof (sweep _ _ bcast_sweep w Hlt) as S. cbv beta in S. apply Bool.eqb_prop in S.
  rewrite S. apply N.eqb_neq. lia.
Qed.

Lemma words2 lead c0 sp1 c1 rest :
  forallb is_space_s lead = true -> tokn c0 -> spaces sp1 -> tokn c1 -> rest_ok rest ->
  words (lead ++ c0 ++ sp1 ++ c1 ++ rest) = c0 :: c1 :: words rest.
Proof.
  intros Hl [H0n H0] Hs1 [H1n H1] Hr.
  rewrite (words_lead lead _ Hl).
  rewrite (words_tok c0 _ H0n H0 (spaces_rest_ok sp1 _ Hs1)).
  rewrite (words_lead sp1 _ (proj2 Hs1)).
  rewrite (words_tok c1 _ H1n H1 Hr). reflexivity.
Qed.

Lemma onlink_rest_ok sp2 rest : forallb is_space_s sp2 = true -> rest_ok (sp2 ++ s_onlink ++ rest).
Proof.
  intros H. destruct sp2 as [|c s]; [reflexivity|]. cbn in *.
  apply andb_prop in H. destruct H as [-> _]. reflexivity.
Qed.

(* general two-column form: destination, netmask, then " On-link " somewhere behind *)
Lemma windows_line_gen lead c0 sp1 c1 sp2 rest ip w0 maskw :
  forallb is_space_s lead = true -> tokn c0 -> spaces sp1 -> tokn c1 -> forallb is_space_s sp2 = true ->
  all_ascii (lead ++ c0 ++ sp1 ++ c1 ++ sp2 ++ s_onlink ++ rest) = true ->
  bytes_eqb c1 s_bcast = false -> win_skip c0 = false ->
  ipmatch c0 = Ok (Some (ip, w0)) -> ipmatch c1 = Ok maskw ->
  (Z.min w0 (maskbits maskw) <= 32)%Z ->
  scan_line route_windows (lead ++ c0 ++ sp1 ++ c1 ++ sp2 ++ s_onlink ++ rest) =
  Ok (Some (mkRoute AF_INET
             (dotted_quad (network ip (Z.to_N (Z.min w0 (maskbits maskw)))))
             (Z.min w0 (maskbits maskw)))).
Proof.
  intros Hl H0 Hs1 H1 Hs2 Hasc Hb Hsk Hi0 Hi1 Hle.
  unfold scan_line.
  destruct c0 as [|c t] eqn:Ec0; [destruct H0; contradiction|].
  assert (Hcs : is_space_s c = false).
  { destruct H0 as [_ H0]. cbn in H0. apply andb_prop in H0. apply negb_true_iff, H0. }
  rewrite (not_blank_tok lead c t _ Hcs), Hasc. cbn [negb].
  unfold route_windows.
  assert (Hc : contains s_onlink (lead ++ (c :: t) ++ sp1 ++ c1 ++ sp2 ++ s_onlink ++ rest) = true).
  { do 5 apply contains_skip. apply contains_prefix, starts_with_self. }
  rewrite Hc. cbn [negb].
  rewrite (words2 lead (c :: t) sp1 c1 _ Hl H0 Hs1 H1 (onlink_rest_ok sp2 rest Hs2)).
  rewrite Hb, Hsk, Hi0, Hi1. cbn [bind].
  pose proof (maskbits_range maskw) as Hm.
  destruct (ipmatch_some _ _ _ Hi0) as [Hip Hw0].
  replace (maskbits maskw <? 0)%Z with false by lia.
  rewrite (route_of_ok ip w0 (maskbits maskw) Hip) by lia. reflexivity.
Qed.

(* the same shape with a host-route mask or a skipped destination: no route *)
Lemma windows_line_skipped lead c0 sp1 c1 sp2 rest :
  forallb is_space_s lead = true -> tokn c0 -> spaces sp1 -> tokn c1 -> forallb is_space_s sp2 = true ->
  bytes_eqb c1 s_bcast = true \/ win_skip c0 = true ->
  scan_line route_windows (lead ++ c0 ++ sp1 ++ c1 ++ sp2 ++ s_onlink ++ rest) = Ok None.
Proof.
  intros Hl H0 Hs1 H1 Hs2 Hsk. unfold scan_line.
  destruct (is_blank _); [reflexivity|]. destruct (negb (all_ascii _)); [reflexivity|].
  unfold route_windows.
  assert (Hc : contains s_onlink (lead ++ c0 ++ sp1 ++ c1 ++ sp2 ++ s_onlink ++ rest) = true).
  { do 5 apply contains_skip. apply contains_prefix, starts_with_self. }
  rewrite Hc. cbn [negb].
  rewrite (words2 lead c0 sp1 c1 _ Hl H0 Hs1 H1 (onlink_rest_ok sp2 rest Hs2)).
  destruct Hsk as [-> | Hsk]; [reflexivity|]. rewrite Hsk. destruct (bytes_eqb c1 s_bcast); reflexivity.
Qed.

Lemma windows_no_onlink line : contains s_onlink line = false -> scan_line route_windows line = Ok None.
Proof.
  intros H. unfold scan_line. destruct (is_blank line); [reflexivity|].
  destruct (negb (all_ascii line)); [reflexivity|]. unfold route_windows. rewrite H. reflexivity.
Qed.

(* `route PRINT -4`: destination, contiguous netmask of width w < 32, On-link *)
Lemma windows_line lead ip sp1 w sp2 rest : ip < 2 ^ 32 -> w < 32 ->
  forallb is_space_s lead = true -> spaces sp1 -> forallb is_space_s sp2 = true -> all_ascii rest = true ->
  win_skip (dotted_quad ip) = false ->
  scan_line route_windows (lead ++ dotted_quad ip ++ sp1 ++ dotted_quad (netmask w) ++ sp2 ++ s_onlink ++ rest) =
  Ok (Some (mkRoute AF_INET (dotted_quad (network ip w)) (Z.of_N w))).
Proof.
  intros Hip Hw Hl Hs1 Hs2 Hra Hsk.
  assert (Hw' : w <= 32) by lia.
  pose proof (netmask_lt w Hw') as Hm.
  destruct (dotted_quad_tokn ip Hip) as [Ht0 Ha0].
  destruct (dotted_quad_tokn _ Hm) as [Ht1 Ha1].
  assert (Hsa : forall s, forallb is_space_s s = true -> all_ascii s = true).
  { intros s Hs. unfold all_ascii. exact (forallb_impl _ _ _ space_s_ascii Hs). }
  assert (Hasc : all_ascii (lead ++ dotted_quad ip ++ sp1 ++ dotted_quad (netmask w) ++ sp2 ++ s_onlink ++ rest) = true).
  { unfold all_ascii in *. rewrite !forallb_app', Ha0, Ha1, Hra, (Hsa sp1 (proj2 Hs1)), (Hsa sp2 Hs2), (Hsa lead Hl). reflexivity. }
  pose proof (maskbits_contiguous w 32%Z Hw') as Hmb.
  rewrite (windows_line_gen lead _ sp1 _ sp2 rest ip 32%Z (Some (netmask w, 32%Z))
             Hl Ht0 Hs1 Ht1 Hs2 Hasc (netmask_not_bcast w Hw) Hsk (ipmatch_quad ip Hip) (ipmatch_quad _ Hm))
    by (rewrite Hmb; lia).
  rewrite Hmb. replace (Z.min 32 (Z.of_N w)) with (Z.of_N w) by lia. rewrite N2Z.id. reflexivity.
Qed.
