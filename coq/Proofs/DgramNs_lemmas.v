From Coq Require Import List NArith Ascii Bool Lia Arith.
From SV Require Import Lib.Bytes Lib.DgramLib Model.Chan Model.Dgram Model.DgramNs Proofs.Dgram_lemmas Gen.Consts.
Import ListNotations.
Local Open Scope N_scope.

(* the k-th connect of the attempt sequence is judged against the k-th list *)
Fixpoint conn_current (cfg : scfg) (nss : list (list bytes)) (outs : list sout) : Prop :=
  match outs with
  | [] => True
  | SConnect s a b :: rest => out_target_ok (cfg_at cfg nss) (SConnect s a b) /\ conn_current cfg (tl nss) rest
  | _ :: rest => conn_current cfg nss rest
  end.

Lemma try_send_ns_current fx cfg : forall left nss d nsock io d' nsock' io' outs,
  try_send_ns fx cfg nss left d nsock io = Ok (d', nsock', io', outs) -> conn_current cfg nss outs.
Proof.
  induction left as [|left IH]; intros nss d nsock io d' nsock' io' outs H; cbn [try_send_ns] in H.
  - inversion H; subst. exact I.
  - set (t := dns_target (cfg_at cfg nss) io) in *.
    assert (T : forall s b, out_target_ok (cfg_at cfg nss) (SConnect s (fst t) b)) by (intros; apply dns_target_ok).
    destruct (fst (pop (snd t))) as [|e|dd|dd pp|k] eqn:Ec.
    2:{ destruct (fx10 fx); [|discriminate]. destruct (is_net_err e).
        - destruct (try_send_ns fx cfg (tl nss) left (set_tries d (d_tries d + 1)) (nsock + 1) (snd (pop (snd t))))
            as [[[[d2 n2] io2'] o2]| |] eqn:Er; cbn [bind] in H; try discriminate.
          inversion H; subst; clear H. cbn [conn_current]. split; [apply T|]. eapply IH; exact Er.
        - inversion H; subst; clear H. cbn [conn_current]. split; [apply T|exact I]. }
    all: destruct (fst (pop (snd (pop (snd t))))) as [|e2|dd2|dd2 pp2|k2] eqn:Es;
      try (inversion H; subst; clear H; cbn [conn_current tl]; split; [apply T|exact I]).
    all: destruct (is_net_err e2);
      [ destruct (try_send_ns fx cfg (tl nss) left (set_tries d (d_tries d + 1)) (nsock + 1) (snd (pop (snd (pop (snd t))))))
          as [[[[d2 n2] io2'] o2]| |] eqn:Er; cbn [bind] in H; try discriminate;
        inversion H; subst; clear H; cbn [conn_current app]; split; [apply T|]; eapply IH; exact Er
      | inversion H; subst; clear H; cbn [conn_current]; split; [apply T|exact I] ].
Qed.

(* with no rewrite scripted it is try_send itself *)
Lemma try_send_ns_nil fx cfg : forall left d nsock io,
  try_send_ns fx cfg [] left d nsock io = try_send fx cfg left d nsock io.
Proof.
  destruct cfg as [tn sn].
  induction left as [|left IH]; intros d nsock io; cbn [try_send_ns try_send]; [reflexivity|].
  cbn [tl]. unfold cfg_at. cbn [sc_to_ns sc_sysns]. rewrite !IH. reflexivity.
Qed.

Definition w_nsA : bytes := ["A"%char].
Definition w_nsB : bytes := ["B"%char].
Definition w_d0 : dnsp := {| d_chan := 1; d_tag := 0; d_timeout := 30; d_tries := 0; d_request := ["q"%char]; d_socks := []; d_ok := true |}.
Lemma try_send_ns_example :
  try_send_ns all_fixed {| sc_to_ns := None; sc_sysns := [] |} [[w_nsA]; []; [w_nsB]] 3 w_d0 0 [IoOk; IoErr 111; IoOk; IoErr 111] =
  Ok (set_socks (set_tries w_d0 3) [2], 3, [],
      [SConnect 0 (w_nsA, 53) false; SConnect 1 (localhost, 53) false; SConnect 2 (w_nsB, 53) true; SSend 2 ["q"%char] true]).
Proof. vm_compute. reflexivity. Qed.
