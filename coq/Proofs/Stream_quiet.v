(* Proofs/Stream_quiet.v — quiescence of the stream core (C01/C02/C09). *)
From Coq Require Import List NArith Ascii Bool Lia.
From SV Require Import Lib.Bytes Model.Wire Model.Chan Model.Stream Model.StreamQuiet
  Proofs.Wire_lemmas Proofs.Chan_lemmas Proofs.Stream_basic Proofs.Stream_wrap Proofs.Stream_cb
  Proofs.Stream_reg Proofs.Stream_fw Proofs.Stream_view Proofs.Stream_flow Proofs.Stream_lat
  Proofs.Stream_props.
Import ListNotations.
Local Open Scope N_scope.

(* ================================================================== *)
(* 1. What one delivered frame does to the receiving end               *)
(* ================================================================== *)

Definition fresh_proxy (p : proxy) : Prop :=
  p_ok p = true /\ p_removed p = false /\ s_buf (p_s p) = [] /\ m_buf (p_m p) = [].

(* p' is p after a frame was handed to its mux wrapper *)
Definition handed (p p' : proxy) : Prop :=
  p_ok p' = p_ok p /\ p_removed p' = p_removed p /\ p_s p' = p_s p /\ muxw_mono (p_m p) (p_m p').

Lemma handed_refl p : handed p p.
Proof. unfold handed. splits; auto using muxw_mono_refl. Qed.

Lemma got_packet_effect sd e fr o e' st : mux_got_packet sd e fr o = Ok (e', st) ->
  (exists new, x_out (e_mux e') = x_out (e_mux e) ++ new /\
               (sf_cmd fr = CPing -> new = [mkSF 0 CPong (sf_data fr) None])) /\
  x_too_full (e_mux e') = (match sf_cmd fr with CPong => false | _ => x_too_full (e_mux e) end) /\
  (forall g p', e_prox e' g = Some p' ->
     (exists p, e_prox e g = Some p /\ handed p p') \/ fresh_proxy p').
Proof.
  assert (Hsame : forall g p', e_prox e g = Some p' ->
     (exists p, e_prox e g = Some p /\ handed p p') \/ fresh_proxy p').
  { intros g p' H. left. exists p'. split; [exact H|apply handed_refl]. }
  assert (Hnil : exists new, x_out (e_mux e) = x_out (e_mux e) ++ new /\
               (CPing <> CPing -> new = [mkSF 0 CPong (sf_data fr) None])).
  { exists []. split; [symmetry; apply app_nil_r|congruence]. }
  (* a frame handed to the wrapper of flow g0, whose muxw becomes m' and the mux x' *)
  assert (Hhand : forall g0 p0 m' x', e_prox e g0 = Some p0 -> muxw_mono (p_m p0) m' ->
     forall g p', e_prox (set_prox e g0 (mkProxy (p_ok p0) (p_removed p0) (p_s p0) m') x') g = Some p' ->
     (exists p, e_prox e g = Some p /\ handed p p') \/ fresh_proxy p').
  { intros g0 p0 m' x' E0 Hm g p'. cbn [set_prox e_prox]. unfold upd.
    destruct (N.eqb_spec g g0) as [->|Hne]; [|apply Hsame].
    intros [= <-]. left. exists p0. split; [exact E0|]. unfold handed. cbn. auto. }
  unfold mux_got_packet. destruct (sf_cmd fr) eqn:Ecmd.
  - (* PING *)
    intros H. apply ok_pair_inj in H. destruct H as [<- _]. cbn. splits; auto.
    exists [mkSF 0 CPong (sf_data fr) None]. auto.
  - (* PONG *)
    intros H. apply ok_pair_inj in H. destruct H as [<- _]. cbn. splits; auto.
    exists []. split; [symmetry; apply app_nil_r|discriminate].
  - (* CONNECT *)
    destruct (occ (e_mux e) (sf_ch fr)); [discriminate|].
    destruct sd.
    + intros H. apply ok_pair_inj in H. destruct H as [<- _]. splits; auto.
      exists []. split; [symmetry; apply app_nil_r|discriminate].
    + unfold server_new_channel.
      destruct (s_try_connect (new_sock true) (io_conn o) (io_shut_ok o)) as [s|] eqn:Etc; [|discriminate].
      destruct (try_connect_spec _ _ _ _ Etc) as ((T1 & _) & _).
      intros H. apply ok_pair_inj in H. destruct H as [<- _]. cbn. splits; auto.
      * exists []. split; [symmetry; apply app_nil_r|discriminate].
      * intros g p'. unfold upd. destruct (N.eqb_spec g (e_next e)) as [->|Hne]; [|apply Hsame].
        intros [= <-]. right. unfold fresh_proxy. cbn. splits; auto.
  - (* STOP *)
    destruct (x_chan (e_mux e) (sf_ch fr)) as [g0|].
    2:{ intros H. apply ok_pair_inj in H. destruct H as [<- _]. splits; auto.
        exists []. split; [symmetry; apply app_nil_r|discriminate]. }
    destruct (e_prox e g0) as [p0|] eqn:E0; [|discriminate]. cbn [m_got_packet].
    destruct (setnowrite_ext (p_m p0) (e_mux e) g0) as (X & Mm & _).
    destruct (m_setnowrite (p_m p0) (e_mux e)) as [m' x']. cbn [fst snd] in *.
    intros H. apply ok_pair_inj in H. destruct H as [<- _]. cbn [set_prox e_mux]. splits.
    + exists []. split; [exact (me_out _ _ _ _ _ X)|discriminate].
    + exact (me_tf _ _ _ _ _ X).
    + apply (Hhand g0 p0 m' x' E0 Mm).
  - (* EOF *)
    destruct (x_chan (e_mux e) (sf_ch fr)) as [g0|].
    2:{ intros H. apply ok_pair_inj in H. destruct H as [<- _]. splits; auto.
        exists []. split; [symmetry; apply app_nil_r|discriminate]. }
    destruct (e_prox e g0) as [p0|] eqn:E0; [|discriminate]. cbn [m_got_packet].
    destruct (setnoread_ext (p_m p0) (e_mux e) g0) as (X & Mm & _).
    destruct (m_setnoread (p_m p0) (e_mux e)) as [m' x']. cbn [fst snd] in *.
    intros H. apply ok_pair_inj in H. destruct H as [<- _]. cbn [set_prox e_mux]. splits.
    + exists []. split; [exact (me_out _ _ _ _ _ X)|discriminate].
    + exact (me_tf _ _ _ _ _ X).
    + apply (Hhand g0 p0 m' x' E0 Mm).
  - (* DATA *)
    destruct (x_chan (e_mux e) (sf_ch fr)) as [g0|].
    2:{ intros H. apply ok_pair_inj in H. destruct H as [<- _]. splits; auto.
        exists []. split; [symmetry; apply app_nil_r|discriminate]. }
    destruct (e_prox e g0) as [p0|] eqn:E0; [|discriminate]. cbn [m_got_packet].
    intros H. apply ok_pair_inj in H. destruct H as [<- _]. cbn [set_prox e_mux]. splits.
    + exists []. split; [symmetry; apply app_nil_r|discriminate].
    + reflexivity.
    + apply (Hhand g0 p0 _ _ E0). unfold muxw_mono. cbn. auto.
  - (* unknown command *)
    destruct (x_chan (e_mux e) (sf_ch fr)) as [g0|].
    2:{ intros H. apply ok_pair_inj in H. destruct H as [<- _]. splits; auto.
        exists []. split; [symmetry; apply app_nil_r|discriminate]. }
    destruct (e_prox e g0) as [p0|] eqn:E0; [|discriminate]. cbn [m_got_packet]. discriminate.
Qed.

(* ================================================================== *)
(* 2. What one micro-step does to the proxies of either end            *)
(* ================================================================== *)

Inductive pstep (p p' : proxy) : Prop :=
| ps_same : p' = p -> pstep p p'
| ps_cb sd fid x o x' : live p = true -> proxy_callback sd fid p x o = Ok (p', x') -> pstep p p'
| ps_pre sd fid x x' ws : live p = true -> proxy_pre_select sd fid p x = (p', x', ws) -> pstep p p'
| ps_hand : handed p p' -> pstep p p'
| ps_rm : p_ok p = false -> p' = mkProxy (p_ok p) true (p_s p) (p_m p) -> pstep p p'.

Lemma side_cases (s2 sd : side) : s2 = sd \/ s2 = other sd.
Proof. destruct s2, sd; auto. Qed.

Lemma step_prox w ev w' : step w ev = Ok w' ->
  forall s2 g p', e_prox (get_end w' s2) g = Some p' ->
    (exists p, e_prox (get_end w s2) g = Some p /\ pstep p p') \/ fresh_proxy p'.
Proof.
  assert (Hsame : forall s2 g p', e_prox (get_end w s2) g = Some p' ->
    (exists p, e_prox (get_end w s2) g = Some p /\ pstep p p') \/ fresh_proxy p').
  { intros s2 g p' H. left. exists p'. split; [exact H|apply ps_same; reflexivity]. }
  destruct ev as [payload|sd fid o|sd fid|sd|sd o|sd|sd fid]; cbn [step].
  - (* accept *)
    intros [= <-] s2 g p'. destruct s2; [|apply (Hsame Server)].
    cbn [get_end set_end w_cl]. unfold client_accept.
    destruct (next_channel (w_maxc w) (occ (e_mux (w_cl w))) (x_chani (e_mux (w_cl w)))) as [[c|] ch];
      cbn [e_prox]; [|apply (Hsame Client)].
    unfold upd. destruct (N.eqb_spec g (e_next (w_cl w))) as [->|Hne]; [|apply (Hsame Client)].
    intros [= <-]. right. unfold fresh_proxy. cbn. auto.
  - (* callback *)
    destruct (e_prox (get_end w sd) fid) as [p|] eqn:Ep; [|discriminate].
    destruct (live p) eqn:Elive; [|discriminate].
    destruct (proxy_callback sd fid p (e_mux (get_end w sd)) o) as [[p1 x1]|cr] eqn:Ecb; [|discriminate].
    intros [= <-] s2 g p'. destruct (side_cases s2 sd) as [->| ->].
    + rewrite get_set_end. cbn [set_prox e_prox]. unfold upd.
      destruct (N.eqb_spec g fid) as [->|Hne]; [|apply Hsame].
      intros [= <-]. left. exists p. split; [exact Ep|]. eapply ps_cb; eassumption.
    + rewrite get_set_end_other. apply Hsame.
  - (* pre_select *)
    destruct (e_prox (get_end w sd) fid) as [p|] eqn:Ep; [|discriminate].
    destruct (live p) eqn:Elive; [|discriminate].
    destruct (proxy_pre_select sd fid p (e_mux (get_end w sd))) as [[p1 x1] ws] eqn:Eps.
    intros [= <-] s2 g p'. destruct (side_cases s2 sd) as [->| ->].
    + rewrite get_set_end. cbn [set_prox e_prox]. unfold upd.
      destruct (N.eqb_spec g fid) as [->|Hne]; [|apply Hsame].
      intros [= <-]. left. exists p. split; [exact Ep|]. eapply ps_pre; eassumption.
    + rewrite get_set_end_other. apply Hsame.
  - (* flush *)
    intros Hs s2 g p'. destruct (flush_views w sd w') as [_ Hf]; [exact Hs|]. rewrite Hf. apply Hsame.
  - (* deliver *)
    intros Hs s2 g p'.
    destruct (inlink w (other sd)) as [|fr rest] eqn:Hl.
    { rewrite (deliver_empty w sd o w' Hs Hl). apply Hsame. }
    destruct (deliver_shape w sd o w' fr rest Hs Hl) as (e' & st & Hg & He & Ho & _).
    destruct (got_packet_effect _ _ _ _ _ _ Hg) as (_ & _ & Hp).
    destruct (side_cases s2 sd) as [->| ->].
    + rewrite He. intros H. destruct (Hp g p' H) as [(p & E & Hh)|Hf]; [left|right; exact Hf].
      exists p. split; [exact E|apply ps_hand; exact Hh].
    + rewrite Ho. apply Hsame.
  - (* check_fullness *)
    intros [= <-] s2 g p'. destruct sd, s2; cbn [get_end set_end w_cl w_sv set_mux e_prox];
      first [apply (Hsame Client)|apply (Hsame Server)].
  - (* remove *)
    destruct (e_prox (get_end w sd) fid) as [p|] eqn:Ep; [|discriminate].
    destruct (negb (p_ok p) && live p) eqn:Ec; [|discriminate].
    apply andb_true_iff in Ec. destruct Ec as [Ec _]. apply negb_true_iff in Ec.
    intros [= <-] s2 g p'. destruct (side_cases s2 sd) as [->| ->].
    + rewrite get_set_end. cbn [set_prox e_prox]. unfold upd.
      destruct (N.eqb_spec g fid) as [->|Hne]; [|apply Hsame].
      intros [= <-]. left. exists p. split; [exact Ep|]. apply ps_rm; [exact Ec|reflexivity].
    + rewrite get_set_end_other. apply Hsame.
Qed.

(* ================================================================== *)
(* 3. What one micro-step does to the two directed paths and too_full   *)
(* ================================================================== *)

Definition grows (w w' : world) : Prop :=
  forall rs, (exists new, path w' rs = path w rs ++ new) /\ tf w' rs = tf w rs.

Lemma grows_act w sd g p p' x' new :
  e_prox (get_end w sd) g = Some p ->
  x_out x' = x_out (e_mux (get_end w sd)) ++ new -> x_too_full x' = x_too_full (e_mux (get_end w sd)) ->
  grows w (set_end w sd (set_prox (get_end w sd) g p' x')).
Proof.
  intros Hp Hout Htf rs. fold (w_act w sd g p' x'). destruct (side_cases rs sd) as [->| ->].
  - split.
    + exists new. apply (act_path_same w sd g p p' x' new Hp Hout).
    + unfold tf, w_act. rewrite get_set_end. exact Htf.
  - split.
    + exists []. rewrite app_nil_r. apply (act_path_other w sd g p p' x' new Hp Hout).
    + unfold tf, w_act. rewrite get_set_end_other. reflexivity.
Qed.

Lemma step_paths w ev w' : step w ev = Ok w' ->
  match ev with
  | EvDeliver sd o =>
     w' = w \/
     exists fr tl new, path w (other sd) = fr :: tl /\ path w' (other sd) = tl /\
        path w' sd = path w sd ++ new /\
        (sf_cmd fr = CPing -> new = [mkSF 0 CPong (sf_data fr) None]) /\
        tf w' sd = (match sf_cmd fr with CPong => false | _ => tf w sd end) /\
        tf w' (other sd) = tf w (other sd)
  | EvCheckFull sd =>
     path w' (other sd) = path w (other sd) /\ tf w' (other sd) = tf w (other sd) /\
     exists new, path w' sd = path w sd ++ new /\
       (tf w' sd = true -> tf w sd = true \/ new = [mkSF 0 CPing rttest None])
  | _ => grows w w'
  end.
Proof.
  assert (Hrefl : grows w w).
  { intros rs. split; [exists []; symmetry; apply app_nil_r|reflexivity]. }
  destruct ev as [payload|sd fid o|sd fid|sd|sd o|sd|sd fid]; cbn [step].
  - (* accept *)
    intros [= <-] rs. unfold client_accept.
    destruct (next_channel (w_maxc w) (occ (e_mux (w_cl w))) (x_chani (e_mux (w_cl w)))) as [[c|] ch].
    + destruct rs; unfold path, inlink, tf; cbn.
      * split; [|reflexivity]. eexists. rewrite app_assoc. reflexivity.
      * split; [|reflexivity]. exists []. symmetry. apply app_nil_r.
    + destruct rs; unfold path, inlink, tf; cbn; (split; [|reflexivity]); exists []; symmetry; apply app_nil_r.
  - (* callback *)
    destruct (e_prox (get_end w sd) fid) as [p|] eqn:Ep; [|discriminate].
    destruct (live p); [|discriminate].
    destruct (proxy_callback sd fid p (e_mux (get_end w sd)) o) as [[p1 x1]|cr] eqn:Ecb; [|discriminate].
    destruct (callback_latency _ _ _ _ _ _ _ Ecb) as (new & A1 & A2 & _).
    intros [= <-]. exact (grows_act w sd fid p p1 x1 new Ep A1 A2).
  - (* pre_select *)
    destruct (e_prox (get_end w sd) fid) as [p|] eqn:Ep; [|discriminate].
    destruct (live p); [|discriminate].
    pose proof (pre_select_latency sd fid p (e_mux (get_end w sd))) as F.
    destruct (proxy_pre_select sd fid p (e_mux (get_end w sd))) as [[p1 x1] ws].
    destruct F as (new & A1 & A2 & _).
    intros [= <-]. exact (grows_act w sd fid p p1 x1 new Ep A1 A2).
  - (* flush *)
    intros Hs rs. destruct (flush_views w sd w' Hs) as [Hp _]. split.
    + exists []. rewrite app_nil_r. apply Hp.
    + revert Hs. cbn [step]. destruct (x_out (e_mux (get_end w sd))); intros [= <-]; [reflexivity|].
      unfold tf. destruct sd, rs; reflexivity.
  - (* deliver *)
    intros Hs. destruct (inlink w (other sd)) as [|fr rest] eqn:Hl.
    { left. exact (deliver_empty w sd o w' Hs Hl). }
    right. destruct (deliver_shape w sd o w' fr rest Hs Hl) as (e' & st & Hg & He & Ho & Hl1 & Hl2 & _).
    destruct (got_packet_effect _ _ _ _ _ _ Hg) as ((new & Hout & Hping) & Htf & _).
    exists fr, (rest ++ x_out (e_mux (get_end w (other sd)))), new. splits.
    + unfold path. rewrite Hl. reflexivity.
    + unfold path. rewrite Hl1, Ho. reflexivity.
    + unfold path. rewrite Hl2, He, Hout. apply app_assoc.
    + exact Hping.
    + unfold tf. rewrite He. exact Htf.
    + unfold tf. rewrite Ho. reflexivity.
  - (* check_fullness *)
    intros [= <-]. splits.
    + unfold path, inlink. destruct sd; reflexivity.
    + unfold tf. rewrite get_set_end_other. reflexivity.
    + unfold tf. rewrite get_set_end. cbn [set_mux e_mux]. unfold check_fullness.
      destruct (w_lbs w <? x_full (e_mux (get_end w sd))).
      * destruct (x_too_full (e_mux (get_end w sd))) eqn:Et.
        -- exists []. split; [|auto]. unfold path, inlink. destruct sd; cbn; rewrite app_nil_r; reflexivity.
        -- exists [mkSF 0 CPing rttest None]. split; [|auto].
           unfold path, inlink. destruct sd; cbn; rewrite app_assoc; reflexivity.
      * exists []. split; [|auto]. unfold path, inlink. destruct sd; cbn; rewrite app_nil_r; reflexivity.
  - (* remove *)
    intros Hs rs. destruct (remove_views w sd fid w' Hs) as [Hp _]. split.
    + exists []. rewrite app_nil_r. apply Hp.
    + revert Hs. cbn [step]. destruct (e_prox (get_end w sd) fid) as [p|]; [|discriminate].
      destruct (negb (p_ok p) && live p); [|discriminate]. intros [= <-].
      unfold tf. destruct sd, rs; reflexivity.
Qed.

(* ================================================================== *)
(* 4. C09: while an end is paused, its probe or the answer is on the way *)
(* ================================================================== *)

Definition has_ping (l : list sframe) : bool := existsb is_rtping l.
Definition has_pong (l : list sframe) : bool := existsb is_rtpong l.

(* the 'rttest' PING of end sd is queued / travelling to the peer, or its PONG is
   queued at the peer / travelling back *)
Definition outstanding (w : world) (sd : side) : bool :=
  has_ping (path w sd) || has_pong (path w (other sd)).

Definition Oinv (w : world) : Prop := forall sd, tf w sd = true -> outstanding w sd = true.

Lemma outstanding_grows w w' sd :
  (exists n1, path w' sd = path w sd ++ n1) -> (exists n2, path w' (other sd) = path w (other sd) ++ n2) ->
  outstanding w sd = true -> outstanding w' sd = true.
Proof.
  intros (n1 & E1) (n2 & E2). unfold outstanding, has_ping, has_pong. rewrite E1, E2, !existsb_app.
  intros H. apply orb_true_iff in H. destruct H as [H|H]; rewrite H; cbn; rewrite ?orb_true_r; reflexivity.
Qed.

Lemma is_rtping_rtpong fr : is_rtping fr = true -> is_rtpong (mkSF 0 CPong (sf_data fr) None) = true.
Proof. unfold is_rtping, is_rtpong. cbn. destruct (sf_cmd fr); try discriminate. auto. Qed.

Lemma step_Oinv w ev w' : Oinv w -> step w ev = Ok w' -> Oinv w'.
Proof.
  intros O Hs. pose proof (step_paths w ev w' Hs) as P.
  assert (Hg : grows w w' -> Oinv w').
  { intros G sd Ht. destruct (G sd) as [N1 T1]. destruct (G (other sd)) as [N2 _].
    rewrite T1 in Ht. exact (outstanding_grows w w' sd N1 N2 (O sd Ht)). }
  destruct ev as [payload|sd0 fid o|sd0 fid|sd0|sd0 o|sd0|sd0 fid]; try (apply Hg; exact P).
  - (* deliver at sd0 *)
    destruct P as [->|(fr & tl & new & Hp & Hp' & Hq & Hping & Ht1 & Ht2)]; [exact O|].
    intros sd Ht. destruct (side_cases sd sd0) as [->| ->].
    + (* the receiving end: it stays paused only if the frame was not a PONG *)
      rewrite Ht1 in Ht.
      assert (Hc : sf_cmd fr <> CPong) by (intros E; rewrite E in Ht; discriminate).
      assert (Ht0 : tf w sd0 = true) by (destruct (sf_cmd fr); try exact Ht; congruence).
      pose proof (O sd0 Ht0) as H. unfold outstanding, has_ping, has_pong in *.
      rewrite Hq, Hp', existsb_app. rewrite Hp in H. cbn [existsb] in H.
      assert (Hn : is_rtpong fr = false) by (unfold is_rtpong; destruct (sf_cmd fr); try reflexivity; congruence).
      rewrite Hn in H. cbn [orb] in H.
      apply orb_true_iff in H. destruct H as [H|H]; rewrite H; cbn; rewrite ?orb_true_r; reflexivity.
    + (* the sending end: its PING may have been turned into the PONG *)
      rewrite Ht2 in Ht. pose proof (O (other sd0) Ht) as H.
      unfold outstanding, has_ping, has_pong in *. rewrite oth_oth in *.
      rewrite Hp', Hq, existsb_app. rewrite Hp in H. cbn [existsb] in H.
      destruct (is_rtping fr) eqn:Ep.
      * assert (Hc : sf_cmd fr = CPing) by (unfold is_rtping in Ep; destruct (sf_cmd fr); try discriminate; reflexivity).
        rewrite (Hping Hc). cbn [existsb]. rewrite (is_rtping_rtpong fr Ep). cbn. rewrite !orb_true_r. reflexivity.
      * cbn [orb] in H. apply orb_true_iff in H. destruct H as [H|H]; rewrite H; cbn; rewrite ?orb_true_r; reflexivity.
  - (* check_fullness at sd0 *)
    destruct P as (Hp & Ht2 & new & Hq & Hnew).
    intros sd Ht. destruct (side_cases sd sd0) as [->| ->].
    + destruct (Hnew Ht) as [H0|Hn].
      * apply (outstanding_grows w w' sd0); [exists new; exact Hq|exists []; rewrite app_nil_r; exact Hp|exact (O sd0 H0)].
      * unfold outstanding, has_ping. rewrite Hq, existsb_app, Hn. cbn. rewrite orb_true_r. reflexivity.
    + rewrite Ht2 in Ht.
      apply (outstanding_grows w w' (other sd0)); [exists []; rewrite app_nil_r; exact Hp|rewrite oth_oth; exists new; exact Hq|exact (O _ Ht)].
Qed.

Lemma Oinv_world0 maxc lbs : Oinv (world0 maxc lbs).
Proof. intros [|]; discriminate. Qed.

Lemma run_Oinv evs : forall w w', Oinv w -> run w evs = Ok w' -> Oinv w'.
Proof.
  induction evs as [|ev evs IH]; intros w w' O; cbn [run].
  - intros [= <-]. exact O.
  - destruct (step w ev) as [w1|] eqn:Es; [|discriminate]. intros Hr.
    apply (IH w1 w'); [|exact Hr]. exact (step_Oinv w ev w1 O Es).
Qed.

(* C09 "never wedged": in every state reachable from the initial one (any schedule,
   any I/O outcomes, stale or not), an end that is paused by latency control has its
   round-trip probe outstanding: the PING 'rttest' is in its own queue or on the link
   to the peer, or the PONG 'rttest' is in the peer's queue or on the link back. *)
Theorem outstanding_inv maxc lbs w sd : reachable maxc lbs w -> tf w sd = true -> outstanding w sd = true.
Proof. intros (evs & H). exact (run_Oinv evs _ _ (Oinv_world0 maxc lbs) H sd). Qed.

(* consequence: with all queues and links empty no end is paused *)
Lemma paths_empty_not_paused maxc lbs w : reachable maxc lbs w ->
  path w Client = [] -> path w Server = [] -> forall sd, tf w sd = false.
Proof.
  intros Hr H1 H2 sd. destruct (tf w sd) eqn:E; [|reflexivity].
  pose proof (outstanding_inv maxc lbs w sd Hr E) as H. unfold outstanding in H.
  destruct sd; cbn [other] in H; rewrite H1, H2 in H; discriminate.
Qed.

(* ================================================================== *)
(* 5. Per-proxy invariants: a finished handler is closed; a connecting  *)
(*    socket has read nothing                                           *)
(* ================================================================== *)

Lemma try_connect_conn s o ok s0 : s_try_connect s o ok = Ok s0 -> s_conn s0 = true -> s_conn s = true.
Proof.
  unfold s_try_connect. destruct (s_conn s) eqn:Ec; [auto|].
  cbn [andb negb]. rewrite Ec. cbn [negb]. intros [= <-]. congruence.
Qed.

Lemma callback_extra sd fid p x o p' x' : proxy_callback sd fid p x o = Ok (p', x') ->
  (p_ok p = false -> p_ok p' = false) /\
  (s_conn (p_s p') = true ->
     s_conn (p_s p) = true /\ (flat (s_buf (p_s p)) = [] -> flat (s_buf (p_s p')) = [])).
Proof.
  rewrite proxy_callback_unfold.
  destruct (s_try_connect (p_s p) (io_conn o) (io_shut_ok o)) as [s0|c] eqn:Etc; [|discriminate].
  destruct (try_connect_spec _ _ _ _ Etc) as ((T1 & _ & _) & _).
  pose proof (try_connect_conn _ _ _ _ Etc) as Tc.
  cbv zeta.
  pose proof (fill_spec s0 (io_recv o) (io_shut_ok o)) as Hf. cbv zeta in Hf.
  set (s1 := s_fill s0 (io_recv o) (io_shut_ok o)) in *.
  destruct Hf as (F1 & _ & _ & _ & Fc & _).
  pose proof (copies_spec sd s1 (p_m p) x fid o) as Hc.
  destruct (copies sd s1 (p_m p) x fid o) as [[s2 m2] x2].
  destruct Hc as (new & d & _ & Cs & _ & _ & _ & _ & Ccn & _).
  set (s3 := if nonempty_buf (s_buf s2) && m_sw m2
             then s_noread (mkSock (s_conn s2) (s_sr s2) (s_sw s2) [] (s_exc s2) (s_rd s2) (s_wr s2) (s_fault s2))
             else s2).
  assert (H3 : s_conn s3 = s_conn s2 /\ (flat (s_buf s2) = [] -> flat (s_buf s3) = [])).
  { unfold s3. destruct (nonempty_buf (s_buf s2) && m_sw m2); cbn; auto. }
  destruct H3 as [H3c H3b].
  assert (Hconn : forall s4, s_conn s4 = s_conn s3 -> s_buf s4 = s_buf s3 -> s_conn s4 = true ->
            s_conn (p_s p) = true /\ (flat (s_buf (p_s p)) = [] -> flat (s_buf s4) = [])).
  { intros s4 E4c E4b H. rewrite E4c, H3c, Ccn, Fc in H. split; [exact (Tc H)|].
    intros Hb. rewrite E4b. apply H3b.
    assert (Hr : recv_bytes s0 (io_recv o) = []).
    { unfold recv_bytes. destruct (s_buf s0); [rewrite H|]; reflexivity. }
    rewrite Hr, app_nil_r, T1, Hb in F1. rewrite F1 in Cs. symmetry in Cs.
    apply app_eq_nil in Cs. apply Cs. }
  destruct (if nonempty_buf (m_buf m2) && s_sw s2 then _ else _) as [m3 x3].
  destruct (s_sr s3 && m_sr m3 && negb (nonempty_buf (s_buf s3)) && negb (nonempty_buf (m_buf m3))).
  - destruct (m_nowrite m3 x3 fid) as [m4 x4]. intros H. apply ok_pair_inj in H. destruct H as [<- _].
    cbn [p_ok p_s]. split; [reflexivity|].
    destruct (nowrite_spec s3 (io_shut_ok o)) as ((N1 & _) & _ & _ & N2 & _).
    apply Hconn; assumption.
  - intros H. apply ok_pair_inj in H. destruct H as [<- _]. cbn [p_ok p_s]. split; [auto|].
    apply Hconn; reflexivity.
Qed.

(* Proxy.pre_select, field by field *)
Lemma pre_select_fields sd fid p x :
  let '(p', x', ws) := proxy_pre_select sd fid p x in
  p_ok p' = p_ok p /\ p_removed p' = p_removed p /\
  s_conn (p_s p') = s_conn (p_s p) /\ s_buf (p_s p') = s_buf (p_s p) /\ m_buf (p_m p') = m_buf (p_m p) /\
  s_sr (p_s p') = (s_sr (p_s p) || m_sw (p_m p)) /\ s_sw (p_s p') = s_sw (p_s p) /\
  m_sr (p_m p') = (m_sr (p_m p) || s_sw (p_s p)) /\ m_sw (p_m p') = m_sw (p_m p) /\
  x_too_full x' = x_too_full x /\
  x_out x' = x_out x ++ (if s_sw (p_s p) && negb (m_sr (p_m p)) then [stop_frame (m_chan (p_m p)) fid] else []).
Proof.
  unfold proxy_pre_select.
  destruct (s_sw (p_s p)) eqn:Esw.
  - unfold m_noread. destruct (m_sr (p_m p)) eqn:Emsr.
    + cbn [andb negb]. rewrite app_nil_r.
      destruct (m_sw (p_m p)) eqn:Emsw; cbn; rewrite ?Esw, ?Emsr, ?Emsw, ?orb_true_r, ?orb_false_r; splits; auto.
    + unfold m_setnoread. rewrite Emsr. unfold m_maybe_close. cbn [m_sr m_sw m_chan andb negb].
      destruct (m_sw (p_m p)) eqn:Emsw; cbn; rewrite ?Esw, ?Emsr, ?Emsw, ?orb_true_r, ?orb_false_r; splits; auto.
  - cbn [andb]. rewrite app_nil_r.
    destruct (m_sw (p_m p)) eqn:Emsw; cbn; rewrite ?Esw, ?Emsw, ?orb_true_r, ?orb_false_r; splits; auto.
Qed.

Definition flags4 (p : proxy) : Prop :=
  s_sr (p_s p) = true /\ s_sw (p_s p) = true /\ m_sr (p_m p) = true /\ m_sw (p_m p) = true.

Record Pinv (p : proxy) : Prop := {
  pi_dead : p_ok p = false -> flags4 p;
  pi_removed : p_removed p = true -> p_ok p = false;
  pi_conn : s_conn (p_s p) = true -> flat (s_buf (p_s p)) = []
}.

Lemma Pinv_fresh p : fresh_proxy p -> Pinv p.
Proof.
  intros (A & B & C & D). constructor.
  - congruence.
  - congruence.
  - intros _. rewrite C. reflexivity.
Qed.

Lemma Pinv_pstep p p' : Pinv p -> pstep p p' -> Pinv p'.
Proof.
  intros [Hd Hr Hc] [->|sd fid x o x' Hl Hcb|sd fid x x' ws Hl Hps|(A & B & C & D)|Hok ->].
  - constructor; assumption.
  - destruct (callback_extra _ _ _ _ _ _ _ Hcb) as [E1 E2].
    pose proof (callback_spec _ _ _ _ _ _ _ Hcb) as F. destr_cb F.
    destruct Fsmono as (S1 & S2 & _). destruct Fmmono as (_ & M1 & M2).
    constructor.
    + intros H. destruct (Fdone H) as [H0|(Q1 & Q2 & Q3 & Q4 & _)]; [|unfold flags4; auto].
      destruct (Hd H0) as (Q1 & Q2 & Q3 & Q4). unfold flags4. auto.
    + rewrite Fremoved. intros H. apply E1. apply Hr. exact H.
    + intros H. destruct (E2 H) as [H0 Hb]. apply Hb. apply Hc. exact H0.
  - pose proof (pre_select_fields sd fid p x) as F. rewrite Hps in F.
    destruct F as (F1 & F2 & F3 & F4 & F5 & F6 & F7 & F8 & F9 & _).
    constructor.
    + rewrite F1. intros H. destruct (Hd H) as (Q1 & Q2 & Q3 & Q4). unfold flags4.
      rewrite F6, F7, F8, F9, Q1, Q2, Q3, Q4. auto.
    + rewrite F1, F2. exact Hr.
    + rewrite F3, F4. exact Hc.
  - destruct D as (_ & D1 & D2). constructor.
    + rewrite A. intros H. destruct (Hd H) as (Q1 & Q2 & Q3 & Q4). unfold flags4. rewrite C. auto.
    + rewrite A, B. exact Hr.
    + rewrite C. exact Hc.
  - constructor; cbn.
    + exact Hd.
    + intros _. exact Hok.
    + exact Hc.
Qed.

Definition Pall (w : world) : Prop := forall sd g p, e_prox (get_end w sd) g = Some p -> Pinv p.

Lemma step_Pall w ev w' : Pall w -> step w ev = Ok w' -> Pall w'.
Proof.
  intros H Hs sd g p' Hp. destruct (step_prox w ev w' Hs sd g p' Hp) as [(p & E & St)|Hf].
  - exact (Pinv_pstep p p' (H sd g p E) St).
  - exact (Pinv_fresh p' Hf).
Qed.

Lemma Pall_world0 maxc lbs : Pall (world0 maxc lbs).
Proof. intros [|] g p; discriminate. Qed.

Lemma run_Pall evs : forall w w', Pall w -> run w evs = Ok w' -> Pall w'.
Proof.
  induction evs as [|ev evs IH]; intros w w' O; cbn [run].
  - intros [= <-]. exact O.
  - destruct (step w ev) as [w1|] eqn:Es; [|discriminate]. intros Hr.
    apply (IH w1 w'); [|exact Hr]. exact (step_Pall w ev w1 O Es).
Qed.

Lemma reachable_Pall maxc lbs w : reachable maxc lbs w -> Pall w.
Proof. intros (evs & H). exact (run_Pall evs _ _ (Pall_world0 maxc lbs) H). Qed.

(* ================================================================== *)
(* 6. The wait set of Proxy.pre_select                                  *)
(* ================================================================== *)

(* what the socket wrapper contributes *)
Definition wait_s (p : proxy) (x : mux) : list waitfd :=
  if s_conn (p_s p) then [WSockW]
  else if nonempty_buf (s_buf (p_s p)) then (if x_too_full x then [] else [WMuxW])
  else if negb (s_sr (p_s p) || m_sw (p_m p)) then [WSockR] else [].

(* what the mux wrapper contributes *)
Definition wait_m (p : proxy) : list waitfd :=
  if nonempty_buf (m_buf (p_m p)) then [WSockW]
  else if negb (m_sr (p_m p) || s_sw (p_s p)) then [WMuxR] else [].

Lemma pre_select_ws sd fid p x :
  snd (proxy_pre_select sd fid p x) =
  match sd with Client => wait_s p x ++ wait_m p | Server => wait_m p ++ wait_s p x end.
Proof.
  pose proof (pre_select_fields sd fid p x) as F. unfold wait_s, wait_m.
  unfold proxy_pre_select in *.
  destruct (if s_sw (p_s p) then m_noread (p_m p) x fid else (p_m p, x)) as [m1 x1].
  cbn [snd p_s p_m p_ok p_removed] in *.
  destruct F as (_ & _ & F3 & F4 & F5 & F6 & _ & F8 & _ & F10 & _).
  rewrite F3, F4, F5, F6, F8, F10. reflexivity.
Qed.

(* The wait-set lemma: exactly when each fd is waited for.  (p', x') is the state
   pre_select leaves behind; flags of p' are those of p after the coupling rules.) *)
Lemma wait_set_spec sd fid p x fd :
  In fd (snd (proxy_pre_select sd fid p x)) <->
  match fd with
  | WSockW => s_conn (p_s p) = true \/ nonempty_buf (m_buf (p_m p)) = true
  | WMuxW => s_conn (p_s p) = false /\ nonempty_buf (s_buf (p_s p)) = true /\ x_too_full x = false
  | WSockR => s_conn (p_s p) = false /\ nonempty_buf (s_buf (p_s p)) = false /\
              s_sr (p_s p) = false /\ m_sw (p_m p) = false
  | WMuxR => nonempty_buf (m_buf (p_m p)) = false /\ m_sr (p_m p) = false /\ s_sw (p_s p) = false
  end.
Proof.
  rewrite pre_select_ws.
  assert (E : forall a b : list waitfd, In fd (match sd with Client => a ++ b | Server => b ++ a end) <-> In fd a \/ In fd b).
  { intros a b. destruct sd; rewrite in_app_iff; tauto. }
  rewrite E. unfold wait_s, wait_m.
  destruct (s_conn (p_s p)), (nonempty_buf (s_buf (p_s p))), (x_too_full x), (s_sr (p_s p)), (m_sw (p_m p)),
    (nonempty_buf (m_buf (p_m p))), (m_sr (p_m p)), (s_sw (p_s p)), fd; cbn;
    intuition (try discriminate; try congruence).
Qed.

(* ================================================================== *)
(* 7. Quiescence (Q1)                                                   *)
(* ================================================================== *)

(* Prop-level reading of Model/StreamQuiet.quiescentb *)
Record end_quiet (sd : side) (e : endpt) : Prop := {
  eq_out : x_out (e_mux e) = [];
  eq_prox : forall fid p, e_prox e fid = Some p -> active p = true -> proxy_quiet sd fid p (e_mux e) = true
}.

Record quiescent (w : world) : Prop := {
  q_cs : w_cs w = [];
  q_sc : w_sc w = [];
  q_cl : end_quiet Client (w_cl w);
  q_sv : end_quiet Server (w_sv w)
}.

Definition no_connecting (e : endpt) : Prop :=
  forall fid p, e_prox e fid = Some p -> active p = true -> s_conn (p_s p) = false.

Definition quiescent_eager (w : world) : Prop :=
  quiescent w /\ no_connecting (w_cl w) /\ no_connecting (w_sv w).

Lemma in_fids e fid : In fid (fids e) <-> fid < e_next e.
Proof.
  unfold fids. rewrite in_map_iff. split.
  - intros (n & <- & Hn). apply in_seq in Hn. lia.
  - intros H. exists (N.to_nat fid). split; [apply Nnat.N2Nat.id|]. apply in_seq. lia.
Qed.

Lemma out_empty_spec x : out_empty x = true <-> x_out x = [].
Proof. unfold out_empty. destruct (x_out x); split; congruence. Qed.

Lemma link_empty_spec l : link_empty l = true <-> l = [].
Proof. destruct l; cbn; split; congruence. Qed.

Lemma end_quietb_spec sd e : Rinv e -> (end_quietb sd e = true <-> end_quiet sd e).
Proof.
  intros R. unfold end_quietb. rewrite andb_true_iff, out_empty_spec, forallb_forall. split.
  - intros [A B]. constructor; [exact A|]. intros fid p Hp Ha.
    specialize (B fid (proj2 (in_fids e fid) (r_fresh e R fid p Hp))). rewrite Hp, Ha in B. exact B.
  - intros Q. split; [exact (eq_out _ _ Q)|]. intros fid _.
    destruct (e_prox e fid) as [p|] eqn:Hp; [|reflexivity].
    destruct (active p) eqn:Ha; [|reflexivity]. exact (eq_prox _ _ Q fid p Hp Ha).
Qed.

Lemma quiescentb_spec w : Winv w -> (quiescentb w = true <-> quiescent w).
Proof.
  intros [R1 R2]. unfold quiescentb. rewrite !andb_true_iff, !link_empty_spec,
    (end_quietb_spec Client _ R1), (end_quietb_spec Server _ R2). split.
  - intros [[[A B] C] D]. constructor; assumption.
  - intros Q. splits; [exact (q_cs _ Q)|exact (q_sc _ Q)|exact (q_cl _ Q)|exact (q_sv _ Q)].
Qed.

Lemma no_connectingb_spec e : Rinv e -> (no_connectingb e = true <-> no_connecting e).
Proof.
  intros R. unfold no_connectingb, no_connecting. rewrite forallb_forall. split.
  - intros B fid p Hp Ha.
    specialize (B fid (proj2 (in_fids e fid) (r_fresh e R fid p Hp))). rewrite Hp, Ha in B.
    apply negb_true_iff in B. exact B.
  - intros Q fid _. destruct (e_prox e fid) as [p|] eqn:Hp; [|reflexivity].
    destruct (active p) eqn:Ha; [|reflexivity]. rewrite (Q fid p Hp Ha). reflexivity.
Qed.

Lemma quiescent_eagerb_spec w : Winv w -> (quiescent_eagerb w = true <-> quiescent_eager w).
Proof.
  intros W. pose proof W as [R1 R2]. unfold quiescent_eagerb, quiescent_eager.
  rewrite !andb_true_iff, (quiescentb_spec w W), (no_connectingb_spec _ R1), (no_connectingb_spec _ R2). tauto.
Qed.

Lemma quiescent_end w sd : quiescent w -> end_quiet sd (get_end w sd).
Proof. intros Q. destruct sd; [exact (q_cl _ Q)|exact (q_sv _ Q)]. Qed.

Lemma quiescent_paths w : quiescent w -> forall rs, path w rs = [].
Proof.
  intros Q rs. unfold path, inlink. rewrite (eq_out _ _ (quiescent_end w rs Q)).
  destruct rs; [rewrite (q_cs _ Q)|rewrite (q_sc _ Q)]; reflexivity.
Qed.

Lemma quiescent_not_paused maxc lbs w : reachable maxc lbs w -> quiescent w -> forall sd, tf w sd = false.
Proof.
  intros Hr Q. apply (paths_empty_not_paused maxc lbs w Hr); apply quiescent_paths; exact Q.
Qed.

(* what proxy_quiet says, in terms of the proxy's own fields *)
Lemma proxy_quiet_facts sd fid p x : proxy_quiet sd fid p x = true ->
  x_out x = [] /\ (s_sw (p_s p) = true -> m_sr (p_m p) = true) /\
  forall fd, In fd (snd (proxy_pre_select sd fid p x)) ->
    match fd with WSockW => s_conn (p_s p) = true | WMuxW => False | _ => True end.
Proof.
  unfold proxy_quiet. pose proof (pre_select_fields sd fid p x) as F.
  destruct (proxy_pre_select sd fid p x) as [[p' x'] ws]. cbn [snd].
  destruct F as (_ & _ & F3 & _ & _ & _ & _ & _ & _ & _ & F11).
  rewrite andb_true_iff, out_empty_spec, forallb_forall. intros [A B].
  rewrite A in F11. symmetry in F11. apply app_eq_nil in F11. destruct F11 as [F11a F11b]. splits.
  - exact F11a.
  - intros Hsw. rewrite Hsw in F11b. destruct (m_sr (p_m p)); [reflexivity|discriminate].
  - intros fd Hin. specialize (B fd Hin). apply negb_true_iff in B. destruct fd; cbn in B; auto; try discriminate.
    rewrite F3 in B. apply negb_false_iff in B. exact B.
Qed.

(* the wait-set lemma applied to a quiet handler whose end is not paused: unless its
   socket is still connecting, both its buffers are empty *)
Lemma proxy_quiet_buffers sd fid p x : proxy_quiet sd fid p x = true -> x_too_full x = false ->
  s_conn (p_s p) = false -> s_buf (p_s p) = [] /\ m_buf (p_m p) = [].
Proof.
  intros Q Ht Hc. destruct (proxy_quiet_facts _ _ _ _ Q) as (_ & _ & W). split.
  - apply nonempty_buf_false. destruct (nonempty_buf (s_buf (p_s p))) eqn:E; [|reflexivity].
    exfalso. apply (W WMuxW). apply wait_set_spec. auto.
  - apply nonempty_buf_false. destruct (nonempty_buf (m_buf (p_m p))) eqn:E; [|reflexivity].
    assert (H : s_conn (p_s p) = true) by (apply (W WSockW); apply wait_set_spec; auto). congruence.
Qed.

(* ================================================================== *)
(* 8. Q2: no undelivered data while nothing is pending                  *)
(* ================================================================== *)

Lemma active_of_ok p : Pinv p -> p_ok p = true -> active p = true.
Proof.
  intros P H. unfold active, live. rewrite H, andb_true_r.
  destruct (p_removed p) eqn:E; [|reflexivity]. rewrite (pi_removed p P E) in H. discriminate.
Qed.

Theorem quiet_no_data maxc lbs w rs f :
  reachable maxc lbs w -> w_stale w = false -> quiescent w ->
  let v := view_of w rs f in
  vfz v = false ->                              (* the receiving socket has not been shut down *)
  s_conn (pS (wprox w rs f)) = false ->         (* ... and is not still connecting *)
  vY v = [] /\ vP v = [] /\ flat (vX v) = [] /\ vD v = vA v.
Proof.
  intros Hr Hst Q v Hfz Hconn.
  pose proof (reachable_Ginv _ _ _ Hr Hst) as G. pose proof (g_views w G rs f) as V. fold v in V.
  pose proof (reachable_Pall _ _ _ Hr) as PA.
  pose proof (quiescent_not_paused _ _ _ Hr Q) as Htf.
  assert (HP : vP v = []).
  { unfold v, view_of. cbn [vP]. rewrite (quiescent_paths w Q rs). reflexivity. }
  assert (HY : vY v = []).
  { unfold v, view_of in *. cbn [vY vfz] in *. unfold wprox in *.
    destruct (e_prox (get_end w (other rs)) f) as [p|] eqn:Ep; [|reflexivity]. cbn [pS pM] in *.
    pose proof (PA (other rs) f p Ep) as Pp.
    destruct (p_ok p) eqn:Eok.
    - pose proof (eq_prox _ _ (quiescent_end w (other rs) Q) f p Ep (active_of_ok p Pp Eok)) as Qp.
      apply (proxy_quiet_buffers _ _ _ _ Qp (Htf (other rs)) Hconn).
    - destruct (pi_dead p Pp Eok) as (_ & Hsw & _). congruence. }
  assert (HX : flat (vX v) = []).
  { destruct (e_prox (get_end w rs) f) as [q|] eqn:Eq.
    2:{ unfold v, view_of, rprox. cbn [vX]. rewrite Eq. reflexivity. }
    pose proof (PA rs f q Eq) as Pq.
    destruct (p_ok q) eqn:Eok.
    - assert (E : vX v = s_buf (p_s q)) by (unfold v, view_of, rprox; cbn [vX]; rewrite Eq; reflexivity).
      rewrite E. destruct (s_conn (p_s q)) eqn:Ec; [exact (pi_conn q Pq Ec)|].
      pose proof (eq_prox _ _ (quiescent_end w rs Q) f q Eq (active_of_ok q Pq Eok)) as Qq.
      destruct (proxy_quiet_buffers _ _ _ _ Qq (Htf rs) Ec) as [-> _]. reflexivity.
    - destruct (pi_dead q Pq Eok) as (_ & _ & _ & Hmsw).
      assert (E : vrmsw v = true) by (unfold v, view_of, rprox; cbn [vrmsw]; rewrite Eq; exact Hmsw).
      destruct (vi_msw _ V E) as [C|[C _]]; [congruence|exact C]. }
  splits; auto.
  pose proof (vi_pipe _ V Hfz) as Hp. rewrite HY, HP, HX in Hp. cbn in Hp. rewrite app_nil_r in Hp. exact Hp.
Qed.

(* with every pending connect completed as well, nothing needs to be assumed about the receiving end *)
Corollary quiet_eager_no_data maxc lbs w rs f :
  reachable maxc lbs w -> w_stale w = false -> quiescent_eager w ->
  let v := view_of w rs f in
  vfz v = false -> vY v = [] /\ vP v = [] /\ flat (vX v) = [] /\ vD v = vA v.
Proof.
  intros Hr Hst (Q & N1 & N2) v Hfz. apply (quiet_no_data maxc lbs w rs f Hr Hst Q Hfz).
  unfold wprox. destruct (e_prox (get_end w (other rs)) f) as [p|] eqn:Ep; [|reflexivity]. cbn [pS].
  pose proof (reachable_Pall _ _ _ Hr (other rs) f p Ep) as Pp.
  destruct (p_ok p) eqn:Eok.
  - destruct rs; cbn [other get_end] in Ep; [apply (N2 f p Ep)|apply (N1 f p Ep)]; apply (active_of_ok p Pp Eok).
  - destruct (pi_dead p Pp Eok) as (_ & Hsw & _).
    unfold v, view_of, wprox in Hfz. cbn [vfz] in Hfz. rewrite Ep in Hfz. cbn [pS] in Hfz. congruence.
Qed.

(* C01, safety form of "every byte written before the writer closed is eventually
   delivered": once nothing is pending, everything that was read from one end's socket
   has been handed to the other end's socket, unless a socket call failed at that end. *)
Theorem quiet_all_delivered maxc lbs w rs f :
  reachable maxc lbs w -> w_stale w = false -> quiescent w ->
  let v := view_of w rs f in
  s_conn (pS (wprox w rs f)) = false -> vwfault v = false -> vD v = vA v.
Proof.
  intros Hr Hst Q v Hc Hft. destruct (vfz v) eqn:Hfz.
  - pose proof (reachable_Ginv _ _ _ Hr Hst) as G. pose proof (g_views w G rs f) as V. fold v in V.
    destruct (vi_clean _ V Hfz) as [C|[C _]]; [congruence|exact C].
  - apply (quiet_no_data maxc lbs w rs f Hr Hst Q Hfz Hc).
Qed.

(* ================================================================== *)
(* 9. Q3: which live handlers can sit in a quiescent state (F20 shape)  *)
(* ================================================================== *)

(* the termination test at the end of Proxy.callback *)
Definition finished_test (p : proxy) : bool :=
  s_sr (p_s p) && m_sr (p_m p) && negb (nonempty_buf (s_buf (p_s p))) && negb (nonempty_buf (m_buf (p_m p))).

(* a handler that passes the test is finished by its next callback, whatever the
   environment answers: ok := False, both sockets shut for writing, EOF sent *)
Lemma finished_test_callback sd fid p x o p' x' :
  finished_test p = true -> proxy_callback sd fid p x o = Ok (p', x') ->
  p_ok p' = false /\ flags4 p' /\ s_buf (p_s p') = [] /\ m_buf (p_m p') = [].
Proof.
  unfold finished_test, flags4.
  destruct p as [ok rm [cn sr sw sb exc rd wr ft] [ch msr msw mb]]. cbn [p_s p_m s_sr m_sr s_buf m_buf].
  rewrite !andb_true_iff, !negb_true_iff. intros [[[-> ->] Hsb] Hmb].
  apply nonempty_buf_false in Hsb. apply nonempty_buf_false in Hmb. subst sb mb.
  destruct o as [oc orv osd shok].
  destruct cn, sw, msw, shok, sd; try (destruct oc as [|[]]); cbn;
    try discriminate; intros H; apply ok_pair_inj in H; destruct H as [<- _]; cbn; repeat split.
Qed.

(* the handler as Proxy.pre_select leaves it, and the wait set it returns *)
Definition pre_p (sd : side) (fid : N) (p : proxy) (x : mux) : proxy := fst (fst (proxy_pre_select sd fid p x)).
Definition pre_ws (sd : side) (fid : N) (p : proxy) (x : mux) : list waitfd := snd (proxy_pre_select sd fid p x).

Lemma pre_p_fields sd fid p x :
  s_sr (p_s (pre_p sd fid p x)) = (s_sr (p_s p) || m_sw (p_m p)) /\
  m_sr (p_m (pre_p sd fid p x)) = (m_sr (p_m p) || s_sw (p_s p)) /\
  s_buf (p_s (pre_p sd fid p x)) = s_buf (p_s p) /\ m_buf (p_m (pre_p sd fid p x)) = m_buf (p_m p) /\
  s_sw (p_s (pre_p sd fid p x)) = s_sw (p_s p) /\ m_sw (p_m (pre_p sd fid p x)) = m_sw (p_m p) /\
  p_ok (pre_p sd fid p x) = p_ok p /\ s_conn (p_s (pre_p sd fid p x)) = s_conn (p_s p).
Proof.
  unfold pre_p. pose proof (pre_select_fields sd fid p x) as F.
  destruct (proxy_pre_select sd fid p x) as [[p' x'] ws]. cbn [fst].
  destruct F as (F1 & F2 & F3 & F4 & F5 & F6 & F7 & F8 & F9 & _). splits; assumption.
Qed.

(* Q3.  In a quiescent reachable state every handler the loop still runs (not dropped,
   ok = True) is in exactly one of these situations:
   (a) it waits to read its socket (the application / destination may still send),
   (b) it waits for frames from the peer (the peer has not sent EOF yet),
   (c) its connect() is still pending,
   (d) it waits for NOTHING: the wait set is empty, and it passes the termination test
       of Proxy.callback (both wrappers shut for reading, both buffers empty) — it is
       finished in all but name, because only a callback, never pre_select, sets
       ok := False.  This is the F20 shape: the handler lingers until some unrelated
       mux traffic happens to call it. *)
Theorem quiet_live_proxy_shape maxc lbs w sd fid p :
  reachable maxc lbs w -> quiescent w ->
  e_prox (get_end w sd) fid = Some p -> active p = true ->
  let x := e_mux (get_end w sd) in
  (In WSockR (pre_ws sd fid p x) /\ s_sr (p_s (pre_p sd fid p x)) = false) \/
  (In WMuxR (pre_ws sd fid p x) /\ m_sr (p_m (pre_p sd fid p x)) = false) \/
  s_conn (p_s p) = true \/
  (pre_ws sd fid p x = [] /\ finished_test (pre_p sd fid p x) = true).
Proof.
  intros Hr Q Ep Ha x.
  pose proof (quiescent_not_paused _ _ _ Hr Q sd) as Htf. unfold tf in Htf. fold x in Htf.
  pose proof (eq_prox _ _ (quiescent_end w sd Q) fid p Ep Ha) as Qp. fold x in Qp.
  destruct (proxy_quiet_facts _ _ _ _ Qp) as (_ & _ & W).
  destruct (pre_p_fields sd fid p x) as (F1 & F2 & F3 & F4 & _).
  destruct (s_conn (p_s p)) eqn:Ec; [auto|].
  destruct (proxy_quiet_buffers _ _ _ _ Qp Htf Ec) as [Hsb Hmb].
  rewrite F1, F2.
  destruct (s_sr (p_s p) || m_sw (p_m p)) eqn:E1.
  2:{ left. split; [|reflexivity]. apply wait_set_spec. rewrite Hsb. cbn [nonempty_buf].
      apply orb_false_iff in E1. tauto. }
  destruct (m_sr (p_m p) || s_sw (p_s p)) eqn:E2.
  2:{ right. left. split; [|reflexivity]. apply wait_set_spec. rewrite Hmb. cbn [nonempty_buf].
      apply orb_false_iff in E2. tauto. }
  right. right. right. split.
  - unfold pre_ws. rewrite pre_select_ws. unfold wait_s, wait_m. fold x.
    rewrite Ec, Hsb, Hmb, E1, E2. cbn. destruct sd; reflexivity.
  - unfold finished_test. rewrite ?F1, ?F2, ?E1, ?E2, F3, F4, Hsb, Hmb. reflexivity.
Qed.

(* the converse: a handler of shape (d) has an empty wait set in any state *)
Lemma finished_waits_for_nothing sd fid p x :
  s_conn (p_s p) = false -> finished_test (pre_p sd fid p x) = true -> pre_ws sd fid p x = [].
Proof.
  intros Ec. unfold finished_test. destruct (pre_p_fields sd fid p x) as (F1 & F2 & F3 & F4 & _).
  rewrite !andb_true_iff, !negb_true_iff. intros [[[E1 E2] E3] E4].
  unfold pre_ws. rewrite pre_select_ws. unfold wait_s, wait_m.
  rewrite F3 in E3. rewrite F4 in E4. rewrite Ec, E3, E4, <- F1, <- F2, E1, E2. destruct sd; reflexivity.
Qed.

(* ... and its next callback — if one ever comes — finishes it *)
Lemma finished_shape_next_callback sd fid p x o p'' x'' :
  finished_test (pre_p sd fid p x) = true ->
  proxy_callback sd fid (pre_p sd fid p x) (snd (fst (proxy_pre_select sd fid p x))) o = Ok (p'', x'') ->
  p_ok p'' = false /\ flags4 p''.
Proof.
  intros Hf Hcb. destruct (finished_test_callback _ _ _ _ _ _ _ Hf Hcb) as (A & B & _). auto.
Qed.
