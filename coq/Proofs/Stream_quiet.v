(* Proofs/Stream_quiet.v — quiescence of the stream core (C01 / C02 / C09), as
   SAFETY theorems over all runs of Model/Stream.v from world0 (all micro-step
   orders, all I/O outcomes).  Definitions of "quiescent" are in Model/StreamQuiet.v.

   Run invariants proved here (none needs w_stale = false):
     Oinv  (outstanding_inv)  too_full => the 'rttest' PING or its PONG is on the way
     Pall / Pinv              per handler: ok = False => all four shut flags set;
                              dropped => ok = False; connecting => nothing buffered;
                              an end-of-stream read from the socket has been passed on
                              as an EOF message (eof_passed)
   Pure lemmas:  wait_set_spec (exactly when Proxy.pre_select waits for each fd),
                 pre_select_fields, finished_test_callback.
   Quiescence theorems (reachable, non-stale, quiescent state):
     quiet_no_data            Q2: nothing in any buffer / queue / link of a direction
                              whose receiving socket is open and connected; D = A
     quiet_all_delivered      D = A unless the receiving end faulted (C01)
     quiet_live_proxy_shape   Q3: the four situations of a handler; (d) is F20
     quiet_flags_agree        shut flags of the two mux wrappers of a flow agree
     quiet_wait_chain         no dead-lock between the ends: every handler waits for the
                              outside world directly or through its live peer, or is F20
   Section 11: vm_compute witnesses (quiescent states exist; the F20 state).
   Section 12: the statements proposed for Props/C01.v, C02.v, C09.v.

   The records of Stream_view / Stream_flow / Stream_cb are only used through their
   projections (and cb_facts through the destr_cb tactic). *)
From Coq Require Import List NArith Ascii Bool Lia.
From SV Require Import Lib.Bytes Model.Wire Model.Chan Model.Stream Model.StreamQuiet
  Proofs.Wire_lemmas Proofs.Chan_lemmas Proofs.Stream_basic Proofs.Stream_wrap Proofs.Stream_cb
  Proofs.Stream_reg Proofs.Stream_fw Proofs.Stream_view Proofs.Stream_flow Proofs.Stream_lat
  Proofs.Stream_props.
Import ListNotations.
Local Open Scope N_scope.

(* ================================================================== *)
(* 1. What one delivered frame does to the receiving end               *)
(* ================================================================== *)

Definition fresh_proxy (p : proxy) : Prop :=
  p_ok p = true /\ p_removed p = false /\ s_buf (p_s p) = [] /\ m_buf (p_m p) = [] /\
  (s_sr (p_s p) = true -> s_sw (p_s p) = true).

(* p' is p after a frame was handed to its mux wrapper *)
Definition handed (p p' : proxy) : Prop :=
  p_ok p' = p_ok p /\ p_removed p' = p_removed p /\ p_s p' = p_s p /\ muxw_mono (p_m p) (p_m p').

Lemma handed_refl p : handed p p.
Proof. unfold handed. splits; auto using muxw_mono_refl. Qed.

Lemma got_packet_effect sd e fr o e' st : mux_got_packet sd e fr o = Ok (e', st) ->
  (exists new, x_out (e_mux e') = x_out (e_mux e) ++ new /\
               (sf_cmd fr = CPing -> new = [mkSF 0 CPong (sf_data fr) None])) /\
  x_too_full (e_mux e') = (match sf_cmd fr with CPong => false | _ => x_too_full (e_mux e) end) /\
  (forall g p', e_prox e' g = Some p' ->
     (exists p, e_prox e g = Some p /\ handed p p') \/ fresh_proxy p').
Proof.
  assert (Hsame : forall g p', e_prox e g = Some p' ->
     (exists p, e_prox e g = Some p /\ handed p p') \/ fresh_proxy p').
  { intros g p' H. left. exists p'. split; [exact H|apply handed_refl]. }
  assert (Hnil : exists new, x_out (e_mux e) = x_out (e_mux e) ++ new /\
               (CPing <> CPing -> new = [mkSF 0 CPong (sf_data fr) None])).
  { exists []. split; [symmetry; apply app_nil_r|congruence]. }
  (* a frame handed to the wrapper of flow g0, whose muxw becomes m' and the mux x' *)
  assert (Hhand : forall g0 p0 m' x', e_prox e g0 = Some p0 -> muxw_mono (p_m p0) m' ->
     forall g p', e_prox (set_prox e g0 (mkProxy (p_ok p0) (p_removed p0) (p_s p0) m') x') g = Some p' ->
     (exists p, e_prox e g = Some p /\ handed p p') \/ fresh_proxy p').
  { intros g0 p0 m' x' E0 Hm g p'. cbn [set_prox e_prox]. unfold upd.
    destruct (N.eqb_spec g g0) as [->|Hne]; [|apply Hsame].
    intros [= <-]. left. exists p0. split; [exact E0|]. unfold handed. cbn. auto. }
  unfold mux_got_packet. destruct (sf_cmd fr) eqn:Ecmd.
  - (* PING *)
    intros H. apply ok_pair_inj in H. destruct H as [<- _]. cbn. splits; auto.
    exists [mkSF 0 CPong (sf_data fr) None]. auto.
  - (* PONG *)
    intros H. apply ok_pair_inj in H. destruct H as [<- _]. cbn. splits; auto.
    exists []. split; [symmetry; apply app_nil_r|discriminate].
  - (* CONNECT *)
    destruct (occ (e_mux e) (sf_ch fr)); [discriminate|].
    destruct sd.
    + intros H. apply ok_pair_inj in H. destruct H as [<- _]. splits; auto.
      exists []. split; [symmetry; apply app_nil_r|discriminate].
    + unfold server_new_channel.
      destruct (s_try_connect (new_sock true) (io_conn o) (io_shut_ok o)) as [s|] eqn:Etc; [|discriminate].
      destruct (try_connect_spec _ _ _ _ Etc) as ((T1 & _) & _ & _ & T4).
      intros H. apply ok_pair_inj in H. destruct H as [<- _]. cbn. splits; auto.
      * exists []. split; [symmetry; apply app_nil_r|discriminate].
      * intros g p'. unfold upd. destruct (N.eqb_spec g (e_next e)) as [->|Hne]; [|apply Hsame].
        intros [= <-]. right. unfold fresh_proxy. cbn. splits; auto.
  - (* STOP *)
    destruct (x_chan (e_mux e) (sf_ch fr)) as [g0|].
    2:{ intros H. apply ok_pair_inj in H. destruct H as [<- _]. splits; auto.
        exists []. split; [symmetry; apply app_nil_r|discriminate]. }
    destruct (e_prox e g0) as [p0|] eqn:E0; [|discriminate]. cbn [m_got_packet].
    destruct (setnowrite_ext (p_m p0) (e_mux e) g0) as (X & Mm & _).
    destruct (m_setnowrite (p_m p0) (e_mux e)) as [m' x']. cbn [fst snd] in *.
    intros H. apply ok_pair_inj in H. destruct H as [<- _]. cbn [set_prox e_mux]. splits.
    + exists []. split; [exact (me_out _ _ _ _ _ X)|discriminate].
    + exact (me_tf _ _ _ _ _ X).
    + apply (Hhand g0 p0 m' x' E0 Mm).
  - (* EOF *)
    destruct (x_chan (e_mux e) (sf_ch fr)) as [g0|].
    2:{ intros H. apply ok_pair_inj in H. destruct H as [<- _]. splits; auto.
        exists []. split; [symmetry; apply app_nil_r|discriminate]. }
    destruct (e_prox e g0) as [p0|] eqn:E0; [|discriminate]. cbn [m_got_packet].
    destruct (setnoread_ext (p_m p0) (e_mux e) g0) as (X & Mm & _).
    destruct (m_setnoread (p_m p0) (e_mux e)) as [m' x']. cbn [fst snd] in *.
    intros H. apply ok_pair_inj in H. destruct H as [<- _]. cbn [set_prox e_mux]. splits.
    + exists []. split; [exact (me_out _ _ _ _ _ X)|discriminate].
    + exact (me_tf _ _ _ _ _ X).
    + apply (Hhand g0 p0 m' x' E0 Mm).
  - (* DATA *)
    destruct (x_chan (e_mux e) (sf_ch fr)) as [g0|].
    2:{ intros H. apply ok_pair_inj in H. destruct H as [<- _]. splits; auto.
        exists []. split; [symmetry; apply app_nil_r|discriminate]. }
    destruct (e_prox e g0) as [p0|] eqn:E0; [|discriminate]. cbn [m_got_packet].
    intros H. apply ok_pair_inj in H. destruct H as [<- _]. cbn [set_prox e_mux]. splits.
    + exists []. split; [symmetry; apply app_nil_r|discriminate].
    + reflexivity.
    + apply (Hhand g0 p0 _ _ E0). unfold muxw_mono. cbn. auto.
  - (* unknown command *)
    destruct (x_chan (e_mux e) (sf_ch fr)) as [g0|].
    2:{ intros H. apply ok_pair_inj in H. destruct H as [<- _]. splits; auto.
        exists []. split; [symmetry; apply app_nil_r|discriminate]. }
    destruct (e_prox e g0) as [p0|] eqn:E0; [|discriminate]. cbn [m_got_packet]. discriminate.
Qed.

(* ================================================================== *)
(* 2. What one micro-step does to the proxies of either end            *)
(* ================================================================== *)

Inductive pstep (p p' : proxy) : Prop :=
| ps_same : p' = p -> pstep p p'
| ps_cb sd fid x o x' : live p = true -> proxy_callback sd fid p x o = Ok (p', x') -> pstep p p'
| ps_pre sd fid x x' ws : live p = true -> proxy_pre_select sd fid p x = (p', x', ws) -> pstep p p'
| ps_hand : handed p p' -> pstep p p'
| ps_rm : p_ok p = false -> p' = mkProxy (p_ok p) true (p_s p) (p_m p) -> pstep p p'.

Lemma side_cases (s2 sd : side) : s2 = sd \/ s2 = other sd.
Proof. destruct s2, sd; auto. Qed.

Lemma step_prox w ev w' : step w ev = Ok w' ->
  forall s2 g p', e_prox (get_end w' s2) g = Some p' ->
    (exists p, e_prox (get_end w s2) g = Some p /\ pstep p p') \/ fresh_proxy p'.
Proof.
  assert (Hsame : forall s2 g p', e_prox (get_end w s2) g = Some p' ->
    (exists p, e_prox (get_end w s2) g = Some p /\ pstep p p') \/ fresh_proxy p').
  { intros s2 g p' H. left. exists p'. split; [exact H|apply ps_same; reflexivity]. }
  destruct ev as [payload|sd fid o|sd fid|sd|sd o|sd|sd fid]; cbn [step].
  - (* accept *)
    intros [= <-] s2 g p'. destruct s2; [|apply (Hsame Server)].
    cbn [get_end set_end w_cl]. unfold client_accept.
    destruct (next_channel (w_maxc w) (occ (e_mux (w_cl w))) (x_chani (e_mux (w_cl w)))) as [[c|] ch];
      cbn [e_prox]; [|apply (Hsame Client)].
    unfold upd. destruct (N.eqb_spec g (e_next (w_cl w))) as [->|Hne]; [|apply (Hsame Client)].
    intros [= <-]. right. unfold fresh_proxy. cbn. splits; auto.
  - (* callback *)
    destruct (e_prox (get_end w sd) fid) as [p|] eqn:Ep; [|discriminate].
    destruct (live p) eqn:Elive; [|discriminate].
    destruct (proxy_callback sd fid p (e_mux (get_end w sd)) o) as [[p1 x1]|cr] eqn:Ecb; [|discriminate].
    intros [= <-] s2 g p'. destruct (side_cases s2 sd) as [->| ->].
    + rewrite get_set_end. cbn [set_prox e_prox]. unfold upd.
      destruct (N.eqb_spec g fid) as [->|Hne]; [|apply Hsame].
      intros [= <-]. left. exists p. split; [exact Ep|]. eapply ps_cb; eassumption.
    + rewrite get_set_end_other. apply Hsame.
  - (* pre_select *)
    destruct (e_prox (get_end w sd) fid) as [p|] eqn:Ep; [|discriminate].
    destruct (live p) eqn:Elive; [|discriminate].
    destruct (proxy_pre_select sd fid p (e_mux (get_end w sd))) as [[p1 x1] ws] eqn:Eps.
    intros [= <-] s2 g p'. destruct (side_cases s2 sd) as [->| ->].
    + rewrite get_set_end. cbn [set_prox e_prox]. unfold upd.
      destruct (N.eqb_spec g fid) as [->|Hne]; [|apply Hsame].
      intros [= <-]. left. exists p. split; [exact Ep|]. eapply ps_pre; eassumption.
    + rewrite get_set_end_other. apply Hsame.
  - (* flush *)
    intros Hs s2 g p'. destruct (flush_views w sd w') as [_ Hf]; [exact Hs|]. rewrite Hf. apply Hsame.
  - (* deliver *)
    intros Hs s2 g p'.
    destruct (inlink w (other sd)) as [|fr rest] eqn:Hl.
    { rewrite (deliver_empty w sd o w' Hs Hl). apply Hsame. }
    destruct (deliver_shape w sd o w' fr rest Hs Hl) as (e' & st & Hg & He & Ho & _).
    destruct (got_packet_effect _ _ _ _ _ _ Hg) as (_ & _ & Hp).
    destruct (side_cases s2 sd) as [->| ->].
    + rewrite He. intros H. destruct (Hp g p' H) as [(p & E & Hh)|Hf]; [left|right; exact Hf].
      exists p. split; [exact E|apply ps_hand; exact Hh].
    + rewrite Ho. apply Hsame.
  - (* check_fullness *)
    intros [= <-] s2 g p'. destruct sd, s2; cbn [get_end set_end w_cl w_sv set_mux e_prox];
      first [apply (Hsame Client)|apply (Hsame Server)].
  - (* remove *)
    destruct (e_prox (get_end w sd) fid) as [p|] eqn:Ep; [|discriminate].
    destruct (negb (p_ok p) && live p) eqn:Ec; [|discriminate].
    apply andb_true_iff in Ec. destruct Ec as [Ec _]. apply negb_true_iff in Ec.
    intros [= <-] s2 g p'. destruct (side_cases s2 sd) as [->| ->].
    + rewrite get_set_end. cbn [set_prox e_prox]. unfold upd.
      destruct (N.eqb_spec g fid) as [->|Hne]; [|apply Hsame].
      intros [= <-]. left. exists p. split; [exact Ep|]. apply ps_rm; [exact Ec|reflexivity].
    + rewrite get_set_end_other. apply Hsame.
Qed.

(* ================================================================== *)
(* 3. What one micro-step does to the two directed paths and too_full   *)
(* ================================================================== *)

Definition grows (w w' : world) : Prop :=
  forall rs, (exists new, path w' rs = path w rs ++ new) /\ tf w' rs = tf w rs.

Lemma grows_act w sd g p p' x' new :
  e_prox (get_end w sd) g = Some p ->
  x_out x' = x_out (e_mux (get_end w sd)) ++ new -> x_too_full x' = x_too_full (e_mux (get_end w sd)) ->
  grows w (set_end w sd (set_prox (get_end w sd) g p' x')).
Proof.
  intros Hp Hout Htf rs. fold (w_act w sd g p' x'). destruct (side_cases rs sd) as [->| ->].
  - split.
    + exists new. apply (act_path_same w sd g p p' x' new Hp Hout).
    + unfold tf, w_act. rewrite get_set_end. exact Htf.
  - split.
    + exists []. rewrite app_nil_r. apply (act_path_other w sd g p p' x' new Hp Hout).
    + unfold tf, w_act. rewrite get_set_end_other. reflexivity.
Qed.

Lemma step_paths w ev w' : step w ev = Ok w' ->
  match ev with
  | EvDeliver sd o =>
     w' = w \/
     exists fr tl new, path w (other sd) = fr :: tl /\ path w' (other sd) = tl /\
        path w' sd = path w sd ++ new /\
        (sf_cmd fr = CPing -> new = [mkSF 0 CPong (sf_data fr) None]) /\
        tf w' sd = (match sf_cmd fr with CPong => false | _ => tf w sd end) /\
        tf w' (other sd) = tf w (other sd)
  | EvCheckFull sd =>
     path w' (other sd) = path w (other sd) /\ tf w' (other sd) = tf w (other sd) /\
     exists new, path w' sd = path w sd ++ new /\
       (tf w' sd = true -> tf w sd = true \/ new = [mkSF 0 CPing rttest None])
  | _ => grows w w'
  end.
Proof.
  assert (Hrefl : grows w w).
  { intros rs. split; [exists []; symmetry; apply app_nil_r|reflexivity]. }
  destruct ev as [payload|sd fid o|sd fid|sd|sd o|sd|sd fid]; cbn [step].
  - (* accept *)
    intros [= <-] rs. unfold client_accept.
    destruct (next_channel (w_maxc w) (occ (e_mux (w_cl w))) (x_chani (e_mux (w_cl w)))) as [[c|] ch].
    + destruct rs; unfold path, inlink, tf; cbn.
      * split; [|reflexivity]. eexists. rewrite app_assoc. reflexivity.
      * split; [|reflexivity]. exists []. symmetry. apply app_nil_r.
    + destruct rs; unfold path, inlink, tf; cbn; (split; [|reflexivity]); exists []; symmetry; apply app_nil_r.
  - (* callback *)
    destruct (e_prox (get_end w sd) fid) as [p|] eqn:Ep; [|discriminate].
    destruct (live p); [|discriminate].
    destruct (proxy_callback sd fid p (e_mux (get_end w sd)) o) as [[p1 x1]|cr] eqn:Ecb; [|discriminate].
    destruct (callback_latency _ _ _ _ _ _ _ Ecb) as (new & A1 & A2 & _).
    intros [= <-]. exact (grows_act w sd fid p p1 x1 new Ep A1 A2).
  - (* pre_select *)
    destruct (e_prox (get_end w sd) fid) as [p|] eqn:Ep; [|discriminate].
    destruct (live p); [|discriminate].
    pose proof (pre_select_latency sd fid p (e_mux (get_end w sd))) as F.
    destruct (proxy_pre_select sd fid p (e_mux (get_end w sd))) as [[p1 x1] ws].
    destruct F as (new & A1 & A2 & _).
    intros [= <-]. exact (grows_act w sd fid p p1 x1 new Ep A1 A2).
  - (* flush *)
    intros Hs rs. destruct (flush_views w sd w' Hs) as [Hp _]. split.
    + exists []. rewrite app_nil_r. apply Hp.
    + revert Hs. cbn [step]. destruct (x_out (e_mux (get_end w sd))); intros [= <-]; [reflexivity|].
      unfold tf. destruct sd, rs; reflexivity.
  - (* deliver *)
    intros Hs. destruct (inlink w (other sd)) as [|fr rest] eqn:Hl.
    { left. exact (deliver_empty w sd o w' Hs Hl). }
    right. destruct (deliver_shape w sd o w' fr rest Hs Hl) as (e' & st & Hg & He & Ho & Hl1 & Hl2 & _).
    destruct (got_packet_effect _ _ _ _ _ _ Hg) as ((new & Hout & Hping) & Htf & _).
    exists fr, (rest ++ x_out (e_mux (get_end w (other sd)))), new. splits.
    + unfold path. rewrite Hl. reflexivity.
    + unfold path. rewrite Hl1, Ho. reflexivity.
    + unfold path. rewrite Hl2, He, Hout. apply app_assoc.
    + exact Hping.
    + unfold tf. rewrite He. exact Htf.
    + unfold tf. rewrite Ho. reflexivity.
  - (* check_fullness *)
    intros [= <-]. splits.
    + unfold path, inlink. destruct sd; reflexivity.
    + unfold tf. rewrite get_set_end_other. reflexivity.
    + unfold tf. rewrite get_set_end. cbn [set_mux e_mux]. unfold check_fullness.
      destruct (w_lbs w <? x_full (e_mux (get_end w sd))).
      * destruct (x_too_full (e_mux (get_end w sd))) eqn:Et.
        -- exists []. split; [|auto]. unfold path, inlink. destruct sd; cbn; rewrite app_nil_r; reflexivity.
        -- exists [mkSF 0 CPing rttest None]. split; [|auto].
           unfold path, inlink. destruct sd; cbn; rewrite app_assoc; reflexivity.
      * exists []. split; [|auto]. unfold path, inlink. destruct sd; cbn; rewrite app_nil_r; reflexivity.
  - (* remove *)
    intros Hs rs. destruct (remove_views w sd fid w' Hs) as [Hp _]. split.
    + exists []. rewrite app_nil_r. apply Hp.
    + revert Hs. cbn [step]. destruct (e_prox (get_end w sd) fid) as [p|]; [|discriminate].
      destruct (negb (p_ok p) && live p); [|discriminate]. intros [= <-].
      unfold tf. destruct sd, rs; reflexivity.
Qed.

(* ================================================================== *)
(* 4. C09: while an end is paused, its probe or the answer is on the way *)
(* ================================================================== *)

Definition has_ping (l : list sframe) : bool := existsb is_rtping l.
Definition has_pong (l : list sframe) : bool := existsb is_rtpong l.

(* the 'rttest' PING of end sd is queued / travelling to the peer, or its PONG is
   queued at the peer / travelling back *)
Definition outstanding (w : world) (sd : side) : bool :=
  has_ping (path w sd) || has_pong (path w (other sd)).

Definition Oinv (w : world) : Prop := forall sd, tf w sd = true -> outstanding w sd = true.

Lemma outstanding_grows w w' sd :
  (exists n1, path w' sd = path w sd ++ n1) -> (exists n2, path w' (other sd) = path w (other sd) ++ n2) ->
  outstanding w sd = true -> outstanding w' sd = true.
Proof.
  intros (n1 & E1) (n2 & E2). unfold outstanding, has_ping, has_pong. rewrite E1, E2, !existsb_app.
  intros H. apply orb_true_iff in H. destruct H as [H|H]; rewrite H; cbn; rewrite ?orb_true_r; reflexivity.
Qed.

Lemma is_rtping_rtpong fr : is_rtping fr = true -> is_rtpong (mkSF 0 CPong (sf_data fr) None) = true.
Proof. unfold is_rtping, is_rtpong. cbn. destruct (sf_cmd fr); try discriminate. auto. Qed.

Lemma step_Oinv w ev w' : Oinv w -> step w ev = Ok w' -> Oinv w'.
Proof.
  intros O Hs. pose proof (step_paths w ev w' Hs) as P.
  assert (Hg : grows w w' -> Oinv w').
  { intros G sd Ht. destruct (G sd) as [N1 T1]. destruct (G (other sd)) as [N2 _].
    rewrite T1 in Ht. exact (outstanding_grows w w' sd N1 N2 (O sd Ht)). }
  destruct ev as [payload|sd0 fid o|sd0 fid|sd0|sd0 o|sd0|sd0 fid]; try (apply Hg; exact P).
  - (* deliver at sd0 *)
    destruct P as [->|(fr & tl & new & Hp & Hp' & Hq & Hping & Ht1 & Ht2)]; [exact O|].
    intros sd Ht. destruct (side_cases sd sd0) as [->| ->].
    + (* the receiving end: it stays paused only if the frame was not a PONG *)
      rewrite Ht1 in Ht.
      assert (Hc : sf_cmd fr <> CPong) by (intros E; rewrite E in Ht; discriminate).
      assert (Ht0 : tf w sd0 = true) by (destruct (sf_cmd fr); try exact Ht; congruence).
      pose proof (O sd0 Ht0) as H. unfold outstanding, has_ping, has_pong in *.
      rewrite Hq, Hp', existsb_app. rewrite Hp in H. cbn [existsb] in H.
      assert (Hn : is_rtpong fr = false) by (unfold is_rtpong; destruct (sf_cmd fr); try reflexivity; congruence).
      rewrite Hn in H. cbn [orb] in H.
      apply orb_true_iff in H. destruct H as [H|H]; rewrite H; cbn; rewrite ?orb_true_r; reflexivity.
    + (* the sending end: its PING may have been turned into the PONG *)
      rewrite Ht2 in Ht. pose proof (O (other sd0) Ht) as H.
      unfold outstanding, has_ping, has_pong in *. rewrite oth_oth in *.
      rewrite Hp', Hq, existsb_app. rewrite Hp in H. cbn [existsb] in H.
      destruct (is_rtping fr) eqn:Ep.
      * assert (Hc : sf_cmd fr = CPing) by (unfold is_rtping in Ep; destruct (sf_cmd fr); try discriminate; reflexivity).
        rewrite (Hping Hc). cbn [existsb]. rewrite (is_rtping_rtpong fr Ep). cbn. rewrite !orb_true_r. reflexivity.
      * cbn [orb] in H. apply orb_true_iff in H. destruct H as [H|H]; rewrite H; cbn; rewrite ?orb_true_r; reflexivity.
  - (* check_fullness at sd0 *)
    destruct P as (Hp & Ht2 & new & Hq & Hnew).
    intros sd Ht. destruct (side_cases sd sd0) as [->| ->].
    + destruct (Hnew Ht) as [H0|Hn].
      * apply (outstanding_grows w w' sd0); [exists new; exact Hq|exists []; rewrite app_nil_r; exact Hp|exact (O sd0 H0)].
      * unfold outstanding, has_ping. rewrite Hq, existsb_app, Hn. cbn. rewrite orb_true_r. reflexivity.
    + rewrite Ht2 in Ht.
      apply (outstanding_grows w w' (other sd0)); [exists []; rewrite app_nil_r; exact Hp|rewrite oth_oth; exists new; exact Hq|exact (O _ Ht)].
Qed.

Lemma Oinv_world0 maxc lbs : Oinv (world0 maxc lbs).
Proof. intros [|]; discriminate. Qed.

Lemma run_Oinv evs : forall w w', Oinv w -> run w evs = Ok w' -> Oinv w'.
Proof.
  induction evs as [|ev evs IH]; intros w w' O; cbn [run].
  - intros [= <-]. exact O.
  - destruct (step w ev) as [w1|] eqn:Es; [|discriminate]. intros Hr.
    apply (IH w1 w'); [|exact Hr]. exact (step_Oinv w ev w1 O Es).
Qed.

(* C09 "never wedged": in every state reachable from the initial one (any schedule,
   any I/O outcomes, stale or not), an end that is paused by latency control has its
   round-trip probe outstanding: the PING 'rttest' is in its own queue or on the link
   to the peer, or the PONG 'rttest' is in the peer's queue or on the link back. *)
Theorem outstanding_inv maxc lbs w sd : reachable maxc lbs w -> tf w sd = true -> outstanding w sd = true.
Proof. intros (evs & H). exact (run_Oinv evs _ _ (Oinv_world0 maxc lbs) H sd). Qed.

(* consequence: with all queues and links empty no end is paused *)
Lemma paths_empty_not_paused maxc lbs w : reachable maxc lbs w ->
  path w Client = [] -> path w Server = [] -> forall sd, tf w sd = false.
Proof.
  intros Hr H1 H2 sd. destruct (tf w sd) eqn:E; [|reflexivity].
  pose proof (outstanding_inv maxc lbs w sd Hr E) as H. unfold outstanding in H.
  destruct sd; cbn [other] in H; rewrite H1, H2 in H; discriminate.
Qed.

(* ================================================================== *)
(* 5. Per-proxy invariants: a finished handler is closed; a connecting  *)
(*    socket has read nothing                                           *)
(* ================================================================== *)

Lemma try_connect_conn s o ok s0 : s_try_connect s o ok = Ok s0 -> s_conn s0 = true -> s_conn s = true.
Proof.
  unfold s_try_connect. destruct (s_conn s) eqn:Ec; [auto|].
  cbn [andb negb]. rewrite Ec. cbn [negb]. intros [= <-]. congruence.
Qed.

Lemma callback_extra sd fid p x o p' x' : proxy_callback sd fid p x o = Ok (p', x') ->
  (p_ok p = false -> p_ok p' = false) /\
  (s_conn (p_s p') = true ->
     s_conn (p_s p) = true /\ (flat (s_buf (p_s p)) = [] -> flat (s_buf (p_s p')) = [])).
Proof.
  rewrite proxy_callback_unfold.
  destruct (s_try_connect (p_s p) (io_conn o) (io_shut_ok o)) as [s0|c] eqn:Etc; [|discriminate].
  destruct (try_connect_spec _ _ _ _ Etc) as ((T1 & _ & _) & _).
  pose proof (try_connect_conn _ _ _ _ Etc) as Tc.
  cbv zeta.
  pose proof (fill_spec s0 (io_recv o) (io_shut_ok o)) as Hf. cbv zeta in Hf.
  set (s1 := s_fill s0 (io_recv o) (io_shut_ok o)) in *.
  destruct Hf as (F1 & _ & _ & _ & Fc & _).
  pose proof (copies_spec sd s1 (p_m p) x fid o) as Hc.
  destruct (copies sd s1 (p_m p) x fid o) as [[s2 m2] x2].
  destruct Hc as (new & d & _ & Cs & _ & _ & _ & _ & Ccn & _).
  set (s3 := if nonempty_buf (s_buf s2) && m_sw m2
             then s_noread (mkSock (s_conn s2) (s_sr s2) (s_sw s2) [] (s_exc s2) (s_rd s2) (s_wr s2) (s_fault s2))
             else s2).
  assert (H3 : s_conn s3 = s_conn s2 /\ (flat (s_buf s2) = [] -> flat (s_buf s3) = [])).
  { unfold s3. destruct (nonempty_buf (s_buf s2) && m_sw m2); cbn; auto. }
  destruct H3 as [H3c H3b].
  assert (Hconn : forall s4, s_conn s4 = s_conn s3 -> s_buf s4 = s_buf s3 -> s_conn s4 = true ->
            s_conn (p_s p) = true /\ (flat (s_buf (p_s p)) = [] -> flat (s_buf s4) = [])).
  { intros s4 E4c E4b H. rewrite E4c, H3c, Ccn, Fc in H. split; [exact (Tc H)|].
    intros Hb. rewrite E4b. apply H3b.
    assert (Hr : recv_bytes s0 (io_recv o) = []).
    { unfold recv_bytes. destruct (s_buf s0); [rewrite H|]; reflexivity. }
    rewrite Hr, app_nil_r, T1, Hb in F1. rewrite F1 in Cs. symmetry in Cs.
    apply app_eq_nil in Cs. apply Cs. }
  destruct (if nonempty_buf (m_buf m2) && s_sw s2 then _ else _) as [m3 x3].
  destruct (s_sr s3 && m_sr m3 && negb (nonempty_buf (s_buf s3)) && negb (nonempty_buf (m_buf m3))).
  - destruct (m_nowrite m3 x3 fid) as [m4 x4]. intros H. apply ok_pair_inj in H. destruct H as [<- _].
    cbn [p_ok p_s]. split; [reflexivity|].
    destruct (nowrite_spec s3 (io_shut_ok o)) as ((N1 & _) & _ & _ & N2 & _).
    apply Hconn; assumption.
  - intros H. apply ok_pair_inj in H. destruct H as [<- _]. cbn [p_ok p_s]. split; [auto|].
    apply Hconn; reflexivity.
Qed.

(* ---- an end-of-stream that was read is passed on by the same callback ---- *)
(* SockWrapper.copy_to(MuxWrapper): buffer drained and shut_read => EOF sent *)
Lemma copy_s_to_m_eof s m x fid :
  let '(s', m', x') := copy_s_to_m s m x fid in
  s_buf s' = [] -> s_sr s = true -> m_sw m' = true.
Proof.
  unfold copy_s_to_m.
  destruct (match s_buf s with
            | (a :: b0) :: rest => let '(x1, w) := m_uwrite m x fid (a :: b0) in (advance (s_buf s) w, x1)
            | _ => (drop_empty (s_buf s), x)
            end) as [buf' x1].
  destruct buf' as [|b bs].
  - destruct (s_sr s) eqn:Es.
    + destruct (nowrite_ext m x1 fid) as (nw & _ & _ & _ & N4 & _).
      destruct (m_nowrite m x1 fid) as [m' x2]. cbn [fst] in N4. intros _ _. exact N4.
    + intros _ H. discriminate.
  - cbn. intros H. discriminate.
Qed.

(* shut_read of a socket wrapper is set without shut_write only by a clean EOF *)
Definition sr_only_with_sw (s s' : sockw) : Prop :=
  s_sr s' = true -> s_sw s' = false -> s_sr s = true.

Lemma nowrite_sr s ok : sr_only_with_sw s (s_nowrite s ok).
Proof. unfold sr_only_with_sw, s_nowrite. destruct (s_sw s); [auto|]. destruct ok; cbn; auto. discriminate. Qed.

Lemma s_uwrite_sr s b o ok : sr_only_with_sw s (fst (s_uwrite s b o ok)).
Proof.
  unfold sr_only_with_sw, s_uwrite. destruct (s_conn s); [auto|].
  destruct (if s_sw s then match o with SendAccept _ => SendErr EPipe | _ => o end else o) as [k| |e]; cbn [fst].
  - cbn. auto.
  - auto.
  - assert (He : s_sr (s_seterr s ok) = true -> s_sw (s_seterr s ok) = false -> s_sr s = true).
    { destruct (seterr_spec s ok) as (_ & _ & C & _). congruence. }
    destruct e; try exact He.
    apply (nowrite_sr (mkSock false (s_sr s) (s_sw s) (s_buf s) (s_exc s) (s_rd s) (s_wr s) true) ok).
Qed.

Lemma copy_m_to_s_sr m s o ok : sr_only_with_sw s (snd (copy_m_to_s m s o ok)).
Proof.
  unfold copy_m_to_s.
  assert (P : forall bs1 : list bytes * sockw, sr_only_with_sw s (snd bs1) ->
    sr_only_with_sw s (snd (let '(buf', s1) := bs1 in
       match buf' with
       | [] => if m_sr m then (mkMuxw (m_chan m) (m_sr m) (m_sw m) buf', s_nowrite s1 ok)
               else (mkMuxw (m_chan m) (m_sr m) (m_sw m) buf', s1)
       | _ :: _ => (mkMuxw (m_chan m) (m_sr m) (m_sw m) buf', s1)
       end))).
  { intros [buf' s1] H. cbn [snd] in H. destruct buf'; [|exact H]. destruct (m_sr m); [|exact H].
    cbn [snd]. unfold sr_only_with_sw in *. intros A B. apply H; [|].
    - apply (nowrite_sr s1 ok A B).
    - destruct (s_sw s1) eqn:E; [|reflexivity].
      destruct (nowrite_spec s1 ok) as (_ & _ & C & _). congruence. }
  apply P. destruct (m_buf m) as [|[|a b0] rest]; cbn [snd]; try (unfold sr_only_with_sw; auto; fail).
  pose proof (s_uwrite_sr s (a :: b0) o ok) as H.
  destruct (s_uwrite s (a :: b0) o ok) as [s1 k]. exact H.
Qed.

Definition eof_passed (s : sockw) (m : muxw) : Prop :=
  s_sr s = true -> s_sw s = false -> s_buf s = [] -> m_sw m = true.

Lemma copies_eof sd s1 m0 x fid o :
  let '(s2, m2, x2) := copies sd s1 m0 x fid o in eof_passed s2 m2.
Proof.
  unfold eof_passed. destruct sd; unfold copies.
  - pose proof (copy_s_to_m_eof s1 m0 x fid) as H1. pose proof (copy_s_to_m_spec s1 m0 x fid) as S1.
    destruct (copy_s_to_m s1 m0 x fid) as [[sa ma] xa].
    destruct S1 as (new & _ & _ & _ & _ & Hsr & _).
    pose proof (copy_m_to_s_sr ma sa (io_send o) (io_shut_ok o)) as H2.
    pose proof (copy_m_to_s_spec ma sa (io_send o) (io_shut_ok o)) as S2.
    destruct (copy_m_to_s ma sa (io_send o) (io_shut_ok o)) as [mb sb]. cbn [snd] in H2.
    destruct S2 as (d & _ & _ & _ & _ & Gsw & Gbuf & _).
    intros A B C. rewrite Gsw. apply H1; [congruence|]. rewrite <- Hsr. exact (H2 A B).
  - pose proof (copy_m_to_s_sr m0 s1 (io_send o) (io_shut_ok o)) as H2.
    destruct (copy_m_to_s m0 s1 (io_send o) (io_shut_ok o)) as [ma sa]. cbn [snd] in H2.
    pose proof (copy_s_to_m_eof sa ma x fid) as H1. pose proof (copy_s_to_m_spec sa ma x fid) as S1.
    destruct (copy_s_to_m sa ma x fid) as [[sb mb] xb].
    destruct S1 as (new & _ & _ & _ & _ & Hsr & _).
    intros A B C. apply H1; [exact C|congruence].
Qed.

Lemma callback_eof sd fid p x o p' x' : proxy_callback sd fid p x o = Ok (p', x') ->
  eof_passed (p_s p') (p_m p').
Proof.
  rewrite proxy_callback_unfold.
  destruct (s_try_connect (p_s p) (io_conn o) (io_shut_ok o)) as [s0|c] eqn:Etc; [|discriminate].
  cbv zeta.
  set (s1 := s_fill s0 (io_recv o) (io_shut_ok o)).
  pose proof (copies_eof sd s1 (p_m p) x fid o) as Hc.
  destruct (copies sd s1 (p_m p) x fid o) as [[s2 m2] x2].
  set (s3 := if nonempty_buf (s_buf s2) && m_sw m2
             then s_noread (mkSock (s_conn s2) (s_sr s2) (s_sw s2) [] (s_exc s2) (s_rd s2) (s_wr s2) (s_fault s2))
             else s2).
  assert (H3 : forall m3 x3, (if nonempty_buf (m_buf m2) && s_sw s2
                     then m_noread (mkMuxw (m_chan m2) (m_sr m2) (m_sw m2) []) x2 fid
                     else (m2, x2)) = (m3, x3) -> eof_passed s3 m3).
  { intros m3 x3 E.
    assert (Em : m_sw m3 = m_sw m2).
    { destruct (nonempty_buf (m_buf m2) && s_sw s2).
      - destruct (noread_ext (mkMuxw (m_chan m2) (m_sr m2) (m_sw m2) []) x2 fid) as (nw & _ & _ & _ & _ & N5 & _).
        rewrite E in N5. cbn [fst] in N5. exact N5.
      - inversion E. reflexivity. }
    unfold eof_passed, s3. rewrite Em. destruct (nonempty_buf (s_buf s2) && m_sw m2) eqn:Ed.
    - apply andb_true_iff in Ed. intros _ _ _. apply Ed.
    - exact Hc. }
  destruct (if nonempty_buf (m_buf m2) && s_sw s2 then _ else _) as [m3 x3].
  specialize (H3 m3 x3 eq_refl).
  destruct (s_sr s3 && m_sr m3 && negb (nonempty_buf (s_buf s3)) && negb (nonempty_buf (m_buf m3))).
  - destruct (m_nowrite m3 x3 fid) as [m4 x4]. intros H. apply ok_pair_inj in H. destruct H as [<- _].
    cbn [p_s p_m]. unfold eof_passed.
    destruct (nowrite_spec s3 (io_shut_ok o)) as (_ & _ & N & _). intros _ B. congruence.
  - intros H. apply ok_pair_inj in H. destruct H as [<- _]. exact H3.
Qed.

(* Proxy.pre_select, field by field *)
Lemma pre_select_fields sd fid p x :
  let '(p', x', ws) := proxy_pre_select sd fid p x in
  p_ok p' = p_ok p /\ p_removed p' = p_removed p /\
  s_conn (p_s p') = s_conn (p_s p) /\ s_buf (p_s p') = s_buf (p_s p) /\ m_buf (p_m p') = m_buf (p_m p) /\
  s_sr (p_s p') = (s_sr (p_s p) || m_sw (p_m p)) /\ s_sw (p_s p') = s_sw (p_s p) /\
  m_sr (p_m p') = (m_sr (p_m p) || s_sw (p_s p)) /\ m_sw (p_m p') = m_sw (p_m p) /\
  x_too_full x' = x_too_full x /\
  x_out x' = x_out x ++ (if s_sw (p_s p) && negb (m_sr (p_m p)) then [stop_frame (m_chan (p_m p)) fid] else []).
Proof.
  unfold proxy_pre_select.
  destruct (s_sw (p_s p)) eqn:Esw.
  - unfold m_noread. destruct (m_sr (p_m p)) eqn:Emsr.
    + cbn [andb negb]. rewrite app_nil_r.
      destruct (m_sw (p_m p)) eqn:Emsw; cbn; rewrite ?Esw, ?Emsr, ?Emsw, ?orb_true_r, ?orb_false_r; splits; auto.
    + unfold m_setnoread. rewrite Emsr. unfold m_maybe_close. cbn [m_sr m_sw m_chan andb negb].
      destruct (m_sw (p_m p)) eqn:Emsw; cbn; rewrite ?Esw, ?Emsr, ?Emsw, ?orb_true_r, ?orb_false_r; splits; auto.
  - cbn [andb]. rewrite app_nil_r.
    destruct (m_sw (p_m p)) eqn:Emsw; cbn; rewrite ?Esw, ?Emsw, ?orb_true_r, ?orb_false_r; splits; auto.
Qed.

Definition flags4 (p : proxy) : Prop :=
  s_sr (p_s p) = true /\ s_sw (p_s p) = true /\ m_sr (p_m p) = true /\ m_sw (p_m p) = true.

Record Pinv (p : proxy) : Prop := {
  pi_dead : p_ok p = false -> flags4 p;
  pi_removed : p_removed p = true -> p_ok p = false;
  pi_conn : s_conn (p_s p) = true -> flat (s_buf (p_s p)) = [];
  (* an end-of-stream read from the socket has been passed on as an EOF message *)
  pi_eof : eof_passed (p_s p) (p_m p)
}.

Lemma Pinv_fresh p : fresh_proxy p -> Pinv p.
Proof.
  intros (A & B & C & D & E). constructor.
  - congruence.
  - congruence.
  - intros _. rewrite C. reflexivity.
  - intros H1 H2 _. rewrite (E H1) in H2. discriminate.
Qed.

Lemma Pinv_pstep p p' : Pinv p -> pstep p p' -> Pinv p'.
Proof.
  intros [Hd Hr Hc He] [->|sd fid x o x' Hl Hcb|sd fid x x' ws Hl Hps|(A & B & C & D)|Hok ->].
  - constructor; assumption.
  - destruct (callback_extra _ _ _ _ _ _ _ Hcb) as [E1 E2].
    pose proof (callback_spec _ _ _ _ _ _ _ Hcb) as F. destr_cb F.
    destruct Fsmono as (S1 & S2 & _). destruct Fmmono as (_ & M1 & M2).
    constructor.
    + intros H. destruct (Fdone H) as [H0|(Q1 & Q2 & Q3 & Q4 & _)]; [|unfold flags4; auto].
      destruct (Hd H0) as (Q1 & Q2 & Q3 & Q4). unfold flags4. auto.
    + rewrite Fremoved. intros H. apply E1. apply Hr. exact H.
    + intros H. destruct (E2 H) as [H0 Hb]. apply Hb. apply Hc. exact H0.
    + exact (callback_eof _ _ _ _ _ _ _ Hcb).
  - pose proof (pre_select_fields sd fid p x) as F. rewrite Hps in F.
    destruct F as (F1 & F2 & F3 & F4 & F5 & F6 & F7 & F8 & F9 & _).
    constructor.
    + rewrite F1. intros H. destruct (Hd H) as (Q1 & Q2 & Q3 & Q4). unfold flags4.
      rewrite F6, F7, F8, F9, Q1, Q2, Q3, Q4. auto.
    + rewrite F1, F2. exact Hr.
    + rewrite F3, F4. exact Hc.
    + unfold eof_passed in *. rewrite F4, F6, F7, F9. intros H1 H2 H3.
      destruct (m_sw (p_m p)); [reflexivity|]. rewrite orb_false_r in H1. apply He; assumption.
  - destruct D as (_ & D1 & D2). constructor.
    + rewrite A. intros H. destruct (Hd H) as (Q1 & Q2 & Q3 & Q4). unfold flags4. rewrite C. auto.
    + rewrite A, B. exact Hr.
    + rewrite C. exact Hc.
    + unfold eof_passed in *. rewrite C. intros H1 H2 H3. apply D2. apply He; assumption.
  - constructor; cbn.
    + exact Hd.
    + intros _. exact Hok.
    + exact Hc.
    + exact He.
Qed.

Definition Pall (w : world) : Prop := forall sd g p, e_prox (get_end w sd) g = Some p -> Pinv p.

Lemma step_Pall w ev w' : Pall w -> step w ev = Ok w' -> Pall w'.
Proof.
  intros H Hs sd g p' Hp. destruct (step_prox w ev w' Hs sd g p' Hp) as [(p & E & St)|Hf].
  - exact (Pinv_pstep p p' (H sd g p E) St).
  - exact (Pinv_fresh p' Hf).
Qed.

Lemma Pall_world0 maxc lbs : Pall (world0 maxc lbs).
Proof. intros [|] g p; discriminate. Qed.

Lemma run_Pall evs : forall w w', Pall w -> run w evs = Ok w' -> Pall w'.
Proof.
  induction evs as [|ev evs IH]; intros w w' O; cbn [run].
  - intros [= <-]. exact O.
  - destruct (step w ev) as [w1|] eqn:Es; [|discriminate]. intros Hr.
    apply (IH w1 w'); [|exact Hr]. exact (step_Pall w ev w1 O Es).
Qed.

Lemma reachable_Pall maxc lbs w : reachable maxc lbs w -> Pall w.
Proof. intros (evs & H). exact (run_Pall evs _ _ (Pall_world0 maxc lbs) H). Qed.

(* ================================================================== *)
(* 6. The wait set of Proxy.pre_select                                  *)
(* ================================================================== *)

(* what the socket wrapper contributes *)
Definition wait_s (p : proxy) (x : mux) : list waitfd :=
  if s_conn (p_s p) then [WSockW]
  else if nonempty_buf (s_buf (p_s p)) then (if x_too_full x then [] else [WMuxW])
  else if negb (s_sr (p_s p) || m_sw (p_m p)) then [WSockR] else [].

(* what the mux wrapper contributes *)
Definition wait_m (p : proxy) : list waitfd :=
  if nonempty_buf (m_buf (p_m p)) then [WSockW]
  else if negb (m_sr (p_m p) || s_sw (p_s p)) then [WMuxR] else [].

Lemma pre_select_ws sd fid p x :
  snd (proxy_pre_select sd fid p x) =
  match sd with Client => wait_s p x ++ wait_m p | Server => wait_m p ++ wait_s p x end.
Proof.
  pose proof (pre_select_fields sd fid p x) as F. unfold wait_s, wait_m.
  unfold proxy_pre_select in *.
  destruct (if s_sw (p_s p) then m_noread (p_m p) x fid else (p_m p, x)) as [m1 x1].
  cbn [snd p_s p_m p_ok p_removed] in *.
  destruct F as (_ & _ & F3 & F4 & F5 & F6 & _ & F8 & _ & F10 & _).
  rewrite F3, F4, F5, F6, F8, F10. reflexivity.
Qed.

(* The wait-set lemma: exactly when each fd is waited for.  (p', x') is the state
   pre_select leaves behind; flags of p' are those of p after the coupling rules.) *)
Lemma wait_set_spec sd fid p x fd :
  In fd (snd (proxy_pre_select sd fid p x)) <->
  match fd with
  | WSockW => s_conn (p_s p) = true \/ nonempty_buf (m_buf (p_m p)) = true
  | WMuxW => s_conn (p_s p) = false /\ nonempty_buf (s_buf (p_s p)) = true /\ x_too_full x = false
  | WSockR => s_conn (p_s p) = false /\ nonempty_buf (s_buf (p_s p)) = false /\
              s_sr (p_s p) = false /\ m_sw (p_m p) = false
  | WMuxR => nonempty_buf (m_buf (p_m p)) = false /\ m_sr (p_m p) = false /\ s_sw (p_s p) = false
  end.
Proof.
  rewrite pre_select_ws.
  assert (E : forall a b : list waitfd, In fd (match sd with Client => a ++ b | Server => b ++ a end) <-> In fd a \/ In fd b).
  { intros a b. destruct sd; rewrite in_app_iff; tauto. }
  rewrite E. unfold wait_s, wait_m.
  destruct (s_conn (p_s p)), (nonempty_buf (s_buf (p_s p))), (x_too_full x), (s_sr (p_s p)), (m_sw (p_m p)),
    (nonempty_buf (m_buf (p_m p))), (m_sr (p_m p)), (s_sw (p_s p)), fd; cbn;
    intuition (try discriminate; try congruence).
Qed.

(* ================================================================== *)
(* 7. Quiescence (Q1)                                                   *)
(* ================================================================== *)

(* Prop-level reading of Model/StreamQuiet.quiescentb *)
Record end_quiet (sd : side) (e : endpt) : Prop := {
  eq_out : x_out (e_mux e) = [];
  eq_prox : forall fid p, e_prox e fid = Some p -> active p = true -> proxy_quiet sd fid p (e_mux e) = true
}.

Record quiescent (w : world) : Prop := {
  q_cs : w_cs w = [];
  q_sc : w_sc w = [];
  q_cl : end_quiet Client (w_cl w);
  q_sv : end_quiet Server (w_sv w)
}.

Definition no_connecting (e : endpt) : Prop :=
  forall fid p, e_prox e fid = Some p -> active p = true -> s_conn (p_s p) = false.

Definition quiescent_eager (w : world) : Prop :=
  quiescent w /\ no_connecting (w_cl w) /\ no_connecting (w_sv w).

Lemma in_fids e fid : In fid (fids e) <-> fid < e_next e.
Proof.
  unfold fids. rewrite in_map_iff. split.
  - intros (n & <- & Hn). apply in_seq in Hn. lia.
  - intros H. exists (N.to_nat fid). split; [apply Nnat.N2Nat.id|]. apply in_seq. lia.
Qed.

Lemma out_empty_spec x : out_empty x = true <-> x_out x = [].
Proof. unfold out_empty. destruct (x_out x); split; congruence. Qed.

Lemma link_empty_spec l : link_empty l = true <-> l = [].
Proof. destruct l; cbn; split; congruence. Qed.

Lemma end_quietb_spec sd e : Rinv e -> (end_quietb sd e = true <-> end_quiet sd e).
Proof.
  intros R. unfold end_quietb. rewrite andb_true_iff, out_empty_spec, forallb_forall. split.
  - intros [A B]. constructor; [exact A|]. intros fid p Hp Ha.
    specialize (B fid (proj2 (in_fids e fid) (r_fresh e R fid p Hp))). rewrite Hp, Ha in B. exact B.
  - intros Q. split; [exact (eq_out _ _ Q)|]. intros fid _.
    destruct (e_prox e fid) as [p|] eqn:Hp; [|reflexivity].
    destruct (active p) eqn:Ha; [|reflexivity]. exact (eq_prox _ _ Q fid p Hp Ha).
Qed.

Lemma quiescentb_spec w : Winv w -> (quiescentb w = true <-> quiescent w).
Proof.
  intros [R1 R2]. unfold quiescentb. rewrite !andb_true_iff, !link_empty_spec,
    (end_quietb_spec Client _ R1), (end_quietb_spec Server _ R2). split.
  - intros [[[A B] C] D]. constructor; assumption.
  - intros Q. splits; [exact (q_cs _ Q)|exact (q_sc _ Q)|exact (q_cl _ Q)|exact (q_sv _ Q)].
Qed.

Lemma no_connectingb_spec e : Rinv e -> (no_connectingb e = true <-> no_connecting e).
Proof.
  intros R. unfold no_connectingb, no_connecting. rewrite forallb_forall. split.
  - intros B fid p Hp Ha.
    specialize (B fid (proj2 (in_fids e fid) (r_fresh e R fid p Hp))). rewrite Hp, Ha in B.
    apply negb_true_iff in B. exact B.
  - intros Q fid _. destruct (e_prox e fid) as [p|] eqn:Hp; [|reflexivity].
    destruct (active p) eqn:Ha; [|reflexivity]. rewrite (Q fid p Hp Ha). reflexivity.
Qed.

Lemma quiescent_eagerb_spec w : Winv w -> (quiescent_eagerb w = true <-> quiescent_eager w).
Proof.
  intros W. pose proof W as [R1 R2]. unfold quiescent_eagerb, quiescent_eager.
  rewrite !andb_true_iff, (quiescentb_spec w W), (no_connectingb_spec _ R1), (no_connectingb_spec _ R2). tauto.
Qed.

Lemma quiescent_end w sd : quiescent w -> end_quiet sd (get_end w sd).
Proof. intros Q. destruct sd; [exact (q_cl _ Q)|exact (q_sv _ Q)]. Qed.

Lemma quiescent_paths w : quiescent w -> forall rs, path w rs = [].
Proof.
  intros Q rs. unfold path, inlink. rewrite (eq_out _ _ (quiescent_end w rs Q)).
  destruct rs; [rewrite (q_cs _ Q)|rewrite (q_sc _ Q)]; reflexivity.
Qed.

Lemma quiescent_not_paused maxc lbs w : reachable maxc lbs w -> quiescent w -> forall sd, tf w sd = false.
Proof.
  intros Hr Q. apply (paths_empty_not_paused maxc lbs w Hr); apply quiescent_paths; exact Q.
Qed.

(* what proxy_quiet says, in terms of the proxy's own fields *)
Lemma proxy_quiet_facts sd fid p x : proxy_quiet sd fid p x = true ->
  x_out x = [] /\ (s_sw (p_s p) = true -> m_sr (p_m p) = true) /\
  forall fd, In fd (snd (proxy_pre_select sd fid p x)) ->
    match fd with WSockW => s_conn (p_s p) = true | WMuxW => False | _ => True end.
Proof.
  unfold proxy_quiet. pose proof (pre_select_fields sd fid p x) as F.
  destruct (proxy_pre_select sd fid p x) as [[p' x'] ws]. cbn [snd].
  destruct F as (_ & _ & F3 & _ & _ & _ & _ & _ & _ & _ & F11).
  rewrite andb_true_iff, out_empty_spec, forallb_forall. intros [A B].
  rewrite A in F11. symmetry in F11. apply app_eq_nil in F11. destruct F11 as [F11a F11b]. splits.
  - exact F11a.
  - intros Hsw. rewrite Hsw in F11b. destruct (m_sr (p_m p)); [reflexivity|discriminate].
  - intros fd Hin. specialize (B fd Hin). apply negb_true_iff in B. destruct fd; cbn in B; auto; try discriminate.
    rewrite F3 in B. apply negb_false_iff in B. exact B.
Qed.

(* the wait-set lemma applied to a quiet handler whose end is not paused: unless its
   socket is still connecting, both its buffers are empty *)
Lemma proxy_quiet_buffers sd fid p x : proxy_quiet sd fid p x = true -> x_too_full x = false ->
  s_conn (p_s p) = false -> s_buf (p_s p) = [] /\ m_buf (p_m p) = [].
Proof.
  intros Q Ht Hc. destruct (proxy_quiet_facts _ _ _ _ Q) as (_ & _ & W). split.
  - apply nonempty_buf_false. destruct (nonempty_buf (s_buf (p_s p))) eqn:E; [|reflexivity].
    exfalso. apply (W WMuxW). apply wait_set_spec. auto.
  - apply nonempty_buf_false. destruct (nonempty_buf (m_buf (p_m p))) eqn:E; [|reflexivity].
    assert (H : s_conn (p_s p) = true) by (apply (W WSockW); apply wait_set_spec; auto). congruence.
Qed.

(* ================================================================== *)
(* 8. Q2: no undelivered data while nothing is pending                  *)
(* ================================================================== *)

Lemma active_of_ok p : Pinv p -> p_ok p = true -> active p = true.
Proof.
  intros P H. unfold active, live. rewrite H, andb_true_r.
  destruct (p_removed p) eqn:E; [|reflexivity]. rewrite (pi_removed p P E) in H. discriminate.
Qed.

Theorem quiet_no_data maxc lbs w rs f :
  reachable maxc lbs w -> w_stale w = false -> quiescent w ->
  let v := view_of w rs f in
  vfz v = false ->                              (* the receiving socket has not been shut down *)
  s_conn (pS (wprox w rs f)) = false ->         (* ... and is not still connecting *)
  vY v = [] /\ vP v = [] /\ flat (vX v) = [] /\ vD v = vA v.
Proof.
  intros Hr Hst Q v Hfz Hconn.
  pose proof (reachable_Ginv _ _ _ Hr Hst) as G. pose proof (g_views w G rs f) as V. fold v in V.
  pose proof (reachable_Pall _ _ _ Hr) as PA.
  pose proof (quiescent_not_paused _ _ _ Hr Q) as Htf.
  assert (HP : vP v = []).
  { unfold v, view_of. cbn [vP]. rewrite (quiescent_paths w Q rs). reflexivity. }
  assert (HY : vY v = []).
  { unfold v, view_of in *. cbn [vY vfz] in *. unfold wprox in *.
    destruct (e_prox (get_end w (other rs)) f) as [p|] eqn:Ep; [|reflexivity]. cbn [pS pM] in *.
    pose proof (PA (other rs) f p Ep) as Pp.
    destruct (p_ok p) eqn:Eok.
    - pose proof (eq_prox _ _ (quiescent_end w (other rs) Q) f p Ep (active_of_ok p Pp Eok)) as Qp.
      apply (proxy_quiet_buffers _ _ _ _ Qp (Htf (other rs)) Hconn).
    - destruct (pi_dead p Pp Eok) as (_ & Hsw & _). congruence. }
  assert (HX : flat (vX v) = []).
  { destruct (e_prox (get_end w rs) f) as [q|] eqn:Eq.
    2:{ unfold v, view_of, rprox. cbn [vX]. rewrite Eq. reflexivity. }
    pose proof (PA rs f q Eq) as Pq.
    destruct (p_ok q) eqn:Eok.
    - assert (E : vX v = s_buf (p_s q)) by (unfold v, view_of, rprox; cbn [vX]; rewrite Eq; reflexivity).
      rewrite E. destruct (s_conn (p_s q)) eqn:Ec; [exact (pi_conn q Pq Ec)|].
      pose proof (eq_prox _ _ (quiescent_end w rs Q) f q Eq (active_of_ok q Pq Eok)) as Qq.
      destruct (proxy_quiet_buffers _ _ _ _ Qq (Htf rs) Ec) as [-> _]. reflexivity.
    - destruct (pi_dead q Pq Eok) as (_ & _ & _ & Hmsw).
      assert (E : vrmsw v = true) by (unfold v, view_of, rprox; cbn [vrmsw]; rewrite Eq; exact Hmsw).
      destruct (vi_msw _ V E) as [C|[C _]]; [congruence|exact C]. }
  splits; auto.
  pose proof (vi_pipe _ V Hfz) as Hp. rewrite HY, HP, HX in Hp. cbn in Hp. rewrite app_nil_r in Hp. exact Hp.
Qed.

(* with every pending connect completed as well, nothing needs to be assumed about the receiving end *)
Corollary quiet_eager_no_data maxc lbs w rs f :
  reachable maxc lbs w -> w_stale w = false -> quiescent_eager w ->
  let v := view_of w rs f in
  vfz v = false -> vY v = [] /\ vP v = [] /\ flat (vX v) = [] /\ vD v = vA v.
Proof.
  intros Hr Hst (Q & N1 & N2) v Hfz. apply (quiet_no_data maxc lbs w rs f Hr Hst Q Hfz).
  unfold wprox. destruct (e_prox (get_end w (other rs)) f) as [p|] eqn:Ep; [|reflexivity]. cbn [pS].
  pose proof (reachable_Pall _ _ _ Hr (other rs) f p Ep) as Pp.
  destruct (p_ok p) eqn:Eok.
  - destruct rs; cbn [other get_end] in Ep; [apply (N2 f p Ep)|apply (N1 f p Ep)]; apply (active_of_ok p Pp Eok).
  - destruct (pi_dead p Pp Eok) as (_ & Hsw & _).
    unfold v, view_of, wprox in Hfz. cbn [vfz] in Hfz. rewrite Ep in Hfz. cbn [pS] in Hfz. congruence.
Qed.

(* C01, safety form of "every byte written before the writer closed is eventually
   delivered": once nothing is pending, everything that was read from one end's socket
   has been handed to the other end's socket, unless a socket call failed at that end. *)
Theorem quiet_all_delivered maxc lbs w rs f :
  reachable maxc lbs w -> w_stale w = false -> quiescent w ->
  let v := view_of w rs f in
  s_conn (pS (wprox w rs f)) = false -> vwfault v = false -> vD v = vA v.
Proof.
  intros Hr Hst Q v Hc Hft. destruct (vfz v) eqn:Hfz.
  - pose proof (reachable_Ginv _ _ _ Hr Hst) as G. pose proof (g_views w G rs f) as V. fold v in V.
    destruct (vi_clean _ V Hfz) as [C|[C _]]; [congruence|exact C].
  - apply (quiet_no_data maxc lbs w rs f Hr Hst Q Hfz Hc).
Qed.

(* ================================================================== *)
(* 9. Q3: which live handlers can sit in a quiescent state (F20 shape)  *)
(* ================================================================== *)

(* the termination test at the end of Proxy.callback *)
Definition finished_test (p : proxy) : bool :=
  s_sr (p_s p) && m_sr (p_m p) && negb (nonempty_buf (s_buf (p_s p))) && negb (nonempty_buf (m_buf (p_m p))).

(* a handler that passes the test is finished by its next callback, whatever the
   environment answers: ok := False, both sockets shut for writing, EOF sent *)
Lemma finished_test_callback sd fid p x o p' x' :
  finished_test p = true -> proxy_callback sd fid p x o = Ok (p', x') ->
  p_ok p' = false /\ flags4 p' /\ s_buf (p_s p') = [] /\ m_buf (p_m p') = [].
Proof.
  unfold finished_test, flags4.
  destruct p as [ok rm [cn sr sw sb exc rd wr ft] [ch msr msw mb]]. cbn [p_s p_m s_sr m_sr s_buf m_buf].
  rewrite !andb_true_iff, !negb_true_iff. intros [[[-> ->] Hsb] Hmb].
  apply nonempty_buf_false in Hsb. apply nonempty_buf_false in Hmb. subst sb mb.
  destruct o as [oc orv osd shok].
  destruct cn, sw, msw, shok, sd; try (destruct oc as [|[]]); cbn;
    try discriminate; intros H; apply ok_pair_inj in H; destruct H as [<- _]; cbn; repeat split.
Qed.

(* the handler as Proxy.pre_select leaves it, and the wait set it returns *)
Definition pre_p (sd : side) (fid : N) (p : proxy) (x : mux) : proxy := fst (fst (proxy_pre_select sd fid p x)).
Definition pre_ws (sd : side) (fid : N) (p : proxy) (x : mux) : list waitfd := snd (proxy_pre_select sd fid p x).

Lemma pre_p_fields sd fid p x :
  s_sr (p_s (pre_p sd fid p x)) = (s_sr (p_s p) || m_sw (p_m p)) /\
  m_sr (p_m (pre_p sd fid p x)) = (m_sr (p_m p) || s_sw (p_s p)) /\
  s_buf (p_s (pre_p sd fid p x)) = s_buf (p_s p) /\ m_buf (p_m (pre_p sd fid p x)) = m_buf (p_m p) /\
  s_sw (p_s (pre_p sd fid p x)) = s_sw (p_s p) /\ m_sw (p_m (pre_p sd fid p x)) = m_sw (p_m p) /\
  p_ok (pre_p sd fid p x) = p_ok p /\ s_conn (p_s (pre_p sd fid p x)) = s_conn (p_s p).
Proof.
  unfold pre_p. pose proof (pre_select_fields sd fid p x) as F.
  destruct (proxy_pre_select sd fid p x) as [[p' x'] ws]. cbn [fst].
  destruct F as (F1 & F2 & F3 & F4 & F5 & F6 & F7 & F8 & F9 & _). splits; assumption.
Qed.

(* Q3.  In a quiescent reachable state every handler the loop still runs (not dropped,
   ok = True) is in exactly one of these situations:
   (a) it waits to read its socket (the application / destination may still send),
   (b) it waits for frames from the peer (the peer has not sent EOF yet),
   (c) its connect() is still pending,
   (d) it waits for NOTHING: the wait set is empty, and it passes the termination test
       of Proxy.callback (both wrappers shut for reading, both buffers empty) — it is
       finished in all but name, because only a callback, never pre_select, sets
       ok := False.  This is the F20 shape: the handler lingers until some unrelated
       mux traffic happens to call it. *)
Theorem quiet_live_proxy_shape maxc lbs w sd fid p :
  reachable maxc lbs w -> quiescent w ->
  e_prox (get_end w sd) fid = Some p -> active p = true ->
  let x := e_mux (get_end w sd) in
  (In WSockR (pre_ws sd fid p x) /\ s_sr (p_s (pre_p sd fid p x)) = false) \/
  (In WMuxR (pre_ws sd fid p x) /\ m_sr (p_m (pre_p sd fid p x)) = false) \/
  s_conn (p_s p) = true \/
  (pre_ws sd fid p x = [] /\ finished_test (pre_p sd fid p x) = true).
Proof.
  intros Hr Q Ep Ha x.
  pose proof (quiescent_not_paused _ _ _ Hr Q sd) as Htf. unfold tf in Htf. fold x in Htf.
  pose proof (eq_prox _ _ (quiescent_end w sd Q) fid p Ep Ha) as Qp. fold x in Qp.
  destruct (proxy_quiet_facts _ _ _ _ Qp) as (_ & _ & W).
  destruct (pre_p_fields sd fid p x) as (F1 & F2 & F3 & F4 & _).
  destruct (s_conn (p_s p)) eqn:Ec; [auto|].
  destruct (proxy_quiet_buffers _ _ _ _ Qp Htf Ec) as [Hsb Hmb].
  rewrite F1, F2.
  destruct (s_sr (p_s p) || m_sw (p_m p)) eqn:E1.
  2:{ left. split; [|reflexivity]. apply wait_set_spec. rewrite Hsb. cbn [nonempty_buf].
      apply orb_false_iff in E1. tauto. }
  destruct (m_sr (p_m p) || s_sw (p_s p)) eqn:E2.
  2:{ right. left. split; [|reflexivity]. apply wait_set_spec. rewrite Hmb. cbn [nonempty_buf].
      apply orb_false_iff in E2. tauto. }
  right. right. right. split.
  - unfold pre_ws. rewrite pre_select_ws. unfold wait_s, wait_m. fold x.
    rewrite Ec, Hsb, Hmb, E1, E2. cbn. destruct sd; reflexivity.
  - unfold finished_test. rewrite ?F1, ?F2, ?E1, ?E2, F3, F4, Hsb, Hmb. reflexivity.
Qed.

(* the converse: a handler of shape (d) has an empty wait set in any state *)
Lemma finished_waits_for_nothing sd fid p x :
  s_conn (p_s p) = false -> finished_test (pre_p sd fid p x) = true -> pre_ws sd fid p x = [].
Proof.
  intros Ec. unfold finished_test. destruct (pre_p_fields sd fid p x) as (F1 & F2 & F3 & F4 & _).
  rewrite !andb_true_iff, !negb_true_iff. intros [[[E1 E2] E3] E4].
  unfold pre_ws. rewrite pre_select_ws. unfold wait_s, wait_m.
  rewrite F3 in E3. rewrite F4 in E4. rewrite Ec, E3, E4, <- F1, <- F2, E1, E2. destruct sd; reflexivity.
Qed.

(* ... and its next callback — if one ever comes — finishes it *)
Lemma finished_shape_next_callback sd fid p x o p'' x'' :
  finished_test (pre_p sd fid p x) = true ->
  proxy_callback sd fid (pre_p sd fid p x) (snd (fst (proxy_pre_select sd fid p x))) o = Ok (p'', x'') ->
  p_ok p'' = false /\ flags4 p''.
Proof.
  intros Hf Hcb. destruct (finished_test_callback _ _ _ _ _ _ _ Hf Hcb) as (A & B & _). auto.
Qed.

(* the shape the harness looks for (all four flags set, both buffers empty, ok = True)
   is a special case of (d) *)
Lemma flags4_finished sd fid p x :
  flags4 p -> s_buf (p_s p) = [] -> m_buf (p_m p) = [] -> finished_test (pre_p sd fid p x) = true.
Proof.
  intros (A & B & C & D) Hs Hm. unfold finished_test.
  destruct (pre_p_fields sd fid p x) as (F1 & F2 & F3 & F4 & _).
  rewrite F1, F2, F3, F4, A, C, Hs, Hm. reflexivity.
Qed.

(* no handler the loop still runs holds buffered payload at quiescence (whether or not
   its sockets have been shut down), unless its connect is still pending *)
Theorem quiet_active_buffers_empty maxc lbs w sd fid p :
  reachable maxc lbs w -> quiescent w ->
  e_prox (get_end w sd) fid = Some p -> active p = true -> s_conn (p_s p) = false ->
  s_buf (p_s p) = [] /\ m_buf (p_m p) = [].
Proof.
  intros Hr Q Ep Ha Ec.
  pose proof (quiescent_not_paused _ _ _ Hr Q sd) as Htf. unfold tf in Htf.
  exact (proxy_quiet_buffers _ _ _ _ (eq_prox _ _ (quiescent_end w sd Q) fid p Ep Ha) Htf Ec).
Qed.

(* ================================================================== *)
(* 10. Who waits for whom: no dead-lock between the two ends            *)
(* ================================================================== *)

(* at quiescence the shut flags of the two mux wrappers of a flow agree: an end has
   sent EOF (or been told to stop) exactly when its peer has stopped reading *)
Lemma quiet_flags_agree maxc lbs w rs f :
  reachable maxc lbs w -> w_stale w = false -> quiescent w ->
  m_sw (pM (rprox w rs f)) = m_sr (pM (wprox w rs f)).
Proof.
  intros Hr Hst Q.
  pose proof (g_views w (reachable_Ginv _ _ _ Hr Hst) rs f) as V.
  pose proof (vi_n1 _ V) as N1. pose proof (vi_n3 _ V) as N3.
  unfold view_of in N1, N3. cbn [vrmsw vwmsr vP vstop] in N1, N3.
  rewrite (quiescent_paths w Q rs) in N1. rewrite (quiescent_paths w Q (other rs)) in N3.
  cbn [filter has_eof existsb] in N1, N3.
  destruct (m_sw (pM (rprox w rs f))) eqn:E1, (m_sr (pM (wprox w rs f))) eqn:E2; try reflexivity.
  - destruct (N1 eq_refl) as [C|C]; discriminate.
  - destruct (N3 eq_refl) as [C|C]; discriminate.
Qed.

(* at quiescence both ends of a flow exist as soon as one does *)
Lemma quiet_peer_exists maxc lbs w sd f p :
  reachable maxc lbs w -> w_stale w = false -> quiescent w ->
  e_prox (get_end w sd) f = Some p -> exists q, e_prox (get_end w (other sd)) f = Some q.
Proof.
  intros Hr Hst Q Ep. pose proof (g_al w (reachable_Ginv _ _ _ Hr Hst)) as AL.
  destruct sd; cbn [other get_end] in *.
  - destruct (e_prox (w_sv w) f) as [q|] eqn:Eq; [exists q; reflexivity|].
    destruct (al_connect_first w AL f p Ep Eq) as (fr & rest & E & _).
    rewrite (quiescent_paths w Q Client) in E. discriminate.
  - destruct (al_sv_cl w AL f p Ep) as (q & Eq & _). exists q. exact Eq.
Qed.

(* a handler that waits for the outside world (its own socket may deliver more, or its
   connect is pending), or has the F20 shape *)
Definition waits_outside (sd : side) (fid : N) (p : proxy) (x : mux) : Prop :=
  In WSockR (pre_ws sd fid p x) \/ s_conn (p_s p) = true \/ finished_test (pre_p sd fid p x) = true.

(* C02, last sentence, with exactly the F20 shape excluded: in a quiescent reachable
   state every handler the loop still runs waits for the outside world — directly, or
   it has passed on its own end-of-stream and waits for its peer's, and then the peer's
   handler is alive, has seen that end-of-stream, has not sent its own, and waits for
   the outside world.  So no two handlers wait for each other, none waits for a peer
   that is gone, and the only handlers that wait for nothing are F20-shaped. *)
Theorem quiet_wait_chain maxc lbs w sd f p :
  reachable maxc lbs w -> w_stale w = false -> quiescent w ->
  e_prox (get_end w sd) f = Some p -> active p = true ->
  waits_outside sd f p (e_mux (get_end w sd)) \/
  (m_sw (p_m p) = true /\ m_sr (p_m p) = false /\
   exists q, e_prox (get_end w (other sd)) f = Some q /\ active q = true /\
             m_sr (p_m q) = true /\ m_sw (p_m q) = false /\
             waits_outside (other sd) f q (e_mux (get_end w (other sd)))).
Proof.
  intros Hr Hst Q Ep Ha. pose proof (reachable_Pall _ _ _ Hr) as PA.
  pose proof (quiet_live_proxy_shape maxc lbs w sd f p Hr Q Ep Ha) as S. cbv zeta in S.
  unfold waits_outside.
  destruct (In_dec (fun a b : waitfd => ltac:(decide equality) : {a = b} + {a <> b}) WSockR
                   (pre_ws sd f p (e_mux (get_end w sd)))) as [A|NA]; [auto|].
  destruct (s_conn (p_s p)) eqn:Ec; [auto|].
  destruct S as [[A _]|[[B1 B2]|[C|[_ D]]]]; auto; try discriminate.
  right.
  pose proof (quiescent_not_paused _ _ _ Hr Q sd) as Htf. unfold tf in Htf.
  pose proof (eq_prox _ _ (quiescent_end w sd Q) f p Ep Ha) as Qp.
  destruct (proxy_quiet_buffers _ _ _ _ Qp Htf Ec) as [Hsb Hmb].
  (* p does not wait for WSockR: shut_read or EOF sent; it waits for WMuxR *)
  apply wait_set_spec in B1. destruct B1 as (_ & Hmsr & Hssw).
  assert (Hmsw : m_sw (p_m p) = true).
  { destruct (m_sw (p_m p)) eqn:E; [reflexivity|].
    destruct (s_sr (p_s p)) eqn:Esr.
    - rewrite <- E. apply (pi_eof p (PA sd f p Ep)); assumption.
    - exfalso. apply NA. apply wait_set_spec. rewrite Hsb. cbn [nonempty_buf]. auto. }
  splits; auto.
  destruct (quiet_peer_exists maxc lbs w sd f p Hr Hst Q Ep) as (q & Eq).
  pose proof (quiet_flags_agree maxc lbs w sd f Hr Hst Q) as G1.       (* p reads, q writes *)
  pose proof (quiet_flags_agree maxc lbs w (other sd) f Hr Hst Q) as G2. (* q reads, p writes *)
  unfold rprox, wprox in G1, G2. rewrite oth_oth in G2. rewrite Ep, Eq in G1, G2. cbn [pM] in G1, G2.
  rewrite Hmsw in G1. rewrite Hmsr in G2.
  pose proof (PA (other sd) f q Eq) as Pq.
  assert (Hqa : active q = true).
  { apply (active_of_ok q Pq). destruct (p_ok q) eqn:E; [reflexivity|].
    destruct (pi_dead q Pq E) as (_ & _ & _ & H). congruence. }
  exists q. splits; auto.
  pose proof (quiet_live_proxy_shape maxc lbs w (other sd) f q Hr Q Eq Hqa) as S'. cbv zeta in S'.
  destruct S' as [[A' _]|[[_ B2']|[C'|[_ D']]]]; auto.
  exfalso. destruct (pre_p_fields (other sd) f q (e_mux (get_end w (other sd)))) as (_ & F2 & _).
  rewrite F2, <- G1 in B2'. discriminate.
Qed.

(* ================================================================== *)
(* 11. Non-vacuity: reachable quiescent states, and the F20 witness     *)
(* ================================================================== *)

Definition qio0 : io := mkIO ConnDone RecvAgain SendAgain true.
Definition q_ab : bytes := [ascii_of_N 97; ascii_of_N 98].

(* both ends exchange the initial PING/PONG; one connection is accepted, its CONNECT
   reaches the server and the destination connect succeeds *)
Definition q_open : list event :=
  [EvAccept []; EvFlush Client; EvFlush Client; EvFlush Server;
   EvDeliver Server qio0; EvDeliver Server qio0; EvDeliver Client qio0;
   EvFlush Client; EvFlush Server; EvDeliver Server qio0; EvDeliver Client qio0].
(* the application writes "ab"; it travels to the destination *)
Definition q_data : list event :=
  [EvCallback Client 0 (mkIO ConnDone (RecvData q_ab) SendAgain true); EvFlush Client; EvDeliver Server qio0;
   EvCallback Server 0 (mkIO ConnDone RecvAgain (SendAccept 2) true)].
(* orderly close from both sides, handlers dropped *)
Definition q_close : list event :=
  [EvCallback Client 0 (mkIO ConnDone RecvEof SendAgain true); EvFlush Client; EvDeliver Server qio0;
   EvCallback Server 0 qio0;
   EvCallback Server 0 (mkIO ConnDone RecvEof SendAgain true); EvFlush Server; EvDeliver Client qio0;
   EvCallback Client 0 qio0; EvRemove Client 0; EvRemove Server 0].
(* instead: the application resets its connection (recv fails); the client's handler
   sends EOF in the callback and STOP_SENDING from pre_select; both frames reach the server *)
Definition q_reset : list event :=
  [EvCallback Client 0 (mkIO ConnDone RecvErr SendAgain true); EvPreSelect Client 0;
   EvFlush Client; EvFlush Client; EvDeliver Server qio0; EvDeliver Server qio0].

Definition quiet_after_run (evs : list event) : bool :=
  match run (world0 65535 32768) evs with
  | Ok w => quiescent_eagerb w && negb (w_stale w)
  | Crash _ => false
  end.

Example quiet_ex_idle : quiet_after_run q_open = true.
Proof. vm_compute. reflexivity. Qed.

Example quiet_ex_transfer :
  quiet_after_run (q_open ++ q_data) = true /\
  match run (world0 65535 32768) (q_open ++ q_data) with
  | Ok w => dst_written w 0 = q_ab /\ app_read w 0 = q_ab
  | Crash _ => False
  end.
Proof. vm_compute. auto. Qed.

(* data still in the client's queue: not quiescent *)
Example quiet_ex_pending :
  quiet_after_run (q_open ++ [EvCallback Client 0 (mkIO ConnDone (RecvData q_ab) SendAgain true)]) = false.
Proof. vm_compute. reflexivity. Qed.

Example quiet_ex_closed : quiet_after_run (q_open ++ q_data ++ q_close) = true.
Proof. vm_compute. reflexivity. Qed.

(* F20: after the reset the state is quiescent, both handlers are still run by the
   loop (ok = True, not dropped), and both wait for nothing *)
Example quiet_ex_f20 :
  match run (world0 65535 32768) (q_open ++ q_data ++ q_reset) with
  | Ok w =>
    quiescent_eagerb w = true /\ w_stale w = false /\
    exists pc ps, e_prox (w_cl w) 0 = Some pc /\ e_prox (w_sv w) 0 = Some ps /\
      active pc = true /\ active ps = true /\
      pre_ws Client 0 pc (e_mux (w_cl w)) = [] /\ pre_ws Server 0 ps (e_mux (w_sv w)) = [] /\
      finished_test (pre_p Client 0 pc (e_mux (w_cl w))) = true /\
      finished_test (pre_p Server 0 ps (e_mux (w_sv w))) = true /\
      (* the destination socket was never shut down: the flow is half-open for good *)
      s_sw (p_s ps) = false
  | Crash _ => False
  end.
Proof. vm_compute. splits; auto. eexists. eexists. splits; reflexivity. Qed.

(* ================================================================== *)
(* 12. Statements proposed for Props/C01.v, C02.v, C09.v                *)
(* ================================================================== *)

Lemma run_reachable maxc lbs evs w : run (world0 maxc lbs) evs = Ok w -> reachable maxc lbs w.
Proof. intros H. exists evs. exact H. Qed.

Lemma run_quiescent maxc lbs evs w : run (world0 maxc lbs) evs = Ok w -> quiescentb w = true -> quiescent w.
Proof.
  intros H Hq. apply quiescentb_spec; [|exact Hq]. exact (run_Winv evs _ _ (Winv_world0 maxc lbs) H).
Qed.

(* --- C09 --- *)
(* While an end is paused by latency control (too_full), its round-trip probe is
   outstanding: the PING 'rttest' is in its queue or on the link to the peer, or the
   PONG 'rttest' is in the peer's queue or on the link back.  All runs, all I/O. *)
Theorem q_c09_outstanding : forall maxc lbs evs w sd,
  run (world0 maxc lbs) evs = Ok w -> tf w sd = true -> outstanding w sd = true.
Proof. intros maxc lbs evs w sd H. exact (outstanding_inv maxc lbs w sd (run_reachable _ _ _ _ H)). Qed.
Print Assumptions q_c09_outstanding.

(* ... hence the tunnel is never wedged: with all queues and links drained no end is paused. *)
Theorem q_c09_never_wedged : forall maxc lbs evs w,
  run (world0 maxc lbs) evs = Ok w ->
  w_cs w = [] -> w_sc w = [] -> outq w Client = [] -> outq w Server = [] ->
  tf w Client = false /\ tf w Server = false.
Proof.
  intros maxc lbs evs w H A B C D.
  assert (P : forall rs, path w rs = []).
  { intros rs. unfold path, inlink. unfold outq in C, D. destruct rs; cbn [get_end] in *; rewrite ?A, ?B, ?C, ?D; reflexivity. }
  split; apply (paths_empty_not_paused maxc lbs w (run_reachable _ _ _ _ H)); apply P.
Qed.
Print Assumptions q_c09_never_wedged.

(* --- C02 --- *)
(* No undelivered data while nothing is pending: in a quiescent state, for every flow
   and direction whose receiving socket has not been shut down and is connected, the
   peer's mux buffer, the frames on the way and the reading end's buffer are empty,
   and everything read has been handed to the receiving socket. *)
Theorem q_c02_no_stuck_data : forall maxc lbs evs w rs f,
  run (world0 maxc lbs) evs = Ok w -> w_stale w = false -> quiescentb w = true ->
  let v := view_of w rs f in
  vfz v = false -> s_conn (pS (wprox w rs f)) = false ->
  vY v = [] /\ vP v = [] /\ flat (vX v) = [] /\ vD v = vA v.
Proof.
  intros maxc lbs evs w rs f H Hs Hq.
  exact (quiet_no_data maxc lbs w rs f (run_reachable _ _ _ _ H) Hs (run_quiescent _ _ _ _ H Hq)).
Qed.
Print Assumptions q_c02_no_stuck_data.

(* Which handlers a quiescent state can contain (the F20 shape is alternative 4). *)
Theorem q_c02_quiet_handler_shape : forall maxc lbs evs w sd fid p,
  run (world0 maxc lbs) evs = Ok w -> quiescentb w = true ->
  e_prox (get_end w sd) fid = Some p -> active p = true ->
  let x := e_mux (get_end w sd) in
  (In WSockR (pre_ws sd fid p x) /\ s_sr (p_s (pre_p sd fid p x)) = false) \/
  (In WMuxR (pre_ws sd fid p x) /\ m_sr (p_m (pre_p sd fid p x)) = false) \/
  s_conn (p_s p) = true \/
  (pre_ws sd fid p x = [] /\ finished_test (pre_p sd fid p x) = true).
Proof.
  intros maxc lbs evs w sd fid p H Hq.
  exact (quiet_live_proxy_shape maxc lbs w sd fid p (run_reachable _ _ _ _ H) (run_quiescent _ _ _ _ H Hq)).
Qed.
Print Assumptions q_c02_quiet_handler_shape.

(* No stuck state, with exactly the F20 shape excluded (it is inside waits_outside). *)
Theorem q_c02_no_stuck_state_partial : forall maxc lbs evs w sd f p,
  run (world0 maxc lbs) evs = Ok w -> w_stale w = false -> quiescentb w = true ->
  e_prox (get_end w sd) f = Some p -> active p = true ->
  waits_outside sd f p (e_mux (get_end w sd)) \/
  (m_sw (p_m p) = true /\ m_sr (p_m p) = false /\
   exists q, e_prox (get_end w (other sd)) f = Some q /\ active q = true /\
             m_sr (p_m q) = true /\ m_sw (p_m q) = false /\
             waits_outside (other sd) f q (e_mux (get_end w (other sd)))).
Proof.
  intros maxc lbs evs w sd f p H Hs Hq.
  exact (quiet_wait_chain maxc lbs w sd f p (run_reachable _ _ _ _ H) Hs (run_quiescent _ _ _ _ H Hq)).
Qed.
Print Assumptions q_c02_no_stuck_state_partial.

(* The unrestricted sentence ("every handler of a quiescent state waits for something")
   is false of the code: finding F20. *)
Theorem q_c02_no_stuck_state_refuted :
  ~ (forall maxc lbs evs w sd fid p,
       run (world0 maxc lbs) evs = Ok w -> w_stale w = false -> quiescentb w = true ->
       e_prox (get_end w sd) fid = Some p -> active p = true ->
       pre_ws sd fid p (e_mux (get_end w sd)) <> []).
Proof.
  intros C. pose proof quiet_ex_f20 as E.
  destruct (run (world0 65535 32768) (q_open ++ q_data ++ q_reset)) as [w|] eqn:Hr; [|exact E].
  destruct E as (Q & Hs & pc & ps & E1 & _ & A1 & _ & W1 & _).
  unfold quiescent_eagerb in Q. apply andb_true_iff in Q. destruct Q as [Q _].
  apply andb_true_iff in Q. destruct Q as [Q _].
  exact (C 65535 32768 _ w Client 0 pc Hr Hs Q E1 A1 W1).
Qed.
Print Assumptions q_c02_no_stuck_state_refuted.

(* --- C01 --- *)
(* Safety form of eventual delivery: once nothing is pending, every byte read from the
   application has been handed to the destination socket (and vice versa), unless a
   socket call of the receiving end failed (abort) or its connect is still pending. *)
Theorem q_c01_quiescent_all_delivered : forall maxc lbs evs w f,
  run (world0 maxc lbs) evs = Ok w -> w_stale w = false -> quiescentb w = true ->
  (s_conn (pS (sv w f)) = false -> s_fault (pS (sv w f)) = false -> dst_written w f = app_read w f) /\
  (s_conn (pS (cl w f)) = false -> s_fault (pS (cl w f)) = false -> app_written w f = dst_read w f).
Proof.
  intros maxc lbs evs w f H Hs Hq.
  pose proof (run_reachable _ _ _ _ H) as Hr. pose proof (run_quiescent _ _ _ _ H Hq) as Q. split.
  - exact (quiet_all_delivered maxc lbs w Client f Hr Hs Q).
  - exact (quiet_all_delivered maxc lbs w Server f Hr Hs Q).
Qed.
Print Assumptions q_c01_quiescent_all_delivered.

(* an end that is paused is never part of a quiescent state *)
Theorem q_c09_paused_not_quiescent : forall maxc lbs evs w sd,
  run (world0 maxc lbs) evs = Ok w -> tf w sd = true -> quiescentb w = false.
Proof.
  intros maxc lbs evs w sd H Ht. destruct (quiescentb w) eqn:Hq; [|reflexivity].
  rewrite (quiescent_not_paused maxc lbs w (run_reachable _ _ _ _ H) (run_quiescent _ _ _ _ H Hq) sd) in Ht.
  discriminate.
Qed.
Print Assumptions q_c09_paused_not_quiescent.

(* ================================================================== *)
(* 13. The drain statement (PROVED in Proofs/Stream_drain.v: eager_drain)  *)
(* ================================================================== *)

(* Liveness.  The theorems above say what holds ONCE the tunnel is quiescent; that it becomes
   quiescent is the statement below, proved in Proofs/Stream_drain.v (theorem eager_drain).  The missing half of C01 "eventually delivered",
   C02 "no state reachable under a fair schedule is stuck" and C09 "every such request is
   eventually answered" is the following drain statement: from every reachable state the
   eager environment (every recv answers EAGAIN — nothing more to deliver —, every send accepts
   everything, every connect completes, pipes always transfer) can run the two loops to a
   quiescent state without any new input.  Together with q_c01_quiescent_all_delivered,
   q_c02_no_stuck_data and q_c09_paused_not_quiescent it gives the three sentences.
   Missing: a variant that every eager micro-step of a non-quiescent state decreases
   (bytes in buffers x remaining hops, frames x remaining hops with a PING counting for
   its PONG as well, handlers not yet finished), the no-crash argument along the drain
   (Stream_assert.connect_assert_never_fires covers the CONNECT assertion only while
   w_stale stays false, and the drain itself may deliver a stale frame), and — for
   LATENCY_BUFFER_SIZE < 6 — the restriction that the drain does not call
   check_fullness after every PONG (observation O1 of DESIGN.md: the 6-byte PONG
   alone exceeds the budget, so PING/PONG would circulate for ever). *)
Definition eager_io (o : io) : Prop :=
  io_conn o = ConnDone /\ io_recv o = RecvAgain /\ (exists k, io_send o = SendAccept k /\ 65536 <= k) /\ io_shut_ok o = true.

Definition eager_event (ev : event) : Prop :=
  match ev with
  | EvAccept _ => False                       (* no new input *)
  | EvCallback _ _ o => eager_io o
  | EvDeliver _ o => eager_io o
  | EvCheckFull _ => False
  | _ => True
  end.

Definition eager_drain_full : Prop :=
  forall maxc lbs evs w, run (world0 maxc lbs) evs = Ok w -> w_stale w = false ->
  exists drain, Forall eager_event drain /\
    match run w drain with
    | Ok w' => w_stale w' = true \/ quiescentb w' = true
    | Crash _ => False
    end.
