(* Props/C15.v — C15: every valid option combination yields a consistent
   interception plan.  Statements only; proofs are `exact <lemma>` (or a few
   lines of glue) into Proofs/Startup_lemmas.v, each followed by Print Assumptions.

   `startup` is the model of client.main with the repairs pending_fixes/F1 F2
   F14 F15 F21 applied, `startup_asfound` the code as found (Model/Startup.v).
   cfg ranges over ALL feature records / listen forms / name-server and subnet
   lists / user+group lookups, env over ALL busy-port predicates. *)
From Coq Require Import List NArith Ascii Bool String.
From SV Require Import Lib.Bytes Model.Startup Model.StartupMethods Proofs.Startup_lemmas Gen.Consts.
Import ListNotations.
Local Open Scope N_scope.

(* (1) Start-up never ends in an internal error: for every configuration whose
       method offers IPv4 (all shipped ones do, see c15_shipped_methods) and every
       environment, the outcome is an explanatory Fatal or a Plan — never a
       Python exception other than Fatal, never a raw OSError. *)
Theorem c15_no_internal_error : forall c e,
  f_ipv4 (c_feat c) = true ->
  (forall x, startup c e <> Crash x) /\ (forall n, startup c e <> OsError n).
Proof.
  intros c e H. pose proof (startup_no_crash c e H) as K.
  split; intros x E; rewrite E in K; exact K.
Qed.
Print Assumptions c15_no_internal_error.

(* (2) Whatever plan is handed over is consistent (Model/Startup.v `consistent`:
       default listen addresses are loopback; each listen address is excluded
       unless that very address is an include; IPv6 entries present <-> IPv6
       active; every family with subnets / name servers has bound listeners on
       the reported ports; DNS port differs from both TCP ports; ports in range;
       nothing requested that the method cannot do). *)
Theorem c15_consistent : forall c e p,
  cfg_ok c -> startup c e = Plan p -> consistent c e p.
Proof. exact startup_consistent. Qed.
Print Assumptions c15_consistent.

(* (2b) the hypotheses of (1) and (2) hold for each of the five shipped methods,
        and their default listen addresses are the loopback ones. *)
Theorem c15_shipped_methods : forall m f, In (m, f) method_features ->
  f_ipv4 f = true /\ f_loopback f = true.
Proof. exact shipped_methods_ok. Qed.
Print Assumptions c15_shipped_methods.

(* (3) every method name in the manual's --method list is accepted by the option
       parser — checked against options.method_choices as regenerated from /repo. *)
Theorem c15_methods_documented : forall m,
  In m documented_methods -> accepted_by method_choices_b m = true.
Proof.
  assert (H : forallb (accepted_by method_choices_b) documented_methods = true) by (vm_compute; reflexivity).
  intros m Hin. exact (proj1 (forallb_forall _ _) H m Hin).
Qed.
Print Assumptions c15_methods_documented.

(* the errno used by the model is this platform's EADDRINUSE (regenerated constant) *)
Theorem c15_errno_matches : Startup.EADDRINUSE = Consts.EADDRINUSE.
Proof. reflexivity. Qed.
Print Assumptions c15_errno_matches.

(* ---- the code as found falsifies (1), (2) and (3): one witness per defect ---- *)
(* F1: both listen ports explicit -> UnboundLocalError (used_ports) *)
Theorem c15_no_internal_error_refuted_F1 : exists c e,
  cfg_ok c /\ startup_asfound c e = Crash UnboundLocalError.
Proof. exists w_F1, free_env. split; [exact w_F1_ok|exact asfound_F1]. Qed.
Print Assumptions c15_no_internal_error_refuted_F1.

(* F14: IPv6-only --listen -> TypeError (listenip_v4[0] on None) *)
Theorem c15_no_internal_error_refuted_F14 : exists c e,
  cfg_ok c /\ startup_asfound c e = Crash TypeError.
Proof. exists w_F14, free_env. split; [exact w_F14_ok|exact asfound_F14]. Qed.
Print Assumptions c15_no_internal_error_refuted_F14.

(* F21: explicitly requested port busy -> raw OSError(EADDRINUSE) re-raised *)
Theorem c15_no_internal_error_refuted_F21 : exists c e,
  cfg_ok c /\ startup_asfound c e = OsError Startup.EADDRINUSE.
Proof. exists w_F21, env_F21. split; [exact w_F21_ok|exact asfound_F21]. Qed.
Print Assumptions c15_no_internal_error_refuted_F21.

(* F21, DNS search: every candidate port already tried -> UnboundLocalError (dns_listener) *)
Theorem c15_no_internal_error_refuted_F21_dns : exists c e,
  cfg_ok c /\ startup_asfound c e = Crash UnboundLocalError /\ c_listen6 c = LNone /\ c_listen4 c = LAuto.
Proof. exists w_F21b, env_F21b. split; [exact w_F21b_ok|]. split; [exact asfound_F21b|split; reflexivity]. Qed.
Print Assumptions c15_no_internal_error_refuted_F21_dns.

(* F2: an explicit TCP port inside the DNS search range is handed out again as DNS port *)
Theorem c15_consistent_refuted_F2 : exists c e p,
  cfg_ok c /\ startup_asfound c e = Plan p /\ p_dport V4 p <> 0 /\ p_dport V4 p = p_rport V4 p.
Proof.
  destruct asfound_F2 as (p & E & D & R & _). exists w_F2, free_env, p.
  split; [exact w_F2_ok|]. split; [exact E|]. cbn [p_dport p_rport]. rewrite D, R. split; [discriminate|reflexivity].
Qed.
Print Assumptions c15_consistent_refuted_F2.

(* F15: --group reaches a method without group support *)
Theorem c15_consistent_refuted_F15 : exists c e p,
  cfg_ok c /\ startup_asfound c e = Plan p /\ p_group p <> None /\ f_group (c_feat c) = false.
Proof.
  destruct asfound_F15 as (p & E & G & F). exists w_F15, free_env, p.
  split; [exact w_F15_ok|]. split; [exact E|]. rewrite G. split; [discriminate|exact F].
Qed.
Print Assumptions c15_consistent_refuted_F15.

(* F11: `nft` is documented but was missing from options.method_choices as found *)
Theorem c15_methods_documented_refuted_F11 : exists m,
  In m documented_methods /\ accepted_by method_choices_asfound m = false.
Proof. exists (bn "nft"%string). split; [vm_compute; tauto|vm_compute; reflexivity]. Qed.
Print Assumptions c15_methods_documented_refuted_F11.

(* every repair is needed on its own (all others applied, the witness still fails) *)
Theorem c15_each_repair_needed :
  startup_gen (only_without 1) w_F1 free_env = Crash UnboundLocalError /\
  startup_gen (only_without 14) w_F14 free_env = Crash TypeError /\
  startup_gen (only_without 21) w_F21 env_F21 = OsError Startup.EADDRINUSE /\
  (exists p, startup_gen (only_without 2) w_F2 free_env = Plan p /\ p_dport4 p = p_rport4 p) /\
  (exists p, startup_gen (only_without 15) w_F15 free_env = Plan p /\ p_group p = Some 1000).
Proof. exact (conj needs_F1 (conj needs_F14 (conj needs_F21 (conj needs_F2 needs_F15)))). Qed.
Print Assumptions c15_each_repair_needed.

(* ---- non-vacuity: the hypotheses are satisfiable and plans do come out ---- *)
Example c15_ex_full : exists p, cfg_ok w_full /\ startup w_full env_busy_top = Plan p /\
  p_rport6 p = 12296 /\ p_rport4 p = 12296 /\ p_dport6 p = 12295 /\ p_dport4 p = 12295 /\ p_udp p = true.
Proof.
  destruct full_plan as (p & E & A & B & C & D & U & _). exists p.
  split; [exact w_full_ok|]. repeat split; assumption.
Qed.
Example c15_ex_repaired_F1 : exists p, startup w_F1 free_env = Plan p /\ p_rport6 p = 5006 /\ p_rport4 p = 5004.
Proof. exact repaired_F1. Qed.
Example c15_ex_repaired_F2 : exists p, startup w_F2 free_env = Plan p /\ p_rport4 p = 12299 /\ p_dport4 p = 12298.
Proof. exact repaired_F2. Qed.
Example c15_ex_repaired_F14 : exists p, startup w_F14 free_env = Plan p /\ p_rport6 p = 12300 /\ p_rport4 p = 0 /\
  p_tcp4 p = None /\ p_excludes p = [host_exclude V6 LOOP6].
Proof. exact repaired_F14. Qed.
Example c15_ex_repaired_F14_v4_subnets : startup (with_includes w_F14 [net10]) free_env = Fatal FV4SubnetsNoListen.
Proof. exact repaired_F14_v4_subnets. Qed.
Example c15_ex_repaired_F15 : startup w_F15 free_env = Fatal (FFeature KGroup).
Proof. exact repaired_F15. Qed.
Example c15_ex_repaired_F21 : startup w_F21 env_F21 = Fatal FPortsBusy.
Proof. exact repaired_F21. Qed.
Example c15_ex_repaired_F21_dns : startup w_F21b env_F21b = Fatal FDnsPortsBusy.
Proof. exact repaired_F21b. Qed.
