(* Props/C15.v — C15: every valid option combination yields a consistent
   interception plan.  Statements only; proofs are `exact <lemma>` (or a few
   lines of glue) into Proofs/Startup_lemmas.v, each followed by Print Assumptions.

   `startup_full` is the model of client.main with the repairs pending_fixes/F1 F2
   F14 F15 F21 F131 applied, `startup_asfound_full` the code as found
   (Model/Startup.v).  cfg ranges over ALL feature records / listen forms /
   name-server and subnet lists / user+group lookups, env over ALL busy-port
   predicates, renv over ALL ways the kernel may refuse a bind() with another
   errno (address not local, port not permitted, invalid address, ...);
   `startup` / `startup_asfound` are the same over kernels that never refuse. *)
From Coq Require Import List NArith Ascii Bool String.
From SV Require Import Lib.Bytes Model.Startup Model.StartupMethods Proofs.Startup_lemmas Gen.Consts.
Import ListNotations.
Local Open Scope N_scope.

(* (1) Start-up never ends in an internal error: for every configuration whose
       method offers IPv4 (all shipped ones do, see c15_shipped_methods) and every
       environment, the outcome is an explanatory Fatal or a Plan — never a
       Python exception other than Fatal, never a raw OSError. *)
Theorem c15_no_internal_error : forall c e rf,
  f_ipv4 (c_feat c) = true ->
  (forall x, startup_full c e rf <> Crash x) /\ (forall n, startup_full c e rf <> OsError n).
Proof.
  intros c e rf H. pose proof (startup_full_no_crash c e rf H) as K.
  split; intros x E; rewrite E in K; exact K.
Qed.
Print Assumptions c15_no_internal_error.

(* the same over kernels whose only bind failure is EADDRINUSE (the statement as first proved) *)
Corollary c15_no_internal_error_busy_only : forall c e,
  f_ipv4 (c_feat c) = true ->
  (forall x, startup c e <> Crash x) /\ (forall n, startup c e <> OsError n).
Proof. intros c e. exact (c15_no_internal_error c e no_refusal). Qed.
Print Assumptions c15_no_internal_error_busy_only.

(* (2) Whatever plan is handed over is consistent (Model/Startup.v `consistent`:
       default listen addresses are loopback; each listen address is excluded
       unless that very address is an include; IPv6 entries present <-> IPv6
       active; every family with subnets / name servers has bound listeners on
       the reported ports; DNS port differs from both TCP ports; ports in range;
       nothing requested that the method cannot do). *)
Theorem c15_consistent : forall c e rf p,
  cfg_ok c -> startup_full c e rf = Plan p -> consistent c (bind_fails e rf) p.
Proof. exact startup_full_consistent. Qed.
Print Assumptions c15_consistent.

Corollary c15_consistent_busy_only : forall c e p,
  cfg_ok c -> startup c e = Plan p -> consistent c e p.
Proof. exact startup_consistent. Qed.
Print Assumptions c15_consistent_busy_only.

(* (2b) the hypotheses of (1) and (2) hold for each of the five shipped methods,
        and their default listen addresses are the loopback ones. *)
Theorem c15_shipped_methods : forall m f, In (m, f) method_features ->
  f_ipv4 f = true /\ f_loopback f = true.
Proof. exact shipped_methods_ok. Qed.
Print Assumptions c15_shipped_methods.

(* (3) every method name in the manual's --method list is accepted by the option
       parser — checked against options.method_choices as regenerated from /repo. *)
Theorem c15_methods_documented : forall m,
  In m documented_methods -> accepted_by method_choices_b m = true.
Proof.
  assert (H : forallb (accepted_by method_choices_b) documented_methods = true) by (vm_compute; reflexivity).
  intros m Hin. exact (proj1 (forallb_forall _ _) H m Hin).
Qed.
Print Assumptions c15_methods_documented.

(* the errno used by the model is this platform's EADDRINUSE (regenerated constant) *)
Theorem c15_errno_matches : Startup.EADDRINUSE = Consts.EADDRINUSE /\ Startup.EADDRNOTAVAIL = Consts.EADDRNOTAVAIL.
Proof. split; reflexivity. Qed.
Print Assumptions c15_errno_matches.

(* ---- the code as found falsifies (1), (2) and (3): one witness per defect ---- *)
(* F1: both listen ports explicit -> UnboundLocalError (used_ports) *)
Theorem c15_no_internal_error_refuted_F1 : exists c e,
  cfg_ok c /\ startup_asfound c e = Crash UnboundLocalError.
Proof. exists w_F1, free_env. split; [exact w_F1_ok|exact asfound_F1]. Qed.
Print Assumptions c15_no_internal_error_refuted_F1.

(* F14: IPv6-only --listen -> TypeError (listenip_v4[0] on None) *)
Theorem c15_no_internal_error_refuted_F14 : exists c e,
  cfg_ok c /\ startup_asfound c e = Crash TypeError.
Proof. exists w_F14, free_env. split; [exact w_F14_ok|exact asfound_F14]. Qed.
Print Assumptions c15_no_internal_error_refuted_F14.

(* F21: explicitly requested port busy -> raw OSError(EADDRINUSE) re-raised *)
Theorem c15_no_internal_error_refuted_F21 : exists c e,
  cfg_ok c /\ startup_asfound c e = OsError Startup.EADDRINUSE.
Proof. exists w_F21, env_F21. split; [exact w_F21_ok|exact asfound_F21]. Qed.
Print Assumptions c15_no_internal_error_refuted_F21.

(* F21, DNS search: every candidate port already tried -> UnboundLocalError (dns_listener) *)
Theorem c15_no_internal_error_refuted_F21_dns : exists c e,
  cfg_ok c /\ startup_asfound c e = Crash UnboundLocalError /\ c_listen6 c = LNone /\ c_listen4 c = LAuto.
Proof. exists w_F21b, env_F21b. split; [exact w_F21b_ok|]. split; [exact asfound_F21b|split; reflexivity]. Qed.
Print Assumptions c15_no_internal_error_refuted_F21_dns.

(* F131: a listen address that is not the machine's / a port the process may not bind -> the
   kernel's errno (EADDRNOTAVAIL 99, EACCES 13) re-raised raw, in the redirector search ... *)
Theorem c15_no_internal_error_refuted_F131 : exists c e rf n,
  cfg_ok c /\ startup_asfound_full c e rf = OsError n /\ n <> Startup.EADDRINUSE.
Proof. exists w_F131, free_env, rf_F131, 99. split; [exact w_F131_ok|]. split; [exact asfound_F131|discriminate]. Qed.
Print Assumptions c15_no_internal_error_refuted_F131.

(* ... and in the DNS listener search *)
Theorem c15_no_internal_error_refuted_F131_dns : exists c e rf n,
  cfg_ok c /\ startup_asfound_full c e rf = OsError n /\ n <> Startup.EADDRINUSE /\ c_ns_hosts c <> [].
Proof.
  exists w_F131c, free_env, rf_F131c, 99. split; [exact w_F131c_ok|]. split; [exact asfound_F131c|].
  split; discriminate.
Qed.
Print Assumptions c15_no_internal_error_refuted_F131_dns.

(* F2: an explicit TCP port inside the DNS search range is handed out again as DNS port *)
Theorem c15_consistent_refuted_F2 : exists c e p,
  cfg_ok c /\ startup_asfound c e = Plan p /\ p_dport V4 p <> 0 /\ p_dport V4 p = p_rport V4 p.
Proof.
  destruct asfound_F2 as (p & E & D & R & _). exists w_F2, free_env, p.
  split; [exact w_F2_ok|]. split; [exact E|]. cbn [p_dport p_rport]. rewrite D, R. split; [discriminate|reflexivity].
Qed.
Print Assumptions c15_consistent_refuted_F2.

(* F15: --group reaches a method without group support *)
Theorem c15_consistent_refuted_F15 : exists c e p,
  cfg_ok c /\ startup_asfound c e = Plan p /\ p_group p <> None /\ f_group (c_feat c) = false.
Proof.
  destruct asfound_F15 as (p & E & G & F). exists w_F15, free_env, p.
  split; [exact w_F15_ok|]. split; [exact E|]. rewrite G. split; [discriminate|exact F].
Qed.
Print Assumptions c15_consistent_refuted_F15.

(* F11: `nft` is documented but was missing from options.method_choices as found *)
Theorem c15_methods_documented_refuted_F11 : exists m,
  In m documented_methods /\ accepted_by method_choices_asfound m = false.
Proof. exists (bn "nft"%string). split; [vm_compute; tauto|vm_compute; reflexivity]. Qed.
Print Assumptions c15_methods_documented_refuted_F11.

(* every repair is needed on its own (all others applied, the witness still fails) *)
Theorem c15_each_repair_needed :
  startup_gen (only_without 1) w_F1 free_env no_refusal = Crash UnboundLocalError /\
  startup_gen (only_without 14) w_F14 free_env no_refusal = Crash TypeError /\
  startup_gen (only_without 21) w_F21 env_F21 no_refusal = OsError Startup.EADDRINUSE /\
  (exists p, startup_gen (only_without 2) w_F2 free_env no_refusal = Plan p /\ p_dport4 p = p_rport4 p) /\
  (exists p, startup_gen (only_without 15) w_F15 free_env no_refusal = Plan p /\ p_group p = Some 1000) /\
  startup_gen (only_without 131) w_F131 free_env rf_F131 = OsError 99.
Proof. exact (conj needs_F1 (conj needs_F14 (conj needs_F21 (conj needs_F2 (conj needs_F15 needs_F131))))). Qed.
Print Assumptions c15_each_repair_needed.

(* ---- non-vacuity: the hypotheses are satisfiable and plans do come out ---- *)
Example c15_ex_full : exists p, cfg_ok w_full /\ startup w_full env_busy_top = Plan p /\
  p_rport6 p = 12296 /\ p_rport4 p = 12296 /\ p_dport6 p = 12295 /\ p_dport4 p = 12295 /\ p_udp p = true.
Proof.
  destruct full_plan as (p & E & A & B & C & D & U & _). exists p.
  split; [exact w_full_ok|]. repeat split; assumption.
Qed.
Example c15_ex_repaired_F1 : exists p, startup w_F1 free_env = Plan p /\ p_rport6 p = 5006 /\ p_rport4 p = 5004.
Proof. exact repaired_F1. Qed.
Example c15_ex_repaired_F2 : exists p, startup w_F2 free_env = Plan p /\ p_rport4 p = 12299 /\ p_dport4 p = 12298.
Proof. exact repaired_F2. Qed.
Example c15_ex_repaired_F14 : exists p, startup w_F14 free_env = Plan p /\ p_rport6 p = 12300 /\ p_rport4 p = 0 /\
  p_tcp4 p = None /\ p_excludes p = [host_exclude V6 LOOP6].
Proof. exact repaired_F14. Qed.
Example c15_ex_repaired_F14_v4_subnets : startup (with_includes w_F14 [net10]) free_env = Fatal FV4SubnetsNoListen.
Proof. exact repaired_F14_v4_subnets. Qed.
Example c15_ex_repaired_F15 : startup w_F15 free_env = Fatal (FFeature KGroup).
Proof. exact repaired_F15. Qed.
Example c15_ex_repaired_F21 : startup w_F21 env_F21 = Fatal FPortsBusy.
Proof. exact repaired_F21. Qed.
Example c15_ex_repaired_F21_dns : startup w_F21b env_F21b = Fatal FDnsPortsBusy.
Proof. exact repaired_F21b. Qed.
Example c15_ex_repaired_F131 : startup_full w_F131 free_env rf_F131 = Fatal FBindRefused.
Proof. exact repaired_F131. Qed.
Example c15_ex_repaired_F131_privileged_port : startup_full w_F131b free_env rf_unpriv = Fatal FBindRefused.
Proof. exact repaired_F131b. Qed.
Example c15_ex_repaired_F131_dns : startup_full w_F131c free_env rf_F131c = Fatal FDnsBindRefused.
Proof. exact repaired_F131c. Qed.
(* IPv6 switched off in the kernel is explained by the code as found already; a refusal at an
   address start-up never binds changes nothing *)
Example c15_ex_no_v6 : startup_asfound_full (w_base feat_nat LAuto LAuto) free_env rf_no_v6 = Fatal FV6Unavailable.
Proof. exact (proj1 no_v6_explained). Qed.
Example c15_ex_refusal_elsewhere : exists p, startup_full w_F1 free_env rf_F131 = Plan p /\ p_rport4 p = 5004.
Proof. exact refusal_elsewhere. Qed.
