(* Props/C07.v — C07: tunnel messages and the start-up handshake survive any
   segmentation.  Statements only; every proof is `exact <lemma>` into
   Proofs/Wire_lemmas.v, followed by Print Assumptions. *)
From Coq Require Import List NArith Ascii Bool.
From SV Require Import Lib.Bytes Model.Wire Proofs.Wire_lemmas Gen.Consts Model.WireStart Proofs.WireStart_lemmas.
Import ListNotations.
Local Open Scope N_scope.

(* (1) encode ; decode = id for every channel, command < 2^16 and every payload
       of length 0..65535; such frames are always encodable. *)
Theorem c07_decode_encode : forall f,
  frame_ok f = true ->
  exists b, encode f = EncOk b /\ decode b = ([f], [], RxOk).
Proof.
  intros f H. destruct (encode_frame_ok f H) as [b Hb].
  exists b. split; [exact Hb|]. exact (decode_encode f b Hb).
Qed.
Print Assumptions c07_decode_encode.

(* (1b) ... also when the frame is followed by arbitrary further bytes, i.e.
        when it ends exactly at, before or after a read boundary. *)
Theorem c07_decode_encode_stream : forall f b rest,
  encode f = EncOk b ->
  decode (b ++ rest) = let '(fs, r, st) := decode rest in (f :: fs, r, st).
Proof. exact decode_encode_app. Qed.
Print Assumptions c07_decode_encode_stream.

(* (2) The receiver (Mux.fill + Mux.handle, with its cached `want`) fed any
       cutting of a byte stream into reads dispatches exactly the frames that
       the whole stream denotes, hits the magic-number assertion iff the stream
       does, and ends with the same residual buffer. *)
Theorem c07_rx_segmentation : forall chunks,
  let '(fs, st, s) := rx_feed_all ([], 0) chunks in
  let '(fs', r, s') := decode (concat chunks) in
  fs = fs' /\ s = s' /\ (s = RxOk -> st = (r, want_of r)).
Proof. intros chunks. exact (rx_feed_all_decode chunks ([], 0) rx_inv_init). Qed.
Print Assumptions c07_rx_segmentation.

Corollary c07_rx_cut_independent : forall c1 c2,
  concat c1 = concat c2 ->
  fst (fst (rx_feed_all ([], 0) c1)) = fst (fst (rx_feed_all ([], 0) c2)) /\
  snd (rx_feed_all ([], 0) c1) = snd (rx_feed_all ([], 0) c2).
Proof.
  intros c1 c2 H.
  pose proof (c07_rx_segmentation c1) as H1. pose proof (c07_rx_segmentation c2) as H2.
  rewrite H in H1.
  destruct (rx_feed_all ([], 0) c1) as [[f1 s1] t1].
  destruct (rx_feed_all ([], 0) c2) as [[f2 s2] t2].
  destruct (decode (concat c2)) as [[f r] t].
  destruct H1 as (-> & -> & _). destruct H2 as (-> & -> & _). split; reflexivity.
Qed.
Print Assumptions c07_rx_cut_independent.

(* (3) Sender: for every sequence of send() and flush() calls, with the OS
       accepting any number of bytes (or EAGAIN) at each flush, the bytes on the
       pipe followed by the bytes still queued are exactly the concatenation
       of the encodings of the accepted messages, in order. *)
Theorem c07_tx_partial : forall ops,
  let '(out, wire, sent) := tx_run ops in
  wire ++ concat out = encode_all sent /\ Forall encodable sent.
Proof. intros ops. exact (tx_run_inv ops). Qed.
Print Assumptions c07_tx_partial.

(* (4) Composition: a Mux-to-Mux link is a reliable FIFO of messages whatever
       the partial writes on one side and the read boundaries on the other. *)
Theorem c07_link_fifo : forall ops chunks,
  let '(out, wire, sent) := tx_run ops in
  concat chunks = wire ->
  let '(fs, st, s) := rx_feed_all ([], 0) chunks in
  s = RxOk /\ prefix fs sent /\ (out = [] -> fs = sent /\ st = ([], 0)).
Proof.
  intros ops chunks.
  pose proof (tx_run_inv ops) as Hinv.
  destruct (tx_run ops) as [[out wire] sent]. destruct Hinv as [Hinv HF].
  intros Hc.
  pose proof (c07_rx_segmentation chunks) as Hseg. rewrite Hc in Hseg.
  pose proof (link_fifo_core wire (concat out) sent Hinv HF) as Hl.
  destruct (rx_feed_all ([], 0) chunks) as [[fs st] s].
  destruct (decode wire) as [[fs' r] s'].
  destruct Hseg as (-> & -> & Hst). destruct Hl as (-> & Hp & Hall).
  split; [reflexivity|]. split; [exact Hp|].
  intros ->. destruct (Hall eq_refl) as [-> ->].
  split; [reflexivity|]. exact (Hst eq_refl).
Qed.
Print Assumptions c07_link_fifo.

(* (5) Handshake (client side, as repaired): whatever the delivery boundaries,
       the outcome is a function of the byte stream alone, and exactly the
       bytes after the synchronisation string are left for the multiplexer. *)
Theorem c07_handshake : forall chunks,
  Forall nonempty chunks ->
  fst (hs_run client_sync chunks) = fst (hs_spec client_sync (concat chunks)) /\
  concat (snd (hs_run client_sync chunks)) = snd (hs_spec client_sync (concat chunks)).
Proof. exact (hs_run_spec client_sync). Qed.
Print Assumptions c07_handshake.

(* (6) Arbitrary NUL-free noise before each of the two NUL bytes is skipped. *)
Theorem c07_handshake_noise : forall n1 n2 rest,
  nul_free n1 -> nul_free n2 ->
  hs_spec client_sync (n1 ++ NUL :: n2 ++ NUL :: client_sync ++ rest) = (true, rest).
Proof. exact (hs_spec_accepts client_sync). Qed.
Print Assumptions c07_handshake_noise.

(* (7) What the server writes first is accepted by the client (literals
       regenerated from /repo on every run). *)
Theorem c07_sync_literals : forall rest,
  hs_spec client_sync (server_sync ++ rest) = (true, rest).
Proof. intros rest. reflexivity. Qed.
Print Assumptions c07_sync_literals.

Theorem c07_consts :
  Consts.HDR_LEN = Wire.HDR_LEN /\ NoDup all_cmds /\ Forall (fun c => c < 65536) all_cmds.
Proof.
  split; [reflexivity|]. split.
  - repeat (constructor; [cbv; intuition discriminate|]). constructor.
  - repeat constructor.
Qed.
Print Assumptions c07_consts.

(* (8) The client as found (one read(12) on an unbuffered file) did depend on
       delivery boundaries: kept as the record of finding F12. *)
Theorem c07_handshake_single_read_refuted : exists chunks,
  Forall nonempty chunks /\
  fst (hs_run_single_read client_sync chunks) <> fst (hs_spec client_sync (concat chunks)).
Proof.
  exists [ NUL :: NUL :: firstn 4 client_sync ; skipn 4 client_sync ].
  split.
  - repeat constructor; discriminate.
  - vm_compute. discriminate.
Qed.
Print Assumptions c07_handshake_single_read_refuted.

(* Non-vacuity: concrete instances of the hypotheses above. *)
Example c07_ex_frame_ok :
  frame_ok (mkFrame 65535 CMD_TCP_DATA (repeat chS 300)) = true.
Proof. vm_compute. reflexivity. Qed.

Example c07_ex_link :
  let ops := [TxSend (mkFrame 1 CMD_TCP_DATA [chS; chS; chS]); TxFlush (Some 5);
              TxSend (mkFrame 0 CMD_PING []); TxFlush None; TxFlush (Some 6);
              TxFlush (Some 100)] in
  let '(out, wire, sent) := tx_run ops in
  out = [] /\ length wire = 19%nat /\ length sent = 2%nat /\
  fst (fst (rx_feed_all ([], 0) [firstn 3 wire; skipn 3 wire])) = sent.
Proof. vm_compute. repeat split. Qed.

(* (9) The sending side of the start-up (Model/WireStart.v).  server.main puts the
       synchronisation string on descriptor 1 through sys.stdout (BufferedWriter.flush
       repeats the raw write until nothing is left) before the multiplexer writes
       anything.  Whatever the descriptor takes per write (script: any positive or
       zero entries, clamped to 1..len; at least as many entries as the string has
       bytes, so that the fuel cannot run out), the client's stream-level recogniser
       accepts what is on descriptor 1 and hands on exactly the multiplexer's bytes. *)
Theorem c07_server_start : forall script ops,
  (length server_sync <= length script)%nat ->
  hs_spec client_sync (server_start server_sync script ops) = (true, snd (fst (tx_run ops))).
Proof.
  intros script ops H. unfold server_start.
  rewrite (flush_all_complete script server_sync H). cbn [fst].
  exact (c07_sync_literals _).
Qed.
Print Assumptions c07_server_start.

(* (9b) ... end to end: for every write script on the server's descriptor 1, every
        sequence of sends and partial flushes of its multiplexer and every cutting of the
        resulting byte stream into reads on the client, the handshake succeeds and
        the messages dispatched are a prefix of the messages sent, in order — all of
        them once the server's queue is empty. *)
Theorem c07_server_start_end_to_end : forall script ops chunks,
  (length server_sync <= length script)%nat ->
  Forall nonempty chunks ->
  concat chunks = server_start server_sync script ops ->
  fst (hs_run client_sync chunks) = true /\
  let '(out, wire, sent) := tx_run ops in
  let '(fs, st, s) := rx_feed_all ([], 0) (snd (hs_run client_sync chunks)) in
  s = RxOk /\ prefix fs sent /\ (out = [] -> fs = sent /\ st = ([], 0)).
Proof.
  intros script ops chunks Hlen Hne Hc.
  destruct (c07_handshake chunks Hne) as [Hok Hrest].
  rewrite Hc, (c07_server_start script ops Hlen) in Hok, Hrest. cbn [fst snd] in Hok, Hrest.
  split; [exact Hok|].
  pose proof (c07_link_fifo ops (snd (hs_run client_sync chunks))) as Hl.
  destruct (tx_run ops) as [[out wire] sent]. cbn [fst snd] in Hrest.
  exact (Hl Hrest).
Qed.
Print Assumptions c07_server_start_end_to_end.

(* non-vacuity: one byte per write, a message sent and flushed three bytes at a time *)
Example c07_server_start_example :
  let script := repeat 1 14 in
  let ops := [TxSend (mkFrame 0 16897 [ascii_of_N 99]); TxFlush (Some 3); TxFlush (Some 3); TxFlush (Some 3)] in
  (length server_sync <= length script)%nat /\
  server_start server_sync script ops = server_sync ++ takeN 9 (header 0 16897 1 ++ [ascii_of_N 99]).
Proof. vm_compute. split; [repeat constructor | reflexivity]. Qed.

(* (10) Had the string been written with ONE raw write whose result is ignored, a
        descriptor taking fewer than all 14 bytes would make the client reject the
        stream (or hunt for the string inside the messages): what the property's
        "all partial-write patterns on the sending side" rules out. *)
Theorem c07_sync_single_write_refuted : exists k rest,
  hs_spec client_sync (write_once k server_sync ++ rest) <> (true, rest).
Proof.
  exists 5, (header 0 16897 7 ++ map ascii_of_N [99; 104; 105; 99; 107; 101; 110]).
  vm_compute. discriminate.
Qed.
Print Assumptions c07_sync_single_write_refuted.
