(* Props/C10.v — C10: DNS queries are relayed verbatim, matched to their asker, at most once.
   Statements only; every proof is `exact <lemma>` (or a few lines of glue) into
   Proofs/Dgram_lemmas.v, followed by Print Assumptions.  Model: Model/Dgram.v (the code after
   the repairs F3, F4, F10, F16; `as_found` = the code before them).                          *)
From Coq Require Import List NArith Ascii Bool Lia.
From SV Require Import Lib.Bytes Lib.DgramLib Model.Chan Model.Dgram Proofs.Dgram_lemmas Model.DgramSys Proofs.DgramServer_lemmas Proofs.DgramSystem_lemmas Proofs.DgramMixed_lemmas Model.DgramNs Proofs.DgramNs_lemmas Gen.Consts.
Import ListNotations.
Local Open Scope N_scope.

(* CLIENT, ondns.  Every accepted DNS datagram (any reachable state: `cinv`; any payload, cut at 4096 like recv) is forwarded as exactly one DNS_REQ frame carrying the captured bytes on a fresh identifier whose closure records (original destination, asker); both tables get the entry with deadline now+30; if no identifier is free the datagram is dropped (F3 repaired) — in both cases expire_connections(now) runs: exactly the entries with deadline < now leave dnsreqs / udp_by_src (strict <), one UDP_CLOSE per expired association *)
Theorem c10_verbatim_query :
  forall cfg now src dst payload c,
  cfg_ok cfg -> cinv cfg c -> (cc_method cfg = MTproxy -> dst <> None) ->
  let dst' := match cc_method cfg with MBase => None | MTproxy => dst end in
  match fst (next_channel (cc_maxc cfg) (c_occ c) (c_chani c)) with
  | None =>
    exists c', ondns all_fixed cfg now src dst payload c = Ok (c', closes now c) /\ cinv cfg c' /\
      c_dns c' = filter (fun p => negb (dns_expired now p)) (c_dns c) /\
      c_udp c' = filter (fun p => negb (udp_expired now p)) (c_udp c) /\ c_nq c' = c_nq c /\
      forall ch0 k, alookup N.eqb ch0 (c_chan c') = Some k -> alookup N.eqb ch0 (c_chan c) = Some k
  | Some ch =>
    alookup N.eqb ch (c_chan c) = None /\ 1 <= ch <= 65535 /\
    let c1 := c_after_dns c ch now dst' src in
    exists c', ondns all_fixed cfg now src dst payload c =
                 Ok (c', OFrame ch CMD_DNS_REQ (takeN BUFSIZE payload) :: closes now c) /\
      cinv cfg c1 /\ cinv cfg c' /\
      alookup N.eqb ch (c_chan c') = Some (KDns (c_nq c) dst' src) /\
      alookup N.eqb ch (c_dns c') = Some (now + TIMEOUT) /\
      c_dns c' = filter (fun p => negb (dns_expired now p)) (c_dns c1) /\
      c_udp c' = filter (fun p => negb (udp_expired now p)) (c_udp c) /\
      c_nq c' = c_nq c + 1 /\
      forall ch0, alookup N.eqb ch0 (c_chan c') =
                  if mem ch0 (E1 now c1) || mem ch0 (E2 now c1) then None else alookup N.eqb ch0 (c_chan c1)
  end.
Proof. exact ondns_spec. Qed.
Print Assumptions c10_verbatim_query.

(* SERVER, dns_req + DnsProxy.__init__/try_send, all socket scripts io.  The handler keeps the request bytes; every send carries exactly them (c10_verbatim, resolver side); every connect goes to the configured resolver (port 0 = 53), else to a name server of the host's list (127.0.0.1 if the list is empty), port 53; between 1 and 3 attempts; the handler ends with at most one socket; never an exception (F10 repaired) *)
Theorem c10_target :
  forall cfg now ch data tag s io,
  exists d nsock io' outs,
    dns_req all_fixed cfg now ch data tag s io =
      Ok ({| s_h := s_h s ++ [(s_nhid s, HDns d)]; s_dnsh := aset N.eqb ch (s_nhid s) (s_dnsh s);
             s_udph := s_udph s; s_chan := s_chan s; s_nsock := nsock; s_nhid := s_nhid s + 1 |}, io', outs) /\
    d_request d = data /\ d_chan d = ch /\ d_tag d = tag /\ d_timeout d = now + TIMEOUT /\ d_ok d = true /\
    (length (d_socks d) <= 1)%nat /\ d_tries d <= 3 /\
    (1 <= attempts outs <= 3)%nat /\ Forall (out_target_ok cfg) outs /\ Forall (out_payload_ok data) outs.
Proof. exact dns_req_spec. Qed.
Print Assumptions c10_target.

(* try_send in general (also when re-entered from callback): attempts <= 3 - tries, tries and socket counter advance by the number of attempts, request/channel/deadline untouched *)
Theorem c10_target_attempts :
  forall fx cfg,
  forall left d nsock io d' nsock' io' outs,
  try_send fx cfg left d nsock io = Ok (d', nsock', io', outs) ->
  (attempts outs <= left)%nat /\
  d_tries d' = d_tries d + N.of_nat (attempts outs) /\
  nsock' = nsock + N.of_nat (attempts outs) /\
  Forall (out_target_ok cfg) outs /\ Forall (out_payload_ok (d_request d)) outs /\
  d_request d' = d_request d /\ d_chan d' = d_chan d /\ d_tag d' = d_tag d /\
  d_timeout d' = d_timeout d /\ d_ok d' = d_ok d /\
  (d_socks d' = d_socks d \/ exists s, d_socks d' = d_socks d ++ [s] /\ nsock <= s < nsock') /\
  (length (d_socks d') <= S (length (d_socks d)))%nat.
Proof. exact try_send_spec. Qed.
Print Assumptions c10_target_attempts.

(* no error on connect and send => exactly one attempt, the socket is kept *)
Theorem c10_target_single_attempt :
  forall fx cfg left d nsock io,
  (forall e, fst (pop (snd (dns_target cfg io))) <> IoErr e) ->
  (forall e, fst (pop (snd (pop (snd (dns_target cfg io))))) <> IoErr e) ->
  exists d' io', try_send fx cfg (S left) d nsock io =
    Ok (d', nsock + 1, io', [SConnect nsock (fst (dns_target cfg io)) true; SSend nsock (d_request d) true]) /\
    d_socks d' = d_socks d ++ [nsock].
Proof. exact try_send_clean. Qed.
Print Assumptions c10_target_single_attempt.

(* an error outside NET_ERRS (on connect or on send) => exactly one attempt, no socket kept, no retry: a further attempt happens only after a NET_ERRS error *)
Theorem c10_target_no_retry_on_other_errors :
  forall cfg left d nsock io e,
  is_net_err e = false ->
  (fst (pop (snd (dns_target cfg io))) = IoErr e \/
   ((forall e', fst (pop (snd (dns_target cfg io))) <> IoErr e') /\
    fst (pop (snd (pop (snd (dns_target cfg io))))) = IoErr e)) ->
  exists d' io' outs, try_send all_fixed cfg (S left) d nsock io = Ok (d', nsock + 1, io', outs) /\
    attempts outs = 1%nat /\ d_socks d' = d_socks d.
Proof. exact try_send_hard_error. Qed.
Print Assumptions c10_target_no_retry_on_other_errors.

(* SERVER, DnsProxy.callback on a recv error: the socket is dropped; only a NET_ERRS error re-sends (same bytes, same target rule, within the 3-attempt budget); never an exception; still at most one socket *)
Theorem c10_target_retry :
  forall cfg hid d sock s io e,
  fst (pop io) = IoErr e -> d_socks d = [sock] ->
  exists d' nsock io' outs,
    dns_callback all_fixed cfg hid d sock s io = Ok (set_handler s hid (HDns d') nsock, io', outs) /\
    (length (d_socks d') <= 1)%nat /\ d_request d' = d_request d /\ d_chan d' = d_chan d /\ d_ok d' = d_ok d /\
    Forall (out_payload_ok (d_request d)) outs /\ Forall (out_target_ok cfg) outs /\
    (attempts outs <= tries_left d)%nat /\ (is_net_err e = false -> outs = []).
Proof. exact dns_callback_error. Qed.
Print Assumptions c10_target_retry.

(* the budget over the WHOLE life of a query (what harness/props/dgram_common.py attempt_oracle counts on the real code): every run of
   try_send as the code calls it - budget tries_left d = 3 - tries, from dns_req with tries = 0 (Model/Dgram.v dns_req) and from callback
   after a receive error (dns_callback) - advances tries by exactly the attempts it makes and keeps tries <= 3; tries = 0 at creation, so
   by induction over the runs no query is attempted more than 3 times, whatever mixture of connect / send and receive errors *)
Theorem c10_attempt_budget_whole_life :
  forall fx cfg d nsock io d' nsock' io' outs,
  d_tries d <= 3 ->
  try_send fx cfg (tries_left d) d nsock io = Ok (d', nsock', io', outs) ->
  d_tries d' = d_tries d + N.of_nat (attempts outs) /\ d_tries d' <= 3.
Proof.
  intros fx cfg d nsock io d' nsock' io' outs H3 E.
  destruct (try_send_spec fx cfg _ _ _ _ _ _ _ _ E) as (A & B & _).
  split; [exact B|]. unfold tries_left in A. lia.
Qed.
Print Assumptions c10_attempt_budget_whole_life.

(* SERVER, DnsProxy.callback on data: exactly one DNS_RESPONSE frame with the reply bytes (cut at 4096 like recv(4096)) on the query's identifier, and the handler is marked dead *)
Theorem c10_verbatim_reply :
  forall fx cfg hid d sock s io,
  not_err (fst (pop io)) -> d_chan d <= 65535 ->
  dns_callback fx cfg hid d sock s io =
    Ok (set_handler s hid (HDns (set_dok d false)) (s_nsock s), snd (pop io),
        [SFrame (d_chan d) CMD_DNS_RESPONSE (takeN BUFSIZE (io_bytes (fst (pop io)))) (d_tag d)]).
Proof. exact dns_callback_reply. Qed.
Print Assumptions c10_verbatim_reply.

(* CLIENT, dns_done.  A frame arriving on an identifier held by a DNS query: exactly one datagram with the frame's bytes, sent to the recorded asker from the recorded original destination (None: from the listener itself, for methods that cannot tell); a send error is logged (F16 repaired) — and in every case both tables drop the identifier (c10_release) *)
Theorem c10_to_asker :
  forall cfg c ch q f t data sr,
  cinv cfg c -> alookup N.eqb ch (c_chan c) = Some (KDns q f t) ->
  let c' := {| c_chan := adel N.eqb ch (c_chan c); c_chani := c_chani c;
               c_dns := adel N.eqb ch (c_dns c); c_udp := c_udp c; c_nq := c_nq c |} in
  got_packet all_fixed cfg ch data sr c =
    Ok (c', match sr with SendOk => [ODgram (Some q) f t data] | SendErr _ => [] end) /\
  cinv cfg c' /\ alookup N.eqb ch (c_chan c') = None /\ alookup N.eqb ch (c_dns c') = None.
Proof. exact dns_done_spec. Qed.
Print Assumptions c10_to_asker.

(* a frame for an identifier that is not allocated (late / duplicate reply, expired query) is dropped: no datagram, no state change *)
Theorem c10_late_reply_dropped :
  forall fx cfg c ch data sr,
  alookup N.eqb ch (c_chan c) = None -> got_packet fx cfg ch data sr c = Ok (c, []).
Proof. exact closed_channel_spec. Qed.
Print Assumptions c10_late_reply_dropped.

(* CLIENT, whole runs.  Over every event sequence (queries, UDP, TCP accepts, frames incl. duplicates and late replies, send errors, any times) each query (ghost number q) gets at most one datagram; a query that is no longer registered gets none *)
Theorem c10_at_most_once :
  forall cfg,
  cfg_ok' cfg -> forall evs c q, cinv cfg c -> sane_run cfg c evs ->
  let outs := concat (snd (fst (crun all_fixed cfg c evs))) in
  (count_q q outs <= 1)%nat /\ (q < c_nq c -> ~ in_table q c -> count_q q outs = 0%nat).
Proof. exact client_at_most_once. Qed.
Print Assumptions c10_at_most_once.

(* SERVER.  After every iteration only live handlers remain: a DnsProxy that relayed a reply (ok=False) or timed out is gone before the next select, so it cannot relay a second reply *)
Theorem c10_server_handler_retired :
  forall fx cfg s e s' o,
  sstep fx cfg s e = Ok (s', o) ->
  Forall (fun p => h_ok (snd p) = true) (s_h s').
Proof. exact sstep_handlers_ok. Qed.
Print Assumptions c10_server_handler_retired.

(* CLIENT, under NoStaleReuse (no_stale_reuse: a tagged frame arriving on an identifier currently held by a DNS query belongs to that query, i.e. identifiers are not re-allocated while frames of their previous incarnation are in flight): every datagram emitted for a frame goes to the query the frame answers *)
Theorem c10_no_cross :
  forall cfg,
  cfg_ok' cfg -> forall evs c, cinv cfg c -> sane_run cfg c (map fst evs) ->
  no_stale_reuse cfg c evs -> no_cross_run cfg c evs.
Proof. exact client_no_cross. Qed.
Print Assumptions c10_no_cross.

(* CLIENT, expire_connections(now) from any reachable state never fails and removes exactly the entries with deadline < now from both tables and the channel table, newer ones untouched and in order *)
Theorem c10_expiry :
  forall cfg now c,
  cinv cfg c ->
  exists c', expire now c =
      Ok (c', map (fun p => OFrame (chan_of p) CMD_UDP_CLOSE []) (filter (udp_expired now) (c_udp c))) /\
    cinv cfg c' /\
    c_dns c' = filter (fun p => negb (dns_expired now p)) (c_dns c) /\
    c_udp c' = filter (fun p => negb (udp_expired now p)) (c_udp c) /\
    c_chani c' = c_chani c /\ c_nq c' = c_nq c /\
    forall ch, alookup N.eqb ch (c_chan c') =
               if mem ch (E1 now c) || mem ch (E2 now c) then None else alookup N.eqb ch (c_chan c).
Proof. exact expire_spec. Qed.
Print Assumptions c10_expiry.

(* SERVER sweep: a registered handler stays iff timeout >= now and it is still ok *)
Theorem c10_expiry_server :
  forall now s ch hid d,
  NoDup (map fst (s_dnsh s)) -> alookup N.eqb ch (s_dnsh s) = Some hid -> alookup N.eqb hid (s_h s) = Some (HDns d) ->
  alookup N.eqb ch (s_dnsh (sweep now s)) =
    if (d_timeout d <? now) || negb (d_ok d) then None else Some hid.
Proof. exact sweep_dns_spec. Qed.
Print Assumptions c10_expiry_server.

(* SERVER sweep never adds entries *)
Theorem c10_expiry_server_untouched :
  forall now s ch,
  NoDup (map fst (s_dnsh s)) -> alookup N.eqb ch (s_dnsh s) = None -> alookup N.eqb ch (s_dnsh (sweep now s)) = None.
Proof. exact sweep_dns_untouched. Qed.
Print Assumptions c10_expiry_server_untouched.

(* CLIENT: from any reachable state every protocol-conforming event is handled without exception and preserves the invariant (identifier exhaustion and send errors included) *)
Theorem c10_no_crash_step :
  forall cfg c e,
  cfg_ok' cfg -> cinv cfg c -> ev_sane cfg c e ->
  exists c' o, cstep all_fixed cfg c e = Ok (c', o) /\ cinv cfg c' /\ c_nq c <= c_nq c' /\
    (forall q, in_table q c' -> in_table q c \/ c_nq c <= q) /\
    (forall q, (count_q q o <= 1)%nat /\ (count_q q o = 1%nat -> in_table q c /\ ~ in_table q c')).
Proof. exact cstep_ok. Qed.
Print Assumptions c10_no_crash_step.

(* CLIENT, whole runs: no exception ever, one observation per event *)
Theorem c10_no_crash :
  forall cfg,
  cfg_ok' cfg -> forall evs c, cinv cfg c -> sane_run cfg c evs ->
  snd (crun all_fixed cfg c evs) = Ok tt /\ cinv cfg (fst (fst (crun all_fixed cfg c evs))) /\
  length (snd (fst (crun all_fixed cfg c evs))) = length evs.
Proof. exact client_run_ok. Qed.
Print Assumptions c10_no_crash.

(* SERVER: try_send never raises whatever the resolver socket does *)
Theorem c10_no_crash_resolver :
  forall cfg,
  forall left d nsock io, exists r, try_send all_fixed cfg left d nsock io = Ok r.
Proof. exact try_send_no_crash. Qed.
Print Assumptions c10_no_crash_resolver.

(* c10_release: answered => both client tables drop the identifier *)
Corollary c10_release : forall cfg c ch q f t data sr,
  cinv cfg c -> alookup N.eqb ch (c_chan c) = Some (KDns q f t) ->
  exists c' o, got_packet all_fixed cfg ch data sr c = Ok (c', o) /\
    alookup N.eqb ch (c_chan c') = None /\ alookup N.eqb ch (c_dns c') = None.
Proof.
  intros cfg c ch q f t data sr I H. destruct (dns_done_spec cfg c ch q f t data sr I H) as (E & _ & A & B).
  eexists. eexists. split; [exact E|]. split; [exact A|exact B].
Qed.
Print Assumptions c10_release.

(* SERVER, the loop as a whole (server.main's `while mux.ok:` = sstep; whole runs = srun), for ALL event scripts:
   any frames (DNS_REQ, UDP_OPEN/DATA/CLOSE, others, any bodies, 16-bit identifiers as on the wire), any ready
   sets, any socket behaviour, any times.  Every reachable state satisfies the handler-table invariant `sinv`
   (Proofs/DgramServer_lemmas.v): handlers have distinct identities; a dnshandlers entry still in `handlers` is
   a DnsProxy of that identifier, an udphandlers entry a UdpProxy of that identifier; every open channel has a
   registered, present, live UdpProxy.  (Not claimed, because false in the code: that every DnsProxy is
   registered — a DNS_REQ re-using an identifier overwrites dnshandlers[id]; the older DnsProxy lives on in
   `handlers`, is never timed out by the sweep and is retired only by its own reply: c10_server_alias_example.) *)
Theorem c10_server_invariant :
  forall cfg evs,
    (forall e, In e evs -> forall f, In f (se_frames e) -> fst (fst (fst f)) <= 65535) ->
    sinv (fst (fst (srun all_fixed cfg s_init evs))).
Proof. exact server_invariant_reachable. Qed.
Print Assumptions c10_server_invariant.

(* the invariant is inductive: preserved by one whole iteration (frame dispatch, every handler visit of runonce,
   both sweeps, removal of dead handlers) from ANY state satisfying it; an iteration that raises does so for a
   reason that can be read off the event (step_cause) *)
Theorem c10_server_step_invariant :
  forall cfg s e,
    sinv s -> Forall (fun f => fst (fst (fst f)) <= 65535) (se_frames e) ->
    match sstep all_fixed cfg s e with
    | Ok (s', _) => sinv s' /\ s_chan s' = track (s_chan s) (se_frames e)
    | Fatal => False
    | Crash x => step_cause (s_chan s) (only_dns s) e x
    end.
Proof.
  intros cfg s e I H. pose proof (sstep_inv cfg s e I H) as R.
  destruct (sstep all_fixed cfg s e) as [[s' o]| |x]; [|exact R|exact R].
  destruct R as (A & B & _). split; [exact A|exact B].
Qed.
Print Assumptions c10_server_step_invariant.

(* ALL scripts: the only exceptions the loop can raise are AssertionError, ValueError and OverflowError — never
   KeyError (the look-ups dnshandlers/udphandlers[channel] are total), OSError, UnboundLocalError, struct.error —
   and each has its reason in the script: XAssert = a DNS_REQ/UDP_OPEN on an identifier that is open, or (only
   when UDP is in play) a recvfrom peer address text > 61000 bytes; XValue = an UDP_OPEN/UDP_DATA body that does
   not parse; XOverflow = an UDP_DATA port above 65535 *)
Theorem c10_server_crash_classified :
  forall cfg evs x,
    (forall e, In e evs -> forall f, In f (se_frames e) -> fst (fst (fst f)) <= 65535) ->
    snd (srun all_fixed cfg s_init evs) = Crash x ->
    (x = XAssert /\ (~ run_no_reopen [] evs \/
                     (~ (forall e, In e evs -> forall f, In f (se_frames e) -> snd (fst (fst f)) = FDnsReq) /\
                      ~ (forall e, In e evs -> forall it, In it (se_io e) -> io_ok it)))) \/
    (x = XValue /\ ~ (forall e, In e evs -> forall f, In f (se_frames e) -> body_ok f)) \/
    (x = XOverflow /\ ~ (forall e, In e evs -> forall f, In f (se_frames e) -> data_body_ok f)).
Proof.
  intros cfg evs x H E. destruct (server_crash_classified cfg evs x H E) as [[-> [A|[A B]]]|[[-> A]|[-> A]]].
  - left. split; [reflexivity|left; exact A].
  - left. split; [reflexivity|]. right. split; [|exact B]. intros D. apply A. split; [exact only_dns_init|exact D].
  - right. left. split; [reflexivity|exact A].
  - right. right. split; [reflexivity|exact A].
Qed.
Print Assumptions c10_server_crash_classified.

(* scripts of a conforming peer and real sockets — no DNS_REQ/UDP_OPEN on an open identifier (the client's
   allocator: C06), bodies as the client builds them, recvfrom peers of address size; DNS and UDP mixed in any
   way — never raise *)
Theorem c10_server_no_crash_conforming :
  forall cfg evs,
    (forall e, In e evs -> forall f, In f (se_frames e) -> fst (fst (fst f)) <= 65535) ->
    run_no_reopen [] evs ->
    (forall e, In e evs -> forall f, In f (se_frames e) -> body_ok f) ->
    (forall e, In e evs -> forall it, In it (se_io e) -> io_ok it) ->
    forall x, snd (srun all_fixed cfg s_init evs) <> Crash x.
Proof. exact server_no_crash_conforming. Qed.
Print Assumptions c10_server_no_crash_conforming.

(* DNS-only scripts (the former gap): the whole server loop never raises, for every script — any number of
   queries, identifiers re-used early or not, every resolver-socket behaviour, any times *)
Theorem c10_server_no_crash_full :
  forall cfg evs,
    (forall e, In e evs -> forall f, In f (se_frames e) ->
       snd (fst (fst f)) = FDnsReq /\ fst (fst (fst f)) <= 65535) ->
    forall x, snd (srun all_fixed cfg s_init evs) <> Crash x.
Proof. exact server_no_crash_dns. Qed.
Print Assumptions c10_server_no_crash_full.

(* non-vacuity of the classification: every reason has a script; the aliasing corner as the code behaves *)
Example c10_server_causes_example :
  snd (srun all_fixed w_scfg s_init w_reopen) = Crash XAssert /\
  snd (srun all_fixed w_scfg s_init w_badopen) = Crash XValue /\
  snd (srun all_fixed w_scfg s_init w_bigport) = Crash XOverflow /\
  snd (srun as_found w_scfg s_init w_fatal_reopen) = Fatal /\
  snd (srun all_fixed w_scfg s_init w_fatal_reopen) = Ok tt /\
  snd (srun all_fixed w_scfg s_init w_reopen_next_iteration) = Ok tt.
Proof. exact witnesses_crash. Qed.
Example c10_server_alias_example :
  let s := fst (fst (srun all_fixed w_scfg s_init w_alias)) in
  map fst (s_h s) = [0; 1] /\ s_dnsh s = [(7, 1)] /\ snd (srun all_fixed w_scfg s_init w_alias) = Ok tt.
Proof. exact alias_state. Qed.

(* THE TWO-ENDED SYSTEM (Proofs/DgramSystem_lemmas.v): the client step function and the server iteration composed
   over two reliable FIFO links — `ystep`: a listener event at the client (its frames are appended to the up
   link, DNS_REQ frames tagged with the ghost number of the query), a server iteration reading any number of
   frames off the up link (its frames are appended to the down link, DNS_RESPONSE frames tagged with the ghost
   tag of the DnsProxy that produced them), or the client handling the next frame of the down link.
   Hypothesis, stated ONCE for the system (no_stale_alloc): whenever the client puts a DNS_REQ for identifier ch
   on the wire, nothing of a previous DNS incarnation of ch is in flight — no DNS_REQ of ch on the up link, no
   DnsProxy of ch on the server (pending, or aliased), no DNS_RESPONSE of ch on the down link.
   Conclusion (no_cross_sys): along the whole run, whenever the client handles a frame produced by the DnsProxy
   of query t, every datagram it emits for a query is for query t — a reply is never delivered to another
   requester.  All runs: any listener events (DNS, UDP, TCP accepts; sizes as the kernel delivers them), any
   server schedules / ready sets / socket behaviour, any times, any delivery order the FIFO links allow. *)
Theorem c10_no_cross_composed :
  forall cc sc, cfg_ok' cc -> forall evs,
  accepts_sane cc sc y_init evs -> no_stale_alloc cc sc y_init evs -> no_cross_sys cc sc y_init evs.
Proof. intros cc sc H evs. exact (system_no_cross_init cc sc H evs). Qed.
Print Assumptions c10_no_cross_composed.

(* the system invariant behind it (every (identifier, tag) pair in flight — up link, server handlers, down link —
   is owned by the query that currently holds the identifier at the client, if any) holds initially and is
   preserved by every system step that respects the hypothesis; each step of such a run is cross-free *)
Theorem c10_system_invariant :
  forall cc sc, cfg_ok' cc -> forall y e y' ob,
  yinv cc y -> match e with YAccept ce => ev_sane cc (y_c y) ce | _ => True end ->
  ystep cc sc y e = Some (y', ob) ->
  match ob with
  | ObsClient _ o => forall ch d, In (OFrame ch CMD_DNS_REQ d) o -> ~ in_flight ch y
  | ObsServer _ => True
  end ->
  yinv cc y' /\
  match ob with
  | ObsClient (Some t) o => forall q f a d, In (ODgram (Some q) f a d) o -> q = t
  | _ => True
  end.
Proof. exact ystep_inv. Qed.
Print Assumptions c10_system_invariant.

(* SERVER half of it, for every code path and both code versions: an iteration never invents an
   (identifier, tag) pair — handlers afterwards and DNS_RESPONSE frames emitted carry pairs of handlers before or
   of DNS_REQ frames dispatched *)
Theorem c10_server_tags_move_only :
  forall (P : N -> N -> Prop) fx cfg s e s' o,
  s_tags P s -> Forall (frame_tags P) (se_frames e) -> sstep fx cfg s e = Ok (s', o) ->
  s_tags P s' /\ Forall (out_tags P) o.
Proof. exact sstep_tags. Qed.
Print Assumptions c10_server_tags_move_only.

(* the DNS-only two-ended system never raises — on EITHER side, with no hypothesis on the run: any schedule of
   DNS listener events / server iterations / deliveries, any resolver-socket behaviour, send errors, times, number
   of identifiers (exhaustion and early re-use included: stale replies are mis-delivered, c10_stale_reuse_example,
   but nothing crashes).  `raises y e x`: the component that event e runs in state y returns Crash x *)
Theorem c10_system_dns_never_raises :
  forall cc sc, cfg_ok' cc -> forall evs,
  Forall dns_event evs -> never_raises cc sc y_init evs.
Proof. intros cc sc H evs. apply (system_dns_never_raises cc sc H). apply dinv_init. Qed.
Print Assumptions c10_system_dns_never_raises.

(* END TO END with DNS, UDP and TCP-accept events mixed (Proofs/DgramMixed_lemmas.v; the same theorem is
   c11_system_never_raises, where the statement is explained): along every sane run of the composed system from
   y_init, under the single hypothesis no_stale_alloc_any (an identifier is not put on the wire for a new flow
   while anything of its previous incarnation is in flight), neither the client nor the server ever raises or
   leaves through Fatal.  The server half holds without the hypothesis (c11_system_server_never_raises); for
   DNS-only runs neither side needs it (c10_system_dns_never_raises above). *)
Theorem c10_system_never_raises :
  forall cc sc, cfg_ok' cc -> forall evs,
  run_sane cc sc y_init evs -> no_stale_alloc_any cc sc y_init evs -> never_fails cc sc y_init evs.
Proof. intros cc sc H evs. exact (system_never_fails_init cc sc H evs). Qed.
Print Assumptions c10_system_never_raises.

(* non-vacuity: a run satisfying both hypotheses in which the reply reaches its asker *)
Example c10_composed_life_cycle :
  accepts_sane w_cfgN w_scfg y_init w_sys_life /\ no_stale_alloc w_cfgN w_scfg y_init w_sys_life /\
  yrun w_cfgN w_scfg y_init w_sys_life =
  [ObsClient None [OFrame 1 CMD_DNS_REQ ["q"%char]];
   ObsServer [SConnect 0 (["n"%char], 53) true; SSend 0 ["q"%char] true];
   ObsServer [SFrame 1 CMD_DNS_RESPONSE ["r"%char] 0];
   ObsClient (Some 0) [ODgram (Some 0) None w_a1 ["r"%char]]].
Proof. split; [exact (proj1 life_hyps)|split; [exact (proj2 life_hyps)|exact life_run]]. Qed.

(* the hypothesis is needed: with one identifier (MAX_CHANNEL = 1) query 0 expires at the client while its
   DnsProxy is pending, query 1 of another asker re-uses identifier 1, and the answer to query 0 (tag 0) is
   delivered to the asker of query 1 — replayed on the real code by harness/props/dgram_common.py
   system_stale_witness *)
Theorem c10_stale_reuse_example :
  accepts_sane w_cfg1 w_scfg y_init w_sys_stale /\ ~ no_stale_alloc w_cfg1 w_scfg y_init w_sys_stale /\
  ~ no_cross_sys w_cfg1 w_scfg y_init w_sys_stale /\
  last (yrun w_cfg1 w_scfg y_init w_sys_stale) (ObsServer []) = ObsClient (Some 0) [ODgram (Some 1) None w_a2 ["o"%char]].
Proof.
  destruct stale_cross as (A & B & C). split; [exact A|]. split; [exact C|]. split; [exact B|].
  rewrite stale_run. reflexivity.
Qed.
Print Assumptions c10_stale_reuse_example.

(* ---- the code as found (before the repairs): refuted, witnesses replayed on the real code ---- *)
Theorem c10_f3_refuted : exists cfg evs,
  snd (crun as_found cfg c_init evs) = Crash XStruct /\ snd (crun all_fixed cfg c_init evs) = Ok tt.
Proof. exists w_cfg1, w_f3. split; vm_compute; reflexivity. Qed.
Print Assumptions c10_f3_refuted.

Theorem c10_f16_refuted : exists cfg evs,
  snd (crun as_found cfg c_init evs) = Crash XOSError /\ snd (crun all_fixed cfg c_init evs) = Ok tt.
Proof. exists w_cfgN, w_f16. split; vm_compute; reflexivity. Qed.
Print Assumptions c10_f16_refuted.

Theorem c10_f10_refuted : exists cfg evs,
  snd (srun as_found cfg s_init evs) = Crash XOSError /\ snd (srun all_fixed cfg s_init evs) = Ok tt.
Proof. exists w_scfg, w_f10. split; vm_compute; reflexivity. Qed.
Print Assumptions c10_f10_refuted.

(* CLIENT, identifiers of FINISHED TCP flows.  A TCP flow that is over (its MuxWrapper has done noread + nowrite)
   leaves `channels[n] = None` behind; next_channel tests `not self.channels.get(n)`, so such an identifier is
   FREE.  (1) the end of a TCP flow puts TCP_STOP_SENDING + TCP_EOF on the wire, frees exactly that identifier
   and touches nothing else, in every reachable state; *)
Theorem c10_tcp_end_releases_identifier :
  forall cfg c tch c1 o1,
  cinv cfg c -> alookup N.eqb tch (c_chan c) = Some KTcp ->
  cstep all_fixed cfg c (ETcpEnd tch) = Ok (c1, o1) ->
  o1 = [OFrame tch CMD_TCP_STOP_SENDING []; OFrame tch CMD_TCP_EOF []] /\ cinv cfg c1 /\ c_occ c1 tch = false /\
  c_chani c1 = c_chani c /\ c_dns c1 = c_dns c /\ c_udp c1 = c_udp c /\
  (forall ch0, ch0 <> tch -> alookup N.eqb ch0 (c_chan c1) = alookup N.eqb ch0 (c_chan c)).
Proof. exact tcp_end_then_free. Qed.
Print Assumptions c10_tcp_end_releases_identifier.

(* (2) "each captured DNS datagram is forwarded": in every reachable state, if ANY of the 1024 identifiers the
   cursor visits next is free (k-th one, k < 1024; the cursor wraps at MAX_CHANNEL), the query goes out as
   exactly one DNS_REQ with the captured bytes (then the sweep's UDP_CLOSEs); *)
Theorem c10_query_forwarded_if_identifier_free :
  forall cfg now src dst payload c k,
  cfg_ok cfg -> cinv cfg c -> (cc_method cfg = MTproxy -> dst <> None) ->
  (k < TRIES)%nat -> c_occ c (chan_iter (S k) (cc_maxc cfg) (c_chani c)) = false ->
  exists ch c', ondns all_fixed cfg now src dst payload c =
                Ok (c', OFrame ch CMD_DNS_REQ (takeN BUFSIZE payload) :: closes now c).
Proof. exact ondns_forwards_if_free. Qed.
Print Assumptions c10_query_forwarded_if_identifier_free.

(* (3) together: a query captured after a TCP flow has finished is forwarded whenever the cursor reaches that
   flow's identifier within its 1024 steps - however many other identifiers are taken, also after a wrap *)
Theorem c10_query_forwarded_after_tcp_end :
  forall cfg c tch c1 o1 now src dst payload k,
  cfg_ok cfg -> cinv cfg c -> alookup N.eqb tch (c_chan c) = Some KTcp ->
  cstep all_fixed cfg c (ETcpEnd tch) = Ok (c1, o1) ->
  (cc_method cfg = MTproxy -> dst <> None) ->
  (k < TRIES)%nat -> chan_iter (S k) (cc_maxc cfg) (c_chani c1) = tch ->
  exists ch c', ondns all_fixed cfg now src dst payload c1 =
                Ok (c', OFrame ch CMD_DNS_REQ (takeN BUFSIZE payload) :: closes now c1).
Proof. exact query_after_tcp_end. Qed.
Print Assumptions c10_query_forwarded_after_tcp_end.

(* the hypotheses are satisfiable, and the wrap matters: MAX_CHANNEL 2, both identifiers used by TCP flows, one
   ends, the next two queries: the first re-uses identifier 1 after the wrap, the second finds nothing free *)
Example c10_finished_tcp_identifier_reused :
  snd (fst (crun all_fixed {| cc_method := MBase; cc_maxc := 2; cc_family := 2 |} c_init
        [ETcp 100 2 w_a1; ETcp 100 2 w_a1; ETcpEnd 1; ETcpEnd 7; EDns 101 w_a1 None ["q"%char]; EDns 101 w_a1 None ["r"%char]])) =
  [[OFrame 1 CMD_TCP_CONNECT (dec 2 ++ comma :: fst w_a1 ++ comma :: dec (snd w_a1))];
   [OFrame 2 CMD_TCP_CONNECT (dec 2 ++ comma :: fst w_a1 ++ comma :: dec (snd w_a1))];
   [OFrame 1 CMD_TCP_STOP_SENDING []; OFrame 1 CMD_TCP_EOF []]; [];
   [OFrame 1 CMD_DNS_REQ ["q"%char]]; []].
Proof. vm_compute. reflexivity. Qed.

(* SERVER, "otherwise a system name server of the remote host" while that host's /etc/resolv.conf is REWRITTEN during the
   life of the server process.  Model/DgramNs.v try_send_ns = DnsProxy.try_send with the environment answering every
   attempt with the list the file holds at that moment (nss: one list per attempt; get_random_nameserver reads the file
   for every attempt).  conn_current cfg nss outs: the k-th connect of outs goes to the configured resolver if one is
   configured, otherwise to port 53 of a MEMBER OF THE k-th LIST (127.0.0.1 when that list is empty) - never to a member
   of an earlier list.  The real code is held to this statement by the resolv.conf histories of harness/props/dgram_common.py
   (run_c10_resolv: implementation-side oracle on the real helpers.get_random_nameserver / resolvconf_nameservers). *)
Theorem c10_attempt_target_current :
  forall fx cfg left nss d nsock io d' nsock' io' outs,
    try_send_ns fx cfg nss left d nsock io = Ok (d', nsock', io', outs) -> conn_current cfg nss outs.
Proof. exact try_send_ns_current. Qed.
Print Assumptions c10_attempt_target_current.

(* with no rewrite scripted, try_send_ns is the try_send of Model/Dgram.v that the correspondence runs against the real loop *)
Theorem c10_try_send_ns_conservative :
  forall fx cfg left d nsock io, try_send_ns fx cfg [] left d nsock io = try_send fx cfg left d nsock io.
Proof. exact try_send_ns_nil. Qed.
Print Assumptions c10_try_send_ns_conservative.

(* non-vacuity: list [A], then empty, then [B]; the first two connects are refused: A, 127.0.0.1, B *)
Example c10_attempt_target_current_example :
  try_send_ns all_fixed {| sc_to_ns := None; sc_sysns := [] |} [[w_nsA]; []; [w_nsB]] 3 w_d0 0 [IoOk; IoErr 111; IoOk; IoErr 111] =
  Ok (set_socks (set_tries w_d0 3) [2], 3, [],
      [SConnect 0 (w_nsA, 53) false; SConnect 1 (localhost, 53) false; SConnect 2 (w_nsB, 53) true; SSend 2 ["q"%char] true]).
Proof. exact try_send_ns_example. Qed.

(* ---- non-vacuity ---- *)
Example c10_init_reachable : cinv w_cfgN c_init.
Proof. exact (cinv_init w_cfgN). Qed.
Example c10_cfg_ok : cfg_ok' w_cfgN.
Proof. split; [split|]; apply N.leb_le || apply N.ltb_lt; reflexivity. Qed.
Example c10_life_cycle :
  snd (fst (crun all_fixed w_cfgN c_init
        [EDns 100 w_a1 None ["q"%char]; EFrame 1 ["r"%char] SendOk; EFrame 1 ["r"%char] SendOk])) =
  [[OFrame 1 CMD_DNS_REQ ["q"%char]]; [ODgram (Some 0) None w_a1 ["r"%char]]; []].
Proof. vm_compute. reflexivity. Qed.
